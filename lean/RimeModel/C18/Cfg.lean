/-!
C18 / M-cfg — the configuration tree of `src/rime/config/config_types.h`.

* a C++ `an<ConfigItem>` is a `Cfg`; the null pointer (and a `ConfigItem` of type `kNull`, which no
  modelled operation creates) is `Cfg.null`;
* `ConfigValue::value_` is a byte string (`Bytes`);
* `ConfigList::seq_` (`vector<an<ConfigItem>>`) is a `List Cfg`;
* `ConfigMap::map_` (`std::map<string, an<ConfigItem>>`) is an association list kept strictly sorted
  by the byte-wise order of `std::string::compare`; sortedness is the separate predicate `Cfg.WF`
  (never a subtype), preserved by every modelled operation (`Lemmas`).
Executable definitions only.
-/
namespace RimeModel.C18

abbrev Bytes := List UInt8

inductive Cfg where
  | null
  | scalar (s : Bytes)
  | list (xs : List Cfg)
  | map (kvs : List (Bytes × Cfg))
  deriving Repr, Inhabited

/-- `std::string::compare(a, b) < 0`: lexicographic on unsigned bytes, a proper prefix is smaller -/
def bytesLt : Bytes → Bytes → Bool
  | [], [] => false
  | [], _ :: _ => true
  | _ :: _, [] => false
  | a :: as, b :: bs => if a.toNat < b.toNat then true else if b.toNat < a.toNat then false else bytesLt as bs

/-! ### `ConfigMap` -/

/-- `ConfigMap::Get`: the stored pointer, null when the key is absent -/
def mapGet : List (Bytes × Cfg) → Bytes → Cfg
  | [], _ => .null
  | (k, v) :: rest, key => if k = key then v else mapGet rest key

/-- `ConfigMap::HasKey` is `bool(Get(key))`; membership of the key itself is this -/
def mapHas : List (Bytes × Cfg) → Bytes → Bool
  | [], _ => false
  | (k, _) :: rest, key => k = key || mapHas rest key

/-- `map_[key] = element` on the sorted association list -/
def mapSet : List (Bytes × Cfg) → Bytes → Cfg → List (Bytes × Cfg)
  | [], key, v => [(key, v)]
  | (k, x) :: rest, key, v =>
    if k = key then (key, v) :: rest
    else if bytesLt key k then (key, v) :: (k, x) :: rest
    else (k, x) :: mapSet rest key v

/-! ### `ConfigList` -/

/-- `ConfigList::GetAt` -/
def listGet (xs : List Cfg) (i : Nat) : Cfg := xs.getD i .null

/-- `seq_.resize(n)` when `n ≥ size` (fills with null pointers); no-op otherwise is NOT modelled here:
the two callers only grow -/
def padTo (xs : List Cfg) (n : Nat) : List Cfg := xs ++ List.replicate (n - xs.length) .null

/-- `ConfigList::SetAt` -/
def listSetAt (xs : List Cfg) (i : Nat) (v : Cfg) : List Cfg := (padTo xs (i + 1)).set i v

/-- `ConfigList::Insert` -/
def listInsert (xs : List Cfg) (i : Nat) (v : Cfg) : List Cfg :=
  let ys := padTo xs i
  ys.take i ++ v :: ys.drop i

/-! ### normal form for the save/load comparison: entries with null values removed
(`EmitYaml` skips null map values; a null list element emits nothing at all, so it disappears too) -/

def Cfg.isNull : Cfg → Bool
  | .null => true
  | _ => false

mutual
def Cfg.norm : Cfg → Cfg
  | .null => .null
  | .scalar s => .scalar s
  | .list xs => .list (Cfg.normL xs)
  | .map kvs => .map (Cfg.normM kvs)
def Cfg.normL : List Cfg → List Cfg
  | [] => []
  | x :: xs => if x.isNull then Cfg.normL xs else Cfg.norm x :: Cfg.normL xs
def Cfg.normM : List (Bytes × Cfg) → List (Bytes × Cfg)
  | [] => []
  | (k, v) :: rest => if v.isNull then Cfg.normM rest else (k, Cfg.norm v) :: Cfg.normM rest
end

/-! ### boolean equality (the nested inductive has no derived `DecidableEq`) -/
mutual
def Cfg.beq : Cfg → Cfg → Bool
  | .null, .null => true
  | .scalar a, .scalar b => a == b
  | .list xs, .list ys => Cfg.beqL xs ys
  | .map xs, .map ys => Cfg.beqM xs ys
  | _, _ => false
def Cfg.beqL : List Cfg → List Cfg → Bool
  | [], [] => true
  | x :: xs, y :: ys => Cfg.beq x y && Cfg.beqL xs ys
  | _, _ => false
def Cfg.beqM : List (Bytes × Cfg) → List (Bytes × Cfg) → Bool
  | [], [] => true
  | (k, x) :: xs, (j, y) :: ys => k == j && Cfg.beq x y && Cfg.beqM xs ys
  | _, _ => false
end

/-! ### well-formedness: every map strictly key-sorted (what `std::map` guarantees) -/

def keysSorted : List (Bytes × Cfg) → Bool
  | [] => true
  | [_] => true
  | (k, _) :: (j, y) :: rest => bytesLt k j && keysSorted ((j, y) :: rest)

mutual
def Cfg.wf : Cfg → Bool
  | .null => true
  | .scalar _ => true
  | .list xs => Cfg.wfL xs
  | .map kvs => keysSorted kvs && Cfg.wfM kvs
def Cfg.wfL : List Cfg → Bool
  | [] => true
  | x :: xs => Cfg.wf x && Cfg.wfL xs
def Cfg.wfM : List (Bytes × Cfg) → Bool
  | [] => true
  | (_, v) :: rest => Cfg.wf v && Cfg.wfM rest
end

/-- `ConfigItem::type()` with the null pointer shown as `kNull` -/
inductive Ty where
  | null | scalar | list | map
  deriving DecidableEq, Repr

def Cfg.ty : Cfg → Ty
  | .null => .null
  | .scalar _ => .scalar
  | .list _ => .list
  | .map _ => .map

end RimeModel.C18
