import RimeModel.C18.BlockThms
/-! whole-document round trip of C18 proved here, restated in Props/C18.lean -/
namespace RimeModel.C18

/-- the one root the writer cannot mark: under the legacy policy a root scalar `...` is written plain and
is a document end marker.  (Under `LitPolicy.safe` it is double-quoted: `rootOK_safe`.) -/
def RootOK (pol : LitPolicy) (t : Cfg) : Prop :=
  ∀ s, t = .scalar s → styleOf pol false s = .plain → s ≠ threeDots

theorem rootOK_safe (t : Cfg) : RootOK .safe t := by
  intro s _ hst
  exact (styleOf_plain_facts .safe false s hst).2.2.2 rfl

theorem emitSeq_head (pol : LitPolicy) (d : Nat) (xs : List Cfg) (hi : hasItemL xs = true) :
    ∃ r ls, emitSeq pol d xs = (45 :: r) :: ls := by
  induction xs with
  | nil => simp [hasItemL] at hi
  | cons x xs ih =>
    rw [emitSeq]
    by_cases hx : x.isNull = true
    · simp only [hx, if_true]; exact ih (by simpa [hasItemL, hx] using hi)
    · simp only [hx, Bool.false_eq_true, if_false]; exact ⟨_, _, rfl⟩

theorem emitMap_head (pol : LitPolicy) (d : Nat) (kvs : List (Bytes × Cfg)) (hi : hasItemM kvs = true)
    (hok : TreeOKM pol kvs) :
    ∃ (k : Bytes) (c : Chunk) (ls : List Bytes),
      emitMap pol d kvs = (inlineScalar pol false k ++ 58 :: c.first) :: ls ∧ KeyOK pol k := by
  induction kvs with
  | nil => simp [hasItemM] at hi
  | cons kv kvs ih =>
    obtain ⟨k, v⟩ := kv
    rw [TreeOKM] at hok
    rw [emitMap]
    by_cases hx : v.isNull = true
    · simp only [hx, if_true]; exact ih (by simpa [hasItemM, hx] using hi) hok.2.2
    · simp only [hx, Bool.false_eq_true, if_false]; exact ⟨k, _, _, rfl, hok.1⟩

theorem parseInline_dash (r : Bytes) : parseInline (45 :: r) = none := by
  unfold parseInline
  split
  · rename_i heq; simp at heq
  · simp [takePlain, isPlainSafe, isAlnum, isDigit, isUpper, isLower]

theorem parseLines_cons (l : Bytes) (rest : List Bytes) (h : l :: rest ≠ [[]]) :
    parseLines (l :: rest) =
      if l = [124] then (readLiteral rest true).map .scalar
      else if startsFlow l then parseBlock ((l :: rest).length + flowDepth + 1) (l :: rest) true
      else
        match parseInline l with
        | some (s, plain, r) =>
          if r.isEmpty then
            if rest.isEmpty then
              (if plain && s = threeDots then some .null else some (scalarNode s plain))
            else none
          else parseBlock ((l :: rest).length + flowDepth + 1) (l :: rest) true
        | none => parseBlock ((l :: rest).length + flowDepth + 1) (l :: rest) true := by
  unfold parseLines
  simp only [h, if_false]
  rfl

/-- **the save/load round trip at the level of lines**: for every tree of the domain, reading the lines the
writer produces gives the tree's normal form -/
theorem lines_rt (pol : LitPolicy) (t : Cfg) (hok : TreeOK pol t) (hroot : RootOK pol t) :
    parseLines (emitDocLines pol t) = some t.norm := by
  unfold emitDocLines
  by_cases hn : t.isNull = true
  · cases t with
    | null => simp [Cfg.isNull, parseLines, Cfg.norm]
    | scalar s => simp [Cfg.isNull] at hn
    | list xs => simp [Cfg.isNull] at hn
    | map kvs => simp [Cfg.isNull] at hn
  · have hn' : t.isNull = false := by simpa using hn
    simp only [hn', Bool.false_eq_true, if_false]
    cases t with
    | null => simp [Cfg.isNull] at hn'
    | scalar s =>
      rw [TreeOK] at hok
      rw [emitChild]
      by_cases hst : styleOf pol false s = .literal
      · rw [scalarChunk_literal pol s hst]
        simp only [List.isEmpty_cons, Bool.false_eq_true, if_false, List.drop_succ_cons, List.drop_zero]
        rw [parseLines_cons _ _ (by simp)]
        simp only [if_true]
        rw [readLiteral_literalPieces s true hok.1 (hok.2 (styleOf_block_literal pol s hst))]
        rfl
      · rw [scalarChunk_nonliteral pol s hst]
        simp only [List.isEmpty_cons, Bool.false_eq_true, if_false, List.drop_succ_cons, List.drop_zero,
          indentLines, List.map_nil]
        obtain ⟨plain, hp, hnw, hpl⟩ := parseInline_inlineScalar pol false s [] hok.1 restOK_nil
        rw [List.append_nil] at hp
        obtain ⟨b, r, e, hb⟩ := inlineScalar_head pol false s
        have h124 : inlineScalar pol false s ≠ [124] := by
          rw [e]; intro h; simp only [List.cons.injEq] at h
          exact inlineStart_ne b hb 124 (by decide) h.1
        have hsf : startsFlow (inlineScalar pol false s) = false := by
          rw [e]
          simp only [startsFlow, headIs, Bool.or_eq_false_iff, decide_eq_false_iff_not]
          exact ⟨inlineStart_ne b hb 91 (by decide), inlineStart_ne b hb 123 (by decide)⟩
        rw [parseLines_cons _ _ (by rw [e]; simp)]
        simp only [h124, hsf, if_false, Bool.false_eq_true, hp, List.isEmpty_nil, if_true]
        have h3 : (plain && decide (s = threeDots)) = false := by
          cases plain with
          | false => rfl
          | true =>
            have := hroot s rfl (hpl rfl)
            simp [this]
        simp only [h3, Bool.false_eq_true, if_false, scalarNode, Cfg.norm]
        cases plain <;> simp_all
    | list xs =>
      have hokL : TreeOKL pol xs := by rw [TreeOK] at hok; exact hok
      rw [emitChild]
      by_cases hd : 0 ≥ flowDepth
      · simp only [hd, if_true, List.isEmpty_cons, Bool.false_eq_true, if_false, List.drop_succ_cons, List.drop_zero,
          indentLines, List.map_nil]
        obtain ⟨r, e⟩ := emitFlow_list_head pol 0 0 xs (by omega)
        rw [parseLines_cons _ _ (by rw [e]; simp)]
        have h124 : emitFlow pol 0 0 (.list xs) ≠ [124] := by rw [e]; simp
        have hsf : startsFlow (emitFlow pol 0 0 (.list xs)) = true := by rw [e]; rfl
        simp only [h124, hsf, if_false, if_true, List.length_cons, List.length_nil]
        rw [parseBlock_succ]
        simp only [hsf, if_true, List.isEmpty_nil]
        exact parseFlowLine_emitFlow pol _ 0 0 hn' hok
      · simp only [hd, if_false]
        by_cases hi : hasItemL xs = true
        · obtain ⟨r, ls, e⟩ := emitSeq_head pol 0 xs hi
          rw [e]
          simp only [List.isEmpty_nil, if_true]
          rw [parseLines_cons _ _ (by simp)]
          have h124 : (45 :: r : Bytes) ≠ [124] := by simp
          have hsf : startsFlow (45 :: r) = false := by rfl
          simp only [h124, hsf, if_false, Bool.false_eq_true, parseInline_dash]
          rw [← e]
          have hP : ∀ x ∈ xs, BlockElemOK pol ((emitSeq pol 0 xs).length + flowDepth) x := fun x hx =>
            block_rt pol x.size x (Nat.le_refl _) (treeOKL_mem pol xs hokL x hx) _
          exact block_seq pol _ 0 true xs hP (by omega) hi
        · have hi' : hasItemL xs = false := by simpa using hi
          have hes : emitSeq pol 0 xs = [] := by
            rw [emitSeq_flatten, flattenEntries_nil_iff, seqEntriesOf_nil_iff]; exact hi'
          rw [hes]
          simp only [List.isEmpty_nil, if_true]
          rw [parseLines_cons _ _ (by simp [emptySeqText])]
          have h124 : emptySeqText ≠ [124] := by decide
          have hsf : startsFlow emptySeqText = true := by rfl
          simp only [h124, hsf, if_false, if_true]
          rw [parseBlock_succ]
          simp only [hsf, if_true, List.isEmpty_nil, emptySeq_line]
          simp [Cfg.norm, normL_of_no_item xs hi']
    | map kvs =>
      have hokM : keysSorted kvs = true ∧ TreeOKM pol kvs := by rw [TreeOK] at hok; exact hok
      rw [emitChild]
      by_cases hd : 0 ≥ flowDepth
      · simp only [hd, if_true, List.isEmpty_cons, Bool.false_eq_true, if_false, List.drop_succ_cons, List.drop_zero,
          indentLines, List.map_nil]
        obtain ⟨r, e⟩ := emitFlow_map_head pol 0 0 kvs (by omega)
        rw [parseLines_cons _ _ (by rw [e]; simp)]
        have h124 : emitFlow pol 0 0 (.map kvs) ≠ [124] := by rw [e]; simp
        have hsf : startsFlow (emitFlow pol 0 0 (.map kvs)) = true := by rw [e]; rfl
        simp only [h124, hsf, if_false, if_true, List.length_cons, List.length_nil]
        rw [parseBlock_succ]
        simp only [hsf, if_true, List.isEmpty_nil]
        exact parseFlowLine_emitFlow pol _ 0 0 hn' hok
      · simp only [hd, if_false]
        by_cases hi : hasItemM kvs = true
        · obtain ⟨k, c, ls, e, hk⟩ := emitMap_head pol 0 kvs hi hokM.2
          rw [e]
          simp only [Bool.false_eq_true, if_false, List.isEmpty_nil, if_true]
          obtain ⟨plain, hp, hnw, _⟩ := parseInline_inlineScalar pol false k (58 :: c.first) hk.1
            (restOK_cons _ _ (by decide))
          obtain ⟨b, r, eb, hbb⟩ := inlineScalar_head pol false k
          have h124 : inlineScalar pol false k ++ 58 :: c.first ≠ [124] := by
            rw [eb]; intro h; simp only [List.cons_append, List.cons.injEq] at h
            exact inlineStart_ne b hbb 124 (by decide) h.1
          have hsf : startsFlow (inlineScalar pol false k ++ 58 :: c.first) = false := by
            rw [eb]
            simp only [List.cons_append, startsFlow, headIs, Bool.or_eq_false_iff, decide_eq_false_iff_not]
            exact ⟨inlineStart_ne b hbb 91 (by decide), inlineStart_ne b hbb 123 (by decide)⟩
          rw [parseLines_cons _ _ (by rw [eb]; simp)]
          simp only [h124, hsf, if_false, Bool.false_eq_true, hp, List.isEmpty_cons]
          rw [← e]
          have hP : ∀ kv ∈ kvs, KeyOK pol kv.1 ∧ BlockElemOK pol ((emitMap pol 0 kvs).length + flowDepth) kv.2 :=
            fun kv hkv => ⟨(treeOKM_mem pol kvs hokM.2 kv hkv).1,
              block_rt pol kv.2.size kv.2 (Nat.le_refl _) (treeOKM_mem pol kvs hokM.2 kv hkv).2 _⟩
          exact block_map pol _ 0 true kvs hP (by omega) hokM.1 hi
        · have hi' : hasItemM kvs = false := by simpa using hi
          have hes : emitMap pol 0 kvs = [] := by
            rw [emitMap_flatten, flattenEntries_nil_iff, mapEntriesOf_nil_iff]; exact hi'
          rw [hes]
          simp only [Bool.false_eq_true, if_false, List.isEmpty_nil, if_true]
          rw [parseLines_cons _ _ (by simp [emptyMapText])]
          have h124 : emptyMapText ≠ [124] := by decide
          have hsf : startsFlow emptyMapText = true := by rfl
          simp only [h124, hsf, if_false, if_true]
          rw [parseBlock_succ]
          simp only [hsf, if_true, List.isEmpty_nil, emptyMap_line]
          simp [Cfg.norm, normM_of_no_item kvs hi']

end RimeModel.C18
