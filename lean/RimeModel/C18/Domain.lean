import RimeModel.C18.Parse
/-! C18 — the domain of the save/load theorems (predicates only) -/
namespace RimeModel.C18

/-- a scalar the writer of policy `pol` reproduces: text (UTF-8 of scalar values other than
non-characters), and — when the policy would ask for a literal block — a text that such a block carries
(`literalSafe`: ends in exactly one LF, no C0 control character other than LF/TAB, first non-empty line not
starting with a space).  Under `LitPolicy.safe` the second clause holds for every text (`scalarOK_safe`). -/
def ScalarOK (pol : LitPolicy) (s : Bytes) : Prop :=
  IsText s ∧ (wantsLiteral pol s = true → literalSafe s = true)

/-- a map key the layout model covers: text written as a simple key on one line -/
def KeyOK (pol : LitPolicy) (k : Bytes) : Prop :=
  IsText k ∧ wantsLiteral pol k = false

mutual
/-- every scalar and key of the tree is in the domain, every map strictly key-sorted -/
def TreeOK (pol : LitPolicy) : Cfg → Prop
  | .null => True
  | .scalar s => ScalarOK pol s
  | .list xs => TreeOKL pol xs
  | .map kvs => keysSorted kvs = true ∧ TreeOKM pol kvs
def TreeOKL (pol : LitPolicy) : List Cfg → Prop
  | [] => True
  | x :: xs => TreeOK pol x ∧ TreeOKL pol xs
def TreeOKM (pol : LitPolicy) : List (Bytes × Cfg) → Prop
  | [] => True
  | (k, v) :: rest => KeyOK pol k ∧ TreeOK pol v ∧ TreeOKM pol rest
end

/-- what may follow a scalar written on a line: nothing, or a byte that cannot continue a plain scalar -/
def RestOK (rest : Bytes) : Prop := ∀ b r, rest = b :: r → isPlainSafe b = false

mutual
def Cfg.size : Cfg → Nat
  | .null => 1
  | .scalar _ => 1
  | .list xs => 1 + Cfg.sizeL xs
  | .map kvs => 1 + Cfg.sizeM kvs
def Cfg.sizeL : List Cfg → Nat
  | [] => 0
  | x :: xs => Cfg.size x + Cfg.sizeL xs
def Cfg.sizeM : List (Bytes × Cfg) → Nat
  | [] => 0
  | (_, v) :: rest => Cfg.size v + Cfg.sizeM rest
end

end RimeModel.C18
