import RimeModel.C18.Utf8
import RimeModel.Gen.C18Emit
/-!
C18 — the YAML text `ConfigData::SaveToStream` writes: librime's `EmitYaml` / `EmitScalar`
(src/rime/config/config_data.cc) driving yaml-cpp 0.7's `Emitter`.

librime's part (modelled from the source): the style request of `EmitScalar` (line break → literal,
else any byte outside `[A-Za-z0-9_.]` → double-quoted, else yaml-cpp's automatic choice), null map
values skipped, null list elements emitting nothing, flow style requested from depth 3.
yaml-cpp's part (modelled from observed behaviour, trusted base, compared byte for byte on every run):
automatic style = plain unless the text is empty / `~` / `null` / `Null` / `NULL`; a literal request is
replaced by double quotes inside flow collections; literal blocks are written as `|`, then each line
of the text indented by the current indentation + 2 (empty lines stay empty), with no indentation or
chomping indicator; block layout (`- ` entries, `key:` entries, nested collections on following lines
indented by 2, a map inside a sequence entry starting on the `- ` line, collections without emitted
children as `[]` / `{}`); flow layout `[a, b]`, `{k: v}`.

The layout is produced as *relative lines*: a child contributes the text that continues its parent's
header line (`first`) and further lines relative to the parent entry's column (`rest`), which the
parent indents by 2 (`indentLines`; empty lines stay empty, exactly as yaml-cpp writes them).

`LitPolicy.legacy` is `EmitScalar` as found in the pinned tree; `LitPolicy.safe` is `EmitScalar` with
the repair proposed in hooks/C18_fix_proposal.diff (literal only when the block can carry the text,
`...` never plain).  Which one the working tree has is regenerated into `Gen/C18Policy.lean`.
-/
namespace RimeModel.C18

inductive LitPolicy where
  | legacy | safe
  deriving DecidableEq, Repr

/-- the policy of the working tree, as recognised by gen/c18_emit.py (`none`: unknown shape) -/
def currentPolicy : Option LitPolicy :=
  match Gen.C18.emitScalarShape with
  | some 0 => some .legacy
  | some 1 => some .safe
  | _ => none

/-- `EmitYaml`'s `depth >= N` threshold for flow style, read from the working tree -/
def flowDepth : Nat := Gen.C18.flowDepth

inductive Style where
  | plain | dq | literal
  deriving DecidableEq, Repr

def c_lf : UInt8 := 10
def c_cr : UInt8 := 13

/-- the character class of `EmitScalar`'s `all_of` test -/
def isPlainSafe (b : UInt8) : Bool := isAlnum b || b = 95 || b = 46

/-- `str_value.find_first_of("\r\n") != npos` -/
def hasBreak (s : Bytes) : Bool := s.any fun b => b = c_cr || b = c_lf

/-- yaml-cpp `IsNullString` -/
def isNullString (s : Bytes) : Bool :=
  s = [] || s = [126] || s = [110, 117, 108, 108] || s = [78, 117, 108, 108] || s = [78, 85, 76, 76]

def dropLF : Bytes → Bytes
  | [] => []
  | b :: bs => if b = c_lf then dropLF bs else b :: bs

/-- `IsLiteralBlockSafe` of the proposed repair: the text ends in exactly one line break, has no control
characters other than LF and TAB, and its first non-empty line does not start with a space -/
def literalSafe (s : Bytes) : Bool :=
  let r := s.reverse
  (match r with
   | a :: b :: _ => a = c_lf && b ≠ c_lf
   | _ => false)
  && s.all (fun b => b.toNat ≥ 32 || b = c_lf || b = 9)
  && (match dropLF s with
      | b :: _ => b ≠ 32
      | [] => false)

def threeDots : Bytes := [46, 46, 46]

def wantsLiteral (pol : LitPolicy) (s : Bytes) : Bool :=
  hasBreak s && (pol = .legacy || literalSafe s)

def plainOk (pol : LitPolicy) (s : Bytes) : Bool :=
  s.all isPlainSafe && (pol = .legacy || s ≠ threeDots)

/-- the style a scalar is finally written in (`EmitScalar` request + yaml-cpp `ComputeStringFormat`) -/
def styleOf (pol : LitPolicy) (inFlow : Bool) (s : Bytes) : Style :=
  if wantsLiteral pol s then (if inFlow then .dq else .literal)
  else if !plainOk pol s then .dq
  else if isNullString s then .dq
  else .plain

/-- a scalar written on one line (plain or double-quoted).  Only meaningful when the style is not literal. -/
def inlineScalar (pol : LitPolicy) (inFlow : Bool) (s : Bytes) : Bytes :=
  match styleOf pol inFlow s with
  | .plain => s
  | _ => emitDQ s

def spaces (n : Nat) : Bytes := List.replicate n 32

def indentLine (n : Nat) (l : Bytes) : Bytes := if l = [] then [] else spaces n ++ l

def indentLines (n : Nat) (ls : List Bytes) : List Bytes := ls.map (indentLine n)

/-- the lines of a literal block's content, before indentation -/
def literalPieces (s : Bytes) : List Bytes := (splitOn c_lf s).map sanitize

/-- `sep`-separated concatenation -/
def joinWith (sep : Bytes) : List Bytes → Bytes
  | [] => []
  | [x] => x
  | x :: y :: rest => x ++ sep ++ joinWith sep (y :: rest)

def emptySeqText : Bytes := [91, 93]
def emptyMapText : Bytes := [123, 125]
def commaSpace : Bytes := [44, 32]
def colonSpace : Bytes := [58, 32]

/-! ### flow style

yaml-cpp writes the opening bracket of a flow collection lazily, after `IndentTo(LastIndent())`, and an
empty collection as `IndentTo(CurIndent())` + `[]`; the indentation counters grow by 2 per nesting level
whatever the style, so a collection visited at depth `d` whose text would start at (byte) column `c` is
preceded by `2d-2-c` spaces when it has children and by `2d-c` spaces when it has none (usually zero: the
column is already further right; deep first-child nesting is where it shows, `[[[ [ [x]]]]]`). -/

def hasItemL : List Cfg → Bool
  | [] => false
  | x :: xs => !x.isNull || hasItemL xs

def hasItemM : List (Bytes × Cfg) → Bool
  | [] => false
  | (_, v) :: rest => !v.isNull || hasItemM rest

mutual
/-- the text of a non-null node inside flow context; `d` = the depth `EmitYaml` visits it at, `c` = the
column its text starts at -/
def emitFlow (pol : LitPolicy) (d c : Nat) : Cfg → Bytes
  | .null => []
  | .scalar s => inlineScalar pol true s
  | .list xs =>
    if hasItemL xs then
      spaces (2 * d - 2 - c) ++ 91 :: (emitFlowL pol (d + 1) (max c (2 * d - 2) + 1) true xs ++ [93])
    else spaces (2 * d - c) ++ emptySeqText
  | .map kvs =>
    if hasItemM kvs then
      spaces (2 * d - 2 - c) ++ 123 :: (emitFlowM pol (d + 1) (max c (2 * d - 2) + 1) true kvs ++ [125])
    else spaces (2 * d - c) ++ emptyMapText
/-- the items of a flow sequence from column `c` on; `first`: no item written yet -/
def emitFlowL (pol : LitPolicy) (d c : Nat) (first : Bool) : List Cfg → Bytes
  | [] => []
  | x :: xs =>
    if x.isNull then emitFlowL pol d c first xs
    else
      let sep : Bytes := if first then [] else commaSpace
      let tx := emitFlow pol d (c + sep.length) x
      sep ++ tx ++ emitFlowL pol d (c + sep.length + tx.length) false xs
/-- the entries of a flow map from column `c` on -/
def emitFlowM (pol : LitPolicy) (d c : Nat) (first : Bool) : List (Bytes × Cfg) → Bytes
  | [] => []
  | (k, v) :: rest =>
    if v.isNull then emitFlowM pol d c first rest
    else
      let sep : Bytes := if first then [] else commaSpace
      let kt := inlineScalar pol true k ++ colonSpace
      let tx := emitFlow pol d (c + sep.length + kt.length) v
      sep ++ kt ++ tx ++ emitFlowM pol d (c + sep.length + kt.length + tx.length) false rest
end

/-! ### block style -/

/-- what a child node contributes: the continuation of the parent's header line and the following
lines, relative to the parent entry's column -/
structure Chunk where
  first : Bytes
  rest : List Bytes
  deriving Repr

def scalarChunk (pol : LitPolicy) (s : Bytes) : Chunk :=
  match styleOf pol false s with
  | .literal => ⟨[32, 124], literalPieces s⟩
  | .plain => ⟨32 :: s, []⟩
  | .dq => ⟨32 :: emitDQ s, []⟩

mutual
/-- `depth` is the depth `EmitYaml` is called with for this node, `col` the column at which text that
continues the parent's header line starts (after `- ` or `key: `) -/
def emitChild (pol : LitPolicy) (depth : Nat) (inSeq : Bool) (col : Nat) : Cfg → Chunk
  | .null => ⟨[], []⟩
  | .scalar s => scalarChunk pol s
  | .list xs =>
    if depth ≥ flowDepth then ⟨32 :: emitFlow pol depth col (.list xs), []⟩
    else match emitSeq pol depth xs with
      | [] => ⟨[], [emptySeqText]⟩
      | l :: ls => ⟨[], l :: ls⟩
  | .map kvs =>
    if depth ≥ flowDepth then ⟨32 :: emitFlow pol depth col (.map kvs), []⟩
    else match emitMap pol depth kvs with
      | [] => if inSeq then ⟨32 :: emptyMapText, []⟩ else ⟨[], [emptyMapText]⟩
      | l :: ls => if inSeq then ⟨32 :: l, ls⟩ else ⟨[], l :: ls⟩
/-- the lines of a block sequence that `EmitYaml` visits at `depth` (its entries stand at column `2·depth`) -/
def emitSeq (pol : LitPolicy) (depth : Nat) : List Cfg → List Bytes
  | [] => []
  | x :: xs =>
    if x.isNull then emitSeq pol depth xs
    else
      let c := emitChild pol (depth + 1) true (2 * depth + 2) x
      ((45 :: c.first) :: indentLines 2 c.rest) ++ emitSeq pol depth xs
/-- the lines of a block map that `EmitYaml` visits at `depth` -/
def emitMap (pol : LitPolicy) (depth : Nat) : List (Bytes × Cfg) → List Bytes
  | [] => []
  | (k, v) :: rest =>
    if v.isNull then emitMap pol depth rest
    else
      let kt := inlineScalar pol false k
      let c := emitChild pol (depth + 1) false (2 * depth + kt.length + 2) v
      ((kt ++ 58 :: c.first) :: indentLines 2 c.rest) ++ emitMap pol depth rest
end

/-- the lines of the whole document: the root is visited at depth 0 with nothing before it, so a block
collection starts at column 0 and whatever would continue a header line (a scalar, a `|`, a flow
collection) starts the first line, its further lines indented as below any other entry -/
def emitDocLines (pol : LitPolicy) (t : Cfg) : List Bytes :=
  if t.isNull then [[]]
  else
    let c := emitChild pol 0 false 0 t
    if c.first.isEmpty then c.rest else c.first.drop 1 :: indentLines 2 c.rest

/-- `SaveToStream` -/
def emitDoc (pol : LitPolicy) (t : Cfg) : Bytes := joinWith [c_lf] (emitDocLines pol t)

/-! ### which trees the layout model covers: map keys written as simple keys.
yaml-cpp switches to the long form `? key` / `: value` for keys longer than 1024 bytes and for keys in
literal style; those are exercised on the implementation only. -/

def keyModelled (pol : LitPolicy) (k : Bytes) : Bool :=
  k.length ≤ 1024 && styleOf pol false k ≠ .literal

mutual
def keysModelled (pol : LitPolicy) : Cfg → Bool
  | .null => true
  | .scalar _ => true
  | .list xs => keysModelledL pol xs
  | .map kvs => keysModelledM pol kvs
def keysModelledL (pol : LitPolicy) : List Cfg → Bool
  | [] => true
  | x :: xs => keysModelled pol x && keysModelledL pol xs
def keysModelledM (pol : LitPolicy) : List (Bytes × Cfg) → Bool
  | [] => true
  | (k, v) :: rest => keyModelled pol k && keysModelled pol v && keysModelledM pol rest
end

end RimeModel.C18
