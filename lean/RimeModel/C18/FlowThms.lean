import RimeModel.C18.TreeLemmas
/-! flow-style round trip of C18 proved here, restated in Props/C18.lean -/
namespace RimeModel.C18

/-! ### unfolding the fuel-recursive parsers -/

theorem parseFlow_succ (fuel : Nat) (l0 : Bytes) :
    parseFlow (fuel + 1) l0 =
    match dropSp l0 with
    | [] => none
    | b :: r =>
      if b = 91 then
        if headIs r 93 then some (.list [], r.drop 1)
        else
          match parseFlow fuel r with
          | some (x, r1) =>
            match parseSeqTail fuel r1 with
            | some (xs, r2) => some (.list (x :: xs), r2)
            | none => none
          | none => none
      else if b = 123 then
        if headIs r 125 then some (.map [], r.drop 1)
        else
          match parseFlowEntry fuel r with
          | some (k, v, r1) =>
            match parseMapTail fuel r1 with
            | some (kvs, r2) => some (.map (buildMap ((k, v) :: kvs)), r2)
            | none => none
          | none => none
      else
        match parseInline (b :: r) with
        | some (s, plain, r1) => some (scalarNode s plain, r1)
        | none => none := by
  rw [parseFlow]; rfl

theorem parseSeqTail_succ (fuel : Nat) (b : UInt8) (r : Bytes) :
    parseSeqTail (fuel + 1) (b :: r) =
      if b = 93 then some ([], r)
      else if b = 44 && headIs r 32 then
        match parseFlow fuel (r.drop 1) with
        | some (x, r1) =>
          match parseSeqTail fuel r1 with
          | some (xs, r2) => some (x :: xs, r2)
          | none => none
        | none => none
      else none := by
  rw [parseSeqTail]; rfl

theorem parseFlowEntry_succ (fuel : Nat) (l : Bytes) :
    parseFlowEntry (fuel + 1) l =
    match parseInline l with
    | some (k, plain, r) =>
      if headIs r 58 && headIs (r.drop 1) 32 then
        if plain && isNullWord k then none
        else
          match parseFlow fuel (r.drop 2) with
          | some (v, r1) => some (k, v, r1)
          | none => none
      else none
    | none => none := by
  rw [parseFlowEntry]; rfl

theorem parseMapTail_succ (fuel : Nat) (b : UInt8) (r : Bytes) :
    parseMapTail (fuel + 1) (b :: r) =
      if b = 125 then some ([], r)
      else if b = 44 && headIs r 32 then
        match parseFlowEntry fuel (r.drop 1) with
        | some (k, v, r1) =>
          match parseMapTail fuel r1 with
          | some (kvs, r2) => some ((k, v) :: kvs, r2)
          | none => none
        | none => none
      else none := by
  rw [parseMapTail]; rfl

/-! ### what follows an item inside a flow collection is never a plain-safe byte -/

theorem restOK_cons (b : UInt8) (r : Bytes) (h : isPlainSafe b = false) : RestOK (b :: r) := by
  intro b' r' e
  simp only [List.cons.injEq] at e
  rw [← e.1]; exact h

theorem restOK_nil : RestOK [] := by
  intro b r e; simp at e

/-- the element hypothesis of the list lemmas: every non-null element round-trips in flow style -/
def FlowElemOK (pol : LitPolicy) (x : Cfg) : Prop :=
  x.isNull = false → ∀ d c rest fuel, RestOK rest → (emitFlow pol d c x).length ≤ fuel →
    parseFlow fuel (emitFlow pol d c x ++ rest) = some (x.norm, rest)

theorem emitFlowL_cons_null (pol : LitPolicy) (d c : Nat) (first : Bool) (x : Cfg) (xs : List Cfg)
    (h : x.isNull = true) : emitFlowL pol d c first (x :: xs) = emitFlowL pol d c first xs := by
  rw [emitFlowL]; simp [h]

theorem emitFlowL_cons_false (pol : LitPolicy) (d c : Nat) (x : Cfg) (xs : List Cfg) (h : x.isNull = false) :
    emitFlowL pol d c false (x :: xs) =
      44 :: 32 :: (emitFlow pol d (c + 2) x ++ emitFlowL pol d (c + 2 + (emitFlow pol d (c + 2) x).length) false xs) := by
  rw [emitFlowL]; simp [h, commaSpace]

theorem emitFlowL_cons_true (pol : LitPolicy) (d c : Nat) (x : Cfg) (xs : List Cfg) (h : x.isNull = false) :
    emitFlowL pol d c true (x :: xs) =
      emitFlow pol d c x ++ emitFlowL pol d (c + (emitFlow pol d c x).length) false xs := by
  rw [emitFlowL]; simp [h]

theorem spaces_cases (n : Nat) : spaces n = [] ∨ ∃ r, spaces n = 32 :: r := by
  cases n with
  | zero => left; rfl
  | succ k => right; exact ⟨spaces k, by simp [spaces, List.replicate]⟩

/-- a byte an emitted flow node can start with -/
def FlowStart (b : UInt8) : Prop := InlineStart b ∨ b = 32 ∨ b = 91 ∨ b = 123

theorem emitFlow_head (pol : LitPolicy) (d c : Nat) (t : Cfg) (h : t.isNull = false) :
    ∃ b r, emitFlow pol d c t = b :: r ∧ FlowStart b := by
  cases t with
  | null => simp [Cfg.isNull] at h
  | scalar s =>
    obtain ⟨b, r, e, hb⟩ := inlineScalar_head pol true s
    exact ⟨b, r, by rw [emitFlow, e], Or.inl hb⟩
  | list xs =>
    rw [emitFlow]
    by_cases hi : hasItemL xs = true
    · simp only [hi, if_true]
      rcases spaces_cases (2 * d - 2 - c) with e | ⟨r, e⟩
      · rw [e]; exact ⟨91, _, rfl, Or.inr (Or.inr (Or.inl rfl))⟩
      · rw [e]; exact ⟨32, _, rfl, Or.inr (Or.inl rfl)⟩
    · simp only [hi, Bool.false_eq_true, if_false]
      rcases spaces_cases (2 * d - c) with e | ⟨r, e⟩
      · rw [e]; exact ⟨91, _, rfl, Or.inr (Or.inr (Or.inl rfl))⟩
      · rw [e]; exact ⟨32, _, rfl, Or.inr (Or.inl rfl)⟩
  | map kvs =>
    rw [emitFlow]
    by_cases hi : hasItemM kvs = true
    · simp only [hi, if_true]
      rcases spaces_cases (2 * d - 2 - c) with e | ⟨r, e⟩
      · rw [e]; exact ⟨123, _, rfl, Or.inr (Or.inr (Or.inr rfl))⟩
      · rw [e]; exact ⟨32, _, rfl, Or.inr (Or.inl rfl)⟩
    · simp only [hi, Bool.false_eq_true, if_false]
      rcases spaces_cases (2 * d - c) with e | ⟨r, e⟩
      · rw [e]; exact ⟨123, _, rfl, Or.inr (Or.inr (Or.inr rfl))⟩
      · rw [e]; exact ⟨32, _, rfl, Or.inr (Or.inl rfl)⟩

theorem flowStart_ne (b v : UInt8) (h : FlowStart b) (hv : isPlainSafe v = false ∧ v ≠ 34 ∧ v ≠ 32 ∧ v ≠ 91 ∧ v ≠ 123) :
    b ≠ v := by
  rcases h with h | h | h | h
  · exact inlineStart_ne b h v ⟨hv.1, hv.2.1⟩
  · rw [h]; exact fun e => hv.2.2.1 e.symm
  · rw [h]; exact fun e => hv.2.2.2.1 e.symm
  · rw [h]; exact fun e => hv.2.2.2.2 e.symm

/-- a non-empty tail of items starts with the comma -/
theorem emitFlowL_false_head (pol : LitPolicy) (d c : Nat) (xs : List Cfg) (b : UInt8) (r : Bytes)
    (h : emitFlowL pol d c false xs = b :: r) : b = 44 := by
  induction xs with
  | nil => simp [emitFlowL] at h
  | cons y ys ih =>
    by_cases hy : y.isNull = true
    · rw [emitFlowL_cons_null _ _ _ _ _ _ hy] at h; exact ih h
    · rw [emitFlowL_cons_false _ _ _ _ _ (by simpa using hy)] at h
      simp only [List.cons.injEq] at h
      exact h.1.symm

theorem restOK_seq_tail (pol : LitPolicy) (d c : Nat) (xs : List Cfg) (rest : Bytes) :
    RestOK (emitFlowL pol d c false xs ++ 93 :: rest) := by
  cases hl : emitFlowL pol d c false xs with
  | nil => exact restOK_cons _ _ (by decide)
  | cons b r =>
    have := emitFlowL_false_head pol d c xs b r hl
    subst this
    exact restOK_cons _ _ (by decide)

/-- the items after the first, up to the closing bracket -/
theorem flow_seq_tail (pol : LitPolicy) (xs : List Cfg) (hP : ∀ x ∈ xs, FlowElemOK pol x) :
    ∀ d c rest fuel, (emitFlowL pol d c false xs).length + 1 ≤ fuel →
      parseSeqTail fuel (emitFlowL pol d c false xs ++ 93 :: rest) = some (Cfg.normL xs, rest) := by
  induction xs with
  | nil =>
    intro d c rest fuel hf
    obtain ⟨f, rfl⟩ : ∃ f, fuel = f + 1 := ⟨fuel - 1, by omega⟩
    simp only [emitFlowL, List.nil_append]
    rw [parseSeqTail_succ]
    simp [Cfg.normL]
  | cons x xs ih =>
    intro d c rest fuel hf
    have ih' := ih (fun y hy => hP y (List.mem_cons_of_mem _ hy))
    by_cases hx : x.isNull = true
    · rw [emitFlowL_cons_null _ _ _ _ _ _ hx] at hf ⊢
      rw [Cfg.normL]; simp only [hx, if_true]
      exact ih' d c rest fuel hf
    · have hx' : x.isNull = false := by simpa using hx
      rw [emitFlowL_cons_false _ _ _ _ _ hx'] at hf ⊢
      simp only [List.length_cons, List.length_append, List.cons_append, List.append_assoc] at hf ⊢
      obtain ⟨f, rfl⟩ : ∃ f, fuel = f + 1 := ⟨fuel - 1, by omega⟩
      rw [parseSeqTail_succ]
      simp only [show (44 : UInt8) ≠ 93 from by decide, if_false, headIs, decide_true, Bool.and_self, if_true,
        List.drop_succ_cons, List.drop_zero]
      rw [hP x (List.mem_cons_self ..) hx' d (c + 2) _ f (restOK_seq_tail pol d _ xs rest) (by omega)]
      simp only
      rw [ih' d _ rest f (by omega)]
      rw [Cfg.normL]; simp [hx']

/-- the items after the opening bracket, when there is at least one -/
theorem flow_seq_first (pol : LitPolicy) (xs : List Cfg) (hP : ∀ x ∈ xs, FlowElemOK pol x) (hi : hasItemL xs = true) :
    ∀ d c rest fuel, (emitFlowL pol d c true xs).length + 1 ≤ fuel →
      ∃ x xs' r1, Cfg.normL xs = x :: xs' ∧
        parseFlow fuel (emitFlowL pol d c true xs ++ 93 :: rest) = some (x, r1) ∧
        parseSeqTail fuel r1 = some (xs', rest) ∧
        (∃ b r, emitFlowL pol d c true xs = b :: r ∧ FlowStart b) := by
  induction xs with
  | nil => simp [hasItemL] at hi
  | cons x xs ih =>
    intro d c rest fuel hf
    by_cases hx : x.isNull = true
    · rw [emitFlowL_cons_null _ _ _ _ _ _ hx] at hf ⊢
      rw [Cfg.normL]; simp only [hx, if_true]
      exact ih (fun y hy => hP y (List.mem_cons_of_mem _ hy)) (by simpa [hasItemL, hx] using hi) d c rest fuel hf
    · have hx' : x.isNull = false := by simpa using hx
      rw [emitFlowL_cons_true _ _ _ _ _ hx'] at hf ⊢
      simp only [List.length_append, List.append_assoc] at hf ⊢
      obtain ⟨b, r, e, hb⟩ := emitFlow_head pol d c x hx'
      refine ⟨x.norm, Cfg.normL xs, _, by rw [Cfg.normL]; simp [hx'],
        hP x (List.mem_cons_self ..) hx' d c _ fuel (restOK_seq_tail pol d _ xs rest) (by omega),
        flow_seq_tail pol xs (fun y hy => hP y (List.mem_cons_of_mem _ hy)) d _ rest fuel (by omega), ?_⟩
      exact ⟨b, r ++ emitFlowL pol d (c + (emitFlow pol d c x).length) false xs, by rw [e]; rfl, hb⟩

/-! ### flow maps -/

theorem emitFlowM_cons_null (pol : LitPolicy) (d c : Nat) (first : Bool) (k : Bytes) (v : Cfg) (rest : List (Bytes × Cfg))
    (h : v.isNull = true) : emitFlowM pol d c first ((k, v) :: rest) = emitFlowM pol d c first rest := by
  rw [emitFlowM]; simp [h]

/-- the text of a key inside a flow map, with its `: ` -/
def flowKey (pol : LitPolicy) (k : Bytes) : Bytes := inlineScalar pol true k ++ colonSpace

theorem emitFlowM_cons_false (pol : LitPolicy) (d c : Nat) (k : Bytes) (v : Cfg) (rest : List (Bytes × Cfg))
    (h : v.isNull = false) :
    emitFlowM pol d c false ((k, v) :: rest) =
      44 :: 32 :: (flowKey pol k ++ (emitFlow pol d (c + 2 + (flowKey pol k).length) v ++
        emitFlowM pol d (c + 2 + (flowKey pol k).length + (emitFlow pol d (c + 2 + (flowKey pol k).length) v).length) false rest)) := by
  rw [emitFlowM]; simp [h, commaSpace, flowKey]

theorem emitFlowM_cons_true (pol : LitPolicy) (d c : Nat) (k : Bytes) (v : Cfg) (rest : List (Bytes × Cfg))
    (h : v.isNull = false) :
    emitFlowM pol d c true ((k, v) :: rest) =
      flowKey pol k ++ (emitFlow pol d (c + (flowKey pol k).length) v ++
        emitFlowM pol d (c + (flowKey pol k).length + (emitFlow pol d (c + (flowKey pol k).length) v).length) false rest) := by
  rw [emitFlowM]; simp [h, flowKey]

theorem emitFlowM_false_head (pol : LitPolicy) (d c : Nat) (kvs : List (Bytes × Cfg)) (b : UInt8) (r : Bytes)
    (h : emitFlowM pol d c false kvs = b :: r) : b = 44 := by
  induction kvs with
  | nil => simp [emitFlowM] at h
  | cons kv ys ih =>
    obtain ⟨k, v⟩ := kv
    by_cases hy : v.isNull = true
    · rw [emitFlowM_cons_null _ _ _ _ _ _ _ hy] at h; exact ih h
    · rw [emitFlowM_cons_false _ _ _ _ _ _ (by simpa using hy)] at h
      simp only [List.cons.injEq] at h
      exact h.1.symm

theorem restOK_map_tail (pol : LitPolicy) (d c : Nat) (kvs : List (Bytes × Cfg)) (rest : Bytes) :
    RestOK (emitFlowM pol d c false kvs ++ 125 :: rest) := by
  cases hl : emitFlowM pol d c false kvs with
  | nil => exact restOK_cons _ _ (by decide)
  | cons b r =>
    have := emitFlowM_false_head pol d c kvs b r hl
    subst this
    exact restOK_cons _ _ (by decide)

theorem flowKey_length (pol : LitPolicy) (k : Bytes) : 2 ≤ (flowKey pol k).length := by
  simp [flowKey, colonSpace]

/-- one `key: value` entry -/
theorem flow_entry (pol : LitPolicy) (k : Bytes) (v : Cfg) (hk : KeyOK pol k) (hv : FlowElemOK pol v)
    (hn : v.isNull = false) (d c : Nat) (rest : Bytes) (fuel : Nat) (hr : RestOK rest)
    (hf : (emitFlow pol d c v).length + 1 ≤ fuel) :
    parseFlowEntry fuel (flowKey pol k ++ (emitFlow pol d c v ++ rest)) = some (k, v.norm, rest) := by
  obtain ⟨f, rfl⟩ : ∃ f, fuel = f + 1 := ⟨fuel - 1, by omega⟩
  rw [parseFlowEntry_succ]
  obtain ⟨plain, hp, hnw, _⟩ := parseInline_inlineScalar pol true k (58 :: 32 :: (emitFlow pol d c v ++ rest)) hk.1
    (restOK_cons _ _ (by decide))
  have : flowKey pol k ++ (emitFlow pol d c v ++ rest) =
      inlineScalar pol true k ++ 58 :: 32 :: (emitFlow pol d c v ++ rest) := by
    simp [flowKey, colonSpace]
  rw [this, hp]
  simp only [headIs, decide_true, List.drop_succ_cons, List.drop_zero, Bool.and_self, if_true, hnw,
    Bool.false_eq_true, if_false]
  rw [hv hn d c rest f hr (by omega)]

theorem flow_map_tail (pol : LitPolicy) (kvs : List (Bytes × Cfg))
    (hP : ∀ kv ∈ kvs, KeyOK pol kv.1 ∧ FlowElemOK pol kv.2) :
    ∀ d c rest fuel, (emitFlowM pol d c false kvs).length + 1 ≤ fuel →
      parseMapTail fuel (emitFlowM pol d c false kvs ++ 125 :: rest) = some (Cfg.normM kvs, rest) := by
  induction kvs with
  | nil =>
    intro d c rest fuel hf
    obtain ⟨f, rfl⟩ : ∃ f, fuel = f + 1 := ⟨fuel - 1, by omega⟩
    simp only [emitFlowM, List.nil_append]
    rw [parseMapTail_succ]
    simp [Cfg.normM]
  | cons kv kvs ih =>
    obtain ⟨k, v⟩ := kv
    intro d c rest fuel hf
    have ih' := ih (fun y hy => hP y (List.mem_cons_of_mem _ hy))
    have hkv := hP (k, v) (List.mem_cons_self ..)
    by_cases hx : v.isNull = true
    · rw [emitFlowM_cons_null _ _ _ _ _ _ _ hx] at hf ⊢
      rw [Cfg.normM]; simp only [hx, if_true]
      exact ih' d c rest fuel hf
    · have hx' : v.isNull = false := by simpa using hx
      rw [emitFlowM_cons_false _ _ _ _ _ _ hx'] at hf ⊢
      simp only [List.length_cons, List.length_append, List.cons_append, List.append_assoc] at hf ⊢
      have hkl := flowKey_length pol k
      obtain ⟨f, rfl⟩ : ∃ f, fuel = f + 1 := ⟨fuel - 1, by omega⟩
      rw [parseMapTail_succ]
      simp only [show (44 : UInt8) ≠ 125 from by decide, if_false, headIs, decide_true, Bool.and_self, if_true,
        List.drop_succ_cons, List.drop_zero]
      rw [flow_entry pol k v hkv.1 hkv.2 hx' d _ _ f (restOK_map_tail pol d _ kvs rest) (by omega)]
      simp only
      rw [ih' d _ rest f (by omega)]
      rw [Cfg.normM]; simp [hx']

theorem flow_map_first (pol : LitPolicy) (kvs : List (Bytes × Cfg))
    (hP : ∀ kv ∈ kvs, KeyOK pol kv.1 ∧ FlowElemOK pol kv.2) (hi : hasItemM kvs = true) :
    ∀ d c rest fuel, (emitFlowM pol d c true kvs).length + 1 ≤ fuel →
      ∃ k v kvs' r1, Cfg.normM kvs = (k, v) :: kvs' ∧
        parseFlowEntry fuel (emitFlowM pol d c true kvs ++ 125 :: rest) = some (k, v, r1) ∧
        parseMapTail fuel r1 = some (kvs', rest) ∧
        (∃ b r, emitFlowM pol d c true kvs = b :: r ∧ InlineStart b) := by
  induction kvs with
  | nil => simp [hasItemM] at hi
  | cons kv kvs ih =>
    obtain ⟨k, v⟩ := kv
    intro d c rest fuel hf
    have hkv := hP (k, v) (List.mem_cons_self ..)
    by_cases hx : v.isNull = true
    · rw [emitFlowM_cons_null _ _ _ _ _ _ _ hx] at hf ⊢
      rw [Cfg.normM]; simp only [hx, if_true]
      exact ih (fun y hy => hP y (List.mem_cons_of_mem _ hy)) (by simpa [hasItemM, hx] using hi) d c rest fuel hf
    · have hx' : v.isNull = false := by simpa using hx
      rw [emitFlowM_cons_true _ _ _ _ _ _ hx'] at hf ⊢
      simp only [List.length_append, List.append_assoc] at hf ⊢
      obtain ⟨b, r, e, hb⟩ := inlineScalar_head pol true k
      refine ⟨k, v.norm, Cfg.normM kvs, _, by rw [Cfg.normM]; simp [hx'],
        flow_entry pol k v hkv.1 hkv.2 hx' d _ _ fuel (restOK_map_tail pol d _ kvs rest) (by omega),
        flow_map_tail pol kvs (fun y hy => hP y (List.mem_cons_of_mem _ hy)) d _ rest fuel (by omega), ?_⟩
      exact ⟨b, _, by rw [flowKey, e]; rfl, hb⟩

/-! ### the flow round trip -/

theorem size_mem_lt (xs : List Cfg) (x : Cfg) (h : x ∈ xs) : x.size ≤ Cfg.sizeL xs := by
  induction xs with
  | nil => simp at h
  | cons y ys ih =>
    rw [Cfg.sizeL]
    rcases List.mem_cons.mp h with e | h
    · subst e; omega
    · have := ih h; omega

theorem sizeM_mem_lt (kvs : List (Bytes × Cfg)) (kv : Bytes × Cfg) (h : kv ∈ kvs) : kv.2.size ≤ Cfg.sizeM kvs := by
  induction kvs with
  | nil => simp at h
  | cons y ys ih =>
    obtain ⟨yk, yv⟩ := y
    rw [Cfg.sizeM]
    rcases List.mem_cons.mp h with e | h
    · subst e; simp
    · have := ih h; omega

theorem treeOKL_mem (pol : LitPolicy) (xs : List Cfg) (h : TreeOKL pol xs) : ∀ x ∈ xs, TreeOK pol x := by
  induction xs with
  | nil => intro x hx; simp at hx
  | cons y ys ih =>
    rw [TreeOKL] at h
    intro x hx
    rcases List.mem_cons.mp hx with e | hx
    · subst e; exact h.1
    · exact ih h.2 x hx

theorem treeOKM_mem (pol : LitPolicy) (kvs : List (Bytes × Cfg)) (h : TreeOKM pol kvs) :
    ∀ kv ∈ kvs, KeyOK pol kv.1 ∧ TreeOK pol kv.2 := by
  induction kvs with
  | nil => intro x hx; simp at hx
  | cons y ys ih =>
    obtain ⟨yk, yv⟩ := y
    rw [TreeOKM] at h
    intro x hx
    rcases List.mem_cons.mp hx with e | hx
    · subst e; exact ⟨h.1, h.2.1⟩
    · exact ih h.2.2 x hx

/-- **flow round trip**: a non-null tree of the domain written in flow style at any depth and column is
read back as its normal form, with the rest of the line untouched -/
theorem flow_rt (pol : LitPolicy) : ∀ n (t : Cfg), t.size ≤ n → TreeOK pol t → FlowElemOK pol t := by
  intro n
  induction n with
  | zero =>
    intro t hs
    cases t <;> simp [Cfg.size] at hs
  | succ n ih =>
    intro t hs hok hnn d c rest fuel hr hf
    cases t with
    | null => simp [Cfg.isNull] at hnn
    | scalar s =>
      rw [emitFlow] at hf ⊢
      rw [TreeOK] at hok
      obtain ⟨plain, hp, hnw, _⟩ := parseInline_inlineScalar pol true s rest hok.1 hr
      obtain ⟨b, r, e, hb⟩ := inlineScalar_head pol true s
      obtain ⟨f, rfl⟩ : ∃ f, fuel = f + 1 := ⟨fuel - 1, by rw [e] at hf; simp at hf; omega⟩
      rw [parseFlow_succ]
      rw [e] at hp ⊢
      have h32 : b ≠ 32 := inlineStart_ne b hb 32 (by decide)
      have h91 : b ≠ 91 := inlineStart_ne b hb 91 (by decide)
      have h123 : b ≠ 123 := inlineStart_ne b hb 123 (by decide)
      rw [List.cons_append, dropSp_cons_ne _ _ h32]
      simp only [h91, h123, if_false]
      rw [← List.cons_append, hp]
      simp only [Cfg.norm, scalarNode]
      cases plain <;> simp_all
    | list xs =>
      rw [TreeOK] at hok
      have hP : ∀ x ∈ xs, FlowElemOK pol x := fun x hx =>
        ih x (by have := size_mem_lt xs x hx; simp [Cfg.size] at hs; omega) (treeOKL_mem pol xs hok x hx)
      rw [emitFlow] at hf ⊢
      by_cases hi : hasItemL xs = true
      · simp only [hi, if_true] at hf ⊢
        simp only [List.length_append, List.length_cons, List.length_nil] at hf
        obtain ⟨f, rfl⟩ : ∃ f, fuel = f + 1 := ⟨fuel - 1, by omega⟩
        rw [parseFlow_succ, List.append_assoc, dropSp_spaces, List.cons_append, dropSp_cons_ne _ _ (by decide)]
        simp only [if_true]
        obtain ⟨x, xs', r1, hnorm, h1, h2, ⟨b, r, e, hb⟩⟩ :=
          flow_seq_first pol xs hP hi (d + 1) (max c (2 * d - 2) + 1) rest f (by omega)
        have hh : headIs ((emitFlowL pol (d + 1) (max c (2 * d - 2) + 1) true xs ++ [93]) ++ rest) 93 = false := by
          rw [e]
          simp only [List.cons_append, headIs, decide_eq_false_iff_not]
          exact flowStart_ne b 93 hb (by decide)
        rw [hh]
        simp only [Bool.false_eq_true, if_false]
        have : (emitFlowL pol (d + 1) (max c (2 * d - 2) + 1) true xs ++ [93]) ++ rest =
            emitFlowL pol (d + 1) (max c (2 * d - 2) + 1) true xs ++ 93 :: rest := by simp
        rw [this, h1]
        simp only
        rw [h2]
        simp only [Cfg.norm, hnorm]
      · have hi' : hasItemL xs = false := by simpa using hi
        simp only [hi', Bool.false_eq_true, if_false] at hf ⊢
        obtain ⟨f, rfl⟩ : ∃ f, fuel = f + 1 := ⟨fuel - 1, by simp [emptySeqText] at hf; omega⟩
        rw [parseFlow_succ, List.append_assoc, dropSp_spaces]
        simp only [emptySeqText, List.cons_append, List.nil_append]
        rw [dropSp_cons_ne _ _ (by decide)]
        simp [headIs, Cfg.norm, normL_of_no_item xs hi']
    | map kvs =>
      rw [TreeOK] at hok
      have hP : ∀ kv ∈ kvs, KeyOK pol kv.1 ∧ FlowElemOK pol kv.2 := fun kv hkv =>
        ⟨(treeOKM_mem pol kvs hok.2 kv hkv).1,
         ih kv.2 (by have := sizeM_mem_lt kvs kv hkv; simp [Cfg.size] at hs; omega) (treeOKM_mem pol kvs hok.2 kv hkv).2⟩
      rw [emitFlow] at hf ⊢
      by_cases hi : hasItemM kvs = true
      · simp only [hi, if_true] at hf ⊢
        simp only [List.length_append, List.length_cons, List.length_nil] at hf
        obtain ⟨f, rfl⟩ : ∃ f, fuel = f + 1 := ⟨fuel - 1, by omega⟩
        rw [parseFlow_succ, List.append_assoc, dropSp_spaces, List.cons_append, dropSp_cons_ne _ _ (by decide)]
        simp only [show (123 : UInt8) ≠ 91 from by decide, if_false, if_true]
        obtain ⟨k, v, kvs', r1, hnorm, h1, h2, ⟨b, r, e, hb⟩⟩ :=
          flow_map_first pol kvs hP hi (d + 1) (max c (2 * d - 2) + 1) rest f (by omega)
        have hh : headIs ((emitFlowM pol (d + 1) (max c (2 * d - 2) + 1) true kvs ++ [125]) ++ rest) 125 = false := by
          rw [e]
          simp only [List.cons_append, headIs, decide_eq_false_iff_not]
          exact inlineStart_ne b hb 125 (by decide)
        rw [hh]
        simp only [Bool.false_eq_true, if_false]
        have : (emitFlowM pol (d + 1) (max c (2 * d - 2) + 1) true kvs ++ [125]) ++ rest =
            emitFlowM pol (d + 1) (max c (2 * d - 2) + 1) true kvs ++ 125 :: rest := by simp
        rw [this, h1]
        simp only
        rw [h2]
        simp only [Cfg.norm]
        rw [← hnorm, buildMap_sorted _ (keysSorted_normM kvs hok.1)]
      · have hi' : hasItemM kvs = false := by simpa using hi
        simp only [hi', Bool.false_eq_true, if_false] at hf ⊢
        obtain ⟨f, rfl⟩ : ∃ f, fuel = f + 1 := ⟨fuel - 1, by simp [emptyMapText] at hf; omega⟩
        rw [parseFlow_succ, List.append_assoc, dropSp_spaces]
        simp only [emptyMapText, List.cons_append, List.nil_append]
        rw [dropSp_cons_ne _ _ (by decide)]
        simp [headIs, Cfg.norm, normM_of_no_item kvs hi']

end RimeModel.C18
