import RimeModel.C18.Emit
/-!
C18 — reading a saved document back: yaml-cpp's parser followed by librime's `ConvertFromYaml`
(null → null pointer, scalar → `ConfigValue`, sequence → `ConfigList::Append`, map → `ConfigMap::Set`),
for exactly the subset of YAML that `emitDoc` produces.  A *strict* parser: anything outside the
subset is `none` (the real parser may accept it; the correspondence check only relies on agreement
where the model answers).

What is modelled faithfully because the property depends on it:
* literal block scalars as yaml-cpp's `ScanScalar` reads them — indentation auto-detected from the
  first non-empty line (leading all-space lines raise it), less indented text ends the scalar
  (here: `none`, the rest cannot belong to the emitted subset), every consumed line break adds `\n`
  except at the end of the input, a CR LF pair is one break, final clip chomping;
* double-quoted scalars with the escapes `Exp::Escape` knows;
* plain `null` / `Null` / `NULL` are null nodes; a root plain scalar `...` is a document end marker;
* map entries are inserted with `map_[key] = value` (sorted, last one wins).

Block structure is read the way it is written: the lines of a block are grouped into entries (a
header line that does not start with a space + the following lines that are empty or start with a
space); a nested block is the entry's body with two columns removed.
-/
namespace RimeModel.C18

/-! ### lines -/

def isHeader (l : Bytes) : Bool :=
  match l with
  | [] => false
  | b :: _ => b ≠ 32

abbrev Entry := Bytes × List Bytes

def groupStep (l : Bytes) (st : List Bytes × List Entry) : List Bytes × List Entry :=
  if isHeader l then ([], (l, st.1) :: st.2) else (l :: st.1, st.2)

/-- group the lines of a block into entries; the first line must be a header -/
def groupEntries (ls : List Bytes) : Option (List Entry) :=
  let st := ls.foldr groupStep ([], [])
  if st.1.isEmpty then some st.2 else none

/-- remove two columns from every non-empty line -/
def unindent2 : List Bytes → Option (List Bytes)
  | [] => some []
  | [] :: ls => (unindent2 ls).map ([] :: ·)
  | (32 :: 32 :: r) :: ls => (unindent2 ls).map (r :: ·)
  | _ :: _ => none

/-! ### literal block scalars (`ScanScalar`, `DONT_FOLD`, `detectIndent`, `CLIP`) -/

def leadingSpaces : Bytes → Nat
  | [] => 0
  | b :: bs => if b = 32 then leadingSpaces bs + 1 else 0

/-- a line that is followed by a break: a final CR belongs to the break (`\r\n`) -/
def stripCR (l : Bytes) : Bytes :=
  match l.reverse with
  | 13 :: r => r.reverse
  | _ => l

/-- after the first non-empty line: indentation fixed at `ind` -/
def litRest (ind : Nat) (atEnd : Bool) : List Bytes → Option Bytes
  | [] => some []
  | l0 :: ls =>
    let last := ls.isEmpty && atEnd
    let l := if last then l0 else stripCR l0
    let nl : Bytes := if last then [] else [c_lf]
    let e := min (leadingSpaces l) ind
    let r := l.drop e
    if r.isEmpty then (litRest ind atEnd ls).map (nl ++ ·)
    else if e < ind then none
    else (litRest ind atEnd ls).map (r ++ nl ++ ·)

/-- before the first non-empty line: all leading spaces are eaten and raise the indentation -/
def litDetect (ind : Nat) (atEnd : Bool) : List Bytes → Option Bytes
  | [] => some []
  | l0 :: ls =>
    let last := ls.isEmpty && atEnd
    let l := if last then l0 else stripCR l0
    let nl : Bytes := if last then [] else [c_lf]
    let k := leadingSpaces l
    let ind' := max ind k
    let r := l.drop k
    if r.isEmpty then (litDetect ind' atEnd ls).map (nl ++ ·)
    else if k < ind' then none
    else (litRest ind' atEnd ls).map (r ++ nl ++ ·)

def dropTrailingLF (s : Bytes) : Bytes := (dropLF s.reverse).reverse

/-- clip chomping -/
def clip (s : Bytes) : Bytes :=
  let core := dropTrailingLF s
  if core.isEmpty then [] else if core.length < s.length then core ++ [c_lf] else core

/-- the value of a literal block.  NUL is the escape character of `ScanScalar`'s default parameters (NUL `b`
reads as a backspace, NUL + an unknown letter throws) and EOT (0x04) is the `Stream`'s end-of-input
sentinel: a block containing either is not read as written, and the strict model gives up (`none`).
Otherwise: the content lines (relative to the column of the entry that holds
the `|`) are `body`; `atEnd`: the last of them is the last line of the input -/
def readLiteral (body : List Bytes) (atEnd : Bool) : Option Bytes :=
  if body.any (fun l => l.any fun b => b = 0 || b = 4) then none
  else (litDetect 1 atEnd body).map clip

/-! ### scalars on one line -/

def takePlain : Bytes → Bytes × Bytes
  | [] => ([], [])
  | b :: bs =>
    if isPlainSafe b then
      let r := takePlain bs
      (b :: r.1, r.2)
    else ([], b :: bs)

/-- a scalar at the start of `l`: value, whether it was plain, rest of the line -/
def parseInline (l : Bytes) : Option (Bytes × Bool × Bytes) :=
  match l with
  | 34 :: r =>
    match parseDQBody r with
    | some (s, rest) => some (s, false, rest)
    | none => none
  | _ =>
    let r := takePlain l
    if r.1.isEmpty then none else some (r.1, true, r.2)

def isNullWord (s : Bytes) : Bool :=
  s = [110, 117, 108, 108] || s = [78, 117, 108, 108] || s = [78, 85, 76, 76]

/-- yaml-cpp reports a plain `null` as a null node -/
def scalarNode (s : Bytes) (plain : Bool) : Cfg :=
  if plain && isNullWord s then .null else .scalar s

/-- `map_[key] = value` for the entries in document order -/
def buildMap (kvs : List (Bytes × Cfg)) : List (Bytes × Cfg) :=
  kvs.foldl (fun m kv => mapSet m kv.1 kv.2) []

/-! ### flow collections (one line) -/

def dropSp : Bytes → Bytes
  | [] => []
  | b :: bs => if b = 32 then dropSp bs else b :: bs

/-- the first byte is `b` -/
def headIs (l : Bytes) (b : UInt8) : Bool :=
  match l with
  | x :: _ => x = b
  | [] => false

/-- the text starts a flow collection -/
def startsFlow (l : Bytes) : Bool := headIs l 91 || headIs l 123

mutual
/-- a flow node at the start of the input (white space before it is skipped, as the scanner does) -/
def parseFlow : Nat → Bytes → Option (Cfg × Bytes)
  | 0, _ => none
  | fuel + 1, l0 =>
    match dropSp l0 with
    | [] => none
    | b :: r =>
      if b = 91 then
        if headIs r 93 then some (.list [], r.drop 1)
        else
          match parseFlow fuel r with
          | some (x, r1) =>
            match parseSeqTail fuel r1 with
            | some (xs, r2) => some (.list (x :: xs), r2)
            | none => none
          | none => none
      else if b = 123 then
        if headIs r 125 then some (.map [], r.drop 1)
        else
          match parseFlowEntry fuel r with
          | some (k, v, r1) =>
            match parseMapTail fuel r1 with
            | some (kvs, r2) => some (.map (buildMap ((k, v) :: kvs)), r2)
            | none => none
          | none => none
      else
        match parseInline (b :: r) with
        | some (s, plain, r1) => some (scalarNode s plain, r1)
        | none => none
/-- after an item of a flow sequence: `]` or `, item …` -/
def parseSeqTail : Nat → Bytes → Option (List Cfg × Bytes)
  | 0, _ => none
  | fuel + 1, l =>
    match l with
    | [] => none
    | b :: r =>
      if b = 93 then some ([], r)
      else if b = 44 && headIs r 32 then
        match parseFlow fuel (r.drop 1) with
        | some (x, r1) =>
          match parseSeqTail fuel r1 with
          | some (xs, r2) => some (x :: xs, r2)
          | none => none
        | none => none
      else none
/-- `key: value` inside a flow map -/
def parseFlowEntry : Nat → Bytes → Option (Bytes × Cfg × Bytes)
  | 0, _ => none
  | fuel + 1, l =>
    match parseInline l with
    | some (k, plain, r) =>
      if headIs r 58 && headIs (r.drop 1) 32 then
        if plain && isNullWord k then none
        else
          match parseFlow fuel (r.drop 2) with
          | some (v, r1) => some (k, v, r1)
          | none => none
      else none
    | none => none
/-- after an entry of a flow map: `}` or `, key: value …`; the entries in document order -/
def parseMapTail : Nat → Bytes → Option (List (Bytes × Cfg) × Bytes)
  | 0, _ => none
  | fuel + 1, l =>
    match l with
    | [] => none
    | b :: r =>
      if b = 125 then some ([], r)
      else if b = 44 && headIs r 32 then
        match parseFlowEntry fuel (r.drop 1) with
        | some (k, v, r1) =>
          match parseMapTail fuel r1 with
          | some (kvs, r2) => some ((k, v) :: kvs, r2)
          | none => none
        | none => none
      else none
end

/-- a flow collection that must fill the whole line -/
def parseFlowLine (l : Bytes) : Option Cfg :=
  match parseFlow (l.length + 1) l with
  | some (t, r) => if r.isEmpty then some t else none
  | none => none

/-! ### block collections -/

/-- what stands after a `-` or a `key:` on the header line, with the entry's body.
`inSeq`: the parent is a sequence (a map may then start on the header line).
The nested block is read by `blk`, the parser one fuel step down. -/
def parseChildWith (blk : List Bytes → Bool → Option Cfg) (inSeq : Bool) (hdr : Bytes) (body : List Bytes)
    (atEnd : Bool) : Option Cfg :=
  match hdr with
  | [] =>
    if body.isEmpty then some .null
    else
      match unindent2 body with
      | some ls => blk ls atEnd
      | none => none
  | b :: x =>
    if b ≠ 32 then none
    else if x = [124] then (readLiteral body atEnd).map .scalar
    else if startsFlow x then (if body.isEmpty then parseFlowLine x else none)
    else
      match parseInline x with
      | some (s, plain, r) =>
        if r.isEmpty then (if body.isEmpty then some (scalarNode s plain) else none)
        else if headIs r 58 && inSeq then
          match unindent2 body with
          | some ls => blk (x :: ls) atEnd
          | none => none
        else none
      | none => none

def seqEntries (child : Bool → Bytes → List Bytes → Bool → Option Cfg) (atEnd : Bool) :
    List Entry → Option (List Cfg)
  | [] => some []
  | (h, body) :: es =>
    if headIs h 45 then
      match child true (h.drop 1) body (atEnd && es.isEmpty), seqEntries child atEnd es with
      | some x, some xs => some (x :: xs)
      | _, _ => none
    else none

def mapEntries (child : Bool → Bytes → List Bytes → Bool → Option Cfg) (atEnd : Bool) :
    List Entry → Option (List (Bytes × Cfg))
  | [] => some []
  | (h, body) :: es =>
    match parseInline h with
    | some (k, plain, r) =>
      if headIs r 58 then
        if plain && isNullWord k then none
        else
          match child false (r.drop 1) body (atEnd && es.isEmpty), mapEntries child atEnd es with
          | some v, some kvs => some ((k, v) :: kvs)
          | _, _ => none
      else none
    | none => none

/-- a block node given by its lines (relative to its own column) -/
def parseBlock : Nat → List Bytes → Bool → Option Cfg
  | 0, _, _ => none
  | fuel + 1, ls, atEnd =>
    match ls with
    | [] => none
    | l :: rest =>
      if startsFlow l then (if rest.isEmpty then parseFlowLine l else none)
      else if headIs l 45 then
        match groupEntries ls with
        | some es => (seqEntries (parseChildWith (parseBlock fuel)) atEnd es).map .list
        | none => none
      else
        match groupEntries ls with
        | some es => (mapEntries (parseChildWith (parseBlock fuel)) atEnd es).map (fun kvs => .map (buildMap kvs))
        | none => none

/-- lines of a document -/
def docLines (doc : Bytes) : List Bytes := splitOn c_lf doc

/-- a document given by its lines.  Block nesting in an emitted document never exceeds `flowDepth`
levels, so the fuel below is enough for everything `emitDoc` writes (and for any input with no more
nested block collections than it has lines). -/
def parseLines (ls : List Bytes) : Option Cfg :=
  let fuel := ls.length + flowDepth + 1
  if ls = [[]] then some .null
  else
    match ls with
    | [] => none
    | l :: rest =>
      if l = [124] then
        -- a literal block as the whole document: its content is relative to column 0
        (readLiteral rest true).map .scalar
      else if startsFlow l then parseBlock fuel ls true
      else
        match parseInline l with
        | some (s, plain, r) =>
          if r.isEmpty then
            if rest.isEmpty then
              (if plain && s = threeDots then some .null else some (scalarNode s plain))
            else none
          else parseBlock fuel ls true
        | none => parseBlock fuel ls true

/-- `LoadFromStream`: `none` = the document is outside the emitted subset (or does not load) -/
def parseDoc (doc : Bytes) : Option Cfg := parseLines (docLines doc)

end RimeModel.C18
