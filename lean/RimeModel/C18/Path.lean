import RimeModel.C18.Cfg
/-!
C18 — key paths: `ConfigData::SplitPath`, `IsListItemReference`, `ResolveListIndex`, `Traverse`
(reads) and `TraverseWrite` (`TraverseCopyOnWrite` + `TypeCheckedCopyOnWrite` + `ConfigCowRef`),
ported line by line from src/rime/config/config_data.cc and config_cow_ref.h.

C integer conventions: `unsigned int index` is a `Nat` reduced mod 2^32 after every update;
`strtoul` returns an `unsigned long` (64 bit, saturating at `ULONG_MAX`, a leading `-` negates
mod 2^64); `std::isalnum`/`isspace` are those of the "C" locale (librime never calls `setlocale`).
-/
namespace RimeModel.C18

def c_slash : UInt8 := 47
def c_at : UInt8 := 64
def c_space : UInt8 := 32

def isDigit (b : UInt8) : Bool := 48 ≤ b.toNat && b.toNat ≤ 57
def isUpper (b : UInt8) : Bool := 65 ≤ b.toNat && b.toNat ≤ 90
def isLower (b : UInt8) : Bool := 97 ≤ b.toNat && b.toNat ≤ 122
/-- `std::isalnum` in the "C" locale -/
def isAlnum (b : UInt8) : Bool := isDigit b || isUpper b || isLower b
/-- `isspace` in the "C" locale: space, \t \n \v \f \r -/
def isSpace (b : UInt8) : Bool := b.toNat = 32 || (9 ≤ b.toNat && b.toNat ≤ 13)

/-! ### `SplitPath`: `boost::trim_left_copy_if(path, is_any_of("/"))` then `boost::split` on `/`
(no token compression: empty tokens are kept, the empty string splits into one empty token) -/

def splitOn (sep : UInt8) : Bytes → List Bytes
  | [] => [[]]
  | b :: bs =>
    match splitOn sep bs with
    | [] => [[]]            -- unreachable: the result is never empty
    | cur :: rest => if b = sep then [] :: cur :: rest else (b :: cur) :: rest

def trimLeft (sep : UInt8) : Bytes → Bytes
  | [] => []
  | b :: bs => if b = sep then trimLeft sep bs else b :: bs

def splitPath (path : Bytes) : List Bytes := splitOn c_slash (trimLeft c_slash path)

/-- `ConfigData::IsListItemReference` -/
def isListRef : Bytes → Bool
  | a :: b :: _ => a = c_at && isAlnum b
  | _ => false

/-! ### `strtoul(s, NULL, 10)` -/

def dropSpaces : Bytes → Bytes
  | [] => []
  | b :: bs => if isSpace b then dropSpaces bs else b :: bs

/-- value of the leading decimal digits, and how many there were -/
def digitsVal : Bytes → Nat → Nat → Nat × Nat
  | [], acc, n => (acc, n)
  | b :: bs, acc, n => if isDigit b then digitsVal bs (acc * 10 + (b.toNat - 48)) (n + 1) else (acc, n)

def ULONG_MAX : Nat := 18446744073709551615

/-- the bytes a C function sees through `c_str()`: up to the first NUL -/
def cstr : Bytes → Bytes
  | [] => []
  | b :: bs => if b.toNat == 0 then [] else b :: cstr bs

def strtoul10 (s0 : Bytes) : Nat :=
  let s := dropSpaces (cstr s0)
  let neg : Bool := match s with | b :: _ => b.toNat == 45 | [] => false
  let s1 := match s with | b :: bs => if b.toNat == 45 || b.toNat == 43 then bs else b :: bs | [] => []
  let r := digitsVal s1 0 0
  if r.2 = 0 then 0
  else if r.1 > ULONG_MAX then ULONG_MAX
  else if neg then (ULONG_MAX + 1 - r.1) % (ULONG_MAX + 1)
  else r.1

/-! ### `ResolveListIndex` -/

def kAfter : Bytes := [97, 102, 116, 101, 114]
def kBefore : Bytes := [98, 101, 102, 111, 114, 101]
def kLast : Bytes := [108, 97, 115, 116]
def kNext : Bytes := [110, 101, 120, 116]

def U32 : Nat := 4294967296

/-- `key.compare(cursor, w.length(), w) == 0` -/
def hasAt (key : Bytes) (cursor : Nat) (w : Bytes) : Bool := (key.drop cursor).take w.length = w

structure Resolved where
  index : Nat
  willInsert : Bool
  deriving Repr, DecidableEq

/-- `ResolveListIndex` on a key that is a list reference, for a list of `size` elements.
Returns the index and whether the write path inserts a null there first. -/
def resolveIdx (size : Nat) (key : Bytes) : Resolved :=
  let cursor := 1
  -- first group: next / before / after
  let g : Nat × Nat × Bool :=
    if hasAt key cursor kNext then (cursor + kNext.length, size % U32, false)
    else if hasAt key cursor kBefore then (cursor + kBefore.length, 0, true)
    else if hasAt key cursor kAfter then (cursor + kAfter.length, 1, true)
    else (cursor, 0, false)
  let cursor := g.1
  let index := g.2.1
  let willInsert := g.2.2
  let cursor := if key.getD cursor 0 = c_space && cursor < key.length then cursor + 1 else cursor
  let index :=
    if hasAt key cursor kLast then
      let i := (index + size) % U32
      if i ≠ 0 then i - 1 else i
    else (index + strtoul10 (key.drop cursor)) % U32
  ⟨index, willInsert⟩

/-- `ConfigData::ResolveListIndex(item, key, read_only = true)`: 0 unless `key` is a list reference and
`item` is a list -/
def resolveRead (item : Cfg) (key : Bytes) : Nat :=
  if isListRef key then
    match item with
    | .list xs => (resolveIdx xs.length key).index
    | _ => 0
  else 0

/-! ### `ConfigData::Traverse` -/

def traverseKeys : Cfg → List Bytes → Cfg
  | p, [] => p
  | p, key :: rest =>
    if isListRef key then
      match p with
      | .list xs => traverseKeys (listGet xs (resolveIdx xs.length key).index) rest
      | _ => .null
    else
      match p with
      | .map kvs => traverseKeys (mapGet kvs key) rest
      | _ => .null

def isRootPath (path : Bytes) : Bool := path = [] || path = [c_slash]

def traverse (root : Cfg) (path : Bytes) : Cfg :=
  if isRootPath path then root else traverseKeys root (splitPath path)

/-! ### `TraverseWrite`

`ConfigCowRef<T>::GetItem` reads the child of the (old) parent through `Read`; the type check of
`TypeCheckedCopyOnWrite` looks at that old child; an empty key returns the parent itself.
`SetItem` on the last reference copies (or creates) every container on the way up and writes the
children back top-down; list writes call `ResolveListIndex(list, key, read_only = false)`, which
performs the insertion of `@before` / `@after`. -/

/-- `As<ConfigList>(item)`: the elements, none when the node is null or of another type (a new empty
container is created on the write path) -/
def asList : Cfg → List Cfg
  | .list xs => xs
  | _ => []

/-- `As<ConfigMap>(item)` -/
def asMap : Cfg → List (Bytes × Cfg)
  | .map kvs => kvs
  | _ => []

/-- what `ConfigCowRef<T>(parent, key)->GetItem()` returns when the parent currently holds `cur` -/
def childRead (cur : Cfg) (key : Bytes) : Cfg :=
  if isListRef key then
    match cur with
    | .list xs => listGet xs (resolveIdx xs.length key).index
    | _ => .null
  else
    match cur with
    | .map kvs => mapGet kvs key
    | _ => .null

def expectedTy (key : Bytes) : Ty := if isListRef key then .list else .map

/-- the loop of `TraverseCopyOnWrite` over the non-empty keys (an empty key returns the parent
reference unchanged, so `traverseWrite` filters them out first): every key needs the node it descends
from to be absent or of the container type the key's form asks for -/
def typeCheck : Cfg → List Bytes → Bool
  | _, [] => true
  | cur, key :: rest =>
    (cur.ty = .null || cur.ty = expectedTy key) && typeCheck (childRead cur key) rest

/-- `*target = item` seen from the node that currently holds `cur`: the new value of that node.
Precondition (established by `typeCheck`): `cur` is null or of the container type of the first key. -/
def writeAt : Cfg → List Bytes → Cfg → Cfg
  | _, [], item => item
  | cur, key :: rest, item =>
    let newChild := writeAt (childRead cur key) rest item
    if isListRef key then
      let xs := asList cur
      let r := resolveIdx xs.length key
      let xs1 := if r.willInsert then listInsert xs r.index .null else xs
      .list (listSetAt xs1 r.index newChild)
    else
      .map (mapSet (asMap cur) key newChild)

def nonEmptyKeys (keys : List Bytes) : List Bytes := keys.filter (· ≠ [])

/-- `ConfigData::TraverseWrite(path, item)`: `none` = returned false, tree unchanged -/
def traverseWrite (root : Cfg) (path : Bytes) (item : Cfg) : Option Cfg :=
  if isRootPath path then some item
  else
    let keys := nonEmptyKeys (splitPath path)
    if typeCheck root keys then some (writeAt root keys item) else none

/-- `ConfigData::FormatListIndex` is `"@" + decimal`; the digits -/
def natDigits (fuel n : Nat) (acc : Bytes) : Bytes :=
  match fuel with
  | 0 => acc
  | fuel + 1 =>
    let acc := UInt8.ofNat (48 + n % 10) :: acc
    if n / 10 = 0 then acc else natDigits fuel (n / 10) acc

def natToDec (n : Nat) : Bytes := natDigits (n + 1) n []

def formatListIndex (i : Nat) : Bytes := c_at :: natToDec i

end RimeModel.C18
