import RimeModel.C18.Value
/-! helper lemmas for the key-path theorems of C18 (free to change) -/
namespace RimeModel.C18

set_option linter.unusedSimpArgs false

/-! ### resolved locations -/

/-- one resolved step of a location: a map key or a list index -/
inductive Step where
  | key (k : Bytes)
  | idx (i : Nat)
  deriving DecidableEq, Repr

def getStep : Cfg → Step → Cfg
  | .map kvs, .key k => mapGet kvs k
  | .list xs, .idx i => listGet xs i
  | _, _ => .null

def getSteps (t : Cfg) (ss : List Step) : Cfg := ss.foldl getStep t

/-- the step a key is resolved to when the write passes through a node that currently holds `cur` -/
def writtenStep (cur : Cfg) (key : Bytes) : Step :=
  if isListRef key then .idx (resolveIdx (asList cur).length key).index else .key key

/-- the location `writeAt cur keys item` stores `item` at -/
def written : Cfg → List Bytes → List Step
  | _, [] => []
  | cur, key :: rest => writtenStep cur key :: written (childRead cur key) rest

/-- the key inserts a new list element on the write path -/
def keyInserts (cur : Cfg) (key : Bytes) : Bool :=
  isListRef key && (resolveIdx (asList cur).length key).willInsert

/-- no key of the path is an inserting form (`@before …` / `@after …`) -/
def noInsert : Cfg → List Bytes → Bool
  | _, [] => true
  | cur, key :: rest => !keyInserts cur key && noInsert (childRead cur key) rest

/-! ### lists -/

theorem padTo_length (xs : List Cfg) (n : Nat) : (padTo xs n).length = max xs.length n := by
  simp [padTo]; omega

theorem listGet_padTo (xs : List Cfg) (n j : Nat) : listGet (padTo xs n) j = listGet xs j := by
  unfold listGet padTo
  by_cases h : j < xs.length
  · simp [List.getD, List.getElem?_append_left h]
  · have h' : xs.length ≤ j := Nat.le_of_not_lt h
    simp only [List.getD, List.getElem?_append_right h']
    rw [List.getElem?_eq_none h']
    by_cases h2 : j - xs.length < n - xs.length
    · simp [List.getElem?_replicate, h2]
    · simp [List.getElem?_replicate, h2]

theorem listGet_listSetAt_same (xs : List Cfg) (i : Nat) (v : Cfg) : listGet (listSetAt xs i v) i = v := by
  unfold listGet listSetAt
  have : i < (padTo xs (i + 1)).length := by rw [padTo_length]; omega
  simp [List.getD, List.getElem?_set, this]

theorem listGet_listSetAt_other (xs : List Cfg) (i j : Nat) (v : Cfg) (h : j ≠ i) :
    listGet (listSetAt xs i v) j = listGet xs j := by
  unfold listSetAt
  have : listGet ((padTo xs (i + 1)).set i v) j = listGet (padTo xs (i + 1)) j := by
    unfold listGet
    simp [List.getD, List.getElem?_set, Ne.symm h]
  rw [this, listGet_padTo]

theorem listSetAt_length (xs : List Cfg) (i : Nat) (v : Cfg) : (listSetAt xs i v).length = max xs.length (i + 1) := by
  simp [listSetAt, padTo_length]

theorem listInsert_length (xs : List Cfg) (i : Nat) (v : Cfg) : (listInsert xs i v).length = max xs.length i + 1 := by
  unfold listInsert
  simp only [List.length_append, List.length_cons, List.length_take, List.length_drop, padTo_length]
  omega

theorem listGet_listInsert (xs : List Cfg) (i j : Nat) (v : Cfg) :
    listGet (listInsert xs i v) j = if j < i then listGet xs j else if j = i then v else listGet xs (j - 1) := by
  unfold listInsert
  have hl : (padTo xs i).length = max xs.length i := padTo_length xs i
  have htl : ((padTo xs i).take i).length = i := by simp [List.length_take, hl]; omega
  by_cases h1 : j < i
  · simp only [h1, if_true]
    have : listGet ((padTo xs i).take i ++ v :: (padTo xs i).drop i) j = listGet (padTo xs i) j := by
      unfold listGet
      simp only [List.getD]
      rw [List.getElem?_append_left (by omega)]
      simp [List.getElem?_take, h1]
    show listGet ((padTo xs i).take i ++ v :: (padTo xs i).drop i) j = _
    rw [this, listGet_padTo]
  · simp only [h1, if_false]
    by_cases h2 : j = i
    · subst h2
      simp only [if_true]
      show listGet ((padTo xs j).take j ++ v :: (padTo xs j).drop j) j = _
      unfold listGet
      simp only [List.getD]
      rw [List.getElem?_append_right (by omega)]
      simp [htl]
    · simp only [h2, if_false]
      show listGet ((padTo xs i).take i ++ v :: (padTo xs i).drop i) j = _
      have hj : i < j := by omega
      have : listGet ((padTo xs i).take i ++ v :: (padTo xs i).drop i) j = listGet (padTo xs i) (j - 1) := by
        unfold listGet
        simp only [List.getD]
        rw [List.getElem?_append_right (by omega)]
        rw [htl]
        have : j - i = (j - i - 1) + 1 := by omega
        rw [this, List.getElem?_cons_succ, List.getElem?_drop]
        have : i + (j - i - 1) = j - 1 := by omega
        rw [this]
      rw [this, listGet_padTo]

/-! ### maps -/

theorem mapGet_mapSet_same (kvs : List (Bytes × Cfg)) (k : Bytes) (v : Cfg) : mapGet (mapSet kvs k v) k = v := by
  induction kvs with
  | nil => simp [mapSet, mapGet]
  | cons kv rest ih =>
    obtain ⟨k', x⟩ := kv
    unfold mapSet
    by_cases h1 : k' = k
    · simp [h1, mapGet]
    · simp only [h1, if_false]
      by_cases h2 : bytesLt k k' = true
      · simp [h2, mapGet]
      · simp only [h2]
        simp [mapGet, h1, ih]

theorem mapGet_mapSet_other (kvs : List (Bytes × Cfg)) (k j : Bytes) (v : Cfg) (h : j ≠ k) :
    mapGet (mapSet kvs k v) j = mapGet kvs j := by
  induction kvs with
  | nil => simp [mapSet, mapGet, Ne.symm h]
  | cons kv rest ih =>
    obtain ⟨k', x⟩ := kv
    unfold mapSet
    by_cases h1 : k' = k
    · subst h1
      simp [mapGet, Ne.symm h]
    · simp only [h1, if_false]
      by_cases h2 : bytesLt k k' = true
      · simp [h2, mapGet, Ne.symm h]
      · simp only [h2]
        by_cases h3 : k' = j
        · simp [mapGet, h3]
        · simp [mapGet, h3, ih]

/-! ### one write step -/

theorem childRead_eq_getStep (cur : Cfg) (key : Bytes) (h : keyInserts cur key = false) :
    childRead cur key = getStep cur (writtenStep cur key) := by
  unfold childRead writtenStep
  by_cases hl : isListRef key = true
  · simp only [hl, if_true]
    cases cur <;> simp [getStep, asList, listGet]
  · simp only [hl]
    cases cur <;> simp [getStep]

theorem writeAt_cons (cur : Cfg) (key : Bytes) (rest : List Bytes) (item : Cfg) :
    writeAt cur (key :: rest) item =
      if isListRef key then
        .list (listSetAt
          (if (resolveIdx (asList cur).length key).willInsert then
              listInsert (asList cur) (resolveIdx (asList cur).length key).index .null
            else asList cur)
          (resolveIdx (asList cur).length key).index (writeAt (childRead cur key) rest item))
      else .map (mapSet (asMap cur) key (writeAt (childRead cur key) rest item)) := by
  rw [writeAt]

/-- the value `writeAt` leaves at the head step -/
theorem getStep_writeAt_head (cur : Cfg) (key : Bytes) (rest : List Bytes) (item : Cfg) :
    getStep (writeAt cur (key :: rest) item) (writtenStep cur key) = writeAt (childRead cur key) rest item := by
  rw [writeAt_cons]
  unfold writtenStep
  by_cases hl : isListRef key = true
  · simp only [hl, if_true, getStep]
    exact listGet_listSetAt_same _ _ _
  · simp only [hl, getStep]
    exact mapGet_mapSet_same _ _ _

theorem ty_cases (cur : Cfg) (key : Bytes) (h : (cur.ty = .null || cur.ty = expectedTy key) = true) :
    cur = .null ∨ (isListRef key = true ∧ ∃ xs, cur = .list xs) ∨ (isListRef key = false ∧ ∃ kvs, cur = .map kvs) := by
  unfold expectedTy at h
  cases cur with
  | null => exact Or.inl rfl
  | scalar s => by_cases hl : isListRef key = true <;> simp [Cfg.ty, hl] at h
  | list xs =>
    by_cases hl : isListRef key = true
    · exact Or.inr (Or.inl ⟨hl, xs, rfl⟩)
    · simp [Cfg.ty, hl] at h
  | map kvs =>
    by_cases hl : isListRef key = true
    · simp [Cfg.ty, hl] at h
    · exact Or.inr (Or.inr ⟨by simpa using hl, kvs, rfl⟩)

theorem getStep_null (s : Step) : getStep .null s = .null := by
  cases s <;> rfl

/-- a step other than the written one sees the old value (non-inserting key, type check passed) -/
theorem getStep_writeAt_other (cur : Cfg) (key : Bytes) (rest : List Bytes) (item : Cfg) (s : Step)
    (hty : (cur.ty = .null || cur.ty = expectedTy key) = true)
    (hins : keyInserts cur key = false) (hs : s ≠ writtenStep cur key) :
    getStep (writeAt cur (key :: rest) item) s = getStep cur s := by
  rw [writeAt_cons]
  by_cases hl : isListRef key = true
  · -- list reference
    have hw : (resolveIdx (asList cur).length key).willInsert = false := by
      simpa [keyInserts, hl] using hins
    have hstep : writtenStep cur key = .idx (resolveIdx (asList cur).length key).index := by
      simp [writtenStep, hl]
    rw [if_pos hl, hw]
    simp only [Bool.false_eq_true, if_false]
    have hcur : getStep cur s = match s with | .idx j => listGet (asList cur) j | .key _ => .null := by
      rcases ty_cases cur key hty with h | ⟨_, xs, h⟩ | ⟨hl', _, _⟩
      · subst h; cases s <;> simp [getStep, asList, listGet]
      · subst h; cases s <;> simp [getStep, asList]
      · rw [hl] at hl'; exact absurd hl' (by simp)
    rw [hcur]
    cases s with
    | key k => rfl
    | idx j =>
      have : j ≠ (resolveIdx (asList cur).length key).index := fun e => hs (by rw [hstep, e])
      simp only [getStep]
      exact listGet_listSetAt_other _ _ _ _ this
  · -- map key
    have hstep : writtenStep cur key = .key key := by simp [writtenStep, hl]
    rw [if_neg hl]
    have hcur : getStep cur s = match s with | .key k => mapGet (asMap cur) k | .idx _ => .null := by
      rcases ty_cases cur key hty with h | ⟨hl', _, _⟩ | ⟨_, kvs, h⟩
      · subst h; cases s <;> simp [getStep, asMap, mapGet]
      · exact absurd hl' hl
      · subst h; cases s <;> simp [getStep, asMap]
    rw [hcur]
    cases s with
    | idx j => rfl
    | key k =>
      have : k ≠ key := fun e => hs (by rw [hstep, e])
      simp only [getStep]
      exact mapGet_mapSet_other _ _ _ _ this

end RimeModel.C18
