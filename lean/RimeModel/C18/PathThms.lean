import RimeModel.C18.PathLemmas
/-! key-path theorems of C18 proved here, restated in Props/C18.lean -/
namespace RimeModel.C18

theorem getSteps_cons (t : Cfg) (s : Step) (ss : List Step) : getSteps t (s :: ss) = getSteps (getStep t s) ss := rfl

theorem getSteps_null (ss : List Step) : getSteps .null ss = .null := by
  induction ss with
  | nil => rfl
  | cons s ss ih => rw [getSteps_cons, getStep_null, ih]

/-- reading the written location gives the written value (any keys, any tree) -/
theorem get_written (cur : Cfg) (keys : List Bytes) (item : Cfg) :
    getSteps (writeAt cur keys item) (written cur keys) = item := by
  induction keys generalizing cur with
  | nil => simp [writeAt, written, getSteps]
  | cons key rest ih =>
    rw [written, getSteps_cons, getStep_writeAt_head]
    exact ih _

/-- two locations diverge: after a common prefix they continue with different steps -/
def Diverge : List Step → List Step → Prop
  | a :: as, b :: bs => a ≠ b ∨ (a = b ∧ Diverge as bs)
  | _, _ => False

theorem frame_steps (cur : Cfg) (keys : List Bytes) (item : Cfg) (q : List Step)
    (hty : typeCheck cur keys = true) (hins : noInsert cur keys = true) (hd : Diverge (written cur keys) q) :
    getSteps (writeAt cur keys item) q = getSteps cur q := by
  induction keys generalizing cur q with
  | nil => simp [written, Diverge] at hd
  | cons key rest ih =>
    cases q with
    | nil => simp [written, Diverge] at hd
    | cons s q' =>
      rw [typeCheck, Bool.and_eq_true] at hty
      rw [noInsert, Bool.and_eq_true] at hins
      have hk : keyInserts cur key = false := by simpa using hins.1
      rw [written] at hd
      rw [getSteps_cons, getSteps_cons]
      rcases hd with hne | ⟨heq, hd'⟩
      · rw [getStep_writeAt_other cur key rest item s hty.1 hk (Ne.symm hne)]
      · subst heq
        rw [getStep_writeAt_head, ← childRead_eq_getStep cur key hk]
        exact ih _ _ hty.2 hins.2 hd'

/-! ### insertion -/

theorem listGet_insert_set (xs : List Cfg) (i j : Nat) (v : Cfg) :
    listGet (listSetAt (listInsert xs i .null) i v) j =
      if j < i then listGet xs j else if j = i then v else listGet xs (j - 1) := by
  by_cases h : j = i
  · subst h
    simp [listGet_listSetAt_same]
  · rw [listGet_listSetAt_other _ _ _ _ h, listGet_listInsert]
    simp [h]

/-- the list a successful write through `pre` finds at that location (empty when absent) -/
def listAt (cur : Cfg) (pre : List Bytes) : List Cfg := asList (getSteps cur (written cur pre))

theorem noInsert_append (cur : Cfg) (pre : List Bytes) (k : Bytes) :
    noInsert cur (pre ++ [k]) = (noInsert cur pre && !keyInserts (getSteps cur (written cur pre)) k) ∨
    noInsert cur pre = false := by
  induction pre generalizing cur with
  | nil => left; simp [noInsert, written, getSteps]
  | cons key rest ih =>
    by_cases hk : keyInserts cur key = true
    · right; simp [noInsert, hk]
    · have hk' : keyInserts cur key = false := by simpa using hk
      rcases ih (childRead cur key) with h | h
      · left
        simp only [List.cons_append, noInsert, hk', written, getSteps_cons]
        rw [← childRead_eq_getStep cur key hk', h]
        simp
      · right; simp [noInsert, h]

/-- the new value of the node a path `pre` leads to, when `pre` has no inserting key -/
theorem writeAt_append_at (cur : Cfg) (pre rest : List Bytes) (item : Cfg)
    (hins : noInsert cur pre = true) :
    getSteps (writeAt cur (pre ++ rest) item) (written cur pre) =
      writeAt (getSteps cur (written cur pre)) rest item := by
  induction pre generalizing cur with
  | nil => simp [written, getSteps]
  | cons key pre' ih =>
    rw [noInsert, Bool.and_eq_true] at hins
    have hk : keyInserts cur key = false := by simpa using hins.1
    rw [List.cons_append, written, getSteps_cons, getSteps_cons, getStep_writeAt_head,
      ← childRead_eq_getStep cur key hk]
    exact ih _ hins.2

theorem getSteps_append (t : Cfg) (a b : List Step) : getSteps t (a ++ b) = getSteps (getSteps t a) b := by
  simp [getSteps, List.foldl_append]

/-- behind an inserting last key: elements before the index keep their place, the new one holds the
item, the others moved up by one -/
theorem insert_shift_steps (cur : Cfg) (pre : List Bytes) (k : Bytes) (item : Cfg) (j : Nat)
    (hpre : noInsert cur pre = true)
    (hk : keyInserts (getSteps cur (written cur pre)) k = true) :
    getSteps (writeAt cur (pre ++ [k]) item) (written cur pre ++ [.idx j]) =
      (let i := (resolveIdx (listAt cur pre).length k).index
       if j < i then listGet (listAt cur pre) j else if j = i then item else listGet (listAt cur pre) (j - 1)) := by
  rw [getSteps_append, writeAt_append_at cur pre [k] item hpre]
  simp only [keyInserts, Bool.and_eq_true] at hk
  rw [writeAt_cons, if_pos hk.1]
  simp only [writeAt, listAt]
  rw [hk.2]
  simp only [if_true, getSteps, List.foldl, getStep]
  exact listGet_insert_set _ _ _ _

/-! ### the textual read path and resolved locations -/

/-- the location `Traverse` reads for a list of keys -/
def readSteps : Cfg → List Bytes → List Step
  | _, [] => []
  | cur, key :: rest => writtenStep cur key :: readSteps (childRead cur key) rest

theorem traverseKeys_cons (p : Cfg) (key : Bytes) (rest : List Bytes) :
    traverseKeys p (key :: rest) =
      if isListRef key then
        match p with
        | .list xs => traverseKeys (listGet xs (resolveIdx xs.length key).index) rest
        | _ => .null
      else
        match p with
        | .map kvs => traverseKeys (mapGet kvs key) rest
        | _ => .null := by
  cases p <;> simp [traverseKeys]

theorem traverseKeys_null (keys : List Bytes) : traverseKeys .null keys = .null := by
  cases keys with
  | nil => rfl
  | cons key rest => rw [traverseKeys_cons]; split <;> rfl

theorem traverseKeys_eq_childRead (cur : Cfg) (key : Bytes) (rest : List Bytes) :
    traverseKeys cur (key :: rest) = traverseKeys (childRead cur key) rest := by
  rw [traverseKeys_cons]
  unfold childRead
  by_cases hl : isListRef key = true
  · rw [if_pos hl, if_pos hl]
    cases cur <;> simp [traverseKeys_null]
  · rw [if_neg hl, if_neg hl]
    cases cur <;> simp [traverseKeys_null]

theorem childRead_eq_getStep_read (cur : Cfg) (key : Bytes) : childRead cur key = getStep cur (writtenStep cur key) := by
  unfold childRead writtenStep
  by_cases hl : isListRef key = true
  · simp only [hl, if_true]
    cases cur <;> simp [getStep, asList, listGet]
  · simp only [hl]
    cases cur <;> simp [getStep]

/-- `Traverse` reads the location its keys resolve to -/
theorem traverseKeys_eq_getSteps (cur : Cfg) (keys : List Bytes) :
    traverseKeys cur keys = getSteps cur (readSteps cur keys) := by
  induction keys generalizing cur with
  | nil => simp [traverseKeys, readSteps, getSteps]
  | cons key rest ih =>
    rw [traverseKeys_eq_childRead, readSteps, getSteps_cons, ← childRead_eq_getStep_read]
    exact ih _

/-- a list-reference key that names the same index whatever the size of the list, and never inserts
(`@N`; not `@next`, `@last`, `@before …`, `@after …`) -/
def Stable (key : Bytes) : Prop :=
  ∃ i : Nat, ∀ n : Nat, resolveIdx n key = ⟨i, false⟩

theorem childRead_list (xs : List Cfg) (key : Bytes) (hl : isListRef key = true) :
    childRead (.list xs) key = listGet xs (resolveIdx xs.length key).index := by
  simp [childRead, hl]

theorem childRead_map (kvs : List (Bytes × Cfg)) (key : Bytes) (hl : ¬ isListRef key = true) :
    childRead (.map kvs) key = mapGet kvs key := by
  simp [childRead, hl]

/-- re-reading the very path that was written, when its list references are stable -/
theorem traverse_written_same (cur : Cfg) (keys : List Bytes) (item : Cfg)
    (hst : ∀ key ∈ keys, isListRef key = true → Stable key) :
    traverseKeys (writeAt cur keys item) keys = item := by
  induction keys generalizing cur with
  | nil => simp [traverseKeys, writeAt]
  | cons key rest ih =>
    rw [traverseKeys_eq_childRead]
    have hrest : ∀ k ∈ rest, isListRef k = true → Stable k := fun k hk => hst k (List.mem_cons_of_mem _ hk)
    have : childRead (writeAt cur (key :: rest) item) key = writeAt (childRead cur key) rest item := by
      rw [writeAt_cons]
      by_cases hl : isListRef key = true
      · obtain ⟨i, hs⟩ := hst key (List.mem_cons_self ..) hl
        rw [if_pos hl, childRead_list _ _ hl]
        simp only [hs, Bool.false_eq_true, if_false]
        exact listGet_listSetAt_same _ _ _
      · rw [if_neg hl, childRead_map _ _ hl]
        exact mapGet_mapSet_same _ _ _
    rw [this]
    exact ih _ hrest

/-! ### well-formedness is preserved -/

theorem bytesLt_irrefl (a : Bytes) : bytesLt a a = false := by
  induction a with
  | nil => rfl
  | cons x xs ih => simp [bytesLt, ih]

theorem bytesLt_total (a b : Bytes) (h1 : bytesLt a b = false) (h2 : a ≠ b) : bytesLt b a = true := by
  induction a generalizing b with
  | nil =>
    cases b with
    | nil => exact absurd rfl h2
    | cons y ys => simp [bytesLt] at h1
  | cons x xs ih =>
    cases b with
    | nil => simp [bytesLt]
    | cons y ys =>
      unfold bytesLt at h1 ⊢
      by_cases hxy : x.toNat < y.toNat
      · simp [hxy] at h1
      · by_cases hyx : y.toNat < x.toNat
        · simp [hyx]
        · simp only [hxy, hyx, if_false] at h1 ⊢
          have hx : x = y := by
            apply UInt8.toNat_inj.mp
            omega
          subst hx
          exact ih ys h1 (fun e => h2 (by rw [e]))

theorem keysSorted_cons (k : Bytes) (v : Cfg) (rest : List (Bytes × Cfg)) :
    keysSorted ((k, v) :: rest) = ((match rest with | [] => true | (j, _) :: _ => bytesLt k j) && keysSorted rest) := by
  cases rest with
  | nil => simp [keysSorted]
  | cons kv r => obtain ⟨j, y⟩ := kv; simp [keysSorted]

theorem mapSet_head (kvs : List (Bytes × Cfg)) (key : Bytes) (v : Cfg) :
    ∃ j y r, mapSet kvs key v = (j, y) :: r ∧ (j = key ∨ ∃ y' r', kvs = (j, y') :: r') := by
  cases kvs with
  | nil => exact ⟨key, v, [], rfl, Or.inl rfl⟩
  | cons kv rest =>
    obtain ⟨k, x⟩ := kv
    unfold mapSet
    by_cases h1 : k = key
    · exact ⟨key, v, rest, by simp [h1], Or.inl rfl⟩
    · by_cases h2 : bytesLt key k = true
      · exact ⟨key, v, (k, x) :: rest, by simp [h1, h2], Or.inl rfl⟩
      · exact ⟨k, x, mapSet rest key v, by simp [h1, h2], Or.inr ⟨x, rest, rfl⟩⟩

theorem keysSorted_mapSet (kvs : List (Bytes × Cfg)) (key : Bytes) (v : Cfg) (h : keysSorted kvs = true) :
    keysSorted (mapSet kvs key v) = true := by
  induction kvs with
  | nil => simp [mapSet, keysSorted]
  | cons kv rest ih =>
    obtain ⟨k, x⟩ := kv
    rw [keysSorted_cons, Bool.and_eq_true] at h
    unfold mapSet
    by_cases h1 : k = key
    · subst h1
      simp only [if_true]
      rw [keysSorted_cons, Bool.and_eq_true]
      exact h
    · rw [if_neg h1]
      by_cases h2 : bytesLt key k = true
      · rw [if_pos h2]
        rw [keysSorted_cons, Bool.and_eq_true]
        refine ⟨h2, ?_⟩
        rw [keysSorted_cons, Bool.and_eq_true]
        exact h
      · rw [if_neg h2]
        rw [keysSorted_cons, Bool.and_eq_true]
        refine ⟨?_, ih h.2⟩
        obtain ⟨j, y, r, hm, hj⟩ := mapSet_head rest key v
        rw [hm]
        rcases hj with hj | ⟨y', r', hr⟩
        · subst hj
          exact bytesLt_total _ _ (by simpa using h2) (fun e => h1 e.symm)
        · rw [hr] at h
          exact h.1

theorem wfM_mapSet (kvs : List (Bytes × Cfg)) (key : Bytes) (v : Cfg) (h : Cfg.wfM kvs = true) (hv : v.wf = true) :
    Cfg.wfM (mapSet kvs key v) = true := by
  induction kvs with
  | nil => simp [mapSet, Cfg.wfM, hv]
  | cons kv rest ih =>
    obtain ⟨k, x⟩ := kv
    rw [Cfg.wfM, Bool.and_eq_true] at h
    unfold mapSet
    by_cases h1 : k = key
    · simp [h1, Cfg.wfM, hv, h.2]
    · by_cases h2 : bytesLt key k = true
      · simp [h1, h2, Cfg.wfM, hv, h.1, h.2]
      · simp [h1, h2, Cfg.wfM, h.1, ih h.2]

theorem wfL_iff (xs : List Cfg) : Cfg.wfL xs = true ↔ ∀ x ∈ xs, x.wf = true := by
  induction xs with
  | nil => simp [Cfg.wfL]
  | cons x xs ih => simp [Cfg.wfL, ih]

theorem wf_mapGet (kvs : List (Bytes × Cfg)) (k : Bytes) (h : Cfg.wfM kvs = true) : (mapGet kvs k).wf = true := by
  induction kvs with
  | nil => simp [mapGet, Cfg.wf]
  | cons kv rest ih =>
    obtain ⟨k', x⟩ := kv
    rw [Cfg.wfM, Bool.and_eq_true] at h
    unfold mapGet
    by_cases h1 : k' = k
    · simp [h1, h.1]
    · simp [h1, ih h.2]

theorem wf_listGet (xs : List Cfg) (i : Nat) (h : Cfg.wfL xs = true) : (listGet xs i).wf = true := by
  rw [wfL_iff] at h
  unfold listGet
  by_cases hi : i < xs.length
  · simp only [List.getD, List.getElem?_eq_getElem hi, Option.getD_some]
    exact h _ (List.getElem_mem hi)
  · simp [List.getD, List.getElem?_eq_none (Nat.le_of_not_lt hi), Cfg.wf]

theorem wfL_padTo (xs : List Cfg) (n : Nat) (h : Cfg.wfL xs = true) : Cfg.wfL (padTo xs n) = true := by
  rw [wfL_iff] at h ⊢
  intro x hx
  unfold padTo at hx
  rcases List.mem_append.mp hx with hx | hx
  · exact h x hx
  · rw [(List.mem_replicate.mp hx).2]; rfl

theorem wfL_listSetAt (xs : List Cfg) (i : Nat) (v : Cfg) (h : Cfg.wfL xs = true) (hv : v.wf = true) :
    Cfg.wfL (listSetAt xs i v) = true := by
  have hp := wfL_padTo xs (i + 1) h
  rw [wfL_iff] at hp ⊢
  intro x hx
  unfold listSetAt at hx
  rcases List.mem_or_eq_of_mem_set hx with hx | hx
  · exact hp x hx
  · rw [hx]; exact hv

theorem wfL_listInsert (xs : List Cfg) (i : Nat) (v : Cfg) (h : Cfg.wfL xs = true) (hv : v.wf = true) :
    Cfg.wfL (listInsert xs i v) = true := by
  have hp := wfL_padTo xs i h
  rw [wfL_iff] at hp ⊢
  intro x hx
  unfold listInsert at hx
  rcases List.mem_append.mp hx with hx | hx
  · exact hp x (List.mem_of_mem_take hx)
  · rcases List.mem_cons.mp hx with hx | hx
    · rw [hx]; exact hv
    · exact hp x (List.mem_of_mem_drop hx)

theorem wf_asList (cur : Cfg) (h : cur.wf = true) : Cfg.wfL (asList cur) = true := by
  cases cur <;> simp_all [asList, Cfg.wf, Cfg.wfL]

theorem wf_asMap (cur : Cfg) (h : cur.wf = true) : keysSorted (asMap cur) = true ∧ Cfg.wfM (asMap cur) = true := by
  cases cur <;> simp_all [asMap, Cfg.wf, Cfg.wfM, keysSorted]

theorem wf_childRead (cur : Cfg) (key : Bytes) (h : cur.wf = true) : (childRead cur key).wf = true := by
  unfold childRead
  by_cases hl : isListRef key = true
  · simp only [hl, if_true]
    cases cur with
    | list xs => exact wf_listGet _ _ (by simpa [Cfg.wf] using h)
    | _ => rfl
  · simp only [hl]
    cases cur with
    | map kvs =>
      have : Cfg.wfM kvs = true := by
        simp only [Cfg.wf, Bool.and_eq_true] at h
        exact h.2
      exact wf_mapGet _ _ this
    | _ => rfl

theorem wf_writeAt (cur : Cfg) (keys : List Bytes) (item : Cfg) (h : cur.wf = true) (hi : item.wf = true) :
    (writeAt cur keys item).wf = true := by
  induction keys generalizing cur with
  | nil => simpa [writeAt] using hi
  | cons key rest ih =>
    have hc := ih (childRead cur key) (wf_childRead cur key h)
    rw [writeAt_cons]
    by_cases hl : isListRef key = true
    · rw [if_pos hl]
      simp only [Cfg.wf]
      apply wfL_listSetAt _ _ _ _ hc
      by_cases hw : (resolveIdx (asList cur).length key).willInsert = true
      · rw [if_pos hw]; exact wfL_listInsert _ _ _ (wf_asList cur h) rfl
      · rw [if_neg hw]; exact wf_asList cur h
    · rw [if_neg hl]
      have := wf_asMap cur h
      simp only [Cfg.wf, Bool.and_eq_true]
      exact ⟨keysSorted_mapSet _ _ _ this.1, wfM_mapSet _ _ _ this.2 hc⟩

end RimeModel.C18
