import RimeModel.C18.Value
/-!
C18 — the remaining read / write routes of the config tree (round 2, coverage review):

* `Config::IsNull/IsValue/IsList/IsMap(path)` (config_component.cc:46-64) — each is `!p || p->type() == …`, so a
  path that leads nowhere answers `true` to all four;
* `ConfigItemRef` navigation (config_types.h `operator[]`, config_types.cc:206-300): `ref[key]` is
  `ConfigMapEntryRef(AsMap(), key)` and `ref[i]` is `ConfigListEntryRef(AsList(), i)` — `AsMap` / `AsList` REPLACE a
  node of another type (or nothing) by a new empty container, also when the reference is only read afterwards
  (auto-vivification of the parents; the entry itself is not touched); reads are strict (`ToInt` of a non-scalar is
  0 …); writes are in place (`SetAt` pads with nulls);
* the C API iterators `RimeConfigBeginList/BeginMap/Next/End` (rime_api_impl.h:670-773): keys `@0, @1, …` resp. the
  map keys in `std::map` order, paths `prefix + key` with `prefix = path + "/"` unless the path is empty or `/`;
* `Signature::Sign` through `RimeConfigUpdateSignature` (signature.cc): five `SetString`s below `<key>/`, failures
  ignored, always `true`.
-/
namespace RimeModel.C18

/-- `Config::IsNull, IsValue, IsList, IsMap` at a path -/
def isFlags (root : Cfg) (path : Bytes) : Bool × Bool × Bool × Bool :=
  match traverse root path with
  | .null => (true, true, true, true)
  | .scalar _ => (false, true, false, false)
  | .list _ => (false, false, true, false)
  | .map _ => (false, false, false, true)

/-- `ConfigItemRef::IsNull, IsValue, IsList, IsMap` (strict: `item && item->type() == …`) -/
def refFlags (t : Cfg) : Bool × Bool × Bool × Bool :=
  match t with
  | .null => (true, false, false, false)
  | .scalar _ => (false, true, false, false)
  | .list _ => (false, false, true, false)
  | .map _ => (false, false, false, true)

inductive RStep where
  | key (k : Bytes)
  | idx (i : Nat)
  deriving Repr, Inhabited

/-- `AsMap()`: the entries, a node of another type counts as (and is replaced by) an empty map -/
def vivMap : Cfg → List (Bytes × Cfg)
  | .map kvs => kvs
  | _ => []

def vivList : Cfg → List Cfg
  | .list xs => xs
  | _ => []

/-- the node after `ref[s₁][s₂]…[sₙ]` has been *formed* on it: every node an `operator[]` was applied to is a
container of the kind the step asks for; the last entry is untouched -/
def refViv (t : Cfg) : List RStep → Cfg
  | [] => t
  | .key k :: rest =>
    let kvs := vivMap t
    match rest with
    | [] => .map kvs
    | _ => .map (mapSet kvs k (refViv (mapGet kvs k) rest))
  | .idx i :: rest =>
    let xs := vivList t
    match rest with
    | [] => .list xs
    | _ => .list (listSetAt xs i (refViv (listGet xs i) rest))

/-- `**ref` : strict read along the steps -/
def refGet (t : Cfg) : List RStep → Cfg
  | [] => t
  | .key k :: rest =>
    match t with
    | .map kvs => refGet (mapGet kvs k) rest
    | _ => .null
  | .idx i :: rest =>
    match t with
    | .list xs => refGet (listGet xs i) rest
    | _ => .null

/-- `ref = v` on the vivified tree: `map_->Set(key, v)` / `list_->SetAt(i, v)`; the root reference assigns the root -/
def refSet (t : Cfg) : List RStep → Cfg → Cfg
  | [], v => v
  | .key k :: rest, v => let kvs := vivMap t; .map (mapSet kvs k (refSet (mapGet kvs k) rest v))
  | .idx i :: rest, v => let xs := vivList t; .list (listSetAt xs i (refSet (listGet xs i) rest v))

/-- `ref.Append(item)` = `AsList()->Append(item)` -/
def refAppend (t : Cfg) (steps : List RStep) (v : Cfg) : Cfg :=
  let t1 := refViv t steps
  refSet t1 steps (.list (vivList (refGet t1 steps) ++ [v]))

/-- `ref.AsList()` / `ref.AsMap()` on their own -/
def refAsList (t : Cfg) (steps : List RStep) : Cfg :=
  let t1 := refViv t steps
  match refGet t1 steps with
  | .list _ => t1
  | _ => refSet t1 steps (.list [])

def refAsMap (t : Cfg) (steps : List RStep) : Cfg :=
  let t1 := refViv t steps
  match refGet t1 steps with
  | .map _ => t1
  | _ => refSet t1 steps (.map [])

def refToString (t : Cfg) : Bytes := (asValue t).getD []
def refToInt (t : Cfg) : Int := ((asValue t).bind valGetInt).getD 0
def refToBool (t : Cfg) : Bool := ((asValue t).bind valGetBool).getD false
def refSize (t : Cfg) : Nat := (vivList t).length
/-- `ConfigMap::HasKey` is `bool(Get(key))`: a key whose value is null is not "had" -/
def refHasKey (t : Cfg) (k : Bytes) : Bool := !(mapGet (vivMap t) k).isNull

/-! ### iterators -/

def iterPrefix (path : Bytes) : Bytes := if isRootPath path then [] else path ++ [c_slash]

def iterListFrom (pre : Bytes) : List Cfg → Nat → List (Bytes × Bytes)
  | [], _ => []
  | _ :: xs, i => (formatListIndex i, pre ++ formatListIndex i) :: iterListFrom pre xs (i + 1)

/-- `RimeConfigBeginList` + `RimeConfigNext`* : `none` = Begin returned False -/
def iterList (root : Cfg) (path : Bytes) : Option (List (Bytes × Bytes)) :=
  match traverse root path with
  | .list xs => some (iterListFrom (iterPrefix path) xs 0)
  | _ => none

def iterMap (root : Cfg) (path : Bytes) : Option (List (Bytes × Bytes)) :=
  match traverse root path with
  | .map kvs => some (kvs.map fun kv => (kv.1, iterPrefix path ++ kv.1))
  | _ => none

/-! ### signature -/

/-- `Signature::Sign`: `SetString(key + "/" + field, value)` for each field, failures ignored -/
def signWith (root : Cfg) (key : Bytes) : List (Bytes × Bytes) → Cfg
  | [] => root
  | (f, v) :: rest => signWith ((setString root (key ++ [c_slash] ++ f) v).getD root) key rest

end RimeModel.C18
