import RimeModel.C18.Utf8Thms
/-! scalar round trips of C18 (plain, double-quoted, literal block) proved here, restated in Props/C18.lean -/
namespace RimeModel.C18

set_option linter.unusedSimpArgs false

/-! ### `splitOn` -/

theorem splitOn_cons_exists (sep : UInt8) (xs : Bytes) : ∃ cur rest, splitOn sep xs = cur :: rest := by
  induction xs with
  | nil => exact ⟨[], [], rfl⟩
  | cons b bs ih =>
    obtain ⟨cur, rest, h⟩ := ih
    rw [splitOn, h]
    by_cases hb : b = sep
    · exact ⟨[], cur :: rest, by simp [hb]⟩
    · exact ⟨b :: cur, rest, by simp [hb]⟩

theorem splitOn_cons_sep (sep : UInt8) (xs : Bytes) : splitOn sep (sep :: xs) = [] :: splitOn sep xs := by
  obtain ⟨cur, rest, h⟩ := splitOn_cons_exists sep xs
  rw [splitOn, h]; simp

theorem splitOn_cons_other (sep b : UInt8) (xs cur : Bytes) (rest : List Bytes) (hb : b ≠ sep)
    (h : splitOn sep xs = cur :: rest) : splitOn sep (b :: xs) = (b :: cur) :: rest := by
  rw [splitOn, h]; simp [hb]

/-- a prefix without separators joins the first piece -/
theorem splitOn_prefix (sep : UInt8) (bs xs cur : Bytes) (rest : List Bytes) (hbs : ∀ b ∈ bs, b ≠ sep)
    (h : splitOn sep xs = cur :: rest) : splitOn sep (bs ++ xs) = (bs ++ cur) :: rest := by
  induction bs with
  | nil => simpa using h
  | cons b bs ih =>
    rw [List.cons_append, splitOn_cons_other sep b _ (bs ++ cur) rest (hbs b (List.mem_cons_self ..))
      (ih (fun x hx => hbs x (List.mem_cons_of_mem _ hx)))]
    rfl

theorem splitOn_append_sep (sep : UInt8) (xs : Bytes) : splitOn sep (xs ++ [sep]) = splitOn sep xs ++ [[]] := by
  induction xs with
  | nil => rw [List.nil_append, splitOn_cons_sep]; rfl
  | cons b bs ih =>
    obtain ⟨cur, rest, h⟩ := splitOn_cons_exists sep bs
    by_cases hb : b = sep
    · subst hb
      rw [List.cons_append, splitOn_cons_sep, splitOn_cons_sep, ih]; rfl
    · rw [List.cons_append]
      rw [h] at ih
      rw [splitOn_cons_other sep b _ cur (rest ++ [[]]) hb (by rw [ih]; rfl), splitOn_cons_other sep b _ cur rest hb h]
      rfl

def joinLF : List Bytes → Bytes
  | [] => []
  | p :: ps => p ++ c_lf :: joinLF ps

theorem joinLF_splitOn (x : Bytes) : joinLF (splitOn c_lf x) = x ++ [c_lf] := by
  induction x with
  | nil => rfl
  | cons b bs ih =>
    obtain ⟨cur, rest, h⟩ := splitOn_cons_exists c_lf bs
    by_cases hb : b = c_lf
    · subst hb
      rw [splitOn_cons_sep, joinLF, ih]; rfl
    · rw [splitOn_cons_other c_lf b bs cur rest hb h]
      rw [h] at ih
      rw [joinLF]
      rw [joinLF] at ih
      rw [List.cons_append, List.cons_append, ih]

theorem mem_splitOn (sep : UInt8) (xs : Bytes) : ∀ p ∈ splitOn sep xs, ∀ b ∈ p, b ∈ xs := by
  induction xs with
  | nil => intro p hp b hb; simp [splitOn] at hp; subst hp; simp at hb
  | cons c cs ih =>
    obtain ⟨cur, rest, h⟩ := splitOn_cons_exists sep cs
    intro p hp b hb
    by_cases hc : c = sep
    · subst hc
      rw [splitOn_cons_sep] at hp
      rcases List.mem_cons.mp hp with hp | hp
      · subst hp; simp at hb
      · exact List.mem_cons_of_mem _ (ih p hp b hb)
    · rw [splitOn_cons_other sep c cs cur rest hc h] at hp
      rw [h] at ih
      rcases List.mem_cons.mp hp with hp | hp
      · subst hp
        rcases List.mem_cons.mp hb with hb | hb
        · rw [hb]; exact List.mem_cons_self ..
        · exact List.mem_cons_of_mem _ (ih cur (List.mem_cons_self ..) b hb)
      · exact List.mem_cons_of_mem _ (ih p (List.mem_cons_of_mem _ hp) b hb)

/-! ### pieces of text are text -/

def splitCps : List Nat → List (List Nat)
  | [] => [[]]
  | c :: cs =>
    match splitCps cs with
    | [] => [[]]
    | cur :: rest => if c = 10 then [] :: cur :: rest else (c :: cur) :: rest

theorem splitCps_cons_exists (cs : List Nat) : ∃ cur rest, splitCps cs = cur :: rest := by
  induction cs with
  | nil => exact ⟨[], [], rfl⟩
  | cons c cs ih =>
    obtain ⟨cur, rest, h⟩ := ih
    rw [splitCps, h]
    by_cases hc : c = 10
    · exact ⟨[], cur :: rest, by simp [hc]⟩
    · exact ⟨c :: cur, rest, by simp [hc]⟩

theorem encodeCp_no_lf (cp : Nat) (h : cp ≠ 10) : ∀ b ∈ encodeCp cp, b ≠ c_lf := by
  intro b hb e
  subst e
  by_cases hi : 0x80 ≤ cp
  · have := encodeCp_bytes_high cp hi _ hb
    simp [c_lf] at this
  · rw [encodeCp_ascii cp (by omega)] at hb
    simp only [List.mem_cons, List.not_mem_nil, or_false] at hb
    have := congrArg UInt8.toNat hb
    rw [ofNat_toNat _ (by omega)] at this
    simp [c_lf] at this
    omega

theorem splitOn_encodeAll (cps : List Nat) : splitOn c_lf (encodeAll cps) = (splitCps cps).map encodeAll := by
  induction cps with
  | nil => rfl
  | cons c cs ih =>
    obtain ⟨cur, rest, h⟩ := splitCps_cons_exists cs
    rw [h] at ih
    rw [encodeAll, splitCps, h]
    by_cases hc : c = 10
    · subst hc
      have : encodeCp 10 = [c_lf] := by decide
      rw [this, List.singleton_append, splitOn_cons_sep, ih]
      simp [encodeAll]
    · simp only [hc, if_false]
      rw [splitOn_prefix c_lf (encodeCp c) _ (encodeAll cur) (rest.map encodeAll) (encodeCp_no_lf c hc) (by simpa using ih)]
      simp [encodeAll]

theorem mem_splitCps (cs : List Nat) : ∀ p ∈ splitCps cs, ∀ c ∈ p, c ∈ cs := by
  induction cs with
  | nil => intro p hp c hc; simp [splitCps] at hp; subst hp; simp at hc
  | cons d ds ih =>
    obtain ⟨cur, rest, h⟩ := splitCps_cons_exists ds
    rw [h] at ih
    intro p hp c hc
    rw [splitCps, h] at hp
    by_cases hd : d = 10
    · simp only [hd, if_true] at hp
      rcases List.mem_cons.mp hp with hp | hp
      · subst hp; simp at hc
      · exact List.mem_cons_of_mem _ (ih p hp c hc)
    · simp only [hd, if_false] at hp
      rcases List.mem_cons.mp hp with hp | hp
      · subst hp
        rcases List.mem_cons.mp hc with hc | hc
        · rw [hc]; exact List.mem_cons_self ..
        · exact List.mem_cons_of_mem _ (ih cur (List.mem_cons_self ..) c hc)
      · exact List.mem_cons_of_mem _ (ih p (List.mem_cons_of_mem _ hp) c hc)

/-- the lines of a literal block are the lines of the text, for text -/
theorem literalPieces_text (s : Bytes) (h : IsText s) : literalPieces s = splitOn c_lf s := by
  obtain ⟨cps, hg, rfl⟩ := h
  unfold literalPieces
  rw [splitOn_encodeAll, List.map_map]
  apply List.map_congr_left
  intro p hp
  exact sanitize_text _ ⟨p, fun c hc => hg c (mem_splitCps cps p hp c hc), rfl⟩

/-! ### reading a literal block -/

theorem leadingSpaces_two (b : UInt8) (p : Bytes) (hb : b ≠ 32) : leadingSpaces (32 :: 32 :: b :: p) = 2 := by
  simp [leadingSpaces, hb]

theorem leadingSpaces_ge_two (p : Bytes) : 2 ≤ leadingSpaces (32 :: 32 :: p) := by
  simp [leadingSpaces]

theorem stripCR_noCR (l : Bytes) (h : (13 : UInt8) ∉ l) : stripCR l = l := by
  unfold stripCR
  split
  · rename_i r heq
    exfalso
    apply h
    have : (13 : UInt8) ∈ l.reverse := by rw [heq]; exact List.mem_cons_self ..
    exact List.mem_reverse.mp this
  · rfl

theorem indentLine_nil : indentLine 2 [] = [] := rfl

theorem indentLine_cons (b : UInt8) (p : Bytes) : indentLine 2 (b :: p) = 32 :: 32 :: b :: p := by
  simp [indentLine, spaces, List.replicate]

def NoCR (ps : List Bytes) : Prop := ∀ p ∈ ps, (13 : UInt8) ∉ p

def tailNL (atEnd : Bool) : Bytes := if atEnd then [] else [c_lf]

theorem litRest_ok (atEnd : Bool) (qs : List Bytes) (h : NoCR qs) :
    litRest 2 atEnd (indentLines 2 (qs ++ [[]])) = some (joinLF qs ++ tailNL atEnd) := by
  induction qs with
  | nil =>
    simp only [List.nil_append, indentLines, List.map, indentLine_nil, litRest]
    cases atEnd <;> simp [tailNL, joinLF, stripCR, leadingSpaces]
  | cons p qs ih =>
    have ih' := ih (fun x hx => h x (List.mem_cons_of_mem _ hx))
    have hp := h p (List.mem_cons_self ..)
    simp only [List.cons_append, indentLines, List.map] at ih' ⊢
    rw [litRest]
    have hne : (List.map (indentLine 2) (qs ++ [[]])).isEmpty = false := by
      cases qs <;> simp
    simp only [hne, Bool.false_and, Bool.false_eq_true, if_false]
    cases p with
    | nil =>
      simp only [indentLine_nil]
      have : stripCR [] = [] := rfl
      simp only [this, leadingSpaces, List.drop, Nat.zero_min, List.isEmpty_nil, if_true]
      rw [ih']
      simp [joinLF]
    | cons b p' =>
      rw [indentLine_cons]
      have hcr : (13 : UInt8) ∉ (32 :: 32 :: b :: p') := by
        intro hm
        rcases List.mem_cons.mp hm with e | hm
        · simp at e
        · rcases List.mem_cons.mp hm with e | hm
          · simp at e
          · exact hp hm
      rw [stripCR_noCR _ hcr]
      have hge := leadingSpaces_ge_two (b :: p')
      have hmin : min (leadingSpaces (32 :: 32 :: b :: p')) 2 = 2 := by omega
      rw [hmin]
      simp only [List.drop, List.isEmpty_cons, Bool.false_eq_true, if_false, Nat.lt_irrefl]
      rw [ih']
      simp [joinLF, c_lf]

/-- the first non-empty line does not start with a space -/
def FirstOK : List Bytes → Prop
  | [] => False
  | [] :: ps => FirstOK ps
  | (b :: _) :: _ => b ≠ 32

theorem litDetect_ok (atEnd : Bool) (qs : List Bytes) (ind : Nat) (hind : ind ≤ 2) (h : NoCR qs) (hf : FirstOK qs) :
    litDetect ind atEnd (indentLines 2 (qs ++ [[]])) = some (joinLF qs ++ tailNL atEnd) := by
  induction qs with
  | nil => exact absurd hf (by simp [FirstOK])
  | cons p qs ih =>
    have hp := h p (List.mem_cons_self ..)
    have hq : NoCR qs := fun x hx => h x (List.mem_cons_of_mem _ hx)
    simp only [List.cons_append, indentLines, List.map]
    rw [litDetect]
    have hne : (List.map (indentLine 2) (qs ++ [[]])).isEmpty = false := by
      cases qs <;> simp
    simp only [hne, Bool.false_and, Bool.false_eq_true, if_false]
    cases p with
    | nil =>
      simp only [indentLine_nil]
      have hs0 : stripCR [] = [] := rfl
      simp only [hs0, leadingSpaces, List.drop, List.isEmpty_nil, if_true, Nat.max_zero]
      have := ih hq (by simpa [FirstOK] using hf)
      simp only [indentLines] at this
      rw [this]
      simp [joinLF]
    | cons b p' =>
      have hb : b ≠ 32 := by simpa [FirstOK] using hf
      rw [indentLine_cons]
      have hcr : (13 : UInt8) ∉ (32 :: 32 :: b :: p') := by
        intro hm
        rcases List.mem_cons.mp hm with e | hm
        · simp at e
        · rcases List.mem_cons.mp hm with e | hm
          · simp at e
          · exact hp hm
      rw [stripCR_noCR _ hcr, leadingSpaces_two b p' hb]
      have hmax : max ind 2 = 2 := by omega
      rw [hmax]
      simp only [List.drop, List.isEmpty_cons, Bool.false_eq_true, if_false, Nat.lt_irrefl]
      have := litRest_ok atEnd qs hq
      simp only [indentLines] at this
      rw [this]
      simp [joinLF, c_lf]

theorem firstOK_splitOn (s : Bytes) (c : UInt8) (t : Bytes) (h : dropLF s = c :: t) (hc : c ≠ 32) :
    FirstOK (splitOn c_lf s) := by
  induction s with
  | nil => simp [dropLF] at h
  | cons b bs ih =>
    obtain ⟨cur, rest, hs⟩ := splitOn_cons_exists c_lf bs
    by_cases hb : b = c_lf
    · subst hb
      rw [splitOn_cons_sep]
      simp only [FirstOK]
      apply ih
      simpa [dropLF] using h
    · rw [splitOn_cons_other c_lf b bs cur rest hb hs]
      simp only [FirstOK]
      simp only [dropLF, hb, if_false, List.cons.injEq] at h
      rw [h.1]; exact hc

/-- what `literalSafe` says, unpacked -/
theorem literalSafe_unpack (s : Bytes) (h : literalSafe s = true) :
    (∃ body b, s = (body ++ [b]) ++ [c_lf] ∧ b ≠ c_lf) ∧
    (∀ x ∈ s, x.toNat ≥ 32 ∨ x = c_lf ∨ x = 9) ∧
    (∃ c t, dropLF s = c :: t ∧ c ≠ 32) := by
  unfold literalSafe at h
  simp only [Bool.and_eq_true] at h
  obtain ⟨⟨h1, h2⟩, h3⟩ := h
  refine ⟨?_, ?_, ?_⟩
  · cases hr : s.reverse with
    | nil => rw [hr] at h1; simp at h1
    | cons a r1 =>
      cases r1 with
      | nil => rw [hr] at h1; simp at h1
      | cons b r2 =>
        rw [hr] at h1
        simp only [Bool.and_eq_true, decide_eq_true_eq, bne_iff_ne, ne_eq] at h1
        refine ⟨r2.reverse, b, ?_, by simpa using h1.2⟩
        have : s = (a :: b :: r2).reverse := by rw [← hr, List.reverse_reverse]
        rw [this, h1.1]
        simp
  · intro x hx
    have := List.all_eq_true.mp h2 x hx
    simp only [Bool.or_eq_true, decide_eq_true_eq] at this
    rcases this with (h | h) | h
    · exact Or.inl h
    · exact Or.inr (Or.inl h)
    · exact Or.inr (Or.inr h)
  · cases hd : dropLF s with
    | nil => rw [hd] at h3; simp at h3
    | cons c t =>
      rw [hd] at h3
      exact ⟨c, t, rfl, by simpa using h3⟩

theorem dropLF_of_ne (b : UInt8) (bs : Bytes) (h : b ≠ c_lf) : dropLF (b :: bs) = b :: bs := by
  simp [dropLF, h]

theorem clip_body (body : Bytes) (b : UInt8) (hb : b ≠ c_lf) (atEnd : Bool) :
    clip (((body ++ [b]) ++ [c_lf]) ++ tailNL atEnd) = (body ++ [b]) ++ [c_lf] := by
  unfold clip dropTrailingLF
  have hrev : dropLF ((((body ++ [b]) ++ [c_lf]) ++ tailNL atEnd).reverse) = b :: body.reverse := by
    cases atEnd
    · simp only [tailNL, Bool.false_eq_true, if_false, List.reverse_append, List.reverse_cons, List.reverse_nil,
        List.nil_append, List.singleton_append, List.cons_append]
      rw [dropLF]; simp only [if_true]
      rw [dropLF]; simp only [if_true]
      exact dropLF_of_ne b _ hb
    · simp only [tailNL, if_true, List.append_nil, List.reverse_append, List.reverse_cons, List.reverse_nil,
        List.nil_append, List.singleton_append, List.cons_append]
      rw [dropLF]; simp only [if_true]
      exact dropLF_of_ne b _ hb
  rw [hrev]
  have : (b :: body.reverse).reverse = body ++ [b] := by simp
  rw [this]
  have hne : (body ++ [b]).isEmpty = false := by cases body <;> simp
  simp only [hne, Bool.false_eq_true, if_false]
  have : (body ++ [b]).length < (((body ++ [b]) ++ [c_lf]) ++ tailNL atEnd).length := by
    simp only [List.length_append, List.length_cons, List.length_nil]; omega
  simp [this]

/-- **literal block round trip**: a text that `literalSafe` accepts is read back from its literal block,
whether or not the block is the last thing in the input -/
theorem readLiteral_literalPieces (s : Bytes) (atEnd : Bool) (ht : IsText s) (hs : literalSafe s = true) :
    readLiteral (indentLines 2 (literalPieces s)) atEnd = some s := by
  obtain ⟨⟨body, b, hsb, hb⟩, hctl, ⟨c, t, hd, hc⟩⟩ := literalSafe_unpack s hs
  rw [literalPieces_text s ht]
  have hnocr : ∀ p ∈ splitOn c_lf s, (13 : UInt8) ∉ p := by
    intro p hp hm
    have := hctl 13 (mem_splitOn c_lf s p hp 13 hm)
    simp [c_lf] at this
  have hno04 : ∀ p ∈ splitOn c_lf s, ∀ x ∈ p, ¬ (x = 0 ∨ x = 4) := by
    intro p hp x hx hx04
    have := hctl x (mem_splitOn c_lf s p hp x hx)
    rcases hx04 with e | e <;> (subst e; simp [c_lf] at this)
  have hsplit : splitOn c_lf s = splitOn c_lf (body ++ [b]) ++ [[]] := by
    rw [hsb, splitOn_append_sep]
  unfold readLiteral
  have hany : (indentLines 2 (splitOn c_lf s)).any (fun l => l.any fun b => b = 0 || b = 4) = false := by
    rw [Bool.eq_false_iff]
    intro hh
    obtain ⟨l, hl, hl2⟩ := List.any_eq_true.mp hh
    obtain ⟨x, hx, hx2⟩ := List.any_eq_true.mp hl2
    obtain ⟨p, hp, rfl⟩ := List.mem_map.mp hl
    have hxp : x ∈ p := by
      unfold indentLine at hx
      by_cases hpe : p = []
      · simp [hpe] at hx
      · simp only [hpe, if_false, spaces, List.mem_append, List.mem_replicate] at hx
        rcases hx with ⟨_, e⟩ | hx
        · subst e; simp at hx2
        · exact hx
    apply hno04 p hp x hxp
    simpa [Bool.or_eq_true] using hx2
  rw [hany]
  simp only [Bool.false_eq_true, if_false]
  have hq : NoCR (splitOn c_lf (body ++ [b])) := by
    intro p hp
    apply hnocr p
    rw [hsplit]; exact List.mem_append_left _ hp
  have hfirst : FirstOK (splitOn c_lf (body ++ [b])) := by
    have hf := firstOK_splitOn s c t hd hc
    rw [hsplit] at hf
    -- FirstOK of `qs ++ [[]]` gives FirstOK of `qs`
    have aux : ∀ qs : List Bytes, FirstOK (qs ++ [[]]) → FirstOK qs := by
      intro qs
      induction qs with
      | nil => intro h; simp [FirstOK] at h
      | cons p qs ih =>
        intro h
        cases p with
        | nil => simp only [List.cons_append, FirstOK] at h ⊢; exact ih h
        | cons x p' => simpa [FirstOK] using h
    exact aux _ hf
  rw [hsplit, litDetect_ok atEnd _ 1 (by omega) hq hfirst, joinLF_splitOn]
  simp only [Option.map_some]
  rw [hsb]
  congr 1
  exact clip_body body b hb atEnd

/-! ### plain scalars -/

theorem takePlain_append (s rest : Bytes) (hs : s.all isPlainSafe = true)
    (hr : ∀ b r, rest = b :: r → isPlainSafe b = false) : takePlain (s ++ rest) = (s, rest) := by
  induction s with
  | nil =>
    cases rest with
    | nil => rfl
    | cons b r => simp [takePlain, hr b r rfl]
  | cons c cs ih =>
    simp only [List.all_cons, Bool.and_eq_true] at hs
    rw [List.cons_append, takePlain]
    simp [hs.1, ih hs.2]

theorem parseInline_plain (s rest : Bytes) (hne : s ≠ []) (hs : s.all isPlainSafe = true)
    (hr : ∀ b r, rest = b :: r → isPlainSafe b = false) : parseInline (s ++ rest) = some (s, true, rest) := by
  obtain ⟨c, cs, rfl⟩ := List.exists_cons_of_ne_nil hne
  have hc : isPlainSafe c = true := by
    simp only [List.all_cons, Bool.and_eq_true] at hs; exact hs.1
  have hc34 : c ≠ 34 := by
    intro e; subst e; simp [isPlainSafe, isAlnum, isDigit, isUpper, isLower] at hc
  unfold parseInline
  rw [List.cons_append]
  split
  · rename_i r heq
    simp only [List.cons.injEq] at heq
    exact absurd heq.1 hc34
  · rw [← List.cons_append, takePlain_append _ _ hs hr]
    simp

end RimeModel.C18
