import RimeModel.C18.Domain
import RimeModel.C18.ScalarThms
import RimeModel.C18.PathThms
/-! helper lemmas for the tree round trip of C18 (free to change) -/
namespace RimeModel.C18

/-! ### bytes that can start an inline scalar -/

theorem plainSafe_range (b : UInt8) (h : isPlainSafe b = true) :
    (48 ≤ b.toNat ∧ b.toNat ≤ 57) ∨ (65 ≤ b.toNat ∧ b.toNat ≤ 90) ∨ (97 ≤ b.toNat ∧ b.toNat ≤ 122) ∨
    b.toNat = 95 ∨ b.toNat = 46 := by
  simp only [isPlainSafe, isAlnum, isDigit, isUpper, isLower, Bool.or_eq_true, Bool.and_eq_true,
    decide_eq_true_eq] at h
  rcases h with (((h | h) | h) | h) | h
  · exact Or.inl h
  · exact Or.inr (Or.inl h)
  · exact Or.inr (Or.inr (Or.inl h))
  · right; right; right; left; rw [h]; rfl
  · right; right; right; right; rw [h]; rfl

/-- a byte an inline scalar can start with: a plain-safe byte or the double quote -/
def InlineStart (b : UInt8) : Prop := isPlainSafe b = true ∨ b = 34

theorem inlineStart_ne (b : UInt8) (h : InlineStart b) (v : UInt8)
    (hv : isPlainSafe v = false ∧ v ≠ 34) : b ≠ v := by
  intro e
  subst e
  rcases h with h | h
  · rw [h] at hv; exact absurd hv.1 (by simp)
  · exact hv.2 h

theorem not_plainSafe_of (v : UInt8) (h : ¬ ((48 ≤ v.toNat ∧ v.toNat ≤ 57) ∨ (65 ≤ v.toNat ∧ v.toNat ≤ 90) ∨
    (97 ≤ v.toNat ∧ v.toNat ≤ 122) ∨ v.toNat = 95 ∨ v.toNat = 46)) : isPlainSafe v = false := by
  cases hp : isPlainSafe v with
  | false => rfl
  | true => exact absurd (plainSafe_range v hp) h

/-! ### styles -/

theorem styleOf_flow_ne_literal (pol : LitPolicy) (s : Bytes) : styleOf pol true s ≠ .literal := by
  unfold styleOf
  by_cases h1 : wantsLiteral pol s = true
  · simp [h1]
  · simp only [h1, Bool.false_eq_true, if_false]
    repeat' split
    all_goals simp

theorem styleOf_plain_facts (pol : LitPolicy) (inFlow : Bool) (s : Bytes) (h : styleOf pol inFlow s = .plain) :
    s ≠ [] ∧ s.all isPlainSafe = true ∧ isNullWord s = false ∧ (pol = .safe → s ≠ threeDots) := by
  unfold styleOf at h
  by_cases h1 : wantsLiteral pol s = true
  · simp only [h1, if_true] at h
    cases inFlow <;> simp at h
  · simp only [h1, Bool.false_eq_true, if_false] at h
    by_cases h2 : plainOk pol s = true
    · simp only [h2, Bool.not_true, Bool.false_eq_true, if_false] at h
      by_cases h3 : isNullString s = true
      · simp [h3] at h
      · unfold plainOk at h2
        simp only [Bool.and_eq_true, Bool.or_eq_true, decide_eq_true_eq] at h2
        unfold isNullString at h3
        simp only [Bool.or_eq_true, decide_eq_true_eq, not_or] at h3
        refine ⟨h3.1.1.1.1, h2.1, ?_, ?_⟩
        · unfold isNullWord
          simp only [Bool.or_eq_false_iff, decide_eq_false_iff_not]
          exact ⟨⟨h3.1.1.2, h3.1.2⟩, h3.2⟩
        · intro hp
          rcases h2.2 with h | h
          · rw [hp] at h; exact absurd h (by decide)
          · simpa using h
    · simp [h2] at h

theorem styleOf_block_literal (pol : LitPolicy) (s : Bytes) (h : styleOf pol false s = .literal) :
    wantsLiteral pol s = true := by
  unfold styleOf at h
  by_cases h1 : wantsLiteral pol s = true
  · exact h1
  · simp only [h1, Bool.false_eq_true, if_false] at h
    repeat' split at h
    all_goals simp at h

theorem styleOf_block_of_not_wants (pol : LitPolicy) (s : Bytes) (h : wantsLiteral pol s = false) :
    styleOf pol false s ≠ .literal := by
  intro e
  rw [styleOf_block_literal pol s e] at h
  exact absurd h (by simp)

/-- what an inline scalar reads back as -/
theorem parseInline_inlineScalar (pol : LitPolicy) (inFlow : Bool) (s rest : Bytes) (ht : IsText s) (hr : RestOK rest) :
    ∃ plain, parseInline (inlineScalar pol inFlow s ++ rest) = some (s, plain, rest) ∧
      (plain && isNullWord s) = false ∧ (plain = true → styleOf pol inFlow s = .plain) := by
  unfold inlineScalar
  cases hst : styleOf pol inFlow s with
  | plain =>
    obtain ⟨hne, hall, hnw, _⟩ := styleOf_plain_facts pol inFlow s hst
    exact ⟨true, parseInline_plain s rest hne hall hr, by simp [hnw], fun _ => rfl⟩
  | dq => exact ⟨false, parseInline_emitDQ s rest ht, by simp, by simp⟩
  | literal => exact ⟨false, parseInline_emitDQ s rest ht, by simp, by simp⟩

theorem inlineScalar_head (pol : LitPolicy) (inFlow : Bool) (s : Bytes) :
    ∃ b r, inlineScalar pol inFlow s = b :: r ∧ InlineStart b := by
  unfold inlineScalar
  cases hst : styleOf pol inFlow s with
  | plain =>
    obtain ⟨hne, hall, _, _⟩ := styleOf_plain_facts pol inFlow s hst
    obtain ⟨c, cs, rfl⟩ := List.exists_cons_of_ne_nil hne
    simp only [List.all_cons, Bool.and_eq_true] at hall
    exact ⟨c, cs, rfl, Or.inl hall.1⟩
  | dq => exact ⟨34, _, rfl, Or.inr rfl⟩
  | literal => exact ⟨34, _, rfl, Or.inr rfl⟩

/-! ### spaces -/

theorem dropSp_spaces (n : Nat) (l : Bytes) : dropSp (spaces n ++ l) = dropSp l := by
  induction n with
  | zero => rfl
  | succ k ih =>
    have : spaces (k + 1) = 32 :: spaces k := by simp [spaces, List.replicate]
    rw [this, List.cons_append, dropSp]
    simp [ih]

theorem dropSp_cons_ne (b : UInt8) (l : Bytes) (h : b ≠ 32) : dropSp (b :: l) = b :: l := by
  simp [dropSp, h]

/-! ### null-free normal forms -/

theorem normL_of_no_item (xs : List Cfg) (h : hasItemL xs = false) : Cfg.normL xs = [] := by
  induction xs with
  | nil => rfl
  | cons x xs ih =>
    simp only [hasItemL, Bool.or_eq_false_iff, Bool.not_eq_false'] at h
    rw [Cfg.normL, h.1]
    simp [ih h.2]

theorem normM_of_no_item (kvs : List (Bytes × Cfg)) (h : hasItemM kvs = false) : Cfg.normM kvs = [] := by
  induction kvs with
  | nil => rfl
  | cons kv rest ih =>
    obtain ⟨k, v⟩ := kv
    simp only [hasItemM, Bool.or_eq_false_iff, Bool.not_eq_false'] at h
    rw [Cfg.normM, h.1]
    simp [ih h.2]

/-! ### sorted maps are rebuilt as they are -/

theorem bytesLt_trans (a b c : Bytes) (h1 : bytesLt a b = true) (h2 : bytesLt b c = true) : bytesLt a c = true := by
  induction a generalizing b c with
  | nil =>
    cases c with
    | nil => cases b <;> simp [bytesLt] at h2
    | cons z zs => simp [bytesLt]
  | cons x xs ih =>
    cases b with
    | nil => simp [bytesLt] at h1
    | cons y ys =>
      cases c with
      | nil => simp [bytesLt] at h2
      | cons z zs =>
        unfold bytesLt at h1 h2 ⊢
        by_cases hxy : x.toNat < y.toNat
        · by_cases hyz : y.toNat < z.toNat
          · have : x.toNat < z.toNat := by omega
            simp [this]
          · by_cases hzy : z.toNat < y.toNat
            · simp [hyz, hzy] at h2
            · have : x.toNat < z.toNat := by omega
              simp [this]
        · by_cases hyx : y.toNat < x.toNat
          · simp [hxy, hyx] at h1
          · simp only [hxy, hyx, if_false] at h1
            by_cases hyz : y.toNat < z.toNat
            · have : x.toNat < z.toNat := by omega
              simp [this]
            · by_cases hzy : z.toNat < y.toNat
              · simp [hyz, hzy] at h2
              · simp only [hyz, hzy, if_false] at h2
                have a1 : ¬ x.toNat < z.toNat := by omega
                have a2 : ¬ z.toNat < x.toNat := by omega
                simp only [a1, a2, if_false]
                exact ih ys zs h1 h2

theorem keysSorted_tail (kv : Bytes × Cfg) (rest : List (Bytes × Cfg)) (h : keysSorted (kv :: rest) = true) :
    keysSorted rest = true := by
  obtain ⟨k, v⟩ := kv
  rw [keysSorted_cons, Bool.and_eq_true] at h
  exact h.2

theorem keysSorted_head_lt (k : Bytes) (v : Cfg) (rest : List (Bytes × Cfg)) (h : keysSorted ((k, v) :: rest) = true) :
    ∀ kv ∈ rest, bytesLt k kv.1 = true := by
  induction rest generalizing k v with
  | nil => intro kv hkv; simp at hkv
  | cons kv2 rest ih =>
    obtain ⟨j, y⟩ := kv2
    rw [keysSorted_cons, Bool.and_eq_true] at h
    intro kv hkv
    rcases List.mem_cons.mp hkv with e | hm
    · subst e; exact h.1
    · exact bytesLt_trans _ _ _ h.1 (ih j y h.2 kv hm)

/-- dropping null-valued entries keeps the keys sorted -/
theorem keysSorted_normM (kvs : List (Bytes × Cfg)) (h : keysSorted kvs = true) : keysSorted (Cfg.normM kvs) = true := by
  induction kvs with
  | nil => rfl
  | cons kv rest ih =>
    obtain ⟨k, v⟩ := kv
    have hr := keysSorted_tail _ _ h
    rw [Cfg.normM]
    by_cases hv : v.isNull = true
    · simp [hv, ih hr]
    · simp only [hv, Bool.false_eq_true, if_false]
      rw [keysSorted_cons, Bool.and_eq_true]
      refine ⟨?_, ih hr⟩
      cases hn : Cfg.normM rest with
      | nil => rfl
      | cons kv2 r2 =>
        obtain ⟨j, y⟩ := kv2
        simp only
        -- `j` is a key of `rest`
        have hmem : ∀ l : List (Bytes × Cfg), ∀ p ∈ Cfg.normM l, ∃ q ∈ l, q.1 = p.1 := by
          intro l
          induction l with
          | nil => intro p hp; simp [Cfg.normM] at hp
          | cons q l ihl =>
            obtain ⟨qk, qv⟩ := q
            intro p hp
            rw [Cfg.normM] at hp
            by_cases hq : qv.isNull = true
            · simp only [hq, if_true] at hp
              obtain ⟨q', hq', e⟩ := ihl p hp
              exact ⟨q', List.mem_cons_of_mem _ hq', e⟩
            · simp only [hq, Bool.false_eq_true, if_false] at hp
              rcases List.mem_cons.mp hp with e | hp
              · exact ⟨(qk, qv), List.mem_cons_self .., by rw [e]⟩
              · obtain ⟨q', hq', e⟩ := ihl p hp
                exact ⟨q', List.mem_cons_of_mem _ hq', e⟩
        obtain ⟨q, hq, e⟩ := hmem rest (j, y) (by rw [hn]; exact List.mem_cons_self ..)
        have := keysSorted_head_lt k v rest h q hq
        rw [e] at this
        exact this

theorem mapSet_append_last (acc : List (Bytes × Cfg)) (k : Bytes) (v : Cfg)
    (h : ∀ kv ∈ acc, bytesLt kv.1 k = true) : mapSet acc k v = acc ++ [(k, v)] := by
  induction acc with
  | nil => rfl
  | cons kv acc ih =>
    obtain ⟨j, y⟩ := kv
    have hj : bytesLt j k = true := h (j, y) (List.mem_cons_self ..)
    have hne : j ≠ k := by
      intro e; subst e; rw [bytesLt_irrefl] at hj; exact absurd hj (by simp)
    have hnlt : bytesLt k j = false := by
      cases hk : bytesLt k j with
      | false => rfl
      | true =>
        have := bytesLt_trans _ _ _ hj hk
        rw [bytesLt_irrefl] at this
        exact absurd this (by simp)
    rw [mapSet]
    simp only [hne, if_false, hnlt, Bool.false_eq_true]
    rw [ih (fun kv hkv => h kv (List.mem_cons_of_mem _ hkv))]
    rfl

theorem buildMap_go (acc l : List (Bytes × Cfg)) (h : keysSorted (acc ++ l) = true) :
    l.foldl (fun m kv => mapSet m kv.1 kv.2) acc = acc ++ l := by
  induction l generalizing acc with
  | nil => simp
  | cons kv l ih =>
    obtain ⟨k, v⟩ := kv
    rw [List.foldl_cons]
    have hlt : ∀ p ∈ acc, bytesLt p.1 k = true := by
      intro p hp
      -- p is before (k, v) in a sorted list
      induction acc with
      | nil => simp at hp
      | cons q acc iha =>
        obtain ⟨qk, qv⟩ := q
        rcases List.mem_cons.mp hp with e | hp
        · subst e
          exact keysSorted_head_lt qk qv (acc ++ (k, v) :: l) h (k, v) (by simp)
        · exact iha (keysSorted_tail _ _ h) hp
    rw [mapSet_append_last acc k v hlt]
    have : acc ++ [(k, v)] ++ l = acc ++ (k, v) :: l := by simp
    rw [ih (acc ++ [(k, v)]) (by rw [this]; exact h), this]

theorem buildMap_sorted (kvs : List (Bytes × Cfg)) (h : keysSorted kvs = true) : buildMap kvs = kvs := by
  unfold buildMap
  have := buildMap_go [] kvs (by simpa using h)
  simpa using this

end RimeModel.C18
