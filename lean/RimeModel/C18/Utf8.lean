import RimeModel.C18.Path
/-!
C18 — yaml-cpp 0.7 `emitterutils.cpp`: `GetNextCodePointAndAdvance` (lenient UTF-8 reader that maps
anything it dislikes — bad lead/trail bytes, surrogates, code points beyond U+10FFFF and the Unicode
non-characters U+FDD0..U+FDEF, U+xxFFFE, U+xxFFFF — to U+FFFD), `WriteCodePoint`, and the
double-quoted escaper `WriteDoubleQuotedString` / `WriteDoubleQuoteEscapeSequence`.
yaml-cpp is an external library: this file is a *model* of its observable behaviour (trusted base),
compared byte for byte with the real library by the correspondence check.
Arithmetic is written with `/` and `%` (not bit operations) so that `omega` can reason about it.
-/
namespace RimeModel.C18

def REPL : Nat := 0xFFFD

/-- `Utf8BytesIndicated` (`none` = -1) -/
def utf8Len (b : UInt8) : Option Nat :=
  let v := b.toNat / 16
  if v < 8 then some 1
  else if v = 12 || v = 13 then some 2
  else if v = 14 then some 3
  else if v = 15 then some 4
  else none

/-- `IsTrailingByte` -/
def isTrailing (b : UInt8) : Bool := b.toNat / 64 = 2

/-- the "illegal code points" filter at the end of `GetNextCodePointAndAdvance` -/
def legalize (cp : Nat) : Nat :=
  if cp > 0x10FFFF then REPL
  else if 0xD800 ≤ cp && cp ≤ 0xDFFF then REPL
  else if cp % 65536 ≥ 65534 then REPL
  else if 0xFDD0 ≤ cp && cp ≤ 0xFDEF then REPL
  else cp

/-- what a lead byte starts: a finished code point, or a pending multi-byte sequence -/
inductive Lead where
  | done (cp : Nat)
  | pending (more : Nat) (acc : Nat)

def leadOf (b : UInt8) : Lead :=
  match utf8Len b with
  | none => .done REPL
  | some 1 => .done b.toNat
  | some 2 => .pending 1 (b.toNat % 32)
  | some 3 => .pending 2 (b.toNat % 16)
  | some _ => .pending 3 (b.toNat % 8)

/-- the code points `GetNextCodePointAndAdvance` yields over a whole string.
`pending = 0`: expecting a lead byte; `pending = k+1`: `k+1` trailing bytes still to gather into `acc`.
A non-trailing byte inside a sequence ends it with U+FFFD and is then read again as a lead byte. -/
def decodeGo : Bytes → Nat → Nat → List Nat
  | [], 0, _ => []
  | [], _ + 1, _ => [REPL]
  | b :: rest, 0, _ =>
    match leadOf b with
    | .done cp => cp :: decodeGo rest 0 0
    | .pending k acc => decodeGo rest k acc
  | b :: rest, k + 1, acc =>
    if isTrailing b then
      let acc' := acc * 64 + b.toNat % 64
      if k = 0 then legalize acc' :: decodeGo rest 0 0 else decodeGo rest k acc'
    else
      match leadOf b with
      | .done cp => REPL :: cp :: decodeGo rest 0 0
      | .pending k' acc' => REPL :: decodeGo rest k' acc'

def decodeUtf8 (s : Bytes) : List Nat := decodeGo s 0 0

/-- `WriteCodePoint` -/
def encodeCp (cp0 : Nat) : Bytes :=
  let cp := if cp0 > 0x10FFFF then REPL else cp0
  if cp ≤ 0x7F then [UInt8.ofNat cp]
  else if cp ≤ 0x7FF then [UInt8.ofNat (192 + cp / 64), UInt8.ofNat (128 + cp % 64)]
  else if cp ≤ 0xFFFF then
    [UInt8.ofNat (224 + cp / 4096), UInt8.ofNat (128 + cp / 64 % 64), UInt8.ofNat (128 + cp % 64)]
  else
    [UInt8.ofNat (240 + cp / 262144), UInt8.ofNat (128 + cp / 4096 % 64), UInt8.ofNat (128 + cp / 64 % 64),
     UInt8.ofNat (128 + cp % 64)]

def encodeAll : List Nat → Bytes
  | [] => []
  | cp :: rest => encodeCp cp ++ encodeAll rest

/-- the bytes yaml-cpp writes for a string in a style that does no escaping (literal blocks) -/
def sanitize (s : Bytes) : Bytes := encodeAll (decodeUtf8 s)

/-! ### the property's scalar domain: text = UTF-8 encodings of Unicode scalar values that are not
non-characters -/

/-- a code point that survives `legalize` and is a scalar value -/
def goodCp (cp : Nat) : Bool :=
  cp ≤ 0x10FFFF && !(0xD800 ≤ cp && cp ≤ 0xDFFF) && !(cp % 65536 ≥ 65534) && !(0xFDD0 ≤ cp && cp ≤ 0xFDEF)

/-- `s` is text: the (shortest-form) UTF-8 encoding of a list of good code points -/
def IsText (s : Bytes) : Prop := ∃ cps : List Nat, (∀ cp ∈ cps, goodCp cp = true) ∧ s = encodeAll cps

/-- executable test (used by the driver to classify generated scalars): decoding loses nothing -/
def isTextB (s : Bytes) : Bool :=
  let cps := decodeUtf8 s
  cps.all goodCp && encodeAll cps == s

/-! ### double-quoted escaping -/

def hexDigitLower (n : Nat) : UInt8 := if n < 10 then UInt8.ofNat (48 + n) else UInt8.ofNat (87 + n)

def c_bslash : UInt8 := 92
def c_dquote : UInt8 := 34

/-- `WriteDoubleQuoteEscapeSequence` (non-JSON escaping): `\xHH` below 0xFF, `\uHHHH` below 0xFFFF, else
`\UHHHHHHHH` -/
def escapeSeq (cp : Nat) : Bytes :=
  if cp < 0xFF then
    [c_bslash, 120, hexDigitLower (cp / 16 % 16), hexDigitLower (cp % 16)]
  else if cp < 0xFFFF then
    [c_bslash, 117, hexDigitLower (cp / 4096 % 16), hexDigitLower (cp / 256 % 16), hexDigitLower (cp / 16 % 16),
     hexDigitLower (cp % 16)]
  else
    [c_bslash, 85, hexDigitLower (cp / 268435456 % 16), hexDigitLower (cp / 16777216 % 16),
     hexDigitLower (cp / 1048576 % 16), hexDigitLower (cp / 65536 % 16), hexDigitLower (cp / 4096 % 16),
     hexDigitLower (cp / 256 % 16), hexDigitLower (cp / 16 % 16), hexDigitLower (cp % 16)]

/-- one code point inside `WriteDoubleQuotedString` -/
def escapeCp (cp : Nat) : Bytes :=
  if cp = 34 then [c_bslash, 34]
  else if cp = 92 then [c_bslash, 92]
  else if cp = 10 then [c_bslash, 110]
  else if cp = 9 then [c_bslash, 116]
  else if cp = 13 then [c_bslash, 114]
  else if cp = 8 then [c_bslash, 98]
  else if cp = 12 then [c_bslash, 102]
  else if cp < 0x20 || (0x80 ≤ cp && cp ≤ 0xA0) then escapeSeq cp
  else if cp = 0xFEFF then escapeSeq cp
  else encodeCp cp

def escapeAll : List Nat → Bytes
  | [] => []
  | cp :: rest => escapeCp cp ++ escapeAll rest

/-- `WriteDoubleQuotedString` -/
def emitDQ (s : Bytes) : Bytes := c_dquote :: (escapeAll (decodeUtf8 s) ++ [c_dquote])

/-! ### reading a double-quoted scalar back (yaml-cpp `ScanScalar` with the quoted-scalar parameters and
`Exp::Escape`), restricted to single-line input: raw bytes are copied, `\` introduces an escape -/

def hexVal? (b : UInt8) : Option Nat :=
  if 48 ≤ b.toNat && b.toNat ≤ 57 then some (b.toNat - 48)
  else if 97 ≤ b.toNat && b.toNat ≤ 102 then some (b.toNat - 87)
  else if 65 ≤ b.toNat && b.toNat ≤ 70 then some (b.toNat - 55)
  else none

def hexNum : List UInt8 → Nat → Option Nat
  | [], acc => some acc
  | b :: bs, acc => match hexVal? b with
    | some d => hexNum bs (acc * 16 + d)
    | none => none

/-- `Exp::Str(unsigned ch)`: the UTF-8 encoding an escape expands to; surrogates and values beyond
U+10FFFF throw -/
def escValue (v : Nat) : Option Bytes :=
  if (0xD800 ≤ v && v ≤ 0xDFFF) || v > 0x10FFFF then none else some (encodeCp v)

/-- single-character escapes of `Exp::Escape` -/
def simpleEsc (c : UInt8) : Option UInt8 :=
  if c = 34 then some 34 else if c = 92 then some 92 else if c = 110 then some 10
  else if c = 116 then some 9 else if c = 114 then some 13 else if c = 98 then some 8
  else if c = 102 then some 12 else if c = 48 then some 0 else if c = 97 then some 7
  else if c = 118 then some 11 else if c = 101 then some 27 else if c = 32 then some 32
  else if c = 47 then some 47 else if c = 39 then some 39 else none

/-- prepend the expansion of an escape to the rest of the scalar -/
def escThen (digits : List UInt8) (tail : Option (Bytes × Bytes)) : Option (Bytes × Bytes) :=
  match hexNum digits 0 with
  | some v =>
    match escValue v, tail with
    | some e, some p => some (e ++ p.1, p.2)
    | _, _ => none
  | none => none

/-- the body of a double-quoted scalar after the opening quote: the value and what follows the closing
quote.  `none`: end of input inside the scalar, an unknown escape, or a raw line break (multi-line
quoted scalars are outside the emitted subset). -/
def parseDQBody : Bytes → Option (Bytes × Bytes)
  | [] => none
  | b :: rest =>
    if b = 34 then some ([], rest)
    else if b = 92 then
      match rest with
      | [] => none
      | c :: r1 =>
        if c = 120 then
          match r1 with
          | x1 :: x2 :: r => escThen [x1, x2] (parseDQBody r)
          | _ => none
        else if c = 117 then
          match r1 with
          | x1 :: x2 :: x3 :: x4 :: r => escThen [x1, x2, x3, x4] (parseDQBody r)
          | _ => none
        else if c = 85 then
          match r1 with
          | x1 :: x2 :: x3 :: x4 :: x5 :: x6 :: x7 :: x8 :: r =>
            escThen [x1, x2, x3, x4, x5, x6, x7, x8] (parseDQBody r)
          | _ => none
        else
          match simpleEsc c, parseDQBody r1 with
          | some x, some p => some (x :: p.1, p.2)
          | _, _ => none
    else if b = 10 then none
    else
      match parseDQBody rest with
      | some p => some (b :: p.1, p.2)
      | none => none

end RimeModel.C18
