import RimeModel.C18.Parse
/-! UTF-8 codec and double-quote escaper theorems of C18 proved here, restated in Props/C18.lean -/
namespace RimeModel.C18

set_option linter.unusedSimpArgs false

theorem ofNat_toNat (x : Nat) (h : x < 256) : (UInt8.ofNat x).toNat = x := by
  simp [UInt8.toNat_ofNat]; omega

/-! ### decoding what `WriteCodePoint` wrote -/

theorem decodeGo_lead (b : UInt8) (rest : Bytes) (x : Nat) :
    decodeGo (b :: rest) 0 x =
      match leadOf b with
      | .done cp => cp :: decodeGo rest 0 0
      | .pending k acc => decodeGo rest k acc := by
  rw [decodeGo]
  rfl

theorem decodeGo_trail (b : UInt8) (rest : Bytes) (k acc : Nat) (ht : isTrailing b = true) :
    decodeGo (b :: rest) (k + 1) acc =
      if k = 0 then legalize (acc * 64 + b.toNat % 64) :: decodeGo rest 0 0
      else decodeGo rest k (acc * 64 + b.toNat % 64) := by
  rw [decodeGo, ht]
  simp

theorem goodCp_iff (cp : Nat) : goodCp cp = true ↔
    cp ≤ 0x10FFFF ∧ ¬ (0xD800 ≤ cp ∧ cp ≤ 0xDFFF) ∧ ¬ (cp % 65536 ≥ 65534) ∧ ¬ (0xFDD0 ≤ cp ∧ cp ≤ 0xFDEF) := by
  simp only [goodCp, Bool.and_eq_true, Bool.not_eq_true', Bool.and_eq_false_iff, decide_eq_true_eq,
    decide_eq_false_iff_not]
  constructor
  · intro h; refine ⟨h.1.1.1, ?_, ?_, ?_⟩ <;> omega
  · intro h; refine ⟨⟨⟨h.1, ?_⟩, ?_⟩, ?_⟩ <;> omega

theorem legalize_good (cp : Nat) (h : goodCp cp = true) : legalize cp = cp := by
  rw [goodCp_iff] at h
  unfold legalize
  have h1 : ¬ cp > 0x10FFFF := by omega
  simp only [h1, if_false]
  have h2 : (decide (0xD800 ≤ cp) && decide (cp ≤ 0xDFFF)) = false := by
    simp only [Bool.and_eq_false_iff, decide_eq_false_iff_not]; omega
  have h4 : (decide (0xFDD0 ≤ cp) && decide (cp ≤ 0xFDEF)) = false := by
    simp only [Bool.and_eq_false_iff, decide_eq_false_iff_not]; omega
  simp only [h2, h4, Bool.false_eq_true, if_false]
  have h3 : ¬ cp % 65536 ≥ 65534 := h.2.2.1
  simp [h3]

theorem leadOf_1 (cp : Nat) (h : cp ≤ 0x7F) : leadOf (UInt8.ofNat cp) = .done cp := by
  unfold leadOf utf8Len
  rw [ofNat_toNat cp (by omega)]
  have : cp / 16 < 8 := by omega
  simp [this]

theorem leadOf_2 (x : Nat) (h1 : 2 ≤ x) (h2 : x < 32) : leadOf (UInt8.ofNat (192 + x)) = .pending 1 x := by
  unfold leadOf utf8Len
  rw [ofNat_toNat _ (by omega)]
  have a : ¬ (192 + x) / 16 < 8 := by omega
  have b : (192 + x) / 16 = 12 ∨ (192 + x) / 16 = 13 := by omega
  have c : (192 + x) % 32 = x := by omega
  rcases b with b | b <;> simp [a, b, c]

theorem leadOf_3 (x : Nat) (h2 : x < 16) : leadOf (UInt8.ofNat (224 + x)) = .pending 2 x := by
  unfold leadOf utf8Len
  rw [ofNat_toNat _ (by omega)]
  have a : (224 + x) / 16 = 14 := by omega
  have c : (224 + x) % 16 = x := by omega
  simp [a, c]

theorem leadOf_4 (x : Nat) (h2 : x < 8) : leadOf (UInt8.ofNat (240 + x)) = .pending 3 x := by
  unfold leadOf utf8Len
  rw [ofNat_toNat _ (by omega)]
  have a : (240 + x) / 16 = 15 := by omega
  have c : (240 + x) % 8 = x := by omega
  simp [a, c]

theorem trail_props (x : Nat) (h : x < 64) :
    isTrailing (UInt8.ofNat (128 + x)) = true ∧ (UInt8.ofNat (128 + x)).toNat % 64 = x := by
  unfold isTrailing
  rw [ofNat_toNat _ (by omega)]
  constructor
  · simp; omega
  · omega

theorem decodeGo_encodeCp (cp : Nat) (tail : Bytes) (h : goodCp cp = true) :
    decodeGo (encodeCp cp ++ tail) 0 0 = cp :: decodeGo tail 0 0 := by
  have hg := (goodCp_iff cp).mp h
  have hle : ¬ cp > 0x10FFFF := by omega
  unfold encodeCp
  simp only [hle, if_false]
  by_cases c1 : cp ≤ 0x7F
  · simp only [c1, if_true, List.singleton_append]
    rw [decodeGo_lead, leadOf_1 cp c1]
  · simp only [c1, if_false]
    by_cases c2 : cp ≤ 0x7FF
    · simp only [c2, if_true, List.cons_append, List.nil_append]
      rw [decodeGo_lead, leadOf_2 (cp / 64) (by omega) (by omega)]
      have t := trail_props (cp % 64) (by omega)
      simp only
      rw [show (1 : Nat) = 0 + 1 from rfl, decodeGo_trail _ _ _ _ t.1, t.2]
      simp only [if_true]
      have : cp / 64 * 64 + cp % 64 = cp := by omega
      rw [this, legalize_good cp h]
    · simp only [c2, if_false]
      by_cases c3 : cp ≤ 0xFFFF
      · simp only [c3, if_true, List.cons_append, List.nil_append]
        rw [decodeGo_lead, leadOf_3 (cp / 4096) (by omega)]
        have t1 := trail_props (cp / 64 % 64) (by omega)
        have t2 := trail_props (cp % 64) (by omega)
        simp only
        rw [show (2 : Nat) = 1 + 1 from rfl, decodeGo_trail _ _ _ _ t1.1, t1.2]
        simp only [Nat.succ_ne_zero, if_false, show ¬ (1 = 0) from by omega]
        rw [show (1 : Nat) = 0 + 1 from rfl, decodeGo_trail _ _ _ _ t2.1, t2.2]
        simp only [if_true]
        have : (cp / 4096 * 64 + cp / 64 % 64) * 64 + cp % 64 = cp := by omega
        rw [this, legalize_good cp h]
      · simp only [c3, if_false, List.cons_append, List.nil_append]
        rw [decodeGo_lead, leadOf_4 (cp / 262144) (by omega)]
        have t1 := trail_props (cp / 4096 % 64) (by omega)
        have t2 := trail_props (cp / 64 % 64) (by omega)
        have t3 := trail_props (cp % 64) (by omega)
        simp only
        rw [show (3 : Nat) = 2 + 1 from rfl, decodeGo_trail _ _ _ _ t1.1, t1.2]
        simp only [show ¬ (2 = 0) from by omega, if_false]
        rw [show (2 : Nat) = 1 + 1 from rfl, decodeGo_trail _ _ _ _ t2.1, t2.2]
        simp only [show ¬ (1 = 0) from by omega, if_false]
        rw [show (1 : Nat) = 0 + 1 from rfl, decodeGo_trail _ _ _ _ t3.1, t3.2]
        simp only [if_true]
        have : ((cp / 262144 * 64 + cp / 4096 % 64) * 64 + cp / 64 % 64) * 64 + cp % 64 = cp := by omega
        rw [this, legalize_good cp h]

theorem decodeUtf8_encodeAll (cps : List Nat) (h : ∀ cp ∈ cps, goodCp cp = true) :
    decodeUtf8 (encodeAll cps) = cps := by
  unfold decodeUtf8
  induction cps with
  | nil => rfl
  | cons cp rest ih =>
    rw [encodeAll, decodeGo_encodeCp cp _ (h cp (List.mem_cons_self ..)), ih (fun c hc => h c (List.mem_cons_of_mem _ hc))]

/-- text passes through yaml-cpp's code-point loop unchanged -/
theorem sanitize_text (s : Bytes) (h : IsText s) : sanitize s = s := by
  obtain ⟨cps, hg, rfl⟩ := h
  unfold sanitize
  rw [decodeUtf8_encodeAll cps hg]

/-! ### bytes of an encoded code point -/

theorem encodeCp_bytes_high (cp : Nat) (h : 0x80 ≤ cp) : ∀ b ∈ encodeCp cp, 128 ≤ b.toNat := by
  intro b hb
  unfold encodeCp at hb
  by_cases hle : cp > 0x10FFFF
  · simp [hle, REPL] at hb
    rcases hb with hb | hb | hb <;> (subst hb; decide)
  · simp only [hle, if_false] at hb
    have c1 : ¬ cp ≤ 0x7F := by omega
    simp only [c1, if_false] at hb
    by_cases c2 : cp ≤ 0x7FF
    · simp only [c2, if_true, List.mem_cons, List.not_mem_nil, or_false] at hb
      rcases hb with hb | hb <;> (subst hb; rw [ofNat_toNat _ (by omega)]; omega)
    · simp only [c2, if_false] at hb
      by_cases c3 : cp ≤ 0xFFFF
      · simp only [c3, if_true, List.mem_cons, List.not_mem_nil, or_false] at hb
        rcases hb with hb | hb | hb <;> (subst hb; rw [ofNat_toNat _ (by omega)]; omega)
      · simp only [c3, if_false, List.mem_cons, List.not_mem_nil, or_false] at hb
        rcases hb with hb | hb | hb | hb <;> (subst hb; rw [ofNat_toNat _ (by omega)]; omega)

theorem encodeCp_ascii (cp : Nat) (h : cp ≤ 0x7F) : encodeCp cp = [UInt8.ofNat cp] := by
  unfold encodeCp
  have : ¬ cp > 0x10FFFF := by omega
  simp [this, h]

/-! ### reading escapes back -/

theorem hexVal_hexDigitLower : ∀ d, d < 16 → hexVal? (hexDigitLower d) = some d := by decide

theorem parseDQBody_cons (b : UInt8) (rest : Bytes) :
    parseDQBody (b :: rest) =
    if b = 34 then some ([], rest)
    else if b = 92 then
      match rest with
      | [] => none
      | c :: r1 =>
        if c = 120 then
          match r1 with
          | x1 :: x2 :: r => escThen [x1, x2] (parseDQBody r)
          | _ => none
        else if c = 117 then
          match r1 with
          | x1 :: x2 :: x3 :: x4 :: r => escThen [x1, x2, x3, x4] (parseDQBody r)
          | _ => none
        else if c = 85 then
          match r1 with
          | x1 :: x2 :: x3 :: x4 :: x5 :: x6 :: x7 :: x8 :: r =>
            escThen [x1, x2, x3, x4, x5, x6, x7, x8] (parseDQBody r)
          | _ => none
        else
          match simpleEsc c, parseDQBody r1 with
          | some x, some p => some (x :: p.1, p.2)
          | _, _ => none
    else if b = 10 then none
    else
      match parseDQBody rest with
      | some p => some (b :: p.1, p.2)
      | none => none := by
  conv => lhs; unfold parseDQBody
  rfl

theorem parseDQBody_raw (bs tail : Bytes) (h : ∀ b ∈ bs, b ≠ 34 ∧ b ≠ 92 ∧ b ≠ 10) :
    parseDQBody (bs ++ tail) = (parseDQBody tail).map (fun p => (bs ++ p.1, p.2)) := by
  induction bs with
  | nil =>
    rw [List.nil_append]
    cases parseDQBody tail <;> simp
  | cons b bs ih =>
    have hb := h b (List.mem_cons_self ..)
    rw [List.cons_append, parseDQBody_cons]
    simp only [hb.1, hb.2.1, hb.2.2, if_false]
    rw [ih (fun x hx => h x (List.mem_cons_of_mem _ hx))]
    cases parseDQBody tail <;> rfl

theorem parseDQBody_simple (c x : UInt8) (tail : Bytes) (hs : simpleEsc c = some x)
    (h1 : c ≠ 120) (h2 : c ≠ 117) (h3 : c ≠ 85) :
    parseDQBody (92 :: c :: tail) = (parseDQBody tail).map (fun p => (x :: p.1, p.2)) := by
  rw [parseDQBody_cons]
  simp only [show (92 : UInt8) ≠ 34 from by decide, if_false, if_true, h1, h2, h3, hs]
  cases parseDQBody tail <;> rfl

theorem parseDQBody_x (cp : Nat) (tail : Bytes) (h : cp < 256) :
    parseDQBody ([92, 120, hexDigitLower (cp / 16 % 16), hexDigitLower (cp % 16)] ++ tail) =
      (parseDQBody tail).map (fun p => (encodeCp cp ++ p.1, p.2)) := by
  simp only [List.cons_append, List.nil_append]
  rw [parseDQBody_cons]
  simp only [show (92 : UInt8) ≠ 34 from by decide, if_false, if_true]
  unfold escThen hexNum hexNum hexNum
  rw [hexVal_hexDigitLower _ (by omega), hexVal_hexDigitLower _ (by omega)]
  have : (0 * 16 + cp / 16 % 16) * 16 + cp % 16 = cp := by omega
  simp only [this]
  have hv : escValue cp = some (encodeCp cp) := by
    unfold escValue
    have a : (decide (0xD800 ≤ cp) && decide (cp ≤ 0xDFFF) || decide (cp > 0x10FFFF)) = false := by
      simp only [Bool.or_eq_false_iff, Bool.and_eq_false_iff, decide_eq_false_iff_not]; omega
    simp [a]
  rw [hv]
  cases parseDQBody tail <;> rfl

theorem parseDQBody_feff (tail : Bytes) :
    parseDQBody (escapeSeq 0xFEFF ++ tail) = (parseDQBody tail).map (fun p => (encodeCp 0xFEFF ++ p.1, p.2)) := by
  have e : escapeSeq 0xFEFF = [92, 117, 102, 101, 102, 102] := by decide
  rw [e]
  simp only [List.cons_append, List.nil_append]
  rw [parseDQBody_cons]
  simp only [show (92 : UInt8) ≠ 34 from by decide, show (117 : UInt8) ≠ 120 from by decide, if_false, if_true]
  have : escThen [102, 101, 102, 102] (parseDQBody tail) = (parseDQBody tail).map (fun p => (encodeCp 0xFEFF ++ p.1, p.2)) := by
    unfold escThen
    have h1 : hexNum [102, 101, 102, 102] 0 = some 0xFEFF := by decide
    have h2 : escValue 0xFEFF = some (encodeCp 0xFEFF) := by decide
    rw [h1]
    simp only [h2]
    cases parseDQBody tail <;> rfl
  exact this

/-- one code point: what the escaper writes reads back as the code point's UTF-8 -/
theorem parseDQBody_escapeCp (cp : Nat) (tail : Bytes) (h : goodCp cp = true) :
    parseDQBody (escapeCp cp ++ tail) = (parseDQBody tail).map (fun p => (encodeCp cp ++ p.1, p.2)) := by
  have hg := (goodCp_iff cp).mp h
  unfold escapeCp
  by_cases c34 : cp = 34
  · subst c34; simp only [if_true]; exact parseDQBody_simple 34 34 tail (by decide) (by decide) (by decide) (by decide)
  by_cases c92 : cp = 92
  · subst c92; simp only [c34, if_false, if_true]; exact parseDQBody_simple 92 92 tail (by decide) (by decide) (by decide) (by decide)
  by_cases c10 : cp = 10
  · subst c10; simp only [c34, c92, if_false, if_true]; exact parseDQBody_simple 110 10 tail (by decide) (by decide) (by decide) (by decide)
  by_cases c9 : cp = 9
  · subst c9; simp only [c34, c92, c10, if_false, if_true]; exact parseDQBody_simple 116 9 tail (by decide) (by decide) (by decide) (by decide)
  by_cases c13 : cp = 13
  · subst c13; simp only [c34, c92, c10, c9, if_false, if_true]; exact parseDQBody_simple 114 13 tail (by decide) (by decide) (by decide) (by decide)
  by_cases c8 : cp = 8
  · subst c8; simp only [c34, c92, c10, c9, c13, if_false, if_true]; exact parseDQBody_simple 98 8 tail (by decide) (by decide) (by decide) (by decide)
  by_cases c12 : cp = 12
  · subst c12; simp only [c34, c92, c10, c9, c13, c8, if_false, if_true]; exact parseDQBody_simple 102 12 tail (by decide) (by decide) (by decide) (by decide)
  simp only [c34, c92, c10, c9, c13, c8, c12, if_false]
  by_cases cc : (decide (cp < 0x20) || (decide (0x80 ≤ cp) && decide (cp ≤ 0xA0))) = true
  · simp only [cc, if_true]
    have hlt : cp < 0xFF := by
      simp only [Bool.or_eq_true, Bool.and_eq_true, decide_eq_true_eq] at cc; omega
    have : escapeSeq cp = [92, 120, hexDigitLower (cp / 16 % 16), hexDigitLower (cp % 16)] := by
      unfold escapeSeq; simp [hlt, c_bslash]
    rw [this]
    exact parseDQBody_x cp tail (by omega)
  · simp only [cc, Bool.false_eq_true, if_false]
    by_cases cf : cp = 0xFEFF
    · subst cf; simp only [if_true]; exact parseDQBody_feff tail
    · simp only [cf, if_false]
      apply parseDQBody_raw
      have hcc : ¬ cp < 0x20 ∧ ¬ (0x80 ≤ cp ∧ cp ≤ 0xA0) := by
        simp only [Bool.or_eq_true, Bool.and_eq_true, decide_eq_true_eq, not_or] at cc; exact cc
      intro b hb
      by_cases hi : 0x80 ≤ cp
      · have := encodeCp_bytes_high cp hi b hb
        refine ⟨?_, ?_, ?_⟩ <;> (intro e; subst e; simp at this)
      · rw [encodeCp_ascii cp (by omega)] at hb
        simp only [List.mem_cons, List.not_mem_nil, or_false] at hb
        subst hb
        refine ⟨?_, ?_, ?_⟩ <;> (intro e; have := congrArg UInt8.toNat e; rw [ofNat_toNat _ (by omega)] at this; simp at this; omega)

theorem parseDQBody_escapeAll (cps : List Nat) (rest : Bytes) (h : ∀ cp ∈ cps, goodCp cp = true) :
    parseDQBody (escapeAll cps ++ 34 :: rest) = some (encodeAll cps, rest) := by
  induction cps with
  | nil => simp [escapeAll, encodeAll, parseDQBody_cons]
  | cons cp cps ih =>
    rw [escapeAll, List.append_assoc, parseDQBody_escapeCp cp _ (h cp (List.mem_cons_self ..)),
      ih (fun c hc => h c (List.mem_cons_of_mem _ hc))]
    simp [encodeAll]

/-- the double-quoted form of a text reads back as the text -/
theorem parseInline_emitDQ (s rest : Bytes) (h : IsText s) : parseInline (emitDQ s ++ rest) = some (s, false, rest) := by
  obtain ⟨cps, hg, rfl⟩ := h
  unfold emitDQ parseInline
  rw [decodeUtf8_encodeAll cps hg]
  simp only [c_dquote, List.cons_append, List.append_assoc, List.singleton_append, List.nil_append]
  rw [parseDQBody_escapeAll cps rest hg]

end RimeModel.C18
