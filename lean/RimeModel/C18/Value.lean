import RimeModel.C18.Path
/-!
C18 — `ConfigValue` typed getters/setters (src/rime/config/config_types.cc) and the `Config::Get*/Set*`
wrappers (config_component.cc).  A getter returns `none` where the C++ returns `false`; the C++ writes
`*value` only on the success paths, so `none` also means "out-parameter untouched".

`int` is a Lean `Int` in `[-2^31, 2^31)`.  `std::stoi` is `strtol(…, 10)` + range check (lenient:
leading white space, optional sign, then at least one digit; trailing bytes ignored).  The hex branch
is `strtoul(…, 16)` truncated to `unsigned int` and cast to `int`.  Doubles are abstract: the `%f`
formatter (`std::to_string(double)`) and `std::stod` are parameters.
-/
namespace RimeModel.C18

def INT_MAX : Int := 2147483647
def INT_MIN : Int := -2147483648

/-- `boost::to_lower` with the classic locale: ASCII only -/
def toLowerAscii (s : Bytes) : Bytes := s.map fun b => if isUpper b then UInt8.ofNat (b.toNat + 32) else b

def strTrue : Bytes := [116, 114, 117, 101]
def strFalse : Bytes := [102, 97, 108, 115, 101]

/-- `ConfigValue::GetBool` -/
def valGetBool (s : Bytes) : Option Bool :=
  if s = [] then none
  else
    let l := toLowerAscii s
    if l = strTrue then some true else if l = strFalse then some false else none

def hexVal (b : UInt8) : Option Nat :=
  if isDigit b then some (b.toNat - 48)
  else if 97 ≤ b.toNat && b.toNat ≤ 102 then some (b.toNat - 87)
  else if 65 ≤ b.toNat && b.toNat ≤ 70 then some (b.toNat - 55)
  else none

/-- value of the leading hex digits, the number of digits, and the rest -/
def hexDigitsVal : Bytes → Nat → Nat → Nat × Nat × Bytes
  | [], acc, n => (acc, n, [])
  | b :: bs, acc, n =>
    match hexVal b with
    | some d => hexDigitsVal bs (acc * 16 + d) (n + 1)
    | none => (acc, n, b :: bs)

/-- two's complement reading of a 32-bit pattern -/
def toInt32 (n : Nat) : Int := if n % U32 < 2147483648 then (n % U32 : Nat) else (n % U32 : Nat) - (U32 : Int)

/-- the hex branch of `GetInt` on a C string that starts with "0x": `strtoul(s, &p, 16)` and the test
`*p == '\0'`.  `some v` = branch taken. (With no hex digit after "0x", `strtoul` converts the "0" only
and `p` points at the 'x', so the branch is not taken.) -/
def hexBranch (c : Bytes) : Option Int :=
  match c with
  | 48 :: 120 :: rest =>
    let r := hexDigitsVal rest 0 0
    if r.2.1 = 0 then none
    else if r.2.2 = [] then some (toInt32 (if r.1 > ULONG_MAX then ULONG_MAX else r.1))
    else none
  | _ => none

/-- `std::stoi(s)`: `none` = throws (`invalid_argument` without digits, `out_of_range` beyond `int`) -/
def stoi (s0 : Bytes) : Option Int :=
  let s := dropSpaces (cstr s0)
  let neg : Bool := match s with | b :: _ => b.toNat == 45 | [] => false
  let s1 := match s with | b :: bs => if b.toNat == 45 || b.toNat == 43 then bs else b :: bs | [] => []
  let r := digitsVal s1 0 0
  if r.2 = 0 then none
  else
    let v : Int := if neg then -(r.1 : Int) else (r.1 : Int)
    if INT_MIN ≤ v ∧ v ≤ INT_MAX then some v else none

/-- `ConfigValue::GetInt` -/
def valGetInt (s : Bytes) : Option Int :=
  if s = [] then none
  else
    match hexBranch (cstr s) with
    | some v => some v
    | none => stoi s

/-- `ConfigValue::GetString` -/
def valGetString (s : Bytes) : Option Bytes := some s

/-- `ConfigValue::GetDouble` with `std::stod` as a parameter (`none` = throws) -/
def valGetDouble {D : Type} (stod : Bytes → Option D) (s : Bytes) : Option D :=
  if s = [] then none else stod s

/-- `std::to_string(int)` -/
def intToString (i : Int) : Bytes :=
  if i < 0 then 45 :: natToDec i.natAbs else natToDec i.natAbs

def valSetBool (b : Bool) : Cfg := .scalar (if b then strTrue else strFalse)
def valSetInt (i : Int) : Cfg := .scalar (intToString i)
def valSetString (s : Bytes) : Cfg := .scalar s
/-- `std::to_string(double)` as a parameter -/
def valSetDouble {D : Type} (fmt : D → Bytes) (d : D) : Cfg := .scalar (fmt d)

/-! ### `Config::Get*`: `As<ConfigValue>(Traverse(path))` then the value getter -/

def asValue : Cfg → Option Bytes
  | .scalar s => some s
  | _ => none

def getString (root : Cfg) (path : Bytes) : Option Bytes := (asValue (traverse root path)).bind valGetString
def getInt (root : Cfg) (path : Bytes) : Option Int := (asValue (traverse root path)).bind valGetInt
def getBool (root : Cfg) (path : Bytes) : Option Bool := (asValue (traverse root path)).bind valGetBool
def getDouble {D : Type} (stod : Bytes → Option D) (root : Cfg) (path : Bytes) : Option D :=
  (asValue (traverse root path)).bind (valGetDouble stod)

/-- `Config::GetListSize` / `RimeConfigListSize` -/
def getListSize (root : Cfg) (path : Bytes) : Nat :=
  match traverse root path with
  | .list xs => xs.length
  | _ => 0

/-! ### `Config::Set*` = `SetItem(path, New<ConfigValue>(v))` = `TraverseWrite` -/

def setString (root : Cfg) (path s : Bytes) : Option Cfg := traverseWrite root path (valSetString s)
def setInt (root : Cfg) (path : Bytes) (i : Int) : Option Cfg := traverseWrite root path (valSetInt i)
def setBool (root : Cfg) (path : Bytes) (b : Bool) : Option Cfg := traverseWrite root path (valSetBool b)
def setDouble {D : Type} (fmt : D → Bytes) (root : Cfg) (path : Bytes) (d : D) : Option Cfg :=
  traverseWrite root path (valSetDouble fmt d)

end RimeModel.C18
