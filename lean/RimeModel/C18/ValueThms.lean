import RimeModel.C18.Value
/-! typed getter/setter theorems of C18 proved here, restated in Props/C18.lean -/
namespace RimeModel.C18

theorem digit_toNat (d : Nat) (h : d < 10) : (UInt8.ofNat (48 + d)).toNat = 48 + d := by
  simp [UInt8.toNat_ofNat]; omega

theorem isDigit_digit (d : Nat) (h : d < 10) : isDigit (UInt8.ofNat (48 + d)) = true := by
  unfold isDigit
  rw [digit_toNat d h]
  simp
  omega

/-- reading back the digits `natDigits` produced in front of `acc` -/
theorem digitsVal_natDigits (fuel n : Nat) (acc : Bytes) (a k : Nat) (h : n < 10 ^ fuel) (hf : 0 < fuel) :
    ∃ m, 1 ≤ m ∧ digitsVal (natDigits fuel n acc) a k = digitsVal acc (a * 10 ^ m + n) (k + m) := by
  induction fuel generalizing n acc with
  | zero => omega
  | succ f ih =>
    unfold natDigits
    by_cases h0 : n / 10 = 0
    · have hn : n < 10 := by omega
      refine ⟨1, Nat.le_refl _, ?_⟩
      simp only [h0, if_true]
      rw [digitsVal]
      have : n % 10 = n := Nat.mod_eq_of_lt hn
      rw [this, isDigit_digit n hn, digit_toNat n hn]
      simp
    · simp only [h0, if_false]
      have hlt : n / 10 < 10 ^ f := by
        rw [Nat.pow_succ] at h
        omega
      have hf' : 0 < f := by
        cases f with
        | zero => simp at hlt; omega
        | succ g => omega
      obtain ⟨m, hm1, hm⟩ := ih (n / 10) (UInt8.ofNat (48 + n % 10) :: acc) hlt hf'
      refine ⟨m + 1, by omega, ?_⟩
      rw [hm, digitsVal]
      have hd : n % 10 < 10 := Nat.mod_lt _ (by omega)
      rw [isDigit_digit _ hd, digit_toNat _ hd]
      simp only [if_true]
      have e1 : (a * 10 ^ m + n / 10) * 10 + (48 + n % 10 - 48) = a * 10 ^ (m + 1) + n := by
        rw [Nat.pow_succ]
        have : 48 + n % 10 - 48 = n % 10 := by omega
        rw [this]
        have := Nat.div_add_mod n 10
        calc (a * 10 ^ m + n / 10) * 10 + n % 10 = a * 10 ^ m * 10 + (10 * (n / 10) + n % 10) := by
              rw [Nat.add_mul]; omega
          _ = a * (10 ^ m * 10) + n := by rw [this, Nat.mul_assoc]
      have e2 : k + m + 1 = k + (m + 1) := by omega
      rw [e1, e2]

theorem lt_ten_pow (n : Nat) : n < 10 ^ (n + 1) := by
  induction n with
  | zero => simp
  | succ k ih => rw [Nat.pow_succ]; omega

theorem digitsVal_natToDec (n : Nat) : ∃ m, 1 ≤ m ∧ digitsVal (natToDec n) 0 0 = (n, m) := by
  obtain ⟨m, hm1, hm⟩ := digitsVal_natDigits (n + 1) n [] 0 0 (lt_ten_pow n) (by omega)
  refine ⟨m, hm1, ?_⟩
  unfold natToDec
  rw [hm]
  simp [digitsVal]

/-- the decimal digits: non-empty, all ASCII digits -/
theorem natDigits_all_digits (fuel n : Nat) (acc : Bytes) (hacc : ∀ b ∈ acc, isDigit b = true) :
    ∀ b ∈ natDigits fuel n acc, isDigit b = true := by
  induction fuel generalizing n acc with
  | zero => simpa [natDigits] using hacc
  | succ f ih =>
    unfold natDigits
    have hd : n % 10 < 10 := Nat.mod_lt _ (by omega)
    have hacc' : ∀ b ∈ UInt8.ofNat (48 + n % 10) :: acc, isDigit b = true := by
      intro b hb
      rcases List.mem_cons.mp hb with hb | hb
      · rw [hb]; exact isDigit_digit _ hd
      · exact hacc b hb
    by_cases h0 : n / 10 = 0
    · simp only [h0, if_true]; exact hacc'
    · simp only [h0, if_false]; exact ih _ _ hacc'

theorem natToDec_all_digits (n : Nat) : ∀ b ∈ natToDec n, isDigit b = true :=
  natDigits_all_digits _ _ _ (by simp)

theorem natDigits_ne_nil (fuel n : Nat) (acc : Bytes) (h : acc ≠ [] ∨ fuel ≠ 0) : natDigits fuel n acc ≠ [] := by
  induction fuel generalizing n acc with
  | zero => rcases h with h | h; exact h; exact absurd rfl h
  | succ f ih =>
    unfold natDigits
    by_cases h0 : n / 10 = 0
    · simp [h0]
    · simp only [h0, if_false]; exact ih _ _ (Or.inl (by simp))

theorem natToDec_ne_nil (n : Nat) : natToDec n ≠ [] := natDigits_ne_nil _ _ _ (Or.inr (by omega))

theorem cstr_of_nonzero (s : Bytes) (h : ∀ b ∈ s, b.toNat ≠ 0) : cstr s = s := by
  induction s with
  | nil => rfl
  | cons b bs ih =>
    have hb := h b (List.mem_cons_self ..)
    have : (b.toNat == 0) = false := by simpa using hb
    rw [cstr, this]
    simp only [Bool.false_eq_true, if_false]
    rw [ih (fun x hx => h x (List.mem_cons_of_mem _ hx))]

theorem digit_props (b : UInt8) (h : isDigit b = true) :
    b.toNat ≠ 0 ∧ isSpace b = false ∧ b.toNat ≠ 45 ∧ b.toNat ≠ 43 ∧ b.toNat ≠ 120 ∧ 48 ≤ b.toNat ∧ b.toNat ≤ 57 := by
  simp only [isDigit, Bool.and_eq_true, decide_eq_true_eq] at h
  refine ⟨by omega, ?_, by omega, by omega, by omega, h.1, h.2⟩
  simp only [isSpace, Bool.or_eq_false_iff, Bool.and_eq_false_iff, decide_eq_false_iff_not]
  omega

/-- `std::stoi` on the decimal spelling of a natural number, with an optional minus sign -/
theorem stoi_digits (neg : Bool) (n : Nat)
    (hr : if neg then (n : Int) ≤ 2147483648 else (n : Int) ≤ 2147483647) :
    stoi ((if neg then [45] else []) ++ natToDec n) = some (if neg then -(n : Int) else n) := by
  have hall := natToDec_all_digits n
  obtain ⟨m, hm1, hm⟩ := digitsVal_natToDec n
  have hne := natToDec_ne_nil n
  have hnz : ∀ b ∈ (if neg then [45] else ([] : Bytes)) ++ natToDec n, b.toNat ≠ 0 := by
    intro b hb
    rcases List.mem_append.mp hb with hb | hb
    · cases neg <;> simp at hb; subst hb; decide
    · exact (digit_props b (hall b hb)).1
  unfold stoi
  rw [cstr_of_nonzero _ hnz]
  obtain ⟨d, ds, hds⟩ := List.exists_cons_of_ne_nil hne
  have hd := digit_props d (hall d (by rw [hds]; exact List.mem_cons_self ..))
  cases neg with
  | true =>
    simp only [if_true, List.singleton_append]
    have : dropSpaces (45 :: natToDec n) = 45 :: natToDec n := by
      rw [dropSpaces]; simp [isSpace]
    rw [this]
    simp only [show ((45 : UInt8).toNat == 45) = true from rfl, Bool.true_or, if_true, hm]
    have : ¬ m = 0 := by omega
    simp only [this, if_false]
    simp only [if_true] at hr
    have : INT_MIN ≤ -(n : Int) ∧ -(n : Int) ≤ INT_MAX := by
      unfold INT_MIN INT_MAX; omega
    simp [this]
  | false =>
    simp only [Bool.false_eq_true, if_false, List.nil_append]
    have hsp : dropSpaces (natToDec n) = natToDec n := by
      rw [hds, dropSpaces, hd.2.1]; simp
    rw [hsp, hds]
    have h45 : (d.toNat == 45) = false := by simpa using hd.2.2.1
    have h43 : (d.toNat == 43) = false := by simpa using hd.2.2.2.1
    simp only [h45, h43, Bool.or_false, Bool.false_eq_true, if_false]
    rw [← hds, hm]
    have : ¬ m = 0 := by omega
    simp only [this, if_false]
    simp only [Bool.false_eq_true, if_false] at hr
    have : INT_MIN ≤ (n : Int) ∧ (n : Int) ≤ INT_MAX := by
      unfold INT_MIN INT_MAX; omega
    simp [this]

theorem intToString_eq (i : Int) :
    intToString i = (if decide (i < 0) then [45] else []) ++ natToDec i.natAbs := by
  unfold intToString
  by_cases h : i < 0 <;> simp [h]

/-- the hex branch of `GetInt` is not taken on what `SetInt` writes -/
theorem hexBranch_intToString (i : Int) : hexBranch (cstr (intToString i)) = none := by
  have hall := natToDec_all_digits i.natAbs
  have hne := natToDec_ne_nil i.natAbs
  obtain ⟨d, ds, hds⟩ := List.exists_cons_of_ne_nil hne
  have hd := digit_props d (hall d (by rw [hds]; exact List.mem_cons_self ..))
  have hnz : ∀ b ∈ intToString i, b.toNat ≠ 0 := by
    intro b hb
    rw [intToString_eq] at hb
    rcases List.mem_append.mp hb with hb | hb
    · by_cases h : i < 0 <;> simp [h] at hb; subst hb; decide
    · exact (digit_props b (hall b hb)).1
  rw [cstr_of_nonzero _ hnz, intToString_eq]
  by_cases h : i < 0
  · simp only [h, decide_true, if_true, List.singleton_append]
    unfold hexBranch
    split
    · rename_i heq; simp at heq
    · rfl
  · simp only [h, decide_false, Bool.false_eq_true, if_false, List.nil_append, hds]
    unfold hexBranch
    split
    · rename_i rest heq
      simp only [List.cons.injEq] at heq
      cases ds with
      | nil => simp at heq
      | cons e es =>
        have he := digit_props e (hall e (by rw [hds]; simp))
        simp only [List.cons.injEq] at heq
        have := heq.2.1
        subst this
        exact absurd rfl he.2.2.2.2.1
    · rfl

/-- `GetInt(SetInt(i)) = i` for every `int` -/
theorem valGetInt_setInt (i : Int) (h1 : INT_MIN ≤ i) (h2 : i ≤ INT_MAX) : valGetInt (intToString i) = some i := by
  unfold valGetInt
  have hne : intToString i ≠ [] := by
    rw [intToString_eq]
    intro e
    exact natToDec_ne_nil _ (List.append_eq_nil_iff.mp e).2
  simp only [hne, if_false, hexBranch_intToString]
  rw [intToString_eq]
  unfold INT_MIN at h1
  unfold INT_MAX at h2
  have := stoi_digits (decide (i < 0)) i.natAbs (by by_cases h : i < 0 <;> simp [h] <;> omega)
  rw [this]
  by_cases h : i < 0 <;> simp [h] <;> omega

theorem valGetBool_setBool (b : Bool) : valGetBool (if b then strTrue else strFalse) = some b := by
  cases b <;> decide

end RimeModel.C18
