import RimeModel.C19.Model
import RimeModel.C19.Sort
/-!
C19 — the domain of the round-trip property, the facts about the generated tables that the proofs
use (`TableFacts`), and the Boolean checkers (linear or n·log n, kernel-evaluable) with the lemmas
that turn a successful check into the stated fact.
-/
namespace RimeModel.C19

/-! ### domain of the property -/

/-- the key code has a name: some row of the key table carries it -/
def Named (k : Nat) : Prop := ∃ r ∈ byVal, r.keyval = k

instance (k : Nat) : Decidable (Named k) := by unfold Named; infer_instance

/-- every set bit of the mask has a modifier name (the mask is a combination of named modifiers) -/
def NamedMask (m : Nat) : Prop := ∀ i, m.testBit i = true → ∃ n, modifierNames[i]? = some (some n)

/-- a key event the property speaks about -/
def InDomain (e : KeyEvent) : Prop := Named e.keycode ∧ e.keycode ≠ voidSymbol ∧ NamedMask e.modifier

/-- computable form of `NamedMask` along a slot list -/
def fits : List (Option Bytes) → Nat → Bool
  | [], k => k == 0
  | s :: ss, k => (k % 2 == 0 || s.isSome) && fits ss (k / 2)

/-- a well-formed name: non-empty, no NUL, no '+', no '{', no '}' -/
def WfName (n : Bytes) : Prop := n ≠ [] ∧ ∀ b ∈ n, b ≠ 0 ∧ b ≠ 43 ∧ b ≠ 123 ∧ b ≠ 125

/-- what the proofs need to know about the generated tables -/
structure TableFacts : Prop where
  names_nodup : (byVal.map (·.name)).Nodup
  perm : byName.Perm byVal
  names_wf : ∀ r ∈ byVal, WfName r.name
  one_byte : ∀ r ∈ byVal, ∀ c, r.name = [c] → r.keyval = c.toNat ∧ c.toNat < 128
  terminated : ∃ pre t, byVal = pre ++ [t] ∧ t.keyval = voidSymbol ∧ ∀ r ∈ pre, r.keyval ≠ voidSymbol
  mods : ∀ i n, modifierNames[i]? = some (some n) →
    modifierByName n = 1 <<< i ∧ WfName n ∧ kModifierMask.testBit i = true
  mask_lt : kModifierMask < 2 ^ 32

/-! ### checkers -/

def okByte (b : UInt8) : Bool :=
  let n := b.toNat
  !(n == 0 || n == 43 || n == 123 || n == 125)

def wfName (n : Bytes) : Bool := !n.isEmpty && n.all okByte

theorem okByte_spec {b : UInt8} (h : okByte b = true) : b ≠ 0 ∧ b ≠ 43 ∧ b ≠ 123 ∧ b ≠ 125 := by
  simp only [okByte, Bool.not_eq_true', Bool.or_eq_false_iff, beq_eq_false_iff_ne, ne_eq] at h
  refine ⟨?_, ?_, ?_, ?_⟩ <;> (intro hb; subst hb; simp at h)

theorem wfName_spec {n : Bytes} (h : wfName n = true) : WfName n := by
  simp only [wfName, Bool.and_eq_true, Bool.not_eq_true', List.all_eq_true] at h
  refine ⟨?_, fun b hb => okByte_spec (h.2 b hb)⟩
  intro hn; subst hn; simp at h

def oneByteOk (r : Row) : Bool :=
  match r.name with
  | [c] => r.keyval == c.toNat && decide (c.toNat < 128)
  | _ => true

theorem oneByteOk_spec {r : Row} (h : oneByteOk r = true) (c : UInt8) (hc : r.name = [c]) :
    r.keyval = c.toNat ∧ c.toNat < 128 := by
  simp only [oneByteOk, hc, Bool.and_eq_true, beq_iff_eq, decide_eq_true_eq] at h
  exact h

/-- the last row, and only the last row, has the terminator keyval -/
def terminatedOk (void : Nat) : List Row → Bool
  | [] => false
  | [t] => t.keyval == void
  | r :: rs => r.keyval != void && terminatedOk void rs

theorem terminatedOk_spec (void : Nat) : ∀ (rows : List Row), terminatedOk void rows = true →
    ∃ pre t, rows = pre ++ [t] ∧ t.keyval = void ∧ ∀ r ∈ pre, r.keyval ≠ void := by
  intro rows
  induction rows with
  | nil => intro h; simp [terminatedOk] at h
  | cons r rs ih =>
    intro h
    cases rs with
    | nil =>
      simp only [terminatedOk, beq_iff_eq] at h
      exact ⟨[], r, rfl, h, by simp⟩
    | cons r2 rs =>
      simp only [terminatedOk, Bool.and_eq_true, bne_iff_ne, ne_eq] at h
      obtain ⟨pre, t, he, ht, hp⟩ := ih (by simpa [terminatedOk] using h.2)
      refine ⟨r :: pre, t, by simp [he], ht, ?_⟩
      intro x hx
      cases hx with
      | head => exact h.1
      | tail _ hx => exact hp x hx

/-- every named slot: the by-name lookup gives back exactly its bit, the name is well-formed and the
bit survives `& kModifierMask` -/
def modsOkFrom (i : Nat) : List (Option Bytes) → Bool
  | [] => true
  | none :: ss => modsOkFrom (i + 1) ss
  | some n :: ss =>
    (modifierByName n == 1 <<< i && wfName n && kModifierMask.testBit i) && modsOkFrom (i + 1) ss

theorem modsOkFrom_spec : ∀ (sl : List (Option Bytes)) (i : Nat), modsOkFrom i sl = true →
    ∀ j n, sl[j]? = some (some n) →
      modifierByName n = 1 <<< (i + j) ∧ WfName n ∧ kModifierMask.testBit (i + j) = true := by
  intro sl
  induction sl with
  | nil => intro i _ j n hj; simp at hj
  | cons s ss ih =>
    intro i h j n hj
    cases j with
    | zero =>
      simp only [List.getElem?_cons_zero, Option.some.injEq] at hj
      subst hj
      simp only [modsOkFrom, Bool.and_eq_true, beq_iff_eq] at h
      exact ⟨h.1.1.1, wfName_spec h.1.1.2, h.1.2⟩
    | succ j =>
      simp only [List.getElem?_cons_succ] at hj
      have h' : modsOkFrom (i + 1) ss = true := by
        cases s with
        | none => simpa [modsOkFrom] using h
        | some m => simp only [modsOkFrom, Bool.and_eq_true] at h; exact h.2
      have := ih (i + 1) h' j n hj
      rw [show i + 1 + j = i + (j + 1) by omega] at this
      exact this

/-- sort key of a row for the distinct-names check -/
def nameKey (c : Nat) : Nat := packName (decodeRow c).name

theorem names_nodup_of_check (codes : List Nat) (f : Nat)
    (h : strictInc (msort f (codes.map nameKey)) = true) :
    ((codes.map decodeRow).map (·.name)).Nodup := by
  have h1 : (codes.map nameKey).Nodup := nodup_of_strictInc_msort f _ h
  have h2 : (codes.map (fun c => (decodeRow c).name)).Nodup :=
    nodup_map_of_nodup_map_comp (fun c => (decodeRow c).name) packName codes h1
  simpa [List.map_map, Function.comp_def] using h2

theorem perm_of_check (a b : List Nat) (f g : Nat) (h : msort f a = msort g b) :
    (a.map decodeRow).Perm (b.map decodeRow) :=
  (perm_of_msort_eq f g a b h).map decodeRow

/-! ### `NamedMask` and `fits` -/

theorem fits_of_named : ∀ (sl : List (Option Bytes)) (k : Nat),
    (∀ i, k.testBit i = true → ∃ n, sl[i]? = some (some n)) → fits sl k = true := by
  intro sl
  induction sl with
  | nil =>
    intro k h
    have : k = 0 := by
      apply Nat.eq_of_testBit_eq
      intro i
      cases hb : k.testBit i with
      | false => simp
      | true => obtain ⟨n, hn⟩ := h i hb; simp at hn
    simp [fits, this]
  | cons s ss ih =>
    intro k h
    simp only [fits, Bool.and_eq_true, Bool.or_eq_true, beq_iff_eq]
    constructor
    · by_cases hk : k % 2 = 0
      · exact Or.inl hk
      · right
        have hb : k.testBit 0 = true := by rw [Nat.testBit_zero]; simp; omega
        obtain ⟨n, hn⟩ := h 0 hb
        simp only [List.getElem?_cons_zero, Option.some.injEq] at hn
        simp [hn]
    · apply ih
      intro i hi
      have hb : k.testBit (i + 1) = true := by rw [Nat.testBit_add_one]; exact hi
      obtain ⟨n, hn⟩ := h (i + 1) hb
      exact ⟨n, by simpa using hn⟩

theorem named_of_fits : ∀ (sl : List (Option Bytes)) (k : Nat), fits sl k = true →
    ∀ i, k.testBit i = true → ∃ n, sl[i]? = some (some n) := by
  intro sl
  induction sl with
  | nil =>
    intro k h i hi
    simp only [fits, beq_iff_eq] at h
    subst h
    simp at hi
  | cons s ss ih =>
    intro k h i hi
    simp only [fits, Bool.and_eq_true, Bool.or_eq_true, beq_iff_eq] at h
    cases i with
    | zero =>
      rw [Nat.testBit_zero] at hi
      simp only [decide_eq_true_eq] at hi
      rcases h.1 with h0 | hs
      · omega
      · cases s with
        | none => simp at hs
        | some n => exact ⟨n, by simp⟩
    | succ i =>
      rw [Nat.testBit_add_one] at hi
      obtain ⟨n, hn⟩ := ih (k / 2) h.2 i hi
      exact ⟨n, by simpa using hn⟩

theorem namedMask_iff_fits (m : Nat) : NamedMask m ↔ fits modifierNames m = true :=
  ⟨fits_of_named modifierNames m, named_of_fits modifierNames m⟩

instance (m : Nat) : Decidable (NamedMask m) := decidable_of_iff _ (namedMask_iff_fits m).symm

instance (e : KeyEvent) : Decidable (InDomain e) := by unfold InDomain; infer_instance

end RimeModel.C19
