import RimeModel.C19.Facts
/-!
C19 — helper lemmas: splitting on a separator, the table scans, the modifier loop of `repr` against
the token loop of `Parse`, and the round-trip statements under `TableFacts`.
-/
namespace RimeModel.C19

/-! ### splitting -/

theorem splitOn_ne_nil (sep : UInt8) : ∀ t : Bytes, splitOn sep t ≠ [] := by
  intro t
  induction t with
  | nil => simp [splitOn]
  | cons c cs ih =>
    simp only [splitOn]
    split
    · simp
    · split <;> simp

theorem splitOn_of_not_mem (sep : UInt8) : ∀ t : Bytes, sep ∉ t → splitOn sep t = [t] := by
  intro t
  induction t with
  | nil => intro _; rfl
  | cons c cs ih =>
    intro h
    simp only [List.mem_cons, not_or] at h
    have hc : ¬ c = sep := fun e => h.1 e.symm
    simp [splitOn, hc, ih h.2]

theorem splitOn_append (sep : UInt8) : ∀ (t rest : Bytes), sep ∉ t →
    splitOn sep (t ++ sep :: rest) = t :: splitOn sep rest := by
  intro t
  induction t with
  | nil => intro rest _; simp [splitOn]
  | cons c cs ih =>
    intro rest h
    simp only [List.mem_cons, not_or] at h
    have hc : ¬ c = sep := fun e => h.1 e.symm
    simp [splitOn, hc, ih rest h.2]

/-- every token followed by the separator -/
def joinSep (sep : UInt8) (toks : List Bytes) : Bytes := toks.flatMap (· ++ [sep])

theorem joinSep_nil (sep : UInt8) : joinSep sep [] = [] := rfl

theorem joinSep_cons (sep : UInt8) (t : Bytes) (ts : List Bytes) :
    joinSep sep (t :: ts) = t ++ sep :: joinSep sep ts := by
  simp [joinSep]

theorem joinSep_append (sep : UInt8) (a b : List Bytes) :
    joinSep sep (a ++ b) = joinSep sep a ++ joinSep sep b := by
  simp [joinSep]

theorem splitOn_join (sep : UInt8) : ∀ (toks : List Bytes) (last : Bytes),
    (∀ t ∈ toks, sep ∉ t) → sep ∉ last → splitOn sep (joinSep sep toks ++ last) = toks ++ [last] := by
  intro toks
  induction toks with
  | nil => intro last _ hl; simp [joinSep_nil, splitOn_of_not_mem sep last hl]
  | cons t ts ih =>
    intro last h hl
    rw [joinSep_cons, List.append_assoc, List.cons_append, splitOn_append sep t _ (h t (by simp))]
    rw [ih last (fun x hx => h x (by simp [hx])) hl]
    rfl

theorem splitFirst_append (sep : UInt8) : ∀ (t rest : Bytes), sep ∉ t →
    splitFirst sep (t ++ sep :: rest) = some (t, rest) := by
  intro t
  induction t with
  | nil => intro rest _; simp [splitFirst]
  | cons c cs ih =>
    intro rest h
    simp only [List.mem_cons, not_or] at h
    have hc : ¬ c = sep := fun e => h.1 e.symm
    simp [splitFirst, hc, ih rest h.2]

theorem cstr_of_no_nul : ∀ (t : Bytes), (∀ b ∈ t, b ≠ 0) → cstr t = t := by
  intro t
  induction t with
  | nil => intro _; rfl
  | cons c cs ih =>
    intro h
    have hc : c ≠ 0 := h c (by simp)
    have := ih (fun b hb => h b (by simp [hb]))
    have hc' : (c != 0) = true := by simp [hc]
    simp only [cstr] at this ⊢
    simp [List.takeWhile, hc', this]

/-! ### table scans -/

theorem scan_found (void : Nat) (r : Row) : ∀ (pre tail : List Row),
    (∀ x ∈ pre, x.keyval ≠ void) → r ∈ pre → (pre.map (·.name)).Nodup →
    scanByName void r.name (pre ++ tail) = r.keyval := by
  intro pre
  induction pre with
  | nil => intro tail _ hr _; simp at hr
  | cons x pre ih =>
    intro tail hv hr hn
    have hx : x.keyval ≠ void := hv x (by simp)
    simp only [List.map_cons, List.nodup_cons, List.mem_map, not_exists, not_and] at hn
    simp only [List.cons_append, scanByName, hx, if_false]
    by_cases hxn : x.name = r.name
    · simp only [hxn, if_true]
      cases hr with
      | head => rfl
      | tail _ hr' => exact absurd hxn.symm (hn.1 r hr')
    · simp only [hxn, if_false]
      cases hr with
      | head => exact absurd rfl hxn
      | tail _ hr' => exact ih tail (fun y hy => hv y (by simp [hy])) hr' hn.2

theorem scan_not_found (void : Nat) (name : Bytes) : ∀ (rows : List Row),
    (∀ r ∈ rows, r.keyval ≠ void → r.name ≠ name) → scanByName void name rows = void := by
  intro rows
  induction rows with
  | nil => intro _; rfl
  | cons x rows ih =>
    intro h
    simp only [scanByName]
    by_cases hx : x.keyval = void
    · simp [hx]
    · have := h x (by simp) hx
      simp only [hx, if_false, this, if_false]
      exact ih (fun r hr => h r (by simp [hr]))

theorem modScan_not_found (name : Bytes) : ∀ (sl : List (Option Bytes)) (i : Nat),
    (∀ s ∈ sl, s ≠ some name) → modScan name i sl = 0 := by
  intro sl
  induction sl with
  | nil => intro _ _; rfl
  | cons s ss ih =>
    intro i h
    have hs := h s (by simp)
    simp only [modScan, hs, if_false]
    exact ih (i + 1) (fun x hx => h x (by simp [hx]))

theorem keycodeByName_of_row (F : TableFacts) (r : Row) (hr : r ∈ byVal) (hv : r.keyval ≠ voidSymbol) :
    keycodeByName r.name = r.keyval := by
  obtain ⟨pre, t, he, ht, hp⟩ := F.terminated
  have hn := F.names_nodup
  rw [he] at hr hn
  simp only [List.mem_append, List.mem_singleton] at hr
  have hrp : r ∈ pre := by
    rcases hr with h | h
    · exact h
    · subst h; exact absurd ht hv
  have hnp : (pre.map (·.name)).Nodup := by
    rw [List.map_append] at hn
    exact (List.nodup_append.mp hn).1
  unfold keycodeByName
  rw [he]
  exact scan_found voidSymbol r pre [t] hp hrp hnp

/-- the name `repr` prints for a named key code, and the row it comes from -/
theorem nameByKeycode_of_named (F : TableFacts) (k : Nat) (hk : Named k) :
    ∃ r, r ∈ byVal ∧ r.keyval = k ∧ nameByKeycode k = some r.name := by
  obtain ⟨r0, hr0, hk0⟩ := hk
  have hr0' : r0 ∈ byName := F.perm.mem_iff.mpr hr0
  cases hf : byName.find? (fun r => decide (r.keyval = k)) with
  | none =>
    have := List.find?_eq_none.mp hf r0 hr0'
    simp [hk0] at this
  | some r =>
    have h1 := List.find?_some hf
    have h2 := List.mem_of_find?_eq_some hf
    simp only [decide_eq_true_eq] at h1
    exact ⟨r, F.perm.mem_iff.mp h2, h1, by simp [nameByKeycode, hf]⟩

/-! ### the modifier loop of `repr` -/

/-- names of the set bits of `k` along a slot list, ascending -/
def modTokens : List (Option Bytes) → Nat → List Bytes
  | [], _ => []
  | s :: ss, k =>
    (if k % 2 = 1 then (match s with | some n => [n] | none => []) else []) ++ modTokens ss (k / 2)

theorem modTokens_zero : ∀ (sl : List (Option Bytes)), modTokens sl 0 = [] := by
  intro sl
  induction sl with
  | nil => rfl
  | cons s ss ih => simp [modTokens, ih]

theorem mem_modTokens : ∀ (sl : List (Option Bytes)) (k : Nat) (t : Bytes),
    t ∈ modTokens sl k → ∃ j : Nat, sl[j]? = some (some t) := by
  intro sl
  induction sl with
  | nil => intro k t h; simp [modTokens] at h
  | cons s ss ih =>
    intro k t h
    simp only [modTokens, List.mem_append] at h
    rcases h with h | h
    · split at h
      · cases s with
        | none => simp at h
        | some n =>
          simp only [List.mem_singleton] at h
          exact ⟨0, by simp [h]⟩
      · simp at h
    · obtain ⟨j, hj⟩ := ih (k / 2) t h
      exact ⟨j + 1, by simpa using hj⟩

theorem lowestBitSlot_shift : ∀ (sl : List (Option Bytes)) (i k : Nat), k % 2 = 1 →
    lowestBitSlot (k <<< i) sl = (sl[i]?).join := by
  intro sl
  induction sl with
  | nil => intro i k _; simp [lowestBitSlot]
  | cons s ss ih =>
    intro i k hk
    cases i with
    | zero =>
      have hk0 : ¬ k = 0 := by omega
      simp [lowestBitSlot, hk0, hk]
    | succ i =>
      have h2 : k <<< (i + 1) = 2 * (k <<< i) := by
        rw [Nat.shiftLeft_eq, Nat.shiftLeft_eq, Nat.pow_succ];
        rw [← Nat.mul_assoc, Nat.mul_comm]
      have hpos : 0 < k <<< i := by
        rw [Nat.shiftLeft_eq]
        exact Nat.mul_pos (by omega) (Nat.two_pow_pos i)
      have h0 : ¬ (2 * (k <<< i) = 0) := by omega
      have h1 : ¬ (2 * (k <<< i) % 2 = 1) := by omega
      have h3 : 2 * (k <<< i) / 2 = k <<< i := by omega
      simp only [lowestBitSlot, h2, h0, h1, if_false, h3, List.getElem?_cons_succ]
      exact ih i k hk

theorem reprMods_eq : ∀ (fuel i k : Nat), k < 2 ^ fuel →
    reprMods fuel i k = joinSep 43 (modTokens (modifierNames.drop i) k) := by
  intro fuel
  induction fuel with
  | zero =>
    intro i k hk
    have : k = 0 := by simpa using hk
    subst this
    simp [reprMods, modTokens_zero, joinSep_nil]
  | succ fuel ih =>
    intro i k hk
    by_cases hk0 : k = 0
    · subst hk0
      simp [reprMods, modTokens_zero, joinSep_nil]
    · have hlt : k / 2 < 2 ^ fuel := by
        rw [Nat.pow_succ] at hk; omega
      have hrec := ih (i + 1) (k / 2) hlt
      simp only [reprMods, hk0, if_false, hrec]
      cases hs : modifierNames[i]? with
      | none =>
        have hlen : modifierNames.length ≤ i := by
          simpa using hs
        have hd1 : modifierNames.drop i = [] := List.drop_eq_nil_of_le hlen
        have hd2 : modifierNames.drop (i + 1) = [] := List.drop_eq_nil_of_le (by omega)
        by_cases hb : k % 2 = 1
        · simp [hb, modifierName, lowestBitSlot_shift _ i k hb, hs, hd1, hd2, modTokens, joinSep_nil]
        · simp [hb, hd1, hd2, modTokens, joinSep_nil]
      | some s =>
        have hlen : i < modifierNames.length := by
          have := List.getElem?_eq_some_iff.mp hs
          exact this.1
        have hd : modifierNames.drop i = s :: modifierNames.drop (i + 1) := by
          rw [List.drop_eq_getElem_cons hlen]
          have := List.getElem?_eq_some_iff.mp hs
          rw [this.2]
        rw [hd]
        by_cases hb : k % 2 = 1
        · cases s with
          | none =>
            simp [hb, modifierName, lowestBitSlot_shift _ i k hb, hs, modTokens]
          | some n =>
            simp [hb, modifierName, lowestBitSlot_shift _ i k hb, hs, modTokens, joinSep_cons]
        · simp [hb, modTokens]

/-! ### the token loop of `Parse` against the modifier loop of `repr` -/

theorem parseTokens_cons (acc : Nat) (t : Bytes) (ts : List Bytes) (h : ts ≠ []) :
    parseTokens acc (t :: ts) =
      if modifierByName (cstr t) = 0 then none else parseTokens (acc ||| modifierByName (cstr t)) ts := by
  cases ts with
  | nil => exact absurd rfl h
  | cons a b => simp [parseTokens]

theorem parseTokens_mods : ∀ (sl : List (Option Bytes)) (i acc k : Nat) (last : Bytes),
    (∀ j n, sl[j]? = some (some n) → modifierByName n = 1 <<< (i + j) ∧ WfName n) →
    fits sl k = true → acc < 2 ^ i →
    parseTokens acc (modTokens sl k ++ [last]) = parseTokens (acc + 2 ^ i * k) [last] := by
  intro sl
  induction sl with
  | nil =>
    intro i acc k last _ hf _
    simp only [fits, beq_iff_eq] at hf
    subst hf
    simp [modTokens]
  | cons s ss ih =>
    intro i acc k last hsl hf hacc
    simp only [fits, Bool.and_eq_true, Bool.or_eq_true, beq_iff_eq] at hf
    have hss : ∀ j n, ss[j]? = some (some n) → modifierByName n = 1 <<< (i + 1 + j) ∧ WfName n := by
      intro j n hj
      have := hsl (j + 1) n (by simpa using hj)
      rw [show i + 1 + j = i + (j + 1) by omega]
      exact this
    have hp : (2 : Nat) ^ (i + 1) = 2 * 2 ^ i := by rw [Nat.pow_succ, Nat.mul_comm]
    by_cases hb : k % 2 = 1
    · -- bit set: the slot is named, one token is consumed
      have hsome : s.isSome = true := by
        rcases hf.1 with h | h
        · omega
        · exact h
      obtain ⟨n, hn⟩ := Option.isSome_iff_exists.mp hsome
      subst hn
      obtain ⟨hmod, hwf⟩ := hsl 0 n (by simp)
      have hcs : cstr n = n := cstr_of_no_nul n (fun b hb => (hwf.2 b hb).1)
      have hne : modTokens ss (k / 2) ++ [last] ≠ [] := by simp
      simp only [modTokens, hb, if_true, List.cons_append, List.nil_append]
      rw [parseTokens_cons _ _ _ hne, hcs, hmod]
      have hshift : (1 : Nat) <<< (i + 0) = 2 ^ i := by simp [Nat.shiftLeft_eq]
      have hpos : 0 < 2 ^ i := Nat.two_pow_pos i
      have hor : acc ||| 2 ^ i = acc + 2 ^ i := by
        have := Nat.two_pow_add_eq_or_of_lt hacc 1
        rw [Nat.mul_one] at this
        rw [Nat.or_comm, ← this, Nat.add_comm]
      rw [hshift, hor]
      have hz : ¬ (2 ^ i = 0) := by omega
      simp only [hz, if_false]
      rw [ih (i + 1) (acc + 2 ^ i) (k / 2) last hss hf.2 (by rw [hp]; omega)]
      congr 1
      have hk : k = 2 * (k / 2) + 1 := by omega
      generalize k / 2 = q at hk
      subst hk
      rw [hp, Nat.mul_add, Nat.mul_one, Nat.mul_assoc, Nat.mul_left_comm]
      omega
    · have hne : ¬ (k % 2 = 1) := hb
      simp only [modTokens, hne, if_false, List.nil_append]
      rw [ih (i + 1) acc (k / 2) last hss hf.2 (by rw [hp]; omega)]
      congr 1
      have hk : k = 2 * (k / 2) := by omega
      generalize k / 2 = q at hk
      subst hk
      rw [hp, Nat.mul_assoc, Nat.mul_left_comm]

end RimeModel.C19
