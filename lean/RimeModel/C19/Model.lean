import RimeModel.Gen.KeyTables
/-!
C19 — model of `rime::KeyEvent` / `rime::KeySequence` textual forms (src/rime/key_event.cc) and the
four table lookups of src/rime/key_table.cc, ported line by line.  Executable definitions only.

Conventions
* C++ `std::string` = `Bytes` (`List UInt8`); embedded NULs are kept, and every place where the
  code hands `token.c_str()` to a `strcmp`-based lookup sees only the bytes before the first NUL
  (`cstr`).
* A C `int` (keycode, modifier) is carried as its 32-bit two's-complement bit pattern in a `Nat`
  (`0 ≤ · < 2^32`); the two places where the code compares signed (`keycode_ <= 0xffff`, the range
  test of `is_unescaped_character`) and the `char → int` sign extension of the size-1 shortcut
  (x86-64: `char` is signed) are written out on the pattern.
* The tables come from `RimeModel.Gen.KeyTables`, regenerated from the working tree on every run.
-/
namespace RimeModel.C19

abbrev Bytes := List UInt8

structure KeyEvent where
  keycode : Nat
  modifier : Nat
  deriving DecidableEq, Repr

/-- one row of `keys_by_keyval` / `keys_by_name` with `key_names + offset` resolved -/
structure Row where
  keyval : Nat
  name : Bytes
  deriving DecidableEq, Repr

/-! ### decoding of the generated tables -/

/-- `len` bytes of a little-endian base-256 number -/
def unpackName : Nat → Nat → Bytes
  | 0, _ => []
  | n + 1, p => UInt8.ofNat (p % 256) :: unpackName n (p / 256)

/-- inverse direction, used only as a sort key by the table checkers -/
def packName : Bytes → Nat
  | [] => 0
  | b :: bs => b.toNat + 256 * packName bs

/-- row code = ((packedName * 2^16) + nameLen) * 2^32 + keyval -/
def decodeRow (c : Nat) : Row :=
  ⟨c % 4294967296, unpackName ((c / 4294967296) % 65536) (c / 281474976710656)⟩

def decodeSlot (c : Nat) : Bytes := unpackName (c % 65536) (c / 65536)

/-- `keys_by_keyval[]` -/
def byVal : List Row := Gen.byValCodes.map decodeRow
/-- `keys_by_name[]` -/
def byName : List Row := Gen.byNameCodes.map decodeRow
/-- `modifier_name[]` (`none` = NULL) -/
def modifierNames : List (Option Bytes) := Gen.modifierCodes.map (·.map decodeSlot)

def voidSymbol : Nat := Gen.voidSymbol
def kModifierMask : Nat := Gen.kModifierMask

/-! ### key_table.cc lookups -/

/-- what `strcmp` sees of `s.c_str()` -/
def cstr (b : Bytes) : Bytes := b.takeWhile (fun x => x != 0)

/-- `for (p = keys_by_keyval; p->keyval != XK_VoidSymbol; ++p) if (!strcmp(name, …)) return p->keyval;
return XK_VoidSymbol;` — running off the end of the array (no terminator row) is undefined in C++;
it is modelled as "not found" and shown unreachable by `C19.byVal_terminated`. -/
def scanByName (void : Nat) (name : Bytes) : List Row → Nat
  | [] => void
  | r :: rs => if r.keyval = void then void else if r.name = name then r.keyval else scanByName void name rs

/-- `RimeGetKeycodeByName` -/
def keycodeByName (name : Bytes) : Nat := scanByName voidSymbol name byVal

/-- `RimeGetKeyName`: first row of `keys_by_name` with that keyval -/
def nameByKeycode (k : Nat) : Option Bytes := (byName.find? (fun r => r.keyval = k)).map (·.name)

/-- loop of `RimeGetModifierByName`, `i` = current slot index -/
def modScan (name : Bytes) : Nat → List (Option Bytes) → Nat
  | _, [] => 0
  | i, s :: ss => if s = some name then 1 <<< i else modScan name (i + 1) ss

/-- `RimeGetModifierByName` (0 = not found) -/
def modifierByName (name : Bytes) : Nat := modScan name 0 modifierNames

/-- loop of `RimeGetModifierName`: the slot of the lowest set bit (which may be NULL), NULL when
`modifier` is 0 or its lowest set bit lies beyond the table -/
def lowestBitSlot : Nat → List (Option Bytes) → Option Bytes
  | _, [] => none
  | m, s :: ss => if m = 0 then none else if m % 2 = 1 then s else lowestBitSlot (m / 2) ss

/-- `RimeGetModifierName` -/
def modifierName (m : Nat) : Option Bytes := lowestBitSlot m modifierNames

/-! ### KeyEvent::repr -/

/-- `for (int i = 0; k; ++i, k >>= 1) { if (!(k & 1)) continue; name = RimeGetModifierName(k << i);
if (name) modifiers << name << '+'; }` — `fuel` bounds the number of iterations (k < 2^31) -/
def reprMods : Nat → Nat → Nat → Bytes
  | 0, _, _ => []
  | fuel + 1, i, k =>
    if k = 0 then [] else
    (if k % 2 = 1 then
      match modifierName (k <<< i) with
      | some n => n ++ [43]
      | none => []
     else []) ++ reprMods fuel (i + 1) (k / 2)

def hexDigit (n : Nat) : UInt8 := if n < 10 then UInt8.ofNat (48 + n) else UInt8.ofNat (87 + n)

/-- digits of `n` in base 16, most significant first, `fuel` digits at most ([] for 0) -/
def hexDigitsAux : Nat → Nat → Bytes → Bytes
  | 0, _, acc => acc
  | fuel + 1, n, acc => if n = 0 then acc else hexDigitsAux fuel (n / 16) (hexDigit (n % 16) :: acc)

/-- `std::setfill('0') << std::setw(w) << std::hex << n` for a 32-bit `n` -/
def hexPadded (w n : Nat) : Bytes :=
  let d := hexDigitsAux 8 n []
  let d := if d.isEmpty then [48] else d
  List.replicate (w - d.length) 48 ++ d

/-- `KeyEvent::repr()` -/
def repr (e : KeyEvent) : Bytes :=
  let mods := if e.modifier = 0 then [] else reprMods 32 0 (e.modifier &&& kModifierMask)
  match nameByKeycode e.keycode with
  | some name => mods ++ name
  | none =>
    -- signed `keycode_ <= 0xffff`: also true of every negative keycode (pattern ≥ 2^31)
    if e.keycode ≤ 0xffff ∨ 2147483648 ≤ e.keycode then mods ++ [48, 120] ++ hexPadded 4 e.keycode
    else if e.keycode ≤ 0xffffff then mods ++ [48, 120] ++ hexPadded 6 e.keycode
    else [40, 117, 110, 107, 110, 111, 119, 110, 41]  -- "(unknown)", modifiers dropped

/-! ### KeyEvent::Parse -/

/-- the pieces of `text` between occurrences of `sep` (always at least one piece) -/
def splitOn (sep : UInt8) : Bytes → List Bytes
  | [] => [[]]
  | c :: cs =>
    if c = sep then [] :: splitOn sep cs
    else match splitOn sep cs with
      | t :: ts => (c :: t) :: ts
      | [] => [[c]]

/-- the `while (find('+'))` loop followed by the key-name lookup, on the '+'-separated tokens -/
def parseTokens (acc : Nat) : List Bytes → Option KeyEvent
  | [] => none
  | [last] =>
    let k := keycodeByName (cstr last)
    if k = voidSymbol then none else some ⟨k, acc⟩
  | t :: ts =>
    let m := modifierByName (cstr t)
    if m = 0 then none else parseTokens (acc ||| m) ts

/-- `static_cast<int>(repr[0])` with signed `char` -/
def signExtend (c : UInt8) : Nat := if c.toNat < 128 then c.toNat else c.toNat + 4294967040

/-- `KeyEvent::Parse`: `none` = returns false -/
def parse (text : Bytes) : Option KeyEvent :=
  match text with
  | [] => none
  | [c] => some ⟨signExtend c, 0⟩
  | _ => parseTokens 0 (splitOn 43 text)

/-! ### KeySequence -/

/-- `is_unescaped_character` -/
def isUnescaped (e : KeyEvent) : Bool :=
  e.modifier = 0 && 0x20 ≤ e.keycode && e.keycode ≤ 0x7e && e.keycode ≠ 0x7b && e.keycode ≠ 0x7d

/-- one event of `KeySequence::repr()` -/
def seqChunk (e : KeyEvent) : Bytes :=
  let k := repr e
  if k.length = 1 then k
  else if isUnescaped e then [UInt8.ofNat e.keycode]
  else 123 :: (k ++ [125])

/-- `KeySequence::repr()` -/
def seqRepr (es : List KeyEvent) : Bytes := es.flatMap seqChunk

/-- `s.find(sep)`: the bytes before the first `sep` and the bytes after it -/
def splitFirst (sep : UInt8) : Bytes → Option (Bytes × Bytes)
  | [] => none
  | c :: cs =>
    if c = sep then some ([], cs)
    else match splitFirst sep cs with
      | some (a, b) => some (c :: a, b)
      | none => none

/-- the `for` loop of `KeySequence::Parse`; one unit of fuel per iteration -/
def seqParseAux : Nat → Bytes → Option (List KeyEvent)
  | _, [] => some []
  | 0, _ :: _ => none
  | fuel + 1, c :: rest =>
    if c = 123 ∧ rest ≠ [] then
      match splitFirst 125 rest with
      | none => none   -- "unparalleled brace"
      | some (tok, rest') =>
        match parse tok with
        | none => none
        | some e => (seqParseAux fuel rest').map (e :: ·)
    else
      match parse [c] with
      | none => none
      | some e => (seqParseAux fuel rest).map (e :: ·)

/-- `KeySequence::Parse`: `none` = returns false.  Every iteration consumes at least one byte, so
`text.length` iterations always suffice. -/
def seqParse (text : Bytes) : Option (List KeyEvent) := seqParseAux text.length text

end RimeModel.C19
