import RimeModel.C19.Lemmas
/-!
C19 — the round-trip and rejection statements, proved for any tables that satisfy `TableFacts`.
`RimeModel/Props/C19.lean` discharges `TableFacts` for the tables generated from the working tree.
-/
namespace RimeModel.C19

/-! ### vocabulary of the rejection theorem -/

/-- the bytes after the last '+' of `text` (what `Parse` looks up as the key name) -/
def lastToken (text : Bytes) : Bytes := (splitOn 43 text).getLast?.getD []

/-- the '+'-terminated pieces of `text` (what `Parse` looks up as modifier names) -/
def modifierTokens (text : Bytes) : List Bytes := (splitOn 43 text).dropLast

/-- `n` is the name of some key other than the terminator -/
def IsKeyName (n : Bytes) : Prop := ∃ r ∈ byVal, r.keyval ≠ voidSymbol ∧ r.name = n

/-- `n` is the name in some slot of `modifier_name[]` -/
def IsModifierName (n : Bytes) : Prop := some n ∈ modifierNames

instance (n : Bytes) : Decidable (IsKeyName n) := by unfold IsKeyName; infer_instance
instance (n : Bytes) : Decidable (IsModifierName n) := by unfold IsModifierName; infer_instance

/-! ### shape of `repr` on the domain -/

theorem modTokens_eq_nil : ∀ (sl : List (Option Bytes)) (k : Nat),
    fits sl k = true → modTokens sl k = [] → k = 0 := by
  intro sl
  induction sl with
  | nil => intro k hf _; simpa [fits] using hf
  | cons s ss ih =>
    intro k hf h
    simp only [fits, Bool.and_eq_true, Bool.or_eq_true, beq_iff_eq] at hf
    simp only [modTokens, List.append_eq_nil_iff] at h
    have hq := ih (k / 2) hf.2 h.2
    by_cases hb : k % 2 = 1
    · rcases hf.1 with h0 | hs
      · omega
      · cases s with
        | none => simp at hs
        | some n => simp [hb] at h
    · omega

theorem repr_eq (F : TableFacts) (k m : Nat) (hk : Named k) (hm : NamedMask m) :
    ∃ r, r ∈ byVal ∧ r.keyval = k ∧
      repr ⟨k, m⟩ = joinSep 43 (modTokens modifierNames m) ++ r.name := by
  obtain ⟨r, hr, hrk, hname⟩ := nameByKeycode_of_named F k hk
  refine ⟨r, hr, hrk, ?_⟩
  have hand : m &&& kModifierMask = m := by
    apply Nat.eq_of_testBit_eq
    intro i
    rw [Nat.testBit_and]
    cases hb : m.testBit i with
    | false => simp
    | true =>
      obtain ⟨n, hn⟩ := hm i hb
      simp [(F.mods i n hn).2.2]
  have hlt : m < 2 ^ 32 := by
    have h1 : m &&& kModifierMask ≤ kModifierMask := Nat.and_le_right
    rw [hand] at h1
    exact Nat.lt_of_le_of_lt h1 F.mask_lt
  simp only [repr, hname]
  by_cases h0 : m = 0
  · subst h0
    simp [modTokens_zero, joinSep_nil]
  · simp [h0, hand, reprMods_eq 32 0 m hlt]

theorem modTokens_wf (F : TableFacts) (m : Nat) : ∀ t ∈ modTokens modifierNames m, WfName t := by
  intro t ht
  obtain ⟨j, hj⟩ := mem_modTokens _ _ _ ht
  exact (F.mods j t hj).2.1

theorem mem_joinSep {sep : UInt8} {toks : List Bytes} {b : UInt8} (h : b ∈ joinSep sep toks) :
    b = sep ∨ ∃ t ∈ toks, b ∈ t := by
  simp only [joinSep, List.mem_flatMap, List.mem_append, List.mem_singleton] at h
  obtain ⟨t, ht, hb⟩ := h
  rcases hb with hb | hb
  · exact Or.inr ⟨t, ht, hb⟩
  · exact Or.inl hb

theorem repr_no_brace (F : TableFacts) (k m : Nat) (hk : Named k) (hm : NamedMask m) :
    ∀ b ∈ repr ⟨k, m⟩, b ≠ 123 ∧ b ≠ 125 := by
  obtain ⟨r, hr, _, hrepr⟩ := repr_eq F k m hk hm
  intro b hb
  rw [hrepr, List.mem_append] at hb
  rcases hb with hb | hb
  · rcases mem_joinSep hb with hb | ⟨t, ht, hbt⟩
    · subst hb; exact ⟨by decide, by decide⟩
    · have := (modTokens_wf F m t ht).2 b hbt
      exact ⟨this.2.2.1, this.2.2.2⟩
  · have := (F.names_wf r hr).2 b hb
    exact ⟨this.2.2.1, this.2.2.2⟩

/-! ### KeyEvent round trip -/

theorem parse_long (text : Bytes) (h : 2 ≤ text.length) :
    parse text = parseTokens 0 (splitOn 43 text) := by
  match text, h with
  | a :: b :: t, _ => rfl

theorem parse_repr_event_of (F : TableFacts) (k m : Nat)
    (hk : Named k) (hv : k ≠ voidSymbol) (hm : NamedMask m) :
    parse (repr ⟨k, m⟩) = some ⟨k, m⟩ := by
  obtain ⟨r, hr, hrk, hrepr⟩ := repr_eq F k m hk hm
  have hfit := fits_of_named modifierNames m hm
  have hwf := F.names_wf r hr
  have htoks := modTokens_wf F m
  have hcs : cstr r.name = r.name := cstr_of_no_nul r.name (fun b hb => (hwf.2 b hb).1)
  have hkey : keycodeByName r.name = k := by
    rw [keycodeByName_of_row F r hr (by rw [hrk]; exact hv), hrk]
  have hgen : parseTokens 0 (splitOn 43 (repr ⟨k, m⟩)) = some ⟨k, m⟩ := by
    rw [hrepr, splitOn_join 43 _ _ (fun t ht hmem => ((htoks t ht).2 43 hmem).2.1 rfl)
      (fun hmem => ((hwf.2 43 hmem).2.1 rfl))]
    rw [parseTokens_mods modifierNames 0 0 m r.name
      (fun j n hj => by have := F.mods j n hj; simpa using ⟨this.1, this.2.1⟩) hfit (by simp)]
    simp [parseTokens, hcs, hkey, hv]
  by_cases hlen : 2 ≤ (repr ⟨k, m⟩).length
  · rw [parse_long _ hlen]; exact hgen
  · rw [hrepr] at hlen ⊢
    have hnl : 1 ≤ r.name.length := by
      cases hn : r.name with
      | nil => exact absurd hn hwf.1
      | cons a t => simp
    cases htk : modTokens modifierNames m with
    | cons t ts =>
      exfalso
      rw [htk, joinSep_cons] at hlen
      simp only [List.length_append, List.length_cons] at hlen
      omega
    | nil =>
      have hm0 : m = 0 := modTokens_eq_nil _ _ hfit htk
      rw [htk] at hlen
      rw [joinSep_nil, List.nil_append] at hlen ⊢
      match hn : r.name with
      | [] => exact absurd hn hwf.1
      | [c] =>
        obtain ⟨h1, h2⟩ := F.one_byte r hr c hn
        have hkc : c.toNat = k := by rw [← h1, hrk]
        have hk128 : k < 128 := by omega
        simp [parse, signExtend, hkc, hm0, hk128]
      | a :: b :: t => simp [hn] at hlen

/-! ### KeySequence round trip -/

theorem seqChunk_length_pos (e : KeyEvent) : 1 ≤ (seqChunk e).length := by
  unfold seqChunk
  simp only
  split
  · omega
  · split <;> simp

theorem seqParseAux_chunk (F : TableFacts) (e : KeyEvent) (he : InDomain e) (f : Nat) (rest : Bytes) :
    seqParseAux (f + 1) (seqChunk e ++ rest) = (seqParseAux f rest).map (e :: ·) := by
  obtain ⟨k, m⟩ := e
  obtain ⟨hk, hv, hm⟩ := he
  simp only at hk hv hm
  have hrt := parse_repr_event_of F k m hk hv hm
  have hnb := repr_no_brace F k m hk hm
  unfold seqChunk
  simp only
  by_cases h1 : (repr ⟨k, m⟩).length = 1
  · simp only [h1, if_true]
    obtain ⟨c, hc⟩ := List.length_eq_one_iff.mp h1
    rw [hc] at hrt hnb ⊢
    have hcb : ¬ c = 123 := (hnb c (by simp)).1
    simp [seqParseAux, hcb, hrt]
  · simp only [h1, if_false]
    by_cases hu : isUnescaped ⟨k, m⟩ = true
    · simp only [hu, if_true]
      simp only [isUnescaped, Bool.and_eq_true, decide_eq_true_eq] at hu
      obtain ⟨⟨⟨⟨hm0, hlo⟩, hhi⟩, hb1⟩, hb2⟩ := hu
      have hkn : (UInt8.ofNat k).toNat = k := by
        rw [UInt8.toNat_ofNat']; omega
      have hcb : ¬ (UInt8.ofNat k = 123) := by
        intro h
        have := congrArg UInt8.toNat h
        rw [hkn] at this
        exact hb1 (by simpa using this)
      have hse : signExtend (UInt8.ofNat k) = k := by
        simp only [signExtend, hkn]
        split <;> omega
      simp [seqParseAux, hcb, parse, hse, hm0]
    · simp only [hu]
      have hsf := splitFirst_append 125 (repr ⟨k, m⟩) rest (fun hmem => (hnb 125 hmem).2 rfl)
      simp [seqParseAux, hsf, hrt]

theorem seqParseAux_repr (F : TableFacts) : ∀ (es : List KeyEvent), (∀ e ∈ es, InDomain e) →
    ∀ f, es.length ≤ f → seqParseAux f (seqRepr es) = some es := by
  intro es
  induction es with
  | nil => intro _ f _; cases f <;> simp [seqRepr, seqParseAux]
  | cons e es ih =>
    intro h f hf
    cases f with
    | zero => simp at hf
    | succ f =>
      have : seqRepr (e :: es) = seqChunk e ++ seqRepr es := by simp [seqRepr]
      rw [this, seqParseAux_chunk F e (h e (by simp)) f _,
        ih (fun x hx => h x (by simp [hx])) f (by simpa using hf)]
      rfl

theorem length_le_seqRepr : ∀ (es : List KeyEvent), es.length ≤ (seqRepr es).length := by
  intro es
  induction es with
  | nil => simp
  | cons e es ih =>
    have : seqRepr (e :: es) = seqChunk e ++ seqRepr es := by simp [seqRepr]
    rw [this, List.length_append, List.length_cons]
    have := seqChunk_length_pos e
    omega

theorem parse_repr_seq_of (F : TableFacts) (es : List KeyEvent) (h : ∀ e ∈ es, InDomain e) :
    seqParse (seqRepr es) = some es :=
  seqParseAux_repr F es h _ (length_le_seqRepr es)

/-! ### rejection -/

theorem parseTokens_none : ∀ (toks : List Bytes) (acc : Nat),
    (¬ IsKeyName (cstr (toks.getLast?.getD [])) ∨ ∃ t ∈ toks.dropLast, ¬ IsModifierName (cstr t)) →
    parseTokens acc toks = none := by
  intro toks
  induction toks with
  | nil => intro acc _; rfl
  | cons t ts ih =>
    intro acc h
    cases ts with
    | nil =>
      rcases h with h | ⟨x, hx, _⟩
      · simp only [List.getLast?_singleton, Option.getD_some] at h
        have : keycodeByName (cstr t) = voidSymbol := by
          unfold keycodeByName
          apply scan_not_found
          intro r hr hv hn
          exact h ⟨r, hr, hv, hn⟩
        simp [parseTokens, this]
      · simp at hx
    | cons t2 ts =>
      rw [parseTokens_cons acc t (t2 :: ts) (by simp)]
      by_cases hmod : IsModifierName (cstr t)
      · split
        · rfl
        · apply ih
          rcases h with h | ⟨x, hx, hxm⟩
          · left
            simpa [List.getLast?_cons_cons] using h
          · simp only [List.dropLast_cons_cons, List.mem_cons] at hx
            rcases hx with hx | hx
            · subst hx; exact absurd hmod hxm
            · exact Or.inr ⟨x, hx, hxm⟩
      · have : modifierByName (cstr t) = 0 := by
          unfold modifierByName
          apply modScan_not_found
          intro s hs he
          subst he
          exact hmod hs
        simp [this]

theorem parse_unknown_fails_of (text : Bytes) (h2 : 2 ≤ text.length)
    (h : ¬ IsKeyName (cstr (lastToken text)) ∨ ∃ t ∈ modifierTokens text, ¬ IsModifierName (cstr t)) :
    parse text = none := by
  rw [parse_long text h2]
  exact parseTokens_none _ 0 h

end RimeModel.C19
