/-!
C19 — a merge sort on `List Nat` written by structural recursion on a fuel argument, so that it
reduces inside the kernel (`decide +kernel`); core's `List.mergeSort` is compiled by well-founded
recursion and does not.  Used only to check table facts in n·log n:

* `nodup_of_strictInc_msort` : if the sorted list is strictly increasing, the list has no duplicates;
* `perm_of_msort_eq`        : if two lists sort to the same list, they are permutations of each other.

Neither lemma needs the result to be sorted — only that `msort` permutes its input (`msort_perm`),
which holds for every fuel.
-/
namespace RimeModel.C19

def merge : Nat → List Nat → List Nat → List Nat
  | 0, l, r => l ++ r
  | _ + 1, [], r => r
  | _ + 1, l, [] => l
  | f + 1, a :: l, b :: r => if a ≤ b then a :: merge f l (b :: r) else b :: merge f (a :: l) r

def halve : List Nat → List Nat × List Nat
  | [] => ([], [])
  | [a] => ([a], [])
  | a :: b :: t => let p := halve t; (a :: p.1, b :: p.2)

def msort : Nat → List Nat → List Nat
  | 0, l => l
  | _ + 1, [] => []
  | _ + 1, [a] => [a]
  | f + 1, l => let p := halve l; merge l.length (msort f p.1) (msort f p.2)

/-- adjacent elements strictly increase -/
def strictInc : List Nat → Bool
  | a :: b :: t => a < b && strictInc (b :: t)
  | _ => true

theorem merge_perm : ∀ (f : Nat) (l r : List Nat), (merge f l r).Perm (l ++ r) := by
  intro f
  induction f with
  | zero => intro l r; simp [merge]
  | succ f ih =>
    intro l r
    cases l with
    | nil => simp [merge]
    | cons a l =>
      cases r with
      | nil => simp [merge]
      | cons b r =>
        simp only [merge]
        split
        · exact (ih l (b :: r)).cons a
        · have h1 := (ih (a :: l) r).cons b
          exact h1.trans (List.perm_middle (a := b) (l₁ := a :: l) (l₂ := r)).symm

theorem halve_perm : ∀ (n : Nat) (l : List Nat), l.length ≤ n → ((halve l).1 ++ (halve l).2).Perm l := by
  intro n
  induction n with
  | zero => intro l h; cases l with
    | nil => simp [halve]
    | cons a t => simp at h
  | succ n ih =>
    intro l h
    match l, h with
    | [], _ => simp [halve]
    | [a], _ => simp [halve]
    | a :: b :: t, h =>
      have ht : t.length ≤ n := by simp at h; omega
      have h1 := ih t ht
      simp only [halve]
      -- a :: p1 ++ b :: p2  ~  a :: b :: (p1 ++ p2)
      have h2 : ((a :: (halve t).1) ++ (b :: (halve t).2)).Perm (a :: b :: ((halve t).1 ++ (halve t).2)) := by
        have := List.perm_middle (a := b) (l₁ := (halve t).1) (l₂ := (halve t).2)
        exact this.cons a
      exact h2.trans ((h1.cons b).cons a)

theorem msort_perm : ∀ (f : Nat) (l : List Nat), (msort f l).Perm l := by
  intro f
  induction f with
  | zero => intro l; simp [msort]
  | succ f ih =>
    intro l
    match l with
    | [] => simp [msort]
    | [a] => simp [msort]
    | a :: b :: t =>
      simp only [msort]
      refine (merge_perm _ _ _).trans ?_
      refine ((ih _).append (ih _)).trans ?_
      exact halve_perm _ _ (Nat.le_refl _)

theorem strictInc_pairwise : ∀ (l : List Nat), strictInc l = true → l.Pairwise (· < ·) := by
  intro l
  induction l with
  | nil => intro _; exact List.Pairwise.nil
  | cons a t ih =>
    intro h
    cases t with
    | nil => simp
    | cons b t =>
      simp only [strictInc, Bool.and_eq_true, decide_eq_true_eq] at h
      have pt := ih h.2
      rw [List.pairwise_cons] at pt ⊢
      refine ⟨?_, List.pairwise_cons.mpr pt⟩
      intro x hx
      cases hx with
      | head => exact h.1
      | tail _ hx => exact Nat.lt_trans h.1 (pt.1 x hx)

theorem nodup_of_strictInc (l : List Nat) (h : strictInc l = true) : l.Nodup :=
  (strictInc_pairwise l h).imp (fun h => Nat.ne_of_lt h)

theorem nodup_of_strictInc_msort (f : Nat) (l : List Nat) (h : strictInc (msort f l) = true) : l.Nodup :=
  (msort_perm f l).nodup_iff.mp (nodup_of_strictInc _ h)

theorem perm_of_msort_eq (f g : Nat) (a b : List Nat) (h : msort f a = msort g b) : a.Perm b :=
  (msort_perm f a).symm.trans (h ▸ msort_perm g b)

/-- `Nodup` of an image implies `Nodup` of the list mapped through any factor of the map -/
theorem nodup_map_of_nodup_map_comp {α β γ : Type} (f : α → β) (g : β → γ) :
    ∀ (l : List α), (l.map (fun x => g (f x))).Nodup → (l.map f).Nodup := by
  intro l
  induction l with
  | nil => intro _; exact List.Pairwise.nil
  | cons a t ih =>
    intro h
    simp only [List.map_cons, List.nodup_cons, List.mem_map, not_exists, not_and] at h ⊢
    refine ⟨?_, ih h.2⟩
    intro x hx hfx
    exact h.1 x hx (by rw [hfx])

end RimeModel.C19
