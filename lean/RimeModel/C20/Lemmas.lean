import RimeModel.C20.Model
namespace RimeModel.C20

theorem cStrncpy_length (dst src : Bytes) (n : Nat) (h : n ≤ dst.length) :
    (cStrncpy dst src n).length = dst.length := by
  simp [cStrncpy]; omega

theorem cStrncpy_drop (dst src : Bytes) (n : Nat) :
    (cStrncpy dst src n).drop n = dst.drop n := by
  unfold cStrncpy
  have hl : (src.take n ++ List.replicate (n - src.length) 0).length = n := by simp; omega
  rw [List.drop_append_of_le_length (by omega), List.drop_of_length_le (by omega)]
  simp

/-- pointwise reading of `strncpy`: below `min |src| n` the source, then NULs up to `n` -/
theorem cStrncpy_get_lt (dst src : Bytes) (n i : Nat) (hi : i < n) (his : i < src.length) :
    (cStrncpy dst src n)[i]? = src[i]? := by
  unfold cStrncpy
  rw [List.append_assoc, List.getElem?_append_left (by simp; omega)]
  simp [List.getElem?_take, hi]

theorem cStrncpy_get_pad (dst src : Bytes) (n i : Nat) (hi : i < n) (his : src.length ≤ i) :
    (cStrncpy dst src n)[i]? = some 0 := by
  unfold cStrncpy
  rw [List.append_assoc, List.getElem?_append_right (by simp; omega),
      List.getElem?_append_left (by simp; omega)]
  simp [List.getElem?_replicate]; omega

/-- if `b` agrees with `src` below `k` and holds a NUL at `k`, its C string is `src.take k` -/
theorem cstr_of_prefix (k : Nat) : ∀ (b src : Bytes), k ≤ src.length →
    (∀ i, i < k → b[i]? = src[i]?) → b[k]? = some 0 → (∀ x ∈ src, x ≠ 0) → cstr b = src.take k := by
  induction k with
  | zero =>
    intro b src _ _ h0 _
    cases b with
    | nil => simp at h0
    | cons x bs => simp at h0; simp [cstr, h0]
  | succ k ih =>
    intro b src hk h1 h2 hsrc
    cases src with
    | nil => simp at hk
    | cons s ss =>
      cases b with
      | nil => simp at h2
      | cons x bs =>
        have hx : x = s := by simpa using h1 0 (by omega)
        have hs : s ≠ 0 := hsrc s (by simp)
        have ih' := ih bs ss (by simpa using hk) (fun i hi => by simpa using h1 (i+1) (by omega))
          (by simpa using h2) (fun y hy => hsrc y (by simp [hy]))
        simp only [cstr] at ih' ⊢
        simp [List.takeWhile_cons, hx, hs, ih']

end RimeModel.C20
