/-
C20 — model of the "copy a string into a caller buffer of given size" sites of the C API.

A site is the list of statements that touch the destination buffer, in the shape the
translator (/verif/gen/c20_sites.py) extracts from src/rime_api_impl.h and src/rime_api.cc.
-/
namespace RimeModel.C20

abbrev Bytes := List UInt8

/-- ISO C `strncpy(dst, src, n)` on a destination image `dst` (with `n ≤ dst.length`);
`src` is the content of the NUL-terminated source (so it contains no NUL itself):
copies `min |src| n` bytes and pads with NUL up to `n`; bytes from `n` on are untouched. -/
def cStrncpy (dst src : Bytes) (n : Nat) : Bytes :=
  (src.take n ++ List.replicate (n - src.length) 0) ++ dst.drop n

/-- the C string a buffer holds: bytes before the first NUL -/
def cstr (b : Bytes) : Bytes := b.takeWhile (fun x => x != 0)

/-- size expressions that occur at the sites: `buffer_size - sub` (size_t arithmetic) -/
inductive Stmt where
  /-- `strncpy(dst, src, buffer_size - sub)` -/
  | strncpy (sub : Nat)
  /-- `dst[buffer_size - sub] = '\0'`, `guarded` = wrapped in `if (buffer_size > 0)` or equivalent -/
  | setNul (sub : Nat) (guarded : Bool)
  /-- `snprintf(dst, buffer_size - sub, "%s", src)` -/
  | snprintf (sub : Nat)
  /-- a statement on the destination the translator does not understand (fails closed) -/
  | unknown
  deriving Repr, DecidableEq

structure Site where
  fn : String
  stmts : List Stmt
  deriving Repr, DecidableEq

def Stmt.run (src : Bytes) (n : Nat) (buf : Bytes) : Stmt → Bytes
  | .strncpy sub => cStrncpy buf src (n - sub)
  | .setNul sub _ => buf.set (n - sub) 0
  | .snprintf sub =>
      -- writes min(|src|, m-1) bytes and a NUL when m = n - sub > 0, nothing when m = 0
      if n - sub = 0 then buf
      else (src.take (n - sub - 1) ++ [0]) ++ buf.drop (min src.length (n - sub - 1) + 1)
  | .unknown => buf

def Site.run (s : Site) (src : Bytes) (n : Nat) (buf : Bytes) : Bytes :=
  s.stmts.foldl (fun b st => st.run src n b) buf

/-- the statement shapes proved safe: a copy of at most `n` bytes followed by a NUL stored at
`n-1`, or a single `snprintf` bounded by `n` -/
def Site.safeShape (s : Site) : Bool :=
  match s.stmts with
  | [.strncpy a, .setNul 1 _] => a ≤ 1
  | [.snprintf 0] => true
  | _ => false

end RimeModel.C20
