import RimeModel.C20.Model
import RimeModel.C20.Lemmas
/-! helper lemmas: each safe statement shape meets the buffer contract `Ok` -/
namespace RimeModel.C20

/-- what the property demands of the buffer image `b` left by a copy of `src` with size `n`
into the image `buf`: a NUL within the first n bytes; nothing written beyond n; the C string held is a
(possibly truncated) prefix of the source, and the whole source when it fits -/
def Ok (src buf : Bytes) (n : Nat) (b : Bytes) : Prop :=
  (∃ i, i < n ∧ b[i]? = some 0) ∧
  b.drop n = buf.drop n ∧ b.length = buf.length ∧
  (cstr b) <+: src ∧
  (src.length < n → cstr b = src)

theorem ok_of_pointwise (src buf b : Bytes) (n k : Nat) (hsrc : ∀ x ∈ src, x ≠ 0)
    (hk : k = min src.length (n - 1)) (h1 : 1 ≤ n)
    (hpre : ∀ i, i < k → b[i]? = src[i]?) (hnul : b[k]? = some 0)
    (hdrop : b.drop n = buf.drop n) (hlen : b.length = buf.length) : Ok src buf n b := by
  have hc : cstr b = src.take k := cstr_of_prefix k b src (by omega) hpre hnul hsrc
  refine ⟨⟨k, by omega, hnul⟩, hdrop, hlen, ?_, ?_⟩
  · rw [hc]; exact List.take_prefix _ _
  · intro hlt
    rw [hc, List.take_of_length_le (by omega)]

theorem strncpy_setNul_ok (a : Nat) (ha : a ≤ 1)
    (src : Bytes) (hsrc : ∀ x ∈ src, x ≠ 0) (buf : Bytes) (n : Nat) (h1 : 1 ≤ n) (hn : n ≤ buf.length) :
    Ok src buf n ((cStrncpy buf src (n - a)).set (n - 1) 0) := by
  have hlen1 : (cStrncpy buf src (n - a)).length = buf.length := cStrncpy_length _ _ _ (by omega)
  apply ok_of_pointwise src buf _ n (min src.length (n - 1)) hsrc rfl h1
  · intro i hi
    rw [List.getElem?_set_ne (by omega)]
    exact cStrncpy_get_lt _ _ _ _ (by omega) (by omega)
  · by_cases hc : src.length < n - 1
    · rw [Nat.min_eq_left (by omega), List.getElem?_set_ne (by omega)]
      by_cases hc2 : src.length < n - a
      · exact cStrncpy_get_pad _ _ _ _ hc2 (by omega)
      · omega
    · rw [Nat.min_eq_right (by omega), List.getElem?_set_self (by omega)]
  · rw [List.drop_set_of_lt (by omega)]
    have := cStrncpy_drop buf src (n - a)
    have hd : ∀ (l : Bytes), l.drop n = (l.drop (n - a)).drop a := by
      intro l; rw [List.drop_drop]; congr 1; omega
    rw [hd, this, ← hd]
  · simp [hlen1]

theorem snprintf_ok
    (src : Bytes) (hsrc : ∀ x ∈ src, x ≠ 0) (buf : Bytes) (n : Nat) (h1 : 1 ≤ n) (hn : n ≤ buf.length) :
    Ok src buf n ((src.take (n - 1) ++ [0]) ++ buf.drop (min src.length (n - 1) + 1)) := by
  have htl : (src.take (n - 1)).length = min src.length (n - 1) := by simp; omega
  apply ok_of_pointwise src buf _ n (min src.length (n - 1)) hsrc rfl h1
  · intro i hi
    rw [List.append_assoc, List.getElem?_append_left (by omega)]
    simp [List.getElem?_take]; omega
  · rw [List.append_assoc, List.getElem?_append_right (by omega)]
    simp [htl]
  · have hl : (src.take (n - 1) ++ [0]).length = min src.length (n - 1) + 1 := by simp; omega
    rw [List.drop_append, List.drop_of_length_le (by omega), List.drop_drop, hl]
    simp only [List.nil_append]
    congr 1; omega
  · simp; omega


end RimeModel.C20
