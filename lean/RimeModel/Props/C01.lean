import RimeModel.C01.Lemmas
import RimeModel.Gen.ApiGuards
import RimeModel.Session.Sites
import RimeModel.Session.WellFormed
import RimeModel.Session.ComposeOK
/-!
C01 — no API call sequence crashes, hangs or corrupts memory.  Property theorems only.  CLAIMED PARTIAL:
the theorems cover (1) the guard table of the API entry points and the get/free ownership pairs, both
regenerated from rime_api_impl.h on every run, and (2) the partial operations of the modelled context /
processor / API code in every reachable session state.  Memory safety, exception safety and termination of
everything outside the model (dictionary translators, OpenCC, regex, switcher, component constructors on
malformed schemas) is exhibited only by the sanitizer runs of the check.
-/
namespace C01
open RimeModel.C01 RimeModel.Session

/-- guards dominate uses ⇒ an entry point never dereferences a null session / context / out-parameter,
whatever subset of them is null -/
theorem guarded_no_null_deref (e : ApiEntry) (h : e.guarded = true) (nulls : List String) (v : String) :
    exec nulls e.events ≠ .nullDeref v :=
  guardedFrom_exec nulls e.events [] (by intro w hw; simp at hw) h v

/-- GENERATED-FACT obligation: every API function taking a session id (or freeing a handed-out struct)
checks the session, the context and its pointer out-parameters before using them -/
theorem all_api_guarded : ∀ e ∈ Gen.apiEntries, e.guarded = true := by decide

/-- `api_total` for the null layer: for unknown / destroyed / zero session ids (GetSession returns null)
and null out-parameters, every generated entry point returns (early or at the end) without a null
dereference -/
theorem api_total (e : ApiEntry) (he : e ∈ Gen.apiEntries) (nulls : List String) (v : String) :
    exec nulls e.events ≠ .nullDeref v :=
  guarded_no_null_deref e (all_api_guarded e he) nulls v

/-- GENERATED-FACT obligation: every get/free pair frees every field it allocates, deletes no field twice
and clears the struct afterwards -/
theorem all_free_pairs_ok : ∀ fp ∈ Gen.freePairs, fp.ok = true := by decide

/-- **freed exactly once**: for an ok pair, `free` passes to `delete[]` exactly the allocations the struct
owns under the allocated fields (as a multiset: each once), and a second `free` deletes nothing -/
theorem free_once (fp : FreePair) (h : fp.ok = true) (o : Obj) (ho : ∀ e ∈ o.owned, e.1 ∈ fp.allocFields) :
    (freeObj fp o).2.Perm (o.owned.map (·.2)) ∧ (freeObj fp (freeObj fp o).1).2 = [] := by
  simp only [FreePair.ok, Bool.and_eq_true, List.all_eq_true, decide_eq_true_eq] at h
  obtain ⟨⟨hclears, hsub⟩, hnd⟩ := h
  constructor
  · unfold freeObj
    apply List.Perm.map
    rw [List.perm_iff_count]
    intro e
    rw [count_grouped o.owned e fp.freeFields hnd]
    by_cases he : e ∈ o.owned
    · have : e.1 ∈ fp.freeFields := by
        have := hsub e.1 (ho e he)
        simpa using this
      simp [this]
    · have : List.count e o.owned = 0 := List.count_eq_zero.mpr he
      simp [this]
  · unfold freeObj
    simp [hclears]

theorem free_once_generated (fp : FreePair) (hfp : fp ∈ Gen.freePairs) (o : Obj)
    (ho : ∀ e ∈ o.owned, e.1 ∈ fp.allocFields) :
    (freeObj fp o).2.Perm (o.owned.map (·.2)) ∧ (freeObj fp (freeObj fp o).1).2 = [] :=
  free_once fp (all_free_pairs_ok fp hfp) o ho

/-- **no partial operation of the modelled code fails**: in every state reachable by any finite sequence of
API calls (for every environment with `ComposeSpec` and page size ≥ 1), whenever the code reaches one of the
listed partial operations (its guard holds), the operation's C++ precondition holds -/
theorem no_partial_op_fails (env : Env) (hps : 0 < env.pageSize) (hrc : ComposeSpec env.recompose)
    (c0 : Ctx) (h0 : c0.input = [] ∧ c0.caret = 0 ∧ c0.comp.segs = [] ∧ c0.comp.input = []) (ops : List Op) (site : Site)
    (hg : site.guard env (runOps env c0 ops)) : site.pre env (runOps env c0 ops) := by
  have hinv : Inv (runOps env c0 ops) :=
    runOps_inv hrc ops ⟨⟨by rw [h0.1, h0.2.1]; exact Nat.le_refl _, by rw [h0.2.2.1]; exact SegsOK.nil⟩,
      by rw [h0.2.2.2, h0.1]; exact Nat.le_refl _⟩
  generalize runOps env c0 ops = c at hinv hg
  have hc := hinv.caret_le
  cases site with
  | pushInputInsert => exact hc
  | popInputErase len => show c.caret - len ≤ c.input.length; omega
  | deleteInputErase len => exact hc
  | spellerPrevChar =>
    show c.caret - 1 < c.input.length
    have : ¬ c.caret = 0 := fun h => hg (Or.inl h)
    omega
  | uniqueCandidateDeref =>
    obtain ⟨hm, g, hg1, hp⟩ := hg
    refine ⟨g, ?_⟩
    unfold Ctx.hasMenu at hm
    rw [hg1] at hm
    cases hl : g.menu with
    | none => simp [hl] at hm
    | some l =>
      simp only [hl] at hm
      have hne : l ≠ [] := by simpa using hm
      have hsel := hinv.segs_ok.getLast hg1 l hl hne
      have : ∃ cd, l[g.selIdx]? = some cd := ⟨l[g.selIdx], List.getElem?_eq_getElem hsel⟩
      obtain ⟨cd, hcd⟩ := this
      exact ⟨cd, hg1, by unfold Seg.selected Seg.candAt; rw [hl]; exact hcd⟩
  | pageDivision => exact Nat.ne_of_gt hps
  | highlightedOnPage =>
    intro m hm
    have hwf := (view_wf hps hinv).menu_wf m hm
    exact ⟨m.cands[m.highlighted]'hwf.2.1, List.getElem?_eq_getElem hwf.2.1⟩

/-- the same for the concrete Compose port (hypothesis discharged) -/
theorem no_partial_op_fails_concrete (env : Env) (hps : 0 < env.pageSize) (cfg : SegCfg) (henv : env.recompose = compose cfg)
    (c0 : Ctx) (h0 : c0.input = [] ∧ c0.caret = 0 ∧ c0.comp.segs = [] ∧ c0.comp.input = []) (ops : List Op) (site : Site)
    (hg : site.guard env (runOps env c0 ops)) : site.pre env (runOps env c0 ops) :=
  no_partial_op_fails env hps (by rw [henv]; exact compose_spec cfg) c0 h0 ops site hg

/-- non-vacuity of the guard semantics: an entry that uses the session before checking it does fault -/
example : exec ["session"] [.use "session", .check "session"] = .nullDeref "session" := by decide
example : exec ["session"] [.check "session", .use "session"] = .returnedEarly := by decide
/-- non-vacuity of free_once: a struct holding two allocations under freed fields -/
example :
    let fp : FreePair := { getFn := "g", freeFn := "f", allocFields := ["a", "b[]"], freeFields := ["b[]", "a"], clears := true }
    (freeObj fp { owned := [("a", 1), ("b[]", 2), ("b[]", 3)] }).2 = [2, 3, 1] ∧ fp.ok = true := by decide

end C01
