import RimeModel.C01.Lemmas
import RimeModel.Gen.ApiGuards
import RimeModel.Session.Sites
import RimeModel.Session.WellFormed
import RimeModel.Session.ComposeOK
import RimeModel.Session.GeoProc
import RimeModel.Session.GeoLoop
import RimeModel.Session.PunctComposeGeo
import RimeModel.Session.PunctComposeLoop
import RimeModel.Session.RecogComposeGeo
import RimeModel.Session.RecogPattern
import RimeModel.Session.Shape
import RimeModel.Session.GeoPrevProc
import RimeModel.Session.GeoPrevCx
/-!
C01 — no API call sequence crashes, hangs or corrupts memory.  Property theorems only.  CLAIMED PARTIAL:
the theorems cover (1) the guard table of the API entry points and the get/free ownership pairs, both
regenerated from rime_api_impl.h on every run, (2) the partial operations of the modelled context /
processor / API code in every reachable session state, (3) the geometry of the composition in every reachable
state (segments tile a prefix of the composition's input, so every `substr(seg.start, seg.end - seg.start)` is
in range; hypothesis `TranslateGeo` on the translators), and (4) termination of the segmentation loop of
ConcreteEngine::CalculateSegmentation with the abc + fallback segmentors.  Memory safety, exception safety and termination of
everything outside the model (dictionary translators, OpenCC, regex, switcher, component constructors on
malformed schemas) is exhibited only by the sanitizer runs of the check.
-/
namespace C01
open RimeModel.C01 RimeModel.Session

/-- guards dominate uses ⇒ an entry point never dereferences a null session / context / out-parameter,
whatever subset of them is null -/
theorem guarded_no_null_deref (e : ApiEntry) (h : e.guarded = true) (nulls : List String) (v : String) :
    exec nulls e.events ≠ .nullDeref v :=
  guardedFrom_exec nulls e.events [] (by intro w hw; simp at hw) h v

/-- GENERATED-FACT obligation: every API function taking a session id (or freeing a handed-out struct)
checks the session, the context and its pointer out-parameters before using them -/
theorem all_api_guarded : ∀ e ∈ Gen.apiEntries, e.guarded = true := by decide

/-- `api_total` for the null layer: for unknown / destroyed / zero session ids (GetSession returns null)
and null out-parameters, every generated entry point returns (early or at the end) without a null
dereference -/
theorem api_total (e : ApiEntry) (he : e ∈ Gen.apiEntries) (nulls : List String) (v : String) :
    exec nulls e.events ≠ .nullDeref v :=
  guarded_no_null_deref e (all_api_guarded e he) nulls v

/-- GENERATED-FACT obligation: every get/free pair frees every field it allocates, deletes no field twice
and clears the struct afterwards -/
theorem all_free_pairs_ok : ∀ fp ∈ Gen.freePairs, fp.ok = true := by decide

/-- **freed exactly once**: for an ok pair, `free` passes to `delete[]` exactly the allocations the struct
owns under the allocated fields (as a multiset: each once), and a second `free` deletes nothing -/
theorem free_once (fp : FreePair) (h : fp.ok = true) (o : Obj) (ho : ∀ e ∈ o.owned, e.1 ∈ fp.allocFields) :
    (freeObj fp o).2.Perm (o.owned.map (·.2)) ∧ (freeObj fp (freeObj fp o).1).2 = [] := by
  simp only [FreePair.ok, Bool.and_eq_true, List.all_eq_true, decide_eq_true_eq] at h
  obtain ⟨⟨hclears, hsub⟩, hnd⟩ := h
  constructor
  · unfold freeObj
    apply List.Perm.map
    rw [List.perm_iff_count]
    intro e
    rw [count_grouped o.owned e fp.freeFields hnd]
    by_cases he : e ∈ o.owned
    · have : e.1 ∈ fp.freeFields := by
        have := hsub e.1 (ho e he)
        simpa using this
      simp [this]
    · have : List.count e o.owned = 0 := List.count_eq_zero.mpr he
      simp [this]
  · unfold freeObj
    simp [hclears]

theorem free_once_generated (fp : FreePair) (hfp : fp ∈ Gen.freePairs) (o : Obj)
    (ho : ∀ e ∈ o.owned, e.1 ∈ fp.allocFields) :
    (freeObj fp o).2.Perm (o.owned.map (·.2)) ∧ (freeObj fp (freeObj fp o).1).2 = [] :=
  free_once fp (all_free_pairs_ok fp hfp) o ho

/-- **no partial operation of the modelled code fails**: in every state reachable by any finite sequence of
API calls (for every environment with `ComposeSpec` and page size ≥ 1), whenever the code reaches one of the
listed partial operations (its guard holds), the operation's C++ precondition holds -/
theorem no_partial_op_fails (env : Env) (hps : 0 < env.pageSize) (hrc : ComposeSpec env.recompose)
    (c0 : Ctx) (h0 : c0.input = [] ∧ c0.caret = 0 ∧ c0.comp.segs = [] ∧ c0.comp.input = []) (ops : List Op) (site : Site)
    (hg : site.guard env (runOps env c0 ops)) : site.pre env (runOps env c0 ops) := by
  have hinv : Inv (runOps env c0 ops) :=
    runOps_inv hrc ops ⟨⟨by rw [h0.1, h0.2.1]; exact Nat.le_refl _, by rw [h0.2.2.1]; exact SegsOK.nil⟩,
      by rw [h0.2.2.2, h0.1]; exact Nat.le_refl _⟩
  generalize runOps env c0 ops = c at hinv hg
  have hc := hinv.caret_le
  cases site with
  | pushInputInsert => exact hc
  | popInputErase len => show c.caret - len ≤ c.input.length; omega
  | deleteInputErase len => exact hc
  | spellerPrevChar =>
    show c.caret - 1 < c.input.length
    have : ¬ c.caret = 0 := fun h => hg (Or.inl h)
    omega
  | uniqueCandidateDeref =>
    obtain ⟨hm, g, hg1, hp⟩ := hg
    refine ⟨g, ?_⟩
    unfold Ctx.hasMenu at hm
    rw [hg1] at hm
    cases hl : g.menu with
    | none => simp [hl] at hm
    | some l =>
      simp only [hl] at hm
      have hne : l ≠ [] := by simpa using hm
      have hsel := hinv.segs_ok.getLast hg1 l hl hne
      have : ∃ cd, l[g.selIdx]? = some cd := ⟨l[g.selIdx], List.getElem?_eq_getElem hsel⟩
      obtain ⟨cd, hcd⟩ := this
      exact ⟨cd, hg1, by unfold Seg.selected Seg.candAt; rw [hl]; exact hcd⟩
  | pageDivision => exact Nat.ne_of_gt hps
  | highlightedOnPage =>
    intro m hm
    have hwf := (view_wf hps hinv).menu_wf m hm
    exact ⟨m.cands[m.highlighted]'hwf.2.1, List.getElem?_eq_getElem hwf.2.1⟩

/-- the same for the concrete Compose port (hypothesis discharged) -/
theorem no_partial_op_fails_concrete (env : Env) (hps : 0 < env.pageSize) (cfg : SegCfg) (henv : env.recompose = compose cfg)
    (c0 : Ctx) (h0 : c0.input = [] ∧ c0.caret = 0 ∧ c0.comp.segs = [] ∧ c0.comp.input = []) (ops : List Op) (site : Site)
    (hg : site.guard env (runOps env c0 ops)) : site.pre env (runOps env c0 ops) :=
  no_partial_op_fails env hps (by rw [henv]; exact compose_spec cfg) c0 h0 ops site hg

/-- non-vacuity of the guard semantics: an entry that uses the session before checking it does fault -/
example : exec ["session"] [.use "session", .check "session"] = .nullDeref "session" := by decide
example : exec ["session"] [.check "session", .use "session"] = .returnedEarly := by decide
/-- non-vacuity of free_once: a struct holding two allocations under freed fields -/
example :
    let fp : FreePair := { getFn := "g", freeFn := "f", allocFields := ["a", "b[]"], freeFields := ["b[]", "a"], clears := true }
    (freeObj fp { owned := [("a", 1), ("b[]", 2), ("b[]", 3)] }).2 = [2, 3, 1] ∧ fp.ok = true := by decide

/-! ### geometry of the composition: every `substr(seg.start, seg.end - seg.start)` is in range, and the
segmentation loop terminates -/

/-- **the geometric invariant holds in every reachable state** (generic form).  For every environment whose
recomposition function maps a contiguous segment list to a contiguous one lying within the new composition
input (`ComposeGeoSpec`), every finite sequence of API calls from a session without segments leaves a
composition whose segments tile a prefix of the composition's input: the first starts at 0, each starts
where the previous one ends, `start ≤ end` for each, every candidate of a segment's menu ends at or after
the segment's start, and every `end` is at most the length of the composition's input.
`NoPrevMatch env` (auto_select off, or a max_code_length set) restricts the theorem to schemas on which
Speller::AutoSelectPreviousMatch returns at once; for auto_select schemas without a code-length bound the
statement is FALSE without a further restriction (`geometry_fails_prev_match_punct`, `geometry_fails_prev_match_raw`
below: the function pushes back a copied segment without comparing positions); what holds for every schema is
`find_earlier_match_geometry` and `speller_key_geometry_aligned`. -/
theorem geometry_reachable (env : Env) (hrc : ComposeGeoSpec env.recompose) (hnp : NoPrevMatch env) (c0 : Ctx)
    (h0 : c0.comp.segs = []) (ops : List Op) : GeoInv (runOps env c0 ops) :=
  runOps_geo hrc hnp ops (geoInv_of_no_segs h0)

/-- **the same for the modelled engine**: `ComposeGeoSpec` is discharged for the concrete port of
`ConcreteEngine::Compose` (Reset, abc + fallback segmentors, TranslateSegments) with any alphabets and any
translation oracle satisfying `TranslateGeo` (candidates produced for a segment with `start ≤ end` end at or
after the segment's start — an ASSUMPTION about the translators, which are outside the model). -/
theorem geometry_reachable_concrete (env : Env) (cfg : SegCfg) (henv : env.recompose = compose cfg)
    (htr : TranslateGeo cfg) (hnp : NoPrevMatch env) (c0 : Ctx) (h0 : c0.comp.segs = []) (ops : List Op) :
    GeoInv (runOps env c0 ops) :=
  geometry_reachable env (by rw [henv]; exact compose_geo_spec cfg htr) hnp c0 h0 ops

/-- **the geometric invariant for schemas with the punctuation components.**  A schema is the pair of environments of
the `full_shape` option (`runOpsS`, Session/Shape.lean); `ComposeGeoSpec` is discharged for the Compose with
abc_segmentor, punct_segmentor, fallback_segmentor, punct_translator + oracle + filter (`composeP`) for every
punctuation mapping, every oracle satisfying `TranslateGeo` and every filter that only removes or reorders candidates
(`FilterSub`); the punctuator processor (alternating, confirming, committing, pairing) keeps the invariant.  In every
state reachable from a session without segments the segments tile a prefix of the composition's input. -/
theorem geometry_reachable_punct (envOf : Bool → Env) (cfg : Bool → PSegCfg)
    (henv : ∀ b, (envOf b).recompose = composeP (cfg b)) (htr : ∀ b, TranslateGeo (cfg b).toSegCfg)
    (hf : ∀ b, FilterSub (cfg b).filter) (hnp : ∀ b, NoPrevMatch (envOf b)) (c0 : Ctx) (h0 : c0.comp.segs = [])
    (ops : List Op) : GeoInv (runOpsS envOf c0 ops) :=
  runOpsS_geo (fun b => by rw [henv b]; exact composeP_geo_spec (cfg b) (htr b) (hf b)) hnp ops (geoInv_of_no_segs h0)

/-- non-vacuity: `a,/a` with `,` and `/` punctuation keys is four contiguous segments (abc, punct, punct, abc) -/
example :
    let m : List (UInt8 × PunctDef) := [(44, .unique [0xef, 0xbc, 0x8c]), (47, .alt [[0xe3, 0x80, 0x81], [47]])]
    let cfg : PSegCfg := { alphabet := [97], initials := [97], finals := [], delimiters := [],
                           translate := fun _ g => [Cand.mk [65] [] [] g.start g.stop true], punct := m }
    let env : Env := { recompose := composeP cfg }
    (runOpsS (fun _ => env) {} [.setInput [97, 44, 47, 97]]).comp.segs.map (fun g => (g.start, g.stop, g.tags.punct)) =
      [(0, 1, false), (1, 2, true), (2, 3, true), (3, 4, false)] := by
  decide

/-- **the geometric invariant for schemas with a key binder.**  Every API call of a schema whose processor list holds the
key binder (`runOpsK`: redirected keys go through the nested chain and the post-processor, option actions recompose, a
binding may change `full_shape`) keeps the segments tiling a prefix of the composition's input — for every binding list and
every `switches:` section, with `ComposeGeoSpec` discharged for the Compose with the punctuation components (`composeP`,
which with an empty mapping is the Compose of a schema without punctuator).  The re-entrant ProcessKey needs no fuel: see
`C02.keybinder_nested_chain`. -/
theorem geometry_reachable_keybinder (envOf : Bool → Env) (cfg : Bool → PSegCfg)
    (henv : ∀ b, (envOf b).recompose = composeP (cfg b)) (htr : ∀ b, TranslateGeo (cfg b).toSegCfg)
    (hf : ∀ b, FilterSub (cfg b).filter) (hnp : ∀ b, NoPrevMatch (envOf b)) (c0 : Ctx) (h0 : c0.comp.segs = [])
    (ops : List Op) : GeoInv (runOpsK envOf c0 ops) :=
  runOpsK_geo (fun b => by rw [henv b]; exact composeP_geo_spec (cfg b) (htr b) (hf b)) hnp ops (geoInv_of_no_segs h0)

/-- **the geometric invariant for every timed history** (schemas with an ascii composer and / or a key binder): whatever the
delays between the calls — so whichever Shift / Control taps meet the ascii composer's 500 ms deadline — the segments
tile a prefix of the composition's input (the ascii composer confirms, commits, clears and pushes input only through
context operations that keep the invariant). -/
theorem geometry_reachable_timed (envOf : Bool → Env) (cfg : Bool → PSegCfg)
    (henv : ∀ b, (envOf b).recompose = composeP (cfg b)) (htr : ∀ b, TranslateGeo (cfg b).toSegCfg)
    (hf : ∀ b, FilterSub (cfg b).filter) (hnp : ∀ b, NoPrevMatch (envOf b)) (c0 : Ctx) (h0 : c0.comp.segs = [])
    (ops : List (Nat × Op)) : GeoInv (runOpsT envOf c0 ops) :=
  runOpsT_geo (fun b => by rw [henv b]; exact composeP_geo_spec (cfg b) (htr b) (hf b)) hnp ops (geoInv_of_no_segs h0)

/-- **AsciiComposer's `ctx->PushInput(ch)` inserts within the input** in every state reachable by a timed history: the
caret is at most the input's length (inline editing pushes at the caret, which the navigator may have moved) -/
theorem ascii_pushinput_in_range (envOf : Bool → Env) (hrc : ∀ b, ComposeSpec (envOf b).recompose) (c0 : Ctx)
    (h0 : c0.input = [] ∧ c0.caret = 0 ∧ c0.comp.segs = [] ∧ c0.comp.input = []) (ops : List (Nat × Op)) :
    (runOpsT envOf c0 ops).caret ≤ (runOpsT envOf c0 ops).input.length :=
  (runOpsT_inv hrc ops ⟨⟨by rw [h0.1, h0.2.1]; exact Nat.le_refl _, by rw [h0.2.2.1]; exact SegsOK.nil⟩,
    by rw [h0.2.2.2, h0.1]; exact Nat.le_refl _⟩).caret_le

/-- non-vacuity: `a b`, caret moved left, Shift_L (inline_ascii) tapped, `x` typed in ascii mode lands at the caret; the
composition covers the input up to the caret: an abc segment and a raw one -/
example :
    let cfg : PSegCfg := { alphabet := [97, 98], initials := [97, 98], finals := [], delimiters := [],
                           translate := fun _ g => [Cand.mk [65] [] [] g.start g.stop true] }
    let env : Env := { alphabet := [97, 98], initials := [97, 98], processors := [.asciiComposer, .speller, .navigator, .fluidEditor],
                       asciiKeys := [(xkShiftL, .inline)], recompose := composeP cfg }
    let c := runOpsT (fun _ => env) {} [(0, .key 97 0), (0, .key 98 0), (0, .key 0xff51 0), (5, .key xkShiftL 0),
                                        (20, .key xkShiftL (kRelease + kShift)), (0, .key 120 0)]
    c.input = [97, 120, 98] ∧ c.caret = 2 ∧ c.comp.input = [97, 120] ∧ c.comp.segs.map (fun g => (g.start, g.stop)) = [(0, 1), (1, 2)] := by
  decide

/-- **KeyBinder::ReinterpretPagingKey's partial operations are in range** in every reachable state of a schema with a key
binder: `input[input.length() - 1]` is read only when the input is not empty (its guard), and `ctx->PushInput('.')`
inserts at a caret that lies within the input (`caret ≤ |input|`, the C02 invariant) -/
theorem keybinder_reinterpret_in_range (envOf : Bool → Env) (hrc : ∀ b, ComposeSpec (envOf b).recompose) (c0 : Ctx)
    (h0 : c0.input = [] ∧ c0.caret = 0 ∧ c0.comp.segs = [] ∧ c0.comp.input = []) (ops : List Op) :
    let c := runOpsK envOf c0 ops
    c.caret ≤ c.input.length ∧ (c.input ≠ [] → c.input.length - 1 < c.input.length) := by
  have hinv : Inv (runOpsK envOf c0 ops) :=
    runOpsK_inv hrc ops ⟨⟨by rw [h0.1, h0.2.1]; exact Nat.le_refl _, by rw [h0.2.2.1]; exact SegsOK.nil⟩,
      by rw [h0.2.2.2, h0.1]; exact Nat.le_refl _⟩
  refine ⟨hinv.caret_le, ?_⟩
  intro hne
  have := List.length_pos_iff.mpr hne
  omega

/-- non-vacuity: Control+m bound to `send_sequence: "a,a"` from an idle session — three nested ProcessKey calls leave
three contiguous segments (abc, punct, abc) -/
example :
    let m : List (UInt8 × PunctDef) := [(44, .alt [[0xef, 0xbc, 0x8c], [44]])]
    let cfg : PSegCfg := { alphabet := [97], initials := [97], finals := [], delimiters := [],
                           translate := fun _ g => [Cand.mk [65] [] [] g.start g.stop true], punct := m }
    let env : Env := { alphabet := [97], initials := [97], processors := [.keyBinder, .speller, .punctuator, .selector, .fluidEditor],
                       punct := { half := m }, bindings := [⟨.always, 109, 4, .send [(97, 0), (44, 0), (97, 0)]⟩],
                       recompose := composeP cfg }
    (runOpsK (fun _ => env) {} [.key 109 4]).comp.segs.map (fun g => (g.start, g.stop, g.tags.punct)) =
      [(0, 1, false), (1, 2, true), (2, 3, false)] := by
  decide

/-- **Punctuator::AlternatePunct's `ctx->input().substr(segment.start, segment.end - segment.start)` is in range**:
in every reachable state of a schema with the punctuation components, the last segment starts within the RAW input
(`start ≤ end ≤ |composition input| ≤ |input|`: the geometric invariant together with the C02 invariant) -/
theorem punct_alternate_substr_in_range (envOf : Bool → Env) (cfg : Bool → PSegCfg)
    (henv : ∀ b, (envOf b).recompose = composeP (cfg b)) (htr : ∀ b, TranslateGeo (cfg b).toSegCfg)
    (hf : ∀ b, FilterSub (cfg b).filter) (hnp : ∀ b, NoPrevMatch (envOf b)) (c0 : Ctx)
    (h0 : c0.input = [] ∧ c0.caret = 0 ∧ c0.comp.segs = [] ∧ c0.comp.input = []) (ops : List Op) (g : Seg)
    (hlast : (runOpsS envOf c0 ops).comp.segs.getLast? = some g) :
    g.start ≤ (runOpsS envOf c0 ops).input.length ∧ g.stop ≤ (runOpsS envOf c0 ops).input.length := by
  have hgeo := geometry_reachable_punct envOf cfg henv htr hf hnp c0 h0.2.2.1 ops
  have hinv : Inv (runOpsS envOf c0 ops) :=
    runOpsS_inv (fun b => by rw [henv b]; exact composeP_spec (cfg b)) ops
      ⟨⟨by rw [h0.1, h0.2.1]; exact Nat.le_refl _, by rw [h0.2.2.1]; exact SegsOK.nil⟩,
        by rw [h0.2.2.2, h0.1]; exact Nat.le_refl _⟩
  generalize runOpsS envOf c0 ops = c at hgeo hinv hlast
  have hmem : g ∈ c.comp.segs := List.mem_of_getLast? hlast
  have h1 := (hgeo.geo.seg hmem).1
  have h2 := hgeo.bounded g hmem
  have h3 := hinv.cinput_le
  omega

/-- **PunctSegmentor::Proceed's `input[k]` is in range**: whenever the segmentation loop calls the segmentor
(`LoopInv`: contiguous segments within the composition's input — what `Compose` maintains from any reachable state) and
the current start is not the end of the input, it is a valid index -/
theorem punct_segmentor_index_in_range (c : Comp) (h : LoopInv c) (hne : c.currentStart ≠ c.input.length) :
    c.currentStart < c.input.length := by
  have h1 := currentStart_le_end h.1
  have h2 := h.2
  omega

/-- **the segmentation loop with the punct segmentor: the model's fuel is never what stops it.**  For every contiguous
old composition (every state in which the engine recomposes), raw input and caret, the loop of `composeP` run with the
fuel `|input| + 2` the model passes gives the same composition as with any larger fuel: a round that continues moves the
current start strictly to the right (abc, punct and fallback segmentors never leave the end left of the round's start). -/
theorem punct_segmentation_loop_fuel_adequate (cfg : PSegCfg) (input : Bytes) (caret : Nat) (c : Comp) (h : GeoOK c.segs)
    (k : Nat) :
    let c2 := resetStage input caret c
    segLoopG (segStepP cfg) caret (c2.input.length + 2 + k) c2 = segLoopG (segStepP cfg) caret (c2.input.length + 2) c2 :=
  composeP_fuel_adequate cfg input caret h k

/-- **the geometric invariant for schemas with the recognizer family**, for every timed history.  `ComposeGeoSpec` is
discharged for `composeR` — any list of ascii_segmentor, matcher, abc_segmentor, punct_segmentor, affix_segmentor@…,
fallback_segmentor, any pattern search functions (the regular expressions are not modelled: the theorem holds for all of
them), any affix configurations — under `TranslateGeo` on the oracle and `FilterSub` on the filter.  The matcher pops
segments only when GetMatch found the match's start among the segment starts, and the segment it then adds reaches the end
of the input; the affix segmentor replaces the last segment `[j, k)` by prefix / code / suffix pieces that tile `[j, k)`;
the recognizer processor only pushes input.  In every reachable state the segments tile a prefix of the composition's
input. -/
theorem geometry_reachable_recognizer (envOf : Bool → Env) (cfg : Bool → RSegCfg)
    (henv : ∀ b, (envOf b).recompose = composeR (cfg b)) (htr : ∀ b, TranslateGeo (cfg b).toSegCfg)
    (hf : ∀ b, FilterSub (cfg b).filter) (hnp : ∀ b, NoPrevMatch (envOf b)) (c0 : Ctx) (h0 : c0.comp.segs = [])
    (ops : List (Nat × Op)) : GeoInv (runOpsT envOf c0 ops) :=
  runOpsT_geo (fun b => by rw [henv b]; exact composeR_geo_spec (cfg b) (htr b) (hf b)) hnp ops (geoInv_of_no_segs h0)

/-- non-vacuity: an affix segmentor on the default tag `abc` with prefix `d` and suffix `;` (both letters of the alphabet):
`dab;` set through the API is prefix [0,1) / code [1,3) / suffix [3,4); `d;` has no code segment; `d` alone stays one
segment, renamed `abc_prefix` -/
example :
    let a : AffixCfg := { prefix_ := [100], suffix := [59], tips := [68] }
    let cfg : RSegCfg := { alphabet := [97, 98, 100, 59], initials := [97, 98, 100], finals := [], delimiters := [],
                           translate := fun _ g => if g.tags.abc then [Cand.mk [65] [] [] g.start g.stop true] else [],
                           segmentors := [.matcher, .abc, .affix a, .fallback] }
    let env : Env := { recompose := composeR cfg }
    let segs (w : Bytes) := (runOpsT (fun _ => env) {} [(0, .setInput w)]).comp.segs.map (fun g => (g.start, g.stop, g.tags.phony))
    segs [100, 97, 98, 59] = [(0, 1, true), (1, 3, false), (3, 4, true)] ∧
    segs [100, 59] = [(0, 1, true), (1, 2, true)] ∧
    (runOpsT (fun _ => env) {} [(0, .setInput [100])]).comp.segs.map (fun g => (g.start, g.stop, g.tags.abc, g.tags.extra)) =
      [(0, 1, false, ["abc_prefix"])] := by
  decide

/-- **the partial operations of the recognizer are in range** in every state reachable by a timed history on a schema
with the recognizer family: `input.substr(k)` in RecognizerPatterns::GetMatch (called by Recognizer::ProcessKeyEvent on the
raw input plus one character, with `k` the confirmed position of the current composition) has `k ≤ |input|` — the
confirmed position lies within the segments, the segments within the composition's input (the geometric invariant),
and that within the raw input (the C02 invariant); and `ctx->PushInput(ch)` inserts at a caret within the input. -/
theorem no_partial_op_fails_recognizer (envOf : Bool → Env) (cfg : Bool → RSegCfg)
    (henv : ∀ b, (envOf b).recompose = composeR (cfg b)) (htr : ∀ b, TranslateGeo (cfg b).toSegCfg)
    (hf : ∀ b, FilterSub (cfg b).filter) (hnp : ∀ b, NoPrevMatch (envOf b)) (c0 : Ctx)
    (h0 : c0.input = [] ∧ c0.caret = 0 ∧ c0.comp.segs = [] ∧ c0.comp.input = []) (ops : List (Nat × Op)) :
    let c := runOpsT envOf c0 ops
    c.comp.confirmedPos ≤ c.input.length ∧ c.caret ≤ c.input.length := by
  have hgeo := geometry_reachable_recognizer envOf cfg henv htr hf hnp c0 h0.2.2.1 ops
  have hinv : Inv (runOpsT envOf c0 ops) :=
    runOpsT_inv (fun b => by rw [henv b]; exact composeR_spec (cfg b)) ops
      ⟨⟨by rw [h0.1, h0.2.1]; exact Nat.le_refl _, by rw [h0.2.2.1]; exact SegsOK.nil⟩,
        by rw [h0.2.2.2, h0.1]; exact Nat.le_refl _⟩
  generalize runOpsT envOf c0 ops = c at hgeo hinv
  have h1 := confirmedPos_le_end hgeo.geo
  have h2 := hgeo.end_le
  have h3 := hinv.cinput_le
  exact ⟨by omega, hinv.caret_le⟩

/-- **the partial operations of the matcher and the affix segmentor are in range** whenever the segmentation loop calls
them (`LoopInv`: what `Compose` maintains from any reachable state): GetMatch's `input.substr(k)` has `k ≤ |input|`, and
AffixSegmentor::Proceed's `input.substr(j, k - j)` has `j ≤ k ≤ |input|` (`k - j` does not wrap around) -/
theorem recognizer_segmentors_substr_in_range (c : Comp) (h : LoopInv c) :
    c.confirmedPos ≤ c.input.length ∧ c.currentStart ≤ c.currentEnd ∧ c.currentEnd ≤ c.input.length := by
  have h1 := confirmedPos_le_end h.1
  have h2 := currentStart_le_end h.1
  have h3 := h.2
  rw [currentEnd_eq]
  exact ⟨by omega, h2, h3⟩

/-- **the segmentation loop with the recognizer family: the model's fuel is never what stops it.**  The matcher may move
the current start to the LEFT (it pops segments), and the affix segmentor moves it to the right inside a round; what the
measure needs is that no segmentor moves the END of the segmentation to the left — then a round that continues starts
strictly right of the previous one.  With the fuel `|input| + 2` the loop of `composeR` gives the same composition as
with any larger fuel. -/
theorem recognizer_segmentation_loop_fuel_adequate (cfg : RSegCfg) (input : Bytes) (caret : Nat) (c : Comp) (h : GeoOK c.segs)
    (k : Nat) :
    let c2 := resetStage input caret c
    segLoopG (segStepR cfg) caret (c2.input.length + 2 + k) c2 = segLoopG (segStepR cfg) caret (c2.input.length + 2) c2 :=
  composeR_fuel_adequate cfg input caret h k

/-- **every `input_.substr(seg.start, seg.end - seg.start)` is in range** (Composition::GetCommitText /
GetPreedit / GetScriptText / GetDebugText, ConcreteEngine::TranslateSegments).  In every reachable state, for
the segment `g` at any index `i` of the composition: `g.start ≤ g.end ≤ |composition input|` — so `pos =
g.start` meets `std::string::substr`'s precondition `pos ≤ size()`, the count `g.end - g.start` does not wrap
around, and the slice is not clipped (it has exactly `g.end - g.start` bytes); the first segment starts at 0
and the next segment, if any, starts at `g.end`. -/
theorem substr_in_range (env : Env) (hrc : ComposeGeoSpec env.recompose) (hnp : NoPrevMatch env) (c0 : Ctx)
    (h0 : c0.comp.segs = []) (ops : List Op) (i : Nat) (g : Seg)
    (hg : (runOps env c0 ops).comp.segs[i]? = some g) :
    let c := runOps env c0 ops
    g.start ≤ g.stop ∧ g.stop ≤ c.comp.input.length ∧
      (substr c.comp.input g.start (g.stop - g.start)).length = g.stop - g.start ∧
      (i = 0 → g.start = 0) ∧ (∀ g', c.comp.segs[i + 1]? = some g' → g'.start = g.stop) := by
  have hinv := geometry_reachable env hrc hnp c0 h0 ops
  generalize runOps env c0 ops = c at hinv hg
  have hmem : g ∈ c.comp.segs := List.mem_of_getElem? hg
  have h1 := (hinv.geo.seg hmem).1
  have h2 := hinv.bounded g hmem
  refine ⟨h1, h2, ?_, ?_, ?_⟩
  · unfold substr
    rw [List.length_take, List.length_drop]
    omega
  · intro hi
    subst hi
    exact hinv.geo.2.1 g (by rw [List.head?_eq_getElem?]; exact hg)
  · intro g' hg'
    exact hinv.geo.1.getElem?_succ i g g' hg hg'

/-- **the segments tile the input**: in every reachable state the slices `substr(seg.start, seg.end -
seg.start)` of the segments, concatenated in order, are exactly the composition's input up to the last
segment's end (nothing skipped, nothing read twice) -/
theorem slices_tile_input (env : Env) (hrc : ComposeGeoSpec env.recompose) (hnp : NoPrevMatch env) (c0 : Ctx)
    (h0 : c0.comp.segs = []) (ops : List Op) :
    let c := runOps env c0 ops
    (c.comp.segs.map (Seg.slice c.comp.input)).flatten = c.comp.input.take c.comp.currentEnd :=
  slices_flatten _ (geometry_reachable env hrc hnp c0 h0 ops).geo

/-- **the `while (!segments->HasFinishedSegmentation())` loop of CalculateSegmentation terminates.**
`LoopRun cfg caret c r` is the loop's big-step semantics without fuel (it holds iff the loop, started on
`c`, exits after finitely many rounds leaving `r`).  For every composition `c` whose segments are contiguous
(`GeoOK` — in particular the composition Compose hands to the loop in any reachable state, see
`compose_loop_terminates`) and every fuel ≥ `|input| - current start` (the model passes `|input| + 2`):
`segLoop` returns the result of a complete run, that result is the only one the loop can produce, more fuel
never changes it, and it satisfies the loop's own exit condition (segmentation finished, or the last round
did not advance, or it started at or after the caret).  Measure: a round after which the loop continues
moves the current start strictly to the right, and it stays left of the input's end. -/
theorem segmentation_loop_terminates (cfg : SegCfg) (caret : Nat) (c : Comp) (h : GeoOK c.segs) (fuel : Nat)
    (hf : c.input.length - c.currentStart ≤ fuel) :
    let r := segLoop cfg caret fuel c
    LoopRun cfg caret c r ∧ (∀ r', LoopRun cfg caret c r' → r' = r) ∧
      (∀ k, segLoop cfg caret (fuel + k) c = r) ∧
      (r.hasFinishedSegmentation = true ∨
        ∃ c0, r = segStep cfg c0 ∧ c0.hasFinishedSegmentation = false ∧
          (c0.currentStart = r.currentEnd ∨ caret ≤ c0.currentStart)) := by
  have ht := segLoop_terminates cfg caret h hf
  exact ⟨ht.1, fun r' hr' => hr'.unique ht.1, ht.2, ht.1.exit⟩

/-- **the fuel of the model's Compose is never what stops the loop.**  For every contiguous old composition
(every state in which the engine recomposes: `GeoPre`), every raw input and caret: the composition that
`Compose` hands to the loop after its `Reset`s is contiguous and within its input, the model's `compose` is
`TranslateSegments ∘ (Trim / Forward) ∘ loop` on it, the loop run with the model's fuel `|input| + 2` is a
complete run, and any larger fuel gives the same composition. -/
theorem compose_loop_terminates (cfg : SegCfg) (input : Bytes) (caret : Nat) (c : Comp) (h : GeoOK c.segs) :
    let c2 := resetStage input caret c
    let r := segLoop cfg caret (c2.input.length + 2) c2
    GeoOK c2.segs ∧ Bounded c2 ∧
      compose cfg input caret c = translateSegments cfg (forwardIfSelected (trimUnlessPlaceholder r)) ∧
      LoopRun cfg caret c2 r ∧ ∀ k, segLoop cfg caret (c2.input.length + 2 + k) c2 = r := by
  have h2 := resetStage_geo h input caret
  have ht := segLoop_terminates cfg caret h2.1 (fuel := (resetStage input caret c).input.length + 2) (by omega)
  exact ⟨h2.1, h2.bounded, rfl, ht.1, ht.2⟩

/-- the loop in every reachable state: whatever the client does next, the composition of a reachable state is
a legal starting point of `compose_loop_terminates` -/
theorem reachable_loop_terminates (env : Env) (cfg : SegCfg) (henv : env.recompose = compose cfg)
    (htr : TranslateGeo cfg) (hnp : NoPrevMatch env) (c0 : Ctx) (h0 : c0.comp.segs = []) (ops : List Op) (input : Bytes) (caret : Nat) :
    let c2 := resetStage input caret (runOps env c0 ops).comp
    LoopRun cfg caret c2 (segLoop cfg caret (c2.input.length + 2) c2) ∧
      ∀ k, segLoop cfg caret (c2.input.length + 2 + k) c2 = segLoop cfg caret (c2.input.length + 2) c2 :=
  let hc := compose_loop_terminates cfg input caret (runOps env c0 ops).comp
    (geometry_reachable_concrete env cfg henv htr hnp c0 h0 ops).geo
  ⟨hc.2.2.2.1, hc.2.2.2.2⟩

/-- non-vacuity of `GeoOK` / `Bounded`: a two-segment composition over `abc`, the first segment carrying a
menu with a partial candidate -/
example :
    let g1 : Seg := { status := .selected, start := 0, stop := 2, length := 2,
                      menu := some [Cand.mk [65] [] [] 0 2 true, Cand.mk [66] [] [] 0 1 true] }
    let g2 : Seg := { status := .guess, start := 2, stop := 3, length := 1, menu := some [] }
    let c : Comp := { input := [97, 98, 99], segs := [g1, g2] }
    GeoOK c.segs ∧ Bounded c := by
  intro g1 g2 c
  refine ⟨⟨⟨rfl, trivial⟩, ?_, ?_⟩, ?_⟩
  · intro g hg; simp only [c, List.head?_cons, Option.some.injEq] at hg; subst hg; rfl
  · intro g hg
    simp only [c, List.mem_cons, List.mem_nil_iff, or_false] at hg
    rcases hg with rfl | rfl
    · refine ⟨by decide, ?_⟩
      intro l hl cd hcd
      simp only [g1, Option.some.injEq] at hl
      subst hl
      simp only [List.mem_cons, List.mem_nil_iff, or_false] at hcd
      rcases hcd with rfl | rfl <;> decide
    · refine ⟨by decide, ?_⟩
      intro l hl cd hcd
      simp only [g2, Option.some.injEq] at hl
      subst hl
      simp at hcd
  · intro g hg
    simp only [c, List.mem_cons, List.mem_nil_iff, or_false] at hg
    rcases hg with rfl | rfl <;> decide

/-- non-vacuity of `TranslateGeo`: the echo translator (one candidate spanning the segment) satisfies it -/
example :
    let cfg : SegCfg := { alphabet := [97], initials := [97], finals := [], delimiters := [],
                          translate := fun _ g => [Cand.mk [65] [] [] g.start g.stop true] }
    TranslateGeo cfg := by
  intro cfg inp g hg cd hcd
  simp only [cfg] at hcd
  simp only [List.mem_cons, List.mem_nil_iff, or_false] at hcd
  subst hcd
  exact hg

/-- non-vacuity of the termination theorem: on `a,a` (alphabet `a`) the loop runs three rounds — abc segment,
raw segment for the comma, abc segment — and with fuel 1 the model would have stopped after the first -/
example :
    let cfg : SegCfg := { alphabet := [97], initials := [97], finals := [], delimiters := [], translate := fun _ _ => [] }
    let c : Comp := { input := [97, 44, 97], segs := [] }
    (segLoop cfg 3 (c.input.length - c.currentStart) c).segs.map (fun g => (g.start, g.stop, g.tags.abc, g.tags.raw))
        = [(0, 1, true, false), (1, 2, false, true), (2, 3, true, false)] ∧
      (segLoop cfg 3 1 c).segs.map (fun g => (g.start, g.stop)) = [(0, 1), (1, 1)] := by
  decide

/-- non-vacuity of the reachability theorems: typing `a`, `,`, `a` through the speller-less API (`set_input`)
reaches a three-segment composition -/
example :
    let cfg : SegCfg := { alphabet := [97], initials := [97], finals := [], delimiters := [],
                          translate := fun _ g => [Cand.mk [65] [] [] g.start g.stop true] }
    let env : Env := { recompose := compose cfg }
    (runOps env {} [.setInput [97, 44, 97]]).comp.segs.map (fun g => (g.start, g.stop)) = [(0, 1), (1, 2), (2, 3)] := by
  decide

/-! ### Speller::AutoSelectPreviousMatch (auto_select without a code-length bound) and the geometry

What is proved for EVERY schema, what is proved under a local condition, and why `NoPrevMatch` cannot simply be dropped
from `geometry_reachable` and its variants. -/

/-- **Speller::FindEarlierMatch keeps the geometric invariant**, for every schema and every recomposition function
satisfying `ComposeGeoSpec` (it only calls `set_input`, `ConfirmCurrentSelection` and `Commit`) -/
theorem find_earlier_match_geometry (env : Env) (hrc : ComposeGeoSpec env.recompose) (fuel s e : Nat) (c : Ctx)
    (h : GeoInv c) : GeoInv (findEarlierMatch env fuel s e c).1 :=
  findEarlierMatch_geo hrc fuel s e c h

/-- **one key through the speller, any schema**: Speller::ProcessKeyEvent keeps the geometric invariant provided the
"reuse previous match" branch of AutoSelectPreviousMatch, if taken for this key, pushes the saved segment back where
the segments before the popped one end (`SpellerAligned`).  The state in between (saved segment pushed, not yet
selected) may have its last end beyond the composition's input; ConfirmCurrentSelection always recomposes there,
because the saved segment ends before the end of the raw input (C02 invariant `cinput_le` + `Bounded`). -/
theorem speller_key_geometry_aligned (env : Env) (hrc : ComposeGeoSpec env.recompose) (hrs : ComposeSpec env.recompose)
    (k : Key) (c : Ctx) (hi : Inv c) (h : GeoInv c) (hal : SpellerAligned env k c) :
    GeoInv (spellerProcess env k c).1 :=
  spellerProcess_geo_of_aligned hrc hrs k hi h hal

/-- **a repair**: had AutoSelectPreviousMatch compared `previous_segment->start` with the start of the segment it is
about to pop (and skipped the reuse otherwise), the reuse branch would be aligned in every state -/
theorem prev_match_same_start_aligned (env : Env) (prev : Option Seg) (c : Ctx) (h : GeoOK c.comp.segs)
    (hs : ∀ p, prev = some p → c.comp.segs ≠ [] ∧ p.start = c.comp.currentStart) : ReuseAligned env prev c :=
  reuseAligned_of_same_start h hs

/-- **`NoPrevMatch` cannot be dropped (punctuation components)**: with `auto_select: true`, no `max_code_length`, a
punctuation key bound to a list of alternatives and a letter without candidates, the keys `/` `a` reach the
composition `[0,1) [0,1) [1,2)` — the punctuation segment twice (preedit `、、a`).  All other hypotheses of
`geometry_reachable_punct` hold.  Replayed on librime: same observation. -/
theorem geometry_fails_prev_match_punct :
    ∃ (env : Env) (cfg : PSegCfg) (ops : List Op), env.recompose = composeP cfg ∧ TranslateGeo cfg.toSegCfg ∧
      FilterSub cfg.filter ∧ ¬ GeoInv (runOps env {} ops) :=
  prev_match_breaks_geometry_punct

/-- **`NoPrevMatch` cannot be dropped (abc + fallback segmentors)** unless the oracle is restricted further than
`TranslateGeo`: a translator that gives a candidate to a raw segment reaches `[0,1) [0,1) [1,2)` with
`set_input("1")`, key `a` -/
theorem geometry_fails_prev_match_raw :
    ∃ (env : Env) (cfg : SegCfg) (ops : List Op), env.recompose = compose cfg ∧ TranslateGeo cfg ∧
      ¬ GeoInv (runOps env {} ops) :=
  prev_match_breaks_geometry_raw

/-- non-vacuity: `auto_select: true`, no `max_code_length`; `ab` has two candidates (a unique one would be
selected at once), `abc` has none.  On the key `c` the
reuse branch IS taken (AutoSelectPreviousMatch returns true) and, the saved segment being an abc segment that the key
extended in place, it is aligned: the result is `[0,2)` selected, `[2,3)` -/
example :
    let cfg : SegCfg := { alphabet := [97, 98, 99], initials := [97, 98, 99], finals := [], delimiters := [39],
                          translate := fun inp g => if inp = [97, 98] then [Cand.mk [65] [] [] g.start g.stop true, Cand.mk [66] [] [] g.start g.stop true] else [] }
    let env : Env := { alphabet := [97, 98, 99], initials := [97, 98, 99], delimiters := [39], autoSelect := true,
                       maxCodeLength := 0, processors := [.speller, .selector, .navigator, .fluidEditor],
                       recompose := compose cfg }
    let c1 := runOps env {} [.key 97 0, .key 98 0]
    let c2 := (Ctx.pushInput env c1 99).beginEditing
    c2.comp.segs.map (fun g => (g.start, g.stop)) = [(0, 3)] ∧
    (autoSelectPreviousMatch env (spellerPrev env c1) c2).2 = true ∧
    (spellerPrev env c1).map (fun p => (p.start, endOf c2.comp.segs.dropLast)) = some (0, 0) ∧
    (runOps env {} [.key 97 0, .key 98 0, .key 99 0]).comp.segs.map (fun g => (g.start, g.stop, g.status)) =
      [(0, 2, .selected), (2, 3, .guess)] := by
  decide


end C01
