import RimeModel.C01.HistoryLemmas
import RimeModel.C01.HistoryTexts
/-!
# C01 — the commit history never hands out a dead record

Property theorems about the port of `CommitHistory` (`RimeModel/C01/History.lean`), which `ConcreteEngine` updates on
every key nobody handled, on every directly committed text and on every committed composition.  The list is a bounded
window of the records ever pushed; `Push(composition, input)` keeps a raw pointer into it.  Tie: `checks/C01.py` runs the
real `CommitHistory` and this model on the same generated call sequences (`harness/hist_harness.cc`, `driver_hist`) and
compares `repr()` / `latest_text()` after every call, under AddressSanitizer.
-/
namespace C01History
open RimeModel.C01.History

/-- **history_bounded** — none of the three `Push` overloads lets the list grow beyond `kMaxRecords`, in either variant
of the code, for every history, key, text, composition view and input. -/
theorem history_bounded (h : List Rec) (hh : h.length ≤ maxRecords) :
    (∀ r, (push h r).length ≤ maxRecords) ∧
    (∀ k m, (pushKey h k m).length ≤ maxRecords) ∧
    (∀ fixed segs input, (pushComposition fixed h segs input).recs.length ≤ maxRecords) := by
  refine ⟨fun r => push_length_le h r hh, ?_, ?_⟩
  · intro k m
    unfold pushKey
    split
    · split
      · simp
      · split
        · exact push_length_le h _ hh
        · exact hh
    · exact hh
  · intro fixed segs input
    unfold pushComposition
    have hl := foldl_length_le fixed input segs
      { recs := h, dropped := 0, last := none, endPos := 0, fault := .none } hh
    simp only
    split
    · exact St.push_length_le _ _ hl
    · exact hl

/-- **push_composition_never_dangles** — after /repo 0abeed3 (`last = NULL` behind an untranslated segment) the pointer
`last` is, at every dereference, the last record of a non-empty list: `Push(composition, input)` never reads or writes a
record that `pop_front` has destroyed, for every history, every list of segments (any number of them, translated or
not, confirmed or not, any candidate types) and every input. -/
theorem push_composition_never_dangles (h : List Rec) (segs : List SegV) (input : Bytes) :
    (pushComposition true h segs input).fault ≠ .dangling := by
  unfold pushComposition
  have hf := (foldl_fixed_inv input segs { recs := h, dropped := 0, last := none, endPos := 0, fault := .none }
    (Or.inl rfl) (by simp)).2
  simp only
  split
  · rw [St.push_fault]; exact hf
  · exact hf

/-- a candidate segment, `n` untranslated ones, a candidate of the same type: the view of `set_input("a1" × …)` -/
def alternating (n : Nat) : List SegV :=
  [⟨0, 1, false, some ([112], [65], 1)⟩] ++
  (List.range n).map (fun i => ⟨1 + 2 * i, 2 + 2 * i, false, none⟩) ++
  [⟨1 + 2 * n, 2 + 2 * n, false, some ([112], [66], 2 + 2 * n)⟩]

/-- **old_push_composition_dangles** — the code before the repair: one translated segment, twenty untranslated ones and
another candidate of the same type make `last->type` read a record that has been rotated out (the heap use after free
AddressSanitizer reports for `set_input("a1a1…")` + `commit_composition`); with nineteen it is still alive. -/
theorem old_push_composition_dangles :
    (pushComposition false [] (alternating 20) (List.replicate 42 97)).fault = .dangling ∧
    (pushComposition false [] (alternating 19) (List.replicate 40 97)).fault = .none ∧
    (pushComposition true [] (alternating 20) (List.replicate 42 97)).fault = .none := by
  decide +kernel

/-- **old_push_composition_reorders** — the same stale pointer, before it dangles, appends the text of a candidate to a
record in FRONT of the untranslated text typed between the two: the records no longer spell what was committed.  The
repaired code keeps the order. -/
theorem old_push_composition_reorders :
    texts (pushComposition false [] (alternating 1) [97, 49, 97]).recs ≠ commitText (alternating 1) [97, 49, 97] ∧
    texts (pushComposition true [] (alternating 1) [97, 49, 97]).recs = commitText (alternating 1) [97, 49, 97] := by
  decide

/-- **push_composition_spells_commit_text** — functional correctness of the repaired `Push(composition, input)`: as long as
the list does not rotate (fewer than `kMaxRecords` records afterwards) and no `substr` threw, the texts of the records,
read in order, are the texts that were there before followed by exactly what `Composition::GetCommitText` delivers for
that composition (no `phony` segment): joining adjacent candidates of one type never reorders or drops text.  For the
code before the repair this is false (`old_push_composition_reorders`). -/
theorem push_composition_spells_commit_text (h : List Rec) (segs : List SegV) (input : Bytes)
    (hlen : h.length + segs.length + 1 ≤ maxRecords)
    (hok : (pushComposition true h segs input).fault = .none) :
    texts (pushComposition true h segs input).recs = texts h ++ commitText segs input := by
  unfold pushComposition at hok ⊢
  unfold commitText
  simp only at hok ⊢
  have hs : (segs.foldl (stepSeg true input) { recs := h, dropped := 0, last := none, endPos := 0, fault := .none }).fault = .none := by
    split at hok
    · rw [St.push_fault] at hok; exact hok
    · exact hok
  obtain ⟨h1, h2, h3⟩ := foldl_texts input segs { recs := h, dropped := 0, last := none, endPos := 0, fault := .none }
    (texts h) ([], 0) (Or.inl rfl) rfl (by show h.length + segs.length < maxRecords + 1; omega)
    (by show h.length + segs.length ≤ maxRecords; omega) (by simp) rfl hs
  rw [← h2]
  by_cases hgt : input.length > (segs.foldl (stepSeg true input) { recs := h, dropped := 0, last := none, endPos := 0, fault := .none }).endPos
  · simp only [hs, hgt, and_self, ↓reduceIte]
    rw [St.push_nodrop _ _ (by
      have : (segs.foldl (stepSeg true input) { recs := h, dropped := 0, last := none, endPos := 0, fault := .none }).recs.length ≤ h.length + segs.length := h3
      omega), texts_append, h1, List.append_assoc]
  · simp only [hs, hgt, and_false, ↓reduceIte]
    exact h1

/-- `Push(key)`: BackSpace and Return without modifiers forget everything, a printable key is recorded as typed, any
other key and any key with a modifier leaves the history alone. -/
theorem push_key_cases (h : List Rec) (k m : Nat) :
    (m ≠ 0 → pushKey h k m = h) ∧
    (m = 0 → (k = xkBackSpace ∨ k = xkReturn) → pushKey h k m = []) ∧
    (m = 0 → 0x20 ≤ k → k ≤ 0x7e → pushKey h k m = push h ⟨thruType, [UInt8.ofNat k]⟩) := by
  refine ⟨?_, ?_, ?_⟩
  · intro hm; unfold pushKey; simp [hm]
  · intro hm hk; unfold pushKey; simp [hm, hk]
  · intro hm h1 h2
    unfold pushKey
    have : ¬ (k = xkBackSpace ∨ k = xkReturn) := by unfold xkBackSpace xkReturn; omega
    simp [hm, this, h1, h2]

-- non-vacuity: a history at its bound, a composition that rotates it
example : (pushComposition true (List.replicate 20 ⟨rawType, [120]⟩) (alternating 3) (List.replicate 8 97)).recs.length = 20 ∧
    (pushComposition true (List.replicate 20 ⟨rawType, [120]⟩) (alternating 3) (List.replicate 8 97)).dropped = 5 := by decide

-- non-vacuity of push_composition_spells_commit_text: three segments, two joined, text behind the last segment
example : let segs : List SegV := [⟨0, 1, false, some ([112], [65], 1)⟩, ⟨1, 2, false, some ([112], [66], 2)⟩, ⟨2, 3, false, none⟩]
    (pushComposition true [⟨thruType, [120]⟩] segs [97, 98, 49, 50]).fault = .none ∧
    (pushComposition true [⟨thruType, [120]⟩] segs [97, 98, 49, 50]).recs = [⟨thruType, [120]⟩, ⟨[112], [65, 66]⟩, ⟨rawType, [49]⟩, ⟨rawType, [50]⟩] := by
  decide

end C01History
