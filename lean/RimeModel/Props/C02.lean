import RimeModel.Session.WellFormed
import RimeModel.Session.ComposeOK
import RimeModel.Session.PunctComposeOK
import RimeModel.Session.RecogComposeOK
import RimeModel.Session.RecogPattern
import RimeModel.Session.Shape
import RimeModel.Session.Utf8
/-!
C02 — the context reported after any call is well-formed.  Property theorems only.

Model: RimeModel/Session/* (Context, Composition, Segmentation, engine glue, Speller, Selector,
Navigator, Editor with GENERATED default keymaps, API layer, `view` = RimeGetContext + get_input +
get_caret_pos + is_composing).  `View.WellFormed` (RimeModel/Session/WellFormed.lean) is the property.
-/
namespace C02
open RimeModel.Session

/-- a fresh session: nothing typed, no composition; options are whatever the schema's components set -/
def Fresh (c : Ctx) : Prop := c.input = [] ∧ c.caret = 0 ∧ c.comp.segs = [] ∧ c.comp.input = []

theorem fresh_inv {c : Ctx} (h : Fresh c) : Inv c :=
  ⟨⟨by rw [h.1, h.2.1]; exact Nat.le_refl _, by rw [h.2.2.1]; exact SegsOK.nil⟩, by rw [h.2.2.2, h.1]; exact Nat.le_refl _⟩

/-- **C02, generic form.**  For every schema environment whose recomposition function never leaves a
dangling selected index (`ComposeSpec`), every finite sequence of API calls (keys with arbitrary
keycode/mask, select / highlight / delete by arbitrary global or on-page index, paging, set_input,
set_caret_pos, set_option, commit, clear, get_commit) from a fresh session leaves a well-formed view:
caret within the input; 0 ≤ sel_start ≤ sel_end ≤ |preedit|, cursor ≤ |preedit|; not composing ⇒ no
input, preedit or menu; a reported menu is non-empty with highlighted < #candidates ≤ page size. -/
theorem wellformed_reachable (env : Env) (hps : 0 < env.pageSize) (hrc : ComposeSpec env.recompose)
    (c0 : Ctx) (h0 : Fresh c0) (ops : List Op) :
    (view env (runOps env c0 ops)).WellFormed :=
  view_wf hps (runOps_inv hrc ops (fresh_inv h0))

/-- **C02 for the modelled engine.**  The hypothesis `ComposeSpec` is discharged for the concrete port of
`ConcreteEngine::Compose` (abc + fallback segmentors) with *any* translation oracle and alphabets. -/
theorem wellformed_reachable_concrete (env : Env) (hps : 0 < env.pageSize) (cfg : SegCfg)
    (henv : env.recompose = compose cfg) (c0 : Ctx) (h0 : Fresh c0) (ops : List Op) :
    (view env (runOps env c0 ops)).WellFormed :=
  wellformed_reachable env hps (by rw [henv]; exact compose_spec cfg) c0 h0 ops

/-- **C02 with the `full_shape` option in play.**  A schema is a pair of environments (half / full shape: the punctuation
components re-read the option before every use, the shape formatter and the shape post-processor act only when it is on);
every call runs in the environment of the value the option has once the call has stored its own change
(`runOpsS`, Session/Shape.lean).  If both recomposition functions satisfy `ComposeSpec`, every finite API history from a
fresh session leaves a well-formed view — whatever the processor list (speller, punctuator, selector, navigator, editors)
and whatever the punctuation definitions. -/
theorem wellformed_reachable_shaped (envOf : Bool → Env) (hps : ∀ b, 0 < (envOf b).pageSize)
    (hrc : ∀ b, ComposeSpec (envOf b).recompose) (c0 : Ctx) (h0 : Fresh c0) (ops : List Op) (b : Bool) :
    (view (envOf b) (runOpsS envOf c0 ops)).WellFormed :=
  view_wf (hps b) (runOpsS_inv hrc ops (fresh_inv h0))

/-- **C02 for schemas with the punctuation components.**  `ComposeSpec` is discharged for the port of
`ConcreteEngine::Compose` with abc_segmentor, punct_segmentor, fallback_segmentor, punct_translator + any translation
oracle and any filter (`composeP`), for any punctuation mapping in either shape. -/
theorem wellformed_reachable_punct (envOf : Bool → Env) (hps : ∀ b, 0 < (envOf b).pageSize) (cfg : Bool → PSegCfg)
    (henv : ∀ b, (envOf b).recompose = composeP (cfg b)) (c0 : Ctx) (h0 : Fresh c0) (ops : List Op) (b : Bool) :
    (view (envOf b) (runOpsS envOf c0 ops)).WellFormed :=
  wellformed_reachable_shaped envOf hps (fun b => by rw [henv b]; exact composeP_spec (cfg b)) c0 h0 ops b

/-- non-vacuity: the punctuator at work — `/` is a list of three alternatives, pressed twice: the second press moves
the highlight to the second alternative of the same one-key segment; `,` then confirms and commits both -/
example :
    let m : List (UInt8 × PunctDef) := [(47, .alt [[0xe3, 0x80, 0x81], [47], [0xc3, 0xb7]]), (44, .commit [0xef, 0xbc, 0x8c])]
    let cfg : PSegCfg := { alphabet := [97], initials := [97], finals := [], delimiters := [], translate := fun _ _ => [], punct := m }
    let env : Env := { pageSize := 5, alphabet := [97], initials := [97], processors := [.speller, .punctuator, .selector, .expressEditor],
                       punct := { half := m }, recompose := composeP cfg }
    let c := runOpsS (fun _ => env) { options := [("_auto_commit", true)] } [.key 47 0, .key 47 0]
    let v := view env c
    v.composing = true ∧ v.preview = [47] ∧ (v.menu.map (·.highlighted)) = some 1 ∧ (v.menu.map (·.cands.length)) = some 3 ∧
    (runOpsS (fun _ => env) c [.key 44 0]).commitBuf = [47, 0xef, 0xbc, 0x8c] := by
  decide

/-- **C02 for schemas with a key binder.**  `key_binder` is a processor of the model (`Proc.keyBinder`: binding lookup on the
exact keycode + modifier pair, the bindings of a key sorted by condition with a later one of the same condition first,
conditions always / composing / has_menu (off in ascii_mode) / paging, ReinterpretPagingKey with `last_key_`, the actions
send / send_sequence / toggle / set_option / unset_option with the radio groups of `switches:`).  A redirected key goes
through `ConcreteEngine::ProcessKey` again (processors and post-processor) with the binder disabled.  A binding may change
`full_shape` itself, so each call runs in the environment of the value the option has after the binder's decision
(`runOpsK`, Session/Shape.lean).  If both recomposition functions satisfy `ComposeSpec`, every finite API history from a
fresh session leaves a well-formed view — whatever the binding list, the switches and the processor list. -/
theorem wellformed_reachable_keybinder (envOf : Bool → Env) (hps : ∀ b, 0 < (envOf b).pageSize)
    (hrc : ∀ b, ComposeSpec (envOf b).recompose) (c0 : Ctx) (h0 : Fresh c0) (ops : List Op) (b : Bool) :
    (view (envOf b) (runOpsK envOf c0 ops)).WellFormed :=
  view_wf (hps b) (runOpsK_inv hrc ops (fresh_inv h0))

/-- **the same with the hypothesis discharged** for the Compose with the punctuation components (`composeP`: any mapping, any
translation oracle, any filter) — the configuration of the synthetic schema `vs_kb`; with an empty mapping it is the
Compose of a schema without punctuator (`vs_kbf`). -/
theorem wellformed_reachable_keybinder_punct (envOf : Bool → Env) (hps : ∀ b, 0 < (envOf b).pageSize) (cfg : Bool → PSegCfg)
    (henv : ∀ b, (envOf b).recompose = composeP (cfg b)) (c0 : Ctx) (h0 : Fresh c0) (ops : List Op) (b : Bool) :
    (view (envOf b) (runOpsK envOf c0 ops)).WellFormed :=
  wellformed_reachable_keybinder envOf hps (fun b => by rw [henv b]; exact composeP_spec (cfg b)) c0 h0 ops b

/-- **C02 for schemas with an ascii composer, for every timing.**  `ascii_composer` is a processor of the model
(`Proc.asciiComposer`: the switch keys Shift_L / Shift_R / Control_L / Control_R / Eisu_toggle / Caps_Lock with the styles
inline_ascii, commit_text, commit_code, clear; the press / release logic with `shift_key_pressed_`, `ctrl_key_pressed_`,
`toggle_with_caps_` and the 500 ms deadline; good_old_caps_lock; letters typed while Caps Lock is on; inline editing and
direct commit in ascii_mode; the temporary inline mode that ends with the composition).  The clock the deadline is measured
on is a parameter: a timed history says how many milliseconds pass before each call.  For EVERY such history from a fresh
session — any delays, any switch-key configuration, with or without a key binder behind the ascii composer — the view is
well-formed. -/
theorem wellformed_reachable_timed (envOf : Bool → Env) (hps : ∀ b, 0 < (envOf b).pageSize)
    (hrc : ∀ b, ComposeSpec (envOf b).recompose) (c0 : Ctx) (h0 : Fresh c0) (ops : List (Nat × Op)) (b : Bool) :
    (view (envOf b) (runOpsT envOf c0 ops)).WellFormed :=
  view_wf (hps b) (runOpsT_inv hrc ops (fresh_inv h0))

/-- non-vacuity: Shift_L is `inline_ascii`.  `a`, then Shift_L tapped within the deadline: ascii_mode goes on and `1` is
added to the composition instead of selecting; Return (fluid editor: commit_composition) commits `A1` and the temporary mode
ends with the composition.  The same tap released 600 ms after the press changes nothing: `1` selects the first candidate. -/
example :
    let cfg : PSegCfg := { alphabet := [97], initials := [97], finals := [], delimiters := [],
                           translate := fun _ g => if g.tags.abc then [Cand.mk [65] [] [] g.start g.stop true] else [] }
    let env : Env := { pageSize := 5, alphabet := [97], initials := [97],
                       processors := [.asciiComposer, .speller, .selector, .navigator, .fluidEditor],
                       asciiKeys := [(xkShiftL, .inline)], recompose := composeP cfg }
    let tap (ms : Nat) : List (Nat × Op) := [(0, .key 97 0), (0, .key xkShiftL 0), (ms, .key xkShiftL (kRelease + kShift)), (0, .key 49 0)]
    let c1 := runOpsT (fun _ => env) {} (tap 100)
    let c2 := runOpsT (fun _ => env) c1 [(0, .key 0xff0d 0)]
    let c3 := runOpsT (fun _ => env) {} (tap 600)
    c1.input = [97, 49] ∧ c1.getOption "ascii_mode" = true ∧ c1.acInline = true ∧
    c2.commitBuf = [65, 49] ∧ c2.isComposing = false ∧ c2.getOption "ascii_mode" = false ∧ c2.acInline = false ∧
    c3.input = [97] ∧ c3.getOption "ascii_mode" = false ∧ (c3.comp.segs.map (·.status)) = [.confirmed, .void] := by
  decide

/-- **C02 for schemas with the recognizer family.**  `recognizer` is a processor of the model (`Proc.recognizer`:
RecognizerPatterns::GetMatch on the input plus the incoming character against the current segmentation, PushInput and
kAccepted on a match) and `matcher`, `affix_segmentor@…` (prefix / suffix / tips / closing tips / extra tags; the prefix and
suffix segments it splits off are born `kGuess` with a prompt and never carry a menu), `ascii_segmentor` (reads
`ascii_mode` in the middle of a recomposition) are segmentors of the recomposition `composeR`, in any order and number
beside abc / punct / fallback.  The regular expressions are NOT modelled: a pattern is an arbitrary search function
(`RecPattern.search`), so the statement covers every regular expression Boost could be given.  For every such schema —
any patterns, affix configurations, segmentor order, punctuation mapping, translation oracle and filter, with or without
ascii composer and key binder — and every timed API history from a fresh session, the view is well-formed. -/
theorem wellformed_reachable_recognizer (envOf : Bool → Env) (hps : ∀ b, 0 < (envOf b).pageSize) (cfg : Bool → RSegCfg)
    (henv : ∀ b, (envOf b).recompose = composeR (cfg b)) (c0 : Ctx) (h0 : Fresh c0) (ops : List (Nat × Op)) (b : Bool) :
    (view (envOf b) (runOpsT envOf c0 ops)).WellFormed :=
  wellformed_reachable_timed envOf hps (fun b => by rw [henv b]; exact composeR_spec (cfg b)) c0 h0 ops b

/-- non-vacuity: luna_pinyin's reverse-lookup set-up.  Pattern "`[a-c]*'?$" (tag `rev`), an affix segmentor on that tag with
prefix "`", suffix "'" and tips.  The keys "`", `a`, `'` all go through the recognizer (the speller never sees them); the
composition becomes prefix [0,1) / code [1,2) / suffix [2,3): the outer two are `phony` guesses without a menu carrying the
prompt, the code segment is translated by the `rev` translator, and the commit preview is the candidate alone.  With
`ascii_mode` switched on the same input is one raw segment (ascii_segmentor). -/
example :
    let rev : Pattern := { anchoredStart := false, anchoredEnd := true,
                           items := [⟨[(96, 96)], .one⟩, ⟨[(97, 99)], .star⟩, ⟨[(39, 39)], .opt⟩] }
    let pats : List RecPattern := [⟨"rev", rev.search⟩]
    let a : AffixCfg := { tag := "rev", prefix_ := [96], suffix := [39], tips := [84], closingTips := [90] }
    let cfg : RSegCfg := { alphabet := [97, 98, 99], initials := [97, 98, 99], finals := [], delimiters := [39],
                           translate := fun _ g => if g.tags.has "rev" then [Cand.mk [65] [] [] g.start g.stop true] else [],
                           patterns := pats, segmentors := [.ascii, .matcher, .abc, .affix a, .fallback] }
    let env : Env := { pageSize := 5, alphabet := [97, 98, 99], initials := [97, 98, 99], delimiters := [39],
                       processors := [.recognizer, .speller, .selector, .expressEditor], recPatterns := pats,
                       recompose := composeR cfg }
    let c := runOpsT (fun _ => env) {} [(0, .key 96 0), (0, .key 97 0), (0, .key 39 0)]
    let c2 := runOpsT (fun _ => env) c [(0, .setOption "ascii_mode" true)]
    c.input = [96, 97, 39] ∧
    c.comp.segs.map (fun g => (g.start, g.stop, g.status, g.tags.phony, g.menu.isSome)) =
      [(0, 1, .guess, true, false), (1, 2, .guess, false, true), (2, 3, .guess, true, false)] ∧
    (view env c).preview = [65] ∧ c.comp.prompt = [90] ∧
    c2.comp.segs.map (fun g => (g.start, g.stop, g.tags.raw)) = [(0, 3, true)] := by
  decide

/-- **why the re-entrant ProcessKey needs no fuel.**  `KeyBinder::redirecting_` is set exactly around the loop of
PerformKeyBinding and makes ProcessKeyEvent return kNoop before it looks at anything: the chain a redirected key runs
through is the schema's chain with the key binder taken out — a target that is itself bound is not redirected again, and
the nesting is one level deep whatever the bindings. -/
theorem keybinder_nested_chain (env : Env) (k : Key) (ps : List Proc) (c : Ctx) :
    chainInner env k ps c = chain env k (ps.filter (· != .keyBinder)) c := by
  induction ps generalizing c with
  | nil => rfl
  | cons p ps ih =>
    cases p <;> simp only [chainInner, procRunInner, List.filter_cons, bne_iff_ne, ne_eq, reduceCtorEq, not_false_eq_true,
      not_true_eq_false, if_true, if_false, chain, procRun, ih]

/-- a key without bindings, pressed when the last key was not a period, passes the key binder unchanged except for
`last_key_` (which becomes the key's code if it has no modifier, 0 if it has — and 0 for a period after a comma) -/
theorem keybinder_unbound_noop (env : Env) (reent : Key → Ctx → Ctx × Bool) (k : Key) (c : Ctx)
    (hk : kbBindingsFor env.bindings k = []) (hlast : c.kbLastKey ≠ 46) (hrel : k.release = false) :
    kbProcess reent env k c =
      (if env.bindings = [] then c else { c with kbLastKey := if kbCh k = 46 ∧ c.kbLastKey = 44 then 0 else kbCh k }, .noop) := by
  unfold kbProcess
  by_cases hb : env.bindings = []
  · simp [hb]
  · have hl : (c.kbLastKey == 46) = false := by simpa using hlast
    have hl' : (decide (c.kbLastKey = 46)) = false := by simpa using hlast
    simp only [hb, if_false, kbReinterpret, hrel, Bool.false_eq_true, hl', Bool.false_or, Bool.false_and, kbFind, hk,
      List.find?_nil]
    by_cases h44 : c.kbLastKey = 44 <;> by_cases hch : kbCh k = 46 <;> simp [h44, hch]

/-- non-vacuity: the key binder at work (bindings of the stock configuration).  `a` opens a menu of 7 candidates, the period
pages down (has_menu → Page_Down through the nested chain: the selector tags the segment `paging`), the comma now pages
back (paging → Page_Up), Control+n moves the highlight (composing → Down); then `a`, period, `b`: the letter after the
period puts the period into the input after all (ReinterpretPagingKey) — input `a.b` -/
example :
    let cands : List Cand := (List.range 7).map (fun i => Cand.mk [65 + UInt8.ofNat i] [] [] 0 1 true)
    let cfg : PSegCfg := { alphabet := [97, 98], initials := [97, 98], finals := [], delimiters := [],
                           translate := fun inp g => if g.tags.abc && inp = [97] then cands else [] }
    let env : Env := { pageSize := 3, alphabet := [97, 98], initials := [97, 98],
                       processors := [.keyBinder, .speller, .selector, .navigator, .expressEditor],
                       bindings := [⟨.hasMenu, 46, 0, .send [(0xff56, 0)]⟩, ⟨.paging, 44, 0, .send [(0xff55, 0)]⟩,
                                    ⟨.composing, 110, 4, .send [(0xff54, 0)]⟩],
                       recompose := composeP cfg }
    let c1 := runOpsK (fun _ => env) {} [.key 97 0, .key 46 0]
    let c2 := runOpsK (fun _ => env) c1 [.key 44 0, .key 110 4]
    (view env c1).menu.map (fun m => (m.pageNo, m.highlighted)) = some (1, 0) ∧
    (view env c2).menu.map (fun m => (m.pageNo, m.highlighted)) = some (0, 1) ∧
    (runOpsK (fun _ => env) {} [.key 97 0, .key 46 0, .key 98 0]).input = [97, 46, 98] ∧
    (runOpsK (fun _ => env) {} [.key 44 0]).isComposing = false := by
  decide

/-- the page number reported is the one containing the highlighted candidate, and the highlighted
entry of the page is the selected candidate of the last segment -/
theorem page_contains_highlight (env : Env) (hps : 0 < env.pageSize) (c : Ctx) (m : MenuView)
    (hm : (view env c).menu = some m) :
    ∃ g, c.comp.segs.getLast? = some g ∧ m.pageNo * m.pageSize + m.highlighted = g.selIdx ∧
      m.cands[m.highlighted]? = g.selected :=
  view_menu_highlight hps hm

/-- the numeric preedit clauses hold for *every* composition (they are a property of how GetPreedit
builds its result, independent of the invariant) -/
theorem preedit_numeric (c : Comp) (full : Bytes) (caret : Nat) (soft : Bytes) :
    (c.getPreedit full caret soft).WF :=
  getPreedit_wf c full caret soft

/-- **UTF-8 clause**: sel_start, sel_end and the cursor of the reported preedit are character boundaries of the
preedit text — for EVERY composition (not only reachable ones) whose own input and raw input are ASCII (all the
key path can produce), whose selected candidates' text / preedit / post-TAB prompt each start a character
(true of valid UTF-8), and whose soft cursor + prompt starts a character -/
theorem preedit_utf8_boundaries (c : Comp) (full : Bytes) (caret : Nat) (soft : Bytes)
    (hci : ∀ b ∈ c.input, b.toNat < 0x80) (hfull : ∀ b ∈ full, b.toNat < 0x80)
    (hcand : ∀ g ∈ c.segs, ∀ cd, g.selected = some cd → CandOK cd)
    (hprompt : PieceOK (soft ++ c.prompt)) :
    let p := c.getPreedit full caret soft
    Bnd p.text p.selStart ∧ Bnd p.text p.selEnd ∧ Bnd p.text p.caretPos :=
  getPreedit_boundaries c full caret soft hci hfull hcand hprompt

/-- non-vacuity of the UTF-8 clause: a converted 3-byte character followed by the highlighted raw rest -/
example :
    let g1 : Seg := { status := .selected, start := 0, stop := 1, length := 1, menu := some [Cand.mk [0xe6, 0x97, 0xa5] [] [] 0 1 true] }
    let g2 : Seg := { status := .guess, start := 1, stop := 2, length := 1, menu := some [] }
    let p := ({ input := [97, 98], segs := [g1, g2] } : Comp).getPreedit [97, 98] 2 []
    p.text = [0xe6, 0x97, 0xa5, 98] ∧ p.selStart = 3 ∧ p.selEnd = 4 ∧ p.caretPos = 4 := by decide

/-- non-vacuity: a concrete two-candidate state reached by typing `a` is composing and shows a menu -/
example :
    let tr : Bytes → Seg → List Cand := fun _ g => [Cand.mk [65] [] [] g.start g.stop true, Cand.mk [66] [] [] g.start g.stop true]
    let cfg : SegCfg := { alphabet := [97], initials := [97], finals := [], delimiters := [], translate := tr }
    let env : Env := { pageSize := 5, alphabet := [97], initials := [97], processors := [.speller], recompose := compose cfg }
    let v := view env (runOps env {} [.key 97 0, .highlight 1])
    v.composing = true ∧ (v.menu.map (·.highlighted)) = some 1 := by
  decide

/-- the defect repaired in /repo (fix: reject delete_candidate for an index with no candidate): with the
old `DeleteCandidate` (store any index) the invariant fails — witness: one candidate, delete index 7 -/
theorem old_deleteCandidate_counterexample :
    let g : Seg := { menu := some [{ text := [65], start := 0, stop := 1 }], stop := 1, length := 1, status := .guess }
    ¬ SelOK { g with selIdx := 7 } := by
  intro g h
  have := h [{ text := [65], start := 0, stop := 1 }] rfl (by simp)
  simp at this

end C02
