import RimeModel.Session.Commit
import RimeModel.Session.InvProc
import RimeModel.Session.PunctComposeOK
import RimeModel.Session.RecogComposeOK
import RimeModel.Session.Shape
import RimeModel.Session.KeyBinderCommit
/-!
C03 — what is committed is what was shown, and it is delivered exactly once.  Property theorems only.
Model: RimeModel/Session/* (see C02).  `env.format` is the shape formatter (identity when full_shape is off).
-/
namespace C03
open RimeModel.Session

/-- (a) `commit_composition` on a composing state delivers exactly (the formatted) commit preview that
`get_context` reported immediately before: the session buffer grows by `format preview` and by nothing else. -/
theorem commit_eq_preview (env : Env) (c : Ctx) (hc : c.isComposing = true) :
    (apiStep env c .commitComposition).1.commitBuf = c.commitBuf ++ env.format (view env c).preview := by
  show (Ctx.commit env c).1.commitBuf = _
  unfold Ctx.commit view
  simp only [hc, Bool.not_true, Bool.false_eq_true, if_false, if_true]
  rfl

/-- (b) selecting a candidate that covers the rest of the input (candidate and last segment both end at
the end of the raw input): the text to commit is the text shown ahead of the last segment followed by the
candidate's text — delivered at once by an auto-committing editor, otherwise it is the new commit preview
and nothing is delivered yet.  (`shownPrefix` = commit text of the earlier segments: confirmed selections
and the top guess of unconfirmed ones, exactly what the preedit shows ahead of the highlighted part.) -/
theorem select_to_end (env : Env) (c : Ctx) (g : Seg) (i : Nat) (cd : Cand)
    (hlast : c.comp.segs.getLast? = some g) (hcand : g.candAt i = some cd)
    (hstop : cd.stop = c.input.length) (hg : g.stop = c.input.length)
    (hlen : c.comp.input.length ≤ c.input.length) (hd : c.getOption "dumb" = false) :
    let c' := (Ctx.select env c i).1
    (c.getOption "_auto_commit" = true → c'.commitBuf = c.commitBuf ++ env.format (shownPrefix c ++ cd.text)) ∧
    (c.getOption "_auto_commit" = false → c'.commitText = shownPrefix c ++ cd.text ∧ c'.commitBuf = c.commitBuf) := by
  intro c'
  have hsegs : (c.modLastSeg fun g => { g with selIdx := i, status := .selected }).comp.segs =
      c.comp.segs.dropLast ++ [{ g with selIdx := i, status := .selected }] := by
    simp only [Ctx.modLastSeg]; exact modLast_snoc _ _ hlast
  have h := onSelect_end env (c.modLastSeg fun g => { g with selIdx := i, status := .selected })
    c.comp.segs.dropLast { g with selIdx := i, status := .selected } cd hsegs hcand hg hstop hlen hd
  have hc' : c' = { Ctx.onSelect env (c.modLastSeg fun g => { g with selIdx := i, status := .selected }) with navSpans := [] } := by
    show (Ctx.select env c i).1 = _
    unfold Ctx.select
    rw [hlast]
    simp only [hcand]
  rw [hc']
  exact h

/-- (b) for every state REACHABLE by a finite API history from a fresh session (any environment with
`ComposeSpec`): the length hypothesis of `select_to_end` is an invariant, so only the property's own
premise remains (candidate and last segment end at the end of the raw input, option `dumb` off) -/
theorem select_to_end_reachable (env : Env) (hrc : ComposeSpec env.recompose) (c0 : Ctx)
    (h0 : c0.input = [] ∧ c0.caret = 0 ∧ c0.comp.segs = [] ∧ c0.comp.input = []) (ops : List Op)
    (g : Seg) (i : Nat) (cd : Cand)
    (hlast : (runOps env c0 ops).comp.segs.getLast? = some g) (hcand : g.candAt i = some cd)
    (hstop : cd.stop = (runOps env c0 ops).input.length) (hg : g.stop = (runOps env c0 ops).input.length)
    (hd : (runOps env c0 ops).getOption "dumb" = false) :
    let c := runOps env c0 ops
    let c' := (Ctx.select env c i).1
    (c.getOption "_auto_commit" = true → c'.commitBuf = c.commitBuf ++ env.format (shownPrefix c ++ cd.text)) ∧
    (c.getOption "_auto_commit" = false → c'.commitText = shownPrefix c ++ cd.text ∧ c'.commitBuf = c.commitBuf) := by
  have hinv : Inv (runOps env c0 ops) :=
    runOps_inv hrc ops ⟨⟨by rw [h0.1, h0.2.1]; exact Nat.le_refl _, by rw [h0.2.2.1]; exact SegsOK.nil⟩,
      by rw [h0.2.2.2, h0.1]; exact Nat.le_refl _⟩
  exact select_to_end env _ g i cd hlast hcand hstop hg hinv.cinput_le hd

/-- the same through the API: `select_candidate_on_current_page i` addresses global index
`page_start + i`, where `page_start` is the first index of the page `get_context` displays -/
theorem select_on_page_index (env : Env) (c : Ctx) (g : Seg) (i : Nat)
    (hm : c.hasMenu = true) (hi : i < env.pageSize) (hlast : c.comp.segs.getLast? = some g) :
    (apiStep env c (.selectOnPage i)).1 = (Ctx.select env c (g.selIdx / env.pageSize * env.pageSize + i)).1 := by
  show (onCurrentPage env c i (Ctx.select env)).1 = _
  unfold onCurrentPage
  simp [hm, hlast, Nat.not_le.mpr hi]

/-- (c) after a commit the session no longer composes that input (for every Compose that maps the empty
input with no segments to no segments — discharged for the concrete port by `compose_empty_spec`) -/
theorem commit_clears (env : Env) (he : ComposeEmptySpec env.recompose) (c : Ctx) (hc : c.isComposing = true) :
    let c' := (apiStep env c .commitComposition).1
    c'.isComposing = false ∧ c'.input = [] ∧ c'.caret = 0 :=
  commit_not_composing env he c hc

theorem commit_clears_concrete (env : Env) (cfg : SegCfg) (henv : env.recompose = compose cfg) (c : Ctx)
    (hc : c.isComposing = true) : (apiStep env c .commitComposition).1.isComposing = false :=
  (commit_clears env (by rw [henv]; exact compose_empty_spec cfg) c hc).1

/-- (c) for schemas with the punctuation components (`composeP`) -/
theorem commit_clears_punct (env : Env) (cfg : PSegCfg) (henv : env.recompose = composeP cfg) (c : Ctx)
    (hc : c.isComposing = true) : (apiStep env c .commitComposition).1.isComposing = false :=
  (commit_clears env (by rw [henv]; exact composeP_empty_spec cfg) c hc).1

/-- (c) for schemas with the recognizer family (`composeR`: any list of ascii / matcher / abc / punct / affix / fallback
segmentors, any pattern search functions, any affix configurations) -/
theorem commit_clears_recognizer (env : Env) (cfg : RSegCfg) (henv : env.recompose = composeR cfg) (c : Ctx)
    (hc : c.isComposing = true) : (apiStep env c .commitComposition).1.isComposing = false :=
  (commit_clears env (by rw [henv]; exact composeR_empty_spec cfg) c hc).1

/-- (a) on a schema with the recognizer family, through the top API layer (`apiStepK`: the environment of the current
`full_shape`, the ascii composer's listener applied at the end): `commit_composition` on a composing state delivers
exactly the formatted commit preview reported just before — the prefix and suffix segments the affix segmentor splits
off are `phony` and contribute to neither — and nothing else -/
theorem commit_eq_preview_recognizer (envOf : Bool → Env) (c : Ctx) (hc : c.isComposing = true) :
    let env := envOf (c.getOption "full_shape")
    (apiStepK envOf c .commitComposition).1.commitBuf = c.commitBuf ++ env.format (view env c).preview := by
  show (acSettle (apiStep (envOf (c.getOption "full_shape")) c .commitComposition).1).commitBuf = _
  rw [acSettle_commitBuf]
  exact commit_eq_preview _ c hc

/-- (d) a key the recognizer takes (a pattern matches the input plus the character) is added to the input and delivers
nothing: the commit buffer is what it was, whatever the recomposition makes of the new input -/
theorem recognizer_key_delivers_nothing (env : Env) (k : Key) (c : Ctx) :
    (recognizerProcess env k c).1.commitBuf = c.commitBuf := by
  unfold recognizerProcess
  (repeat' split) <;> first | rfl | exact pushInput_commitBuf c _

/-- (a) for the punctuator's own commit: a `{commit: x}` definition (Punctuator::AutoCommitPunct, run on the state
the key press has just produced) delivers exactly the formatted preview of that state and nothing else -/
theorem punct_autocommit_eq_preview (env : Env) (key : Bool × UInt8) (t : Bytes) (c : Ctx) (hc : c.isComposing = true) :
    (punctFinish env key (.commit t) c).commitBuf = c.commitBuf ++ env.format (view env c).preview := by
  show (Ctx.commit env c).1.commitBuf = _
  unfold Ctx.commit view
  simp only [hc, Bool.not_true, Bool.false_eq_true, if_false, if_true]
  rfl

/-- non-vacuity: `a` then `.` (`{commit: 。}`) in a fluid schema — the punctuator's commit delivers the preview shown after
the key was added to the input (`A。`), at once and once -/
example :
    let m : List (UInt8 × PunctDef) := [(46, .commit [0xe3, 0x80, 0x82])]
    let cfg : PSegCfg := { alphabet := [97], initials := [97], finals := [], delimiters := [],
                           translate := fun _ g => if g.tags.abc then [Cand.mk [65] [] [] g.start g.stop true] else [], punct := m }
    let env : Env := { pageSize := 5, alphabet := [97], initials := [97], processors := [.speller, .punctuator, .selector, .fluidEditor],
                       punct := { half := m }, recompose := composeP cfg }
    let c := runOps env {} [.key 97 0]
    let c1 := Ctx.pushInput env c 46
    (view env c1).preview = [65, 0xe3, 0x80, 0x82] ∧ punctTranslated c1 = true ∧
    (runOps env c [.key 46 0]).commitBuf = [65, 0xe3, 0x80, 0x82] ∧ (runOps env c [.key 46 0]).isComposing = false := by
  decide

/-- (b) for every state reachable on a schema WITH A KEY BINDER (`runOpsK`: bindings redirected through the nested chain,
option actions incl. those that change `full_shape`; both recomposition functions with `ComposeSpec`): selecting a
candidate that covers the rest of the input commits / previews exactly the text shown, in the environment `envOf b` of
either shape -/
theorem select_to_end_reachable_keybinder (envOf : Bool → Env) (hrc : ∀ b, ComposeSpec (envOf b).recompose) (c0 : Ctx)
    (h0 : c0.input = [] ∧ c0.caret = 0 ∧ c0.comp.segs = [] ∧ c0.comp.input = []) (ops : List Op) (b : Bool)
    (g : Seg) (i : Nat) (cd : Cand)
    (hlast : (runOpsK envOf c0 ops).comp.segs.getLast? = some g) (hcand : g.candAt i = some cd)
    (hstop : cd.stop = (runOpsK envOf c0 ops).input.length) (hg : g.stop = (runOpsK envOf c0 ops).input.length)
    (hd : (runOpsK envOf c0 ops).getOption "dumb" = false) :
    let c := runOpsK envOf c0 ops
    let c' := (Ctx.select (envOf b) c i).1
    (c.getOption "_auto_commit" = true → c'.commitBuf = c.commitBuf ++ (envOf b).format (shownPrefix c ++ cd.text)) ∧
    (c.getOption "_auto_commit" = false → c'.commitText = shownPrefix c ++ cd.text ∧ c'.commitBuf = c.commitBuf) := by
  have hinv : Inv (runOpsK envOf c0 ops) :=
    runOpsK_inv hrc ops ⟨⟨by rw [h0.1, h0.2.1]; exact Nat.le_refl _, by rw [h0.2.2.1]; exact SegsOK.nil⟩,
      by rw [h0.2.2.2, h0.1]; exact Nat.le_refl _⟩
  exact select_to_end (envOf b) _ g i cd hlast hcand hstop hg hinv.cinput_le hd

/-- (d) **a key bound to an option action delivers nothing**: when the binding the key binder finds for a key is `toggle:`,
`set_option:` or `unset_option:` (plain switch, radio group, switch index, or an option no switch declares), the key is
reported handled and the session's commit buffer is exactly what it was — whatever the recomposition the option change
triggers.  (Also true of ReinterpretPagingKey's `PushInput`, which runs before the lookup.) -/
theorem keybinder_option_action_delivers_nothing (env : Env) (reent : Key → Ctx → Ctx × Bool) (k : Key) (c : Ctx) (b : KbBinding)
    (hne : env.bindings ≠ []) (hre : (kbReinterpret env k c).2 = false)
    (hb : kbFind env k (kbReinterpret env k c).1 = some b) (ha : b.action.isOption = true) :
    (kbProcess reent env k c).2 = .accepted ∧ (kbProcess reent env k c).1.commitBuf = c.commitBuf := by
  unfold kbProcess
  simp only [hne, if_false, hre, Bool.false_eq_true, hb]
  exact ⟨trivial, by rw [kbPerform_option_commitBuf reent b.action ha, kbReinterpret_commitBuf]⟩

/-- non-vacuity: Shift+space bound to `toggle: full_shape` while `a` is being composed — handled, nothing delivered, the
option is on afterwards; then space commits the candidate through the shape formatter of the new value, once -/
example :
    let cfg : PSegCfg := { alphabet := [97], initials := [97], finals := [], delimiters := [],
                           translate := fun _ g => if g.tags.abc then [Cand.mk [65] [] [] g.start g.stop true] else [] }
    let envOf : Bool → Env := fun full =>
      { pageSize := 5, alphabet := [97], initials := [97], processors := [.keyBinder, .speller, .selector, .expressEditor],
        bindings := [⟨.always, 32, 1, .toggle "full_shape"⟩], format := if full then shapeFormat else id, recompose := composeP cfg }
    let c := runOpsK envOf { options := [("_auto_commit", true)] } [.key 97 0]
    let r := apiStepK envOf c (.key 32 1)
    r.2.ok = true ∧ r.1.commitBuf = [] ∧ r.1.getOption "full_shape" = true ∧ r.1.input = [97] ∧
    (runOpsK envOf r.1 [.key 32 0]).commitBuf = [0xef, 0xbc, 0xa1] ∧
    (apiStepK envOf (runOpsK envOf r.1 [.key 32 0]) .getCommit).2 = ⟨true, [0xef, 0xbc, 0xa1]⟩ := by
  decide

/-- (d) **a letter typed while Caps Lock is on** (ascii composer with a Caps_Lock switch style, good_old_caps_lock off): the key
is handled and exactly one character — the letter with its case swapped, through the shape formatter — is appended to the
commit buffer; the context is untouched. -/
theorem ascii_capslock_letter_delivered_once (env : Env) (st : AcStyle) (k : Key) (c : Ctx)
    (hkey : k.code ≠ xkCapsLock) (hcaps : k.caps = true) (hgood : env.goodOldCapsLock = false) (hrel : k.release = false)
    (hctrl : k.ctrl = false) (hal : isAsciiAlpha k.code = true) :
    acCapsLock env st k c = ({ c with commitBuf := c.commitBuf ++ env.format [swapCase k.code] }, .accepted) := by
  unfold acCapsLock
  simp [hkey, hcaps, hgood, hrel, hctrl, hal]

/-- (d) the end of the ascii composer's temporary inline mode (its context-update listener) delivers nothing -/
theorem ascii_inline_end_delivers_nothing (c : Ctx) : (acSettle c).commitBuf = c.commitBuf :=
  acSettle_commitBuf c

/-- non-vacuity: Caps_Lock is `clear`; with Caps Lock on (Lock bit set) `a` is delivered as `A`, once, and nothing is composed -/
example :
    let env : Env := { pageSize := 5, alphabet := [97], initials := [97], processors := [.asciiComposer, .speller, .expressEditor],
                       asciiKeys := [(xkCapsLock, .clear)] }
    let r := apiStepK (fun _ => env) {} (.key 97 kLock)
    r.2.ok = true ∧ r.1.commitBuf = [65] ∧ r.1.isComposing = false ∧
    (apiStepK (fun _ => env) r.1 .getCommit).2 = ⟨true, [65]⟩ ∧
    (apiStepK (fun _ => env) (apiStepK (fun _ => env) r.1 .getCommit).1 .getCommit).2 = ⟨false, []⟩ := by
  decide

/-- (d) `get_commit` returns the whole buffer and empties it; with an empty buffer it returns nothing -/
theorem read_returns_buffer (env : Env) (c : Ctx) (h : c.commitBuf ≠ []) :
    apiStep env c .getCommit = ({ c with commitBuf := [] }, ⟨true, c.commitBuf⟩) := by
  simp [apiStep, h]

theorem read_nothing (env : Env) (c : Ctx) (h : c.commitBuf = []) :
    apiStep env c .getCommit = (c, ⟨false, []⟩) := by
  simp [apiStep, h]

/-- an immediate second read returns nothing -/
theorem second_read_empty (env : Env) (c : Ctx) :
    (apiStep env (apiStep env c .getCommit).1 .getCommit).2 = ⟨false, []⟩ := by
  by_cases h : c.commitBuf = [] <;> simp [apiStep, h]

/-- (d) the delivery log: a read returns the concatenation, in order, of everything sunk since the previous
read (Session::OnCommit appends, RimeGetCommit copies then resets) -/
theorem delivery_exactly_once (d : Delivery) (ts : List Bytes) (h0 : d.buf = []) :
    ((ts.foldl Delivery.sink d).read).2 = (if ts.flatten = [] then none else some ts.flatten) ∧
    ((ts.foldl Delivery.sink d).read).1.read.2 = none := by
  have hbuf : ∀ (ts : List Bytes) (d : Delivery), (ts.foldl Delivery.sink d).buf = d.buf ++ ts.flatten := by
    intro ts
    induction ts with
    | nil => intro d; simp
    | cons t ts ih => intro d; simp [ih, Delivery.sink, List.append_assoc]
  have hb := hbuf ts d
  rw [h0, List.nil_append] at hb
  unfold Delivery.read
  rw [hb]
  by_cases he : ts.flatten = [] <;> simp [he, hb]

/-- the API read is the abstract read on the session buffer -/
theorem getCommit_refines_read (env : Env) (c : Ctx) :
    let r := apiStep env c .getCommit
    let a := (Delivery.mk c.commitBuf).read
    r.1.commitBuf = a.1.buf ∧ (if r.2.ok then some r.2.text else none) = a.2 := by
  by_cases h : c.commitBuf = [] <;> simp [apiStep, Delivery.read, h]

/-- non-vacuity of (b): a state meeting its hypotheses — one segment over "a", candidate covers it -/
example :
    let g : Seg := { status := .guess, start := 0, stop := 1, length := 1, menu := some [Cand.mk [65] [] [] 0 1 true] }
    let c : Ctx := { input := [97], caret := 1, comp := { input := [97], segs := [g] }, options := [("_auto_commit", true)] }
    c.comp.segs.getLast? = some g ∧ g.candAt 0 = some (Cand.mk [65] [] [] 0 1 true) ∧
    (1 : Nat) = c.input.length ∧ g.stop = c.input.length ∧ c.comp.input.length ≤ c.input.length ∧
    c.getOption "dumb" = false := by decide

end C03
