import RimeModel.C04.MenuSpec
import RimeModel.C04.SegLemmas
import RimeModel.C04.MergedLemmas
import RimeModel.C04.UniqLemmas
import RimeModel.C04.UniqMenu
/-!
# C04 — menu pages are windows onto one stable, duplicate-free candidate list

Model: `RimeModel/C04/Menu.lean` (Menu::Prepare / CreatePage / GetCandidateAt / empty over a lazily
consumed translation), `Seg.lean` (RimeGetContext's page arithmetic, the candidate iterator,
highlight / change_page / selector paging — once over the lazy menu, once over the full list as the
session model `RimeModel.Session` does), `Translation.lean` (MergedTranslation with the exact `Elect`,
CacheTranslation, DistinctTranslation, UniquifiedTranslation sharing the menu cache,
SingleCharFirstTranslation::Rearrange).  All statements are for every menu / list / call sequence.
-/
namespace C04
open RimeModel.C04

variable {α τ : Type}

/-! ## (a)(b) one stable list -/

/-- **cache_prefix.**  A menu that represents `full` (cache ++ what the translation will still yield
= `full`) still represents the same `full` after any call, and the call only appended to the cache:
candidates move from "pending" to "cached", never back, never reordered. -/
theorem cache_prefix (m : Menu α) (full : List α) (h : m.Repr full) (op : MenuOp) :
    (m.apply op).Repr full ∧ ∃ moved, (m.apply op).cache = m.cache ++ moved := by
  cases op with
  | prepare n => exact ⟨prepare_repr h n, prepare_cache_prefix m n⟩
  | createPage ps pn =>
    by_cases hps : 0 < ps
    · obtain ⟨a, _, c, _⟩ := createPage_spec h ps pn hps
      exact ⟨a, c⟩
    · -- page_size 0: `end_pos = start_pos = 0 ≤ candidates_.size()`, nothing is fetched
      have h0 : ps = 0 := by omega
      subst h0
      have : (m.createPage 0 pn).2 = m := by
        unfold Menu.createPage
        simp
      show ((m.createPage 0 pn).2).Repr full ∧ ∃ moved, ((m.createPage 0 pn).2).cache = m.cache ++ moved
      rw [this]; exact ⟨h, [], by simp⟩
  | getCandidateAt i =>
    obtain ⟨_, a, _, c⟩ := getCandidateAt_spec h i
    exact ⟨a, c⟩

/-- **cache_prefix**, for call sequences: the represented list is fixed at menu creation. -/
theorem cache_prefix_ops (m : Menu α) (full : List α) (h : m.Repr full) (ops : List MenuOp) :
    (ops.foldl Menu.apply m).Repr full ∧ ∃ moved, (ops.foldl Menu.apply m).cache = m.cache ++ moved := by
  induction ops generalizing m with
  | nil => exact ⟨h, [], by simp⟩
  | cons op ops ih =>
    obtain ⟨a, mv, hmv⟩ := cache_prefix m full h op
    obtain ⟨b, mv', hmv'⟩ := ih (m.apply op) a
    exact ⟨b, mv ++ mv', by rw [List.foldl_cons, hmv', hmv, List.append_assoc]⟩

/-- **prepare_count.**  `Prepare(n)` returns `max |cache| (min n |full|)`: what was already cached, or
as many of the first `n` candidates as exist. -/
theorem prepare_count (m : Menu α) (full : List α) (h : m.Repr full) (n : Nat) :
    (m.prepare n).2 = max m.cache.length (min n full.length) :=
  prepare_count_eq h n

/-- **prepare_count**, the lemma the session model relies on: at every place the code uses the
returned count (`Selector::NextPage`: `count <= page_start`, `index >= count`;
`Selector::NextCandidate`; `Context::Highlight`'s clamp; `Speller`: `Prepare(2) == 1`;
`Punctuator`: `Prepare(2) < 2`, `Prepare(sel+2) == 0` and `% candidate_count()`) the result is the
same as with `min n |full|`, however much had been cached before. -/
theorem prepare_count_uses (m : Menu α) (full : List α) (h : m.Repr full) (sel ps index : Nat) (hps : 0 < ps) (cycle : Bool) :
    nextPageIndex (m.prepare ((sel + ps) / ps * ps + ps)).2 sel ps cycle
        = nextPageIndex (min ((sel + ps) / ps * ps + ps) full.length) sel ps cycle ∧
    nextCandidateIndex (m.prepare (sel + 1 + 1)).2 sel = nextCandidateIndex (min (sel + 1 + 1) full.length) sel ∧
    highlightIndex (m.prepare (index + 1)).2 index = highlightIndex (min (index + 1) full.length) index ∧
    uniqueCandidate (m.prepare 2).2 = uniqueCandidate (min 2 full.length) ∧
    lacksPair (m.prepare 2).2 = lacksPair (min 2 full.length) ∧
    alternateIndex (m.prepare (sel + 2)).2 sel = alternateIndex (min (sel + 2) full.length) sel := by
  have hc := Repr.length_le h
  refine ⟨?_, ?_, ?_, ?_, ?_, ?_⟩
  · rw [prepare_count_eq h]; exact nextPageIndex_count hc sel ps hps cycle
  · rw [prepare_count_eq h]; exact nextCandidateIndex_count hc sel
  · rw [prepare_count_eq h]; exact highlightIndex_count hc index
  · rw [prepare_count_eq h]; exact uniqueCandidate_count hc
  · rw [prepare_count_eq h]; exact lacksPair_count hc
  · rw [prepare_count_eq h]; exact alternateIndex_count hc sel

/-- **page_window.**  `CreatePage(ps, p)` returns NULL exactly when `ps*p ≥ |full|`; otherwise the page
holds `(full.drop (ps*p)).take ps` (element `i` of page `p` is `full[ps*p+i]`), with the page size
and number it was asked for. -/
theorem page_window (m : Menu α) (full : List α) (h : m.Repr full) (ps p : Nat) (hps : 0 < ps) :
    match (m.createPage ps p).1 with
    | none => full.length ≤ ps * p
    | some pg => ps * p < full.length ∧ pg.cands = (full.drop (ps * p)).take ps ∧ pg.pageSize = ps ∧ pg.pageNo = p := by
  obtain ⟨_, _, _, d⟩ := createPage_spec h ps p hps
  cases hp : (m.createPage ps p).1 with
  | none => rw [hp] at d; exact d
  | some pg => rw [hp] at d; exact ⟨d.1, d.2.2.2.1, d.2.1, d.2.2.1⟩

/-- **last_page_iff.**  When the translation has no null `Peek()` pending (so that the `Next()` consuming
the last candidate also sets `exhausted`), the flag of the reported page is set exactly when nothing
follows the page: `is_last_page ↔ ps*(p+1) ≥ |full|`. -/
theorem last_page_iff (m : Menu α) (full : List α) (h : m.Repr full) (hn : Gen.NoNull m.rest) (ps p : Nat) (hps : 0 < ps)
    (pg : Page α) (hpg : (m.createPage ps p).1 = some pg) :
    pg.isLast = true ↔ ps * (p + 1) ≥ full.length := by
  obtain ⟨_, _, _, d⟩ := createPage_spec h ps p hps
  rw [hpg] at d
  exact ⟨d.2.2.2.2.1, d.2.2.2.2.2 hn⟩

/-- **last_page_sound** (no hypothesis on nulls): a set flag is never wrong. -/
theorem last_page_sound (m : Menu α) (full : List α) (h : m.Repr full) (ps p : Nat) (hps : 0 < ps)
    (pg : Page α) (hpg : (m.createPage ps p).1 = some pg) :
    pg.isLast = true → ps * (p + 1) ≥ full.length := by
  obtain ⟨_, _, _, d⟩ := createPage_spec h ps p hps
  rw [hpg] at d
  exact d.2.2.2.2.1

/-- **index_stable.**  After *any* sequence of Prepare / CreatePage / GetCandidateAt calls,
`GetCandidateAt(i)` returns `full[i]?` — fetching more, paging or re-reading never changes what an
index holds. -/
theorem index_stable (m : Menu α) (full : List α) (h : m.Repr full) (ops : List MenuOp) (i : Nat) :
    ((ops.foldl Menu.apply m).getCandidateAt i).1 = full[i]? :=
  (getCandidateAt_spec (cache_prefix_ops m full h ops).1 i).1

/-- **empty_iff.**  `Menu::empty()` (hence `Context::HasMenu`) implies an empty list, and is exact
when no null `Peek()` is pending. -/
theorem empty_iff (m : Menu α) (full : List α) (h : m.Repr full) :
    (m.empty = true → full = []) ∧ (Gen.NoNull m.rest → (m.empty = true ↔ full = [])) :=
  ⟨(empty_spec h).1, fun hn => ⟨(empty_spec h).1, (empty_spec h).2 hn⟩⟩

/-- **lazy_refines_full.**  Every observation a client makes through RimeGetContext (page number, last
flag, highlighted index, candidates), the candidate iterator, highlight_candidate(_on_current_page),
change_page and the selector's paging actions on the lazily filled menu equals the observation the
session model computes from the full list, for every call sequence; and the selected index evolves
identically.  This is what justifies `Seg.menu : Option (List Cand)` / `Seg.prepare n = min n |full|`
in `RimeModel.Session`. -/
theorem lazy_refines_full (cfg : Cfg) (hps : 0 < cfg.pageSize) (g : LSeg α) (full : List α)
    (h : g.menu.Repr full) (hn : Gen.NoNull g.menu.rest) (ops : List SegOp) :
    (LSeg.run cfg g ops).2 = (ASeg.run cfg { full := full, sel := g.sel } ops).2 ∧
    (LSeg.run cfg g ops).1.sel = (ASeg.run cfg { full := full, sel := g.sel } ops).1.sel ∧
    (LSeg.run cfg g ops).1.menu.Repr full := by
  have r : Refines g { full := full, sel := g.sel } := ⟨h, hn, rfl⟩
  obtain ⟨a, b⟩ := run_refines cfg hps ops r
  refine ⟨a, b.sel, ?_⟩
  have hf : ∀ (ops : List SegOp) (a : ASeg α), (ASeg.run cfg a ops).1.full = a.full := by
    intro ops
    induction ops with
    | nil => intro a; rfl
    | cons op ops ih =>
      intro a
      unfold ASeg.run
      simp only
      rw [ih]
      cases op <;> simp only [ASeg.step, ASeg.highlight] <;> (repeat' split) <;> rfl
  have := b.repr
  rw [hf] at this
  exact this

/-! ## merged translation -/

/-- **merged_is_merge.**  The output of `MergedTranslation` (any number of translations, any
`Candidate::compare`, null peeks included) is an interleaving of its inputs: a permutation of their
concatenation in which every input keeps its own order; and the Peek/Next loop terminates after
exactly `Σ |input|` steps. -/
theorem merged_is_merge (cmp : α → α → Int) (ts : List (Gen α)) :
    let m := Merged.ofList cmp ts
    IsMerge m.trs (Merged.output cmp m) ∧
    (Merged.output cmp m).Perm (ts.flatten) ∧
    (∀ t ∈ ts, t.Sublist (Merged.output cmp m)) ∧
    (iterNext cmp m.size m).exhausted = true := by
  intro m
  have hwf : m.WF := ofList_wf cmp ts
  have hm : IsMerge m.trs (Merged.output cmp m) := drain_isMerge cmp m.size m hwf (Nat.le_refl _)
  -- the translations kept by the merged translation are the non-exhausted inputs, in order
  have htrs : ∀ (ts : List (Gen α)) (m0 : Merged α), m0.WF →
      (ts.foldl (Merged.add cmp) m0).trs = m0.trs ++ ts.filter (fun t => !t.isEmpty) := by
    intro ts
    induction ts with
    | nil => intro m0 _; simp
    | cons t ts ih =>
      intro m0 h0
      rw [List.foldl_cons, ih _ (add_wf cmp h0 t)]
      unfold Merged.add
      cases ht : t with
      | nil => simp
      | cons x xs =>
        simp only [List.isEmpty_cons, Bool.false_eq_true, if_false]
        rw [(elect_wf cmp _ (by
          intro s hs
          rcases List.mem_append.mp hs with h1 | h1
          · exact h0.live s h1
          · rw [List.mem_singleton.mp h1]; intro hh; cases hh)).2]
        simp
  have hkept : m.trs = ts.filter (fun t => !t.isEmpty) := by
    have := htrs ts {} Merged.WF.empty
    simp only [List.nil_append] at this
    exact this
  have hflat : ∀ (ts : List (Gen α)), (ts.filter (fun t => !t.isEmpty)).flatten = ts.flatten := by
    intro ts
    induction ts with
    | nil => rfl
    | cons t ts ih =>
      cases t with
      | nil => simpa using ih
      | cons x xs => simp [ih]
  refine ⟨hm, ?_, ?_, drain_terminates cmp m.size m hwf (Nat.le_refl _)⟩
  · have := hm.perm
    rw [hkept, hflat] at this
    exact this
  · intro t ht
    cases hte : t with
    | nil => exact List.nil_sublist _
    | cons x xs =>
      apply hm.sublist
      rw [hkept, ← hte]
      exact List.mem_filter.mpr ⟨ht, by rw [hte]; rfl⟩

/-- **elect_scans.**  While every kept translation is non-exhausted (an invariant: `operator+=` skips
exhausted translations and `Next` erases the one it exhausts) `Elect` erases nothing and elects a
valid index — its `erase; k = 0; continue` branch and the "failed to elect" branch are dead code. -/
theorem elect_scans (cmp : α → α → Int) (m : Merged α) (h : AllLive m.trs) :
    (m.elect cmp).trs = m.trs ∧ (m.elect cmp).WF :=
  ⟨(elect_wf cmp m h).2, (elect_wf cmp m h).1⟩

/-- **cache_translation_transparent.**  `CacheTranslation` yields exactly what it wraps. -/
theorem cache_translation_transparent (t : CacheTr α) (h : t.Inv) :
    (t.peek).1 = t.inner.peek ∧ (t.peek).2.inner = t.inner ∧ (t.peek).2.Inv ∧
    (t.next).1.inner = t.inner.tail ∧ (t.next).1.Inv :=
  ⟨(CacheTr.peek_spec h).1, (CacheTr.peek_spec h).2.1, (CacheTr.peek_spec h).2.2,
   (CacheTr.next_spec h).1, (CacheTr.next_spec h).2.1⟩

/-- **distinct_output.**  `DistinctTranslation` yields the first occurrence of every text, in order;
its texts are pairwise different. -/
theorem distinct_output [DecidableEq τ] (text : α → τ) (src : List α) :
    Distinct.output text src = dedupBy text src [] ∧ ((Distinct.output text src).map text).Nodup ∧
    (Distinct.output text src).Sublist src := by
  have e : Distinct.output text src = dedupBy text src [] := by
    unfold Distinct.output
    exact Distinct.drain_eq text src.length { src := src } (Nat.le_refl _) (by intro x xs _; simp)
  rw [e]
  exact ⟨rfl, (dedupBy_spec text src []).1, (dedupBy_spec text src []).2.2⟩

/-! ## (c) duplicate-free -/

/-- **uniq_nodup.**  When the uniquified translation is consumed directly by `Menu::Prepare` (the
uniquifier is the last filter), the texts of the menu cache are pairwise different after every
sequence of `Prepare` calls — for the code before and after commit 59481ca alike (`fixed` is arbitrary):
the menu has pushed every candidate it pulled into the shared cache before it calls `Next()`. -/
theorem uniq_nodup [DecidableEq τ] (text : α → τ) (fixed : Bool) (src : List α) (ns : List Nat) :
    let m := ns.foldl (fun m n => (FMenu.prepare text fixed m n).1) (FMenu.ofUniq text fixed src)
    ((m.cache.map (fun g => text g.first)).Nodup) := by
  intro m
  have : ∀ (ns : List Nat) (m0 : FMenu α τ), FMenu.Inv text fixed m0 →
      FMenu.Inv text fixed (ns.foldl (fun m n => (FMenu.prepare text fixed m n).1) m0) := by
    intro ns
    induction ns with
    | nil => intro m0 h; exact h
    | cons n ns ih =>
      intro m0 h
      rw [List.foldl_cons]
      exact ih _ (FMenu.prepareLoop_inv text fixed n _ m0 h)
  have hinv := this ns _ (FMenu.ofUniq_inv text fixed src)
  have := hinv.nodup
  rw [List.nodup_append] at this
  exact this.1

/-- **uniq_nodup_any_consumer.**  The uniquifier as it is now (it remembers the texts it handed out):
for ANY sequence of menu-cache contents the consumer lets it see — a prefetching filter that shows it
an empty cache throughout, the menu itself, anything in between — the candidates pulled from it have
pairwise different texts. -/
theorem uniq_nodup_any_consumer [DecidableEq τ] (text : α → τ) (src : List α) (vis0 : List (Group α))
    (vs : List (List (Group α))) :
    ((Uniq.pulls text true vs (Uniq.create text true src vis0).1).map text).Nodup :=
  (pulls_nodup_aux text vs _ (create_headIn text src vis0)).1

/-- **fixed_single_char_nodup.**  cangjie5's filter order (`uniquifier` then `single_char_filter`, whose
`Rearrange` drains the uniquified stream before the menu cache has anything) with the uniquifier as it is
now: the menu's texts are pairwise different after every `Prepare`. -/
theorem fixed_single_char_nodup [DecidableEq τ] (text : α → τ) (isTable single : α → Bool) (src : List α) (ns : List Nat) :
    let m := ns.foldl (fun m n => (FMenu.prepare text true m n).1) (FMenu.ofUniqThenSingleChar text true isTable single src)
    ((m.cache.map (fun g => text g.first)).Nodup) := by
  intro m
  have : ∀ (ns : List Nat) (m0 : FMenu α τ), FMenu.Inv text true m0 →
      FMenu.Inv text true (ns.foldl (fun m n => (FMenu.prepare text true m n).1) m0) := by
    intro ns
    induction ns with
    | nil => intro m0 h; exact h
    | cons n ns ih =>
      intro m0 h
      rw [List.foldl_cons]
      exact ih _ (FMenu.prepareLoop_inv text true n _ m0 h)
  have hinv := this ns _ (FMenu.ofUniqThenSingleChar_inv text isTable single src)
  have := hinv.nodup
  rw [List.nodup_append] at this
  exact this.1

/-- **uniq_menu_is_menu.**  The menu over a uniquified translation (optionally with the prefetch queue of
a `single_char_filter` applied after it) behaves, at the level of the genuine first item of every
entry (its text, comment, preedit), exactly like a `Menu` over one fixed list: projecting the
stateful pair to a plain `Menu` commutes with `Prepare`, the count returned is the same, and the
represented list never changes.  So all the laws above hold for uniquified menus too, although the
uniquifier rewrites cached entries (it replaces them by `UniquifiedCandidate`s and appends to them). -/
theorem uniq_menu_is_menu [DecidableEq τ] (text : α → τ) (fixed : Bool) (m : FMenu α τ)
    (hinv : FMenu.Inv text fixed m) (hsub : FMenu.EmittedSub text fixed m) (n : Nat) :
    FMenu.proj text (m.prepare text fixed n).1 = ((FMenu.proj text m).prepare n).1 ∧
    (m.prepare text fixed n).2 = ((FMenu.proj text m).prepare n).2 ∧
    (FMenu.proj text (m.prepare text fixed n).1).Repr (FMenu.proj text m).full ∧
    FMenu.Inv text fixed (m.prepare text fixed n).1 ∧ FMenu.EmittedSub text fixed (m.prepare text fixed n).1 := by
  obtain ⟨a, b⟩ := fmenu_prepareLoop_proj text fixed n _ m hinv hsub (Nat.le_refl _)
  have a' : FMenu.proj text (m.prepare text fixed n).1 = ((FMenu.proj text m).prepare n).1 := a
  refine ⟨a', ?_, ?_, FMenu.prepareLoop_inv text fixed n _ m hinv, b⟩
  · show (m.prepare text fixed n).1.cache.length = ((FMenu.proj text m).prepare n).1.cache.length
    rw [← a']
    show _ = (firsts (m.prepare text fixed n).1.cache).length
    rw [firsts_length]
  · rw [a']
    exact prepare_repr rfl n

/-- **uniq_menu_list.**  Both ways engine.cc can build a uniquified menu start inside the invariant of
`uniq_menu_is_menu`; with the uniquifier as last filter the menu's list is `dedupBy text src []` —
the first occurrence of every text, which is how the session model's driver computes its menus. -/
theorem uniq_menu_list [DecidableEq τ] (text : α → τ) (fixed : Bool) (isTable single : α → Bool) (src : List α) :
    (FMenu.Inv text fixed (FMenu.ofUniq text fixed src) ∧ FMenu.EmittedSub text fixed (FMenu.ofUniq text fixed src) ∧
      (FMenu.proj text (FMenu.ofUniq text fixed src)).full = dedupBy text src []) ∧
    (FMenu.Inv text true (FMenu.ofUniqThenSingleChar text true isTable single src) ∧
      FMenu.EmittedSub text true (FMenu.ofUniqThenSingleChar text true isTable single src)) :=
  ⟨⟨FMenu.ofUniq_inv text fixed src, fmenu_ofUniq_emittedSub text fixed src, fmenu_ofUniq_full text fixed src⟩,
   ⟨FMenu.ofUniqThenSingleChar_inv text isTable single src, fmenu_ofUniqThenSingleChar_emittedSub text isTable single src⟩⟩

/-- **old_uniq_counterexample.**  The uniquifier before commit 59481ca consulted only the menu cache.
A consumer that never exposes a cache (as `SingleCharFirstTranslation::Rearrange` does) gets
duplicates from it: source texts `[1, 2, 1]` come out as `[1, 2, 1]`, and the menu built with
cangjie5's filter order lists text `1` at indices 0 and 2 — the defect found on cangjie5
(`cdl` + simplification + extended_charset: 𨱈 at 0 and 2).  The same source through the current code
gives `[1, 2]`. -/
theorem old_uniq_counterexample :
    Uniq.pulls (fun n : Nat => n) false [[], [], []] (Uniq.create (fun n : Nat => n) false [1, 2, 1] []).1 = [1, 2, 1] ∧
    ((FMenu.prepare (fun n : Nat => n) false
        (FMenu.ofUniqThenSingleChar (fun n : Nat => n) false (fun _ => true) (fun _ => true) [1, 2, 1]) 5).1.cache.map (·.first))
      = [1, 2, 1] ∧
    Uniq.pulls (fun n : Nat => n) true [[], [], []] (Uniq.create (fun n : Nat => n) true [1, 2, 1] []).1 = [1, 2] ∧
    ((FMenu.prepare (fun n : Nat => n) true
        (FMenu.ofUniqThenSingleChar (fun n : Nat => n) true (fun _ => true) (fun _ => true) [1, 2, 1]) 5).1.cache.map (·.first))
      = [1, 2] := by
  decide

/-! ## non-vacuity -/

/-- a menu with something cached, a null peek pending and more to come represents its list -/
example : (⟨[10, 11], [some 12, none, some 13]⟩ : Menu Nat).Repr [10, 11, 12, 13] := by
  unfold Menu.Repr; decide

/-- pages of that menu: page 1 of size 3 is `[13]` and is the last page; page 0 is not -/
example : ((⟨[10, 11], [some 12, some 13]⟩ : Menu Nat).createPage 3 1).1
    = some { pageSize := 3, pageNo := 1, isLast := true, cands := [13] } := by decide
example : ((⟨[10, 11], [some 12, some 13]⟩ : Menu Nat).createPage 3 0).1
    = some { pageSize := 3, pageNo := 0, isLast := false, cands := [10, 11, 12] } := by decide

/-- the `NoNull` hypothesis of `last_page_iff` is needed: with a trailing null peek the flag is late -/
example : (((⟨[], [some 1, some 2, none]⟩ : Menu Nat).createPage 2 0).1.map (·.isLast)) = some false := by decide

/-- `Prepare` returns the larger cached count when more was fetched earlier -/
example : ((⟨[1, 2, 3, 4], [some 5]⟩ : Menu Nat).prepare 2).2 = 4 := by decide

/-- a merged translation really interleaves: equal keys keep the earlier translation first (draw),
a better quality in the second translation overtakes -/
example : Merged.output (fun a b : Nat × Int => Key.compare ⟨0, 1, a.2⟩ ⟨0, 1, b.2⟩)
    (Merged.ofList (fun a b : Nat × Int => Key.compare ⟨0, 1, a.2⟩ ⟨0, 1, b.2⟩)
      [[some (1, 5), some (2, 3)], [some (3, 5), some (4, 4)]])
    = [some (1, 5), some (3, 5), some (4, 4), some (2, 3)] := by decide

/-- `Refines` is satisfiable by a non-trivial lazy segment -/
example : Refines (⟨⟨[10], [some 11, some 12]⟩, 1⟩ : LSeg Nat) ⟨[10, 11, 12], 1⟩ :=
  ⟨by unfold Menu.Repr; decide, by intro x hx; simp at hx; rcases hx with h | h <;> simp [h], rfl⟩

/-- the uniquifier merges a later duplicate into the cached entry when consumed by the menu -/
example : (FMenu.prepare (fun n : Nat => n % 10) true (FMenu.ofUniq (fun n : Nat => n % 10) true [1, 2, 11, 3]) 9).1.cache
    = [⟨1, [11]⟩, ⟨2, []⟩, ⟨3, []⟩] := by decide

end C04
