import RimeModel.Session.EditBufProof
import RimeModel.Session.ComposeLetters
/-!
C05 — editing keys act on the raw input exactly like a text buffer with a caret.  Property theorems only.

Model: the processor chain speller → selector → navigator → editor (express / fluid) of RimeModel/Session
with the default keymaps GENERATED from editor.cc / navigator.cc / selector.cc (RimeModel/Gen/Keymaps.lean;
the 34 keymap facts in RimeModel/Session/KeymapFacts.lean are re-checked by the kernel on every run).
Spec: `Buf` (RimeModel/Session/EditBuf.lean) — insert at caret, delete before/at caret, wrap-around
moves, Home/End, clear.
-/
namespace C05
open RimeModel.Session

/-- a fresh session of a schema in the class: empty input, and the layout options the selector and
navigator consult are off -/
structure Fresh (c : Ctx) : Prop where
  input : c.input = []
  caret : c.caret = 0
  segs : c.comp.segs = []
  noVertical : c.getOption "_vertical" = false
  noLinear : c.getOption "_linear" = false
  noHorizontal : c.getOption "_horizontal" = false

theorem fresh_J (env : Env) {c : Ctx} (h : Fresh c) : J env c :=
  ⟨by rw [h.input, h.caret]; exact Nat.le_refl _, by rw [h.input]; intro b hb; simp at hb, Or.inl ⟨h.input, h.segs⟩,
   h.noVertical, h.noLinear, h.noHorizontal⟩

/-- **C05, generic form.**  For every schema environment in the class `Cfg05` whose Compose satisfies
`LettersSpec`, and every finite sequence of editing keys (spelling letters of the schema, BackSpace, Delete,
KP_Left, KP_Right, Right, Home, End, Escape) from a fresh session: the raw input and caret equal those of the
plain text buffer, the per-key handled flags equal `text ≠ "" ∨ key is a letter`, and nothing is committed. -/
theorem chain_refines_buf (env : Env) (hcfg : Cfg05 env) (hls : LettersSpec env) (c0 : Ctx) (h0 : Fresh c0)
    (ks : List EditKey) (hks : ∀ k ∈ ks, ∀ b, k = .letter b → IsLetter env b) :
    let r := runEditKeys env c0 ks
    let s := runBuf {} ks
    r.1.input = s.1.text ∧ r.1.caret = s.1.caret ∧ r.2 = s.2 ∧ r.1.commitBuf = c0.commitBuf := by
  have h := runEditKeys_refines hcfg hls ks c0 [] (fresh_J env h0) hks
  have hb : c0.buf = ({} : Buf) := by simp [Ctx.buf, h0.input, h0.caret]
  rw [hb] at h
  obtain ⟨_, h2, h3, h4⟩ := h
  refine ⟨?_, ?_, h3, h4⟩
  · exact congrArg Buf.text h2
  · exact congrArg Buf.caret h2

/-- **C05 for the modelled engine**: `LettersSpec` is discharged for the concrete port of
`ConcreteEngine::Compose` (abc + fallback segmentors) with any translation oracle, for both editor flavours. -/
theorem chain_refines_buf_concrete (env : Env) (hcfg : Cfg05 env) (cfg : SegCfg) (henv : env.recompose = compose cfg)
    (ha : cfg.alphabet = env.alphabet) (hi : cfg.initials = env.initials) (c0 : Ctx) (h0 : Fresh c0)
    (ks : List EditKey) (hks : ∀ k ∈ ks, ∀ b, k = .letter b → IsLetter env b) :
    let r := runEditKeys env c0 ks
    let s := runBuf {} ks
    r.1.input = s.1.text ∧ r.1.caret = s.1.caret ∧ r.2 = s.2 ∧ r.1.commitBuf = c0.commitBuf :=
  chain_refines_buf env hcfg (compose_letters env cfg henv ha hi) c0 h0 ks hks

/-- one key = one buffer step, from any state of the C05 shape (the simulation step) -/
theorem key_refines_step (env : Env) (hcfg : Cfg05 env) (hls : LettersSpec env) (c : Ctx) (h : J env c) (k : EditKey)
    (hk : ∀ b, k = .letter b → IsLetter env b) :
    let r := processKey env k.toKey c
    J env r.1 ∧ r.1.buf = c.buf.step k ∧ r.2 = c.buf.handled k ∧ r.1.commitBuf = c.commitBuf :=
  let s := step_refines hcfg hls h k hk
  ⟨s.j, s.obs, s.handled, s.buf⟩

/-- non-vacuity: a concrete environment in the class, and the chain run on `a b BackSpace KP_Left c` -/
example :
    let cfg : SegCfg := { alphabet := [97, 98, 99], initials := [97, 98, 99], finals := [], delimiters := [], translate := fun _ _ => [] }
    let env : Env := { alphabet := [97, 98, 99], initials := [97, 98, 99], processors := [.speller, .selector, .navigator, .expressEditor], recompose := compose cfg }
    let ks : List EditKey := [.letter 97, .letter 98, .backSpace, .kpLeft, .letter 99]
    (runEditKeys env {} ks).1.input = [99, 97] ∧ (runEditKeys env {} ks).1.caret = 1 ∧
    (runEditKeys env {} ks).2 = [true, true, true, true, true] ∧ (runBuf {} ks).1 = { text := [99, 97], caret := 1 } := by
  decide

end C05
