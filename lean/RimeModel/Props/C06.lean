import RimeModel.C06.OrderLemmas
import RimeModel.C06.FindLemmas
import RimeModel.C06.ReverseLemmas
import RimeModel.C06.SourceLemmas
import RimeModel.C06.ArenaLemmas
import RimeModel.C06.WeightLemmas
import RimeModel.C06.LayoutLemmas
/-!
C06 — a compiled dictionary contains exactly its source entries.  Property theorems only.

Model: RimeModel/C06/{Source,Weight,Table,Reverse,Compile,Arena}.lean (ports of entry_collector.cc,
dict_compiler.cc:216-278, vocabulary.cc, table.cc Build*, reverse_lookup_dictionary.cc Build, mapped_file.h).
`S` is whatever `Vocabulary::SortHomophones` did to one page: the theorems only use that it returns a
permutation (`hS`), and — for the order clause — that the result is weight-sorted (`hsorted`); `std::sort` is
unstable, so nothing is ever claimed about the order among equal weights.  `W` is any weight type with any
comparison `le`; `weight_order_cast` carries the order through any monotone cast (double → log → float).
-/
namespace C06
open RimeModel.C06 RimeModel.Arena

variable {W : Type}

/-- rows the index can hold: a non-empty code whose first syllable id is a head-index position
(all ids the compiler produces are ranks in the syllabary, see `compile_rows_valid`) -/
def ValidRows (n : Nat) (rs : List (CRow W)) : Prop := ∀ r ∈ rs, r.code ≠ [] ∧ r.code.getD 0 0 < n

/-- `Vocabulary::LocateEntries` walks the first three syllables and then the key -1: the loop as written
equals the closed form `pagePath`; only the empty code yields NULL. -/
theorem locate_entries_path (code : List Nat) :
    locate code = if code = [] then none else some (pagePath code) :=
  locate_closed code

/-- **enumerate_build_perm** — the full enumeration of the built index is a permutation of the rows given to
the builder, as (code, text, weight): nothing lost, nothing invented, nothing attached to another code;
for every page-sorting routine that permutes. -/
theorem enumerate_build_perm (S : List (CRow W) → List (CRow W)) (hS : ∀ l, (S l).Perm l) (n : Nat)
    (rs : List (CRow W)) (hv : ValidRows n rs) :
    (enumerate (build S n rs)).Perm rs := by
  rw [rows_enumerate S hS]
  refine List.Perm.trans ?_ (head_split n rs hv)
  apply flatMap_perm_congr
  intro s _
  exact enumD_perm S hS rs 2 [s]

/-- **no_foreign_code** — every enumerated entry sits in the list its own code leads to: the index code of
the list is the first three syllables of a source row's code, the stored extra code is the rest
(`index_code ++ extra_code = code`, in particular for codes longer than three), and text and weight are that
row's. -/
theorem no_foreign_code (S : List (CRow W) → List (CRow W)) (hS : ∀ l, (S l).Perm l) (n : Nat)
    (rs : List (CRow W)) (hv : ValidRows n rs) (i : Item W) (hi : i ∈ enumerateRaw (build S n rs)) :
    ∃ r ∈ rs, r.code = i.index ++ i.extra ∧ r.text = i.text ∧ r.weight = i.weight := by
  have hm : i.row ∈ enumerate (build S n rs) := List.mem_map_of_mem hi
  have := (enumerate_build_perm S hS n rs hv).mem_iff.mp hm
  exact ⟨i.row, this, rfl, rfl, rfl⟩

/-- where an entry is filed: index code = at most the first three syllables, extra code only below a full
index code -/
theorem index_extra_shape (S : List (CRow W) → List (CRow W)) (n : Nat) (rs : List (CRow W))
    (i : Item W) (hi : i ∈ enumerateRaw (build S n rs)) :
    i.index.length ≤ indexDepth ∧ (i.extra ≠ [] → i.index.length = indexDepth) := by
  simp only [enumerateRaw, build, List.range_eq_range', enumHead_range', List.mem_flatMap] at hi
  obtain ⟨s, _, hi⟩ := hi
  simp only [enumNode1, List.mem_append] at hi
  rcases hi with hi | hi
  · simp only [itemsOf, List.mem_map] at hi
    obtain ⟨e, _, rfl⟩ := hi
    simp [indexDepth]
  · split at hi
    · simp at hi
    · rename_i t ht
      split at ht
      · simp at ht
      · simp only [Option.some.injEq] at ht
        subst ht
        simp only [enum2, build2, List.flatMap_map, List.mem_flatMap, List.mem_append] at hi
        obtain ⟨k, _, hi | hi⟩ := hi
        · simp only [itemsOf, List.mem_map] at hi
          obtain ⟨e, _, rfl⟩ := hi
          simp [indexDepth]
        · split at hi
          · simp at hi
          · rename_i t2 ht2
            split at ht2
            · simp at ht2
            · simp only [Option.some.injEq] at ht2
              subst ht2
              simp only [enum3, build3, List.flatMap_map, List.mem_flatMap, List.mem_append] at hi
              obtain ⟨k2, _, hi | hi⟩ := hi
              · simp only [itemsOf, List.mem_map] at hi
                obtain ⟨e, _, rfl⟩ := hi
                simp [indexDepth]
              · split at hi
                · simp at hi
                · rename_i t3 ht3
                  simp only [longItemsOf, List.mem_map] at hi
                  obtain ⟨e, _, rfl⟩ := hi
                  simp [indexDepth]

/-- what the enumeration shows of one code is the page that code is filed in, in page order -/
theorem code_entries_are_page (S : List (CRow W) → List (CRow W)) (hS : ∀ l, (S l).Perm l) (n : Nat)
    (rs : List (CRow W)) (c : List Nat) (hc : c ≠ []) (hn : c.getD 0 0 < n) :
    filterCode c (enumerate (build S n rs)) = filterCode c (S (pageOf c rs)) :=
  enumerate_filterCode S hS n rs c hc hn

/-- **weight_sorted** — if the page sorter returns weight-sorted lists (non-increasing under `le`), then the
entries of any one code appear in non-increasing weight order in the enumeration. -/
theorem weight_sorted (le : W → W → Bool) (S : List (CRow W) → List (CRow W)) (hS : ∀ l, (S l).Perm l)
    (hsorted : ∀ l, (S l).Pairwise (fun a b => le b.weight a.weight = true))
    (n : Nat) (rs : List (CRow W)) (c : List Nat) (hc : c ≠ []) (hn : c.getD 0 0 < n) :
    (filterCode c (enumerate (build S n rs))).Pairwise (fun a b => le b.weight a.weight = true) := by
  rw [enumerate_filterCode S hS n rs c hc hn]
  exact List.Pairwise.filter _ (hsorted _)

/-- the model's own `SortHomophones` (stable merge sort by weight, descending) is one admissible sorter,
for any total preorder on weights -/
theorem mergeSort_admissible (le : W → W → Bool)
    (htrans : ∀ a b c : W, le a b = true → le b c = true → le a c = true)
    (htotal : ∀ a b : W, (le a b || le b a) = true) (l : List (CRow W)) :
    (l.mergeSort (fun a b => le b.weight a.weight)).Perm l ∧
    (l.mergeSort (fun a b => le b.weight a.weight)).Pairwise (fun a b => le b.weight a.weight = true) :=
  ⟨List.mergeSort_perm l _,
   List.pairwise_mergeSort (le := fun (a b : CRow W) => le b.weight a.weight)
     (fun a b c h1 h2 => htrans _ _ _ h2 h1) (fun a b => htotal b.weight a.weight) l⟩

/-- the sorter the model (driver) runs on exact decimal weights is admissible: `Wt.le` is a total preorder -/
theorem model_sorter_admissible (l : List (CRow Wt)) :
    (sortHomophones l).Perm l ∧ (sortHomophones l).Pairwise (fun a b => Wt.le b.weight a.weight = true) :=
  mergeSort_admissible Wt.le Wt.le_trans Wt.le_total l

/-- order survives any monotone cast of the weights (exact weight → double → log → float) -/
theorem weight_order_cast {F : Type} (le : W → W → Bool) (leF : F → F → Bool) (cast : W → F)
    (hmono : ∀ a b, le a b = true → leF (cast a) (cast b) = true) (l : List (CRow W))
    (h : l.Pairwise (fun a b => le b.weight a.weight = true)) :
    (l.map (fun r => cast r.weight)).Pairwise (fun x y => leF y x = true) := by
  rw [List.pairwise_map]
  exact List.Pairwise.imp (fun {a b} hab => hmono _ _ hab) h

/-- **original_order** — with `sort: original` (no sorting) the entries of any one code appear in source
order. -/
theorem original_order (n : Nat) (rs : List (CRow W)) (c : List Nat) (hc : c ≠ []) (hn : c.getD 0 0 < n) :
    filterCode c (enumerate (build id n rs)) = filterCode c rs := by
  rw [enumerate_filterCode id (fun _ => List.Perm.refl _) n rs c hc hn]
  exact filterCode_pageOf c rs

/-- trunk arrays are key-sorted (the vocabulary map is): strictly ascending keys at both trunk levels -/
theorem trunk_keys_ascending (S : List (CRow W) → List (CRow W)) (p : List Nat) (rs : List (CRow W)) :
    Ascending natLt ((build2 S p rs).map (·.key)) ∧ Ascending natLt ((build3 S p rs).map (·.key)) := by
  have h2 : (build2 S p rs).map (·.key) = childKeys p rs := by simp [build2, Function.comp_def]
  have h3 : (build3 S p rs).map (·.key) = childKeys p rs := by simp [build3, Function.comp_def]
  rw [h2, h3]
  exact ⟨ascending_sortDedup natLt_strict _, ascending_sortDedup natLt_strict _⟩

/-- **find_node_correct** — on strictly ascending keys the `lower_bound` search returns the position of the
key if present and `last` (none) otherwise. -/
theorem find_node_correct (ks : List Nat) (hs : Ascending natLt ks) (key i : Nat) :
    findNode ks key = some i ↔ (i < ks.length ∧ ks.getD i 0 = key) :=
  findNode_iff ks key hs i

/-- `find_node` on a built trunk array finds exactly the child keys present in the vocabulary -/
theorem find_node_built (S : List (CRow W) → List (CRow W)) (p : List Nat) (rs : List (CRow W)) (key : Nat) :
    (findNode ((build2 S p rs).map (·.key)) key).isSome = true ↔ key ∈ childKeys p rs := by
  have h2 : (build2 S p rs).map (·.key) = childKeys p rs := by simp [build2, Function.comp_def]
  rw [h2]
  have hs : Ascending natLt (childKeys p rs) := ascending_sortDedup natLt_strict _
  constructor
  · intro h
    obtain ⟨i, hi⟩ := Option.isSome_iff_exists.mp h
    obtain ⟨hl, hk⟩ := (findNode_iff _ key hs i).mp hi
    rw [← hk]
    simp [List.getD, List.getElem?_eq_getElem hl]
  · intro h
    obtain ⟨i, hi⟩ := List.mem_iff_getElem?.mp h
    have hl : i < (childKeys p rs).length := by
      rcases Nat.lt_or_ge i (childKeys p rs).length with h | h
      · exact h
      · rw [List.getElem?_eq_none h] at hi; simp at hi
    have := (findNode_iff _ key hs i).mpr ⟨hl, by simp [List.getD, hi]⟩
    simp [this]

/-- **reverse_exact** — the reverse table maps a text to exactly the syllables `s` for which a row
(text, [s]) exists — its one-syllable codes, nothing else — as an ascending (duplicate-free) set; a text
with no one-syllable code has no entry. -/
theorem reverse_exact (syl : List Bytes) (rs : List (CRow W)) (text s : Bytes) :
    (s ∈ revSet (reverseTable syl rs) text ↔ ∃ i, syl[i]? = some s ∧ ∃ r ∈ rs, r.code = [i] ∧ r.text = text)
    ∧ Ascending bytesLt (revSet (reverseTable syl rs) text) := by
  constructor
  · unfold reverseTable
    rw [mem_revSet_foldl, mem_revPairs]
    simp [revSet]
  · exact revSet_ascending _ (setsAscending_foldl _ [] (by simp [SetsAscending])) text

/-! ### from the source rows to the table (collector + compiler) -/

/-- the collector's entries are the specified treatment of the parsed rows (`treatRaw`) -/
theorem collect_is_treatment (rows : List RawRow) :
    (collect rows).entries = (treatRaw [] rows).map toSRow :=
  collect_entries rows

/-- the treatment drops nothing but repeated one-syllable pairs and rows without code:
(1) it is a sublist of the source; (2) every row with a code that is not exactly one syllable is kept;
(3) a one-syllable (text, code column) pair present in the source is kept exactly once. -/
theorem treatment_spec (rows : List RawRow) :
    (treatRaw [] rows).Sublist rows ∧
    (treatRaw [] rows).filter (fun r => (tokens r.codeStr).length != 1)
      = rows.filter (fun r => !r.codeStr.isEmpty && (tokens r.codeStr).length != 1) ∧
    ∀ t cs, cs.isEmpty = false → ((tokens cs).length == 1) = true →
      ((treatRaw [] rows).filter (fun r => r.text == t && r.codeStr == cs)).length
        = if rows.any (fun r => r.text == t && r.codeStr == cs) = true then 1 else 0 := by
  refine ⟨treatRaw_sublist [] rows, treatRaw_keeps_phrases [] rows, ?_⟩
  intro t cs h0 h1
  rw [treatRaw_word_once t cs h0 h1 [] rows]
  simp

/-- the syllabary is strictly ascending (sorted, duplicate-free) and holds every syllable of every entry -/
theorem syllabary_sorted_complete (rows : List RawRow) :
    Ascending bytesLt (collect rows).syllabary ∧
    ∀ e ∈ (collect rows).entries, ∀ s ∈ e.code, s ∈ (collect rows).syllabary :=
  collInv_collect rows

/-- syllable ↔ id round trip on the syllabary (`syllable_to_id` then `GetSyllableById`) -/
theorem syllable_id_roundtrip (syl : List Bytes) (s : Bytes) (h : s ∈ syl) :
    syllableId syl s < syl.length ∧ syllableById syl (syllableId syl s) = some s := by
  have hl := syllableId_lt h
  refine ⟨hl, ?_⟩
  have := syllable_roundtrip h
  simp only [List.getD] at this
  unfold syllableById
  rw [List.getElem?_eq_getElem hl] at this ⊢
  simpa using this

/-- the rows the compiler hands to the table builder are valid for it -/
theorem compile_rows_valid (wt : Bytes → W) (rows : List RawRow) :
    ValidRows (collect rows).syllabary.length (compileRows wt (collect rows)) := by
  intro r hr
  simp only [compileRows, List.mem_map, List.mem_filter] at hr
  obtain ⟨e, ⟨he, hne⟩, rfl⟩ := hr
  have hinv := (collInv_collect rows).2 e he
  cases hc : e.code with
  | nil => simp [hc] at hne
  | cons a t =>
    refine ⟨by simp, ?_⟩
    simp only [List.map_cons, List.getD_cons_zero]
    exact syllableId_lt (hinv a (by simp [hc]))

/-- **compile_enumerate_perm** — end to end: parse-treated source rows → collector → ids → vocabulary →
index → enumeration → syllables.  The enumeration of the compiled table, with codes spelled out again, is a
permutation of the kept source rows (text, syllables, weight), for any admissible sorter and any weight
reading `wt`. -/
theorem compile_enumerate_perm (S : List (CRow W) → List (CRow W)) (hS : ∀ l, (S l).Perm l) (wt : Bytes → W)
    (rows : List RawRow) :
    ((enumerate (compileTable S wt (collect rows))).map (decodeRow (collect rows).syllabary)).Perm
      (((collect rows).entries.filter (fun r => !r.code.isEmpty)).map (sourceTriple wt)) := by
  have hp := enumerate_build_perm S hS _ _ (compile_rows_valid wt rows)
  refine List.Perm.trans (List.Perm.map _ hp) (List.Perm.of_eq ?_)
  simp only [compileRows, List.map_map]
  apply List.map_congr_left
  intro e he
  have hinv := (collInv_collect rows).2 e (List.mem_filter.mp he).1
  simp only [Function.comp, decodeRow, sourceTriple, List.map_map, Prod.mk.injEq, true_and, and_true]
  conv => rhs; rw [← List.map_id e.code]
  apply List.map_congr_left
  intro s hs
  exact syllable_roundtrip (hinv s hs)

/-! ### packs: tables over a fixed syllabary (dict_compiler.cc:171-217) -/

/-- **pack_syllabary_fixed** — a pack's collector starts from the primary table's syllabary and never learns a syllable: whatever
the pack's rows are, its table is built over exactly that syllabary (so syllable ids mean the same in every table of the
dictionary). -/
theorem pack_syllabary_fixed (syl : List Bytes) (h : Ascending bytesLt syl) (rows : List RawRow) :
    (collectPack syl rows).syllabary = syl :=
  foldl_collectRow_fixed syl h _ _ rfl (packRows_ok syl rows)

/-- **pack_is_treatment** — the pack's entries are the same treatment (`treatRaw`: rows without a code aside, a repeated
one-syllable pair once) applied to the rows all of whose syllables exist in the fixed syllabary; rows with a foreign syllable
leave no trace, not even in the word list that detects repetitions. -/
theorem pack_is_treatment (syl : List Bytes) (rows : List RawRow) :
    (collectPack syl rows).entries = (treatRaw [] (packRows syl rows)).map toSRow := by
  simp [collectPack, foldl_collectRow_entries, Collector.empty]

/-- the rows of a pack kept for it are exactly those with every syllable in the syllabary (or without a code) -/
theorem pack_rows_spec (syl : List Bytes) (rows : List RawRow) (r : RawRow) :
    r ∈ packRows syl rows ↔ r ∈ rows ∧ (r.codeStr.isEmpty = true ∨ ∀ s ∈ tokens r.codeStr, s ∈ syl) := by
  simp only [packRows, List.mem_filter, Bool.or_eq_true, List.all_eq_true, List.contains_iff_mem]

/-- **pack_enumerate_perm** — end to end for a pack: the enumeration of the pack's table, codes spelled out through the fixed
syllabary, is a permutation of the pack's kept rows (text, syllables, weight). -/
theorem pack_enumerate_perm (S : List (CRow W) → List (CRow W)) (hS : ∀ l, (S l).Perm l) (wt : Bytes → W)
    (syl : List Bytes) (h : Ascending bytesLt syl) (rows : List RawRow) :
    ((enumerate (compileTable S wt (collectPack syl rows))).map (decodeRow syl)).Perm
      (((collectPack syl rows).entries.filter (fun r => !r.code.isEmpty)).map (sourceTriple wt)) := by
  have hinv := collInv_collectPack syl h rows
  have hsyl := pack_syllabary_fixed syl h rows
  have hvalid : ValidRows (collectPack syl rows).syllabary.length (compileRows wt (collectPack syl rows)) := by
    intro r hr
    simp only [compileRows, List.mem_map, List.mem_filter] at hr
    obtain ⟨e, ⟨he, hne⟩, rfl⟩ := hr
    have hi := hinv.2 e he
    cases hc : e.code with
    | nil => simp [hc] at hne
    | cons a t =>
      refine ⟨by simp, ?_⟩
      simp only [List.map_cons, List.getD_cons_zero]
      exact syllableId_lt (hi a (by simp [hc]))
  have hp := enumerate_build_perm S hS _ _ hvalid
  refine List.Perm.trans (List.Perm.map _ hp) (List.Perm.of_eq ?_)
  simp only [compileRows, List.map_map]
  apply List.map_congr_left
  intro e he
  have hi := hinv.2 e (List.mem_filter.mp he).1
  rw [hsyl] at hi
  simp only [Function.comp, decodeRow, sourceTriple, List.map_map, Prod.mk.injEq, true_and, and_true]
  conv => rhs; rw [← List.map_id e.code]
  apply List.map_congr_left
  intro s hs
  rw [hsyl]
  exact syllable_roundtrip (hi s hs)

/-! ### M-arena -/

/-- **allocate_aligned** — the block starts at a multiple of the alignment, at or after the old end, with
less than one alignment unit of padding; no padding at all if the old size was aligned. -/
theorem allocate_aligned (a : Arena) (al sz : Nat) (hal : 0 < al) :
    al ∣ (allocate a al sz).2 ∧ a.size ≤ (allocate a al sz).2 ∧ (allocate a al sz).2 < a.size + al ∧
    (al ∣ a.size → (allocate a al sz).2 = a.size) :=
  ⟨alignUp_dvd al a.size, le_alignUp al a.size hal, alignUp_lt al a.size hal, alignUp_of_dvd al a.size hal⟩

/-- the arena stays well-formed, the block lies inside it, `size` is the block's end, the block is zero -/
theorem allocate_block (a : Arena) (hw : a.WF) (al sz : Nat) :
    (allocate a al sz).1.WF ∧ (allocate a al sz).1.size = (allocate a al sz).2 + sz ∧
    (allocate a al sz).2 + sz ≤ (allocate a al sz).1.capacity ∧
    ∀ i, i < sz → (allocate a al sz).1.bytes[(allocate a al sz).2 + i]? = some 0 := by
  have hc := le_newCapacity a (alignUp al a.size + sz)
  refine ⟨⟨allocate_bytes_length a hw al sz, ?_⟩, rfl, ?_, fun i hi => allocate_get_block a hw al sz i hi⟩
  · simp only [allocate]; exact hc.2
  · simp only [allocate]; exact hc.2

/-- **grow_preserves** — allocation never disturbs what was allocated before, whether or not the file had to
grow (and capacity never shrinks; growth at least doubles it). -/
theorem grow_preserves (a : Arena) (hw : a.WF) (al sz : Nat) (hal : 0 < al) :
    (∀ i, i < a.size → (allocate a al sz).1.bytes[i]? = a.bytes[i]?) ∧
    a.capacity ≤ (allocate a al sz).1.capacity ∧
    (a.capacity < alignUp al a.size + sz → 2 * a.capacity ≤ (allocate a al sz).1.capacity) := by
  refine ⟨fun i hi => allocate_get_below a hw al sz hal i hi, (le_newCapacity a _).1, ?_⟩
  intro h
  simp only [allocate, newCapacity, h, if_true]
  omega

/-- **allocate_disjoint** — two successive allocations do not overlap, and the second leaves the first
block's bytes as they were. -/
theorem allocate_disjoint (a : Arena) (hw : a.WF) (al1 sz1 al2 sz2 : Nat) (h2 : 0 < al2) :
    (allocate a al1 sz1).2 + sz1 ≤ (allocate (allocate a al1 sz1).1 al2 sz2).2 ∧
    (allocate (allocate a al1 sz1).1 al2 sz2).2 + sz2 ≤ (allocate (allocate a al1 sz1).1 al2 sz2).1.capacity ∧
    ∀ i, i < sz1 → (allocate (allocate a al1 sz1).1 al2 sz2).1.bytes[(allocate a al1 sz1).2 + i]?
                    = (allocate a al1 sz1).1.bytes[(allocate a al1 sz1).2 + i]? := by
  have hb1 := allocate_block a hw al1 sz1
  have hb2 := allocate_block (allocate a al1 sz1).1 hb1.1 al2 sz2
  refine ⟨?_, hb2.2.2.1, ?_⟩
  · have := (allocate_aligned (allocate a al1 sz1).1 al2 sz2 h2).2.1
    rw [hb1.2.1] at this
    exact this
  · intro i hi
    exact (grow_preserves (allocate a al1 sz1).1 hb1.1 al2 sz2 h2).1 ((allocate a al1 sz1).2 + i)
      (by rw [hb1.2.1]; omega)

/-- **offsetptr_get_set** — an `OffsetPtr` stored at address `self` and set to `target` reads back `target`
whenever the distance fits a signed 32-bit offset and is not zero; a pointer to itself reads back as null
(the documented limitation), and null stays null. -/
theorem offsetptr_get_set (self target : Nat)
    (hd : -(2 ^ 31 : Int) ≤ (target : Int) - (self : Int) ∧ (target : Int) - (self : Int) < 2 ^ 31) :
    (target ≠ self → ptrGet self (ptrSet self (some target)) = some (target : Int)) ∧
    ptrGet self (ptrSet self (some self)) = none ∧
    ptrGet self (ptrSet self none) = none := by
  have hw : wrap32 ((target : Int) - (self : Int)) = (target : Int) - (self : Int) := by
    unfold wrap32; omega
  refine ⟨?_, ?_, ?_⟩
  · intro hne
    simp only [ptrSet, ptrGet, hw]
    have : ¬ ((target : Int) - (self : Int) = 0) := by
      intro h; apply hne; omega
    simp only [this, if_false]
    congr 1; omega
  · simp [ptrSet, ptrGet, wrap32]
  · simp [ptrSet, ptrGet]

/-- beyond 2 GiB the 32-bit offset wraps and the pointer reads back wrong: the bound is needed -/
theorem offsetptr_wraps : ptrGet 0 (ptrSet 0 (some (2 ^ 31))) ≠ some ((2 ^ 31 : Nat) : Int) := by
  decide

/-! ### the repair of the table-growth defect: the file never grows while raw pointers are live -/

/-- the size functions of the repair (`EntryListSize`, `TailIndexSize`, `TrunkIndexSize`, `HeadIndexSize`, plus
metadata and syllabary) bound the worst-case bytes — alignment padding included — of the allocation sequence
`Table::Build` issues, for EVERY index shape: empty entry lists, absent head nodes, nodes with or without a
next level, tail pages with extra codes of any length. -/
theorem alloc_sequence_bounded (t : Tree W) : allocCost (buildAllocs t) ≤ indexSize t :=
  buildAllocs_cost t

/-- **index_fits_estimate** — in a file created with `estimated_file_size` bytes no `Allocate` issued between
`Create` and `OnBuildFinish` has to grow the file (so the mapping is never closed and re-opened while index
nodes, entry lists and string-id references are addressed through raw pointers), and at least the reserved
4096 bytes are still free afterwards. -/
theorem index_fits_estimate (t : Tree W) (numEntries : Nat) :
    NeverGrows (create (estimatedFileSize t numEntries)) (buildAllocs t) ∧
    (allocateAll (create (estimatedFileSize t numEntries)) (buildAllocs t)).size + kReservedSize
      ≤ estimatedFileSize t numEntries := by
  have hb := buildAllocs_cost t
  have hp := alignPos_build t
  have he : kReservedSize + indexSize t ≤ estimatedFileSize t numEntries := Nat.le_max_right _ _
  constructor
  · apply neverGrows_of_fits _ _ hp
    simp only [create]
    omega
  · have := allocateAll_size_le (buildAllocs t) (create (estimatedFileSize t numEntries)) hp
    have h0 : (create (estimatedFileSize t numEntries)).size = 0 := rfl
    omega

/-- the end of the index the driver reports (`indexEnd`, compared with the offset of the string table image
in the real file on every run) is the arena's size after the allocation sequence, whatever the capacity -/
theorem index_end_is_arena_size (t : Tree W) (cap : Nat) :
    (allocateAll (create cap) (buildAllocs t)).size = indexEnd t :=
  allocateAll_size _ _

/-- any capacity of at least `index_size` bytes will do (the estimate adds the reserve on top) -/
theorem index_fits_capacity (t : Tree W) (cap : Nat) (h : indexSize t ≤ cap) :
    NeverGrows (create cap) (buildAllocs t) := by
  apply neverGrows_of_fits _ _ (alignPos_build t)
  have := buildAllocs_cost t
  simp only [create]
  omega

/-- the one allocation that may still grow the file — the string-table image in `OnBuildFinish` — leaves every
byte of metadata, syllabary and index at its offset, whatever the image size; the pointers the repaired code
re-derives afterwards from offset 0 (`Find<Metadata>(0)`, then `metadata_->syllabary.get()` and
`metadata_->index.get()`, both self-relative offsets inside the preserved bytes) therefore read what was
written. -/
theorem string_table_allocation_preserves (t : Tree W) (numEntries imageSize : Nat) (i : Nat)
    (hi : i < (allocateAll (create (estimatedFileSize t numEntries)) (buildAllocs t)).size) :
    (allocate (allocateAll (create (estimatedFileSize t numEntries)) (buildAllocs t)) 1 imageSize).1.bytes[i]?
      = (allocateAll (create (estimatedFileSize t numEntries)) (buildAllocs t)).bytes[i]? :=
  (grow_preserves _ (allocateAll_wf _ _ (create_wf _)) 1 imageSize (by omega)).1 i hi

/-! ### non-vacuity -/

/-- a concrete vocabulary with homophones, a two-syllable code, a code of exactly four and one of six
syllables: the hypotheses of the theorems above are satisfiable and the enumeration is as expected
(`sort: original`; admissible weight sorters exist by `mergeSort_admissible`) -/
example :
    let rs : List (CRow Nat) := [⟨[0], [1], 5⟩, ⟨[0], [2], 7⟩, ⟨[0, 1], [3], 1⟩, ⟨[1, 0, 1, 0], [4], 2⟩,
                                 ⟨[1, 0, 1, 0, 1, 1], [5], 9⟩, ⟨[1, 0, 1], [6], 4⟩]
    (∀ r ∈ rs, r.code ≠ [] ∧ r.code.getD 0 0 < 2) ∧
    (enumerateRaw (build id 2 rs)).map (fun i => (i.index, i.extra, i.text)) =
      [([0], [], [1]), ([0], [], [2]), ([0, 1], [], [3]), ([1, 0, 1], [], [6]), ([1, 0, 1], [0], [4]),
       ([1, 0, 1], [0, 1, 1], [5])] := by
  decide

/-- the collector on a concrete source (x=120, y=121, a=97, b=98, space=32): rows `x a 1`, `x a 9`, `xy "a b" 2`
twice, `x " a" 3` — the repeated one-syllable pair is kept once, the phrase twice, and the pair with another
spelling of the code column again -/
example :
    ((collect [⟨[120], [97], [49]⟩, ⟨[120], [97], [57]⟩, ⟨[120, 121], [97, 32, 98], [50]⟩,
               ⟨[120, 121], [97, 32, 98], [50]⟩, ⟨[120], [32, 97], [51]⟩]).entries.map
      (fun e => (e.text, e.code, e.weightStr))) =
      [([120], [[97]], [49]), ([120, 121], [[97], [98]], [50]), ([120, 121], [[97], [98]], [50]),
       ([120], [[97]], [51])] := by
  decide

/-- a pack over the syllabary {a, b} (97, 98): the row with the foreign syllable `c` is dropped, and — dropped before the word
list sees it — does not shadow anything; the repeated pair `x a` is kept once; the syllabary stays {a, b} -/
example :
    let c := collectPack [[97], [98]] [⟨[120], [97], [49]⟩, ⟨[121], [97, 32, 99], [50]⟩, ⟨[120], [97], [57]⟩, ⟨[122], [98, 32, 97], []⟩]
    c.syllabary = [[97], [98]] ∧
    c.entries.map (fun e => (e.text, e.code)) = [([120], [[97]]), ([122], [[98], [97]])] := by
  decide

/-- the bound on a concrete index (one word, one phrase of five syllables): worst-case cost 202 ≤ bound 228, actual end 184, and
without the bound's bytes the very same sequence does grow a file that is too small -/
example :
    let t : Tree Nat := build id 2 [⟨[0], [1], 5⟩, ⟨[1, 0, 1, 0, 1], [5], 9⟩]
    allocCost (buildAllocs t) = 202 ∧ indexSize t = 228 ∧ indexEnd t = 184 ∧
    ¬ NeverGrows (create 100) (buildAllocs t) := by
  decide

/-- the arena: an allocation that does not fit doubles the capacity and keeps the old bytes -/
example : (allocate (allocate (create 8) 4 6).1 4 8).2 = 8 ∧ (allocate (allocate (create 8) 4 6).1 4 8).1.capacity = 16 := by
  decide

end C06
