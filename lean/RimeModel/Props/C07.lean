import RimeModel.C07.CompleteLemmas
import RimeModel.C07.TransLemmas
import RimeModel.C07.LongLemmas
import RimeModel.C07.BuiltLemmas
import RimeModel.C07.SentenceLemmas
import RimeModel.C07.PoetGraphs
import RimeModel.C07.PoetPtr
/-!
C07 — candidates for an input are exactly the dictionary entries that its code spells.  Property theorems only.

Model: RimeModel/C07/{Model,Translation,Spells}.lean on the C06 index (`Tree`) — ports of `Table::Query`,
`match_extra_code`, `lookup_table`, `Dictionary::Lookup`, `compare_chunk_by_head_element`, `DictEntryIterator`,
`ScriptTranslation`, `Dictionary::LookupWords`, `(Lazy)TableTranslation`, `DistinctTranslation`.
The syllable graph `g`, the prism's key lists and the sentence are inputs (any values): the theorems hold for
all of them, under the two shape facts every recorded graph has (`KeysNodup`: map keys are distinct;
`Forward`: edges go forward).  `Spells g c s e` is the reference notion: a path of `g` from `s` to `e` whose
edges carry the syllables of `c`.
-/
namespace C07
open RimeModel.C06 RimeModel.C07

/-- **query_sound** — every result `Table::Query` pushes for end position `e` ranges over the list of an index
code that the graph spells from `start` to `e` (for a tail accessor: the 3-syllable index code up to the
position where the extra codes are then matched). -/
theorem query_sound (t : Table) (g : Graph) (hk : g.KeysNodup) (start : Nat) (ems : List Emission)
    (h : query t g start = some ems) (em : Emission) (hem : em ∈ ems) :
    Spells g em.2.indexCode start em.1 :=
  query_sound' t g hk start ems h em hem

/-- **query_complete** — if the graph spells `c ++ [y]` (1 to 3 syllables) from `start` to `e`, the table can
follow `c` (`Advance` succeeds at every step) and holds a non-empty entry list for `c ++ [y]` (with any further
property `P` of the accessor, e.g. which entries it ranges over), then the query reports such a non-empty accessor
with that index code at `e`. -/
theorem query_complete (t : Table) (g : Graph) (start : Nat) (c : List Nat) (y e : Nat) (P : Accessor → Prop)
    (hs : Spells g (c ++ [y]) start e) (hstart : start < g.interpLen) (hlen : c.length < indexDepth)
    (hf : Followable t c)
    (hacc : ∀ q : TQ, q.indexCode = c → ∃ acc, access t q y = some acc ∧ acc.exhausted = false ∧ P acc) :
    ∃ ems, query t g start = some ems ∧
      ∃ em ∈ ems, em.1 = e ∧ em.2.indexCode = c ++ [y] ∧ em.2.exhausted = false ∧ P em.2 := by
  obtain ⟨m, hsm, hm, he⟩ := spells_snoc_inv c y start e hs
  obtain ⟨q, hq, hqc⟩ := reach t g start c.length c m rfl hsm hm (by omega) hf
  obtain ⟨acc, ha, hx, hP⟩ := hacc q hqc
  have hlev : (m, q).2.indexCode.length < indexDepth := by simp only [hqc]; exact hlen
  have hem := emission_mem t g (m, q) y e hlev (by simpa using he) acc ha hx
  have hout : (e, acc) ∈ roundOutput t g start c.length := by
    simp only [roundOutput, round, List.mem_flatMap, List.mem_map]
    exact ⟨_, ⟨(m, q), hq, rfl⟩, hem⟩
  have h3 : indexDepth = 3 := rfl
  obtain ⟨ems, hqe, hmem⟩ := query_some_of_mem t g start hstart c.length (by omega) (e, acc) hout
  refine ⟨ems, hqe, (e, acc), hmem, rfl, ?_, hx, hP⟩
  exact (access_indexCode t q y acc ha).1 (by rw [hqc]; exact hlen) |> fun h => by rw [h, hqc]

/-- **rows_are_found** — completeness down to the source rows: on a table built by C06's `build` (any admissible
page sorter `S`), every row whose code has one to three syllables and is spelled by the graph from `start` to `e`
is reported at `e` by an accessor ranging over exactly the page of that code (all its homophones, in page order).
Together with C06 `compile_enumerate_perm` this reads: every dictionary entry whose code the input spells is in
the lookup result. -/
theorem rows_are_found (S : List (CRow Dy) → List (CRow Dy)) (hS : ∀ l, (S l).Perm l) (n : Nat) (rs : List (CRow Dy))
    (g : Graph) (start e : Nat) (hstart : start < g.interpLen) (r : CRow Dy) (hr : r ∈ rs)
    (hlen : 1 ≤ r.code.length ∧ r.code.length ≤ 3) (hhead : r.code.getD 0 0 < n) (hs : Spells g r.code start e) :
    ∃ ems, query (build S n rs) g start = some ems ∧
      ∃ em ∈ ems, em.1 = e ∧ em.2.indexCode = r.code ∧
        em.2.span = .entries ((S (pageAt r.code rs)).map toEntry) := by
  have key : ∀ (c : List Nat) (y : Nat), r.code = c ++ [y] → c.length < indexDepth →
      Finds (build S n rs) c y ((S (pageAt r.code rs)).map toEntry) →
      ∃ ems, query (build S n rs) g start = some ems ∧
        ∃ em ∈ ems, em.1 = e ∧ em.2.indexCode = r.code ∧ em.2.span = .entries ((S (pageAt r.code rs)).map toEntry) := by
    intro c y hc hl hf
    obtain ⟨ems, hq, em, hem, h1, h2, _, h4⟩ :=
      query_complete (build S n rs) g start c y e (fun a => a.span = .entries ((S (pageAt r.code rs)).map toEntry))
        (by rw [← hc]; exact hs) hstart hl hf.1 hf.2
    exact ⟨ems, hq, em, hem, h1, by rw [h2, hc], h4⟩
  match hcode : r.code with
  | [] => simp [hcode] at hlen
  | [a] =>
    have ha : a < n := by simpa [hcode] using hhead
    exact hcode ▸ key [] a (by simp [hcode]) (by simp [indexDepth]) (finds1 S hS n rs r hr a hcode ha)
  | [a, b] =>
    have ha : a < n := by simpa [hcode] using hhead
    exact hcode ▸ key [a] b (by simp [hcode]) (by simp [indexDepth]) (finds2 S hS n rs r hr a b hcode ha)
  | [a, b, c] =>
    have ha : a < n := by simpa [hcode] using hhead
    exact hcode ▸ key [a, b] c (by simp [hcode]) (by simp [indexDepth]) (finds3 S hS n rs r hr a b c hcode ha)
  | _ :: _ :: _ :: _ :: _ => simp [hcode] at hlen

/-- **match_extra_sound** — a successful (non-predictive) `match_extra_code` has consumed the whole extra code
along a path of the graph. -/
theorem match_extra_sound (g : Graph) (extra : List Nat) (depth pos d e : Nat)
    (h : matchExtra g false extra depth pos = some (d, e)) :
    d = depth + extra.length ∧ Spells g extra pos e :=
  matchExtra_sound g extra depth pos d e h

/-- **match_extra_farthest** — whenever the graph spells the extra code from `pos` at all, the match succeeds and
ends at least as far as that path: a long entry is listed at its farthest match. -/
theorem match_extra_farthest (g : Graph) (hfw : g.Forward) (extra : List Nat) (depth pos e' : Nat)
    (h : Spells g extra pos e') :
    ∃ d e, matchExtra g false extra depth pos = some (d, e) ∧ e' ≤ e :=
  matchExtra_farthest g hfw extra depth pos e' h

/-- **long_entry_listed_at_farthest_match** — completeness beyond the index depth: if the graph spells the first
three syllables `[a, b, c]` of a code from `start` to a position `m` that has outgoing edges, the table can follow
them and its tail page there holds the entry `le`, and the graph spells the rest of the code (`le.extra`) from
`m` to `e'`, then `lookup_table` produces an exact one-entry chunk for that entry with the full code, filed under
an end position at least `e'` (the farthest match). -/
theorem long_entry_listed_at_farthest_match (t : Table) (g : Graph) (hfw : g.Forward) (start : Nat) (ic : Dy)
    (a b c m : Nat) (hstart : start < g.interpLen) (hs3 : Spells g [a, b, c] start m) (hm : m < g.interpLen)
    (hf : Followable t [a, b, c]) (idx : List (Nat × List Edge)) (hi : g.indexAt m = some idx)
    (es : List (LongEntry Dy)) (ht : tailOf t a b c = some es) (le : LongEntry Dy) (hle : le ∈ es) (e' : Nat)
    (hse : Spells g le.extra m e') :
    ∃ kc ∈ lookupTable t g start false ic, kc.2.code = [a, b, c] ++ le.extra ∧ kc.2.entries = [le.entry] ∧
      kc.2.matching = kc.2.code.length ∧ e' ≤ kc.1 := by
  obtain ⟨q, hq, hqc⟩ := reach t g start 3 [a, b, c] m rfl hs3 hm (by simp [indexDepth]) hf
  have hne : es ≠ [] := fun h => by rw [h] at hle; simp at hle
  have hem := tail_emission t g (m, q) a b c hqc idx hi es ht hne
  have hout : (m, (⟨[a, b, c], .tail es, q.back⟩ : Accessor)) ∈ roundOutput t g start 3 := by
    simp only [roundOutput, round, List.mem_flatMap, List.mem_map]
    exact ⟨_, ⟨(m, q), hq, rfl⟩, hem⟩
  obtain ⟨ems, hqe, hmem⟩ := query_some_of_mem t g start hstart 3 (by omega) _ hout
  exact long_chunk t g hfw start ic ems hqe m a b c es q.back hmem le hle e' hse

/-- **iterator_perm** — draining the iterator yields every entry of every chunk exactly once. -/
theorem iterator_perm (it : Iter) (hne : NoEmpty it.rest) :
    ((drainAll it).map (·.2)).Perm (allEntries it.rest) :=
  drain_perm _ it hne (by omega)

/-- after `Sort` and after every `Next` the chunk in front is not beaten by any other chunk (the comparison
`compare_chunk_by_head_element` is a strict weak order: `better_asymm`, `better_trans`, `better_nt`) -/
theorem iterator_head_best (it : Iter) : HeadBest it.sort.rest ∧ HeadBest it.next.rest :=
  ⟨sort_headBest it, next_headBest it⟩

/-- **iterator_order** — in what a sorted iterator yields no entry of a predictive chunk precedes an entry of an
exact chunk, and among equally exact chunks the length of the remaining code never decreases.  (The weight part
of the order is `iterator_head_best`: every emitted entry is the head of a chunk no other chunk's head beats;
within a chunk the order is table order — C06 `weight_sorted` unless `sort: original`.) -/
theorem iterator_order (it : Iter) (hne : NoEmpty it.rest) (hb : HeadBest it.rest) :
    (drainAll it).Pairwise (fun a b => staticBetter b.1 a.1 = false) :=
  drain_static_order _ it hne hb

/-- **script_order** — `ScriptTranslation` emits an optional sentence and then only phrases/completions starting
at the segment start, by non-increasing end position: longer matches come before shorter ones. -/
theorem script_order (t : Table) (g : Graph) (start endOfInput : Nat) (wc : Bool) (sentence : Option Cand) :
    ∃ (s : Option Cand) (body : List Cand), scriptTranslation t g start endOfInput wc sentence = s.toList ++ body ∧
      body.Pairwise (fun a b => b.endPos ≤ a.endPos) ∧
      (∀ c ∈ body, (c.type = "phrase" ∨ c.type = "completion") ∧ c.start = start) ∧
      (s = none ∨ s = sentence) := by
  unfold scriptTranslation
  simp only
  split
  · exact ⟨none, [], by simp, List.Pairwise.nil, by simp, Or.inl rfl⟩
  · refine ⟨_, scriptPhrases _ start, rfl, ?_, scriptPhrases_types _ start, ?_⟩
    · exact scriptPhrases_order _ start (lookup_keys_ascending _ _ _ _ _)
    · split
      · exact Or.inr rfl
      · exact Or.inl rfl

/-- `DistinctTranslation`: the result is a sublist of the translation, no text occurs twice, and every text of
the translation occurs. -/
theorem distinct_nodup (l : List Cand) :
    (distinct [] l).Sublist l ∧ ((distinct [] l).map (·.text)).Nodup ∧
    ∀ c ∈ l, ∃ c' ∈ distinct [] l, c'.text = c.text :=
  ⟨distinct_sublist [] l, distinct_nodup' [] l, fun c hc => distinct_complete [] l c hc (by simp)⟩

/-- **table_exact_then_completion** (completion disabled) — with `enable_completion: false` the table translation
contains no completion candidate: every candidate comes from the key that equals the code. -/
theorem table_no_completion_when_disabled (t : Table) (syl : List Bytes) (delims input : Bytes) (start : Nat)
    (exactKey : Option PrismKey) (expansion : List PrismKey)
    (hk : ∀ k ∈ exactKey.toList, k.length = (trimRightDelims delims input).length) :
    ∀ c ∈ tableTranslation t syl delims input start false exactKey expansion, c.type = "table" := by
  intro c hc
  simp only [tableTranslation, tableTranslationWith, Bool.false_eq_true, if_false, if_true, List.mem_map] at hc
  obtain ⟨ce, hce, rfl⟩ := hc
  have hne0 := lookupWords_noEmpty t syl (trimRightDelims delims input).length exactKey.toList
  have hp := sort_rest_perm { done := [], rest := lookupWords t syl (trimRightDelims delims input).length exactKey.toList }
  have hne := noEmpty_perm hp hne0
  obtain ⟨x, hx, hs⟩ := drain_mem_same _ _ ce hne hce
  have := lookupWords_remaining t syl _ exactKey.toList hk x (hp.mem_iff.mp hx)
  simp [tableCand, hs.2.2.1, this]

/-- **table_exact_in_weight_order** — the entries whose code equals the input (one chunk per syllable the spelling
denotes and per table) are shown best first: the iterator the translator starts from has a chunk in front that no
other chunk's head beats, and keeps that after every `Next` (`iterator_head_best`); all chunks are exact with empty
remaining code, so "best" is the larger credibility + weight; within a chunk the order is the table's (C06
`weight_sorted`). -/
theorem table_exact_in_weight_order (t : Table) (syl : List Bytes) (n : Nat) (keys : List PrismKey) :
    HeadBest (Iter.sort { done := [], rest := lookupWords t syl n keys }).rest ∧
    NoEmpty (Iter.sort { done := [], rest := lookupWords t syl n keys }).rest :=
  ⟨sort_headBest _, noEmpty_perm (sort_rest_perm _) (lookupWords_noEmpty t syl n keys)⟩

/-- **old_table_translation_counterexample** — the translator BEFORE the repair (no `Sort()` on the iterator
`LookupWords` fills; finding `C07:table:exact-order`, fixed in /repo) violates the weight order: two one-syllable
entries (syllable 0 "bbb" with the lighter 丩七丩-like entry [65], syllable 1 "cbb" with the heavier [66]) behind one
spelling (algebra `derive/^c/b/`: the key `bbb` denotes both syllables): the old translation shows the lighter
entry first, the repaired one the heavier. -/
theorem old_table_translation_counterexample :
    let t : Table := build id 2 [⟨[0], [65], ⟨1, 0⟩⟩, ⟨[1], [66], ⟨5, 0⟩⟩]
    let key : PrismKey := { length := 3, sylls := [(0, 0), (1, 0)] }
    (tableTranslationOld t [[98, 98, 98], [99, 98, 98]] [39] [98, 98, 98] 0 false (some key) [key]).map (·.text) = [[65], [66]] ∧
    (tableTranslation t [[98, 98, 98], [99, 98, 98]] [39] [98, 98, 98] 0 false (some key) [key]).map (·.text) = [[66], [65]] := by
  decide

/-- **table_exact_then_completion_partial** — in what one iterator over word chunks yields, entries whose code
equals the input (empty remaining code) come before entries whose code extends it, provided the chunk in front
has a shortest remaining code (true when the key equal to the code comes first in the prism's answer, as the
breadth-first `ExpandSearch` delivers it) — no initial `Sort` is needed for this part.
FULL STATEMENT (not proved): the same for the whole `LazyTableTranslation`, across its re-done lookups with
limits 10, 100, …; missing: an invariant for `fetchMore`/`Iter.skip` saying that the chunks of a later batch
have remaining codes at least as long as those already shown (holds for breadth-first key order without
spelling algebra).  NOT claimed at all: weight order among the exact entries when SEVERAL keys/syllables equal
the code (spelling algebra, or packs: one chunk per table) — that is `table_exact_in_weight_order`, which needs
the initial `Sort()` the repair added. -/
theorem table_exact_then_completion_partial (chunks : List Chunk) (hne : NoEmpty chunks)
    (hall : ∀ c ∈ chunks, c.isExact = true) (hhead : HeadStatic chunks) :
    (drainAll { done := [], rest := chunks }).Pairwise
      (fun a b => ¬ (a.1.remaining.length > 0 ∧ b.1.remaining.length = 0)) := by
  have h := drain_static_order' (totalEntries chunks + chunks.length + 1) { done := [], rest := chunks } hne hhead
  refine List.Pairwise.imp_of_mem ?_ h
  intro a b ha hb hab
  obtain ⟨x, hx, hsx⟩ := drain_mem_same _ _ a hne ha
  obtain ⟨y, hy, hsy⟩ := drain_mem_same _ _ b hne hb
  have hxa : a.1.isExact = true := by
    have := hall x hx; simpa [Chunk.isExact, hsx.1, hsx.2.1] using this
  have hyb : b.1.isExact = true := by
    have := hall y hy; simpa [Chunk.isExact, hsy.1, hsy.2.1] using this
  intro ⟨h1, h2⟩
  have : decide (b.1.remaining.length < a.1.remaining.length) = false := by
    simpa [staticBetter, hxa, hyb] using hab
  simp only [decide_eq_false_iff_not] at this
  omega

/-! ### sentences of a table-style schema (`enable_sentence`) -/

/-- `consume_trailing_delimiters(pos, input, delimiters)` never goes back and steps over delimiters only -/
theorem consume_trailing_delimiters_spec (delims input : Bytes) (pos : Nat) :
    pos ≤ consumeDelims delims input pos ∧
    ∀ i, pos ≤ i → i < consumeDelims delims input pos → ∃ b, input[i]? = some b ∧ delims.contains b = true :=
  ⟨consumeDelims_ge delims input pos, fun i h1 h2 => consumeDelims_delims delims input pos i h1 h2⟩

/-- **word_graph_edges_sound** — every edge `[s, e)` of the word graph `MakeSentence` hands to the poet stands for a
key the prism finds at `s` in the rest of the input, that has words, followed by exactly the delimiters the rest of
the input has after it (`e = s + consume_trailing_delimiters(len, input.substr(s))`): the codes and delimiters of any
path from 0 to the end make up the input. -/
theorem word_graph_edges_sound (t : Table) (syl : List Bytes) (delims input : Bytes) (cps : Nat → List PrismKey) :
    ∀ e ∈ (wordGraph t syl delims input cps).edges, EdgeOk t syl delims input cps e :=
  foldl_wordGraphStep_edges t syl delims input cps _ _ (by simp)

/-- **table_sentence_shape** — the sentence translation is empty when the poet cannot reach the end of the input (or
finds nothing); otherwise it is the sentence followed only by `table` candidates that start the segment, by
non-increasing end position (longer first words first). -/
theorem table_sentence_shape (w : WordGraph) (start total : Nat) (sentence : Option Cand) :
    (poetReaches w.edges total = false → sentenceTranslation w start total sentence = []) ∧
    (sentenceTranslation w start total sentence = [] ∨
      ∃ s, sentence = some s ∧ sentenceTranslation w start total sentence = s :: sentenceWords w start) ∧
    (sentenceWords w start).Pairwise (fun a b => b.endPos ≤ a.endPos) ∧
    (∀ c ∈ sentenceWords w start, c.type = "table" ∧ c.start = start) := by
  refine ⟨?_, ?_, (sentenceWords_shape w start).1, (sentenceWords_shape w start).2⟩
  · intro h; simp [sentenceTranslation, h]
  · unfold sentenceTranslation
    split
    · cases sentence with
      | none => exact Or.inl rfl
      | some s => exact Or.inr ⟨s, rfl, rfl⟩
    · exact Or.inl rfl

/-- a sentence is made only when the plain translation is empty and `enable_sentence` is on -/
theorem table_query_plain_first (t : Table) (syl : List Bytes) (delims input : Bytes) (start : Nat) (completion es : Bool)
    (exactKey : Option PrismKey) (expansion : List PrismKey) (cps : Nat → List PrismKey) (sentence : Option Cand)
    (h : tableTranslation t syl delims input start completion exactKey expansion ≠ [] ∨ es = false) :
    tableQuery t syl delims input start completion es exactKey expansion cps sentence
      = tableTranslation t syl delims input start completion exactKey expansion := by
  unfold tableQuery
  rcases h with h | h
  · have : (tableTranslation t syl delims input start completion exactKey expansion).isEmpty = false := by
      cases hx : tableTranslation t syl delims input start completion exactKey expansion with
      | nil => exact absurd hx h
      | cons a b => rfl
    simp [this]
  · simp [h]

/-! ### non-vacuity -/

/-- a two-position graph (syllable 0 on [0,1) and [1,2), syllable 1 on [0,2)) over a table with entries for
codes [0], [1] and [0,0]: the lookup finds [0] at 1, [1] and [0,0] at 2; the translation lists the longer
matches first -/
example :
    let t : Table := build id 2 [⟨[0], [65], ⟨3, 0⟩⟩, ⟨[1], [66], ⟨1, 0⟩⟩, ⟨[0, 0], [67], ⟨2, 0⟩⟩]
    let g : Graph := { inputLen := 2, interpLen := 2, edgeStarts := 2,
                       indices := [(0, [(0, [⟨1, 0, Dy.zero⟩]), (1, [⟨2, 0, Dy.zero⟩])]), (1, [(0, [⟨2, 0, Dy.zero⟩])])] }
    (scriptTranslation t g 0 2 false none).map (fun c => (c.endPos, c.text)) = [(2, [67]), (2, [66]), (1, [65])] ∧
    (lookup t g 0 false Dy.zero).all (fun kv => kv.2.rest.all (fun c => !c.entries.isEmpty)) = true := by
  decide

/-- a word graph: codes a (syllable 0) and b (syllable 1), delimiter ', input a'b: edges [0,2) and [2,3), the poet
reaches the end, the translation is the sentence followed by the first word with its delimiter -/
example :
    let t : Table := build id 2 [⟨[0], [65], ⟨3, 0⟩⟩, ⟨[1], [66], ⟨1, 0⟩⟩]
    let cps : Nat → List PrismKey := fun s => if s == 0 then [⟨1, [(0, 0)]⟩] else if s == 2 then [⟨1, [(1, 0)]⟩] else []
    let w := wordGraph t [[97], [98]] [39] [97, 39, 98] cps
    w.edges = [(0, 2), (2, 3)] ∧ poetReaches w.edges 3 = true ∧
    (sentenceTranslation w 0 3 (some ⟨"sentence", 0, 3, [65, 66]⟩)).map (fun c => (c.endPos, c.text)) = [(3, [65, 66]), (2, [65])] := by
  decide

/-! ### the sentence maker (`Poet::MakeSentence` without a grammar plugin: `MakeSentenceWithStrategy<DynamicProgramming>`)

Model: RimeModel/C07/Poet.lean (line-by-line port, generic over the weight operations `WOps`), the word graphs of the
two translators in RimeModel/C07/PoetGraphs.lean.  `Sorted` = start positions strictly increasing (the iteration
order of the `std::map`), `Forward` = every edge ends after its start. -/

/-- **poet_sentence_is_path** — for EVERY weight structure and EVERY comparison function: if the poet returns a
sentence for `(graph, total)`, its components (what `Sentence::Extend` receives, in order) are not empty; each is an
edge of the graph carrying an entry of that edge's entry list; each starts where the previous one ended; none of
them is the edge `[0, total)`; the last ends at `total`; the weights are the running sums
`previous + (entry weight + kPenalty)`; and the first starts at an `Origin`: position 0, or — a quirk of
`states[end_pos]` — the end of an edge that carries no entry at all.  When no edge is without entries the first
component starts at 0: the sentence is a path from 0 to `total` other than the single edge `[0, total)`. -/
theorem poet_sentence_is_path {W : Type} (ops : WOps W) (cmp : Line W → Line W → Bool) (g : PGraph W) (total : Nat)
    (cs : List (Comp W)) (h : poetComponents ops cmp g total = some cs) :
    cs ≠ [] ∧ ∃ o, Origin g o ∧ (NoEmptyEdge g → o = 0) ∧ IsPath ops g total ops.zero o cs ∧ pathEnd o cs = total := by
  rw [poetComponents_some, poetLine_some] at h
  obtain ⟨hf, hne⟩ := h
  obtain ⟨o, ho, hp⟩ := poetStates_allSlots ops cmp g total _ (slotInv_rpath ops g total) ⟨0, Or.inl rfl, rfl⟩ total cs.reverse hf
  have := rpath_isPath ops g total o cs.reverse total hp [] trivial
  simp only [List.reverse_reverse, List.append_nil, pathEnd] at this
  exact ⟨by simpa using hne, o, ho, fun hn => origin_zero_of_noEmptyEdge g hn o ho, this.1, this.2⟩

/-- **poet_sentence_fields** — the `Sentence` the poet returns is what `Extend` makes of the components: the text is
the concatenation of the entries' texts, the code the concatenation of their codes, `components()` the entries,
`word_lengths()` the differences of consecutive end positions (the same list `Line::word_lengths` computes), the end
position that of the last component, the weight that of the last component. -/
theorem poet_sentence_fields {W : Type} (ops : WOps W) (cmp : Line W → Line W → Bool) (g : PGraph W) (total : Nat)
    (sen : Sentence W) (h : makeSentence ops cmp g total = some sen) :
    ∃ cs, poetComponents ops cmp g total = some cs ∧ sen.text = cs.flatMap (·.entry.text) ∧
      sen.code = cs.flatMap (·.entry.code) ∧ sen.components = cs.map (·.entry) ∧
      sen.wordLengths = wordLengthsFrom 0 cs ∧ sen.endPos = pathEnd 0 cs ∧ sen.weight = pathWeight ops.zero cs := by
  unfold makeSentence at h
  cases hc : poetComponents ops cmp g total with
  | none => simp [hc] at h
  | some cs =>
    simp only [hc, Option.map_some, Option.some.injEq] at h
    subst h
    obtain ⟨h1, h2, h3, h4, h5, h6⟩ := foldl_extend cs (Sentence.init ops)
    exact ⟨cs, rfl, by simpa [Sentence.init] using h1, by simpa [Sentence.init] using h2, by simpa [Sentence.init] using h3,
      by simpa [Sentence.init] using h4, h5, h6⟩

/-- **poet_none_iff_unreachable** — on a graph whose start positions come in increasing order and whose edges go
forward, the poet returns no sentence exactly when `total` is not `Live`: there is no edge WITH entries, other than
`[0, total)`, into `total` from a `Visited` position — one reachable from 0 by a chain of edges other than `[0, total)`
(entries or not: `states[end_pos]` is created before the entry list is looked at).  This is what
`found == states.end() || found->second.empty()` amounts to; in particular `total = 0` never yields a sentence
(position 0 holds the empty line and no forward edge ends there). -/
theorem poet_none_iff_unreachable {W : Type} (ops : WOps W) (cmp : Line W → Line W → Bool) (g : PGraph W) (total : Nat)
    (hs : g.Sorted) (hf : g.Forward) :
    makeSentence ops cmp g total = none ↔ ¬ Live g total total := by
  have hm : makeSentence ops cmp g total = none ↔ poetLine ops cmp g total = none := by
    unfold makeSentence poetComponents
    cases poetLine ops cmp g total <;> simp
  rw [hm, poetLine_none]
  constructor
  · intro hn ⟨s, evs, es, hv, hsv, he, hx, hes⟩
    obtain ⟨l, hl, hne⟩ := (cinv_final ops cmp g total hs hf).2 (s, evs) hsv (total, es) he hv hx
    exact hne hes (hn l hl)
  · intro hn l hl
    apply Classical.byContradiction
    intro hne
    exact hn ((poetStates_allSlots ops cmp g total _ (slotInv_visited ops g total) ⟨Visited.zero, fun h => absurd rfl h⟩ total l hl).2 hne)

/-- **poet_some_iff_path** — when moreover every edge carries an entry, the poet returns a sentence exactly when
`total` is reachable from 0 by a chain of at least one edge, none of them the edge `[0, total)` (weights play no
role: any comparison function, any weight structure). -/
theorem poet_some_iff_path {W : Type} (ops : WOps W) (cmp : Line W → Line W → Bool) (g : PGraph W) (total : Nat)
    (hs : g.Sorted) (hf : g.Forward) (hne : NoEmptyEdge g) :
    (∃ best, poetComponents ops cmp g total = some best) ↔
      ∃ cs, cs ≠ [] ∧ IsPath ops g total ops.zero 0 cs ∧ pathEnd 0 cs = total := by
  constructor
  · intro ⟨best, hb⟩
    obtain ⟨h1, o, _, h0, hp, he⟩ := poet_sentence_is_path ops cmp g total best hb
    have := h0 hne
    subst this
    exact ⟨best, h1, hp, he⟩
  · intro ⟨cs, h1, hp, he⟩
    obtain ⟨l, hl, _⟩ := poetLine_unbeaten ops cmp g total (fun _ _ => True) (poetOrder_true ops cmp) hs hf cs h1 hp he
    exact ⟨l.reverse, by rw [poetComponents_some]; simpa using hl⟩

/-- **poet_sentence_optimal** — with `Poet::CompareWeight` and weights whose `<` is a strict weak order that adding
the same number on the right never reverses (`WLaws`: integers, exact dyadic numbers, IEEE doubles without NaN), on a
sorted forward graph: no path from 0 to `total` (other than the excluded single edge) has a strictly larger total
weight than the sentence returned. -/
theorem poet_sentence_optimal {W : Type} (ops : WOps W) (hw : WLaws ops) (g : PGraph W) (total : Nat)
    (hs : g.Sorted) (hf : g.Forward) (best : List (Comp W)) (h : poetComponents ops (compareWeight ops) g total = some best)
    (cs : List (Comp W)) (hne : cs ≠ []) (hp : IsPath ops g total ops.zero 0 cs) (he : pathEnd 0 cs = total) :
    ops.lt (pathWeight ops.zero best) (pathWeight ops.zero cs) = false := by
  obtain ⟨l, hl, hr⟩ := poetLine_unbeaten ops (compareWeight ops) g total _ (poetOrder_compareWeight ops hw) hs hf cs hne hp he
  rw [poetComponents_some, hl] at h
  have hl' : l = best.reverse := Option.some.inj h
  subst hl'
  unfold compareWeight at hr
  rw [← pathWeight_reverse ops best.reverse, ← pathWeight_reverse ops cs.reverse] at hr
  simpa using hr

/-- **poet_sentence_optimal_int** — `poet_sentence_optimal` for integer weights (which obey `WLaws`): the sentence
returned weighs at least as much as every path from 0 to `total`. -/
theorem poet_sentence_optimal_int (k : Int) (g : PGraph Int) (total : Nat) (hs : g.Sorted) (hf : g.Forward)
    (best : List (Comp Int)) (h : poetComponents (intOps k) (compareWeight (intOps k)) g total = some best)
    (cs : List (Comp Int)) (hne : cs ≠ []) (hp : IsPath (intOps k) g total 0 0 cs) (he : pathEnd 0 cs = total) :
    pathWeight 0 cs ≤ pathWeight 0 best := by
  have := poet_sentence_optimal (intOps k) (wlaws_int k) g total hs hf best h cs hne hp he
  simp only [intOps, decide_eq_false_iff_not, Int.not_lt] at this
  exact this

/-- **poet_left_associate_optimal** — `Poet::LeftAssociateCompare` (the table translator's) with integer weights
(exact arithmetic; it is the strict monotonicity of `+` that the tie-breaking needs, which rounding to double does
not have): no path from 0 to `total` is heavier than the sentence returned; among the paths of the same weight none
has fewer words; and among those with as many words none has lexicographically larger word lengths (longer words
first: "left associate"). -/
theorem poet_left_associate_optimal (k : Int) (g : PGraph Int) (total : Nat) (hs : g.Sorted) (hf : g.Forward)
    (best : List (Comp Int)) (h : poetComponents (intOps k) (leftAssociateCompare (intOps k)) g total = some best)
    (cs : List (Comp Int)) (hne : cs ≠ []) (hp : IsPath (intOps k) g total 0 0 cs) (he : pathEnd 0 cs = total) :
    pathWeight 0 cs ≤ pathWeight 0 best ∧
    (pathWeight 0 cs = pathWeight 0 best →
      (wordLengthsFrom 0 best).length ≤ (wordLengthsFrom 0 cs).length ∧
      ((wordLengthsFrom 0 best).length = (wordLengthsFrom 0 cs).length →
        lexLt (wordLengthsFrom 0 best) (wordLengthsFrom 0 cs) = false)) := by
  obtain ⟨l, hl, hr⟩ := poetLine_unbeaten (intOps k) (leftAssociateCompare (intOps k)) g total _ (poetOrder_leftAssociate k) hs hf cs hne hp he
  rw [poetComponents_some, hl] at h
  have hl' : l = best.reverse := Option.some.inj h
  subst hl'
  rw [leftAssociate_false_iff] at hr
  have e1 : lineWeight (intOps k) best.reverse = pathWeight 0 best := by
    have := pathWeight_reverse (intOps k) best.reverse; rw [List.reverse_reverse] at this; exact this.symm
  have e2 : lineWeight (intOps k) cs.reverse = pathWeight 0 cs := by
    have := pathWeight_reverse (intOps k) cs.reverse; rw [List.reverse_reverse] at this; exact this.symm
  have e3 : wordLengths best.reverse = wordLengthsFrom 0 best := by simp [wordLengths]
  have e4 : wordLengths cs.reverse = wordLengthsFrom 0 cs := by simp [wordLengths]
  rw [e1, e2, e3, e4] at hr
  exact ⟨hr.1, fun h => hr.2 h.symm⟩

/-- **poet_pointer_lines_agree** — nothing is lost by modelling lines immutably.  The code's `Line` holds a POINTER to its
predecessor, which for the `DynamicProgramming` strategy is the map slot `states[start_pos]` itself; components are found
by following the pointers through the map as it is at that moment (`pPoetStates` / `resolve`: the loop on such objects,
comparisons included).  On a graph whose start positions increase and whose edges go forward, every slot of the pointer
version resolves at the end to the line the immutable version holds, and the line returned is the same: a slot is written
only by edges from smaller start positions, and those are all done when the slot is first read (`fuel` = any number larger
than every position of the graph + 1: the bound on pointer hops). -/
theorem poet_pointer_lines_agree {W : Type} (ops : WOps W) (cmp : Line W → Line W → Bool) (g : PGraph W) (total fuel : Nat)
    (hs : g.Sorted) (hf : g.Forward) (h0 : 0 < fuel) (hfuel : ∀ sv ∈ g, sv.1 + 1 < fuel ∧ ∀ ev ∈ sv.2, ev.1 < fuel) :
    (∀ p, stFind (poetStates ops cmp g total) p = (pFind (pPoetStates ops cmp g total fuel) p).map (resolve (pPoetStates ops cmp g total fuel) fuel)) ∧
    pPoetLine ops cmp g total fuel = poetLine ops cmp g total :=
  pointer_poet_agrees' ops cmp g total fuel hs hf h0 hfuel

/-- **table_sentence_is_concatenation_of_entries** — `word_graph_edges_sound` and `poet_sentence_is_path` together:
the sentence a table-style schema shows (port of `TableTranslator::MakeSentence` + `Poet` with `LeftAssociateCompare`
on the word graph of the model) spans the whole input and its text is a concatenation of `TableWord`s — consecutive
pieces `[s, e)` from 0 to the end of the input, each an edge of the word graph (hence `EdgeOk`: a key the prism finds
at `s`, with words, followed by exactly the delimiters after it) with the text of a word entry stored for that key. -/
theorem table_sentence_is_concatenation_of_entries (t : Table) (syl : List Bytes) (delims input : Bytes)
    (cps : Nat → List PrismKey) (start : Nat) (c : Cand) (h : tableSentence t syl delims input cps start = some c) :
    c.type = "sentence" ∧ c.start = start ∧ c.endPos = start + input.length ∧
    Concat (fun s e txt => TableWord t syl delims input cps s e txt ∧ EdgeOk t syl delims input cps (s, e)) 0 input.length c.text := by
  unfold tableSentence at h
  cases hm : makeSentence dyOps (leftAssociateCompare dyOps) (tablePoetGraph t syl delims input cps) input.length with
  | none => simp [hm] at h
  | some sen =>
    simp only [hm, Option.map_some, Option.some.injEq] at h
    subst h
    obtain ⟨cs, hc, htext, _, _, _, hend, _⟩ := poet_sentence_fields _ _ _ _ sen hm
    obtain ⟨_, o, _, h0, hp, he⟩ := poet_sentence_is_path _ _ _ _ cs hc
    have := h0 (tablePoetGraph_noEmptyEdge t syl delims input cps)
    subst this
    refine ⟨rfl, rfl, by simp [sentenceCand, hend, he], ?_⟩
    have hcat := isPath_concat dyOps _ input.length
      (fun s e txt => TableWord t syl delims input cps s e txt ∧ EdgeOk t syl delims input cps (s, e)) (by
        intro s e x hx
        obtain ⟨hedge, ce, hce, rfl⟩ := tablePoetGraph_edge t syl delims input cps s e x hx
        obtain ⟨m, hm1, hm2, hm3, hm4, hm5⟩ := edgeWord_some t syl delims input cps s e ce hce
        exact ⟨⟨hedge, m, hm1, hm2, hm3, ce.1, hm4, ce.2, hm5, rfl⟩, word_graph_edges_sound t syl delims input cps (s, e) hedge⟩)
      cs dyOps.zero 0 hp
    rw [he] at hcat
    simpa [sentenceCand, htext] using hcat

/-- **script_sentence_is_concatenation_of_entries** — the sentence a script-style schema shows (port of
`ScriptTranslation::MakeSentence` + `Poet` with `CompareWeight` on the dictionary's lookups from every start position
of the syllable graph) spans the interpreted input and its text is a concatenation of `ScriptWord`s: consecutive
pieces `[s, e)` from 0 to the interpreted length, each with the text of a dictionary entry whose code the syllable
graph spells from `s` to `e` (`lookupTable_sound`, from `query_sound` and `match_extra_sound`). -/
theorem script_sentence_is_concatenation_of_entries (t : Table) (g : Graph) (hk : g.KeysNodup) (start : Nat) (c : Cand)
    (h : scriptSentence t g start = some c) :
    c.type = "sentence" ∧ c.start = start ∧ c.endPos = start + g.interpLen ∧
    Concat (ScriptWord t g) 0 g.interpLen c.text := by
  unfold scriptSentence at h
  cases hm : makeSentence dyOps (compareWeight dyOps) (scriptPoetGraph t g) g.interpLen with
  | none => simp [hm] at h
  | some sen =>
    simp only [hm, Option.map_some, Option.some.injEq] at h
    subst h
    obtain ⟨cs, hc, htext, _, _, _, hend, _⟩ := poet_sentence_fields _ _ _ _ sen hm
    obtain ⟨_, o, _, h0, hp, he⟩ := poet_sentence_is_path _ _ _ _ cs hc
    have := h0 (scriptPoetGraph_noEmptyEdge t g)
    subst this
    refine ⟨rfl, rfl, by simp [sentenceCand, hend, he], ?_⟩
    have hcat := isPath_concat dyOps _ g.interpLen (ScriptWord t g) (by
        intro s e x hx
        obtain ⟨ch, en, h1, h2, rfl⟩ := scriptPoetGraph_edge t g s e x hx
        exact ⟨ch, en, h1, h2, rfl, lookupTable_sound t g hk s Dy.zero (e, ch) h1⟩)
      cs dyOps.zero 0 hp
    rw [he] at hcat
    simpa [sentenceCand, htext] using hcat

/-- **script_order_ported** — `script_order` with the sentence computed by the port of the poet (no oracle): the
translation is an optional sentence — none, or the poet's, which then is a concatenation of entries covering the
interpreted input — followed by phrases/completions by non-increasing end position. -/
theorem script_order_ported (t : Table) (g : Graph) (hk : g.KeysNodup) (start endOfInput : Nat) (wc : Bool) :
    ∃ (s : Option Cand) (body : List Cand), scriptTranslationP t g start endOfInput wc = s.toList ++ body ∧
      body.Pairwise (fun a b => b.endPos ≤ a.endPos) ∧
      (∀ c ∈ body, (c.type = "phrase" ∨ c.type = "completion") ∧ c.start = start) ∧
      (∀ c, s = some c → c.type = "sentence" ∧ c.start = start ∧ c.endPos = start + g.interpLen ∧
        Concat (ScriptWord t g) 0 g.interpLen c.text) := by
  obtain ⟨s, body, h1, h2, h3, h4⟩ := script_order t g start endOfInput wc (scriptSentence t g start)
  refine ⟨s, body, h1, h2, h3, ?_⟩
  intro c hc
  rcases h4 with h4 | h4
  · rw [h4] at hc; simp at hc
  · exact script_sentence_is_concatenation_of_entries t g hk start c (by rw [← h4, hc])

/-- **table_sentence_shape_ported** — `table_sentence_shape` with the sentence computed by the port of the poet (no
oracle): the sentence translation is empty, or the poet's sentence — a concatenation of word entries whose keys and
delimiters make up the input — followed only by `table` candidates that start the segment, longer first words first. -/
theorem table_sentence_shape_ported (t : Table) (syl : List Bytes) (delims input : Bytes) (cps : Nat → List PrismKey) (start : Nat) :
    let w := wordGraph t syl delims input cps
    let tr := sentenceTranslation w start input.length (tableSentence t syl delims input cps start)
    (tr = [] ∨ ∃ s, tr = s :: sentenceWords w start ∧ s.type = "sentence" ∧ s.start = start ∧ s.endPos = start + input.length ∧
        Concat (fun a b txt => TableWord t syl delims input cps a b txt ∧ EdgeOk t syl delims input cps (a, b)) 0 input.length s.text) ∧
    (sentenceWords w start).Pairwise (fun a b => b.endPos ≤ a.endPos) ∧
    (∀ c ∈ sentenceWords w start, c.type = "table" ∧ c.start = start) := by
  intro w tr
  obtain ⟨_, h2, h3, h4⟩ := table_sentence_shape w start input.length (tableSentence t syl delims input cps start)
  refine ⟨?_, h3, h4⟩
  rcases h2 with h2 | ⟨s, hs, h2⟩
  · exact Or.inl h2
  · exact Or.inr ⟨s, h2, table_sentence_is_concatenation_of_entries t syl delims input cps start s hs⟩

/-! ### non-vacuity (the poet) -/

/-- words A on [0,1), B on [1,2), C on [0,2), D on [0,3), E on [2,3) with weights -1, -2, -1, -9, -1, penalty -3; the
graph is sorted and forward and has no edge without entries.  total 3: D alone is the single edge [0,3) and is never
considered; C E (running weights -4, -8) beats A B E (-4, -9, -13).  total 2: now C is the excluded single word and A B
is returned.  total 0, a total nothing reaches, and a total only the excluded edge reaches give no sentence. -/
example :
    let x : Nat → Int → PEntry Int := fun b w => ⟨[b.toUInt8], [b], w⟩
    let g : PGraph Int := [(0, [(1, [x 65 (-1)]), (2, [x 67 (-1)]), (3, [x 68 (-9)])]), (1, [(2, [x 66 (-2)])]), (2, [(3, [x 69 (-1)])])]
    g.Sorted ∧ g.Forward ∧ NoEmptyEdge g ∧
    (poetComponents (intOps (-3)) (compareWeight (intOps (-3))) g 3).map (·.map fun c => (c.endPos, c.entry.text, c.weight))
      = some [(2, [67], -4), (3, [69], -8)] ∧
    (makeSentence (intOps (-3)) (compareWeight (intOps (-3))) g 3).map (fun s => (s.text, s.code, s.wordLengths, s.endPos, s.weight))
      = some ([67, 69], [67, 69], [2, 1], 3, -8) ∧
    -- with total = 2 the edge [0,2) is the excluded single word: A B is returned although C alone would be heavier
    (poetComponents (intOps (-3)) (compareWeight (intOps (-3))) g 2).map (·.map fun c => (c.endPos, c.entry.text, c.weight))
      = some [(1, [65], -4), (2, [66], -9)] ∧
    -- total = 0, an unreachable total, and a total only the excluded edge reaches
    makeSentence (intOps (-3)) (compareWeight (intOps (-3))) g 0 = none ∧
    makeSentence (intOps (-3)) (compareWeight (intOps (-3))) g 4 = none ∧
    makeSentence (intOps (-3)) (compareWeight (intOps (-3))) [(0, [(1, [x 65 (-1)])])] 1 = none := by
  refine ⟨by decide, by decide, by decide, by decide, by decide, by decide, by decide, by decide, by decide⟩

/-- ties: [0,1)+[1,3) and [0,2)+[2,3) weigh the same.  `CompareWeight` keeps the line found first (word lengths 1,2);
`LeftAssociateCompare` replaces it by the one with the longer first word (2,1); a three-word path of the same weight
loses to both (more words) under `LeftAssociateCompare`. -/
example :
    let x : Nat → Int → PEntry Int := fun b w => ⟨[b.toUInt8], [b], w⟩
    let g : PGraph Int := [(0, [(1, [x 65 0]), (2, [x 66 0])]), (1, [(2, [x 69 3]), (3, [x 67 0])]), (2, [(3, [x 68 0])])]
    g.Sorted ∧ g.Forward ∧
    (makeSentence (intOps (-3)) (compareWeight (intOps (-3))) g 3).map (fun s => (s.text, s.wordLengths, s.weight)) = some ([65, 67], [1, 2], -6) ∧
    (makeSentence (intOps (-3)) (leftAssociateCompare (intOps (-3))) g 3).map (fun s => (s.text, s.wordLengths, s.weight)) = some ([66, 68], [2, 1], -6) := by
  refine ⟨by decide, by decide, by decide, by decide⟩

/-- the quirk `Origin` stands for: the edge [0,1) has no entries, so position 1 gets an EMPTY line, is not skipped, and
the "sentence" is the single word B on [1,2) — it does not start at 0 (`TableTranslator::MakeSentence` can produce
such edges, but only into positions that also have an edge with entries or are no start position) -/
example :
    let g : PGraph Int := [(0, [(1, [])]), (1, [(2, [⟨[66], [1], -1⟩])])]
    g.Sorted ∧ g.Forward ∧ ¬ NoEmptyEdge g ∧ Origin g 1 ∧
    (makeSentence (intOps (-3)) (compareWeight (intOps (-3))) g 2).map (fun s => (s.text, s.wordLengths)) = some ([66], [2]) := by
  refine ⟨by decide, by decide, ?_, Or.inr ⟨0, [(1, [])], by simp, by simp⟩, by decide⟩
  intro h; exact h (0, [(1, [])]) (by simp) (1, []) (by simp) rfl

/-- the pointer version on the tie example: same line, found by following `predecessor` through the map; and what goes
wrong without `Forward`: with a backward edge [2,1) the slot of position 1 is overwritten after the line at 2 was built
on it — the pointer version then reads a different chain than the one the line was built from (the immutable version
keeps the old chain): the hypothesis is needed -/
example :
    let x : Nat → Int → PEntry Int := fun b w => ⟨[b.toUInt8], [b], w⟩
    let g : PGraph Int := [(0, [(1, [x 65 0]), (2, [x 66 0])]), (1, [(2, [x 69 3]), (3, [x 67 0])]), (2, [(3, [x 68 0])])]
    (pPoetLine (intOps (-3)) (leftAssociateCompare (intOps (-3))) g 3 5).map (·.map fun c => (c.endPos, c.entry.text))
      = some [(3, [68]), (2, [66])] ∧
    (poetLine (intOps (-3)) (leftAssociateCompare (intOps (-3))) g 3).map (·.map fun c => (c.endPos, c.entry.text))
      = some [(3, [68]), (2, [66])] ∧
    let bad : PGraph Int := [(0, [(1, [x 65 0])]), (1, [(2, [x 66 0])]), (2, [(1, [x 67 9]), (3, [x 68 0])])]
    (pPoetLine (intOps (-3)) (compareWeight (intOps (-3))) bad 3 6).map (·.map fun c => (c.endPos, c.entry.text))
      ≠ (poetLine (intOps (-3)) (compareWeight (intOps (-3))) bad 3).map (·.map fun c => (c.endPos, c.entry.text)) := by
  refine ⟨by decide, by decide, by decide⟩

/-- the hypotheses of `poet_sentence_optimal` are satisfiable: integers obey `WLaws`; the first example's result is a
path and no heavier path exists -/
example : WLaws (intOps (-3)) ∧
    IsPath (intOps (-3)) [(0, [(1, [⟨[65], [65], -1⟩])]), (1, [(2, [⟨[66], [66], -2⟩])])] 2 0 0
      [⟨⟨[65], [65], -1⟩, 1, -4⟩, ⟨⟨[66], [66], -2⟩, 2, -9⟩] := by
  refine ⟨wlaws_int _, ⟨⟨[(1, [⟨[65], [65], -1⟩])], [⟨[65], [65], -1⟩], by simp, by simp, by simp⟩, by simp, by decide,
    ⟨[(2, [⟨[66], [66], -2⟩])], [⟨[66], [66], -2⟩], by simp, by simp, by simp⟩, by simp, by decide, trivial⟩⟩

/-- the port on a translator's own data: codes a (syllable 0) and b (syllable 1), delimiter ', input a'b — the word
graph of the table translator carries A on [0,2) and B on [2,3); the poet's sentence is AB over [0,3) -/
example :
    let t : Table := build id 2 [⟨[0], [65], ⟨3, 0⟩⟩, ⟨[1], [66], ⟨1, 0⟩⟩]
    let cps : Nat → List PrismKey := fun s => if s == 0 then [⟨1, [(0, 0)]⟩] else if s == 2 then [⟨1, [(1, 0)]⟩] else []
    (tablePoetGraph t [[97], [98]] [39] [97, 39, 98] cps).map (fun sv => (sv.1, sv.2.map fun ev => (ev.1, ev.2.map (·.text))))
      = [(0, [(2, [[65]])]), (2, [(3, [[66]])])] ∧
    (tableSentence t [[97], [98]] [39] [97, 39, 98] cps 0).map (fun c => (c.type, c.start, c.endPos, c.text)) = some ("sentence", 0, 3, [65, 66]) := by
  refine ⟨by decide, by decide⟩

end C07
