import RimeModel.C07.CompleteLemmas
import RimeModel.C07.TransLemmas
import RimeModel.C07.LongLemmas
import RimeModel.C07.BuiltLemmas
import RimeModel.C07.SentenceLemmas
/-!
C07 — candidates for an input are exactly the dictionary entries that its code spells.  Property theorems only.

Model: RimeModel/C07/{Model,Translation,Spells}.lean on the C06 index (`Tree`) — ports of `Table::Query`,
`match_extra_code`, `lookup_table`, `Dictionary::Lookup`, `compare_chunk_by_head_element`, `DictEntryIterator`,
`ScriptTranslation`, `Dictionary::LookupWords`, `(Lazy)TableTranslation`, `DistinctTranslation`.
The syllable graph `g`, the prism's key lists and the sentence are inputs (any values): the theorems hold for
all of them, under the two shape facts every recorded graph has (`KeysNodup`: map keys are distinct;
`Forward`: edges go forward).  `Spells g c s e` is the reference notion: a path of `g` from `s` to `e` whose
edges carry the syllables of `c`.
-/
namespace C07
open RimeModel.C06 RimeModel.C07

/-- **query_sound** — every result `Table::Query` pushes for end position `e` ranges over the list of an index
code that the graph spells from `start` to `e` (for a tail accessor: the 3-syllable index code up to the
position where the extra codes are then matched). -/
theorem query_sound (t : Table) (g : Graph) (hk : g.KeysNodup) (start : Nat) (ems : List Emission)
    (h : query t g start = some ems) (em : Emission) (hem : em ∈ ems) :
    Spells g em.2.indexCode start em.1 :=
  query_sound' t g hk start ems h em hem

/-- **query_complete** — if the graph spells `c ++ [y]` (1 to 3 syllables) from `start` to `e`, the table can
follow `c` (`Advance` succeeds at every step) and holds a non-empty entry list for `c ++ [y]` (with any further
property `P` of the accessor, e.g. which entries it ranges over), then the query reports such a non-empty accessor
with that index code at `e`. -/
theorem query_complete (t : Table) (g : Graph) (start : Nat) (c : List Nat) (y e : Nat) (P : Accessor → Prop)
    (hs : Spells g (c ++ [y]) start e) (hstart : start < g.interpLen) (hlen : c.length < indexDepth)
    (hf : Followable t c)
    (hacc : ∀ q : TQ, q.indexCode = c → ∃ acc, access t q y = some acc ∧ acc.exhausted = false ∧ P acc) :
    ∃ ems, query t g start = some ems ∧
      ∃ em ∈ ems, em.1 = e ∧ em.2.indexCode = c ++ [y] ∧ em.2.exhausted = false ∧ P em.2 := by
  obtain ⟨m, hsm, hm, he⟩ := spells_snoc_inv c y start e hs
  obtain ⟨q, hq, hqc⟩ := reach t g start c.length c m rfl hsm hm (by omega) hf
  obtain ⟨acc, ha, hx, hP⟩ := hacc q hqc
  have hlev : (m, q).2.indexCode.length < indexDepth := by simp only [hqc]; exact hlen
  have hem := emission_mem t g (m, q) y e hlev (by simpa using he) acc ha hx
  have hout : (e, acc) ∈ roundOutput t g start c.length := by
    simp only [roundOutput, round, List.mem_flatMap, List.mem_map]
    exact ⟨_, ⟨(m, q), hq, rfl⟩, hem⟩
  have h3 : indexDepth = 3 := rfl
  obtain ⟨ems, hqe, hmem⟩ := query_some_of_mem t g start hstart c.length (by omega) (e, acc) hout
  refine ⟨ems, hqe, (e, acc), hmem, rfl, ?_, hx, hP⟩
  exact (access_indexCode t q y acc ha).1 (by rw [hqc]; exact hlen) |> fun h => by rw [h, hqc]

/-- **rows_are_found** — completeness down to the source rows: on a table built by C06's `build` (any admissible
page sorter `S`), every row whose code has one to three syllables and is spelled by the graph from `start` to `e`
is reported at `e` by an accessor ranging over exactly the page of that code (all its homophones, in page order).
Together with C06 `compile_enumerate_perm` this reads: every dictionary entry whose code the input spells is in
the lookup result. -/
theorem rows_are_found (S : List (CRow Dy) → List (CRow Dy)) (hS : ∀ l, (S l).Perm l) (n : Nat) (rs : List (CRow Dy))
    (g : Graph) (start e : Nat) (hstart : start < g.interpLen) (r : CRow Dy) (hr : r ∈ rs)
    (hlen : 1 ≤ r.code.length ∧ r.code.length ≤ 3) (hhead : r.code.getD 0 0 < n) (hs : Spells g r.code start e) :
    ∃ ems, query (build S n rs) g start = some ems ∧
      ∃ em ∈ ems, em.1 = e ∧ em.2.indexCode = r.code ∧
        em.2.span = .entries ((S (pageAt r.code rs)).map toEntry) := by
  have key : ∀ (c : List Nat) (y : Nat), r.code = c ++ [y] → c.length < indexDepth →
      Finds (build S n rs) c y ((S (pageAt r.code rs)).map toEntry) →
      ∃ ems, query (build S n rs) g start = some ems ∧
        ∃ em ∈ ems, em.1 = e ∧ em.2.indexCode = r.code ∧ em.2.span = .entries ((S (pageAt r.code rs)).map toEntry) := by
    intro c y hc hl hf
    obtain ⟨ems, hq, em, hem, h1, h2, _, h4⟩ :=
      query_complete (build S n rs) g start c y e (fun a => a.span = .entries ((S (pageAt r.code rs)).map toEntry))
        (by rw [← hc]; exact hs) hstart hl hf.1 hf.2
    exact ⟨ems, hq, em, hem, h1, by rw [h2, hc], h4⟩
  match hcode : r.code with
  | [] => simp [hcode] at hlen
  | [a] =>
    have ha : a < n := by simpa [hcode] using hhead
    exact hcode ▸ key [] a (by simp [hcode]) (by simp [indexDepth]) (finds1 S hS n rs r hr a hcode ha)
  | [a, b] =>
    have ha : a < n := by simpa [hcode] using hhead
    exact hcode ▸ key [a] b (by simp [hcode]) (by simp [indexDepth]) (finds2 S hS n rs r hr a b hcode ha)
  | [a, b, c] =>
    have ha : a < n := by simpa [hcode] using hhead
    exact hcode ▸ key [a, b] c (by simp [hcode]) (by simp [indexDepth]) (finds3 S hS n rs r hr a b c hcode ha)
  | _ :: _ :: _ :: _ :: _ => simp [hcode] at hlen

/-- **match_extra_sound** — a successful (non-predictive) `match_extra_code` has consumed the whole extra code
along a path of the graph. -/
theorem match_extra_sound (g : Graph) (extra : List Nat) (depth pos d e : Nat)
    (h : matchExtra g false extra depth pos = some (d, e)) :
    d = depth + extra.length ∧ Spells g extra pos e :=
  matchExtra_sound g extra depth pos d e h

/-- **match_extra_farthest** — whenever the graph spells the extra code from `pos` at all, the match succeeds and
ends at least as far as that path: a long entry is listed at its farthest match. -/
theorem match_extra_farthest (g : Graph) (hfw : g.Forward) (extra : List Nat) (depth pos e' : Nat)
    (h : Spells g extra pos e') :
    ∃ d e, matchExtra g false extra depth pos = some (d, e) ∧ e' ≤ e :=
  matchExtra_farthest g hfw extra depth pos e' h

/-- **long_entry_listed_at_farthest_match** — completeness beyond the index depth: if the graph spells the first
three syllables `[a, b, c]` of a code from `start` to a position `m` that has outgoing edges, the table can follow
them and its tail page there holds the entry `le`, and the graph spells the rest of the code (`le.extra`) from
`m` to `e'`, then `lookup_table` produces an exact one-entry chunk for that entry with the full code, filed under
an end position at least `e'` (the farthest match). -/
theorem long_entry_listed_at_farthest_match (t : Table) (g : Graph) (hfw : g.Forward) (start : Nat) (ic : Dy)
    (a b c m : Nat) (hstart : start < g.interpLen) (hs3 : Spells g [a, b, c] start m) (hm : m < g.interpLen)
    (hf : Followable t [a, b, c]) (idx : List (Nat × List Edge)) (hi : g.indexAt m = some idx)
    (es : List (LongEntry Dy)) (ht : tailOf t a b c = some es) (le : LongEntry Dy) (hle : le ∈ es) (e' : Nat)
    (hse : Spells g le.extra m e') :
    ∃ kc ∈ lookupTable t g start false ic, kc.2.code = [a, b, c] ++ le.extra ∧ kc.2.entries = [le.entry] ∧
      kc.2.matching = kc.2.code.length ∧ e' ≤ kc.1 := by
  obtain ⟨q, hq, hqc⟩ := reach t g start 3 [a, b, c] m rfl hs3 hm (by simp [indexDepth]) hf
  have hne : es ≠ [] := fun h => by rw [h] at hle; simp at hle
  have hem := tail_emission t g (m, q) a b c hqc idx hi es ht hne
  have hout : (m, (⟨[a, b, c], .tail es, q.back⟩ : Accessor)) ∈ roundOutput t g start 3 := by
    simp only [roundOutput, round, List.mem_flatMap, List.mem_map]
    exact ⟨_, ⟨(m, q), hq, rfl⟩, hem⟩
  obtain ⟨ems, hqe, hmem⟩ := query_some_of_mem t g start hstart 3 (by omega) _ hout
  exact long_chunk t g hfw start ic ems hqe m a b c es q.back hmem le hle e' hse

/-- **iterator_perm** — draining the iterator yields every entry of every chunk exactly once. -/
theorem iterator_perm (it : Iter) (hne : NoEmpty it.rest) :
    ((drainAll it).map (·.2)).Perm (allEntries it.rest) :=
  drain_perm _ it hne (by omega)

/-- after `Sort` and after every `Next` the chunk in front is not beaten by any other chunk (the comparison
`compare_chunk_by_head_element` is a strict weak order: `better_asymm`, `better_trans`, `better_nt`) -/
theorem iterator_head_best (it : Iter) : HeadBest it.sort.rest ∧ HeadBest it.next.rest :=
  ⟨sort_headBest it, next_headBest it⟩

/-- **iterator_order** — in what a sorted iterator yields no entry of a predictive chunk precedes an entry of an
exact chunk, and among equally exact chunks the length of the remaining code never decreases.  (The weight part
of the order is `iterator_head_best`: every emitted entry is the head of a chunk no other chunk's head beats;
within a chunk the order is table order — C06 `weight_sorted` unless `sort: original`.) -/
theorem iterator_order (it : Iter) (hne : NoEmpty it.rest) (hb : HeadBest it.rest) :
    (drainAll it).Pairwise (fun a b => staticBetter b.1 a.1 = false) :=
  drain_static_order _ it hne hb

/-- **script_order** — `ScriptTranslation` emits an optional sentence and then only phrases/completions starting
at the segment start, by non-increasing end position: longer matches come before shorter ones. -/
theorem script_order (t : Table) (g : Graph) (start endOfInput : Nat) (wc : Bool) (sentence : Option Cand) :
    ∃ (s : Option Cand) (body : List Cand), scriptTranslation t g start endOfInput wc sentence = s.toList ++ body ∧
      body.Pairwise (fun a b => b.endPos ≤ a.endPos) ∧
      (∀ c ∈ body, (c.type = "phrase" ∨ c.type = "completion") ∧ c.start = start) ∧
      (s = none ∨ s = sentence) := by
  unfold scriptTranslation
  simp only
  split
  · exact ⟨none, [], by simp, List.Pairwise.nil, by simp, Or.inl rfl⟩
  · refine ⟨_, scriptPhrases _ start, rfl, ?_, scriptPhrases_types _ start, ?_⟩
    · exact scriptPhrases_order _ start (lookup_keys_ascending _ _ _ _ _)
    · split
      · exact Or.inr rfl
      · exact Or.inl rfl

/-- `DistinctTranslation`: the result is a sublist of the translation, no text occurs twice, and every text of
the translation occurs. -/
theorem distinct_nodup (l : List Cand) :
    (distinct [] l).Sublist l ∧ ((distinct [] l).map (·.text)).Nodup ∧
    ∀ c ∈ l, ∃ c' ∈ distinct [] l, c'.text = c.text :=
  ⟨distinct_sublist [] l, distinct_nodup' [] l, fun c hc => distinct_complete [] l c hc (by simp)⟩

/-- **table_exact_then_completion** (completion disabled) — with `enable_completion: false` the table translation
contains no completion candidate: every candidate comes from the key that equals the code. -/
theorem table_no_completion_when_disabled (t : Table) (syl : List Bytes) (delims input : Bytes) (start : Nat)
    (exactKey : Option PrismKey) (expansion : List PrismKey)
    (hk : ∀ k ∈ exactKey.toList, k.length = (trimRightDelims delims input).length) :
    ∀ c ∈ tableTranslation t syl delims input start false exactKey expansion, c.type = "table" := by
  intro c hc
  simp only [tableTranslation, tableTranslationWith, Bool.false_eq_true, if_false, if_true, List.mem_map] at hc
  obtain ⟨ce, hce, rfl⟩ := hc
  have hne0 := lookupWords_noEmpty t syl (trimRightDelims delims input).length exactKey.toList
  have hp := sort_rest_perm { done := [], rest := lookupWords t syl (trimRightDelims delims input).length exactKey.toList }
  have hne := noEmpty_perm hp hne0
  obtain ⟨x, hx, hs⟩ := drain_mem_same _ _ ce hne hce
  have := lookupWords_remaining t syl _ exactKey.toList hk x (hp.mem_iff.mp hx)
  simp [tableCand, hs.2.2.1, this]

/-- **table_exact_in_weight_order** — the entries whose code equals the input (one chunk per syllable the spelling
denotes and per table) are shown best first: the iterator the translator starts from has a chunk in front that no
other chunk's head beats, and keeps that after every `Next` (`iterator_head_best`); all chunks are exact with empty
remaining code, so "best" is the larger credibility + weight; within a chunk the order is the table's (C06
`weight_sorted`). -/
theorem table_exact_in_weight_order (t : Table) (syl : List Bytes) (n : Nat) (keys : List PrismKey) :
    HeadBest (Iter.sort { done := [], rest := lookupWords t syl n keys }).rest ∧
    NoEmpty (Iter.sort { done := [], rest := lookupWords t syl n keys }).rest :=
  ⟨sort_headBest _, noEmpty_perm (sort_rest_perm _) (lookupWords_noEmpty t syl n keys)⟩

/-- **old_table_translation_counterexample** — the translator BEFORE the repair (no `Sort()` on the iterator
`LookupWords` fills; finding `C07:table:exact-order`, fixed in /repo) violates the weight order: two one-syllable
entries (syllable 0 "bbb" with the lighter 丩七丩-like entry [65], syllable 1 "cbb" with the heavier [66]) behind one
spelling (algebra `derive/^c/b/`: the key `bbb` denotes both syllables): the old translation shows the lighter
entry first, the repaired one the heavier. -/
theorem old_table_translation_counterexample :
    let t : Table := build id 2 [⟨[0], [65], ⟨1, 0⟩⟩, ⟨[1], [66], ⟨5, 0⟩⟩]
    let key : PrismKey := { length := 3, sylls := [(0, 0), (1, 0)] }
    (tableTranslationOld t [[98, 98, 98], [99, 98, 98]] [39] [98, 98, 98] 0 false (some key) [key]).map (·.text) = [[65], [66]] ∧
    (tableTranslation t [[98, 98, 98], [99, 98, 98]] [39] [98, 98, 98] 0 false (some key) [key]).map (·.text) = [[66], [65]] := by
  decide

/-- **table_exact_then_completion_partial** — in what one iterator over word chunks yields, entries whose code
equals the input (empty remaining code) come before entries whose code extends it, provided the chunk in front
has a shortest remaining code (true when the key equal to the code comes first in the prism's answer, as the
breadth-first `ExpandSearch` delivers it) — no initial `Sort` is needed for this part.
FULL STATEMENT (not proved): the same for the whole `LazyTableTranslation`, across its re-done lookups with
limits 10, 100, …; missing: an invariant for `fetchMore`/`Iter.skip` saying that the chunks of a later batch
have remaining codes at least as long as those already shown (holds for breadth-first key order without
spelling algebra).  NOT claimed at all: weight order among the exact entries when SEVERAL keys/syllables equal
the code (spelling algebra, or packs: one chunk per table) — that is `table_exact_in_weight_order`, which needs
the initial `Sort()` the repair added. -/
theorem table_exact_then_completion_partial (chunks : List Chunk) (hne : NoEmpty chunks)
    (hall : ∀ c ∈ chunks, c.isExact = true) (hhead : HeadStatic chunks) :
    (drainAll { done := [], rest := chunks }).Pairwise
      (fun a b => ¬ (a.1.remaining.length > 0 ∧ b.1.remaining.length = 0)) := by
  have h := drain_static_order' (totalEntries chunks + chunks.length + 1) { done := [], rest := chunks } hne hhead
  refine List.Pairwise.imp_of_mem ?_ h
  intro a b ha hb hab
  obtain ⟨x, hx, hsx⟩ := drain_mem_same _ _ a hne ha
  obtain ⟨y, hy, hsy⟩ := drain_mem_same _ _ b hne hb
  have hxa : a.1.isExact = true := by
    have := hall x hx; simpa [Chunk.isExact, hsx.1, hsx.2.1] using this
  have hyb : b.1.isExact = true := by
    have := hall y hy; simpa [Chunk.isExact, hsy.1, hsy.2.1] using this
  intro ⟨h1, h2⟩
  have : decide (b.1.remaining.length < a.1.remaining.length) = false := by
    simpa [staticBetter, hxa, hyb] using hab
  simp only [decide_eq_false_iff_not] at this
  omega

/-! ### sentences of a table-style schema (`enable_sentence`) -/

/-- `consume_trailing_delimiters(pos, input, delimiters)` never goes back and steps over delimiters only -/
theorem consume_trailing_delimiters_spec (delims input : Bytes) (pos : Nat) :
    pos ≤ consumeDelims delims input pos ∧
    ∀ i, pos ≤ i → i < consumeDelims delims input pos → ∃ b, input[i]? = some b ∧ delims.contains b = true :=
  ⟨consumeDelims_ge delims input pos, fun i h1 h2 => consumeDelims_delims delims input pos i h1 h2⟩

/-- **word_graph_edges_sound** — every edge `[s, e)` of the word graph `MakeSentence` hands to the poet stands for a
key the prism finds at `s` in the rest of the input, that has words, followed by exactly the delimiters the rest of
the input has after it (`e = s + consume_trailing_delimiters(len, input.substr(s))`): the codes and delimiters of any
path from 0 to the end make up the input. -/
theorem word_graph_edges_sound (t : Table) (syl : List Bytes) (delims input : Bytes) (cps : Nat → List PrismKey) :
    ∀ e ∈ (wordGraph t syl delims input cps).edges, EdgeOk t syl delims input cps e :=
  foldl_wordGraphStep_edges t syl delims input cps _ _ (by simp)

/-- **table_sentence_shape** — the sentence translation is empty when the poet cannot reach the end of the input (or
finds nothing); otherwise it is the sentence followed only by `table` candidates that start the segment, by
non-increasing end position (longer first words first). -/
theorem table_sentence_shape (w : WordGraph) (start total : Nat) (sentence : Option Cand) :
    (poetReaches w.edges total = false → sentenceTranslation w start total sentence = []) ∧
    (sentenceTranslation w start total sentence = [] ∨
      ∃ s, sentence = some s ∧ sentenceTranslation w start total sentence = s :: sentenceWords w start) ∧
    (sentenceWords w start).Pairwise (fun a b => b.endPos ≤ a.endPos) ∧
    (∀ c ∈ sentenceWords w start, c.type = "table" ∧ c.start = start) := by
  refine ⟨?_, ?_, (sentenceWords_shape w start).1, (sentenceWords_shape w start).2⟩
  · intro h; simp [sentenceTranslation, h]
  · unfold sentenceTranslation
    split
    · cases sentence with
      | none => exact Or.inl rfl
      | some s => exact Or.inr ⟨s, rfl, rfl⟩
    · exact Or.inl rfl

/-- a sentence is made only when the plain translation is empty and `enable_sentence` is on -/
theorem table_query_plain_first (t : Table) (syl : List Bytes) (delims input : Bytes) (start : Nat) (completion es : Bool)
    (exactKey : Option PrismKey) (expansion : List PrismKey) (cps : Nat → List PrismKey) (sentence : Option Cand)
    (h : tableTranslation t syl delims input start completion exactKey expansion ≠ [] ∨ es = false) :
    tableQuery t syl delims input start completion es exactKey expansion cps sentence
      = tableTranslation t syl delims input start completion exactKey expansion := by
  unfold tableQuery
  rcases h with h | h
  · have : (tableTranslation t syl delims input start completion exactKey expansion).isEmpty = false := by
      cases hx : tableTranslation t syl delims input start completion exactKey expansion with
      | nil => exact absurd hx h
      | cons a b => rfl
    simp [this]
  · simp [h]

/-! ### non-vacuity -/

/-- a two-position graph (syllable 0 on [0,1) and [1,2), syllable 1 on [0,2)) over a table with entries for
codes [0], [1] and [0,0]: the lookup finds [0] at 1, [1] and [0,0] at 2; the translation lists the longer
matches first -/
example :
    let t : Table := build id 2 [⟨[0], [65], ⟨3, 0⟩⟩, ⟨[1], [66], ⟨1, 0⟩⟩, ⟨[0, 0], [67], ⟨2, 0⟩⟩]
    let g : Graph := { inputLen := 2, interpLen := 2, edgeStarts := 2,
                       indices := [(0, [(0, [⟨1, 0, Dy.zero⟩]), (1, [⟨2, 0, Dy.zero⟩])]), (1, [(0, [⟨2, 0, Dy.zero⟩])])] }
    (scriptTranslation t g 0 2 false none).map (fun c => (c.endPos, c.text)) = [(2, [67]), (2, [66]), (1, [65])] ∧
    (lookup t g 0 false Dy.zero).all (fun kv => kv.2.rest.all (fun c => !c.entries.isEmpty)) = true := by
  decide

/-- a word graph: codes a (syllable 0) and b (syllable 1), delimiter ', input a'b: edges [0,2) and [2,3), the poet
reaches the end, the translation is the sentence followed by the first word with its delimiter -/
example :
    let t : Table := build id 2 [⟨[0], [65], ⟨3, 0⟩⟩, ⟨[1], [66], ⟨1, 0⟩⟩]
    let cps : Nat → List PrismKey := fun s => if s == 0 then [⟨1, [(0, 0)]⟩] else if s == 2 then [⟨1, [(1, 0)]⟩] else []
    let w := wordGraph t [[97], [98]] [39] [97, 39, 98] cps
    w.edges = [(0, 2), (2, 3)] ∧ poetReaches w.edges 3 = true ∧
    (sentenceTranslation w 0 3 (some ⟨"sentence", 0, 3, [65, 66]⟩)).map (fun c => (c.endPos, c.text)) = [(3, [65, 66]), (2, [65])] := by
  decide

end C07
