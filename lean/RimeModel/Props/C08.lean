import RimeModel.C08.Transpose
import RimeModel.C08.Alphabet
import RimeModel.C08.Examples
/-!
C08 — syllable segmentation of an input is sound and complete.  Property theorems only.

Model: `RimeModel.C08.build` (RimeModel/C08/Model.lean), a line-by-line port of
`Syllabifier::BuildSyllableGraph` (corrector off) over an abstract prism = the list of spellings in
id order with the descriptors their `SpellingAccessor` enumerates.  Vocabulary of the property:
RimeModel/C08/Spec.lean (`Stored`, `Spans`, `Admits`, `Reach`, `NTiling`, `HasEdge`, `GPath`,
`edgeAt`, `indexAt`); `ComplCond` (RimeModel/C08/Complete.lean) = "completion is enabled, the input is not
exhausted and the limit-512 expand search below the remainder yields a spelling with a normal or
fuzzy reading".

All theorems are for EVERY prism, input byte string, delimiter set, alphabet and flag pair — no bound.
Formal reading (DESIGN §3 C08): S1 `edges_sound` + `edges_complete`, S2 `vertices_on_path`,
S3 `farthest_maximal` (+ `completion_only_if`, and for the alphabet a `Load`ed prism walks —
`searchAlphabet true pr`, all characters of all spellings — `completion_iff_loaded` /
`completion_if_loaded`: `ComplCond` IS "the remainder begins a spelling with a normal or fuzzy
reading" as long as the search stays below its limit of 512), S4 `normal_tilings_complete`,
S5 `indices_transpose`.
-/
namespace C08
open RimeModel.C08 RimeModel.C08.AMap

/-- **S1, soundness of edges.**  Every syllable `syl ↦ p` on every edge `[s, e)` of the returned graph
records its own end (`p.endPos = e`) and is either (regular edge) a stored reading `d` of a spelling
`k` such that `input[s, e)` is `k` followed by greedily consumed delimiters, admitted by the
strict-spelling rule, with exactly the stored type (`d.type = p.type`) and no completion penalty; or
(completion edge) typed `kCompletion` with one completion penalty, present only when completion is
enabled, reaching the end of the input which is then the interpreted length, and denoting a normal or
fuzzy reading of a stored spelling that begins with the remainder `input[s..]`. -/
theorem edges_sound (cfg : Cfg) (pr : Prism) (inp : Bytes) (s e syl : Nat) (p : Props)
    (h : edgeAt (build cfg pr inp).edges s e syl = some p) :
    p.endPos = e ∧
    ((p.compl = 0 ∧ ∃ k d, Stored pr k d ∧ Spans cfg.delims inp s e k ∧ Admits cfg inp s e d ∧
        d.syl = syl ∧ d.type = p.type) ∨
     (p.type = kCompletion ∧ p.compl = 1 ∧ cfg.completion = true ∧ e = inp.length ∧
        (build cfg pr inp).interpretedLength = inp.length ∧
        ∃ k d, Stored pr k d ∧ inp.drop s <+: k ∧ d.syl = syl ∧ d.type < kAbbrev)) := by
  by_cases hne : inp = []
  · subst hne; rw [build_of_nil] at h; simp [emptyGraph, edgeAt, evAt] at h
  · rw [build_edges cfg pr inp hne] at h
    rw [build_il cfg pr inp hne]
    obtain ⟨sm, hsm, hp⟩ := edgeAt_eq.mp h
    rcases final_evAt cfg pr inp s e with ⟨hc, hs, he, hev⟩ | ⟨_, hev⟩
    · rw [hev] at hsm; cases hsm
      obtain ⟨a, b, c, _, m, hm, _, d, hd, hds, hdt⟩ := (complSM_inv cfg pr inp).sound syl p hp
      obtain ⟨k, hk1, hk2⟩ := stored_of_expand pr (expandSearch_ok hm) hd
      refine ⟨by rw [b, he], Or.inr ⟨a, c, hc.1, he, (final_pos cfg pr inp hc).1, k, d, hk1, ?_, hds, hdt⟩⟩
      rw [hs]; exact hk2
    · rw [hev] at hsm
      obtain ⟨p0, hp0, hstrip⟩ := prune_edge_sound cfg pr inp (edgeAt_eq.mpr ⟨sm, hsm, hp⟩)
      obtain ⟨sm0, hsm0, hp0'⟩ := edgeAt_eq.mp hp0
      obtain ⟨a, b, _, k, d, hst, hsp, hadm, hds, hdt⟩ := fwd_edge_sound cfg pr inp hsm0 hp0'
      have e1 : (stripP p0).endPos = (stripP p).endPos := by rw [hstrip]
      have e2 : (stripP p0).compl = (stripP p).compl := by rw [hstrip]
      have e3 : (stripP p0).type = (stripP p).type := by rw [hstrip]
      exact ⟨e1.symm.trans a, Or.inl ⟨e2.symm.trans b, k, d, hst, spans_of_spansC hsp, hadm, hds, hdt.trans e3⟩⟩

/-- **S1, completeness of edges.**  If the graph has an edge `[s, e)`, then every normal or fuzzy
reading `d` of every stored spelling `k` that spans `[s, e)` (and is admitted by the strict-spelling
rule) is on that edge, with a type at least as good as `d.type` (so a normal reading is there as
normal).  Abbreviation-typed readings may be pruned when a better path exists — that is the reading of
"exactly" the code can meet. -/
theorem edges_complete (cfg : Cfg) (pr : Prism) (inp : Bytes) (s e : Nat)
    (he : HasEdge (build cfg pr inp).edges s e) (k : Bytes) (d : Desc) (hst : Stored pr k d)
    (hsp : Spans cfg.delims inp s e k) (hadm : Admits cfg inp s e d) (hty : d.type ≤ kFuzzy) :
    ∃ p, edgeAt (build cfg pr inp).edges s e d.syl = some p ∧ p.type ≤ d.type := by
  by_cases hne : inp = []
  · subst hne
    obtain ⟨sm, h, _⟩ := he
    rw [build_of_nil] at h; simp [emptyGraph, evAt] at h
  · rw [build_edges cfg pr inp hne] at he ⊢
    obtain ⟨sm, hsm, _⟩ := he
    have hspc := spansC_of_spans hsp
    rcases final_evAt cfg pr inp s e with ⟨_, hs, _, _⟩ | ⟨_, hev⟩
    · -- a spelling cannot span the completion edge: the farthest vertex would not be farthest
      exfalso
      obtain ⟨t, ht⟩ := fwd_farthest_visited cfg pr inp
      rw [← hs] at ht
      obtain ⟨te, hte, _⟩ := fwd_step cfg pr inp ht hst hspc hadm
      have h1 := fwd_visited_le cfg pr inp hte
      have h2 := spansC_bounds hspc
      omega
    · rw [hev] at hsm
      have hsF : s < (forward cfg pr inp).farthest := by
        obtain ⟨_, p0, hp0⟩ := exists_find?_of_ne_nil (prune_ev_ok cfg pr inp hsm).1
        obtain ⟨q, hq, _⟩ := prune_edge_sound cfg pr inp (edgeAt_eq.mpr ⟨sm, hsm, hp0⟩)
        obtain ⟨sm0, hsm0, _⟩ := edgeAt_eq.mp hq
        obtain ⟨t, ht⟩ := fwd_edge_visited cfg pr inp hsm0
        have h1 := fwd_visited_le cfg pr inp ht
        by_cases hs : s = (forward cfg pr inp).farthest
        · rw [hs, pruned_no_out_farthest] at hsm; cases hsm
        · omega
      obtain ⟨hgs, hge⟩ := prune_edge_good cfg pr inp hsm hsF
      obtain ⟨_, ts, hts, htsL⟩ := good_type cfg pr inp hgs
      obtain ⟨sm0, p0, hsm0, hp0, hp0t⟩ := fwd_edge_complete cfg pr inp hts hst hspc hadm
      have hL : kFuzzy ≤ lastTypeOf (forward cfg pr inp) := by unfold lastTypeOf; omega
      obtain ⟨_, p, hp, hpp⟩ := prune_retain cfg pr inp hts htsL hsF hge
        (edgeAt_eq.mpr ⟨sm0, hsm0, hp0⟩) (by omega)
      refine ⟨p, final_edgeAt_of_pruned cfg pr inp hp, ?_⟩
      have : (stripP p).type = (stripP p0).type := by rw [hpp]
      exact Nat.le_trans (Nat.le_of_eq this) hp0t

/-- **S2.**  Every vertex retained in `vertices` lies on a path of retained edges from position 0 to
the interpreted length.  (Hypothesis: the prism stores only values of the `SpellingType` enum; real
prisms store 0, 1, 2.) -/
theorem vertices_on_path (cfg : Cfg) (pr : Prism) (inp : Bytes) (hty : PrismTypesOK pr) (v : Nat)
    (hv : ((build cfg pr inp).vertices.find? v).isSome = true) :
    GPath (build cfg pr inp).edges 0 v ∧
    GPath (build cfg pr inp).edges v (build cfg pr inp).interpretedLength := by
  by_cases hne : inp = []
  · subst hne; rw [build_of_nil] at hv; simp [emptyGraph] at hv
  · rw [build_vertices cfg pr inp hne] at hv
    rw [build_edges cfg pr inp hne, build_il cfg pr inp hne]
    have hg := (prune_vertex_iff cfg pr inp v).mp hv
    have hmono := fun a b => final_hasEdge_of_pruned cfg pr inp (a := a) (b := b)
    refine ⟨gpath_mono hmono (zero_to_good cfg pr inp hty v hg), ?_⟩
    have hvF := gpath_mono hmono (good_to_farthest cfg pr inp _ v (Nat.le_refl _) hg)
    by_cases hc : Completes cfg pr inp
    · rw [(final_pos cfg pr inp hc).1]
      refine gpath_trans hvF (GPath.step ?_ (GPath.refl _))
      rcases final_evAt cfg pr inp (forward cfg pr inp).farthest inp.length with ⟨_, _, _, hev⟩ | ⟨hn, _⟩
      · exact ⟨_, hev, (complSM_ne_nil_iff cfg pr inp _).mpr hc.2.2⟩
      · exact absurd ⟨hc, rfl, rfl⟩ hn
    · rw [(final_neg cfg pr inp hc).1]; exact hvF

/-- **S3.**  The interpreted length is the largest position `F` that can be tiled from 0 by stored
spellings (each followed by greedily skipped delimiters, the strict-spelling rule applied), unless
`ComplCond` holds at `F` — then and only then it is the whole input. -/
theorem farthest_maximal (cfg : Cfg) (pr : Prism) (inp : Bytes) :
    ∃ F, Reach cfg pr inp F ∧ (∀ p, Reach cfg pr inp p → p ≤ F) ∧
      (((build cfg pr inp).interpretedLength = F ∧ ¬ ComplCond cfg pr inp F) ∨
       ((build cfg pr inp).interpretedLength = inp.length ∧ ComplCond cfg pr inp F)) := by
  by_cases hne : inp = []
  · subst hne
    refine ⟨0, Reach.zero, fun p hp => reach_le cfg pr [] hp, Or.inl ⟨by rw [build_of_nil]; rfl, ?_⟩⟩
    intro h; exact absurd h.2.1 (by simp)
  · refine ⟨(forward cfg pr inp).farthest, fwd_farthest_reach cfg pr inp,
      fun p hp => fwd_farthest_max cfg pr inp hp, ?_⟩
    rw [build_il cfg pr inp hne]
    by_cases hc : Completes cfg pr inp
    · exact Or.inr ⟨(final_pos cfg pr inp hc).1, hc⟩
    · exact Or.inl ⟨(final_neg cfg pr inp hc).1, hc⟩

/-- **S3, "only when".**  If the interpreted length is not the farthest tileable position `F`, then
completion is enabled, the interpreted length is the whole input, and the remainder `input[F..]`
begins some stored spelling (one with a normal or fuzzy reading). -/
theorem completion_only_if (cfg : Cfg) (pr : Prism) (inp : Bytes) (F : Nat)
    (hF : Reach cfg pr inp F) (hmax : ∀ p, Reach cfg pr inp p → p ≤ F)
    (hne : (build cfg pr inp).interpretedLength ≠ F) :
    cfg.completion = true ∧ (build cfg pr inp).interpretedLength = inp.length ∧ F < inp.length ∧
    ∃ k d, Stored pr k d ∧ inp.drop F <+: k ∧ d.type < kAbbrev := by
  obtain ⟨F', h1, h2, h3⟩ := farthest_maximal cfg pr inp
  have hFF : F' = F := Nat.le_antisymm (hmax F' h1) (h2 F hF)
  subst hFF
  rcases h3 with ⟨h4, _⟩ | ⟨h4, h5⟩
  · exact absurd h4 hne
  · obtain ⟨a, b, c⟩ := complCond_text cfg pr inp h5
    exact ⟨a, h4, b, c⟩

/-- **S3, "exactly when", for a loaded prism.**  When `ExpandSearch` walks the alphabet of a prism that
was `Load`ed from its file (`searchAlphabet true pr`: every character of every spelling — whether or not
the prism has a spelling map, whatever characters the spellings use) and the unlimited search below the
remainder has at most 512 results (so the limit cuts nothing), `ComplCond` at `F` says exactly:
completion is enabled, the input is not exhausted, and the remainder `input[F..]` begins some stored
spelling that has a normal or fuzzy reading. -/
theorem completion_iff_loaded (cfg : Cfg) (pr : Prism) (inp : Bytes) (F : Nat)
    (hal : cfg.alphabet = searchAlphabet true pr)
    (hlim : (expandSearch pr cfg.alphabet (inp.drop F) 0).length ≤ kExpandSearchLimit) :
    ComplCond cfg pr inp F ↔
      (cfg.completion = true ∧ F < inp.length ∧
        ∃ k d, Stored pr k d ∧ inp.drop F <+: k ∧ d.type < kAbbrev) := by
  constructor
  · exact fun h => complCond_text cfg pr inp h
  · rintro ⟨hc, hF, k, d, ⟨i, hi, hd⟩, hpre, hty⟩
    obtain ⟨row, hrow, hrk⟩ := keyIndex_some hi
    have hmem : row ∈ pr := List.mem_of_getElem? hrow
    have hcov : ∀ c ∈ k.drop (inp.drop F).length, c ∈ cfg.alphabet := by
      intro c hc'
      rw [hal]
      exact searchAlphabet_loaded_covers hmem c (by rw [hrk]; exact List.mem_of_mem_drop hc')
    have hfound := expandSearch_complete hi hpre hcov
    rw [← expandSearch_limit_of_le hlim] at hfound
    refine ⟨hc, hF, (i, k.length), hfound, ?_, d, hd, hty⟩
    have := hpre.length_le
    simpa using this

/-- **S3, the "if" direction on the graph.**  For a loaded prism (alphabet and limit as in
`completion_iff_loaded`): if completion is enabled and the remainder after the farthest tileable
position `F` begins a stored spelling with a normal or fuzzy reading, the whole input is interpreted. -/
theorem completion_if_loaded (cfg : Cfg) (pr : Prism) (inp : Bytes) (F : Nat)
    (hal : cfg.alphabet = searchAlphabet true pr)
    (hlim : (expandSearch pr cfg.alphabet (inp.drop F) 0).length ≤ kExpandSearchLimit)
    (hF : Reach cfg pr inp F) (hmax : ∀ p, Reach cfg pr inp p → p ≤ F)
    (hc : cfg.completion = true) (hlt : F < inp.length)
    (hk : ∃ k d, Stored pr k d ∧ inp.drop F <+: k ∧ d.type < kAbbrev) :
    (build cfg pr inp).interpretedLength = inp.length := by
  obtain ⟨F', h1, h2, h3⟩ := farthest_maximal cfg pr inp
  have hFF : F' = F := Nat.le_antisymm (hmax F' h1) (h2 F hF)
  subst hFF
  rcases h3 with ⟨_, h5⟩ | ⟨h4, _⟩
  · exact absurd ((completion_iff_loaded cfg pr inp F' hal hlim).mpr ⟨hc, hlt, hk⟩) h5
  · exact h4

/-- **S4.**  Every tiling of the interpreted prefix by spellings read as *normal* is present as a path:
each of its steps `[a, b)` with syllable `syl` is an edge carrying `syl` with type normal. -/
theorem normal_tilings_complete (cfg : Cfg) (pr : Prism) (inp : Bytes) (segs : List (Nat × Nat × Nat))
    (h : NTiling cfg pr inp 0 (build cfg pr inp).interpretedLength segs) :
    ∀ seg ∈ segs, ∃ p, edgeAt (build cfg pr inp).edges seg.1 seg.2.1 seg.2.2 = some p ∧ p.type = kNormal := by
  by_cases hne : inp = []
  · subst hne
    rw [build_of_nil] at h
    have := (ntiling_le cfg pr [] h).2
    intro seg hs
    have hnn : segs ≠ [] := fun hh => by rw [hh] at hs; simp at hs
    have := this hnn
    simp [emptyGraph] at this
  · rw [build_il cfg pr inp hne] at h
    rw [build_edges cfg pr inp hne]
    -- the tiling shows its end is tileable, so completion did not extend the prefix
    have hreach : ∀ {a c : Nat} {sg : List (Nat × Nat × Nat)}, NTiling cfg pr inp a c sg →
        Reach cfg pr inp a → Reach cfg pr inp c := by
      intro a c sg ht
      induction ht with
      | nil _ => exact fun hr => hr
      | cons hst hdt hsp _ ih =>
        intro hr
        exact ih (Reach.step hr hst hsp (by unfold Admits; intro hh; exact hh.2.2.2 hdt))
    have hle := fwd_farthest_max cfg pr inp (hreach h Reach.zero)
    have hil : finalIL cfg pr inp = (forward cfg pr inp).farthest := by
      by_cases hc : Completes cfg pr inp
      · have h1 := (final_pos cfg pr inp hc).1
        have h2 := hc.2.1
        omega
      · exact (final_neg cfg pr inp hc).1
    rw [hil] at h
    obtain ⟨_, hall⟩ := ntiling_retained cfg pr inp h (fwd_start cfg pr inp)
    intro seg hs
    obtain ⟨p, hp, hpt⟩ := hall seg hs
    exact ⟨p, final_edgeAt_of_pruned cfg pr inp hp, hpt⟩

/-- **S5.**  `indices` is exactly the transpose of `edges`: it has an entry for the same start
positions; the list `indices[s][syl]` contains exactly the properties `edges[s][e][syl]` over all
ends `e`; and it is ordered by strictly descending end position (so each occurs once). -/
theorem indices_transpose (cfg : Cfg) (pr : Prism) (inp : Bytes) :
    (∀ s, ((build cfg pr inp).indices.find? s).isSome = ((build cfg pr inp).edges.find? s).isSome) ∧
    (∀ s syl p, p ∈ indexAt (build cfg pr inp).indices s syl ↔
        ∃ e, edgeAt (build cfg pr inp).edges s e syl = some p) ∧
    (∀ s syl, ((indexAt (build cfg pr inp).indices s syl).map (·.endPos)).Pairwise (· > ·)) := by
  by_cases hne : inp = []
  · subst hne
    rw [build_of_nil]
    refine ⟨fun s => rfl, fun s syl p => ?_, fun s syl => ?_⟩
    · simp [emptyGraph, indexAt, edgeAt, evAt]
    · simp [emptyGraph, indexAt]
  · rw [build_indices cfg pr inp hne, build_edges cfg pr inp hne]
    have hsorted : ∀ s ev, (finalE cfg pr inp).find? s = some ev → ∀ x ∈ ev, Sorted x.2 := by
      intro s ev h x hx
      obtain ⟨h1, h2⟩ := final_wf cfg pr inp h
      exact (h2 x.1 x.2 (find?_of_mem_sorted h1 hx)).1
    refine ⟨?_, ?_, ?_⟩
    · intro s
      unfold transpose
      rw [find?_mapVal]; simp
    · intro s syl p
      rw [indexAt_transpose _ s syl (hsorted s)]
      cases hq : (finalE cfg pr inp).find? s with
      | none => simp [edgeAt, evAt, hq]
      | some ev =>
        obtain ⟨h1, _⟩ := final_wf cfg pr inp hq
        simp only [List.mem_filterMap, List.mem_reverse]
        constructor
        · rintro ⟨x, hx, hp⟩
          refine ⟨x.1, edgeAt_eq.mpr ⟨x.2, ?_, hp⟩⟩
          unfold evAt; rw [hq]; exact find?_of_mem_sorted h1 hx
        · rintro ⟨e, he⟩
          obtain ⟨sm, hsm, hp⟩ := edgeAt_eq.mp he
          unfold evAt at hsm; rw [hq] at hsm
          exact ⟨(e, sm), mem_of_find? hsm, hp⟩
    · intro s syl
      rw [indexAt_transpose _ s syl (hsorted s)]
      cases hq : (finalE cfg pr inp).find? s with
      | none => simp
      | some ev =>
        obtain ⟨h1, h2⟩ := final_wf cfg pr inp hq
        apply descending_of_sorted
        · rw [List.pairwise_reverse]
          unfold Sorted keys at h1
          rw [List.pairwise_map] at h1
          exact h1
        · intro x hx p hp
          exact (h2 x.1 x.2 (find?_of_mem_sorted h1 (List.mem_reverse.mp hx))).2.2.2 syl p hp

/-- the interpreted length never exceeds the input length, and is at least the farthest tileable
position -/
theorem interpreted_le_input (cfg : Cfg) (pr : Prism) (inp : Bytes) :
    (build cfg pr inp).interpretedLength ≤ inp.length := by
  obtain ⟨F, h1, _, h3⟩ := farthest_maximal cfg pr inp
  rcases h3 with ⟨h4, _⟩ | ⟨h4, _⟩
  · rw [h4]; exact reach_le cfg pr inp h1
  · rw [h4]; exact Nat.le_refl _

/-- **Faithfulness of the loop bound.**  The model runs the `while (!queue.empty())` loop for
`(|input|+1)² + 1` iterations; that is always enough: the queue is empty when it stops, for every
prism and input (so no theorem above is about a truncated search). -/
theorem forward_loop_exhausts_queue (cfg : Cfg) (pr : Prism) (inp : Bytes) :
    (forward cfg pr inp).queue = [] :=
  forward_queue_nil cfg pr inp

/-! ### non-vacuity: the hypotheses of the theorems are met by concrete, non-trivial cases
(`exPrism`: spellings `a`, `an`, `na` normal and `n` an abbreviation of `na`; delimiter `'`) -/

/-- `an'a` is segmented completely, `an'` + `a`, both edges present (hypothesis of `edges_sound`) -/
example : (build exCfg exPrism exInp).interpretedLength = 4 ∧
    edgeAt (build exCfg exPrism exInp).edges 0 3 1 = some ⟨0, 3, 0, 0, 0⟩ ∧
    edgeAt (build exCfg exPrism exInp).edges 3 4 0 = some ⟨0, 4, 0, 0, 0⟩ := by decide

/-- hypotheses of `edges_complete` on the edge `[0,3)` = `an` + `'` -/
example : HasEdge (build exCfg exPrism exInp).edges 0 3 ∧ Stored exPrism [97, 110] ⟨1, 0, 0⟩ ∧
    Spans exCfg.delims exInp 0 3 [97, 110] ∧ Admits exCfg exInp 0 3 ⟨1, 0, 0⟩ := by
  refine ⟨⟨[(1, ⟨0, 3, 0, 0, 0⟩)], by decide, by decide⟩, ⟨1, by decide, by decide⟩,
    ⟨by decide, by decide, ⟨[39], by decide, by decide⟩, ?_⟩, fun h => absurd h.1 (by decide)⟩
  intro b hb
  have : b = 97 := by simpa [exInp] using hb.symm
  subst this; decide

/-- hypotheses of `vertices_on_path`: a well-typed prism and a retained inner vertex; on `anan`
the dead-end vertices 1 and 3 of the abbreviation path `a|na|n` are pruned, 2 is kept -/
example : PrismTypesOK exPrism ∧ ((build exCfg exPrism exInp2).vertices.find? 2).isSome = true ∧
    ((build exCfg exPrism exInp2).vertices.find? 1).isSome = false ∧
    ((build exCfg exPrism exInp2).vertices.find? 3).isSome = false :=
  ⟨prismTypesOK_of_rows (by decide), by decide, by decide, by decide⟩

/-- both alternatives of `farthest_maximal` occur: strict spelling keeps the lone abbreviation `n`
from spanning the input (F = 0); with completion on, `ComplCond` holds at 0 and the interpreted
length is the whole input; with completion off it stays 0 -/
example : ComplCond exCfgStrict exPrism [110] 0 ∧ (build exCfgStrict exPrism [110]).interpretedLength = 1 ∧
    ¬ ComplCond { exCfgStrict with completion := false } exPrism [110] 0 ∧
    (build { exCfgStrict with completion := false } exPrism [110]).interpretedLength = 0 := by
  refine ⟨⟨rfl, by decide, (2, 2), by decide, by decide, ⟨2, 0, 0⟩, by decide, by decide⟩, by decide, ?_, by decide⟩
  intro h; exact absurd h.1 (by decide)

/-- hypothesis of `normal_tilings_complete`: `an'a` = `an'` + `a` is a tiling by normal spellings of the
interpreted prefix -/
example : NTiling exCfg exPrism exInp 0 (build exCfg exPrism exInp).interpretedLength [(0, 3, 1), (3, 4, 0)] := by
  have h4 : (build exCfg exPrism exInp).interpretedLength = 4 := by decide
  rw [h4]
  have s1 : Spans exCfg.delims exInp 0 3 [97, 110] := by
    refine ⟨by decide, by decide, ⟨[39], by decide, by decide⟩, ?_⟩
    intro b hb
    have : b = 97 := by simpa [exInp] using hb.symm
    subst this; decide
  have s2 : Spans exCfg.delims exInp 3 4 [97] := by
    refine ⟨by decide, by decide, ⟨[], by decide, by decide⟩, ?_⟩
    intro b hb
    simp [exInp] at hb
  exact NTiling.cons (d := ⟨1, 0, 0⟩) ⟨1, by decide, by decide⟩ rfl s1
    (NTiling.cons (d := ⟨0, 0, 0⟩) ⟨0, by decide, by decide⟩ rfl s2 (NTiling.nil 4))

/-- why `vertices_on_path` assumes `PrismTypesOK`: a stored type outside the enum (7 > kInvalid) is never
recorded as the end vertex's type (`end_vertex_type` starts at kInvalid = 5), so the pruning pass
(`last_type` = 5) erases the only edge and then the start vertex — the lone vertex 1 is on no path.
Real prisms hold 0, 1, 2 only (checked on every generated prism by checks/C08.py). -/
example : (build exCfg [([97], [⟨0, 7, 0⟩])] [97]).vertices = [(1, 5)] ∧
    (build exCfg [([97], [⟨0, 7, 0⟩])] [97]).edges = [] ∧
    (build exCfg [([97], [⟨0, 7, 0⟩])] [97]).interpretedLength = 1 := by decide

/-- `indices_transpose` is about non-empty indices: `a'n` has two index entries -/
example : indexAt (build exCfg exPrism exInp3).indices 0 0 = [⟨0, 2, 0, 0, 0⟩] ∧
    indexAt (build exCfg exPrism exInp3).indices 2 2 = [⟨2, 3, 7, 0, 0⟩] := by decide

/-- the alphabet matters only through `Load`: syllabary { `a1`, `b` } (no spelling algebra), input `a`,
completion on.  The loaded prism walks its stored alphabet `1ab` and completes `a` to `a1`
(`completion_if_loaded` applies); an object that only ran `Build` walks a–z, cannot step over `1`, and
leaves the input uninterpreted. -/
example : searchAlphabet true [([97, 49], [⟨0, 0, 0⟩]), ([98], [⟨1, 0, 0⟩])] = [49, 97, 98] ∧
    (build { delims := [39], completion := true, strict := false,
             alphabet := searchAlphabet true [([97, 49], [⟨0, 0, 0⟩]), ([98], [⟨1, 0, 0⟩])] }
       [([97, 49], [⟨0, 0, 0⟩]), ([98], [⟨1, 0, 0⟩])] [97]).interpretedLength = 1 ∧
    (build { delims := [39], completion := true, strict := false,
             alphabet := searchAlphabet false [([97, 49], [⟨0, 0, 0⟩]), ([98], [⟨1, 0, 0⟩])] }
       [([97, 49], [⟨0, 0, 0⟩]), ([98], [⟨1, 0, 0⟩])] [97]).interpretedLength = 0 := by decide

end C08
