import RimeModel.C09.AlgebraLemmas
import RimeModel.C09.PrismLemmas
import RimeModel.C09.GlueLemmas
import RimeModel.C09.RegexLemmas
/-!
C09 — spelling algebra and the prism preserve the spelling-to-syllable relation.
Property theorems only.  Model: RimeModel/C09/Model.lean (algebra), RimeModel/C09/Prism.lean (prism);
specification vocabulary (`Script.spells`, `SortedBy`, `mergeCandidates`, `bfsLt`, …): RimeModel/C09/Spec.lean.

A rule is one of the six kinds plus an ARBITRARY function `run : spelling → notApplied | applied r | threw`
(the regular-expression engine is not modelled), so every theorem below holds for all regular
expressions; syllabaries, rule lists, queries and limits are unbounded.  For `erase` the model also
gives the pattern a meaning on a fragment of the regex syntax (RimeModel/C09/Regex.lean:
`Erasion.run` = whole-string `regex_match`); `erase_own_name_round` and `erase_literal_exact` are
about that concrete rule.
-/
namespace C09
open RimeModel.C09

/-! ## the spelling algebra -/

/-- Every spelling of the table `Projection::Apply` leaves denotes at least one syllable, all the
syllables it denotes are members of the syllabary, none occurs twice under one spelling, no tips are
set; and the spellings are strictly sorted (hence pairwise distinct) — for every syllabary and every
rule list. -/
theorem script_values_in_syllabary (syl : List Bytes) (rules : List Rule) :
    let S := (Projection.apply rules (Script.ofSyllabary syl)).2
    SortedBy blt S.keys ∧ S.keys.Nodup ∧
    ∀ k v, (k, v) ∈ S →
      v ≠ [] ∧ (∀ x ∈ v, x.str ∈ syl ∧ x.props.tips = []) ∧ (v.map (·.str)).Nodup := by
  intro S
  have h : S.WF syl := wf_apply rules (wf_ofSyllabary syl)
  exact ⟨h.1, h.1.nodup blt_order, fun k v hkv => h.2 (k, v) hkv⟩

/-- One round of a non-deleting calculation (derive, fuzz, abbrev) never removes a spelling nor a
syllable under it: whatever `k ↦ y` the table held, it still holds. -/
theorem nondeleting_monotone (r : Rule) (hr : r.kind.deletion = false) (S T : Script)
    (hround : round r S = some T) (k y : Bytes) (h : S.spells k y) : T.spells k y :=
  spells_round_keep hround h (by simp [hr])

/-- the non-deleting kinds are exactly derive, fuzz and abbrev -/
theorem nondeleting_kinds (k : Kind) : k.deletion = false ↔ (k = .derive ∨ k = .fuzz ∨ k = .abbrev) := by
  cases k <;> simp [Kind.deletion]

/-- A whole projection made of non-deleting calculations never removes a spelling or a syllable under it
(including when a calculation throws and `Apply` stops early). -/
theorem nondeleting_monotone_rules (rules : List Rule) (hr : ∀ r ∈ rules, r.kind.deletion = false)
    (S : Script) (k y : Bytes) (h : S.spells k y) : (Projection.apply rules S).2.spells k y := by
  apply Classical.byContradiction
  intro hn
  obtain ⟨r, hmem, hdel, _⟩ := spells_apply_keep rules S h hn
  rw [hr r hmem] at hdel
  cases hdel

/-- Own-name law, one round: if syllable `y` was spelled by its own name before the round and is not
afterwards, the calculation is a deleting one (xlit, xform, erase) and it applied to the spelling `y`. -/
theorem own_name_round (r : Rule) (S T : Script) (hround : round r S = some T) (y : Bytes)
    (h : S.spells y y) (hn : ¬ T.spells y y) : r.kind.deletion = true ∧ (r.run y).isApplied = true := by
  apply Classical.byContradiction
  intro hkeep
  exact hn (spells_round_keep hround h hkeep)

/-- Own-name law: a syllable of the syllabary that the final table no longer spells by its own name
was matched by some replacing or erasing rule of the list. -/
theorem own_name_law (syl : List Bytes) (rules : List Rule) (y : Bytes) (hy : y ∈ syl)
    (hn : ¬ (Projection.apply rules (Script.ofSyllabary syl)).2.spells y y) :
    ∃ r ∈ rules, r.kind.deletion = true ∧ (r.run y).isApplied = true :=
  spells_apply_keep rules _ (ofSyllabary_spells_self hy) hn

/-- Own-name law for `erase` with a pattern of the modelled fragment: a syllable that loses its own
spelling in an erase round is matched by the pattern AS A WHOLE (`regex_match`) — a pattern that merely
occurs inside the spelling erases nothing. -/
theorem erase_own_name_round (re : Re) (S T : Script) (hround : round (Erasion.rule re) S = some T) (y : Bytes)
    (h : S.spells y y) (hn : ¬ T.spells y y) : y ≠ [] ∧ re.fullMatch y = true := by
  have happ := (own_name_round (Erasion.rule re) S T hround y h hn).2
  unfold Erasion.rule Erasion.run at happ
  simp only at happ
  by_cases hy : y = []
  · rw [if_pos hy] at happ; cases happ
  · rw [if_neg hy] at happ
    refine ⟨hy, ?_⟩
    cases hm : re.fullMatch y with
    | true => rfl
    | false => rw [hm] at happ; cases happ

/-- `erase` with a literal pattern `w` (no anchors needed) applies to the spelling `w` and to no other:
not to a longer spelling that contains `w`. -/
theorem erase_literal_exact (w s : Bytes) :
    (Erasion.run (Re.lits w) s).isApplied = true ↔ (s = w ∧ s ≠ []) := by
  unfold Erasion.run
  by_cases hs : s = []
  · rw [if_pos hs]; simp [Outcome.isApplied, hs]
  · rw [if_neg hs]
    cases hm : (Re.lits w).fullMatch s with
    | true =>
      have := (fullMatch_lits_iff w s).mp hm
      simp [Outcome.isApplied, this]
      exact fun e => hs (this.trans e)
    | false =>
      have hne : s ≠ w := fun e => by rw [(fullMatch_lits_iff w s).mpr e] at hm; cases hm
      simp [Outcome.isApplied, hne]

/-- the deleting kinds are exactly xlit, xform and erase -/
theorem deleting_kinds (k : Kind) : k.deletion = true ↔ (k = .xlit ∨ k = .xform ∨ k = .erase) := by
  cases k <;> simp [Kind.deletion]

/-- `Script::Merge(s, sp, v)`: afterwards the type recorded for syllable `t` under spelling `s` is the
MINIMUM over the candidates — the element the vector held before (if any) and, for each element `x`
of `v` naming `t`, `max(sp.type, x.type)` — and it is one of them. -/
theorem type_is_min (S : Script) (hS : SortedBy blt S.keys) (s : Bytes) (sp : Props) (v : List Spelling) (t : Bytes)
    (h : mergeCandidates sp v ((S.get? s).getD []) t ≠ []) :
    ∃ w z, (S.merge s sp v).get? s = some w ∧ propsOf w t = some z ∧
      (∀ c ∈ mergeCandidates sp v ((S.get? s).getD []) t, z.type.rank ≤ c.type.rank) ∧
      (∃ c ∈ mergeCandidates sp v ((S.get? s).getD []) t, z.type = c.type) := by
  obtain ⟨z, hz, h1, h2, _, _⟩ := mergeVec_spec sp v ((S.get? s).getD []) t h
  exact ⟨_, z, get?_merge_self s sp v hS, hz, h1, h2⟩

/-- `Script::Merge(s, sp, v)`: the credibility recorded for `t` under `s` is the MAXIMUM over the
candidates (old element; `x.credibility + sp.credibility` for each `x` of `v` naming `t`), attained. -/
theorem cred_is_max (S : Script) (hS : SortedBy blt S.keys) (s : Bytes) (sp : Props) (v : List Spelling) (t : Bytes)
    (h : mergeCandidates sp v ((S.get? s).getD []) t ≠ []) :
    ∃ w z, (S.merge s sp v).get? s = some w ∧ propsOf w t = some z ∧
      (∀ c ∈ mergeCandidates sp v ((S.get? s).getD []) t, c.cred ≤ z.cred) ∧
      (∃ c ∈ mergeCandidates sp v ((S.get? s).getD []) t, z.cred = c.cred) := by
  obtain ⟨z, hz, _, _, h3, h4⟩ := mergeVec_spec sp v ((S.get? s).getD []) t h
  exact ⟨_, z, get?_merge_self s sp v hS, hz, h3, h4⟩

/-- the candidate a merged element contributes: type = max(rule type, element type), credibility = sum -/
theorem merge_candidate (sp xp : Props) :
    (mergeProps sp xp).type.rank = max sp.type.rank xp.type.rank ∧ (mergeProps sp xp).cred = xp.cred + sp.cred := by
  refine ⟨?_, rfl⟩
  simp only [mergeProps]
  split <;> omega

/-- `Merge` invents nothing and touches nothing else: a syllable without candidates is not under `s`
afterwards, and every other spelling keeps its vector. -/
theorem merge_frame (S : Script) (hS : SortedBy blt S.keys) (s : Bytes) (sp : Props) (v : List Spelling) :
    (∀ t, mergeCandidates sp v ((S.get? s).getD []) t = [] →
      ∃ w, (S.merge s sp v).get? s = some w ∧ propsOf w t = none) ∧
    (∀ k, k ≠ s → (S.merge s sp v).get? k = S.get? k) :=
  ⟨fun t h => ⟨_, get?_merge_self s sp v hS, mergeVec_none sp v _ t h⟩, fun _ hk => get?_merge_ne sp v hk⟩

/-! ## the prism -/

/-- Loading what `Build` + `Save` wrote gives back the built prism — same keys, same descriptor
lists, same alphabet — with the format flag set (so the stored alphabet and spelling map are used). -/
theorem load_build_id (syl : List Bytes) (script : Option Script) :
    Prism.load (Prism.build syl script).save = some { Prism.build syl script with v1 := true } := by
  simp only [Prism.load, Prism.save, Prism.build]
  have h1 : kPrismFormatPrefix.isPrefixOf kPrismFormat = true := by decide
  have h2 : formatAtLeast1 (kPrismFormat.drop kPrismFormatPrefix.length) = true := by decide
  simp [h1, h2]

/-- `GetValue` answers `i` for exactly the `i`-th key of the table, `HasKey` is membership. -/
theorem getValue_iff_key (p : Prism) (hk : p.keys.Nodup) (k : Bytes) :
    (∀ i, p.getValue k = some i ↔ p.keys[i]? = some k) ∧ (p.hasKey k = true ↔ k ∈ p.keys) :=
  ⟨fun _ => ⟨getElem?_of_idx?, idx?_of_getElem? hk⟩, idx?_isSome_iff⟩

/-- Round trip of the relation: for a well-formed table `S` over the syllabary, the loaded prism has
exactly the spellings of `S` as keys (value = position), and `QuerySpelling` of the `i`-th spelling
yields, in order, exactly the syllables `S` lists there — the stored id decodes back to the syllable —
with the same type and credibility. -/
theorem prism_roundtrip (syl : List Bytes) (S : Script) (hS : S.WF syl) :
    ∃ p, Prism.load (Prism.build syl (some S)).save = some p ∧
      (∀ k i, p.getValue k = some i ↔ S.keys[i]? = some k) ∧
      (∀ k, p.hasKey k = true ↔ k ∈ S.keys) ∧
      (∀ i k v, S[i]? = some (k, v) →
        (p.querySpelling i).map (fun d => (syl[d.syllableId]?, d.type, d.cred, d.tips)) =
          v.map (fun x => (some x.str, x.props.type, x.props.cred, x.props.tips))) := by
  refine ⟨_, load_build_id syl (some S), ?_, ?_, ?_⟩
  · intro k i
    exact ⟨getElem?_of_idx?, idx?_of_getElem? (hS.1.nodup blt_order)⟩
  · intro k; exact idx?_isSome_iff
  · intro i k v hi
    have hv : VecOK syl v := hS.2 (k, v) (List.mem_of_getElem? hi)
    have hq : ({ Prism.build syl (some S) with v1 := true } : Prism).querySpelling i = v.map (descriptorOf syl) := by
      simp only [Prism.querySpelling, Prism.build, Option.map_some, List.getElem?_map, hi]
      cases v with
      | nil => exact absurd rfl hv.1
      | cons x xs => simp
    rw [hq, List.map_map]
    apply List.map_congr_left
    intro x hx
    have hmem : x.str ∈ syl := (hv.2.1 x hx).1
    simp only [Function.comp, descriptorOf, syllableId]
    cases hidx : idx? x.str syl with
    | none => exact absurd hmem (idx?_eq_none_iff.mp hidx)
    | some j => simp [getElem?_of_idx? hidx]

/-- A prism built without a script answers `QuerySpelling` like the identity table: spelling `i`
denotes syllable `i` with normal type and credibility 0. -/
theorem noscript_is_identity (syl : List Bytes) (i : Nat) :
    ∃ p, Prism.load (Prism.build syl none).save = some p ∧ p.keys = syl ∧
      p.querySpelling i = [⟨i, .normal, 0, []⟩] :=
  ⟨_, load_build_id syl none, rfl, rfl⟩

/-- `CommonPrefixSearch`: all and only the keys that are (non-empty) prefixes of the query, each with its
value and length, in strictly increasing length. -/
theorem cps_exact (p : Prism) (hk : p.keys.Nodup) (q : Bytes) :
    (∀ m, m ∈ p.commonPrefixSearch q ↔
      ∃ k, k ≠ [] ∧ k <+: q ∧ p.keys[m.value]? = some k ∧ m.length = k.length) ∧
    (p.commonPrefixSearch q).Pairwise (fun a b => a.length < b.length) := by
  unfold Prism.commonPrefixSearch
  by_cases hq : q = []
  · subst hq
    simp only [↓reduceIte, List.not_mem_nil, false_iff, List.Pairwise.nil, and_true]
    rintro m ⟨k, hne, hpre, _⟩
    exact hne (List.prefix_nil.mp hpre)
  · simp only [hq, ↓reduceIte]
    refine ⟨fun m => ?_, ?_⟩
    · simp only [List.mem_filterMap, List.mem_range', Option.map_eq_some_iff]
      constructor
      · rintro ⟨l, ⟨i, hi, rfl⟩, v, hv, rfl⟩
        refine ⟨q.take (1 + 1 * i), ?_, List.take_prefix _ _, getElem?_of_idx? hv, ?_⟩
        · intro e
          have := congrArg List.length e
          simp only [List.length_take, List.length_nil] at this
          omega
        · simp only [List.length_take]; omega
      · rintro ⟨k, hne, hpre, hget, hlen⟩
        have hl := hpre.length_le
        have hpos : 0 < k.length := List.length_pos_iff.mpr hne
        refine ⟨k.length, ⟨k.length - 1, by omega, by omega⟩, m.value, ?_, ?_⟩
        · rw [← List.prefix_iff_eq_take.mp hpre]
          exact idx?_of_getElem? hk hget
        · rw [← hlen]
    · refine List.Pairwise.filterMap _ ?_ (List.pairwise_lt_range' (s := 1) (n := q.length))
      intro a a' haa b hb b' hb'
      simp only [Option.map_eq_some_iff] at hb hb'
      obtain ⟨_, _, rfl⟩ := hb
      obtain ⟨_, _, rfl⟩ := hb'
      exact haa

/-- `ExpandSearch` on a loaded prism whose stored alphabet is `char`-sorted and covers the keys (as
`Build` makes it): there is a list `ks` of keys — ALL AND ONLY the keys having the query as a prefix,
STRICTLY increasing in the breadth-first order (shorter first; same length by `char`-lexicographic
order), hence unique — such that the unlimited search returns exactly `ks` (each with its value and
length) and a search with `limit > 0` returns exactly its first `limit` elements. -/
theorem expand_exact (p : Prism) (hv1 : p.v1 = true) (hA : SortedBy sclt p.alphabet)
    (hcov : ∀ k ∈ p.keys, ∀ c ∈ k, c ∈ p.alphabet) (q : Bytes) :
    ∃ ks : List Bytes,
      (∀ k, k ∈ ks ↔ k ∈ p.keys ∧ q <+: k) ∧ ks.Pairwise bfsLt ∧
      ∀ limit, p.expandSearch q limit =
        if limit = 0 then ks.map (matchOf p.keys) else (ks.map (matchOf p.keys)).take limit := by
  by_cases hq : isNode p.keys q = true
  · have hvis := visited_spec hA hcov hq (maxLen p.keys + 1)
    refine ⟨(q :: bfs p.keys p.alphabet (maxLen p.keys + 1) [q]).filter (fun s => (idx? s p.keys).isSome), ?_, ?_, ?_⟩
    · intro k
      rw [List.mem_filter, hvis.2 k, idx?_isSome_iff]
      constructor
      · rintro ⟨⟨_, h2, _⟩, h4⟩; exact ⟨h4, h2⟩
      · rintro ⟨h1, h2⟩
        have := length_le_maxLen h1
        exact ⟨⟨isNode_of_mem h1, h2, by omega⟩, h1⟩
    · exact hvis.1.filter _
    · intro limit
      simp only [Prism.expandSearch, traverse, hq, ↓reduceIte, hv1]
      rw [collect_spec limit _ 0 (by omega), filterMap_idx]
      simp
  · refine ⟨[], ?_, List.Pairwise.nil, ?_⟩
    · intro k
      simp only [List.not_mem_nil, false_iff]
      rintro ⟨h1, h2⟩
      exact hq (isNode_iff.mpr (Or.inr ⟨k, h1, h2⟩))
    · intro limit
      simp [Prism.expandSearch, traverse, hq]

/-- Limit-monotone: a search with a larger limit (or no limit) extends the result of a smaller one. -/
theorem expand_limit_monotone (p : Prism) (hv1 : p.v1 = true) (hA : SortedBy sclt p.alphabet)
    (hcov : ∀ k ∈ p.keys, ∀ c ∈ k, c ∈ p.alphabet) (q : Bytes) (l l' : Nat) (hl : 0 < l) (hll : l ≤ l' ∨ l' = 0) :
    p.expandSearch q l <+: p.expandSearch q l' := by
  obtain ⟨ks, _, _, h⟩ := expand_exact p hv1 hA hcov q
  rw [h l, h l']
  have h0 : l ≠ 0 := by omega
  simp only [h0, ↓reduceIte]
  split
  · exact List.take_prefix _ _
  · exact List.take_prefix_take_left (by omega)

/-- The prism `Build` + `Save` + `Load` produce from any script meets the hypotheses of `expand_exact`
and of `cps_exact` / `getValue_iff_key` (given sorted script keys): the stored alphabet is `char`-sorted
and contains every byte of every key. -/
theorem built_prism_ok (syl : List Bytes) (S : Script) (hS : SortedBy blt S.keys) :
    ∃ p, Prism.load (Prism.build syl (some S)).save = some p ∧ p.keys = S.keys ∧ p.keys.Nodup ∧
      p.v1 = true ∧ SortedBy sclt p.alphabet ∧ (∀ k ∈ p.keys, ∀ c ∈ k, c ∈ p.alphabet) :=
  ⟨_, load_build_id syl (some S), rfl, hS.nodup blt_order, rfl, alphabetOf_sorted _,
    fun k hk c hc => (mem_alphabetOf _ c).mpr ⟨k, hk, hc⟩⟩

/-- End to end: for every syllabary and rule list, the table the algebra produces can be compiled, and the
loaded prism has exactly its spellings as keys, gives back exactly its syllables with the same type and
credibility, and meets the hypotheses of `cps_exact` and `expand_exact`. -/
theorem algebra_prism_roundtrip (syl : List Bytes) (rules : List Rule) :
    let S := (Projection.apply rules (Script.ofSyllabary syl)).2
    ∃ p, Prism.load (Prism.build syl (some S)).save = some p ∧
      (∀ k i, p.getValue k = some i ↔ S.keys[i]? = some k) ∧
      (∀ i k v, S[i]? = some (k, v) →
        (p.querySpelling i).map (fun d => (syl[d.syllableId]?, d.type, d.cred, d.tips)) =
          v.map (fun x => (some x.str, x.props.type, x.props.cred, x.props.tips))) ∧
      p.keys.Nodup ∧ p.v1 = true ∧ SortedBy sclt p.alphabet ∧ (∀ k ∈ p.keys, ∀ c ∈ k, c ∈ p.alphabet) := by
  intro S
  have hS : S.WF syl := wf_apply rules (wf_ofSyllabary syl)
  obtain ⟨p, hp, h1, _, h3⟩ := prism_roundtrip syl S hS
  obtain ⟨p', hp', _, h5, h6, h7, h8⟩ := built_prism_ok syl S hS.1
  rw [hp] at hp'
  cases hp'
  exact ⟨p, hp, h1, h3, h5, h6, h7, h8⟩

/-! ## the `DictCompiler::BuildPrism` glue around the two -/

/-- A projection none of whose calculations matches any spelling leaves a well-formed table exactly as
it was and reports "not modified" (so `DictCompiler`'s `script.clear()` discards only an identity table). -/
theorem unmodified_is_identity (syl : List Bytes) (S : Script) (hS : S.WF syl) (rules : List Rule)
    (h : ∀ r ∈ rules, ∀ e ∈ S, r.run e.1 = .notApplied) : Projection.apply rules S = (false, S) :=
  apply_identity hS rules h

/-- When the projection modified the table and the table is not empty, `DictCompiler` compiles exactly
that table (so `algebra_prism_roundtrip` speaks about the file it writes). -/
theorem compile_uses_table (syl : List Bytes) (rules : List Rule)
    (h1 : (Projection.apply rules (Script.ofSyllabary syl)).1 = true)
    (h2 : (Projection.apply rules (Script.ofSyllabary syl)).2 ≠ []) :
    DictCompiler.prism (some rules) syl =
      Prism.load (Prism.build syl (some (Projection.apply rules (Script.ofSyllabary syl)).2)).save := by
  have h3 : (Projection.apply rules (Script.ofSyllabary syl)).2.isEmpty = false := by
    cases h : (Projection.apply rules (Script.ofSyllabary syl)).2 with
    | nil => exact absurd h h2
    | cons _ _ => rfl
  simp [DictCompiler.prism, DictCompiler.scriptArg, h1, h3]

/-- Whenever the compile step succeeds after a projection that reported "modified", the prism's keys are
exactly the spellings of the table the projection left (and there is at least one). -/
theorem compile_keys_eq_table (syl : List Bytes) (rules : List Rule) (p : Prism)
    (h : DictCompiler.prism (some rules) syl = some p)
    (hmod : (Projection.apply rules (Script.ofSyllabary syl)).1 = true) :
    p.keys = (Projection.apply rules (Script.ofSyllabary syl)).2.keys ∧
      (Projection.apply rules (Script.ofSyllabary syl)).2 ≠ [] := by
  cases he : (Projection.apply rules (Script.ofSyllabary syl)).2.isEmpty with
  | true => simp [DictCompiler.prism, DictCompiler.scriptArg, hmod, he] at h
  | false =>
    have hne : (Projection.apply rules (Script.ofSyllabary syl)).2 ≠ [] := by
      intro e; rw [e] at he; cases he
    rw [compile_uses_table syl rules hmod hne, load_build_id] at h
    cases h
    exact ⟨rfl, hne⟩

/-- An applied algebra that erased every spelling makes the compile step fail: no prism is written
(behaviour since /repo d76c819). -/
theorem compile_empty_table_fails (syl : List Bytes) (rules : List Rule)
    (h1 : (Projection.apply rules (Script.ofSyllabary syl)).1 = true)
    (h2 : (Projection.apply rules (Script.ofSyllabary syl)).2 = []) :
    DictCompiler.prism (some rules) syl = none := by
  simp [DictCompiler.prism, DictCompiler.scriptArg, h1, h2]

/-- When no calculation matches any syllable, `DictCompiler` passes no script; the prism it writes is
observationally the prism of the (identity) table: same keys, same alphabet, same answer of
`QuerySpelling` for every spelling. -/
theorem compile_unmodified_is_table (syl : List Bytes) (hs : SortedBy blt syl) (rules : List Rule)
    (h : ∀ r ∈ rules, ∀ y ∈ syl, r.run y = .notApplied) :
    ∃ p p', DictCompiler.prism (some rules) syl = some p ∧
      Prism.load (Prism.build syl (some (Projection.apply rules (Script.ofSyllabary syl)).2)).save = some p' ∧
      p.keys = p'.keys ∧ p.alphabet = p'.alphabet ∧ ∀ i, i < syl.length → p.querySpelling i = p'.querySpelling i := by
  have hid : Script.ofSyllabary syl = identityScript syl := ofSyllabary_sorted hs
  have happ : Projection.apply rules (Script.ofSyllabary syl) = (false, identityScript syl) := by
    rw [← hid]
    refine apply_identity (wf_ofSyllabary syl) rules ?_
    intro r hr e he
    rw [hid] at he
    obtain ⟨y, hy, rfl⟩ := List.mem_map.mp he
    exact h r hr y hy
  have hkeys : (identityScript syl).keys = syl := by
    simp [identityScript, Script.keys, List.map_map, Function.comp_def]
  refine ⟨{ Prism.build syl none with v1 := true }, _, ?_, load_build_id syl _, ?_, ?_, ?_⟩
  · simp only [DictCompiler.prism, DictCompiler.scriptArg, happ]
    exact load_build_id syl none
  · simp [Prism.build, happ, hkeys]
  · simp [Prism.build, happ, hkeys]
  · intro i hi
    have hget : syl[i]? = some syl[i] := by simp [hi]
    have hidx : idx? syl[i] syl = some i := idx?_of_getElem? (hs.nodup blt_order) hget
    simp [Prism.build, happ, Prism.querySpelling, identityScript, hi, descriptorOf, syllableId, hidx]

/-- HISTORY (before /repo d76c819; found by this check as `C09:compile:keys-not-spellings`, witness kept in
corpus/C09 case 9008, revert kept as selftest/C09/revert_empty_script_fix.diff): with the OLD script
preparation "the prism has a key for every spelling of the table and for no other string" was FALSE of
the compile step when the algebra erased every spelling — syllabary {"o"}, algebra [erase/o/]: the table
is empty and `Apply` reports "modified", yet because `BuildPrism` only tested `script.empty()` the prism
was built from the raw syllabary and "o" was a key. -/
theorem old_compile_empty_table_counterexample :
    Projection.apply [⟨.erase, fun _ => .applied []⟩] (Script.ofSyllabary [[111]]) = (true, []) ∧
    ∃ p, DictCompiler.prismOld (some [⟨.erase, fun _ => .applied []⟩]) [[111]] = some p ∧
      p.keys = [[111]] ∧ p.hasKey [111] = true :=
  ⟨by decide, _, load_build_id _ _, by decide, by decide⟩

/-- the same witness on the current compile step: it fails, no prism -/
theorem compile_empty_table_witness :
    DictCompiler.prism (some [⟨.erase, fun _ => .applied []⟩]) [[111]] = none := by decide

/-! ## non-vacuity: the hypotheses are met by concrete, non-trivial values -/

section examples

open RimeModel.C09.Ex

/-- a fuzz round merges "ab" (fuzzy, one penalty) under the existing spelling "b" and keeps "ab" -/
example : (Projection.apply [fuzzA] (Script.ofSyllabary syl0)) =
    (true, [([97, 98], [⟨[97, 98], {}⟩]), ([98], [⟨[97, 98], ⟨.fuzzy, -1, []⟩⟩, ⟨[98], {}⟩])]) := by decide

/-- `nondeleting_monotone` has a satisfiable hypothesis with a rule that does apply -/
example : ∃ T, round fuzzA (Script.ofSyllabary syl0) = some T ∧ T.spells [98] [97, 98] :=
  ⟨_, rfl, ⟨[⟨[97, 98], ⟨.fuzzy, -1, []⟩⟩, ⟨[98], {}⟩], by decide, by decide⟩⟩

/-- `own_name_law` is not vacuous: after the deleting `xform`, "ab" is no longer spelled by its own name … -/
example : ¬ (Projection.apply [xformA] (Script.ofSyllabary syl0)).2.spells [97, 98] [97, 98] := by
  rintro ⟨v, hv, _⟩
  have : (Projection.apply [xformA] (Script.ofSyllabary syl0)).2.get? [97, 98] = none := by decide
  rw [this] at hv; cases hv

/-- … and the rule the law then exhibits is that one -/
example : xformA.kind.deletion = true ∧ (xformA.run [97, 98]).isApplied = true := by decide

/-- `type_is_min` / `cred_is_max` on a merge that meets an existing element: abbreviation with two
penalties meets fuzzy with one -> fuzzy (min type), one penalty (max credibility) -/
example : mergeVec {} [⟨[98], ⟨.fuzzy, -1, []⟩⟩] [⟨[98], ⟨.abbreviation, -2, []⟩⟩] = [⟨[98], ⟨.fuzzy, -1, []⟩⟩] := by
  decide

/-- the prism of the fuzz table: keys "ab" (0), "b" (1); "b" denotes syllables 0 (fuzzy) and 1 -/
example : ∃ p, Prism.load (Prism.build syl0 (some (Projection.apply [fuzzA] (Script.ofSyllabary syl0)).2)).save = some p ∧
    p.querySpelling 1 = [⟨0, .fuzzy, -1, []⟩, ⟨1, .normal, 0, []⟩] ∧ p.alphabet = [97, 98] ∧
    p.commonPrefixSearch [98, 97] = [⟨1, 1⟩] ∧ p.getValue [97] = none :=
  ⟨_, load_build_id _ _, by decide, by decide, by decide, by decide⟩

/-- `expand_exact` / `expand_limit_monotone` on a prism with keys a, ab, b, ba, bb and a byte ≥ 0x80:
breadth-first order, `char` order puts 0xE9 before 'a', limit cuts -/
example : ∃ p, Prism.load (Prism.build [[97], [97, 98], [98], [98, 97], [98, 98], [98, 233]] none).save = some p ∧
    p.expandSearch [] 0 = [⟨0, 1⟩, ⟨2, 1⟩, ⟨1, 2⟩, ⟨5, 2⟩, ⟨3, 2⟩, ⟨4, 2⟩] ∧
    p.expandSearch [98] 0 = [⟨2, 1⟩, ⟨5, 2⟩, ⟨3, 2⟩, ⟨4, 2⟩] ∧
    p.expandSearch [98] 2 = [⟨2, 1⟩, ⟨5, 2⟩] ∧ p.expandSearch [99] 0 = [] :=
  ⟨_, load_build_id _ _, by decide, by decide, by decide, by decide⟩

/-- `erase/^a/` and `erase/b$/` parse into the fragment; as whole-string matches they do NOT apply to "ab"
although the pattern occurs in it (a search would hit), `erase/^a.*$/` and `erase/ab/` do -/
example : (parseRegex [94, 97]).map (fun r => (Erasion.run r [97, 98], r.occursIn [97, 98])) = some (.notApplied, true) ∧
    (parseRegex [98, 36]).map (fun r => (Erasion.run r [97, 98], r.occursIn [97, 98])) = some (.notApplied, true) ∧
    (parseRegex [94, 97, 46, 42, 36]).map (fun r => Erasion.run r [97, 98]) = some (.applied []) ∧
    (parseRegex [97, 98]).map (fun r => (Erasion.run r [97, 98], Erasion.run r [97, 98, 99], r.occursIn [97, 98, 99])) =
      some (.applied [], .notApplied, true) ∧
    Erasion.run (Re.lits [97, 98]) [97, 98] = .applied [] ∧ parseRegex [97, 92, 98] = none := by decide

/-- hypotheses of `erase_own_name_round` are satisfiable: `erase/^a.*$/` on the syllabary { "ab", "b" } -/
example : ∃ re T, parseRegex [94, 97, 46, 42, 36] = some re ∧ round (Erasion.rule re) (Script.ofSyllabary syl0) = some T ∧
    T.keys = [[98]] ∧ re.fullMatch [97, 98] = true :=
  ⟨_, _, rfl, rfl, by decide, by decide⟩

end examples

end C09
