import RimeModel.C10.Model
import RimeModel.C10.Lemmas
import RimeModel.C10.Rank
import RimeModel.C10.Examples
import RimeModel.C10.Encoder
/-!
# C10 — what the user commits is learned, ranked no worse next time, can be forgotten

Theorems about the model in `RimeModel/C10/Model.lean` (a line-by-line port of `UserDictionary::UpdateEntry`,
the LevelDb transaction layer it writes through, `Memory::OnCommit`, `Script/TableTranslator::Memorize`,
`CreateDictEntry` and the user/system merge of the translations).  All statements are for arbitrary
dictionaries, arbitrary prior states of the user dictionary (any history) and arbitrary compositions.

The floating-point record fields are abstract (`DeeOps`): nothing below depends on `formula_d`;
`rank_no_worse_partial` assumes an explicit order law of the weight function (`Gain`), which the harness
samples on the real `formula_d` / `formula_p`.
-/
namespace RimeModel.C10
namespace C10

variable {D : Type}

/-- **the count after a commit, exactly** (what the code does): the stored count of every key is the fold of
the `UpdateEntry` calls the commit issues for that key, in order, over the count stored when the commit began
(0 for an absent record) — each call reads what the earlier calls of the same transaction wrote. -/
theorem commit_count_fold (ops : DeeOps D) (st : Style) (u : UD D) (segs : List Seg) (now : Int) (k : Key) :
    (afterCommit ops st u segs now).count k =
      (updatesOf (commitUpdates st segs) k).foldl newCount ((beforeCommit u).count k) :=
  afterCommit_count ops st u segs now k

/-- **+1 on exactly the committed keys, at full strength.**  For every key `k`, with `c` the count stored when
the commit began and `m = commitTimes … k` the number of times the commit commits `k`: a key that is not
committed (`m = 0`; possibly touched with `commits 0` as an element) keeps its count; a committed key ends at
`|c| + m` — a deleted record (`c < 0`) is revived, and every commit entry (script style) / every selected
element (table style) that carries the key raises it by one; see `commitTimes_script`, `commitTimes_table`. -/
theorem commit_plus_one (ops : DeeOps D) (st : Style) (u : UD D) (segs : List Seg) (now : Int) (k : Key) :
    (afterCommit ops st u segs now).count k =
      if commitTimes st segs k = 0 then (beforeCommit u).count k
      else (((beforeCommit u).count k).natAbs : Int) + commitTimes st segs k := by
  rw [commit_count_fold]
  apply fold_newCount
  intro n hn
  unfold updatesOf at hn
  rcases List.mem_map.1 hn with ⟨p, hp, rfl⟩
  exact commitUpdates_values st segs p (List.mem_filter.1 hp).1

/-- script style: how often a key is committed = the number of commit entries `Memory::OnCommit` saves with that
key (text and concatenated code) -/
theorem commit_times_script (segs : List Seg) (k : Key) :
    commitTimes Style.script segs k = ((groupCommit segs).filter (fun c => c.key = k)).length :=
  commitTimes_script segs k

/-- table style: how often a key is committed = the number of its occurrences among the elements (the
candidates the user picked) of the saved commit entries -/
theorem commit_times_table (segs : List Seg) (k : Key) :
    commitTimes Style.table segs k = (((groupCommit segs).flatMap (·.elements)).filter (fun e => e.key = k)).length :=
  commitTimes_table segs k

/-- every commit entry the script translator memorizes is raised by at least one -/
theorem commit_entry_raised (ops : DeeOps D) (u : UD D) (segs : List Seg) (now : Int) (c : CommitEntry)
    (h : c ∈ groupCommit segs) :
    (afterCommit ops Style.script u segs now).count c.key ≥ (((beforeCommit u).count c.key).natAbs : Int) + 1 := by
  have hm : commitTimes Style.script segs c.key ≥ 1 := by
    rw [commitTimes_script]
    have : c ∈ (groupCommit segs).filter (fun x => x.key = c.key) := List.mem_filter.2 ⟨h, by simp⟩
    exact List.length_pos_of_mem this
  rw [commit_plus_one]
  split <;> omega

/-- **frame**: a key that is not the key of any `UpdateEntry` call of the commit keeps its record, bit for bit. -/
theorem commit_frame (ops : DeeOps D) (st : Style) (u : UD D) (segs : List Seg) (now : Int) (k : Key)
    (h : k ∉ (commitUpdates st segs).map (·.1)) :
    (afterCommit ops st u segs now).get? k = (beforeCommit u).get? k := by
  have h1 : (u.newTransaction now).inTxn = true := rfl
  obtain ⟨_, _, _, hf, _⟩ := applyUpdates_inTxn ops (commitUpdates st segs) (u.newTransaction now) h1
  rw [afterCommit_get?, hf k h, newTransaction_fetch]

/-- **no entry of another code is altered**: a key whose code is not the code of a committed entry or of one
of its touched elements keeps its record. -/
theorem commit_frame_code (ops : DeeOps D) (st : Style) (u : UD D) (segs : List Seg) (now : Int) (k : Key)
    (h : k.code ∉ (commitUpdates st segs).map (·.1.code)) :
    (afterCommit ops st u segs now).get? k = (beforeCommit u).get? k := by
  apply commit_frame
  intro hm
  apply h
  rcases List.mem_map.1 hm with ⟨p, hp, e⟩
  exact List.mem_map.2 ⟨p, hp, by rw [e]⟩

/-! ## deletion -/

/-- **deletion marks the record**: outside a transaction (a candidate list exists only after a translator
query, which closes the pending transaction and empties the batch — `closed_*` in `C10/Rank.lean` show that
`inTxn = false → batch = []` is an invariant of every operation) deleting an entry stores `c' = min(-1, -c)`
durably at once, opens no transaction and leaves every other record alone. -/
theorem delete_marks (ops : DeeOps D) (u : UD D) (e : Entry) (h : u.inTxn = false) (hb : u.batch = []) :
    (u.onDelete ops e).durable.count e.key = min (-1) (-(u.durable.count e.key)) ∧
    (u.onDelete ops e).durable.count e.key < 0 ∧
    (u.onDelete ops e).inTxn = false ∧
    ∀ k, k ≠ e.key → (u.onDelete ops e).durable.get? k = u.durable.get? k := by
  have hf : u.fetch e.key = u.durable.get? e.key := by unfold UD.fetch; rw [hb]; rfl
  have hc := updateValue_commits ops u.tick (u.durable.get? e.key) (-1)
  rw [← Db.count_eq] at hc
  have e1 : u.onDelete ops e =
      { u with durable := u.durable.put e.key (updateValue ops u.tick (u.durable.get? e.key) (-1)).1 } := by
    unfold UD.onDelete UD.updateEntry
    simp [UD.write, h, applyPut, hf]
  have hn : newCount (u.durable.count e.key) (-1) = min (-1) (-(u.durable.count e.key)) := by
    simp [newCount]
  rw [e1]
  refine ⟨?_, ?_, h, ?_⟩
  · show (u.durable.put e.key _).count e.key = _
    rw [Db.count_put_self, hc, hn]
  · show (u.durable.put e.key _).count e.key < 0
    rw [Db.count_put_self, hc, hn]
    omega
  · intro k hk
    exact Db.get?_put_ne _ _ _ _ hk

/-- **a deleted entry is never offered by the user dictionary**: if the stored count of `k` is negative, no
candidate of the (sorted, rotated) user-dictionary result for any code carries key `k` — whatever the
weights, the present tick and the rest of the db. -/
theorem deleted_hidden (ops : DeeOps D) (db : Db D) (hn : db.keys.Nodup) (present : Nat) (code : Code) (k : Key)
    (h : db.count k < 0) :
    ∀ c ∈ rotateExact (sortByWeight (userExact ops db present code)), c.key ≠ k := by
  intro c hc hk
  have hm := (mem_sortByWeight c _).1 (mem_rotateExact c _ hc)
  obtain ⟨v, hmem, _, hv, _, _⟩ := (mem_userExact ops db present code c).1 hm
  have hg := Db.get?_of_mem db hn c.key v hmem
  rw [hk] at hg
  have hc : db.count k = v.commits := by unfold Db.count; rw [hg]
  omega

/-- **revive**: committing a deleted entry again (`c < 0`, committed `m ≥ 1` times) stores `-c + m > 0`, and the
entry is offered by the user dictionary again. -/
theorem revive (ops : DeeOps D) (st : Style) (u : UD D) (segs : List Seg) (now : Int) (present : Nat) (k : Key)
    (hdel : (beforeCommit u).count k < 0)
    (h : commitTimes st segs k ≥ 1) :
    (afterCommit ops st u segs now).count k = -((beforeCommit u).count k) + commitTimes st segs k ∧
    ∃ c ∈ rotateExact (sortByWeight (userExact ops (afterCommit ops st u segs now) present k.code)), c.key = k := by
  have hp := commit_plus_one ops st u segs now k
  have hne : ¬ (commitTimes st segs k = 0) := by omega
  rw [if_neg hne] at hp
  have hc : (afterCommit ops st u segs now).count k = -((beforeCommit u).count k) + commitTimes st segs k := by omega
  refine ⟨hc, ?_⟩
  obtain ⟨v, hg, hv⟩ := get?_of_count_pos _ k _ hc (by omega)
  exact offered_of_visible ops _ present k v hg (by omega)

/-! ## grouping: what a commit stores -/

/-- **an assembled phrase is stored under the concatenated code and found for the whole input.**
A composition of recognized selections — all `kSelected` but the last, which reaches the end of the input
and is `kConfirmed`; one selection = a whole-input commit — is saved by `Memory::OnCommit` as exactly one
commit entry whose text and code are the concatenations.  In the script style its stored count becomes
`|c| + 1`, so the record is visible and the user-dictionary scan for the concatenated code — the code of the whole input —
offers it, as one candidate. -/
theorem assembled_phrase_stored (ops : DeeOps D) (u : UD D) (init : List Sel) (last : Sel) (now : Int) (present : Nat)
    (hrec : ∀ s ∈ init, s.recognized = true) (hlast : last.recognized = true)
    (hne : (init ++ [last]).flatMap (·.entry.text) ≠ []) :
    let key : Key := { code := (init ++ [last]).flatMap (·.entry.code), text := (init ++ [last]).flatMap (·.entry.text) }
    (groupCommit (selectedSegs init last)).map (·.key) = [key] ∧
    (afterCommit ops Style.script u (selectedSegs init last) now).count key = ((beforeCommit u).count key).natAbs + 1 ∧
    ∃ c ∈ rotateExact (sortByWeight (userExact ops (afterCommit ops Style.script u (selectedSegs init last) now) present key.code)),
      c.key = key := by
  intro key
  have hne' : (assemble (init ++ [last])).text ≠ [] := by rw [assemble_text]; exact hne
  have hg := groupCommit_selected init last hrec hlast hne'
  have hkey : (assemble (init ++ [last])).key = key := by
    simp [CommitEntry.key, assemble_text, assemble_code, key]
  have hm : commitTimes Style.script (selectedSegs init last) key = 1 := by
    rw [commitTimes_script, hg]
    simp [hkey]
  have hp : (afterCommit ops Style.script u (selectedSegs init last) now).count key =
      ((beforeCommit u).count key).natAbs + 1 := by
    rw [commit_plus_one, hm]
    simp
  refine ⟨by rw [hg]; simp [hkey], hp, ?_⟩
  obtain ⟨v, hgv, hv⟩ := get?_of_count_pos _ key _ hp (by omega)
  exact offered_of_visible ops _ present key v hgv (by omega)

/-- **table style**: `TableTranslator::Memorize` (no encoder) gives `+1` to every *element* of the commit
entries — the candidates the user picked, once per occurrence — and stores nothing under the concatenated code. -/
theorem table_commit_plus_one (ops : DeeOps D) (u : UD D) (segs : List Seg) (now : Int) (k : Key)
    (h : k ∈ ((groupCommit segs).flatMap (·.elements)).map (·.key)) :
    (afterCommit ops Style.table u segs now).count k =
      (((beforeCommit u).count k).natAbs : Int) +
        (((groupCommit segs).flatMap (·.elements)).filter (fun e => e.key = k)).length := by
  have hm : commitTimes Style.table segs k ≥ 1 := by
    rw [commitTimes_table]
    rcases List.mem_map.1 h with ⟨e, he, hk⟩
    exact List.length_pos_of_mem (List.mem_filter.2 ⟨he, by simp [hk]⟩)
  rw [commit_plus_one, commitTimes_table] at *
  split <;> omega

/-! ## ranking -/

/- Full statement (not proved): for the real `formula_d` / `formula_p`, after a whole-input commit the text's
position in the candidate list is ≤ its previous position.  What is missing is the real-analysis fact `Gain`
about `exp`/`pow` under IEEE rounding and `%g` storage; it is a hypothesis below (sampled on the real formulas
by the harness, which also shows that plain monotonicity in `dee` is *false* at the branch point d = 20 of
`formula_p`, while `Gain` holds).  Also not covered: predictive (word-completion) user entries mixed into the
whole-input group, and spelling-algebra credibility offsets between entries of one group. -/

/-- **ranked no worse, list level (script translator).**  `Ub` / `Ua`: the exact-match user candidates of the
whole-input code before / after the commit of `T`, each sorted by weight descending with *any* order among
equal weights; `S`: the system phrases of that code; `sent`/`sent'`: what sentence composition would offer.
If within the code only `T`'s record changed (`hkeep`, which is `commit_frame`) and the committed entry gained on
every entry that did not outweigh it (`hgain`), the first candidate carrying `T`'s text is no later in the new
list than in the old one (a list without the text counts as position = its length: an assembled phrase). -/
theorem rank_no_worse_list (Ub Ua : List UCand) (T : Key) (t : UCand) (S : List Cand) (sent sent' : Option Bytes) (sfe : Bool)
    (hsb : SortedDesc Ub) (hsa : SortedDesc Ua)
    (hnb : (Ub.map (·.key)).Nodup) (hna : (Ua.map (·.key)).Nodup)
    (hcodeb : ∀ c ∈ Ub, c.key.code = T.code) (hcodea : ∀ c ∈ Ua, c.key.code = T.code)
    (hexb : ∀ c ∈ Ub, c.exact = true) (hexa : ∀ c ∈ Ua, c.exact = true)
    (ht : t ∈ Ua) (hk : t.key = T)
    (hkeep : ∀ c ∈ Ua, c.key ≠ T → ∃ c0 ∈ Ub, c0.key = c.key)
    (hgain : ∀ t0 ∈ Ub, t0.key = T → ∀ c ∈ Ua, c.key ≠ T → ∀ c0 ∈ Ub, c0.key = c.key →
      c0.weight ≤ t0.weight → c.weight < t.weight) :
    (scriptTop true sent' Ua S sfe).findIdx (fun c => decide (c.text = T.text)) ≤
      (scriptTop true sent Ub S sfe).findIdx (fun c => decide (c.text = T.text)) := by
  obtain ⟨pre, eb, hpre⟩ := scriptTop_exact sent Ub S sfe hexb
  obtain ⟨pre', ea, hpre'⟩ := scriptTop_exact sent' Ua S sfe hexa
  have hp' : pre' = [] := by
    rcases hpre' with h | h
    · exact h
    · rw [h] at ht; cases ht
  rw [ea, eb, hp', List.nil_append]
  exact rank_core Ub Ua T t pre S S hsb hsa hnb hna hcodeb hcodea ht hk hkeep hgain hpre

/-- the same for the table translator: exact user phrases (sorted), exact table entries, predictive user
phrases, table completions -/
theorem rank_no_worse_table_list (Ub Ua : List UCand) (T : Key) (t : UCand) (Sx Sp Sx' Sp' : List Cand) (Up Up' : List UCand)
    (hsb : SortedDesc Ub) (hsa : SortedDesc Ua)
    (hnb : (Ub.map (·.key)).Nodup) (hna : (Ua.map (·.key)).Nodup)
    (hcodeb : ∀ c ∈ Ub, c.key.code = T.code) (hcodea : ∀ c ∈ Ua, c.key.code = T.code)
    (ht : t ∈ Ua) (hk : t.key = T)
    (hkeep : ∀ c ∈ Ua, c.key ≠ T → ∃ c0 ∈ Ub, c0.key = c.key)
    (hgain : ∀ t0 ∈ Ub, t0.key = T → ∀ c ∈ Ua, c.key ≠ T → ∀ c0 ∈ Ub, c0.key = c.key →
      c0.weight ≤ t0.weight → c.weight < t.weight) :
    (tableList Ua Sx' Up' Sp').findIdx (fun c => decide (c.text = T.text)) ≤
      (tableList Ub Sx Up Sp).findIdx (fun c => decide (c.text = T.text)) := by
  have h := rank_core Ub Ua T t [] (Sx ++ Up.map UCand.toCand ++ Sp) (Sx' ++ Up'.map UCand.toCand ++ Sp')
    hsb hsa hnb hna hcodeb hcodea ht hk hkeep hgain (Or.inl rfl)
  simpa [tableList, List.append_assoc] using h

/-- With the default `max_homographs` (1) the sentence-mode list for any `max_homographs` is the list the other theorems
and the counterexample speak about: the table entries of a prefix are shown only when the user dictionary has none. -/
theorem tableSentenceListH_one (sentence : Option Bytes) (prefixes : List (List UCand × List Cand)) :
    tableSentenceListH 1 sentence prefixes = tableSentenceList sentence prefixes := by
  unfold tableSentenceListH tableSentenceList
  congr 1
  induction prefixes with
  | nil => rfl
  | cons p ps ih =>
    simp only [List.flatMap_cons, ih]
    congr 1
    cases h : p.1 with
    | nil => simp
    | cons x xs => simp

/-- Whatever `max_homographs` is, sentence mode lists every visible user phrase of every prefix (a learned phrase is
never displaced by the table entries of its prefix), and in front of that prefix's table entries. -/
theorem sentence_mode_user_phrase_listed (mh : Nat) (sentence : Option Bytes) (prefixes : List (List UCand × List Cand))
    (p : List UCand × List Cand) (hp : p ∈ prefixes) (u : UCand) (hu : u ∈ p.1) :
    u.toCand ∈ tableSentenceListH mh sentence prefixes := by
  unfold tableSentenceListH
  refine List.mem_append_right _ ?_
  refine List.mem_flatMap.mpr ⟨p, hp, ?_⟩
  exact List.mem_append_left _ (List.mem_map.mpr ⟨u, hu, rfl⟩)

/-! ### table translator with `enable_encoder` (`RimeModel/C10/Encoder.lean`) -/

/-- `RemovePrefix` undoes `AddPrefix`: removing the encoder prefix from `prefix ++ s` gives `s`. -/
theorem stripPrefix_append (p s : Bytes) : stripPrefix p (p ++ s) = some s := by
  induction p with
  | nil => rfl
  | cons a as ih => simp [stripPrefix, ih]

/-- Blessing leaves a plain entry alone: for the commits of a schema without constructed phrases, `Memorize` with the
encoder updates the same keys as `Memorize` without. -/
theorem bless_plain (k : Key) (h : k.constructed = false) : k.bless = k := by
  unfold Key.constructed at h
  unfold Key.bless
  cases hc : k.code with
  | nil => rfl
  | cons c r =>
    rw [hc] at h
    cases hs : stripPrefix encPrefix c with
    | none => simp [hs]
    | some c' => simp [hs] at h

/-- A constructed phrase that is committed is stored under its plain key: blessing the prefixed key of `k` gives `k` back,
and the prefixed key is recognised as constructed. -/
theorem bless_addPrefix (k : Key) (c : Bytes) (r : Code) (hc : k.code = c :: r) :
    k.addPrefix.constructed = true ∧ k.addPrefix.bless = k := by
  have e : k.addPrefix = { k with code := (encPrefix ++ c) :: r } := by unfold Key.addPrefix; rw [hc]
  constructor
  · rw [e]; simp [Key.constructed, stripPrefix_append]
  · rw [e]
    simp only [Key.bless, stripPrefix_append]
    cases k
    simp_all

/-- **encoder: the elements of a commit are counted as without encoder.**  When no element of the commit entry is a
constructed phrase and the encoder derives no code, `Memorize` with the encoder issues exactly the `UpdateEntry` calls of
`Memorize` without (`memorizeTable`: +1 on every element), so `table_commit_plus_one` and `commit_frame` carry over. -/
theorem memorizeTableEnc_plain (cfg : EncCfg) (oracle : Bytes → List Bytes) (hist : List (String × Bytes)) (c : CommitEntry)
    (hp : ∀ e ∈ c.elements, e.key.constructed = false) (ho : ∀ p, oracle p = []) :
    memorizeTableEnc cfg oracle hist c = (memorizeTable c).map (fun p => Upd.plain p.1 p.2) := by
  unfold memorizeTableEnc memorizeTable
  have h2 : ((encodeCalls cfg hist c).flatMap fun pc =>
      (oracle pc.1).map fun code => Upd.enc { code := [code], text := pc.1 } (if pc.2 then 1 else 0)) = [] := by
    apply List.flatMap_eq_nil_iff.mpr
    intro pc _
    rw [ho]; rfl
  rw [h2, List.append_nil, List.map_map]
  apply List.map_congr_left
  intro e he
  simp [bless_plain _ (hp e he)]

/-- **encoder: frame.**  Inside the transaction of a commit, encoding a phrase — `UpdateEntry(entry, n, kEncodedPrefix)`
— writes one record, under the plain key `k` of the phrase if that exists and under the prefixed key otherwise; every other
key reads what it read before (no entry of another code or text is altered), and the durable db is left alone. -/
theorem encoded_update_frame (ops : DeeOps D) (u : UD D) (k : Key) (n : Int) (h : u.inTxn = true) (k' : Key)
    (h1 : k' ≠ k) (h2 : k' ≠ k.addPrefix) :
    (u.updateEntryPrefixed ops k n).1.fetch k' = u.fetch k' ∧ (u.updateEntryPrefixed ops k n).1.durable = u.durable := by
  unfold UD.updateEntryPrefixed
  cases hf : u.fetch k with
  | some v =>
    have := updateEntry_inTxn ops u k n h
    exact ⟨this.2.2.2.2 k' h1, this.2.1⟩
  | none =>
    obtain ⟨b, _, hb, hd, _, hne⟩ := updateEntryPrefixed_none ops u k n h hf
    unfold UD.updateEntryPrefixed at hb hd
    rw [hf] at hb hd
    exact ⟨by rw [fetch_eq _ u b hb hd, hne k' h2], hd⟩

/-- **encoder: what is stored.**  A phrase without a plain record is written under the prefixed key from a fresh value:
its count is `n` (1 for an assembled commit, 0 for a phrase out of the commit history) whatever the prefixed key held before
— constructed records are rewritten, never counted up.  A phrase with a plain record (it was committed as a whole before) is
counted up there like any committed entry: `|c| + 1`, or unchanged for `n = 0`. -/
theorem encoded_update_count (ops : DeeOps D) (u : UD D) (k : Key) (n : Int) (h : u.inTxn = true) :
    (u.fetch k = none →
      (u.updateEntryPrefixed ops k n).2 = k.addPrefix ∧
      (u.updateEntryPrefixed ops k n).1.fetchCount k.addPrefix = newCount 0 n) ∧
    (∀ v, u.fetch k = some v →
      (u.updateEntryPrefixed ops k n).2 = k ∧
      (u.updateEntryPrefixed ops k n).1.fetchCount k = newCount v.commits n) := by
  constructor
  · intro hf
    obtain ⟨b, hk, hb, hd, hself, _⟩ := updateEntryPrefixed_none ops u k n h hf
    refine ⟨hk, ?_⟩
    unfold UD.fetchCount
    rw [fetch_eq _ u b hb hd, hself]
    exact updateValue_commits ops u.tick none n
  · intro v hf
    unfold UD.updateEntryPrefixed
    rw [hf]
    refine ⟨rfl, ?_⟩
    have := (updateEntry_inTxn ops u k n h).2.2.2.1
    rw [this]
    unfold UD.fetchCount
    rw [hf]

/-- non-vacuity: on an empty dictionary, the commit of two elements `甲`(`ab`) `乙`(`c`) with the history encoder on
raises both elements to 1 and stores the phrase under the prefixed encoded code `ac` with count 1 -/
example :
    let segs : List Seg := [{ status := 2, sel := some { recognized := true, entry := { text := [1], code := [[97, 98]] }, comps := none } },
                            { status := 3, sel := some { recognized := true, entry := { text := [2], code := [[99]] }, comps := none } }]
    let r := UD.onCommitEnc Examples.unitOps { commitHistory := true, maxPhraseLength := 3 } (fun _ => [[97, 99]])
      [("table", [1, 2])] UD.empty segs 0
    r.2 = [({ code := [[97, 98]], text := [1] }, 1), ({ code := [[99]], text := [2] }, 1),
           ({ code := [encPrefix ++ [97, 99]], text := [1, 2] }, 1)] := by
  decide

/- Full statement for the table style (FALSE, see `table_sentence_rank_counterexample`):

     theorem rank_no_worse_table  — for every state `u`, every recognized whole-input candidate `sel` of a table-style
       translation (a dictionary entry *or a composed sentence*), every answer `s`, `s'` of sentence composition before
       and after:  findIdx sel.text (list after the commit) ≤ findIdx sel.text (list before).

   It holds for dictionary entries (`rank_no_worse_table_list`: the committed entry is a stored record).  It fails for a
   composed sentence: `TableTranslator::Memorize` without encoder stores `+1` on the elements and no phrase, so whether
   the text comes back is up to sentence composition, and Poet may recompose another path of equal weight.  Excluded
   from `rank_no_worse_partial` below (script style, where the sentence *is* stored as a phrase); recorded as the open
   finding `C10:rank:worse:table-sentence-recomposed`. -/

/-- **ranked no worse after a whole-input commit** (partial: under `Gain`, exact matches only; script style —
a table-style composed sentence, of which no phrase is stored, is excluded: `table_sentence_rank_counterexample`)."
From any state `u` of the user dictionary with distinct keys: the user commits a recognized candidate `sel`
that covers the whole input (one segment, confirmed; script style), the transaction is closed, and the same
input is looked up again.  `P`/`P'` are the present ticks of the two lookups, `Ub`/`Ua` the user candidates of
the whole-input code out of the durable db before / after, in any weight-sorted order; the system phrases `S`
are the same.  If the committed record satisfies the order law `Gain` and no element of the commit entry other
than the entry itself has the same code (true for a plain phrase, and for a sentence since its components are
proper parts), then the committed text is offered, and no later than before. -/
theorem rank_no_worse_partial (ops : DeeOps D) (u : UD D) (hn : u.durable.keys.Nodup)
    (sel : Sel) (hrec : sel.recognized = true) (hne : sel.entry.text ≠ [])
    (helems : ∀ e ∈ (assemble [sel]).elements, e.code = sel.entry.code → e.key = sel.entry.key)
    (now : Int) (P P' : Nat)
    (hgain : ∀ vT vT', (beforeCommit u).get? sel.entry.key = some vT →
      (afterCommit ops Style.script u (selectedSegs [] sel) now).get? sel.entry.key = some vT' → Gain ops P P' vT vT')
    (Ub Ua : List UCand)
    (hpb : Ub.Perm (userExact ops (beforeCommit u) P sel.entry.code)) (hsb : SortedDesc Ub)
    (hpa : Ua.Perm (userExact ops (afterCommit ops Style.script u (selectedSegs [] sel) now) P' sel.entry.code))
    (hsa : SortedDesc Ua)
    (S : List Cand) (sent sent' : Option Bytes) (sfe : Bool) :
    (∃ c ∈ scriptTop true sent' Ua S sfe, c.text = sel.entry.text ∧ c.user = true) ∧
    (scriptTop true sent' Ua S sfe).findIdx (fun c => decide (c.text = sel.entry.text)) ≤
      (scriptTop true sent Ub S sfe).findIdx (fun c => decide (c.text = sel.entry.text)) := by
  -- what the commit stores
  have hflat : (([] : List Sel) ++ [sel]).flatMap (fun s => s.entry.text) ≠ [] := by simpa using hne
  obtain ⟨hgrp, hcount, _⟩ := assembled_phrase_stored ops u [] sel now P' (by intro s hs; cases hs) hrec hflat
  have hkey : ({ code := (([] : List Sel) ++ [sel]).flatMap (fun s => s.entry.code), text := (([] : List Sel) ++ [sel]).flatMap (fun s => s.entry.text) } : Key)
      = sel.entry.key := by simp [Entry.key]
  rw [hkey] at hcount hgrp
  obtain ⟨vT', hT', hv'⟩ := get?_of_count_pos _ sel.entry.key _ hcount (by omega)
  -- frame within the code
  have hg := groupCommit_selected [] sel (by intro s hs; cases hs) hrec (by rw [assemble_text]; exact hflat)
  have hframe : ∀ k, k.code = sel.entry.key.code → k ≠ sel.entry.key →
      (afterCommit ops Style.script u (selectedSegs [] sel) now).get? k = (beforeCommit u).get? k := by
    intro k hcode hk
    apply commit_frame
    unfold commitUpdates
    rw [hg]
    simp only [List.flatMap_cons, List.flatMap_nil, List.append_nil, memorize, memorizeScript]
    intro hm
    rcases List.mem_map.1 hm with ⟨p, hp, e⟩
    rcases List.mem_append.1 hp with h1 | h1
    · split at h1
      · rcases List.mem_map.1 h1 with ⟨el, hel, e2⟩
        have : el.key = k := by rw [← e, ← e2]
        have hc : el.code = sel.entry.code := by
          have := congrArg Key.code this
          simpa [Entry.key, hcode] using this
        exact hk (this ▸ helems el hel hc)
      · cases h1
    · simp only [List.mem_singleton] at h1
      apply hk
      rw [← e, h1]
      have : (assemble ([] ++ [sel])).key = sel.entry.key := by
        simp [CommitEntry.key, assemble_text, assemble_code, Entry.key]
      exact this
  have hnb := beforeCommit_keys_nodup u hn
  have hna := afterCommit_keys_nodup ops Style.script u (selectedSegs [] sel) now hn
  obtain ⟨h1, h2, h3, h4, t, ht, hk, hkeep, hgn⟩ :=
    rank_bridge ops (beforeCommit u) (afterCommit ops Style.script u (selectedSegs [] sel) now) hnb hna P P'
      sel.entry.key vT' hT' (by omega) hframe (fun vT hvT => hgain vT vT' hvT hT') Ub Ua hpb hpa
  have hexb : ∀ c ∈ Ub, c.exact = true := by
    intro c hc
    obtain ⟨_, _, _, _, _, he⟩ := (mem_userExact ops _ P sel.entry.code c).1 (hpb.mem_iff.1 hc)
    exact he
  have hexa : ∀ c ∈ Ua, c.exact = true := by
    intro c hc
    obtain ⟨_, _, _, _, _, he⟩ := (mem_userExact ops _ P' sel.entry.code c).1 (hpa.mem_iff.1 hc)
    exact he
  refine ⟨?_, rank_no_worse_list Ub Ua sel.entry.key t S sent sent' sfe hsb hsa h1 h2 h3 h4 hexb hexa ht hk hkeep hgn⟩
  obtain ⟨pre', ea, _⟩ := scriptTop_exact sent' Ua S sfe hexa
  refine ⟨t.toCand, ?_, by simp [UCand.toCand, hk, Entry.key], rfl⟩
  rw [ea]
  exact List.mem_append_right _ (List.mem_append_left _ (List.mem_map.2 ⟨t, ht, rfl⟩))

/-! ## non-vacuity and the lost update -/

section Examples

open Examples in
/-- hypotheses of `assembled_phrase_stored` are satisfiable: two partial selections -/
example : (groupCommit (selectedSegs [selBC] selA)).map (·.key) = [{ code := [[98], [99], [97]], text := [66, 67, 65] }] := by
  decide

open Examples in
/-- … and the commit touches the multi-syllable element with `commits 0`, the single one too, then `+1` -/
example : commitUpdates Style.script (selectedSegs [selBC] selA) =
    [(eBC.key, 0), (eA.key, 0), ({ code := [[98], [99], [97]], text := [66, 67, 65] }, 1)] := by
  decide

open Examples in
/-- one commit whose composition is `A` · raw segment · `BC` · `A`: `Memory::OnCommit` saves two commit entries, `A`
and `BCA`; `A` is committed once and later touched (`commits 0`) as an element of `BCA`.  The touch reads the
pending `+1` and keeps it: the stored count of `A` goes from 0 to 1. -/
example :
    (groupCommit lostUpdateSegs).map (·.key) = [eA.key, { code := [[98], [99], [97]], text := [66, 67, 65] }] ∧
    updatesOf (commitUpdates Style.script lostUpdateSegs) eA.key = [1, 0] ∧
    commitTimes Style.script lostUpdateSegs eA.key = 1 ∧
    (afterCommit unitOps Style.script UD.empty lostUpdateSegs 0).count eA.key = 1 := by
  decide

open Examples in
/-- **history: the lost update.**  With the fetch of `UpdateEntry` reading the durable db only (librime before the
fix `let a user db transaction read its own pending writes`), the same commit left the committed entry `A` at
count 0: the later `UpdateEntry(A, 0)` re-read the stale stored record and overwrote the `+1` in the write batch.
`commit_plus_one` is false of that model; this check found the defect as `C10:commit:plus-one:lost-update`. -/
theorem old_lost_update_counterexample :
    commitTimes Style.script lostUpdateSegs eA.key = 1 ∧
    (oldAfterCommit unitOps Style.script UD.empty lostUpdateSegs 0).count eA.key = 0 := by
  decide

open Examples in
/-- the same key committed by two commit entries of one commit (`A` · raw · `A`) is raised twice -/
example :
    let segs : List Seg := [{ status := 1, sel := some selA }, { status := 1, sel := none }, { status := 3, sel := some selA }]
    commitTimes Style.script segs eA.key = 2 ∧
    (afterCommit unitOps Style.script UD.empty segs 0).count eA.key = 2 := by
  decide

open Examples in
/-- deleting, then committing again: `0 → -1 → 2` -/
example :
    let u1 := (UD.empty : UD Unit).onDelete unitOps eA
    u1.durable.count eA.key = -1 ∧
    (afterCommit unitOps Style.script u1 (selectedSegs [] selA) 0).count eA.key = 2 := by
  decide

/-- the model's own lists (`sortByWeight` of the scan) meet the sortedness / permutation hypotheses of
`rank_no_worse_partial`, for every db -/
theorem model_lists_sorted (ops : DeeOps D) (db : Db D) (present : Nat) (code : Code) :
    (sortByWeight (userExact ops db present code)).Perm (userExact ops db present code) ∧
    SortedDesc (sortByWeight (userExact ops db present code)) :=
  ⟨sortByWeight_perm _, sortByWeight_sorted _⟩

open Examples in
/-- `Gain` is satisfiable: for the instance whose weight is the commit count, a committed record gains on
every record that did not outweigh it -/
example (P P' : Nat) (vT : Value Unit) : Gain unitOps P P' vT (valueCommit unitOps 0 vT 1) := by
  intro v h
  simp only [unitOps, valueCommit] at h ⊢
  split <;> omega

open Examples in
/-- a concrete run of the ranking law: `A2` (count 2) is ahead of `A` (count 1) for code `a`; after two more
commits of `A` the order is reversed, after one it is at least no worse -/
example :
    let before := sortByWeight (userExact unitOps uTwo.durable 1 [[97]])
    let u3 := (uTwo.onCommit unitOps Style.script (selectedSegs [] selA) 0).commitPending
    let u4 := (u3.onCommit unitOps Style.script (selectedSegs [] selA) 0).commitPending
    let after1 := sortByWeight (userExact unitOps u3.durable 1 [[97]])
    let after2 := sortByWeight (userExact unitOps u4.durable 1 [[97]])
    before.map (·.key.text) = [[90], [65]] ∧
    (scriptTop true none before [] false).findIdx (fun c => decide (c.text = [65])) = 1 ∧
    (scriptTop true none after1 [] false).findIdx (fun c => decide (c.text = [65])) ≤ 1 ∧
    (scriptTop true none after2 [] false).findIdx (fun c => decide (c.text = [65])) = 0 := by
  decide

open Examples in
/-- **the full table-style ranking statement is false**: the 3-call witness
`input dcccccc; select the sentence 天土方; type dcccccc` on the model.  The commit saves one commit entry whose
elements 天 `dcc`, 土 `ccc`, 方 `c` each get `+1`; nothing is stored under the sentence's text.  Before, the list is
`天土方 · 天 · 要 · 低 · 擦 · 萌` (the sentence at position 0).  After, sentence composition — an oracle of the model;
the answers are the ones the real Poet gave — returns 天方土 (`dcc+c+ccc`, the same three entries, equal weight), the
list is `天方土 · 天(user) · 低 · 擦 · 萌`, and the committed text is not in it: its position (= length 5) is later
than before. -/
theorem table_sentence_rank_counterexample :
    (groupCommit sentenceSegs).map (·.elements) = [[eTian, eTu, eFang]] ∧
    commitUpdates Style.table sentenceSegs = [(eTian.key, 1), (eTu.key, 1), (eFang.key, 1)] ∧
    (afterCommit unitOps Style.table UD.empty sentenceSegs 0).keys.all (fun k => k.text ≠ [1, 2, 3]) = true ∧
    (witnessList UD.empty.durable [1, 2, 3]).map (·.text) = [[1, 2, 3], [1], [4], [5], [6], [7]] ∧
    (witnessList (afterCommit unitOps Style.table UD.empty sentenceSegs 0) [1, 3, 2]).map (·.text) =
      [[1, 3, 2], [1], [5], [6], [7]] ∧
    ¬ ((witnessList (afterCommit unitOps Style.table UD.empty sentenceSegs 0) [1, 3, 2]).findIdx
          (fun c => decide (c.text = [1, 2, 3])) ≤
       (witnessList UD.empty.durable [1, 2, 3]).findIdx (fun c => decide (c.text = [1, 2, 3]))) := by
  decide

end Examples

end C10
end RimeModel.C10
