import RimeModel.C11.Model
import RimeModel.C11.Lemmas
/-!
# C11 — a kill at any instant leaves the user dictionary whole

Property theorems only.  Everything is proved for **all** histories (induction over the event / op list, no
bound) and for a crash at **every** position of the emitted op trace.

Trusted, outside these theorems (DESIGN §3 C11): LevelDB applies a `WriteBatch` atomically and reopens / repairs
to a prefix of its log; a process kill loses no page-cache data.  The tie to the C++ code is checked on every run
by `checks/C11.py` (trace of the real `LevelDb` calls against `emitOne`/`Kv.step`, kill-point runs against the
states these theorems allow).
-/
namespace C11
open RimeModel.C11 RimeModel.C11.Example

/-! ## M-kv: raw op traces (no assumption on who issues the ops) -/

/-- A crash forgets the batch and the transaction flag and keeps exactly `durable`. -/
theorem crash_keeps_durable_only (s : Kv) : s.step .crash = Kv.init s.durable := rfl

/-- For every op trace whatsoever, what is durable is the fold of the units flushed so far — whole batches and
single writes issued outside a transaction — never a part of a batch. -/
theorem kv_durable_is_flushed_units (init : Store) (ops : List Op) :
    ((Acc.init init).run ops).kv.durable = applyCommits init ((Acc.init init).run ops).flushed :=
  Acc.run_inv init (Acc.init init) ops rfl

/-- … and the same for a crash after any prefix of any trace: the reopened state is the fold of a prefix `j` of
the units made, `flushed ≤ j ≤ made`, and at most the last unit made is missing. -/
theorem kv_crash_anywhere (init : Store) (ops : List Op) (k : Nat) :
    let a := (Acc.init init).run (ops.take k)
    ((Kv.init init).run (ops.take k ++ [.crash])).durable = applyCommits init (a.made.take a.flushed.length) ∧
      a.flushed.length ≤ a.made.length ∧ a.made.length ≤ a.flushed.length + 1 := by
  intro a
  refine ⟨?_, ?_, ?_⟩
  · rw [Kv.crash_durable]
    have h := kv_durable_is_flushed_units init (ops.take k)
    rw [Acc.run_kv] at h
    have : a.made.take a.flushed.length = a.flushed := by simp [Acc.made]
    rw [this]; exact h
  · simp [Acc.made]
  · simp only [Acc.made, List.length_append]; split <;> simp

/-- Units already flushed stay flushed, in order, whatever happens next (nothing older is ever lost). -/
theorem kv_flushed_monotone (init : Store) (ops more : List Op) :
    ((Acc.init init).run ops).flushed <+: ((Acc.init init).run (ops ++ more)).flushed := by
  rw [Acc.run_append]; exact Acc.run_flushed_prefix _ more

/-- The store is a map (as LevelDB is): a put is read back, other keys are untouched. -/
theorem store_get_put (s : Store) (k v k2 : Bytes) :
    (s.put k v).get k2 = if k2 = k then some v else s.get k2 := by
  by_cases h : k2 = k
  · subst h; simp [Store.get_put_same]
  · simp [h, Store.get_put_other s k v k2 h]

/-- … and an erased key is gone, other keys are untouched. -/
theorem store_get_erase (s : Store) (k k2 : Bytes) :
    (s.erase k).get k2 = if k2 = k then none else s.get k2 := by
  by_cases h : k2 = k
  · subst h; simp [Store.get_erase_same]
  · simp [h, Store.get_erase_other s k k2 h]

/-- `Fetch` inside a transaction reads the transaction's own writes: right after `Update k v` (or `Erase k`) it
returns `v` (or a miss) for `k` and, for every other key, what it returned before. -/
theorem fetch_reads_own_writes (s : Kv) (h : s.inTxn = true) (k v k2 : Bytes) :
    (s.step (.update k v)).fetch k2 = (if k = k2 then some v else s.fetch k2) ∧
    (s.step (.erase k)).fetch k2 = (if k = k2 then none else s.fetch k2) := by
  constructor
  · simp only [Kv.step, h, if_true, Kv.fetch, lastWrite_append_single, Write.key]
    by_cases hk : k = k2 <;> simp [hk]
  · simp only [Kv.step, h, if_true, Kv.fetch, lastWrite_append_single, Write.key]
    by_cases hk : k = k2 <;> simp [hk]

/-- What a transaction reads through its pending batch is exactly what the db holds once the batch is committed:
the read overlay and the atomic write agree, key by key.  Reads never touch `durable`, so nothing here bears on
what a crash leaves. -/
theorem fetch_is_commit_preview (s : Kv) (h : s.inTxn = true) (k : Bytes) :
    (s.step .commit).fetch k = s.fetch k := by
  simp only [Kv.step, h, if_true, Kv.fetch, lastWrite, get_applyWrites]
  cases lastWrite s.batch k with
  | none => rfl
  | some x => cases x <;> rfl

/-- After a crash (and after `abort`) reads see `durable` only. -/
theorem fetch_after_crash (s : Kv) (k : Bytes) :
    (s.step .crash).fetch k = s.durable.get k ∧ (s.inTxn = true → (s.step .abort).fetch k = s.durable.get k) := by
  constructor
  · simp [Kv.step, Kv.fetch, lastWrite]
  · intro h; simp [Kv.step, h, Kv.fetch, lastWrite]

/-! ## protocol: the ops `Memory`/`UserDictionary` emit, against whole commits -/

/-- Refinement, for every history: after the ops emitted for `es`, the transaction flag says whether a commit is
pending, the batch *is* that commit, and the durable state is the fold of the whole commits the specification
calls done. -/
theorem protocol_refines_spec (init : Store) (now : Nat) (es : List Event) :
    let p := (PState.init init now).run es
    let s := (Spec.init now).run es
    p.kv.inTxn = s.pending.isSome ∧ (∀ b, s.pending = some b → p.kv.batch = b) ∧
      p.kv.durable = applyCommits init s.done := by
  have h := (Rel.init init now).run es
  exact ⟨h.txn, h.batch, h.dur⟩

/-- **Main theorem.**  For every history `es` the protocol can go through and a kill after ANY number `k` of the
emitted ops (in the middle of an event's ops included): let `n` be the number of events started by then
(`|emit (es.take (n-1))| ≤ k ≤ |emit (es.take n)|`).  What a reopen finds is `applyCommits` of the first `j` of
the commits made by those `n` events, where `j` is at least the number already flushed and at most the number
made — every commit entirely or not at all, nothing older lost. -/
theorem durable_is_prefix_of_commits (init : Store) (now : Nat) (es : List Event) (k : Nat)
    (hk : k ≤ (emit (PState.init init now) es).length) :
    ∃ n j, n ≤ es.length ∧
      (emit (PState.init init now) (es.take (n - 1))).length ≤ k ∧
      k ≤ (emit (PState.init init now) (es.take n)).length ∧
      ((Spec.init now).run (es.take n)).done.length ≤ j ∧
      j ≤ ((Spec.init now).run (es.take n)).made.length ∧
      ((Kv.init init).run ((emit (PState.init init now) es).take k ++ [.crash])).durable =
        applyCommits init ((((Spec.init now).run (es.take n)).made).take j) := by
  obtain ⟨es₁, rest, hes, htake⟩ := emit_take _ es k hk
  have hrel := (Rel.init init now).run es₁
  have hklen : k = ((emit (PState.init init now) es).take k).length := by
    rw [List.length_take, Nat.min_eq_left hk]
  have hkv : (PState.init init now).kv = Kv.init init := rfl
  have hmade : ∀ s : Spec, s.done.length ≤ s.made.length := by intro s; simp [Spec.made]
  have htk0 : es.take es₁.length = es₁ := by rw [hes]; simp
  rw [Kv.crash_durable]
  rcases htake with htake | ⟨e, r, m, hr, htake⟩
  · have hk2 : k = (emit (PState.init init now) es₁).length := by rw [hklen, htake]
    have hmono := emit_len_mono (PState.init init now) es (es₁.length - 1) es₁.length (by omega)
    rw [htk0] at hmono
    refine ⟨es₁.length, ((Spec.init now).run es₁).done.length, by rw [hes]; simp, ?_, ?_, ?_, ?_, ?_⟩
    · rw [hk2]; exact hmono
    · rw [htk0, hk2]; exact Nat.le_refl _
    · rw [htk0]; exact Nat.le_refl _
    · rw [htk0]; exact hmade _
    · rw [htk0, htake, Spec.made_take_done, ← hkv, ← run_kv_emit]; exact hrel.dur
  · have htk : es.take (es₁.length + 1) = es₁ ++ [e] := by
      rw [hes, hr, List.take_append, List.take_of_length_le (Nat.le_succ _)]; simp
    have hk2 : k = (emit (PState.init init now) es₁).length +
        ((emitOne ((PState.init init now).run es₁) e).take (m + 1)).length := by
      rw [hklen, htake]; simp
    refine ⟨es₁.length + 1, ((Spec.init now).run (es₁ ++ [e])).done.length, by rw [hes, hr]; simp, ?_, ?_, ?_, ?_, ?_⟩
    · rw [Nat.add_sub_cancel, htk0, hk2]; exact Nat.le_add_right _ _
    · rw [htk, emit_append, emit_single, hk2, List.length_append]
      exact Nat.add_le_add_left (by rw [List.length_take]; exact Nat.min_le_right _ _) _
    · rw [htk]; exact Nat.le_refl _
    · rw [htk]; exact hmade _
    · rw [htk, htake, Spec.made_take_done, Kv.run_append, ← hkv, ← run_kv_emit, Spec.run_append]
      exact hrel.partial e m

/-- At most the final commit — the one whose batch no following key has flushed yet — can be missing. -/
theorem at_most_last_missing (now : Nat) (es : List Event) :
    let s := (Spec.init now).run es
    s.made = s.done ++ s.pending.toList ∧ s.made.length ≤ s.done.length + 1 := by
  intro s
  refine ⟨rfl, ?_⟩
  simp only [Spec.made, List.length_append]
  cases s.pending <;> simp

/-- What is durable only ever grows by whole commits appended at the end: the commits done after `es₁` are a
prefix of the commits done after any continuation. -/
theorem done_grows_by_whole_commits (now : Nat) (es₁ es₂ : List Event) :
    ((Spec.init now).run es₁).done <+: ((Spec.init now).run (es₁ ++ es₂)).done := by
  rw [Spec.run_append]
  generalize (Spec.init now).run es₁ = s
  induction es₂ generalizing s with
  | nil => exact List.prefix_refl _
  | cons e r ih =>
    refine List.IsPrefix.trans ?_ (ih (s.step e))
    cases e <;> simp only [Spec.step, Spec.flush] <;> try exact List.prefix_refl _
    all_goals first
      | exact List.prefix_append _ _
      | (split <;> first | exact List.prefix_refl _ | exact List.prefix_append _ _
                         | (split <;> first | exact List.prefix_refl _ | exact List.prefix_append _ _))

/-- Every update a commit issues goes to the one open batch: in whatever state `OnCommit` starts, after its
`commitPending; begin` and any number `m` of its updates a transaction is open, the batch holds exactly those `m`
updates in order, and `durable` has not moved since the `commitPending`.  (A code change that writes part of a
commit outside the batch makes the real trace differ from `emitOne` — the check reports it.) -/
theorem no_update_outside_txn_in_protocol (p : PState) (u : Nat) (ws : List Write) (m : Nat) :
    let pre := commitPending p.kv.inTxn
    let s := p.kv.run ((emitOne p (.onCommit u ws)).take (pre.length + 1 + m))
    s.inTxn = true ∧ s.batch = ws.take m ∧ s.durable = (p.kv.run pre).durable := by
  intro pre s
  have hs : s = (p.kv.run (pre ++ [.begin])).run ((ws.take m).map Write.toOp) := by
    show p.kv.run ((commitPending p.kv.inTxn ++ [Op.begin] ++ ws.map Write.toOp).take (pre.length + 1 + m)) = _
    rw [← Kv.run_append, List.take_append, List.map_take]
    have : (commitPending p.kv.inTxn ++ [Op.begin]).length = pre.length + 1 := by simp [pre]
    rw [List.take_of_length_le (by omega), this]
    simp [pre]
  have hb : (p.kv.run (pre ++ [.begin])).inTxn = true ∧ (p.kv.run (pre ++ [.begin])).batch = [] ∧
      (p.kv.run (pre ++ [.begin])).durable = (p.kv.run pre).durable := by
    rw [Kv.run_append]; simp [Kv.run, Kv.step]
  rw [hs, Kv.run_writes_inTxn _ _ hb.1]
  exact ⟨hb.1, by simp [hb.2.1], hb.2.2⟩

/-- The traces the protocol emits obey the grammar the driver checks on the real trace (`begin` only outside a
transaction, `commit`/`abort` only inside one, `close`/`open` only with nothing pending). -/
theorem emit_wellformed (p : PState) (es : List Event) : wfFrom p.kv.inTxn (emit p es) = true := by
  induction es generalizing p with
  | nil => rfl
  | cons e r ih =>
    have ih' := ih (p.step e)
    rw [PState.step_kv] at ih'
    cases e with
    | tick d => simpa [emit, emitOne, Kv.run] using ih'
    | onCommit u ws =>
      cases hi : p.kv.inTxn
      · simp only [emitOne, commitPending, hi, Bool.false_eq_true, if_false, List.nil_append,
          List.singleton_append] at ih'
        rw [Kv.run_cons, Kv.run_writes_inTxn _ _ (by simp [Kv.step])] at ih'
        simpa [emit, emitOne, commitPending, hi, wfFrom, wfFrom_writes, Kv.step] using ih'
      · simp only [emitOne, commitPending, hi, if_true, List.cons_append, List.nil_append] at ih'
        rw [Kv.run_cons, Kv.run_cons, Kv.run_writes_inTxn _ _ (by simp [Kv.step])] at ih'
        simpa [emit, emitOne, commitPending, hi, wfFrom, wfFrom_writes, Kv.step] using ih'
    | finish =>
      cases hi : p.kv.inTxn <;> simpa [emit, emitOne, commitPending, hi, wfFrom, Kv.run, Kv.step] using ih'
    | backspace u =>
      cases hi : p.kv.inTxn
      · simpa [emit, emitOne, hi, wfFrom, Kv.run, Kv.step] using ih'
      · cases hw : withinWindow p.now (p.ttime u) <;>
          simpa [emit, emitOne, hi, hw, wfFrom, Kv.run, Kv.step] using ih'
    | write w =>
      cases hi : p.kv.inTxn <;> cases w <;>
        simpa [emit, emitOne, Write.toOp, hi, wfFrom, Kv.run, Kv.step] using ih'
    | closeDb =>
      cases hi : p.kv.inTxn <;> simpa [emit, emitOne, commitPending, hi, wfFrom, Kv.run, Kv.step] using ih'
    | openDb =>
      cases hi : p.kv.inTxn <;> simpa [emit, emitOne, hi, wfFrom, Kv.run, Kv.step] using ih'

/-- A commit followed by any flushing event lands whole: the durable state is the previous durable state (with
whatever was pending flushed) plus exactly that commit's updates, in order. -/
theorem commit_then_flush_is_whole (init : Store) (now : Nat) (es : List Event) (u : Nat) (ws : List Write) :
    ((PState.init init now).run (es ++ [.onCommit u ws, .finish])).kv.durable =
      applyWrites ((PState.init init now).run (es ++ [.finish])).kv.durable ws := by
  have h1 := ((Rel.init init now).run (es ++ [.onCommit u ws, .finish])).dur
  have h2 := ((Rel.init init now).run (es ++ [.finish])).dur
  rw [h1, h2, Spec.run_append, Spec.run_append]
  simp [Spec.run, Spec.step, Spec.flush, applyCommits_append]
  simp [applyCommits]

/-- BackSpace inside the 3-second window takes the pending commit back as a whole: nothing of it ever becomes
durable; outside the window (or with nothing pending) it flushes like any other key. -/
theorem backspace_reverts_whole_or_flushes (s : Spec) (u : Nat) :
    (s.step (.backspace u)).done = s.done ∨ (s.step (.backspace u)).done = s.done ++ s.pending.toList := by
  simp only [Spec.step]
  cases hp : s.pending with
  | none => left; rfl
  | some b =>
    simp only []
    split
    · left; rfl
    · right; simp [Spec.flush, hp]

/-! ## non-vacuity: concrete histories -/

/-- the history above emits a non-trivial trace (a commit, an abort inside the window, a commit outside it) -/
example : emit (PState.init [] 100) hist =
    [.reopen, .update tickKey [48],
     .begin, .update tickKey [49], .update k1 [49], .commit,
     .begin, .update tickKey [50], .update k2 [49], .abort,
     .begin, .update tickKey [50], .update k2 [49], .commit,
     .begin, .update tickKey [49], .update k1 [49], .commit, .close] := by decide

/-- three commits survive (one was taken back), all flushed at the end -/
example : ((Spec.init 100).run hist).done = [[.put tickKey [48]], c1, c2, c1] ∧
    ((Spec.init 100).run hist).pending = none := by decide

/-- a kill after 12 ops (inside the third `OnCommit`, two updates in the batch) finds exactly the first commit -/
example : ((Kv.init []).run ((emit (PState.init [] 100) hist).take 12 ++ [.crash])).durable =
    applyCommits [] [[.put tickKey [48]], c1] := by decide

/-- the store is a map: the last write to a key wins, other keys keep their value -/
example : (applyCommits [] [c1, c2]).get tickKey = some [50] ∧ (applyCommits [] [c1, c2]).get k1 = some [49] := by
  decide

/-- the trace grammar rejects an update-free `commit` outside a transaction and accepts the emitted trace -/
example : traceWellFormed [.commit] = false ∧ traceWellFormed (emit (PState.init [] 100) hist) = true := by
  decide

end C11
