import RimeModel.C12.Lemmas
import RimeModel.C12.Noop
import RimeModel.C12.Cover
import RimeModel.C12.Example
/-!
# C12 — redeploying yields what a clean deploy of the current sources yields

Property theorems only.  Model: `RimeModel/C12/Model.lean` (ported from `deployment_tasks.cc`,
`dict_compiler.cc`), plan and hypotheses: `RimeModel/C12/Spec.lean`.

Hypotheses, all explicit:
* `CompilerOK E` — the config compiler records in `__build_info/timestamps` the mtime of every resource it read
  and its output depends on nothing else (C14's subject);
* `CkOK E` — "checksum injective on the contents at hand" (CRC32 collisions, and the concatenation the code
  feeds it, are outside);
* `Stamped cat S` for every source state of the history — "edits change mtime", as far as the deployer records
  it: a file seen twice with the same recorded time `recorded mtime` (what `BuildInfoPlugin` writes and
  `ConfigNeedsUpdate` compares, re-read from the source on every run: `Gen.DeployFacts.timestampBits`) has the same
  content; `PosTimes` — no file is recorded with time 0.
  With 64-bit timestamps (`timestampBits = 64`, librime after the fix proposed in hooks/C12_fix_proposal2.diff)
  `recorded` is the identity (`recorded_of_64`) and these are literally the property's "distinct modification
  times" plus "no file has mtime 0" (`stamped_of_64`, `posTimes_of_64`).
  With the `(int)` cast (`timestampBits = 32`) they are that only for mtimes less than 2³² s (136 years) apart
  (`castInt_inj_of_close`), wherever they lie — before or after 2038-01-19 (recorded negative) or 2106-02-07
  (recorded small); two mtimes a multiple of 2³² s apart are recorded alike, a multiple of 2³² s is recorded as
  "absent" (`old_int_cast_counterexample`): there the property fails on the real code (corpus/C12/int_cast_*.json);
* `SourcesOK E S` — the final sources are deployable: `default` has a schema list, every listed schema has a
  valid source, every reachable valid schema compiles and has its dictionary and pack sources
  (reuse-without-source and failed builds are excluded: there a stale artefact survives by design);
* `Functional (plan E S)` (idempotence / no-stale-use only) — no artefact file is claimed with two different
  contents: one prism name per schema, a pack belongs to one primary dictionary, …
-/
namespace C12
open RimeModel.C12

set_option linter.unusedSectionVars false

variable {K : Type} [DecidableEq K] {cat : Rid → Stamp → Content}

/-! ### the recorded time -/

/-- the translator understood how the tree at hand stores and reads the source timestamps, and writer and reader
agree (fails to build — fail closed — when `gen/deploy_facts.py` reports the shape as unknown) -/
theorem timestamp_width_known :
    RimeModel.Gen.DeployFacts.timestampBits = 32 ∨ RimeModel.Gen.DeployFacts.timestampBits = 64 := by decide

/-- 64-bit timestamps: the recorded time is the mtime itself -/
theorem recorded_of_64 (h : RimeModel.Gen.DeployFacts.timestampBits = 64) (t : Time) : recorded t = t := by
  simp [recorded, h]

/-- `(int)` timestamps: the recorded time is the truncated mtime -/
theorem recorded_of_32 (h : RimeModel.Gen.DeployFacts.timestampBits = 32) (t : Time) : recorded t = castInt t := by
  simp [recorded, h]

/-- with 64-bit timestamps the hypothesis `Stamped` is the property's own "edits change the modification time":
any assignment of contents to (file, mtime) pairs will do -/
theorem stamped_of_64 (h : RimeModel.Gen.DeployFacts.timestampBits = 64) (S : Src)
    (hS : ∀ r c t, S r = some (c, t) → c = cat r t) : Stamped cat S := by
  intro r c t hr
  rw [recorded_of_64 h]
  exact hS r c t hr

/-- with 64-bit timestamps the hypothesis `PosTimes` is "no file has mtime 0" -/
theorem posTimes_of_64 (h : RimeModel.Gen.DeployFacts.timestampBits = 64) (S : Src)
    (hS : ∀ r c t, S r = some (c, t) → t ≠ 0) : PosTimes S := by
  intro r c t hr
  rw [recorded_of_64 h]
  exact hS r c t hr

/-- **record of a defect found by this check** (librime ≤ 45d2b2d, `timestampBits = 32`): under the `(int)` cast two
different mtimes are recorded alike, and a non-zero mtime is recorded as 0 = "absent" — so an edit that moves the
mtime by 2³² s, or a source dated 2106-02-07T06:28:16Z, is invisible to `ConfigNeedsUpdate` (the model's
`stampStale` answers "not stale" for a changed / an added file). -/
theorem old_int_cast_counterexample :
    (1500000098 : Int) ≠ 1500000098 + 4294967296 ∧ castInt 1500000098 = castInt (1500000098 + 4294967296) ∧
    (4294967296 : Int) ≠ 0 ∧ castInt 4294967296 = 0 := by decide

/-! #### the `(int)` cast (`last_build_time` in both variants; the source timestamps of the 32-bit one) -/

/-- the cast is the identity on the range of an `int` (every date from 1901-12-13 to 2038-01-19) -/
theorem castInt_id (t : Int) (h1 : -2147483648 ≤ t) (h2 : t < 2147483648) : castInt t = t := by
  unfold castInt; omega

/-- the recorded time is always an `int` -/
theorem castInt_range (t : Int) : -2147483648 ≤ castInt t ∧ castInt t < 2147483648 := by
  unfold castInt; omega

/-- two mtimes are recorded alike exactly when they are a multiple of 2³² s apart -/
theorem castInt_eq_iff (t t' : Int) : castInt t = castInt t' ↔ (t - t') % 4294967296 = 0 := by
  unfold castInt; omega

/-- so the recorded time tells apart any two different mtimes less than 2³² s (≈ 136 years) apart, on whichever
side of 2038 or 2106 they lie: "distinct modification times" survive the cast -/
theorem castInt_inj_of_close (t t' : Int) (h1 : t - t' < 4294967296) (h2 : t' - t < 4294967296)
    (h : castInt t = castInt t') : t = t' := by
  unfold castInt at h; omega

/-- a clock reading between 2038-01-19 and 2106-02-07 is stored as a negative number -/
theorem castInt_neg_2038 (t : Int) (h1 : 2147483648 ≤ t) (h2 : t < 4294967296) : castInt t < 0 := by
  unfold castInt; omega

/-- past the epoch, the stored time is never later than the time itself -/
theorem castInt_le_self (t : Int) (h : 0 ≤ t) : castInt t ≤ t := by
  unfold castInt; omega

/-- a date in 2040 is recorded as a negative number, one in 2106 as a small one -/
example : castInt 2208988812 = -2085978484 ∧ castInt 4294967301 = 5 ∧ castInt 1500000000 = 1500000000 := by decide

/-- **C12, main clause.**  Deploying sources `S` over any consistent staging directory `A` leaves every
artefact that a clean deployment (empty staging directory) of `S` produces — compiled configs, tables,
prisms, reverse dbs, packs — with identical recorded fingerprints and identical content, and returns the same
verdict. -/
theorem deploy_eq_clean {E : Env K} (hC : CompilerOK E) (hK : CkOK E) {S : Src} (hS : SourcesOK E S)
    (hSt : Stamped cat S) {A : Arts K} (hA : Consistent E cat A) (now now' : Time) :
    AgreeOn (deploy E S now A).1 (deploy E S now' Arts.empty).1 ∧
    (deploy E S now A).2.1 = (deploy E S now' Arts.empty).2.1 := by
  have h1 := workspaceUpdate_spec hC hK hS hSt hA now
  have h2 := workspaceUpdate_spec hC hK hS hSt (consistent_empty E cat) now'
  unfold deploy
  rw [h1.1, h2.1, h1.2.1, h2.2.1]
  have := AgreeOn.applyAssigns (plan E S) (AgreeOn.empty A)
  exact ⟨⟨this.cfg, this.table, this.prism, this.reverse⟩, rfl⟩

/-- Consistency is an invariant of deployment (so the hypothesis of `deploy_eq_clean` holds along any
history that starts from an empty — or any consistent — staging directory). -/
theorem deploy_consistent {E : Env K} (hC : CompilerOK E) (hK : CkOK E) {S : Src} (hS : SourcesOK E S)
    (hSt : Stamped cat S) {A : Arts K} (hA : Consistent E cat A) (now : Time) :
    Consistent E cat (deploy E S now A).1 :=
  (workspaceUpdate_spec hC hK hS hSt hA now).2.2

theorem consistent_congr {E E' : Env K} (h : SameTools E E') {A : Arts K} (hA : Consistent E cat A) :
    Consistent E' cat A := by
  obtain ⟨h1, h2, h3, h4⟩ := h
  refine ⟨?_, ?_, ?_, ?_⟩
  · intro id a ha
    obtain ⟨S0, x, y, z⟩ := hA.cfg id a ha
    exact ⟨S0, by rw [h1]; exact x, y, z⟩
  · intro n t ht
    have := hA.table n t ht
    unfold TableOK at this ⊢
    rw [h2, h3]
    exact this
  · intro n q hq
    have := hA.prism n q hq
    unfold PrismOK at this ⊢
    rw [h2, h3, h4]
    exact this
  · intro n r hr
    have := hA.reverse n r hr
    unfold ReverseOK at this ⊢
    rw [h2, h3]
    exact this

theorem runHistory_consistent {E0 : Env K} (h : List (Step K)) :
    ∀ {A : Arts K}, Consistent E0 cat A →
      (∀ e ∈ h, SameTools E0 e.1 ∧ CompilerOK e.1 ∧ CkOK e.1 ∧ SourcesOK e.1 e.2.1 ∧ Stamped cat e.2.1) →
      Consistent E0 cat (runHistory A h) := by
  induction h with
  | nil => intro A hA _; exact hA
  | cons e h ih =>
    intro A hA hh
    obtain ⟨t, c, k, s, st⟩ := hh e (by simp)
    simp only [runHistory, List.foldl_cons]
    have h1 := deploy_consistent c k s st (consistent_congr t hA) e.2.2
    have t' : SameTools e.1 E0 := ⟨t.1 ▸ rfl, t.2.1 ▸ rfl, t.2.2.1 ▸ rfl, t.2.2.2 ▸ rfl⟩
    exact ih (consistent_congr t' h1) (fun x hx => hh x (by simp [hx]))

/-- **C12 over histories.**  For any history of source states, each followed by a deployment, starting from
an empty staging directory (or any consistent one), the artefacts after the last deployment are those of a
clean deployment of the final sources — provided every state of the history is deployable and mtimes identify
contents along the history. -/
theorem history_eq_clean {E0 : Env K} (h : List (Step K)) (last : Step K) {A : Arts K}
    (hA : Consistent E0 cat A)
    (hh : ∀ e ∈ h ++ [last], SameTools E0 e.1 ∧ CompilerOK e.1 ∧ CkOK e.1 ∧ SourcesOK e.1 e.2.1 ∧
      Stamped cat e.2.1) (now' : Time) :
    AgreeOn (runHistory A (h ++ [last])) (deploy last.1 last.2.1 now' Arts.empty).1 := by
  obtain ⟨t, c, k, s, st⟩ := hh last (by simp)
  have hc := runHistory_consistent (cat := cat) h hA (fun e he => hh e (by simp [he]))
  simp only [runHistory, List.foldl_append, List.foldl_cons, List.foldl_nil]
  exact (deploy_eq_clean c k s st (consistent_congr t hc) last.2.2 now').1

theorem holds_lastBuild {A : Arts K} {a : Assign K} (t : Stamp) (h : A.Holds a) :
    ({ A with lastBuild := t } : Arts K).Holds a := by
  cases a <;> exact h

/-- **No stale artefact in use.**  After a deployment, for every schema reachable from the schema list whose
source is valid, every artefact it resolves (compiled schema, table, reverse db, prism, packs) is the one
built from the *current* sources and records their fingerprints — provided no file is claimed with two
contents. -/
theorem no_stale_use {E : Env K} (hC : CompilerOK E) (hK : CkOK E) {S : Src} (hS : SourcesOK E S)
    (hSt : Stamped cat S) {A : Arts K} (hA : Consistent E cat A) (hF : Functional (plan E S)) (now : Time)
    {c0 : CfgArt} {l : List String} (hc0 : E.compile .default S = some c0) (hl : c0.schemaList = some l)
    {sid : String} (hr : Reach E S l sid) (hp : E.schemaPresent sid = true) (hok : E.schemaOk sid = true) :
    ∀ a ∈ schemaAssigns E S sid, (deploy E S now A).1.Holds a := by
  intro a ha
  unfold deploy
  rw [(workspaceUpdate_spec hC hK hS hSt hA now).1]
  exact holds_lastBuild (castInt now) (holds_applyAssigns hF A ((plan_covers hc0 hl).2 sid hr hp hok a ha))

/-- the same, spelled out for the primary table and the prism of a schema -/
theorem no_stale_use_dict {E : Env K} (hC : CompilerOK E) (hK : CkOK E) {S : Src} (hS : SourcesOK E S)
    (hSt : Stamped cat S) {A : Arts K} (hA : Consistent E cat A) (hF : Functional (plan E S)) (now : Time)
    {c0 : CfgArt} {l : List String} (hc0 : E.compile .default S = some c0) (hl : c0.schemaList = some l)
    {sid : String} (hr : Reach E S l sid) (hp : E.schemaPresent sid = true) (hok : E.schemaOk sid = true)
    {c : CfgArt} (hc : E.compile (.schema sid) S = some c) {d : String} (hd : c.dict = some d) :
    (deploy E S now A).1.cfg (.schema sid) = some c ∧
    (deploy E S now A).1.table d = some ⟨E.ck E.zero (filesOf E d), none, filesOf E d⟩ ∧
    (deploy E S now A).1.prism c.prism =
      some ⟨E.ck E.zero (filesOf E d), E.fck c, Syl.of (filesOf E d), c⟩ := by
  have h := no_stale_use hC hK hS hSt hA hF now hc0 hl hr hp hok
  refine ⟨h (.cfg (.schema sid) c) ?_, h (.table d _) ?_, h (.prism c.prism _) ?_⟩ <;>
    simp [schemaAssigns, hc, hd, dictAssigns]

/-- **A deployment with no source change rewrites no build artefact and succeeds as before.**  Deploying the
same sources again leaves the staging directory as it is (only `last_build_time` moves), returns the same
verdict, and its log contains no write at all — provided no file is claimed with two contents. -/
theorem deploy_idempotent_no_write {E : Env K} (hC : CompilerOK E) (hK : CkOK E) {S : Src} (hS : SourcesOK E S)
    (hSt : Stamped cat S) {A : Arts K} (hA : Consistent E cat A) (hF : Functional (plan E S)) (now now' : Time) :
    (deploy E S now' (deploy E S now A).1).1 = { (deploy E S now A).1 with lastBuild := castInt now' } ∧
    (deploy E S now' (deploy E S now A).1).2.1 = (deploy E S now A).2.1 ∧
    NoWrites (deploy E S now' (deploy E S now A).1).2.2 := by
  have h1 := workspaceUpdate_spec hC hK hS hSt hA now
  have h2 := workspaceUpdate_spec hC hK hS hSt h1.2.2 now'
  obtain ⟨c0, l, hc0, hl, _, hreach⟩ := hS.default
  have hcov := plan_covers hc0 hl
  have hholds : ∀ a ∈ plan E S, (workspaceUpdate E S now A).1.Holds a := by
    intro a ha
    rw [h1.1]
    exact holds_lastBuild (castInt now) (holds_applyAssigns hF A ha)
  have hn := workspaceUpdate_noop hC hS (A := (workspaceUpdate E S now A).1)
    (by intro c hc; rw [hc0] at hc; cases hc; exact hholds _ hcov.1)
    (by
      intro l' hl' sid hr hp hok
      obtain ⟨c0', hc0', hl''⟩ := hl'
      rw [hc0] at hc0'; cases hc0'
      rw [hl] at hl''; cases hl''
      exact ⟨hreach sid hr hp hok, fun a ha => hholds a (hcov.2 sid hr hp hok a ha)⟩)
    now'
  unfold deploy
  exact ⟨hn.1, by rw [h2.2.1, h1.2.1], hn.2⟩

/-! ### the pre-filter of `start_maintenance(False)` -/

theorem foldl_max_gt (l : List Int) : ∀ (a b : Int), l.foldl max a > b ↔ a > b ∨ ∃ t ∈ l, t > b := by
  induction l with
  | nil => intro a b; simp
  | cons x l ih =>
    intro a b
    simp only [List.foldl_cons, ih, List.mem_cons, exists_eq_or_imp]
    constructor
    · rintro (h | h)
      · by_cases hx : x > b
        · exact Or.inr (Or.inl hx)
        · exact Or.inl (by omega)
      · exact Or.inr (Or.inr h)
    · rintro (h | h | h)
      · exact Or.inl (by omega)
      · exact Or.inl (by omega)
      · exact Or.inr h

/-- **`DetectModifications`** fires exactly when the stored `last_build_time` is negative (the maximum starts
from `time_t last_modified = 0`) or one of the scanned mtimes (the two data directories and their top-level
`*.yaml` files other than `user.yaml`, as 64-bit `time_t`) is later than it. -/
theorem detect_modifications_lemma (mtimes : List Time) (lastBuild : Stamp) :
    detectModifications mtimes lastBuild = true ↔ lastBuild < 0 ∨ ∃ t ∈ mtimes, t > lastBuild := by
  unfold detectModifications
  simp only [decide_eq_true_eq]
  rw [foldl_max_gt]

/-- the year-2038 behaviour of the pre-filter, as the code has it: a deployment that finishes between 2038-01-19
and 2106-02-07 stores a negative `last_build_time`, after which the pre-filter always fires (it errs on the side
of deploying; the deployment itself then rewrites nothing — `deploy_idempotent_no_write`). -/
theorem detect_fires_after_2038 {E : Env K} {S : Src} (now : Int) (A : Arts K) (mtimes : List Time)
    (h1 : 2147483648 ≤ now) (h2 : now < 4294967296)
    (hdep : ∃ c l, E.compile .default S = some c ∧ c.schemaList = some l)
    (hA : configNeedsUpdate S (A.cfg .default) = true) :
    detectModifications mtimes (deploy E S now A).1.lastBuild = true := by
  rw [detect_modifications_lemma]
  obtain ⟨c, l, hc, hl⟩ := hdep
  refine Or.inl ?_
  simp [deploy, workspaceUpdate, configFileUpdate, hA, hc, hl, upd]
  exact castInt_neg_2038 now h1 h2

/-- when a data directory, or an entry of one, cannot be examined (a dangling link: `fs::canonical` throws), the
pre-filter answers "modified" — it never answers "nothing to do" on information it could not read, so the full
deployment (to which the theorems above apply) runs. -/
theorem detect_fires_on_unreadable_entry : detectModificationsOnError = true := rfl

/-- so an edit of a scanned `*.yaml` made after a deployment finished (mtime later than the `time(NULL)`
that deployment stored; the clock past the epoch) is always detected; an edit whose mtime is not later (made while
the deployment ran, or restored with an old mtime), and any `*.txt` / sub-directory file, is not — by
construction. -/
theorem detect_after_deploy {E : Env K} {S : Src} (now : Int) (hnow : 0 ≤ now) (A : Arts K) (mtimes : List Time)
    (t : Int) (ht : t ∈ mtimes) (hlater : t > now)
    (hdep : (E.compile .default S).isSome ∧ ∀ c, E.compile .default S = some c → c.schemaList.isSome)
    (hA : configNeedsUpdate S (A.cfg .default) = true) :
    detectModifications mtimes (deploy E S now A).1.lastBuild = true := by
  rw [detect_modifications_lemma]
  refine Or.inr ⟨t, ht, ?_⟩
  obtain ⟨h1, h2⟩ := hdep
  cases hc : E.compile .default S with
  | none => rw [hc] at h1; cases h1
  | some c =>
    have h3 := h2 c hc
    cases hl : c.schemaList with
    | none => rw [hl] at h3; cases h3
    | some l =>
      simp [deploy, workspaceUpdate, configFileUpdate, hA, hc, hl, upd]
      exact Int.lt_of_le_of_lt (castInt_le_self now hnow) hlater


/-! ### non-vacuity: a concrete workspace (two schemas, one a dependency of the other, a shared default, a
pack) meets every hypothesis; the staging directory left by deploying an *earlier* version of the sources is
consistent, and redeploying after the edit really decides a mix of "rebuild" and "reuse". -/
section NonVacuity
open RimeModel.C12.Ex

/-- the staging directory after deploying the earlier sources `exS0` into an empty one -/
example : Consistent exE exCat (deploy exE exS0 15 (Arts.empty : Arts ExK)).1 :=
  deploy_consistent exCompilerOK exCkOK (exSourcesOK _ (Or.inr rfl)) (exStamped _ (Or.inr rfl))
    (consistent_empty exE exCat) 15

/-- all hypotheses of `deploy_eq_clean`, `no_stale_use`, `deploy_idempotent_no_write` at once -/
example : CompilerOK exE ∧ CkOK exE ∧ SourcesOK exE exS ∧ Stamped exCat exS ∧ Functional (plan exE exS) ∧
    (plan exE exS).length = 10 :=
  ⟨exCompilerOK, exCkOK, exSourcesOK _ (Or.inl rfl), exStamped _ (Or.inl rfl), exFunctional, by decide⟩

/-- the incremental deployment after editing `sa.schema.yaml` rebuilds that config and the prism of `sa`,
and reuses the table, the pack and everything of `sb` (whose source is dated 2040: recorded as a negative `int`,
compared through the same cast) -/
example : (deploy exE exS 20 (deploy exE exS0 15 (Arts.empty : Arts ExK)).1).2.2 =
    [.cfgDecision .default false, .cfgDecision (.schema "sa") true, .wroteCfg (.schema "sa"),
     .dictDecision "da" false true, .wrotePrism "sa", .packDecision "pk" false,
     .cfgDecision (.schema "sb") false, .dictDecision "db" false false] := by decide

/-- the conclusion of `history_eq_clean` instantiated on the two-step history -/
example : AgreeOn (runHistory (Arts.empty : Arts ExK) ([(exE, exS0, 15)] ++ [(exE, exS, 20)]))
    (deploy exE exS 99 Arts.empty).1 :=
  history_eq_clean (E0 := exE) (cat := exCat) [(exE, exS0, 15)] (exE, exS, 20) (consistent_empty exE exCat)
    (by
      intro e he
      simp only [List.cons_append, List.nil_append, List.mem_cons, List.not_mem_nil, or_false] at he
      rcases he with e1 | e1 <;> subst e1
      · exact ⟨⟨rfl, rfl, rfl, rfl⟩, exCompilerOK, exCkOK, exSourcesOK _ (Or.inr rfl), exStamped _ (Or.inr rfl)⟩
      · exact ⟨⟨rfl, rfl, rfl, rfl⟩, exCompilerOK, exCkOK, exSourcesOK _ (Or.inl rfl), exStamped _ (Or.inl rfl)⟩)
    99

example : detectModifications [10, 11, 12, 21] 20 = true ∧ detectModifications [10, 11, 12] 20 = false ∧
    detectModifications [10, 2208988812] 20 = true ∧ detectModifications [10] (castInt 2208988812) = true := by
  decide

end NonVacuity

end C12
