import RimeModel.C13.Lemmas
import RimeModel.C13.Crash
import RimeModel.Props.C12
/-!
# C13 — an interrupted deployment is repaired by the next, never mistaken for complete

Property theorems only.  Models: `RimeModel/C13/Model.lean` (a builder = a sequence of abstract stores on a file,
a kill = any prefix; the order of the stores comes from `RimeModel.Gen.DeployFacts`, regenerated from the source
on every run), `RimeModel/C13/Crash.lean` (crash states of a whole deployment in the terms of the C12 model).

Full statement (now proved for every artefact kind, from the facts regenerated from the current source):
```
∀ artefact kind, ∀ prefix of its builder's stores:  Load accepts the file  →  the file is the untouched old one
                                                                              or holds all the data of the new build
```
* `table_loadable_complete`, `prism_loadable_complete`, `reverse_loadable_complete`, `yaml_loadable_complete`: the
  proofs use the generated facts (tag stored last, file removed before it is rebuilt, `Load` tests the tag, compiled
  YAML not written in place), so a change of the store order in the source breaks them.
* History, kept on the *old* store order (before 8477a8a / 464c800): `old_reverse_loadable_complete_counterexample`
  (a reverse db rebuilt in place: `Resize` keeps the old tag and checksum and may cut the old data),
  `old_reverse_loadable_complete_partial` (it held only for rebuilds whose estimate did not cut the old file),
  `old_yaml_loadable_complete_counterexample` (compiled YAML written in place: `__build_info` is the first entry
  emitted, so a prefix that stops anywhere after it passes `ConfigNeedsUpdate`).
-/
namespace C13
open RimeModel.C13 RimeModel.Gen

/-- the facts about the source the table / prism theorems rest on (re-read from the source on every run) -/
theorem generated_facts_table_prism :
    DeployFacts.tableRemovedFirst = true ∧ DeployFacts.tableTagLast = true ∧ DeployFacts.tableLoadTestsTag = true ∧
    DeployFacts.prismRemovedFirst = true ∧ DeployFacts.prismTagLast = true ∧ DeployFacts.prismLoadTestsTag = true ∧
    DeployFacts.reverseTagLast = true ∧ DeployFacts.reverseLoadTestsTag = true ∧
    DeployFacts.allocateZeroes = true := by decide

/-- … and the reverse db / compiled YAML theorems -/
theorem generated_facts_reverse_yaml :
    DeployFacts.reverseRemovedFirst = true ∧ DeployFacts.yamlSavedInPlace = false := by decide

/-- **`table.bin`**: after a kill at any point of `BuildTable` (Remove, Create, Build, Save), a table file that
`Table::Load` accepts is the untouched old file (nothing was done yet) or holds all the data of the new build
under the new checksum — for every build, every tag length and every number `minTag ≥ 1` of tag bytes `Load`
insists on (a partially stored tag that passes follows complete data). -/
theorem table_loadable_complete (tagLen minTag : Nat) (hmin : 1 ≤ minTag) (b : Build) (f0 f : File)
    (h : Reach (tableProgram tagLen b) f0 f) (hl : load DeployFacts.tableLoadTestsTag minTag f = true) :
    f = f0 ∨ ∃ img, f = some img ∧ CompleteData b img := by
  have hf := generated_facts_table_prism
  unfold tableProgram program at h
  simp only [hf.1, hf.2.1, ↓reduceIte, List.append_nil, List.cons_append, List.nil_append, List.append_assoc] at h
  rw [hf.2.2.1] at hl
  exact removed_first_tag_last tagLen minTag hmin b f0 f hf.2.2.2.2.2.2.2.2 h hl

/-- **`prism.bin`**: the same for `BuildPrism`. -/
theorem prism_loadable_complete (tagLen minTag : Nat) (hmin : 1 ≤ minTag) (b : Build) (f0 f : File)
    (h : Reach (prismProgram tagLen b) f0 f) (hl : load DeployFacts.prismLoadTestsTag minTag f = true) :
    f = f0 ∨ ∃ img, f = some img ∧ CompleteData b img := by
  have hf := generated_facts_table_prism
  unfold prismProgram program at h
  simp only [hf.2.2.2.1, hf.2.2.2.2.1, ↓reduceIte, List.append_nil, List.cons_append, List.nil_append,
    List.append_assoc] at h
  rw [hf.2.2.2.2.2.1] at hl
  exact removed_first_tag_last tagLen minTag hmin b f0 f hf.2.2.2.2.2.2.2.2 h hl

/-- **`reverse.bin`**: the same for `BuildReverseDb` — the source removes the old file before rebuilding it
(generated fact `reverseRemovedFirst`). -/
theorem reverse_loadable_complete (tagLen minTag : Nat) (hmin : 1 ≤ minTag) (b : Build) (f0 f : File)
    (h : Reach (reverseProgram tagLen b) f0 f) (hl : load DeployFacts.reverseLoadTestsTag minTag f = true) :
    f = f0 ∨ ∃ img, f = some img ∧ CompleteData b img := by
  have hf := generated_facts_table_prism
  unfold reverseProgram program at h
  simp only [generated_facts_reverse_yaml.1, hf.2.2.2.2.2.2.1, ↓reduceIte, List.append_nil, List.cons_append,
    List.nil_append, List.append_assoc] at h
  rw [hf.2.2.2.2.2.2.2.1] at hl
  exact removed_first_tag_last tagLen minTag hmin b f0 f hf.2.2.2.2.2.2.2.2 h hl

/-- **History — `reverse.bin` rebuilt in place** (the store order before 8477a8a: no removal, `Create` resizes
the existing file): a file that `Load` accepts holds all the data of the old build or of the new one *only if
the new capacity estimate is not smaller than the old file*. -/
theorem old_reverse_loadable_complete_partial
    (tagLen minTag : Nat) (hmin : 1 ≤ minTag) (b0 b : Build) (f0 f : File)
    (h0 : f0 = none ∨ ∃ img0, f0 = some img0 ∧ CompleteData b0 img0 ∧ img0.size ≤ b.cap)
    (h : Reach (program false true tagLen b) f0 f) (hl : load true minTag f = true) :
    ∃ img, f = some img ∧ (CompleteData b0 img ∨ CompleteData b img) := by
  have hf := generated_facts_table_prism
  unfold program at h
  simp only [↓reduceIte, List.append_nil, List.cons_append, List.nil_append, List.append_assoc,
    Bool.false_eq_true] at h
  exact in_place_tag_last tagLen minTag hmin b0 b f0 f hf.2.2.2.2.2.2.2.2 h0 h hl

/-- **History — the negation of the full statement for a reverse db rebuilt in place**: a complete old reverse
db of 100 bytes, a rebuild whose estimate is 40 bytes, a kill right after `MappedFile::Create` resized the
file: `Load` accepts it (old tag), its checksum is the old one, and its data is cut.  (Found on the real code
as `C13:loadable-incomplete:reverse` / `C13:redeploy-fails:reverse-truncated`.) -/
theorem old_reverse_loadable_complete_counterexample (hcr : DeployFacts.createResizesExisting = true) :
    ∃ (b0 b : Build) (img0 : Img) (f : File), CompleteData b0 img0 ∧ img0.tag = 16 ∧
      Reach (program false true 16 b) (some img0) f ∧ load true 13 f = true ∧
      ∀ img, f = some img → ¬ CompleteData b0 img ∧ ¬ CompleteData b img := by
  refine ⟨⟨1, 120, 10, [50, 100]⟩, ⟨2, 40, 10, [20, 30]⟩, ⟨100, 16, some 1, 2, 100⟩,
    some ⟨40, 16, some 1, 2, 100⟩, ⟨rfl, rfl, by simp⟩, rfl, ⟨1, ?_⟩, by decide, ?_⟩
  · simp [program, run, Op.run, hcr]
  · intro img h
    cases h
    simp [CompleteData]

/-! ### compiled YAML -/

/-- **compiled YAML** (and every other config file): the source writes a temporary file and renames it into
place (generated fact `yamlSavedInPlace = false`), so whatever the temporary file held before and wherever the
kill comes — while the temporary file is written, between its last write and the rename, after the rename —
the destination is the old file or the complete new one; a left-over temporary file is never the destination. -/
theorem yaml_loadable_complete (doc : Doc) (s0 s : YState)
    (h : YReach (saveToFile doc) s0 s) : s.dest = s0.dest ∨ s.dest = some doc := by
  have hip := generated_facts_reverse_yaml.2
  obtain ⟨k, hk⟩ := h
  subst hk
  unfold saveToFile yamlProgram
  simp only [hip, Bool.false_eq_true, ↓reduceIte]
  -- the destination is untouched until the rename, which installs the whole document
  have key : ∀ (l : List (String × Nat)) (acc : Doc) (d : Option Doc) (j : Nat),
      (yrun ((l.map YOp.writeTmp ++ [YOp.rename]).take j) ⟨d, some acc⟩).dest = d ∨
      (yrun ((l.map YOp.writeTmp ++ [YOp.rename]).take j) ⟨d, some acc⟩).dest = some (acc ++ l) := by
    intro l
    induction l with
    | nil =>
      intro acc d j
      cases j with
      | zero => left; rfl
      | succ j => right; simp [yrun, YOp.run]
    | cons e l ih =>
      intro acc d j
      cases j with
      | zero => left; rfl
      | succ j =>
        have := ih (acc ++ [e]) d j
        simpa [yrun, YOp.run, List.append_assoc] using this
  cases k with
  | zero => left; rfl
  | succ k =>
    have := key doc [] s0.dest k
    simpa [yrun, YOp.run] using this

/-- **History — compiled YAML written in place (before 464c800): the negation of the full statement.**  Witness: a compiled schema with
`__build_info` (value 7 = the timestamps of the current sources) and two more entries; the kill comes after the
second piece reached the file.  The file passes the test `ConfigNeedsUpdate` applies (it parses, its build info
matches the sources), it is neither the old file nor the complete new one, and `engine` is missing. -/
theorem old_yaml_loadable_complete_counterexample :
    ∃ (doc old : Doc) (s : YState), YReach (yamlProgram true doc) ⟨some old, none⟩ s ∧
      yload ("__build_info", 7) s.dest = true ∧ s.dest ≠ some old ∧ s.dest ≠ some doc ∧
      ∀ d, s.dest = some d → ("engine", 3) ∉ d := by
  refine ⟨[("__build_info", 7), ("alphabet", 2), ("engine", 3)], [("__build_info", 5), ("alphabet", 1), ("engine", 3)],
    ⟨some [("__build_info", 7), ("alphabet", 2)], none⟩, ⟨3, ?_⟩, by decide, by decide, by decide, ?_⟩
  · simp [yamlProgram, yrun, YOp.run]
  · intro d hd
    cases hd
    decide

/-! ### crash states of a whole deployment -/

section Crash
open RimeModel.C12

variable {K : Type} [DecidableEq K] {cat : Rid → Time → Content}

/-- **Every crash state is consistent** (in the sense of C12): whatever prefix of the planned writes completed
and whichever artefacts the kill left unloadable, every artefact that still loads records the fingerprints of
what it was built from. -/
theorem crash_state_consistent {E : Env K} {S : Src} (hS : SourcesOK E S) (hSt : Stamped cat S) {A X : Arts K}
    (hA : Consistent E cat A) (hX : CrashState A (plan E S) X) : Consistent E cat X := by
  obtain ⟨k, D, rfl⟩ := hX
  apply consistent_drops
  apply Consistent.applyAssigns _ hA
  intro a ha
  exact plan_ok hS hSt a (List.mem_of_mem_take ha)

/-- **The next deployment of the same sources repairs it**: deployed over any crash state, the same sources
give every artefact of a clean deployment, identically, with the same verdict. -/
theorem redeploy_after_crash_eq_clean {E : Env K} (hC : CompilerOK E) (hK : CkOK E) {S : Src} (hS : SourcesOK E S)
    (hSt : Stamped cat S) {A X : Arts K} (hA : Consistent E cat A) (hX : CrashState A (plan E S) X)
    (now now' : Time) :
    AgreeOn (deploy E S now X).1 (deploy E S now' Arts.empty).1 ∧
    (deploy E S now X).2.1 = (deploy E S now' Arts.empty).2.1 :=
  _root_.C12.deploy_eq_clean hC hK hS hSt (crash_state_consistent hS hSt hA hX) now now'

/-- `last_build_time` is written only when the schema loop has finished (`workspaceUpdate` stores it last), so a
crash state never carries a newer one than the staging directory it started from: the quick path
(`DetectModifications`) still fires after a kill. -/
theorem crash_keeps_last_build_time {A X : Arts K} {l : List (Assign K)} (hX : CrashState A l X) :
    X.lastBuild = A.lastBuild := by
  obtain ⟨k, D, rfl⟩ := hX
  have h1 : ∀ (D : List Slot) (B : Arts K), (D.foldl dropSlot B).lastBuild = B.lastBuild := by
    intro D
    induction D with
    | nil => intro B; rfl
    | cons s D ih => intro B; rw [List.foldl_cons, ih]; cases s <;> rfl
  have h2 : ∀ (l : List (Assign K)) (B : Arts K), (applyAssigns B l).lastBuild = B.lastBuild := by
    intro l
    induction l with
    | nil => intro B; rfl
    | cons a l ih => intro B; simp only [applyAssigns, List.foldl_cons] at ih ⊢; rw [ih]; cases a <;> rfl
  rw [h1, h2]

end Crash

/-! ### non-vacuity -/
section NonVacuity
open RimeModel.C12 RimeModel.C12.Ex

/-- a table build with three data blocks, killed after the second: `Load` rejects it -/
example : load true 13 (run ((tableProgram 16 ⟨2, 4096, 64, [100, 200, 300]⟩).take 6) none) = false := by decide

/-- … killed after the tag: `Load` accepts it and the data is complete -/
example : load true 13 (run ((tableProgram 16 ⟨2, 4096, 64, [100, 200, 300]⟩).take 23) none) = true := by decide

/-- a crash state of the example deployment of C12: the first four planned writes done, the prism of `sa`
unloadable; it is consistent and the redeployment theorem applies to it -/
example : Consistent exE exCat
    ([Slot.prism "sa"].foldl dropSlot (applyAssigns (Arts.empty : Arts ExK) ((plan exE exS).take 4))) :=
  crash_state_consistent (exSourcesOK _ (Or.inl rfl)) (exStamped _ (Or.inl rfl)) (consistent_empty exE exCat)
    ⟨4, [Slot.prism "sa"], rfl⟩

end NonVacuity

end C13
