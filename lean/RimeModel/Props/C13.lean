import RimeModel.C13.Lemmas
import RimeModel.C13.Crash
import RimeModel.Props.C12
/-!
# C13 — an interrupted deployment is repaired by the next, never mistaken for complete

Property theorems only.  Models: `RimeModel/C13/Model.lean` (a builder = a sequence of abstract stores on a file,
a kill = any prefix; the order of the stores comes from `RimeModel.Gen.DeployFacts`, regenerated from the source
on every run), `RimeModel/C13/Crash.lean` (crash states of a whole deployment in the terms of the C12 model).

Full statement wanted (kept visible):
```
∀ artefact kind, ∀ prefix of its builder's stores:  Load accepts the file  →  the file is the untouched old one
                                                                              or holds all the data of the new build
```
* proved outright for `table.bin` and `prism.bin` (`table_loadable_complete`, `prism_loadable_complete`) — the
  proofs use the generated facts, so a change of the store order in the source breaks them;
* for `reverse.bin` it holds iff the file is removed before it is rebuilt.  On the tree where
  `reverseRemovedFirst = false` the statement is FALSE (`reverse_loadable_complete_counterexample`: the in-place
  `Resize` keeps the old tag and checksum and may cut the old data); `reverse_loadable_complete_partial` proves
  it for rebuilds whose estimate does not cut the old file;
* for compiled YAML it holds iff the file is not written in place.  On the tree where `yamlSavedInPlace = true`
  it is FALSE (`yaml_loadable_complete_counterexample`): `__build_info` is the first entry emitted, so a prefix
  that stops anywhere after it passes `ConfigNeedsUpdate`.
-/
namespace C13
open RimeModel.C13 RimeModel.Gen

/-- the facts about the source the table / prism theorems rest on (re-read from the source on every run) -/
theorem generated_facts_table_prism :
    DeployFacts.tableRemovedFirst = true ∧ DeployFacts.tableTagLast = true ∧ DeployFacts.tableLoadTestsTag = true ∧
    DeployFacts.prismRemovedFirst = true ∧ DeployFacts.prismTagLast = true ∧ DeployFacts.prismLoadTestsTag = true ∧
    DeployFacts.reverseTagLast = true ∧ DeployFacts.reverseLoadTestsTag = true ∧
    DeployFacts.allocateZeroes = true := by decide

/-- **`table.bin`**: after a kill at any point of `BuildTable` (Remove, Create, Build, Save), a table file that
`Table::Load` accepts is the untouched old file (nothing was done yet) or holds all the data of the new build
under the new checksum — for every build, every tag length and every number `minTag ≥ 1` of tag bytes `Load`
insists on (a partially stored tag that passes follows complete data). -/
theorem table_loadable_complete (tagLen minTag : Nat) (hmin : 1 ≤ minTag) (b : Build) (f0 f : File)
    (h : Reach (tableProgram tagLen b) f0 f) (hl : load DeployFacts.tableLoadTestsTag minTag f = true) :
    f = f0 ∨ ∃ img, f = some img ∧ CompleteData b img := by
  have hf := generated_facts_table_prism
  unfold tableProgram program at h
  simp only [hf.1, hf.2.1, ↓reduceIte, List.append_nil, List.cons_append, List.nil_append, List.append_assoc] at h
  rw [hf.2.2.1] at hl
  exact removed_first_tag_last tagLen minTag hmin b f0 f hf.2.2.2.2.2.2.2.2 h hl

/-- **`prism.bin`**: the same for `BuildPrism`. -/
theorem prism_loadable_complete (tagLen minTag : Nat) (hmin : 1 ≤ minTag) (b : Build) (f0 f : File)
    (h : Reach (prismProgram tagLen b) f0 f) (hl : load DeployFacts.prismLoadTestsTag minTag f = true) :
    f = f0 ∨ ∃ img, f = some img ∧ CompleteData b img := by
  have hf := generated_facts_table_prism
  unfold prismProgram program at h
  simp only [hf.2.2.2.1, hf.2.2.2.2.1, ↓reduceIte, List.append_nil, List.cons_append, List.nil_append,
    List.append_assoc] at h
  rw [hf.2.2.2.2.2.1] at hl
  exact removed_first_tag_last tagLen minTag hmin b f0 f hf.2.2.2.2.2.2.2.2 h hl

/-- **`reverse.bin`, provided the source removes the file before rebuilding it** (the premise is a generated
fact: the check reports it when it is false and replays the counterexample below). -/
theorem reverse_loadable_complete (hrm : DeployFacts.reverseRemovedFirst = true)
    (tagLen minTag : Nat) (hmin : 1 ≤ minTag) (b : Build) (f0 f : File)
    (h : Reach (reverseProgram tagLen b) f0 f) (hl : load DeployFacts.reverseLoadTestsTag minTag f = true) :
    f = f0 ∨ ∃ img, f = some img ∧ CompleteData b img := by
  have hf := generated_facts_table_prism
  unfold reverseProgram program at h
  simp only [hrm, hf.2.2.2.2.2.2.1, ↓reduceIte, List.append_nil, List.cons_append, List.nil_append,
    List.append_assoc] at h
  rw [hf.2.2.2.2.2.2.2.1] at hl
  exact removed_first_tag_last tagLen minTag hmin b f0 f hf.2.2.2.2.2.2.2.2 h hl

/-- **`reverse.bin`, rebuilt in place** (`reverseRemovedFirst = false`): a file that `Load` accepts holds all
the data of the old build or of the new one, *provided the new capacity estimate is not smaller than the old
file* (and the old file, if any, was complete).  What is missing for the full statement: rebuilds that shrink. -/
theorem reverse_loadable_complete_partial (hrm : DeployFacts.reverseRemovedFirst = false)
    (tagLen minTag : Nat) (hmin : 1 ≤ minTag) (b0 b : Build) (f0 f : File)
    (h0 : f0 = none ∨ ∃ img0, f0 = some img0 ∧ CompleteData b0 img0 ∧ img0.size ≤ b.cap)
    (h : Reach (reverseProgram tagLen b) f0 f) (hl : load DeployFacts.reverseLoadTestsTag minTag f = true) :
    ∃ img, f = some img ∧ (CompleteData b0 img ∨ CompleteData b img) := by
  have hf := generated_facts_table_prism
  unfold reverseProgram program at h
  simp only [hrm, hf.2.2.2.2.2.2.1, ↓reduceIte, List.append_nil, List.cons_append, List.nil_append,
    List.append_assoc, Bool.false_eq_true] at h
  rw [hf.2.2.2.2.2.2.2.1] at hl
  exact in_place_tag_last tagLen minTag hmin b0 b f0 f hf.2.2.2.2.2.2.2.2 h0 h hl

/-- **`reverse.bin`, the negation of the full statement on a tree that rebuilds it in place**: a complete old
reverse db of 100 bytes, a rebuild whose estimate is 40 bytes, a kill right after `MappedFile::Create` resized
the file: `Load` accepts it (old tag), its checksum is the old one, and its data is cut. -/
theorem reverse_loadable_complete_counterexample (hrm : DeployFacts.reverseRemovedFirst = false)
    (hcr : DeployFacts.createResizesExisting = true) :
    ∃ (b0 b : Build) (img0 : Img) (f : File), CompleteData b0 img0 ∧ img0.tag = 16 ∧
      Reach (reverseProgram 16 b) (some img0) f ∧ load true 13 f = true ∧
      ∀ img, f = some img → ¬ CompleteData b0 img ∧ ¬ CompleteData b img := by
  refine ⟨⟨1, 120, 10, [50, 100]⟩, ⟨2, 40, 10, [20, 30]⟩, ⟨100, 16, some 1, 2, 100⟩,
    some ⟨40, 16, some 1, 2, 100⟩, ⟨rfl, rfl, by simp⟩, rfl, ⟨1, ?_⟩, by decide, ?_⟩
  · simp [reverseProgram, program, hrm, run, Op.run, hcr]
  · intro img h
    cases h
    simp [CompleteData]

/-! ### compiled YAML -/

/-- **compiled YAML, provided the source does not write it in place** (temporary file + rename): a kill leaves
the old file or the complete new one at the destination. -/
theorem yaml_loadable_complete (hip : DeployFacts.yamlSavedInPlace = false) (doc : Doc) (s0 s : YState)
    (h0 : s0.tmp = none) (h : YReach (saveToFile doc) s0 s) : s.dest = s0.dest ∨ s.dest = some doc := by
  obtain ⟨k, hk⟩ := h
  subst hk
  unfold saveToFile yamlProgram
  simp only [hip, Bool.false_eq_true, ↓reduceIte]
  -- the destination is untouched until the rename, which installs the whole document
  have key : ∀ (l : List (String × Nat)) (acc : Doc) (d : Option Doc) (j : Nat),
      (yrun ((l.map YOp.writeTmp ++ [YOp.rename]).take j) ⟨d, some acc⟩).dest = d ∨
      (yrun ((l.map YOp.writeTmp ++ [YOp.rename]).take j) ⟨d, some acc⟩).dest = some (acc ++ l) := by
    intro l
    induction l with
    | nil =>
      intro acc d j
      cases j with
      | zero => left; rfl
      | succ j => right; simp [yrun, YOp.run]
    | cons e l ih =>
      intro acc d j
      cases j with
      | zero => left; rfl
      | succ j =>
        have := ih (acc ++ [e]) d j
        simpa [yrun, YOp.run, List.append_assoc] using this
  cases k with
  | zero => left; rfl
  | succ k =>
    have := key doc [] s0.dest k
    simpa [yrun, YOp.run, h0] using this

/-- **compiled YAML written in place: the negation of the full statement.**  Witness: a compiled schema with
`__build_info` (value 7 = the timestamps of the current sources) and two more entries; the kill comes after the
second piece reached the file.  The file passes the test `ConfigNeedsUpdate` applies (it parses, its build info
matches the sources), it is neither the old file nor the complete new one, and `engine` is missing. -/
theorem yaml_loadable_complete_counterexample (hip : DeployFacts.yamlSavedInPlace = true) :
    ∃ (doc old : Doc) (s : YState), YReach (saveToFile doc) ⟨some old, none⟩ s ∧
      yload ("__build_info", 7) s.dest = true ∧ s.dest ≠ some old ∧ s.dest ≠ some doc ∧
      ∀ d, s.dest = some d → ("engine", 3) ∉ d := by
  refine ⟨[("__build_info", 7), ("alphabet", 2), ("engine", 3)], [("__build_info", 5), ("alphabet", 1), ("engine", 3)],
    ⟨some [("__build_info", 7), ("alphabet", 2)], none⟩, ⟨3, ?_⟩, by decide, by decide, by decide, ?_⟩
  · simp [saveToFile, yamlProgram, hip, yrun, YOp.run]
  · intro d hd
    cases hd
    decide

/-! ### crash states of a whole deployment -/

section Crash
open RimeModel.C12

variable {K : Type} [DecidableEq K] {cat : Rid → Time → Content}

/-- **Every crash state is consistent** (in the sense of C12): whatever prefix of the planned writes completed
and whichever artefacts the kill left unloadable, every artefact that still loads records the fingerprints of
what it was built from. -/
theorem crash_state_consistent {E : Env K} {S : Src} (hS : SourcesOK E S) (hSt : Stamped cat S) {A X : Arts K}
    (hA : Consistent E cat A) (hX : CrashState A (plan E S) X) : Consistent E cat X := by
  obtain ⟨k, D, rfl⟩ := hX
  apply consistent_drops
  apply Consistent.applyAssigns _ hA
  intro a ha
  exact plan_ok hS hSt a (List.mem_of_mem_take ha)

/-- **The next deployment of the same sources repairs it**: deployed over any crash state, the same sources
give every artefact of a clean deployment, identically, with the same verdict. -/
theorem redeploy_after_crash_eq_clean {E : Env K} (hC : CompilerOK E) (hK : CkOK E) {S : Src} (hS : SourcesOK E S)
    (hSt : Stamped cat S) {A X : Arts K} (hA : Consistent E cat A) (hX : CrashState A (plan E S) X)
    (now now' : Time) :
    AgreeOn (deploy E S now X).1 (deploy E S now' Arts.empty).1 ∧
    (deploy E S now X).2.1 = (deploy E S now' Arts.empty).2.1 :=
  _root_.C12.deploy_eq_clean hC hK hS hSt (crash_state_consistent hS hSt hA hX) now now'

/-- `last_build_time` is written only when the schema loop has finished (`workspaceUpdate` stores it last), so a
crash state never carries a newer one than the staging directory it started from: the quick path
(`DetectModifications`) still fires after a kill. -/
theorem crash_keeps_last_build_time {A X : Arts K} {l : List (Assign K)} (hX : CrashState A l X) :
    X.lastBuild = A.lastBuild := by
  obtain ⟨k, D, rfl⟩ := hX
  have h1 : ∀ (D : List Slot) (B : Arts K), (D.foldl dropSlot B).lastBuild = B.lastBuild := by
    intro D
    induction D with
    | nil => intro B; rfl
    | cons s D ih => intro B; rw [List.foldl_cons, ih]; cases s <;> rfl
  have h2 : ∀ (l : List (Assign K)) (B : Arts K), (applyAssigns B l).lastBuild = B.lastBuild := by
    intro l
    induction l with
    | nil => intro B; rfl
    | cons a l ih => intro B; simp only [applyAssigns, List.foldl_cons] at ih ⊢; rw [ih]; cases a <;> rfl
  rw [h1, h2]

end Crash

/-! ### non-vacuity -/
section NonVacuity
open RimeModel.C12 RimeModel.C12.Ex

/-- a table build with three data blocks, killed after the second: `Load` rejects it -/
example : load true 13 (run ((tableProgram 16 ⟨2, 4096, 64, [100, 200, 300]⟩).take 6) none) = false := by decide

/-- … killed after the tag: `Load` accepts it and the data is complete -/
example : load true 13 (run ((tableProgram 16 ⟨2, 4096, 64, [100, 200, 300]⟩).take 23) none) = true := by decide

/-- a crash state of the example deployment of C12: the first four planned writes done, the prism of `sa`
unloadable; it is consistent and the redeployment theorem applies to it -/
example : Consistent exE exCat
    ([Slot.prism "sa"].foldl dropSlot (applyAssigns (Arts.empty : Arts ExK) ((plan exE exS).take 4))) :=
  crash_state_consistent (exSourcesOK _ (Or.inl rfl)) (exStamped _ (Or.inl rfl)) (consistent_empty exE exCat)
    ⟨4, [Slot.prism "sa"], rfl⟩

end NonVacuity

end C13
