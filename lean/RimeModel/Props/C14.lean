import RimeModel.C14.Lemmas
import RimeModel.C14.CompileLemmas
import RimeModel.C14.Doc
import RimeModel.C14.Scheme
import RimeModel.C14.Custom
/-!
# C14 — config compiler: includes copy, patches apply in order, sources stay untouched

The theorems below fix what the *reference compiler* (`RimeModel.C14.compileDoc`, built from exact
ports of `EditNode`, `MergeTree`, `AppendToString/List`, `CreateReference`, `ResolveListIndex` and the
copy-on-write references) means, for all trees / document sets, without bounds.

PARTIAL.  The full property is: *the C++ `ConfigCompiler` (dependency graph with priorities, pending
children, in-place entry references, copy-on-write references into shared subtrees, plugins) computes
`compileDoc` on every acyclic document set, never alters a document it reads, and terminates on cyclic
ones.*  What is proved here is the reference side: its semantics (include = copy then override;
patches folded in order; set / append / merge / replace at map and list-index keys; directive-free =
identity; result a function of the reachable documents only) and the termination of the
chain-guarded resolution scheme.  That the C++ graph algorithm equals the reference is NOT proved; it
is tied by the differential check `checks/C14.py` (real compiler vs `driver_c14` on generated
document sets, in-memory tree and re-loaded staging file).
-/
namespace C14
open RimeModel.C14

/-! ## `EditNode`: set, append, merge, replace -/

/-- `key: v` (a patch-literal entry whose key is one plain map key): the entry is set, whatever was
there and whatever `v` is; nothing else changes. -/
theorem edit_set {k : Str} (h : PlainKey k) (kvs : Entries) (v : Tree) :
    editNode (.map kvs) [] k v false = ER.good (.map (mapSet kvs k v)) [] := by
  unfold editNode
  simp [isAppending_plain h, isMerging_plain_nomt h, stripOperator_plain h, traverseCow_plain h, assign, setC_one_map h]

/-- A list-index key on a list slot: the element `ResolveListIndex` designates is written
(`ConfigCowRef<ConfigList>::Write`), after inserting a null element there for the `@before`/`@after` forms. -/
theorem edit_set_list_index {key : Str} (hl : isListItemReference key = true) (hs : NoSlash key)
    (xs : List Tree) (v : Tree) :
    editNode (.list xs) [] key v false = ER.good (.list (listWrite xs key v)) [] := by
  have hne : key ≠ [] := by intro e; simp [e, isListItemReference] at hl
  have hna : key ≠ kAppend := by intro e; rw [e] at hl; revert hl; decide
  have hnm : key ≠ kMerge := by intro e; rw [e] at hl; revert hl; decide
  have e1 : Str.endsWith key [47, 43] = false := endsWith_noSlash (q := [43]) hs
  have hk : key ≠ [c_slash] := by intro e; exact hs c_slash (by simp [e]) rfl
  have f1 : Str.eraseLast key [47, 61] = key := by
    have := findLast_noSlash (q := [61]) hs
    simp [Str.eraseLast, c_slash] at this ⊢; simp [this]
  unfold editNode
  simp [isAppending, isMerging, hna, hnm, kAddOp, kEquOp, e1, stripOperator, f1, traverseCow, hne, hk, splitPath,
    trimLeft_noSlash hs, splitOn_noSlash hs, traverseKeys, typeChecked, getC, Tree.isNull, typedOk, hl, Tree.isList,
    assign, setC, writeKey, Tree.asList]

/-- where a list-index key writes, in terms of `ResolveListIndex`: plain forms overwrite (padding with
nulls), insert forms put the value *before* position `i` -/
theorem list_write_forms (xs : List Tree) (key : Str) (v : Tree) :
    listWrite xs key v =
      if (resolveListIndex xs.length key).2
      then (padTo xs (resolveListIndex xs.length key).1).take (resolveListIndex xs.length key).1 ++
            v :: (padTo xs (resolveListIndex xs.length key).1).drop (resolveListIndex xs.length key).1
      else listSetAt xs (resolveListIndex xs.length key).1 v := by
  by_cases hb : (resolveListIndex xs.length key).2 = true
  · simp only [listWrite, hb, if_true]; exact listSetAt_insert xs _ v
  · simp [listWrite, hb]

/-- `@next` appends, `@before 0` prepends, `@last` overwrites the last element, `@2` overwrites element 2,
`@after 1` inserts before position 2 -/
theorem list_index_forms (xs : List Tree) (v : Tree) (h : xs.length < U32) :
    listWrite xs atNext v = xs ++ [v] ∧ listWrite xs atBefore0 v = v :: xs ∧
    listWrite xs at2 v = listSetAt xs 2 v ∧
    listWrite xs atAfter1 v = (padTo xs 2).take 2 ++ v :: (padTo xs 2).drop 2 ∧
    (∀ x ys, xs = x :: ys → listWrite xs atLast v = xs.set ys.length v) := by
  refine ⟨listWrite_next xs v h, listWrite_before0 xs v, listWrite_at2 xs v, listWrite_after1 xs v, ?_⟩
  intro x ys e
  subst e
  exact listWrite_last x ys v h

/-- `key/+: [ys]` on an entry that holds a list appends (the existing list is copied, never mutated) -/
theorem edit_append_list {k : Str} (h : PlainKey k) (kvs : Entries) (xs ys : List Tree) (y : Tree)
    (hx : mapGet kvs k = .list xs) :
    editNode (.map kvs) [] (k ++ kAddOp) (.list (y :: ys)) false
      = ER.good (.map (mapSet kvs k (.list (xs ++ y :: ys)))) [] := by
  unfold editNode
  simp [isAppending_add, isMerging_add, stripOperator_add h, traverseCow_plain h, getC, readKey, h.nl, hx, Tree.isNull,
    appendToString, appendToList, assign, setC_one_map h, ER.good]

/-- `__append: [ys]` edits the patched node itself -/
theorem edit_append_self (xs ys : List Tree) (y : Tree) :
    editNode (.list xs) [] kAppend (.list (y :: ys)) false = ER.good (.list (xs ++ y :: ys)) [] := by
  unfold editNode
  simp [isAppending, isMerging, kAppend, kMerge, kAddOp, Str.endsWith, stripOperator, traverseCow, getC, Tree.isNull,
    appendToString, appendToList, assign, setC, ER.good]

/-- `key/+: "s"` on an entry that holds a scalar concatenates -/
theorem edit_append_string {k : Str} (h : PlainKey k) (kvs : Entries) (e s : Str)
    (hx : mapGet kvs k = .scalar e) :
    editNode (.map kvs) [] (k ++ kAddOp) (.scalar s) false
      = ER.good (.map (mapSet kvs k (.scalar (e ++ s)))) [] := by
  unfold editNode
  simp [isAppending_add, isMerging_add, stripOperator_add h, traverseCow_plain h, getC, readKey, h.nl, hx, Tree.isNull,
    appendToString, assign, setC_one_map h]

/-- appending to an entry that does not exist yet just sets it -/
theorem edit_append_absent {k : Str} (h : PlainKey k) (kvs : Entries) (v : Tree)
    (hx : mapGet kvs k = .null) :
    editNode (.map kvs) [] (k ++ kAddOp) v false = ER.good (.map (mapSet kvs k v)) [] := by
  unfold editNode
  simp [isAppending_add, isMerging_add, stripOperator_add h, traverseCow_plain h, getC, readKey, h.nl, hx, Tree.isNull,
    assign, setC_one_map h]

/-- `key/=: v` replaces the entry, also under `MergeTree` and also when `v` is a map (no merging) -/
theorem edit_replace {k : Str} (h : PlainKey k) (kvs : Entries) (v : Tree) (mt : Bool) :
    editNode (.map kvs) [] (k ++ kEquOp) v mt = ER.good (.map (mapSet kvs k v)) [] := by
  unfold editNode
  cases mt <;>
    simp [isAppending_equ, isMerging_equ, stripOperator_equ h, traverseCow_plain h, typeChecked_plain h, assign,
      setC_one_map h]

/-- `__merge: {…}` merges into the patched node itself: it is `MergeTree` of the slot -/
theorem edit_merge_self (kvs m : Entries) :
    editNode (.map kvs) [] kMerge (.map m) false = mergeEntries (.map kvs) [] m := by
  unfold editNode
  simp [isAppending, isMerging, kAppend, kMerge, kAddOp, Str.endsWith, stripOperator, traverseCow, getC, Tree.isNull,
    ER.fail]

/-- `MergeTree` with a flat map (plain keys, values that are neither null nor maps) sets the keys one
after the other, in key order, and keeps every other entry -/
theorem edit_merge {m : Entries} (hm : Flat m) (kvs : Entries) :
    editNode (.map kvs) [] kMerge (.map m) false = ER.good (.map (setAll kvs m)) [] := by
  rw [edit_merge_self, mergeEntries_flat m hm kvs]

/-- `key/+: {…}` on an entry that holds a map merges into *that entry* (its map is copied on write, the
sibling entries of `key` stay) -/
theorem edit_merge_entry {k : Str} (h : PlainKey k) (kvs old : Entries) (x : Str × Tree) (m : Entries)
    (hm : Flat (x :: m)) (hx : mapGet kvs k = .map old) :
    editNode (.map kvs) [] (k ++ kAddOp) (.map (x :: m)) false
      = ER.good (.map (mapSet kvs k (.map (setAll old (x :: m))))) [] := by
  have hx1 : Flat [x] := fun z hz => hm z (by simp at hz; simp [hz])
  have hr : Flat m := fun z hz => hm z (by simp [hz])
  unfold editNode
  simp [isAppending_add, isMerging_add, stripOperator_add h, traverseCow_plain h, getC, readKey, h.nl, hx, Tree.isNull,
    appendToString, appendToList, ER.fail, mergeEntries_under h m hr kvs old false hx x hx1, ER.good]

/-- under `MergeTree` (an `__include` with sibling keys) a map-valued sibling merges into the included
entry, everything else overwrites it: the flat case -/
theorem merge_tree_flat {m : Entries} (hm : Flat m) (kvs : Entries) :
    mergeTree (.map kvs) [] (.map m) = ER.good (.map (setAll kvs m)) [] := by
  simp [mergeTree, mergeEntries_flat m hm kvs]

/-! ## patches: literal keys in key order, patch entries in list order -/

/-- A patch literal whose keys are plain map keys is the left fold of "set this key" over its entries
in key order (the order of `std::map` iteration): later keys see the effect of earlier ones. -/
theorem patch_literal_flat {m : Entries} (hm : PlainKeys m) (kvs : Entries) :
    patchEntries (.map kvs) [] m = ER.good (.map (setAll kvs m)) [] := by
  induction m generalizing kvs with
  | nil => simp [patchEntries, setAll]
  | cons kv rest ih =>
    obtain ⟨k, v⟩ := kv
    have hk := hm (k, v) (by simp)
    have hr : PlainKeys rest := fun x hx => hm x (by simp [hx])
    unfold patchEntries
    simp [edit_set hk kvs v, ER.good, ih hr, setAll]

/-- `PatchLiteral::Resolve` is a fold: applying the entries `a ++ b` is applying `a`, then `b` to what
`a` left (value and copy-on-write state), for *any* keys and values. -/
theorem patch_entries_fold (base : Tree) (head : Chain) (a b : Entries) :
    (patchEntries base head (a ++ b)).base
        = (patchEntries (patchEntries base head a).base (patchEntries base head a).head b).base ∧
    (patchEntries base head (a ++ b)).head
        = (patchEntries (patchEntries base head a).base (patchEntries base head a).head b).head := by
  induction a generalizing base head with
  | nil => simp [patchEntries, ER.good]
  | cons kv rest ih =>
    obtain ⟨k, v⟩ := kv
    simp only [List.cons_append, patchEntries]
    exact ih _ _

/-- The `__patch` entries of a node are applied in list order: the dependencies `a ++ b` act as `a`
followed by `b` on the slot `a` produced (a failed entry stops the node: the rest is not applied). -/
theorem patches_fold_in_order (docs : Docs) (rec : Rec) (n : NodeId) (pc : RChain) (lits : List Tree)
    (a b : List PDep) (s : Slot) :
    applyPatches docs rec n pc lits (a ++ b) s
      = applyPatches docs rec n pc lits b (applyPatches docs rec n pc lits a s) := by
  induction a generalizing s with
  | nil => rfl
  | cons d ds ih =>
    by_cases h : s.fl.ok = true
    · cases d <;> simp [applyPatches, h, ih]
    · have h' : s.fl.ok = false := by simpa using h
      have hf : ∀ ds : List PDep, applyPatches docs rec n pc lits ds s = s := by
        intro ds; cases ds <;> simp [applyPatches, h']
      simp [hf]

/-- Two literal patches with plain keys on a map slot: the second is applied to the result of the
first, so where both set a key the later patch wins. -/
theorem patches_two_literals (docs : Docs) (rec : Rec) (n : NodeId) (pc : RChain) {l0 l1 : Entries}
    (h0 : PlainKeys l0) (h1 : PlainKeys l1) (kvs : Entries) :
    (applyPatches docs rec n pc [.map l0, .map l1] [.lit 0, .lit 1] { base := .map kvs, head := [], fl := {} }).base
      = .map (setAll (setAll kvs l0) l1) := by
  simp [applyPatches, applyPatchLit, patch_literal_flat h0, patch_literal_flat h1, ER.good, Fl.seq, Fl.ofER]

/-! ## include: copy, then the local entries merged over it -/

/-- `IncludeReference::Resolve` when the reference resolves to `inc`: the slot becomes `inc` — a copy:
values cannot alias — and, if the slot held a non-empty map before (the node's own entries, children
already compiled), those entries are merged over it with `MergeTree`. -/
theorem include_is_copy_then_override (docs : Docs) (rec : Rec) (chain : RChain) (b : Tree) (fl : Fl)
    (ref : Reference) (inc : Tree) (h : (resolveRef docs rec chain ref).val = some inc) :
    (applyInclude docs rec chain { base := b, head := [], fl := fl } ref).base =
      match b.asMap with
      | some (kv :: kvs) => (mergeEntries inc [] (kv :: kvs)).base
      | _ => inc := by
  unfold applyInclude
  simp only [h, getC, setC]
  cases hb : b.asMap with
  | none => simp
  | some l => cases l <;> simp

/-- …and for flat local entries over an included map: the included entries with the local ones set -/
theorem include_flat_override (docs : Docs) (rec : Rec) (chain : RChain) (ov : Entries) (x : Str × Tree)
    (hov : Flat (x :: ov)) (fl : Fl) (ref : Reference) (ikvs : Entries)
    (h : (resolveRef docs rec chain ref).val = some (.map ikvs)) :
    (applyInclude docs rec chain { base := .map (x :: ov), head := [], fl := fl } ref).base
      = .map (setAll ikvs (x :: ov)) := by
  rw [include_is_copy_then_override docs rec chain _ fl ref _ h]
  simp [Tree.asMap, mergeEntries_flat (x :: ov) hov ikvs, ER.good]

/-- an optional reference to a missing target is a no-op on the slot; a non-optional one fails the node -/
theorem include_missing (docs : Docs) (rec : Rec) (chain : RChain) (s : Slot) (ref : Reference)
    (h : (resolveRef docs rec chain ref).val = none) :
    (applyInclude docs rec chain s ref).base = s.base ∧
    ((applyInclude docs rec chain s ref).fl.ok = (s.fl.ok && ref.optional)) := by
  unfold applyInclude
  simp only [h]
  cases ho : ref.optional <;> simp [Fl.seq, Fl.swallow]

/-- The order inside one node: children first (`compileEntries`), then — unless a child failed — the
node's own dependencies (`applyOwn`: include, patches in order, automatic custom patch) on the slot
that holds the compiled children. -/
theorem node_children_then_own (docs : Docs) (rec : Rec) (chain : RChain) (n : NodeId) (kvs : Entries)
    (hc : circular chain n = false) :
    compileNode docs rec chain n false (.map kvs) =
      (let mc := compileEntries rec ({ id := n } :: chain) n.doc n.path kvs {}
       if !mc.fl.ok then { lit := .map mc.data, slot := .map mc.data, fl := mc.fl }
       else { lit := .map mc.data,
              slot := (applyOwn docs rec chain n (.map kvs) mc.lits (.map mc.data) mc.fl).base,
              fl := (applyOwn docs rec chain n (.map kvs) mc.lits (.map mc.data) mc.fl).fl }) := by
  unfold compileNode
  simp [hc]

/-! ## directive-free documents, purity -/

/-- A directive-free document (no `__include` / `__patch` key anywhere; root a map; not a `*.schema`
id, for which the builder adds the default `menu` and `import_preset` expansions by design; no
`<name>.custom` document, or the document is itself a `.custom` one) compiles to itself, and what is
saved is itself minus null entries.  (`__build_info` is left out of `mem` / `saved` by definition.) -/
theorem compile_plain (docs : Docs) (fuel : Nat) (name : Str) (kvs : Entries)
    (hdoc : docs name = some (.map kvs)) (hnd : noDirM kvs = true)
    (hs : Str.endsWith name kDotSchema = false)
    (hc : Str.endsWith name kDotCustom = true ∨ docs (customOf name) = none) :
    compileDocCore docs (fuel + 1) name
      = { loaded := true, mem := .map kvs, saved := some (Tree.map kvs).emitProj, fl := {} } :=
  compile_plain_core docs fuel name kvs hdoc hnd hs hc

/-- The compiled result of `name` is a function of the documents reachable from it through reference
texts (`closure`): changing, adding or removing any other document does not change it. -/
theorem compile_pure (docs docs' : Docs) (cf fuel : Nat) (name : Str)
    (h : ∀ n ∈ closure docs cf [name] [], docs' n = docs n) :
    compileDoc docs' cf fuel name = compileDoc docs cf fuel name :=
  compileDoc_congr docs docs' cf fuel name h

/-- Compiling never alters a document and keeps no state: compiling a list of documents is the map of
compiling each one, so the result for `b` is the same whether or not `a` was compiled before it.  (In
the reference this holds by construction — values cannot alias; for the C++ compiler it is what the
aliasing part of the differential check tests.) -/
theorem compile_independent_of_history (docs : Docs) (cf fuel : Nat) (a b : Str) :
    (compileAll docs cf fuel [a, b]).getLast? = (compileAll docs cf fuel [b]).getLast? := by
  simp [compileAll]

/-! ## termination of chain-guarded resolution -/

/-- The recursion scheme of `ResolveDependencies` — refuse a guarded node, else push it on the chain and
resolve its dependencies — terminates on *every* dependency map over a finite universe of nodes,
cyclic or not, provided a node on the chain is guarded: fuel exceeding the number of universe nodes
not on the chain is never exhausted (so the recursion depth is bounded by the number of nodes). -/
theorem resolve_chain_terminates {α : Type} [DecidableEq α] (deps : α → List α) (guard : List α → α → Bool)
    (hguard : ∀ chain n, n ∈ chain → guard chain n = true) (u : List α)
    (hclosed : ∀ x ∈ u, ∀ d ∈ deps x, d ∈ u) :
    ∀ (fuel : Nat) (chain : List α) (n : α), n ∈ u → freeNodes u chain < fuel →
      (resolveAbs deps guard fuel chain n).isSome = true := by
  intro fuel
  induction fuel with
  | zero => intro chain n _ h; omega
  | succ f ih =>
    intro chain n hn hf
    unfold resolveAbs
    by_cases hg : guard chain n = true
    · simp [hg]
    · simp only [hg, Bool.false_eq_true, if_false]
      have hnc : n ∉ chain := fun hm => hg (hguard chain n hm)
      apply allOpt_isSome
      intro d hd
      apply ih (n :: chain) d (hclosed n hn d hd)
      have := freeNodes_push u chain n hn hnc
      omega

/-- in particular from the empty chain: fuel `|universe| + 1` suffices -/
theorem resolve_fuel_bound {α : Type} [DecidableEq α] (deps : α → List α) (guard : List α → α → Bool)
    (hguard : ∀ chain n, n ∈ chain → guard chain n = true) (u : List α)
    (hclosed : ∀ x ∈ u, ∀ d ∈ deps x, d ∈ u) (n : α) (hn : n ∈ u) :
    (resolveAbs deps guard (u.length + 1) [] n).isSome = true := by
  apply resolve_chain_terminates deps guard hguard u hclosed _ _ _ hn
  have : freeNodes u [] ≤ u.length := by
    unfold freeNodes
    exact List.length_filter_le _ _
  omega

/-- the guard of the reference compiler (`circular`, the port of `HasCircularDependencies`) has the one
property the termination argument needs: a node on the chain is guarded -/
theorem circular_guards_chain (chain : RChain) (n : NodeId) (e : CEntry) (he : e ∈ chain) (hid : e.id = n) :
    circular chain n = true := by
  unfold circular
  rw [List.any_eq_true]
  exact ⟨e, he, by simp [hid, isPrefixOf_refl]⟩

/-! ## the producer of the automatic patch: `CustomSettings` -/

/-- `patch` is an ordinary map key -/
theorem plainKey_patch : PlainKey kPatchKey := ⟨by decide, by decide, by decide, by decide, by decide⟩

/-- `Config::SetItem(k, v)` (= `ConfigData::TraverseWrite`) with one plain map key on a map root sets that entry -/
theorem traverseWrite_plain {k : Str} (h : PlainKey k) (kvs : Entries) (v : Tree) :
    traverseWrite (.map kvs) k v = (.map (mapSet kvs k v), true) := by
  simp [traverseWrite, traverseCow_plain h, assign, setC_one_map h, ER.good]

/-- `TraverseWrite` is the traversal of `EditNode` for a key without operator: writing a customization directly and
applying it as a one-entry patch literal give the same tree -/
theorem traverseWrite_eq_editNode {k : Str} (h : PlainKey k) (kvs : Entries) (v : Tree) :
    (traverseWrite (.map kvs) k v).1 = (editNode (.map kvs) [] k v false).base := by
  rw [traverseWrite_plain h]
  unfold editNode
  simp [isAppending_plain h, isMerging_plain_nomt h, stripOperator_plain h, traverseCow_plain h, assign, setC_one_map h, ER.good]

/-- `Customize(key, item)` on a custom document that has a `patch` map: `key` — taken as ONE map key, slashes and all —
is set to `item` in that map; the other patch entries and the other top-level entries stay -/
theorem customize_sets_patch_key (kvs p : Entries) (hp : mapGet kvs kPatchKey = .map p) (key : Str) (item : Tree) :
    customizeOne (.map kvs) key item = .map (mapSet kvs kPatchKey (.map (mapSet p key item))) := by
  simp [customizeOne, traverse1, hp, Tree.asMap, traverseWrite_plain plainKey_patch]

/-- … and on one whose `patch` is missing or not a map: a new one-entry patch map replaces it -/
theorem customize_fresh (kvs : Entries) (hp : (mapGet kvs kPatchKey).isMap = false) (key : Str) (item : Tree) :
    customizeOne (.map kvs) key item = .map (mapSet kvs kPatchKey (.map [(key, item)])) := by
  have : (mapGet kvs kPatchKey).asMap = none := by
    cases h : mapGet kvs kPatchKey <;> simp_all [Tree.asMap, Tree.isMap]
  simp [customizeOne, traverse1, this, traverseWrite_plain plainKey_patch, mapSet]

/-- … and with no custom document at all: the document `{patch: {key: item}}` -/
theorem customize_no_file (key : Str) (item : Tree) :
    customizeOne .null key item = .map [(kPatchKey, .map [(key, item)])] := by
  simp [customizeOne, traverse1, Tree.asMap, traverseWrite, traverseCow, kPatchKey, c_slash, splitPath, Str.trimLeft,
    Str.splitOn, traverseKeys, typeChecked, getC, Tree.isNull, assign, setC, writeKey, isListItemReference, c_at, mapSet, ER.good]

/-- what the compiler's automatic patch reads afterwards: `patch` with `key` set to `item`, every other key as before -/
theorem customize_read_back (kvs p : Entries) (hp : mapGet kvs kPatchKey = .map p) (key : Str) (item : Tree) :
    traverse1 (customizeOne (.map kvs) key item) kPatchKey = .map (mapSet p key item) := by
  rw [customize_sets_patch_key kvs p hp]
  simp [traverse1, mapGet_mapSet_same]

/-! ## non-vacuity: the hypotheses above are met by concrete, non-trivial values -/

-- a whole CustomSettings session on a name without custom document: signed and saved
example : ((customSession none [([103], [118])] [([107], .scalar [118])]).file.getD .null).beq
    (.map [(kCustomization, .map [([103], .scalar [118])]), (kPatchKey, .map [([107], .scalar [118])])]) = true := by decide

-- nothing customized: nothing saved
example : (customSession none [([103], [118])] []).saved = false := by decide

example : PlainKey Ex.kA := ⟨by decide, by decide, by decide, by decide, by decide⟩

example : Flat [(Ex.kA, .scalar [49])] := by
  intro kv h; simp at h; subst h
  exact ⟨⟨by decide, by decide, by decide, by decide, by decide⟩, rfl, rfl⟩

example : isListItemReference atBefore0 = true ∧ NoSlash atBefore0 := by decide

-- `compile_plain` applies to the directive-free document `b.custom`
example : compileDocCore Ex.docs 1 Ex.kBc
    = { loaded := true, mem := .map [([121], .scalar [50])], saved := some (.map [([121], .scalar [50])]), fl := {} } :=
  compile_plain Ex.docs 0 Ex.kBc _ rfl (by decide) (by decide) (Or.inl (by decide))

-- the hypothesis of `include_is_copy_then_override` is met: `b.custom:/` resolves to that document's root
example : (resolveRef Ex.docs (compile Ex.docs 1) [] (createReference Ex.kA (Ex.kBc ++ [58, 47]))).val
    = some (.map [([121], .scalar [50])]) := by rfl

-- the whole reference on the two-document set: `x` = copy of `b.custom`'s root with `z` merged over it
example : ((compileDoc Ex.docs 10 5 Ex.kA).mem.beq
    (.map [([107], .scalar [118]), ([120], .map [([121], .scalar [50]), ([122], .scalar [49])])])) = true := by decide

-- `compile_pure`: `b.custom` is reachable from `a`, an unrelated name is not
example : Ex.kBc ∈ closure Ex.docs 10 [Ex.kA] [] ∧ ([99] : Str) ∉ closure Ex.docs 10 [Ex.kA] [] := by decide

-- a cyclic dependency map terminates with `false` (circular dependency detected)
example : resolveAbs Ex.cyc (fun c n => decide (n ∈ c)) 3 [] 0 = some false := by decide

end C14
