import RimeModel.C14.Lemmas
import RimeModel.C14.Doc
import RimeModel.C14.Scheme
/-!
# C14 — config compiler: includes copy, patches apply in order, sources stay untouched

The theorems below fix what the *reference compiler* (`RimeModel.C14.compileDoc`, built from exact
ports of `EditNode`, `MergeTree`, `AppendToString/List`, `CreateReference`, `ResolveListIndex` and the
copy-on-write references) means, for all trees / document sets, without bounds.

PARTIAL.  The full property is: *the C++ `ConfigCompiler` (dependency graph with priorities, pending
children, in-place entry references, copy-on-write references into shared subtrees, plugins) computes
`compileDoc` on every acyclic document set, never alters a document it reads, and terminates on cyclic
ones.*  What is proved here is the reference side: its semantics (include = copy then override;
patches folded in order; set / append / merge / replace at map and list-index keys; directive-free =
identity; result a function of the reachable documents only) and the termination of the
chain-guarded resolution scheme.  That the C++ graph algorithm equals the reference is NOT proved; it
is tied by the differential check `checks/C14.py` (real compiler vs `driver_c14` on generated
document sets, in-memory tree and re-loaded staging file).
-/
namespace C14
open RimeModel.C14

/-! ## `EditNode`: set, append, merge, replace -/

/-- `key: v` (a patch-literal entry whose key is one plain map key): the entry is set, whatever was
there and whatever `v` is; nothing else changes. -/
theorem edit_set {k : Str} (h : PlainKey k) (kvs : Entries) (v : Tree) :
    editNode (.map kvs) [] k v false = ER.good (.map (mapSet kvs k v)) [] := by
  unfold editNode
  simp [isAppending_plain h, isMerging_plain_nomt h, stripOperator_plain h, traverseCow_plain h, assign, setC_one_map h]

/-- A list-index key on a list slot: the element `ResolveListIndex` designates is written
(`ConfigCowRef<ConfigList>::Write`), after inserting a null element there for the `@before`/`@after` forms. -/
theorem edit_set_list_index {key : Str} (hl : isListItemReference key = true) (hs : NoSlash key)
    (xs : List Tree) (v : Tree) :
    editNode (.list xs) [] key v false = ER.good (.list (listWrite xs key v)) [] := by
  have hne : key ≠ [] := by intro e; simp [e, isListItemReference] at hl
  have hna : key ≠ kAppend := by intro e; rw [e] at hl; revert hl; decide
  have hnm : key ≠ kMerge := by intro e; rw [e] at hl; revert hl; decide
  have e1 : Str.endsWith key [47, 43] = false := endsWith_noSlash (q := [43]) hs
  have hk : key ≠ [c_slash] := by intro e; exact hs c_slash (by simp [e]) rfl
  have f1 : Str.eraseLast key [47, 61] = key := by
    have := findLast_noSlash (q := [61]) hs
    simp [Str.eraseLast, c_slash] at this ⊢; simp [this]
  unfold editNode
  simp [isAppending, isMerging, hna, hnm, kAddOp, kEquOp, e1, stripOperator, f1, traverseCow, hne, hk, splitPath,
    trimLeft_noSlash hs, splitOn_noSlash hs, traverseKeys, typeChecked, getC, Tree.isNull, typedOk, hl, Tree.isList,
    assign, setC, writeKey, Tree.asList]

/-- where a list-index key writes, in terms of `ResolveListIndex`: plain forms overwrite (padding with
nulls), insert forms put the value *before* position `i` -/
theorem list_write_forms (xs : List Tree) (key : Str) (v : Tree) :
    listWrite xs key v =
      if (resolveListIndex xs.length key).2
      then (padTo xs (resolveListIndex xs.length key).1).take (resolveListIndex xs.length key).1 ++
            v :: (padTo xs (resolveListIndex xs.length key).1).drop (resolveListIndex xs.length key).1
      else listSetAt xs (resolveListIndex xs.length key).1 v := by
  by_cases hb : (resolveListIndex xs.length key).2 = true
  · simp only [listWrite, hb, if_true]; exact listSetAt_insert xs _ v
  · simp [listWrite, hb]

/-- `@next` appends, `@before 0` prepends, `@last` overwrites the last element, `@2` overwrites element 2,
`@after 1` inserts before position 2 -/
theorem list_index_forms (xs : List Tree) (v : Tree) (h : xs.length < U32) :
    listWrite xs atNext v = xs ++ [v] ∧ listWrite xs atBefore0 v = v :: xs ∧
    listWrite xs at2 v = listSetAt xs 2 v ∧
    listWrite xs atAfter1 v = (padTo xs 2).take 2 ++ v :: (padTo xs 2).drop 2 ∧
    (∀ x ys, xs = x :: ys → listWrite xs atLast v = xs.set ys.length v) := by
  refine ⟨listWrite_next xs v h, listWrite_before0 xs v, listWrite_at2 xs v, listWrite_after1 xs v, ?_⟩
  intro x ys e
  subst e
  exact listWrite_last x ys v h

/-- `key/+: [ys]` on an entry that holds a list appends (the existing list is copied, never mutated) -/
theorem edit_append_list {k : Str} (h : PlainKey k) (kvs : Entries) (xs ys : List Tree) (y : Tree)
    (hx : mapGet kvs k = .list xs) :
    editNode (.map kvs) [] (k ++ kAddOp) (.list (y :: ys)) false
      = ER.good (.map (mapSet kvs k (.list (xs ++ y :: ys)))) [] := by
  unfold editNode
  simp [isAppending_add, isMerging_add, stripOperator_add h, traverseCow_plain h, getC, readKey, h.nl, hx, Tree.isNull,
    appendToString, appendToList, assign, setC_one_map h, ER.good]

/-- `__append: [ys]` edits the patched node itself -/
theorem edit_append_self (xs ys : List Tree) (y : Tree) :
    editNode (.list xs) [] kAppend (.list (y :: ys)) false = ER.good (.list (xs ++ y :: ys)) [] := by
  unfold editNode
  simp [isAppending, isMerging, kAppend, kMerge, kAddOp, Str.endsWith, stripOperator, traverseCow, getC, Tree.isNull,
    appendToString, appendToList, assign, setC, ER.good]

/-- `key/+: "s"` on an entry that holds a scalar concatenates -/
theorem edit_append_string {k : Str} (h : PlainKey k) (kvs : Entries) (e s : Str)
    (hx : mapGet kvs k = .scalar e) :
    editNode (.map kvs) [] (k ++ kAddOp) (.scalar s) false
      = ER.good (.map (mapSet kvs k (.scalar (e ++ s)))) [] := by
  unfold editNode
  simp [isAppending_add, isMerging_add, stripOperator_add h, traverseCow_plain h, getC, readKey, h.nl, hx, Tree.isNull,
    appendToString, assign, setC_one_map h]

/-- appending to an entry that does not exist yet just sets it -/
theorem edit_append_absent {k : Str} (h : PlainKey k) (kvs : Entries) (v : Tree)
    (hx : mapGet kvs k = .null) :
    editNode (.map kvs) [] (k ++ kAddOp) v false = ER.good (.map (mapSet kvs k v)) [] := by
  unfold editNode
  simp [isAppending_add, isMerging_add, stripOperator_add h, traverseCow_plain h, getC, readKey, h.nl, hx, Tree.isNull,
    assign, setC_one_map h]

/-- `key/=: v` replaces the entry, also under `MergeTree` and also when `v` is a map (no merging) -/
theorem edit_replace {k : Str} (h : PlainKey k) (kvs : Entries) (v : Tree) (mt : Bool) :
    editNode (.map kvs) [] (k ++ kEquOp) v mt = ER.good (.map (mapSet kvs k v)) [] := by
  unfold editNode
  cases mt <;>
    simp [isAppending_equ, isMerging_equ, stripOperator_equ h, traverseCow_plain h, typeChecked_plain h, assign,
      setC_one_map h]

end C14
