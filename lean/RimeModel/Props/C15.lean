import RimeModel.C15.Lemmas
import RimeModel.C15.Old
import RimeModel.Gen.SessionApi
/-!
# C15 — maintenance excludes sessions and loses no task under any interleaving

Theorems about the two-thread transition system `RimeModel.C15` (`Model.lean`: `Deployer::Run`,
`FinishWork`, `StartWork`, `ScheduleTask`, `NextTask`, `IsWorking`, `IsMaintenanceMode`,
`Service::disabled/CreateSession/GetSession/Notify` and the API calls that drive them, cut at the
`RIME_VERIF_YIELD` points).  `Reach (init script) s` is the reflexive-transitive closure of `step`
over ANY choice of thread at every step: all schedules, no preemption bound, any client script.

Data-race freedom is not a statement about this model (every modelled segment is atomic by
construction); it is exhibited at run time by ThreadSanitizer (see checks/C15.py).
-/
namespace C15
open RimeModel.C15

/-- **E (exclusion), local form.**  In any state in which a worker is running with the
maintenance flag set, a session operation issued by the client (`RimeCreateSession`,
`RimeFindSession`, `RimeGetContext` — everything that goes through `Service::CreateSession` /
`GetSession`) is refused: it reports 0 and changes no session. -/
theorem excl (s : State) (hw : s.working = true) (hf : s.flag = true) (k : OpKind) :
    sessionOp s k = (s.sessions, 0) := by
  simp [sessionOp, State.disabled, State.maintMode, hw, hf]

/-- **E, as a step of the transition system.**  From a reachable state with a running
maintenance worker, the client's next call being a session operation, the call returns 0
("refused") and the set of sessions is unchanged. -/
theorem excl_step {script : List Op} {s s' : State} (_h : Reach (init script) s)
    (hw : s.working = true) (hf : s.flag = true) (hb : s.cpc = .boundary)
    {op : Op} {rest : List Op} (hs : s.script = op :: rest)
    (hop : op = .create ∨ op = .find ∨ op = .ctx) (hstep : step s .client = some s') :
    s'.sessions = s.sessions ∧ s'.live = s.live ∧ ∃ k, s'.log = s.log ++ [.ret k 0] := by
  have hw' : s.worker.working = true := hw
  rcases hop with rfl | rfl | rfl <;>
    simp [step, clientStep, hb, hs, beginOp, sessionOp, State.finishOp, State.disabled, State.maintMode,
      State.working, hw', hf] at hstep <;>
    subst hstep <;> simp [State.live]

/-- **E for maintenance scripts.**  When the client only uses the API's maintenance calls (no
`StartWork(false)` recovery path), the maintenance flag is set whenever a worker is running — at
every position of `Run()`, in particular while any scheduled task executes — so every session
operation is refused for as long as the work thread has not finished. -/
theorem excl_while_worker_runs {script : List Op} (hm : MaintOnly script) {s : State}
    (h : Reach (init script) s) (hw : s.working = true) (k : OpKind) :
    s.maintMode = true ∧ sessionOp s k = (s.sessions, 0) := by
  have hf : s.flag = true := (invM_reach hm h).2.2.1 hw
  exact ⟨by simp [State.maintMode, hw, hf], excl s hw hf k⟩

/-- **E for ANY script, by the mode the work thread was launched with.**  From the launch of a work
thread by a maintenance call (`StartMaintenance()`: start_maintenance, sync_user_data) until that
thread's successful last queue check (`FinishWork()`), whatever the client calls in between —
including `Deployer::StartWork(false)` of the user-dictionary recovery — `maintenance_mode_` stays
true, `is_maintenance_mode` answers true and every session operation is refused: `StartWork` stores
its mode only when `working_` is false, and `working_` is true for exactly that stretch. -/
theorem excl_maintenance_thread {script : List Op} {s : State} (h : Reach (init script) s)
    (hs : s.settled = false) (hm : s.wmode = true) (k : OpKind) :
    s.flag = true ∧ s.maintMode = true ∧ sessionOp s k = (s.sessions, 0) := by
  have hf : s.flag = true := by rw [invF_reach h hs]; exact hm
  have hw : s.working = true := by
    unfold State.settled at hs
    unfold State.working Worker.working
    rcases hw' : s.worker with _ | ⟨pc, f⟩ | _ <;> simp_all
  exact ⟨hf, by simp [State.maintMode, hw, hf], excl s hw hf k⟩

/-- **`sync_user_data` drops the sessions before it hands anything to the deployer**: its first
segment clears `sessions_`; the `ScheduleTask`s and the launch of the maintenance thread come
after, so the maintenance call itself never operates on sessions once its thread runs. -/
theorem sync_drops_sessions_first {s s' : State} (hb : s.cpc = .boundary) {os : List Bool} {rest : List Op}
    (hs : s.script = .sync os :: rest) (hstep : step s .client = some s') :
    s'.sessions = [] ∧ s'.worker = s.worker ∧ s'.queue = s.queue := by
  simp [step, clientStep, hb, hs, beginOp] at hstep
  subst hstep; simp

/-- **E, second half: the service accepts sessions again once the worker has finished.**  With no
worker running (future ready or joined), whatever the flag, in a started service (`started_`, a
state component added with `RimeFinalize` / `RimeInitialize`; see `accepts_after_finish_reach` for the
form without that hypothesis) `create_session` yields a session and `find_session` / `get_context`
succeed iff a session exists. -/
theorem accepts_after_finish (s : State) (hst : s.started = true) (hw : s.working = false) :
    sessionOp s .create = (0 :: s.sessions, 1) ∧
    (sessionOp s .find).1.length = s.live ∧ (sessionOp s .find).2 = (if s.live = 0 then 0 else 1) ∧
    s.maintMode = false := by
  cases hs : s.sessions <;> simp [sessionOp, State.disabled, State.maintMode, State.live, hw, hst, hs]

/-- **The service stays started unless it is finalized.**  In every state reachable by a script
without `RimeFinalize`, `started_` is true. -/
theorem started_unless_finalized {script : List Op} (hn : NoFinalize script) {s : State}
    (h : Reach (init script) s) : s.started = true := (invS_reach hn h).2

/-- **E, second half, over all schedules** (any script that never finalizes — in particular every
script over the calls of the property's quantifier): in every reachable state without a running
worker sessions are accepted. -/
theorem accepts_after_finish_reach {script : List Op} (hn : NoFinalize script) {s : State}
    (h : Reach (init script) s) (hw : s.working = false) :
    sessionOp s .create = (0 :: s.sessions, 1) ∧
    (sessionOp s .find).1.length = s.live ∧ (sessionOp s .find).2 = (if s.live = 0 then 0 else 1) ∧
    s.maintMode = false :=
  accepts_after_finish s (started_unless_finalized hn h) hw

/-- **A stopped service refuses every session operation** (between `RimeFinalize` and the next
`RimeInitialize`), and `RimeInitialize` alone makes it accept again when no maintenance runs. -/
theorem refused_while_stopped (s : State) (hst : s.started = false) (k : OpKind) :
    sessionOp s k = (s.sessions, 0) := by
  simp [sessionOp, State.disabled, hst]

/-- **`RimeFinalize` never returns while a work thread is running**: its step is enabled only when no
worker is running, and afterwards there is no worker, no session, and the service is stopped. -/
theorem finalize_waits {s s' : State} (hb : s.cpc = .boundary) {rest : List Op}
    (hs : s.script = .finalize :: rest) (hstep : step s .client = some s') :
    s.working = false ∧ s'.worker = .idle ∧ s'.live = 0 ∧ s'.started = false := by
  cases hw : s.working with
  | true =>
    have hw' : s.worker.working = true := hw
    simp [step, clientStep, hb, hs, beginOp, State.finishOp, State.working, hw'] at hstep
  | false =>
    have hw' : s.worker.working = false := hw
    simp [step, clientStep, hb, hs, beginOp, State.finishOp, State.working, hw'] at hstep
    subst hstep; simp [State.live]

/-- **Tasks run synchronously through `Deployer::RunTask`** (`RimeRunTask`, `RimeDeployWorkspace`,
`RimeDeploySchema`, `RimeDeployConfigFile`, `RimePrebuildAllSchemas`) never touch the queue, the worker,
the flags or the sessions: the call only reports the conjunction of the task results. -/
theorem run_sync_leaves_queue {s s' : State} (hb : s.cpc = .boundary) {k : OpKind} {os : List Bool}
    {rest : List Op} (hs : s.script = .runSync k os :: rest) (hstep : step s .client = some s') :
    s'.queue = s.queue ∧ s'.worker = s.worker ∧ s'.flag = s.flag ∧ s'.wflag = s.wflag ∧
    s'.live = s.live ∧ s'.log = s.log ++ [.ret k (if os.all id then 1 else 0)] := by
  simp [step, clientStep, hb, hs, beginOp, State.finishOp] at hstep
  subst hstep; simp [State.live]

/-- **A refused session operation leaves no trace on the sessions**: while a maintenance worker
runs, `find_session` / `get_context` do not refresh the activity stamp of the session either, so
which sessions `RimeCleanupStaleSessions` erases after the maintenance does not depend on the
refused calls. -/
theorem refused_keeps_stale {s : State} (hw : s.working = true) (hf : s.flag = true) (k : OpKind) :
    (sessionOp s k).1.filter (fun age => age ≤ lifeSpan) = s.sessions.filter (fun age => age ≤ lifeSpan) := by
  rw [excl s hw hf k]

/-- **T, first half: no task runs twice, tasks run in the order they were scheduled.**  In every
reachable state the scheduled tasks are exactly: those that ran (in order), then the one being
run, then the queue; task ids are distinct, so the execution log has no duplicates. -/
theorem no_task_twice {script : List Op} {s : State} (h : Reach (init script) s) :
    s.scheduled = s.ran ++ s.inflight ++ s.queue ∧ (s.ran.map (·.id)).Nodup ∧ s.ran.Nodup := by
  obtain ⟨h1, h2⟩ := (inv_reach h).1
  have hnd : (s.scheduled.map (·.id)).Nodup := by rw [h2]; exact List.nodup_range
  have hr : (s.ran.map (·.id)).Nodup := by
    rw [h1, List.map_append, List.map_append] at hnd
    exact (List.nodup_append.1 (List.nodup_append.1 hnd).1).1
  exact ⟨h1, hr, List.Pairwise.of_map (·.id) (fun a b hab e => hab (by rw [e])) hr⟩

/-- **T at full strength (API maintenance calls, any script, any schedule).**  Whenever the client
is between two calls and `is_maintenance_mode` would return false, every task ever handed to
`ScheduleTask` has been run (exactly once, by `no_task_twice`) and the queue is empty: no task is
left behind when the service reports that maintenance is over. -/
theorem no_lost_task {script : List Op} (hm : MaintOnly script) {s : State}
    (h : Reach (init script) s) (hb : s.atBoundary = true) (hover : s.maintenanceOver = true) :
    s.queue = [] ∧ s.scheduled = s.ran ∧ s.lostTask = false := by
  have hb' : s.cpc = .boundary := by simpa [State.atBoundary] using hb
  obtain ⟨⟨h1, _⟩, _, hw, hl⟩ := inv_reach h
  have hM := invM_reach hm h
  have hnw : s.working = false := by
    cases hwk : s.working with
    | false => rfl
    | true =>
      have := hM.2.2.1 hwk
      simp [State.maintenanceOver, State.maintMode, hwk, this] at hover
  have hset : s.settled = true := by
    unfold State.working Worker.working at hnw
    unfold State.settled
    rcases hw' : s.worker with _ | ⟨pc, f⟩ | _ <;> simp_all
  have hwf : s.wflag = false := by
    unfold InvW at hw
    rw [hb'] at hw
    cases hf : s.wflag with
    | false => rfl
    | true => have := hw.1 hf; simp [hset] at this
  have hq : s.queue = [] := hl hb' hwf
  have hin : s.inflight = [] := by
    unfold State.working Worker.working at hnw
    unfold State.inflight
    rcases hw' : s.worker with _ | ⟨pc, f⟩ | _ <;> simp_all
  have hsr : s.scheduled = s.ran := by rw [h1, hq, hin]; simp
  exact ⟨hq, hsr, by simp [State.lostTask, hsr]⟩

/-- **T for arbitrary scripts (including the `StartWork(false)` recovery path).**  Whenever the
client is between two calls and no worker is running, everything scheduled has run. -/
theorem no_lost_task_idle {script : List Op} {s : State}
    (h : Reach (init script) s) (hb : s.atBoundary = true) (hnw : s.working = false) :
    s.queue = [] ∧ s.scheduled = s.ran := by
  have hb' : s.cpc = .boundary := by simpa [State.atBoundary] using hb
  obtain ⟨⟨h1, _⟩, _, hw, hl⟩ := inv_reach h
  have hset : s.settled = true := by
    unfold State.working Worker.working at hnw
    unfold State.settled
    rcases hw' : s.worker with _ | ⟨pc, f⟩ | _ <;> simp_all
  have hwf : s.wflag = false := by
    unfold InvW at hw
    rw [hb'] at hw
    cases hf : s.wflag with
    | false => rfl
    | true => have := hw.1 hf; simp [hset] at this
  have hq : s.queue = [] := hl hb' hwf
  have hin : s.inflight = [] := by
    unfold State.working Worker.working at hnw
    unfold State.inflight
    rcases hw' : s.worker with _ | ⟨pc, f⟩ | _ <;> simp_all
  exact ⟨hq, by rw [h1, hq, hin]; simp⟩

/-- **N (notification grammar) for the notifications SENT** (`Service::Notify(0, "deploy", ·)` calls of
the work threads, whether or not a handler is installed at that moment; any script).  In every
reachable state the sequence is a prefix of a word of `(start (success|failure)+)*`, and whenever no
worker is running it IS such a word: every `start` has been followed by at least one result and
nothing follows the last result. -/
theorem sent_grammar {script : List Op} {s : State} (h : Reach (init script) s) :
    (∃ rest, Lang (s.sent ++ rest)) ∧ (s.working = false → Lang s.sent) := by
  have hg := (inv_reach h).2.1
  unfold InvG at hg
  unfold State.working Worker.working
  rcases hw : s.worker with _ | ⟨pc, f⟩ | _
  · simp [hw] at hg; exact ⟨⟨[], by simpa using hg⟩, fun _ => hg⟩
  · cases pc <;> simp [hw] at hg
    · exact ⟨⟨[], by simpa using hg⟩, by simp⟩
    · exact ⟨hg.extends, by simp⟩
    · exact ⟨hg.extends, by simp⟩
    · exact ⟨hg.extends, by simp⟩
    · exact ⟨⟨[], by simpa using hg.2⟩, by simp⟩
    · exact ⟨⟨[], by simpa using hg.2⟩, by simp⟩
  · simp [hw] at hg; exact ⟨⟨[], by simpa using hg⟩, fun _ => hg⟩

/-- **With a handler installed throughout, every notification sent is heard**, in order. -/
theorem heard_all {script : List Op} (hk : KeepsHandler script) {s : State}
    (h : Reach (init script) s) : s.notes = s.sent := (invH_reach hk h).2.2

/-- **N (notification grammar) as seen by the handler.**  For every script that never removes the
handler (`RimeSetNotificationHandler(NULL, …)` was added to the alphabet later; every script of the
earlier alphabet qualifies), in every reachable state the sequence of ("deploy", ·) notifications
the handler has received is a prefix of a word of `(start (success|failure)+)*`, and whenever no
worker is running it IS such a word. -/
theorem notes_grammar {script : List Op} (hk : KeepsHandler script) {s : State}
    (h : Reach (init script) s) :
    (∃ rest, Lang (s.notes ++ rest)) ∧ (s.working = false → Lang s.notes) := by
  rw [heard_all hk h]; exact sent_grammar h

/-- **No deadlock.**  In every state in which the client has not finished its script, some thread
can take a step: the client only ever waits (`join_maintenance_thread`, the `JoinWorkThread()`
inside `StartWork`) for a worker that is running, and a running worker can always proceed. -/
theorem no_deadlock (s : State) (hc : s.script ≠ [] ∨ s.cpc ≠ .boundary) :
    ∃ t s', step s t = some s' := by
  cases hw : s.working with
  | true => obtain ⟨s', h⟩ := worker_enabled hw; exact ⟨.worker, s', h⟩
  | false => obtain ⟨s', h⟩ := client_enabled hw hc; exact ⟨.client, s', h⟩

/-- **`StartWork` never waits for a working worker.**  When the client reaches the
`JoinWorkThread()` inside `StartWork`, the previous worker (if any) has already run its last task
and cleared `working_`: it is gone or only has to return from `Run()`. -/
theorem startwork_join_is_short {script : List Op} {s : State} (h : Reach (init script) s)
    {k : OpKind} {rk : RetKind} (hc : s.cpc = .swJoin k rk) :
    s.worker = .idle ∨ s.worker = .finished ∨ ∃ f, s.worker = .running .exit f := by
  have hw := (inv_reach h).2.2.1
  unfold InvW at hw
  rw [hc] at hw
  have hs := hw.2
  unfold State.settled at hs
  rcases hw' : s.worker with _ | ⟨pc, f⟩ | _ <;> simp_all
  cases pc <;> simp_all

/-! ### "every session operation": the API surface, regenerated from src/rime_api_impl.h -/

/-- **Every API function that reaches a session goes through the guard.**  The table
`Gen.sessionApi` (regenerated from the working tree on every run by gen/c15_session_api.py) lists
every function of rime_api_impl.h with a session argument; none is `unguarded`: each obtains its
session through `Service::GetSession` / `CreateSession` — whose first statement is
`if (disabled()) return …`, the `sessionOp` of the model — or only drops sessions
(`RimeDestroySession`).  So the three session operations of the model stand for all of them. -/
theorem api_session_ops_guarded : ∀ e ∈ RimeModel.Gen.sessionApi, e.2 ≠ .unguarded := by decide

/-- the translator saw as many functions as an independent count of `RimeSessionId session_id`
parameters finds, and at least the session operations the harness drives -/
theorem api_session_count :
    RimeModel.Gen.sessionApi.length = RimeModel.Gen.sessionApiIndependentCount ∧
    3 ≤ RimeModel.Gen.sessionApi.length := by decide

/-! ### history: the defect fixed by 93b9b46, on the model of the OLD code (`Old.lean`) -/

/-- **The old code loses tasks** (negation of `no_lost_task` on the model of the code before the
fix): under `Old.oldSchedule` the three tasks of `sync_user_data` are still queued, never run, when
`is_maintenance_mode` returns false.  The same schedule produced the same trace on the real code
of 0ff38b9 through the yield hooks. -/
theorem old_no_lost_task_counterexample :
    ∃ s, Old.runStrict (Old.init Old.oldScript) Old.oldSchedule = some s ∧
      s.lostTask = true ∧ s.queue.map (·.id) = [3, 4, 5] ∧ s.ran.map (·.id) = [0, 1, 2] ∧
      s.log.getLast? = some (.ret .isMaint 0) := by
  decide

/-! ### non-vacuity -/

/-- a reachable state with a running maintenance worker and the client about to create a session -/
example : ∃ s, Reach (init [.maint [true, false, true], .create]) s ∧ s.working = true ∧ s.flag = true ∧
    s.cpc = .boundary ∧ s.script = [.create] :=
  ⟨_, reach_of_runStrict Reach.refl (l := List.replicate 7 .client ++ [.worker, .worker]) rfl,
    by decide, by decide, by decide, by decide⟩

/-- the hypotheses of `no_lost_task` are met non-trivially: the old counterexample's script and
schedule prefix, continued to the end on the new model, reaches a boundary state with maintenance
over in which six tasks were scheduled — and all six ran -/
example : ∃ s, MaintOnly Old.oldScript ∧ Reach (init Old.oldScript) s ∧ s.atBoundary = true ∧
    s.maintenanceOver = true ∧ s.scheduled.length = 6 ∧ s.ran.map (·.id) = [0, 1, 2, 3, 4, 5] :=
  ⟨(runSchedule Old.oldScript Old.oldSchedule).1, by intro op hop; revert hop; simp [Old.oldScript]; rintro (h | h | h) <;> simp [h, Op.nonMaint],
    reach_of_runStrict Reach.refl (l := (runSchedule Old.oldScript Old.oldSchedule).2) (by decide),
    by decide, by decide, by decide, by decide⟩

/-- a stopped service is reachable, refuses, and accepts again after `RimeInitialize` -/
example : ∃ s, Reach (init [.create, .finalize, .create, .initialize, .create]) s ∧
    s.log = [.ret .create 1, .ret .finalize 2, .ret .create 0, .ret .initialize 2, .ret .create 1] :=
  ⟨_, reach_of_runStrict Reach.refl (l := List.replicate 5 .client) rfl, by decide⟩

/-- a notification sent while no handler is installed is reachable (so `sent` ≠ `notes` in general) -/
example : ∃ s, Reach (init [.clearHandler, .sync [true, true, true]]) s ∧ s.notes = [] ∧
    s.sent = [.start, .success] :=
  ⟨(runSchedule [.clearHandler, .sync [true, true, true]] []).1,
    reach_of_runStrict Reach.refl (l := (runSchedule [.clearHandler, .sync [true, true, true]] []).2) (by decide),
    by decide, by decide⟩

/-- `Lang` is inhabited by a non-trivial word with a late second result -/
example : Lang [.start, .success, .failure, .start, .failure] := by
  have h1 : Lang ([] ++ Note.start :: Note.success :: [Note.failure]) :=
    Lang.block .success [.failure] Lang.nil (by decide) (by decide)
  exact Lang.block (w := [.start, .success, .failure]) .failure [] h1 (by decide) (by simp)

end C15
