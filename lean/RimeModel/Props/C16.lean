import RimeModel.C16.Lemmas
/-!
C16 — sessions are isolated from one another and replay deterministically.  Property theorems only.
Model: RimeModel/C16/Model.lean — the service as an id-keyed map of independent session cores, generic in
the session state / op / observation types; the driver instantiates it with the M-session model.
In a pure model isolation is structural; what could break it in C++ (hidden sharing) is exhibited only by
the transcript comparison — the property is claimed partial (see MANIFEST level_note).
-/
namespace C16
open RimeModel.C16
variable {σ ι ο : Type}

def addressedTo (id : Nat) : Event ι → Bool
  | .create i => i == id
  | .destroy i => i == id
  | .call i _ => i == id

/-- **frame**: an event addressed to another id leaves session `b` exactly as it was -/
theorem frame (fresh : σ) (step : σ → ι → σ × ο) (s : Svc σ) (e : Event ι) (b : Nat) (h : addressedTo b e = false) :
    (Svc.step fresh step s e).1.lookup b = s.lookup b := by
  rw [step_lookup]
  cases e <;> simp_all [addressedTo, track1]

/-- the state of session `id` after ANY trace is a function of the events addressed to `id` alone -/
theorem state_function_of_own_events (fresh : σ) (step : σ → ι → σ × ο) (id : Nat) :
    ∀ (t : List (Event ι)) (s : Svc σ), (Svc.run fresh step s t).1.lookup id = track fresh step id (s.lookup id) t
  | [], s => rfl
  | e :: es, s => by
    show (Svc.run fresh step (Svc.step fresh step s e).1 es).1.lookup id = _
    rw [state_function_of_own_events fresh step id es, step_lookup]
    rfl

theorem track_filter (fresh : σ) (step : σ → ι → σ × ο) (id : Nat) :
    ∀ (t : List (Event ι)) (acc : Option σ), track fresh step id acc t = track fresh step id acc (t.filter (addressedTo id))
  | [], _ => rfl
  | e :: es, acc => by
    unfold track
    simp only [List.foldl_cons, List.filter_cons]
    by_cases h : addressedTo id e = true
    · simp only [h, if_true, List.foldl_cons]
      exact track_filter fresh step id es _
    · have h' : addressedTo id e = false := by simpa using h
      have hno : track1 fresh step id acc e = acc := by
        cases e <;> simp_all [addressedTo, track1]
      simp only [h', Bool.false_eq_true, if_false, hno]
      exact track_filter fresh step id es acc

/-- **isolation**: two traces (any interleavings with other sessions' events, creations and destructions)
that contain the same events for `id` leave session `id` in the same state -/
theorem isolation (fresh : σ) (step : σ → ι → σ × ο) (id : Nat) (t1 t2 : List (Event ι)) (s1 s2 : Svc σ)
    (h0 : s1.lookup id = s2.lookup id) (h : t1.filter (addressedTo id) = t2.filter (addressedTo id)) :
    (Svc.run fresh step s1 t1).1.lookup id = (Svc.run fresh step s2 t2).1.lookup id := by
  rw [state_function_of_own_events, state_function_of_own_events, track_filter _ _ _ t1, track_filter _ _ _ t2, h, h0]

/-- what the client observes from a call to `id` issued after the trace `pre`: the session's own step
on the tracked state — or a refusal when the id is not live.  (Observation = f(own calls).) -/
theorem obs_function_of_own_calls (fresh : σ) (step : σ → ι → σ × ο) (id : Nat) (pre : List (Event ι)) (op : ι)
    (s : Svc σ) :
    (Svc.step fresh step (Svc.run fresh step s pre).1 (.call id op)).2 =
      match track fresh step id (s.lookup id) pre with
      | none => .refused
      | some st => .obs (step st op).2 := by
  rw [← state_function_of_own_events]
  generalize (Svc.run fresh step s pre).1 = s1
  cases hl : s1.lookup id <;> simp [Svc.step, hl]

/-- a session that was created and then only called behaves as if it ran alone -/
theorem created_then_calls_is_solo (fresh : σ) (step : σ → ι → σ × ο) (id : Nat) (ops : List ι) :
    track fresh step id none (.create id :: ops.map (.call id)) = some (solo fresh step ops) := by
  unfold track solo
  simp only [List.foldl_cons, track1, if_true]
  have key : ∀ (ops : List ι) (st : σ), List.foldl (track1 fresh step id) (some st) (ops.map (.call id)) =
      some (ops.foldl (fun st op => (step st op).1) st) := by
    intro ops
    induction ops with
    | nil => intro st; rfl
    | cons op ops ih => intro st; simp only [List.map_cons, List.foldl_cons, track1, if_true, Option.map_some]; exact ih _
  exact key ops fresh

/-- **dead id rejected until reissued**: once `id` is destroyed, every call to it is refused for as long as
no `create id` occurs -/
theorem dead_id_rejected_until_reissued (fresh : σ) (step : σ → ι → σ × ο) (id : Nat) (pre post : List (Event ι))
    (op : ι) (s : Svc σ) (hpost : ∀ e ∈ post, e ≠ .create id) :
    (Svc.step fresh step (Svc.run fresh step s (pre ++ [.destroy id] ++ post)).1 (.call id op)).2 = .refused := by
  rw [obs_function_of_own_calls]
  have : track fresh step id (s.lookup id) (pre ++ [.destroy id] ++ post) = none := by
    unfold track
    rw [List.foldl_append, List.foldl_append]
    simp only [List.foldl_cons, List.foldl_nil, track1, if_true]
    induction post with
    | nil => rfl
    | cons e es ih =>
      simp only [List.foldl_cons]
      have he : e ≠ .create id := hpost e (by simp)
      have h1 : track1 fresh step id none e = none := by
        cases e with
        | create i =>
          have : i ≠ id := fun h => he (by rw [h])
          simp [track1, this]
        | destroy i => simp [track1]
        | call i op => by_cases h : i = id <;> simp [track1, h]
      rw [h1]
      exact ih (fun e' he' => hpost e' (by simp [he']))
  rw [this]

/-- **live ids are pairwise distinct** in every reachable service state -/
theorem ids_distinct (fresh : σ) (step : σ → ι → σ × ο) : ∀ (t : List (Event ι)) (s : Svc σ), s.live.Nodup →
    (Svc.run fresh step s t).1.live.Nodup
  | [], _, h => h
  | e :: es, s, h => by
    show (Svc.run fresh step (Svc.step fresh step s e).1 es).1.live.Nodup
    apply ids_distinct fresh step es
    obtain ⟨l⟩ := s
    cases e with
    | create id =>
      unfold Svc.step
      by_cases hc : (Svc.mk l).live.contains id = true
      · simp only [hc, if_true]; exact h
      · have hc' : (Svc.mk l).live.contains id = false := by simpa using hc
        simp only [hc', Bool.false_eq_true, if_false]
        unfold Svc.live at h hc' ⊢
        simp only [List.map_append, List.map_cons, List.map_nil]
        rw [List.nodup_append]
        refine ⟨h, by simp, ?_⟩
        intro a ha b hb
        simp only [List.mem_singleton] at hb
        subst hb
        intro hab
        subst hab
        have : (List.map (fun x => x.1) l).contains a = true := by simpa using ha
        rw [this] at hc'
        simp at hc'
    | destroy id =>
      unfold Svc.step
      by_cases hc : (Svc.mk l).live.contains id = true
      · simp only [hc, if_true]
        unfold Svc.live at h ⊢
        exact (List.filter_sublist.map _).nodup h
      · have hc' : (Svc.mk l).live.contains id = false := by simpa using hc
        simp only [hc', Bool.false_eq_true, if_false]; exact h
    | call id op =>
      unfold Svc.step
      cases hl : (Svc.mk l).lookup id with
      | none => simp only [hl]; exact h
      | some st =>
        simp only [hl]
        unfold Svc.live at h ⊢
        have : (setAt l id (step st op).1).map (·.1) = l.map (·.1) := by
          unfold setAt
          rw [List.map_map]
          apply List.map_congr_left
          intro p _
          simp only [Function.comp]
          split <;> rfl
        rw [this]; exact h

/-- non-vacuity: two sessions interleaved; session 1's counter sees only its own increments -/
example :
    let step : Nat → Nat → Nat × Nat := fun st n => (st + n, st + n)
    (Svc.run 0 step {} [.create 1, .create 2, .call 1 5, .call 2 7, .call 1 1, .destroy 2, .call 2 3]).2 =
      [.created true, .created true, .obs 5, .obs 7, .obs 6, .destroyed true, .refused] := by decide

end C16
