import RimeModel.C17.Model
import RimeModel.C17.Codec
import RimeModel.C17.MergeLemmas
import RimeModel.C17.MergeFacts
import RimeModel.C17.RestoreLemmas
import RimeModel.C17.Instances
import RimeModel.C17.Sorted
import RimeModel.C17.World
/-!
C17 — user dictionary sync merges without loss and snapshots round-trip.  Property theorems only.

Model: RimeModel/C17/Model.lean (line-by-line port of user_db.cc, tsv.cc, db_utils.cc, table_db.cc, the Db
interface of level_db.cc, user_dict_manager.cc).  `O : DeeOps D` are the operations the code applies to the
`double dee`, left abstract; `L : LawfulDee O` the laws assumed of them (RimeModel/C17/Codec.lean), satisfied
by the exact instance `natDee` (`natLawful`) and — on finite, non-NaN values — by IEEE doubles with the
codec of the current source.  All statements are for dictionaries of any size.

Vocabulary: `commitsAt O db k` = commit count stored under `k` (0 when absent); `tickCount db` = the
dictionary's tick as `get_tick_count` reads it (1 when missing/unreadable); `theirTick temp` = the snapshot's
`/tick` (0 when missing/unreadable); data keys are the keys ≥ " " (`bytesLt k [32] = false`), which is what
`QueryAll` iterates; `mergeDb O uid m0 dest temp` = `DbSource(temp) >> UserDbMerger(dest)` followed by
`CloseMerge`, `m0` being the value `merged_entries_` starts with (0 since commit 4aee41f).
"Unique keys" hypotheses (`(db.map (·.1)).Nodup`) say the association list is a map, as a real store is.
-/
namespace C17
open RimeModel.C17

variable {D : Type} {O : DeeOps D}

/-- Value codec round trip: unpacking what `Pack` wrote for a value with an `int` count and an
`unsigned long` tick overwrites every field of the receiving object with the packed one — dee as its text
reads back (`L.norm`) — and reports success. -/
theorem unpack_pack (L : LawfulDee O) (v0 v : Value D) (hc : IntRange v.commits) (ht : v.tick < ulongLim) :
    unpackInto O v0 (pack O v) = (⟨v.commits, L.norm v.dee, v.tick⟩, true) :=
  unpackInto_pack L v0 v hc ht

/-- …in particular the values `Unpack` itself can produce (and so everything the merger and the importer
write) survive `Pack`/`Unpack` with count and tick intact. -/
theorem unpack_pack_unpacked (L : LawfulDee O) (s : Bytes) :
    (unpack O (pack O (unpack O s))).commits = (unpack O s).commits ∧
    (unpack O (pack O (unpack O s))).tick = (unpack O s).tick := by
  rw [unpack_pack_eq L (unpack O s) (unpack_ok s).1 (unpack_ok s).2]
  exact ⟨rfl, rfl⟩

/-- Backup then restore reproduces every entry: for a dictionary with unique, well-formed keys whose values
are clean (as `Pack` writes them: `pack_is_clean`) and whose metadata holds no newline, restoring its snapshot
into a dictionary `db0` yields, under every data key, exactly the stored value of the source — key, commit
count, everything — and leaves `db0`'s own entries only where the source has none.  With `db0` free of data
entries (an empty dictionary) the data part equals the source's. -/
theorem restore_backup (src db0 : Db) (hn : (src.map (·.1)).Nodup)
    (hd : ∀ e ∈ src.queryAll, WFKey e.1 ∧ CleanValue e.2)
    (hm : ∀ e ∈ src.queryMeta, 10 ∉ e.1 ∧ 10 ∉ e.2)
    (h0 : ∀ k, bytesLt k [32] = false → db0.fetch k = none)
    (k : Bytes) (hk : bytesLt k [32] = false) :
    (uniformRestore db0 (uniformBackup src)).fetch k = src.fetch k ∧
    commitsAt O (uniformRestore db0 (uniformBackup src)) k = commitsAt O src k := by
  have h := restore_backup_fetch src db0 hn hd hm k hk
  have e : (uniformRestore db0 (uniformBackup src)).fetch k = src.fetch k := by
    rw [h]
    cases hs : src.fetch k with
    | some v => rfl
    | none => simpa using h0 k hk
  exact ⟨e, by simp [commitsAt, e]⟩

/-- every value `Pack` writes is clean in the sense `restore_backup` needs -/
theorem pack_is_clean (L : LawfulDee O) (v : Value D) : CleanValue (pack O v) := pack_clean L v

/-- A merge never removes an entry: every key of the dictionary (data or metadata) and every data key of the
snapshot is present afterwards — whatever `merged_entries_` started with. -/
theorem merge_keeps_keys (uid : Bytes) (m0 : Int) (dest temp : Db) (k : Bytes) :
    ((dest.fetch k).isSome → ((mergeDb O uid m0 dest temp).fetch k).isSome) ∧
    (k ∈ temp.queryAll.map (·.1) → ((mergeDb O uid m0 dest temp).fetch k).isSome) := by
  have hi := init_metaAll dest m0 temp.queryMeta
  simp only at hi
  constructor
  · intro h
    rw [mergeDb_eq]
    apply close_keeps
    apply putAll_keeps
    rw [hi.1]; exact h
  · intro h
    rw [mergeDb_eq]
    apply close_keeps
    exact putAll_adds _ _ _ h

/-- No entry appears from nowhere: a data key present after the merge was in the dictionary or in the snapshot. -/
theorem merge_no_new_keys (uid : Bytes) (m0 : Int) (dest temp : Db) (k : Bytes) (hk : bytesLt k [32] = false)
    (h : ((mergeDb O uid m0 dest temp).fetch k).isSome) :
    (dest.fetch k).isSome ∨ k ∈ temp.queryAll.map (·.1) := by
  by_cases hin : k ∈ temp.queryAll.map (·.1)
  · exact Or.inr hin
  · rw [mergeDb_fetch_notin uid m0 dest temp k (not_meta_of_data hk) hin] at h
    exact Or.inl h

/-- Merged magnitude: under every data key the commit count after the merge has the larger magnitude of the
two sides (absent = 0); entries present on one side only keep their count.  (Counts are mathematical integers
here; the C++ `std::abs` agrees except at INT_MIN, which is excluded from the property.) -/
theorem merge_abs_max (L : LawfulDee O) (uid : Bytes) (m0 : Int) (dest temp : Db) (hn : (temp.map (·.1)).Nodup)
    (k : Bytes) (hk : bytesLt k [32] = false) :
    (commitsAt O (mergeDb O uid m0 dest temp) k).natAbs =
      max (commitsAt O dest k).natAbs (commitsAt O temp k).natAbs := by
  by_cases hin : k ∈ temp.queryAll.map (·.1)
  · obtain ⟨e, he, hek⟩ := List.mem_map.mp hin
    obtain ⟨k', v⟩ := e
    simp only at hek
    subst hek
    have hf := mergeDb_fetch_in (O := O) uid m0 dest temp hn k' v he
    have htf : temp.fetch k' = some v := fetch_of_mem_nodup hn (mem_queryAll.mp he).1
    have hok : (mergedValue O dest temp k' v).Ok := mergeValue_ok _ _ _ (mergedTick_lt dest temp) _ _
    have hc : commitsAt O (mergeDb O uid m0 dest temp) k' = (mergedValue O dest temp k' v).commits := by
      simp [commitsAt, hf, unpack_pack_eq L _ hok.1 hok.2]
    rw [hc, mergedValue, mergeValue_commits]
    simp only [commitsAt, htf]
    cases dest.fetch k' with
    | none => simp only; split <;> omega
    | some s => simp only; split <;> omega
  · have hf := mergeDb_fetch_notin (O := O) uid m0 dest temp k (not_meta_of_data hk) hin
    have ht : temp.fetch k = none := by
      cases h : temp.fetch k with
      | none => rfl
      | some v =>
        exact absurd (List.mem_map_of_mem (f := (·.1)) (mem_queryAll.mpr ⟨fetch_mem h, hk⟩)) hin
    simp [commitsAt, hf, ht]

/-- A merge never lowers the magnitude of a commit count. -/
theorem merge_abs_monotone (L : LawfulDee O) (uid : Bytes) (m0 : Int) (dest temp : Db)
    (hn : (temp.map (·.1)).Nodup) (k : Bytes) (hk : bytesLt k [32] = false) :
    (commitsAt O dest k).natAbs ≤ (commitsAt O (mergeDb O uid m0 dest temp) k).natAbs ∧
    (commitsAt O temp k).natAbs ≤ (commitsAt O (mergeDb O uid m0 dest temp) k).natAbs := by
  rw [merge_abs_max L uid m0 dest temp hn k hk]
  omega

/-- Tick: after merging a snapshot with at least one entry (and `merged_entries_` starting at 0) the
dictionary's tick is the maximum of its own and the snapshot's, and the merging user's id is recorded. -/
theorem merge_tick_max (uid : Bytes) (dest temp : Db) (hn : (temp.map (·.1)).Nodup) (hne : temp.queryAll ≠ []) :
    tickCount (mergeDb O uid 0 dest temp) = max (tickCount dest) (theirTick temp) ∧
    (mergeDb O uid 0 dest temp).metaFetch kUserId = some uid := by
  refine ⟨?_, mergeDb_userId_record uid dest temp hne⟩
  rw [mergeDb_tickCount uid dest temp hne, mergedTick, theirTickOf_eq temp hn]

/-- …and every merged entry carries that tick. -/
theorem merge_entry_tick (L : LawfulDee O) (uid : Bytes) (m0 : Int) (dest temp : Db) (hn : (temp.map (·.1)).Nodup)
    (k v : Bytes) (hkv : (k, v) ∈ temp.queryAll) :
    ∃ s, (mergeDb O uid m0 dest temp).fetch k = some s ∧
      (unpack O s).tick = max (tickCount dest) (theirTick temp) := by
  refine ⟨_, mergeDb_fetch_in uid m0 dest temp hn k v hkv, ?_⟩
  have hok : (mergedValue O dest temp k v).Ok := mergeValue_ok _ _ _ (mergedTick_lt dest temp) _ _
  rw [unpack_pack_eq L _ hok.1 hok.2]
  simp only [mergedValue, mergeValue, mergedTick, theirTickOf_eq temp hn]

/-- Merging a snapshot without entries changes nothing (with `merged_entries_` starting at 0). -/
theorem merge_empty (uid : Bytes) (dest temp : Db) (he : temp.queryAll = []) :
    mergeDb O uid 0 dest temp = dest := mergeDb_empty uid dest temp he

/-- Idempotence: merging the same snapshot a second time changes nothing — under every key (data and
metadata) the dictionary holds the same bytes as after the first merge: same keys, counts, ticks, and the
same dee text, for any decay function of a lawful dee codec. -/
theorem merge_idempotent (L : LawfulDee O) (uid : Bytes) (dest temp : Db) (hn : (temp.map (·.1)).Nodup)
    (k : Bytes) :
    (mergeDb O uid 0 (mergeDb O uid 0 dest temp) temp).fetch k = (mergeDb O uid 0 dest temp).fetch k := by
  by_cases hne : temp.queryAll = []
  · rw [mergeDb_empty uid _ temp hne]
  · -- ticks of the second merge
    have ht2 : tickCount (mergeDb O uid 0 dest temp) = mergedTick dest temp := mergeDb_tickCount uid dest temp hne
    have hm2 : mergedTick (mergeDb O uid 0 dest temp) temp = mergedTick dest temp := by
      unfold mergedTick at ht2 ⊢
      rw [ht2]
      exact Nat.max_eq_left (Nat.le_max_right _ _)
    by_cases hin : k ∈ temp.queryAll.map (·.1)
    · obtain ⟨e, he, hek⟩ := List.mem_map.mp hin
      obtain ⟨k', v⟩ := e
      simp only at hek
      subst hek
      rw [mergeDb_fetch_in uid 0 _ temp hn k' v he, mergeDb_fetch_in uid 0 dest temp hn k' v he]
      congr 1
      -- the record of the second merge
      have hok : (mergedValue O dest temp k' v).Ok := mergeValue_ok _ _ _ (mergedTick_lt dest temp) _ _
      have hours : ourValue O (mergedTick dest temp) (some (pack O (mergedValue O dest temp k' v))) =
          ⟨(mergedValue O dest temp k' v).commits, L.norm (mergedValue O dest temp k' v).dee,
            mergedTick dest temp⟩ := by
        have hb : oursBase O (some (pack O (mergedValue O dest temp k' v))) =
            ⟨(mergedValue O dest temp k' v).commits, L.norm (mergedValue O dest temp k' v).dee,
              mergedTick dest temp⟩ := by
          simp only [oursBase, unpack_pack_eq L _ hok.1 hok.2]
          rfl
        rw [ourValue, hb, decayTo_of_ge]
        simp
      have h2 : mergedValue O (mergeDb O uid 0 dest temp) temp k' v =
          ⟨(mergedValue O dest temp k' v).commits,
            O.max (L.norm (mergedValue O dest temp k' v).dee) (theirValue O (theirTickOf temp.queryMeta) v).dee,
            mergedTick dest temp⟩ := by
        rw [mergedValue, mergeDb_fetch_in uid 0 dest temp hn k' v he, ht2, hm2]
        simp only [mergeValue, hours]
        congr 1
        -- the count does not move: ours already has the larger magnitude
        have hc := mergeValue_commits (O := O) (tickCount dest) (theirTickOf temp.queryMeta) (mergedTick dest temp)
          (dest.fetch k') v
        simp only at hc
        rw [theirValue_commits]
        simp only [mergedValue, hc]
        split <;> split <;> first | rfl | omega
      rw [h2]
      have hd : O.render (O.max (L.norm (mergedValue O dest temp k' v).dee)
            (theirValue O (theirTickOf temp.queryMeta) v).dee) =
          O.render (mergedValue O dest temp k' v).dee := by
        simp only [mergedValue, mergeValue]
        exact render_max_again L (ourValue_stable L _ _) (theirValue_stable L _ _)
      simp only [pack, hd]
      rfl
    · by_cases h1 : k = 1 :: kTick
      · subst h1
        have a := mergeDb_tick_record (O := O) uid (mergeDb O uid 0 dest temp) temp hne
        have b := mergeDb_tick_record (O := O) uid dest temp hne
        simp only [Db.metaFetch] at a b
        rw [a, b, hm2]
      · by_cases h2 : k = 1 :: kUserId
        · subst h2
          have a := mergeDb_userId_record (O := O) uid (mergeDb O uid 0 dest temp) temp hne
          have b := mergeDb_userId_record (O := O) uid dest temp hne
          simp only [Db.metaFetch] at a b
          rw [a, b]
        · rw [mergeDb_fetch_other uid _ temp hne k h1 h2 hin]

/-- Merging into a dictionary without the key reproduces the snapshot's count (so `UserDictManager::Restore`
into an empty dictionary reproduces every key and count as well). -/
theorem merge_into_absent (L : LawfulDee O) (uid : Bytes) (m0 : Int) (dest temp : Db) (hn : (temp.map (·.1)).Nodup)
    (k : Bytes) (hk : bytesLt k [32] = false) (habs : dest.fetch k = none) :
    commitsAt O (mergeDb O uid m0 dest temp) k = commitsAt O temp k := by
  by_cases hin : k ∈ temp.queryAll.map (·.1)
  · obtain ⟨e, he, hek⟩ := List.mem_map.mp hin
    obtain ⟨k', v⟩ := e
    simp only at hek
    subst hek
    have hf := mergeDb_fetch_in (O := O) uid m0 dest temp hn k' v he
    have htf : temp.fetch k' = some v := fetch_of_mem_nodup hn (mem_queryAll.mp he).1
    have hok : (mergedValue O dest temp k' v).Ok := mergeValue_ok _ _ _ (mergedTick_lt dest temp) _ _
    have hc : commitsAt O (mergeDb O uid m0 dest temp) k' = (mergedValue O dest temp k' v).commits := by
      simp [commitsAt, hf, unpack_pack_eq L _ hok.1 hok.2]
    rw [hc, mergedValue, mergeValue_commits]
    simp only [commitsAt, htf, habs]
    split
    · rfl
    · next h => simp only [Int.natAbs_zero] at h; omega
  · have hf := mergeDb_fetch_notin (O := O) uid m0 dest temp k (not_meta_of_data hk) hin
    have ht : temp.fetch k = none := by
      cases h : temp.fetch k with
      | none => rfl
      | some v =>
        exact absurd (List.mem_map_of_mem (f := (·.1)) (mem_queryAll.mpr ⟨fetch_mem h, hk⟩)) hin
    simp [commitsAt, hf, ht, habs]

/-- Import rules (`UserDbImporter::Put`): importing count `c` for a key gives max(old, c) when c > 0, marks the
entry deleted — min(c, −|old|) — when c < 0, leaves the count alone when c = 0; the entry's tick is kept, no
other key is touched, and the key exists afterwards. -/
theorem import_rules (L : LawfulDee O) (db : Db) (k value : Bytes) :
    let db' := ((importerSink O).put db k value).1
    let c := (unpack O value).commits
    let oc := commitsAt O db k
    commitsAt O db' k = (if c > 0 then max oc c else if c < 0 then min c (-(oc.natAbs : Int)) else oc) ∧
    (∃ s, db'.fetch k = some s ∧ (unpack O s).tick = (oursBase O (db.fetch k)).tick) ∧
    (∀ k', k' ≠ k → db'.fetch k' = db.fetch k') := by
  have hocr : IntRange (oursBase O (db.fetch k)).commits := (oursBase_ok _).1
  have hcr : IntRange (unpack O value).commits := (unpack_ok value).1
  have hoc : commitsAt O db k = (oursBase O (db.fetch k)).commits := by
    simp only [commitsAt, oursBase]
    cases db.fetch k <;> rfl
  have hok : (importValue O (db.fetch k) value).Ok := by
    unfold importValue
    split
    · refine ⟨?_, (oursBase_ok _).2⟩
      simp only [IntRange, intMin, intMax] at hocr hcr ⊢
      omega
    · split
      · refine ⟨?_, (oursBase_ok _).2⟩
        simp only [IntRange, intMin, intMax] at hocr hcr ⊢
        omega
      · exact oursBase_ok _
  have hu := unpack_pack_eq L (importValue O (db.fetch k) value) hok.1 hok.2
  simp only [importerSink]
  refine ⟨?_, ⟨_, fetch_update_same _ _ _, ?_⟩, fun k' h => fetch_update_other _ _ _ _ h⟩
  · rw [hoc]
    have hl : commitsAt O (db.update k (pack O (importValue O (db.fetch k) value))) k =
        (importValue O (db.fetch k) value).commits := by
      simp only [commitsAt, fetch_update_same, hu]
    rw [hl]
    unfold importValue
    split
    · rfl
    · split <;> rfl
  · rw [hu]
    unfold importValue
    split
    · rfl
    · split <;> rfl

/-- The row parser of the text import: a row `text <Tab> code <Tab> weight` whose weight `std::stoi` reads as
`c` is imported under the key `trim(code) ␠ <Tab> text` with count `c`. -/
theorem import_row (L : LawfulDee O) (text code w : Bytes) (rest : List Bytes) (c : Int) (ht : text ≠ [])
    (hcode : code ≠ []) (hw : w ≠ []) (hc : stoi w = some c) :
    ∃ value, tableParser O (text :: code :: w :: rest) = some (trim code ++ [32, 9] ++ text, value) ∧
      (unpack O value).commits = c := by
  refine ⟨pack O ⟨c, O.ofCount c, 0⟩, by simp [tableParser, tableValue, ht, hcode, hw, hc], ?_⟩
  rw [unpack_pack_eq L ⟨c, O.ofCount c, 0⟩ (stoi_range hc) (by simp [ulongLim])]

/-- An import never removes an entry, whatever the file contains. -/
theorem import_keeps_keys (p : Parser) (db : Db) (file : Bytes) (k : Bytes) (h : (db.fetch k).isSome) :
    (((tsvRead p (importerSink O) db file).st).fetch k).isSome := by
  unfold tsvRead
  generalize linesOf file = ls
  suffices ∀ r : RState Db, (r.st.fetch k).isSome → ((ls.foldl (readLine p (importerSink O)) r).st.fetch k).isSome from
    this ⟨db, true, 0⟩ h
  induction ls with
  | nil => intro r hr; exact hr
  | cons l rest ih =>
    intro r hr
    simp only [List.foldl_cons]
    apply ih
    unfold readLine
    simp only
    split
    · exact hr
    · split
      · split
        · split
          · simpa [importerSink] using hr
          · exact hr
        · split
          · exact hr
          · exact hr
      · split
        · exact hr
        · simp only [importerSink, fetch_update]
          split
          · rfl
          · exact hr

/-- The store is a map: `Update` keeps the keys strictly increasing in byte order (the order LevelDB iterates
in), hence unique — so the "unique keys" hypotheses above hold for every dictionary built from the empty one. -/
theorem store_sorted (db : Db) (k v : Bytes) (h : db.Sorted) :
    (db.update k v).Sorted ∧ ((db.update k v).map (·.1)).Nodup :=
  ⟨update_sorted db k v h, sorted_nodup (update_sorted db k v h)⟩

/-- …and a merge of anything into an ordered dictionary leaves it ordered. -/
theorem merge_sorted (uid : Bytes) (m0 : Int) (dest temp : Db) (h : dest.Sorted) :
    (mergeDb O uid m0 dest temp).Sorted := by
  have hi := init_metaAll dest m0 temp.queryMeta
  simp only at hi
  have hp : ∀ (es : List (Bytes × Bytes)) (m : Merger), m.db.Sorted → (Merger.putAll O m es).db.Sorted := by
    intro es
    induction es with
    | nil => intro m hm; exact hm
    | cons e r ih =>
      intro m hm
      simp only [Merger.putAll, List.foldl_cons]
      apply ih
      rw [(put_fields m e.1 e.2).2.2.2.2]
      exact update_sorted _ _ _ hm
  rw [mergeDb_eq]
  unfold Merger.close
  split
  · exact hp _ _ (by rw [hi.1]; exact h)
  · exact update_sorted _ _ _ (update_sorted _ _ _ (hp _ _ (by rw [hi.1]; exact h)))

/-! ### non-vacuity: the hypotheses are met by concrete, non-trivial dictionaries -/

/-- key "a \tb" -/
private def kAB : Bytes := [97, 32, 9, 98]
/-- key "ni hao \t你好" -/
private def kNH : Bytes := [110, 105, 32, 104, 97, 111, 32, 9, 228, 189, 160, 229, 165, 189]
/-- ours: tick 9, "a \tb" ↦ c=1 d=4 t=5 ; "ni hao \t你好" ↦ c=-7 d=2 t=1 -/
private def exDest : Db :=
  [(1 :: kTick, [57]), (kAB, [99, 61, 49, 32, 100, 61, 52, 32, 116, 61, 53]),
   (kNH, [99, 61, 45, 55, 32, 100, 61, 50, 32, 116, 61, 49])]
/-- theirs: tick 50, "a \tb" ↦ c=3 d=8 t=40 -/
private def exTemp : Db := [(1 :: kTick, [53, 48]), (kAB, [99, 61, 51, 32, 100, 61, 56, 32, 116, 61, 52, 48])]

example : (exTemp.map (·.1)).Nodup := by decide
example : exTemp.queryAll ≠ [] := by decide
example : bytesLt kAB [32] = false := by decide
/-- the merged count under "a \tb" is 3 = max |1| |3|, the tick 50 = max 9 50, computed with the lawful `natDee` -/
example : commitsAt natDee (mergeDb natDee [65] 0 exDest exTemp) kAB = 3 ∧
    tickCount (mergeDb natDee [65] 0 exDest exTemp) = 50 ∧
    commitsAt natDee (mergeDb natDee [65] 0 exDest exTemp) kNH = -7 := by decide
example : ∀ e ∈ exDest.queryAll, WFKey e.1 ∧ CleanValue e.2 := by
  intro e he
  have : e = (kAB, [99, 61, 49, 32, 100, 61, 52, 32, 116, 61, 53]) ∨
      e = (kNH, [99, 61, 45, 55, 32, 100, 61, 50, 32, 116, 61, 49]) := by
    simpa [exDest, Db.queryAll, bytesLt, kAB, kNH, kTick] using he
  rcases this with rfl | rfl
  · exact ⟨⟨[97, 32], [98], by decide⟩, by decide, by decide, ⟨[99, 61, 49, 32, 100, 61, 52, 32, 116, 61], 53, by decide⟩⟩
  · exact ⟨⟨[110, 105, 32, 104, 97, 111, 32], [228, 189, 160, 229, 165, 189], by decide⟩, by decide, by decide,
      ⟨[99, 61, 45, 55, 32, 100, 61, 50, 32, 116, 61], 49, by decide⟩⟩
/-- and the snapshot of that dictionary really restores to it (computed) -/
example : (uniformRestore [] (uniformBackup exDest)).fetch kNH = exDest.fetch kNH := by decide

/-! ### documented history: the two defects this property found in the tree before the fixes -/

/-- Before commit 4aee41f `merged_entries_` had no initialiser.  With the counter starting at −1 (storage
holding 0xFF bytes) a one-entry merge leaves the dictionary's tick at 9 although the snapshot's is 50:
`merge_tick_max` needs the initialisation. (Replayed on the real code by the `pmerge … 255` op.) -/
theorem old_merged_entries_uninit_counterexample :
    tickCount (mergeDb natDee [65] (-1) exDest exTemp) ≠ max (tickCount exDest) (theirTick exTemp) := by
  decide

/-- Before commit 8bf60d2 `Unpack` read dee with `std::stod`, which rejects the subnormal numbers `Pack` can
write: a dee codec whose `read` refuses a text its `render` produces (`oldDee`: texts "1"…"7") is not lawful,
and idempotence fails.  Witness: ours "a \tb" ↦ c=1 d=16 t=0 at dictionary tick 3, snapshot "a \tb" ↦ c=1 d=0
t=0: the first merge stores d=2 (16 halved three times), which reads back as nothing, the second merge
rewrites the entry with d=0.  (corpus/C17/subnormal_dee.json is the same scenario on the real code.) -/
theorem old_stod_idempotent_counterexample :
    let dest : Db := [(1 :: kTick, [51]), (kAB, [99, 61, 49, 32, 100, 61, 49, 54, 32, 116, 61, 48])]
    let temp : Db := [(kAB, [99, 61, 49, 32, 100, 61, 48, 32, 116, 61, 48])]
    (mergeDb oldDee [65] 0 (mergeDb oldDee [65] 0 dest temp) temp).fetch kAB ≠
      (mergeDb oldDee [65] 0 dest temp).fetch kAB := by
  decide

/-- …while the same witness is idempotent with the lawful codec, as `merge_idempotent` says. -/
example :
    let dest : Db := [(1 :: kTick, [51]), (kAB, [99, 61, 49, 32, 100, 61, 49, 54, 32, 116, 61, 48])]
    let temp : Db := [(kAB, [99, 61, 49, 32, 100, 61, 48, 32, 116, 61, 48])]
    (mergeDb natDee [65] 0 (mergeDb natDee [65] 0 dest temp) temp).fetch kAB =
      (mergeDb natDee [65] 0 dest temp).fetch kAB := by
  decide

/-! ### conversion of an old-format dictionary, synchronization of all dictionaries (op level, `RimeModel/C17/World.lean`) -/

/-- `UpgradeUserDict` without an old-format file changes nothing and succeeds. -/
theorem upgrade_without_old_file (w : World) (i n : Bytes) (h : w.legacyFile i n = none) :
    w.upgrade O i n = (w, true) := by
  unfold World.upgrade
  rw [h]

/-- An old-format file that is not a user dictionary (no `/db_type userdb` line) is left where it is, nothing is merged,
and the call reports failure: no entry is lost by a refused conversion. -/
theorem upgrade_refused_keeps_everything (w : World) (i n c : Bytes) (h : w.legacyFile i n = some c)
    (hu : isUserDb (uniformRestore [] c) = false) :
    w.upgrade O i n = (w, false) := by
  unfold World.upgrade
  rw [h]
  simp [hu]

/-- A conversion that goes ahead is the merge (`UserDictManager::Restore`, to which `merge_keeps_keys`, `merge_abs_max`,
`merge_tick_max` apply) of the uniform snapshot of the old file's content, after the old file and the scratch dictionary
have been removed; the call succeeds iff that merge does. -/
theorem upgrade_is_restore_of_snapshot (w : World) (i n c : Bytes) (h : w.legacyFile i n = some c)
    (hu : isUserDb (uniformRestore [] c) = true) :
    let w1 := ({ w with legacy := w.legacy.filter fun e => e.1 != (i, n) } : World).drop i sDotTemp
    w.upgrade O i n =
      match managerRestore O (w1.env i) 0 (uniformBackup (uniformRestore [] c)) (fun m => w1.db i m) with
      | none => (w1, false)
      | some (m, db) => (w1.setDb i m db, true) := by
  intro w1
  unfold World.upgrade
  rw [h]
  simp only [hu, Bool.not_true, Bool.false_eq_true, if_false]
  rfl

/-- `SynchronizeAll` over no dictionaries changes nothing and succeeds; over `n :: rest` it is `Synchronize n` followed by
the rest, and it succeeds iff every one did (a failure does not stop the others). -/
theorem synchronizeAll_cons (w : World) (i n : Bytes) (rest order : List Bytes) :
    w.synchronizeAll O i [] order = (w, true) ∧
    (w.synchronizeAll O i (n :: rest) order).2 =
      ((w.synchronize O i n [] order).2 &&
       (({ (w.synchronize O i n [] order).1 with files := w.files } : World).synchronizeAll O i rest order).2) := by
  constructor
  · rfl
  · unfold World.synchronizeAll
    simp only [List.foldl_cons, Bool.true_and]
    generalize (w.synchronize O i n [] order) = r
    have aux : ∀ (l : List Bytes) (acc : World) (b : Bool),
        (l.foldl (fun (acc : World × Bool) (n : Bytes) =>
          let keep := acc.1.files
          let r := acc.1.synchronize O i n [] order
          (({ r.1 with files := keep } : World), acc.2 && r.2)) (acc, b)).2 =
        (b && (l.foldl (fun (acc : World × Bool) (n : Bytes) =>
          let keep := acc.1.files
          let r := acc.1.synchronize O i n [] order
          (({ r.1 with files := keep } : World), acc.2 && r.2)) (acc, true)).2) := by
      intro l
      induction l with
      | nil => intro acc b; simp
      | cons x xs ih =>
        intro acc b
        simp only [List.foldl_cons, Bool.true_and]
        rw [ih, ih (b := (acc.synchronize O i x [] order).2)]
        simp [Bool.and_assoc]
    exact aux rest _ r.2

end C17
