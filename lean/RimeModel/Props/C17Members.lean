import RimeModel.Gen.UserDbMembers
/-!
C17 — "the merge and the text export/import paths read no uninitialised state": the obligation about the
C++ source text.  `Gen.C17.members` is regenerated from src/rime/dict/user_db.h and user_db.cc on every run
(/verif/gen/c17_members.py): one row per data member of `UserDbMerger` and `UserDbImporter` with how it gets
its first value (default member initialiser, constructor init list, a constructor-body assignment that
precedes every read, or a class type with a default constructor).  A member with none of these — or a
declaration the translator does not understand — makes the row `initialised := false` and this theorem
unprovable.  The same table drives the poisoned-construction probe of the harness (`probe` op), so the
translator's reading is cross-checked against the compiled constructor at run time.
Theorems only.
-/
namespace C17Members
open RimeModel.Gen.C17

/-- GENERATED-FACT obligation: every data member of `UserDbMerger` / `UserDbImporter` is initialised before
any member function can read it. -/
theorem all_members_initialised : ∀ m ∈ members, m.initialised = true := by
  decide

/-- the table is not empty and contains the merge counter (non-vacuity of the obligation above) -/
theorem table_covers_merger :
    (members.any fun m => m.cls == "UserDbMerger" && m.name == "merged_entries_") = true ∧
    (members.any fun m => m.cls == "UserDbImporter") = true := by
  decide

end C17Members
