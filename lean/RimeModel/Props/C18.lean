import RimeModel.C18.PathThms
import RimeModel.C18.ValueThms
import RimeModel.C18.BytesThms
import RimeModel.C18.Ref
/-!
# C18 — config trees survive save and load; getters read back what setters wrote

Model: `RimeModel/C18/{Cfg,Path,Value,Utf8,Emit,Parse}.lean` (ported from src/rime/config/config_data.cc,
config_types.cc, config_component.cc, config_cow_ref.h; yaml-cpp 0.7 modelled from observed behaviour).
`Gen/C18Emit.lean` is regenerated from the working tree on every run and says which `EmitScalar` policy
and flow depth the source has *now*.  Theorems only; proofs of the longer ones live in the `…Thms` files.
-/
namespace RimeModel.C18
namespace C18

/-! ## the model is of the current source -/

/-- The translator recognised `EmitScalar`, `EmitYaml` and `SaveToStream` of the working tree as the
functions the model was written from (fails closed: an unknown shape makes this unprovable). -/
theorem model_is_of_current_source : currentPolicy.isSome = true ∧ Gen.C18.emitYamlKnown = true := by decide

/-! ## get after set, frame -/

/-- **get-after-set, all path forms.** After `TraverseWrite` (the body of every `Config::Set*`) stores
`item` under any list of keys — map keys, `@N`, `@next`, `@last`, `@before N`, `@after N`, lenient spellings —
reading the location that was written (`written`: every list reference replaced by the index it resolved to
during the write) returns `item`. No hypothesis on the tree or the keys. -/
theorem get_set (cur : Cfg) (keys : List Bytes) (item : Cfg) :
    getSteps (writeAt cur keys item) (written cur keys) = item :=
  get_written cur keys item

/-- The same through the textual read path: when every list reference of the path is *stable* (names the
same index for every list size and never inserts: the `@N` form), `Traverse` of the very same keys returns
the item that was written. -/
theorem get_set_same_path (cur : Cfg) (keys : List Bytes) (item : Cfg)
    (hst : ∀ key ∈ keys, isListRef key = true → Stable key) :
    traverseKeys (writeAt cur keys item) keys = item :=
  traverse_written_same cur keys item hst

/-- `Traverse` (the body of every `Config::Get*`) reads exactly the location its keys resolve to. -/
theorem traverse_reads_resolved (cur : Cfg) (keys : List Bytes) :
    traverseKeys cur keys = getSteps cur (readSteps cur keys) :=
  traverseKeys_eq_getSteps cur keys

/-- **get_set_string**: `GetString` after a successful `SetString` on a path with stable list references. -/
theorem get_set_string (root : Cfg) (keys : List Bytes) (s : Bytes)
    (hst : ∀ key ∈ keys, isListRef key = true → Stable key) :
    (asValue (traverseKeys (writeAt root keys (valSetString s)) keys)).bind valGetString = some s := by
  rw [traverse_written_same root keys _ hst]; rfl

/-- **get_set_int**: `GetInt` after `SetInt` returns the value, for every 32-bit `int`. -/
theorem get_set_int (root : Cfg) (keys : List Bytes) (i : Int) (h1 : INT_MIN ≤ i) (h2 : i ≤ INT_MAX)
    (hst : ∀ key ∈ keys, isListRef key = true → Stable key) :
    (asValue (traverseKeys (writeAt root keys (valSetInt i)) keys)).bind valGetInt = some i := by
  rw [traverse_written_same root keys _ hst]
  exact valGetInt_setInt i h1 h2

/-- **get_set_bool**: `GetBool` after `SetBool`. -/
theorem get_set_bool (root : Cfg) (keys : List Bytes) (b : Bool)
    (hst : ∀ key ∈ keys, isListRef key = true → Stable key) :
    (asValue (traverseKeys (writeAt root keys (valSetBool b)) keys)).bind valGetBool = some b := by
  rw [traverse_written_same root keys _ hst]
  exact valGetBool_setBool b

/-- **get_set_double** with the `%f` formatter and `std::stod` as parameters: `GetDouble` after `SetDouble d`
is `stod (fmt d)` (whenever the formatted text is not empty). -/
theorem get_set_double {D : Type} (fmt : D → Bytes) (stod : Bytes → Option D) (root : Cfg) (keys : List Bytes) (d : D)
    (hne : fmt d ≠ []) (hst : ∀ key ∈ keys, isListRef key = true → Stable key) :
    (asValue (traverseKeys (writeAt root keys (valSetDouble fmt d)) keys)).bind (valGetDouble stod) = stod (fmt d) := by
  rw [traverse_written_same root keys _ hst]
  simp [valSetDouble, asValue, valGetDouble, hne]

/-- **set_frame.** After a successful write (type check passed) whose keys contain no inserting form, every
location that diverges from the written one — same prefix, then a different key or index — holds what it
held before (absent stays absent). -/
theorem set_frame (cur : Cfg) (keys : List Bytes) (item : Cfg) (q : List Step)
    (hty : typeCheck cur keys = true) (hins : noInsert cur keys = true) (hd : Diverge (written cur keys) q) :
    getSteps (writeAt cur keys item) q = getSteps cur q :=
  frame_steps cur keys item q hty hins hd

/-- **insert_shift.** When the last key is an inserting form (`@before …` / `@after …`, resolved to index `i`
against the list found at the location of the preceding keys), the elements before `i` keep their place,
element `i` is the item, and every later element is the old element one position down. -/
theorem insert_shift (cur : Cfg) (pre : List Bytes) (k : Bytes) (item : Cfg) (j : Nat)
    (hpre : noInsert cur pre = true) (hk : keyInserts (getSteps cur (written cur pre)) k = true) :
    getSteps (writeAt cur (pre ++ [k]) item) (written cur pre ++ [.idx j]) =
      (let i := (resolveIdx (listAt cur pre).length k).index
       if j < i then listGet (listAt cur pre) j else if j = i then item else listGet (listAt cur pre) (j - 1)) :=
  insert_shift_steps cur pre k item j hpre hk

/-- A write that fails the type check leaves the tree alone (the model returns no new tree), and one that
passes always succeeds: `TraverseWrite` returns false exactly when some key descends from a node of
another type. -/
theorem set_fails_clean (root : Cfg) (path : Bytes) (item : Cfg) :
    traverseWrite root path item = none ↔
      (isRootPath path = false ∧ typeCheck root (nonEmptyKeys (splitPath path)) = false) := by
  unfold traverseWrite
  by_cases h : isRootPath path = true
  · simp [h]
  · by_cases h2 : typeCheck root (nonEmptyKeys (splitPath path)) = true <;> simp [h, h2]

/-- Writes keep every map key-sorted (`std::map`'s invariant, the model's well-formedness predicate). -/
theorem set_preserves_wf (root : Cfg) (path : Bytes) (item r' : Cfg) (h : root.wf = true) (hi : item.wf = true)
    (hw : traverseWrite root path item = some r') : r'.wf = true := by
  unfold traverseWrite at hw
  by_cases hr : isRootPath path = true
  · simp [hr] at hw; rw [← hw]; exact hi
  · simp only [hr] at hw
    by_cases ht : typeCheck root (nonEmptyKeys (splitPath path)) = true
    · simp [ht] at hw; rw [← hw]; exact wf_writeAt _ _ _ h hi
    · simp [ht] at hw

/-! ## typed values -/

/-- **getInt_setInt**: for every `int` `i` (all 2^32 of them), `GetInt` of what `SetInt i` stored
(`std::to_string`) is `i`: the hex branch is not taken and `stoi` reads the digits back. -/
theorem getInt_setInt (i : Int) (h1 : INT_MIN ≤ i) (h2 : i ≤ INT_MAX) : valGetInt (intToString i) = some i :=
  valGetInt_setInt i h1 h2

/-- `GetBool ∘ SetBool = id`. -/
theorem getBool_setBool (b : Bool) : valGetBool (if b then strTrue else strFalse) = some b :=
  valGetBool_setBool b

/-- conversion table, string side: `GetString` returns the stored text whatever setter wrote it
(`SetInt` → decimal digits, `SetBool` → `true`/`false`). -/
theorem getString_setInt (i : Int) : asValue (valSetInt i) = some (intToString i) ∧
    asValue (valSetBool true) = some strTrue ∧ asValue (valSetBool false) = some strFalse :=
  ⟨rfl, rfl, rfl⟩

/-- conversion table, `GetInt ∘ SetString` is the lenient `std::stoi` (after the hex branch): decimal digits
with an optional sign read back as their value whatever follows them. Stated for the canonical spelling. -/
theorem getInt_setString_decimal (neg : Bool) (n : Nat)
    (hr : if neg then (n : Int) ≤ 2147483648 else (n : Int) ≤ 2147483647) :
    stoi ((if neg then [45] else []) ++ natToDec n) = some (if neg then -(n : Int) else n) :=
  stoi_digits neg n hr

/-- `GetBool` folds ASCII case and accepts nothing but `true` / `false`. -/
theorem getBool_iff (s : Bytes) (b : Bool) :
    valGetBool s = some b ↔ (s ≠ [] ∧ toLowerAscii s = (if b then strTrue else strFalse)) := by
  unfold valGetBool
  by_cases h : s = []
  · simp [h]
  · by_cases h1 : toLowerAscii s = strTrue
    · cases b <;> simp [h, h1, strTrue, strFalse]
    · by_cases h2 : toLowerAscii s = strFalse
      · cases b <;> simp [h, h2, strTrue, strFalse]
      · cases b <;> simp [h, h1, h2]

/-- typed getters fail cleanly — `none` is "returned false, out-parameter untouched": an empty value has no
bool/int/double reading, an int is no bool, a bool is no int, out-of-range digits are no int. -/
theorem conversions_fail_cleanly :
    valGetBool [] = none ∧ valGetInt [] = none ∧ valGetDouble (D := Nat) (fun _ => some 0) [] = none ∧
    valGetBool (intToString 1) = none ∧ valGetInt strTrue = none ∧ valGetInt strFalse = none ∧
    valGetInt [50, 49, 52, 55, 52, 56, 51, 54, 52, 56] = none ∧ valGetInt [45] = none := by
  decide

/-- the lenient spellings `GetInt` accepts, as the code has them: leading white space, a sign, trailing junk,
`0x` hex with wrap-around to negative, hex with a NUL-terminated tail; `0X` is not hex. -/
example : valGetInt [32, 9, 49, 50, 97, 98] = some 12 ∧ valGetInt [43, 55] = some 7 ∧
    valGetInt [48, 120, 49, 102] = some 31 ∧ valGetInt [48, 120, 102, 102, 102, 102, 102, 102, 102, 102] = some (-1) ∧
    valGetInt [48, 120, 49, 103] = some 0 ∧ valGetInt [48, 88, 49, 102] = some 0 ∧
    valGetInt [48, 120, 49, 102, 0, 122] = some 31 := by decide

/-! ## scalars in double quotes -/

/-- **unescape_escape.** For every text `s` (UTF-8 of Unicode scalar values other than non-characters),
reading what `WriteDoubleQuotedString` wrote gives `s` back, whatever follows the closing quote. -/
theorem unescape_escape (s rest : Bytes) (h : IsText s) : parseInline (emitDQ s ++ rest) = some (s, false, rest) :=
  parseInline_emitDQ s rest h

/-- yaml-cpp's code-point loop reproduces text byte for byte (so literal blocks carry text unchanged). -/
theorem sanitize_id_on_text (s : Bytes) (h : IsText s) : sanitize s = s := sanitize_text s h

/-- Non-vacuity / why the domain excludes them: a Unicode non-character is rewritten to U+FFFD by yaml-cpp
in every style, and a byte string that is not UTF-8 likewise. -/
example : sanitize [0xEF, 0xBF, 0xBE] = [0xEF, 0xBF, 0xBD] ∧ sanitize [0xFF] = [0xEF, 0xBF, 0xBD] ∧
    isTextB [0xEF, 0xBF, 0xBE] = false := by decide

/-! ## save and load -/

/-- **scalar round trip, plain style.** A non-empty run of `[A-Za-z0-9_.]` bytes followed by nothing or by a
byte outside that class is read back as itself (and flagged plain). -/
theorem scalar_roundtrip_plain (s rest : Bytes) (hne : s ≠ []) (hs : s.all isPlainSafe = true) (hr : RestOK rest) :
    parseInline (s ++ rest) = some (s, true, rest) :=
  parseInline_plain s rest hne hs hr

/-- **scalar round trip, double-quoted style**: `unescape_escape` above, for every text. -/
theorem scalar_roundtrip_dq (s rest : Bytes) (h : IsText s) : parseInline (emitDQ s ++ rest) = some (s, false, rest) :=
  parseInline_emitDQ s rest h

/-- **scalar round trip, literal block style.** A text the block can carry (`literalSafe`: ends in exactly one
LF, no C0 control character other than LF/TAB, first non-empty line not starting with a space), written as
yaml-cpp writes literal blocks and read as `ScanScalar` reads them (indentation auto-detected, clip chomping),
comes back unchanged — whether the block is the last thing in the document or not. -/
theorem scalar_roundtrip_literal (s : Bytes) (atEnd : Bool) (ht : IsText s) (hs : literalSafe s = true) :
    readLiteral (indentLines 2 (literalPieces s)) atEnd = some s :=
  readLiteral_literalPieces s atEnd ht hs

/-- **parse_emit** (full statement, no `_partial`): for either `EmitScalar` policy and EVERY tree of the domain —
any shape, any depth (block layout above the flow depth, flow layout with yaml-cpp's indentation padding
below), null entries anywhere, maps key-sorted, every scalar a text that the chosen style can carry, every key
a text written as a simple key — loading the saved document gives the tree with its null-valued map entries
and null list elements removed. -/
theorem parse_emit (pol : LitPolicy) (t : Cfg) (hok : TreeOK pol t) (hroot : RootOK pol t) :
    parseDoc (emitDoc pol t) = some t.norm :=
  parseDoc_emitDoc pol t hok hroot

/-- Under the repaired policy the scalar domain is ALL text: nothing is excluded for its line structure, its
control characters or its leading spaces. -/
theorem scalarOK_safe (s : Bytes) (h : IsText s) : ScalarOK .safe s := by
  refine ⟨h, ?_⟩
  intro hw
  simp [wantsLiteral] at hw
  exact hw.2

/-- Under the repaired policy no root is excluded either (`...` is double-quoted). -/
theorem root_unrestricted_safe (t : Cfg) : RootOK .safe t := rootOK_safe t

/-- **the policy of the working tree excludes no text.** For the `EmitScalar` the translator found in the
current source, every text scalar is in the domain of `parse_emit` and every root is admissible.  On a tree
with the legacy `EmitScalar` this statement is false and does not build (fails closed). -/
theorem current_policy_total : ∀ pol, currentPolicy = some pol →
    (∀ s, IsText s → ScalarOK pol s) ∧ (∀ t, RootOK pol t) := by
  intro pol h
  have hc : currentPolicy = some .safe := by decide
  rw [hc] at h
  cases h
  exact ⟨scalarOK_safe, rootOK_safe⟩

/-- the lines-level form of `parse_emit` (what the block/flow induction proves; `parse_emit` adds that no
emitted line contains a line break, so splitting the document returns the lines). -/
theorem parse_emit_lines (pol : LitPolicy) (t : Cfg) (hok : TreeOK pol t) (hroot : RootOK pol t) :
    parseLines (emitDocLines pol t) = some t.norm :=
  lines_rt pol t hok hroot

/-! ### the defects of the pinned tree (legacy `EmitScalar`), kept as history: the model reproduces each
failure on its minimal witness, and the repaired policy round-trips the same witness -/

/-- F1 — multi-line text whose first non-empty line starts with a space: as a map value the saved document
does not load when a later line is indented less (the model's strict parser gives up exactly where yaml-cpp
throws) and silently loses the spaces otherwise. -/
theorem old_literal_leading_space_counterexample :
    parseDoc (emitDoc .legacy (.map [([107], .scalar [32, 97, 10, 98, 10]), ([122], .scalar [49])])) = none ∧
    parseDoc (emitDoc .legacy (.map [([107], .scalar [32, 97, 10]), ([122], .scalar [49])])) =
      some (.map [([107], .scalar [97, 10]), ([122], .scalar [49])]) ∧
    parseDoc (emitDoc .legacy (.scalar [10, 32, 97, 10])) = some (.scalar [10, 97, 10]) ∧
    parseDoc (emitDoc .safe (.map [([107], .scalar [32, 97, 10, 98, 10]), ([122], .scalar [49])])) =
      some (.map [([107], .scalar [32, 97, 10, 98, 10]), ([122], .scalar [49])]) := by
  refine ⟨by rfl, by rfl, by rfl, by rfl⟩

/-- F2 — a lone CR sends the text to a literal block; when the block is not last the text gains a LF, and a
CR in front of the block's own line break is swallowed. -/
theorem old_literal_cr_counterexample :
    parseDoc (emitDoc .legacy (.map [([107], .scalar [97, 13, 98]), ([122], .scalar [49])])) =
      some (.map [([107], .scalar [97, 13, 98, 10]), ([122], .scalar [49])]) ∧
    parseDoc (emitDoc .legacy (.map [([107], .scalar [13]), ([122], .scalar [49])])) =
      some (.map [([107], .scalar []), ([122], .scalar [49])]) ∧
    parseDoc (emitDoc .safe (.map [([107], .scalar [97, 13, 98]), ([122], .scalar [49])])) =
      some (.map [([107], .scalar [97, 13, 98]), ([122], .scalar [49])]) := by
  refine ⟨by rfl, by rfl, by rfl⟩

/-- F3 — NUL / EOT inside multi-line text are written raw into the block, where yaml-cpp's reader takes them
for an escape character / the end of input. -/
theorem old_literal_control_char_counterexample :
    parseDoc (emitDoc .legacy (.scalar [0, 10])) = none ∧ parseDoc (emitDoc .legacy (.scalar [4, 10])) = none ∧
    parseDoc (emitDoc .safe (.scalar [0, 10])) = some (.scalar [0, 10]) := by
  refine ⟨by rfl, by rfl, by rfl⟩

/-- F4 — a root scalar `...` written plain is a document end marker. -/
theorem old_root_document_end_marker_counterexample :
    parseDoc (emitDoc .legacy (.scalar threeDots)) = some .null ∧
    parseDoc (emitDoc .safe (.scalar threeDots)) = some (.scalar threeDots) := by
  refine ⟨by rfl, by rfl⟩

/-- non-vacuity of `parse_emit`: a concrete tree of the domain with every layout in it (block map, block
sequence, a map inside a sequence entry, a literal block that is not last, flow collections with a null
element, an empty collection, a double-quoted and a plain scalar) -/
example : parseDoc (emitDoc .safe (.map [([97], .list [.map [([113], .scalar [120, 10, 121, 10]), ([122], .scalar [49])],
      .list [.list [.null, .scalar [], .map []]]]), ([98], .scalar [97, 32, 98])])) =
    some (.map [([97], .list [.map [([113], .scalar [120, 10, 121, 10]), ([122], .scalar [49])],
      .list [.list [.scalar [], .map []]]]), ([98], .scalar [97, 32, 98])]) := by rfl

/-! ## the other routes to the same tree: `ConfigItemRef`, `Config::Is*`, the C API iterators -/

/-- **get-after-set through `ConfigItemRef`.** After `(*config)[s₁]…[sₙ] = v` (map keys and list indexes in any mix, on ANY
tree: `operator[]` turns whatever it is applied to into the container the step needs, `SetAt` pads with nulls) reading the same
reference returns `v`. -/
theorem ref_get_set (t : Cfg) (steps : List RStep) (v : Cfg) : refGet (refSet t steps v) steps = v := by
  induction steps generalizing t with
  | nil => rfl
  | cons s rest ih =>
    cases s with
    | key k => simp [refSet, refGet, mapGet_mapSet_same, ih]
    | idx i => simp [refSet, refGet, listGet_listSetAt_same, ih]

/-- … and a sibling key of the first step keeps its value (frame at the top level of the reference). -/
theorem ref_set_frame_key (t : Cfg) (k j : Bytes) (rest : List RStep) (v : Cfg) (h : j ≠ k) :
    refGet (refSet t (.key k :: rest) v) [.key j] = refGet (.map (vivMap t)) [.key j] := by
  simp [refSet, refGet, mapGet_mapSet_other _ _ _ _ h]

theorem refGet_null (steps : List RStep) : refGet .null steps = .null := by
  cases steps with
  | nil => rfl
  | cons s rest => cases s <;> rfl

theorem listGet_nil (i : Nat) : listGet [] i = .null := by simp [listGet]

/-- **forming a reference does not change what it reads.** `operator[]` may replace nodes on the way by empty containers
(auto-vivification), but the value read through the reference is the value a strict walk of the original tree finds — null where
the walk leaves the tree. -/
theorem ref_viv_read (t : Cfg) (steps : List RStep) : refGet (refViv t steps) steps = refGet t steps := by
  induction steps generalizing t with
  | nil => rfl
  | cons s rest ih =>
    cases s with
    | key k =>
      cases rest with
      | nil => cases t <;> simp [refViv, refGet, vivMap, mapGet]
      | cons r rs =>
        cases t <;> simp [refViv, refGet, vivMap, mapGet, mapGet_mapSet_same, ih, refGet_null]
    | idx i =>
      cases rest with
      | nil => cases t <;> simp [refViv, refGet, vivList, listGet]
      | cons r rs =>
        cases t <;> simp [refViv, refGet, vivList, listGet_listSetAt_same, ih, refGet_null, listGet_nil]

/-- `Config::IsNull/IsValue/IsList/IsMap(path)` on a path that leads to a node: exactly the flag of the node's type (the four
answer `true` together only where the path leads nowhere). -/
theorem is_flags_onehot (root : Cfg) (p : Bytes) (h : (traverse root p).isNull = false) :
    isFlags root p = refFlags (traverse root p) := by
  unfold isFlags refFlags
  cases hh : traverse root p <;> simp_all [Cfg.isNull]

/-- the list iterator of the C API yields the keys `@i, @i+1, …` in order, one per element -/
theorem iter_list_keys (pre : Bytes) (xs : List Cfg) (i : Nat) :
    (iterListFrom pre xs i).map (·.1) = (List.range xs.length).map (fun j => formatListIndex (i + j)) := by
  induction xs generalizing i with
  | nil => simp [iterListFrom]
  | cons x xs ih =>
    simp only [iterListFrom, List.map_cons, List.length_cons, List.range_succ_eq_map, List.map_map]
    rw [ih (i + 1)]
    simp [Function.comp_def, Nat.add_assoc, Nat.add_comm 1]

/-- … and every path it yields is the prefix followed by the key -/
theorem iter_list_paths (pre : Bytes) (xs : List Cfg) (i : Nat) :
    ∀ kp ∈ iterListFrom pre xs i, kp.2 = pre ++ kp.1 := by
  induction xs generalizing i with
  | nil => simp [iterListFrom]
  | cons x xs ih =>
    intro kp h
    simp only [iterListFrom, List.mem_cons] at h
    rcases h with h | h
    · subst h; rfl
    · exact ih (i + 1) kp h

-- non-vacuity: a reference through a scalar vivifies it, reads null, and the assignment is read back
example : (refGet (refViv (.map [([97], .scalar [120])]) [.key [97], .key [98]]) [.key [97], .key [98]]).isNull = true := by decide
example : (refViv (.map [([97], .scalar [120])]) [.key [97], .key [98]]).beq (.map [([97], .map [])]) = true := by decide
example : (iterList (.map [([108], .list [.scalar [120], .null])]) [108]).map (·.length) = some 2 := by decide

/-! non-vacuity of the path theorems: a concrete tree, an `@before` insertion and a stable key -/
example : Stable [64, 55] := ⟨7, fun _ => rfl⟩
example : typeCheck (.map [([97], .list [.scalar [120]])]) [[97], [64, 98, 101, 102, 111, 114, 101, 32, 48]] = true := by decide
example : keyInserts (.list [.scalar [120]]) [64, 98, 101, 102, 111, 114, 101, 32, 48] = true := by decide

end C18
end RimeModel.C18
