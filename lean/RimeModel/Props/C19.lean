import RimeModel.C19.Model
import RimeModel.C19.Sort
import RimeModel.C19.Facts
import RimeModel.C19.Lemmas
import RimeModel.C19.RoundTrip
import RimeModel.Gen.KeyTables
/-!
C19 — key names and key sequences round-trip through their textual form.
Property theorems only.  `byVal`, `byName`, `modifierNames`, `kModifierMask`, `voidSymbol` are
decoded from `RimeModel.Gen.KeyTables`, regenerated from /repo's `src/rime/key_table.cc` on every
run (/verif/gen/c19_tables.py); the generated-fact theorems below are therefore re-checked by the
kernel against what the source says now.  Bytes: 43 = '+', 123 = '{', 125 = '}', 0 = NUL.

Domain (`InDomain e`): `e.keycode` is the keyval of some table row (`Named`), is not `XK_VoidSymbol`,
and every set bit of `e.modifier` has a name in `modifier_name[]` (`NamedMask`).
-/
namespace C19
open RimeModel.C19

/-! ### generated-fact theorems (kernel-evaluated, linear or n·log n) -/

/-- the translator accounted for every row of the source (independent count agreed) -/
theorem extraction_ok : Gen.extractionOk = true := by decide

/-- key names are pairwise distinct (sort of the packed names is strictly increasing) -/
theorem byVal_names_nodup : (byVal.map (·.name)).Nodup :=
  names_nodup_of_check Gen.byValCodes Gen.byValCodes.length (by decide +kernel)

/-- `keys_by_name` and `keys_by_keyval` hold the same rows (equal sorted encodings) -/
theorem byName_perm_byVal : byName.Perm byVal :=
  perm_of_check Gen.byNameCodes Gen.byValCodes Gen.byNameCodes.length Gen.byValCodes.length
    (by decide +kernel)

/-- no key name is empty or contains NUL, '+', '{' or '}' -/
theorem names_wellformed : ∀ r ∈ byVal, r.name ≠ [] ∧ ∀ b ∈ r.name, b ≠ 0 ∧ b ≠ 43 ∧ b ≠ 123 ∧ b ≠ 125 :=
  fun r hr => wfName_spec
    (List.all_eq_true.mp (by decide +kernel : byVal.all (fun r => wfName r.name) = true) r hr)

/-- every one-byte key name is the 7-bit ASCII character of its own key code -/
theorem one_byte_names_ascii : ∀ r ∈ byVal, ∀ c, r.name = [c] → r.keyval = c.toNat ∧ c.toNat < 128 :=
  fun r hr => oneByteOk_spec
    (List.all_eq_true.mp (by decide +kernel : byVal.all oneByteOk = true) r hr)

/-- `XK_VoidSymbol` occurs in `keys_by_keyval` as the last row and nowhere else, so the scan of
`RimeGetKeycodeByName` always stops inside the array -/
theorem byVal_terminated :
    ∃ pre t, byVal = pre ++ [t] ∧ t.keyval = voidSymbol ∧ ∀ r ∈ pre, r.keyval ≠ voidSymbol :=
  terminatedOk_spec voidSymbol byVal (by decide +kernel)

/-- for every named modifier slot `i`: looking its name up gives back exactly bit `i` (so modifier
names are pairwise distinct), the name is non-empty and free of NUL, '+', '{', '}', and bit `i`
survives `& kModifierMask` -/
theorem modifier_names_ok : ∀ (i : Nat) (n : Bytes), modifierNames[i]? = some (some n) →
    modifierByName n = 1 <<< i ∧ (n ≠ [] ∧ ∀ b ∈ n, b ≠ 0 ∧ b ≠ 43 ∧ b ≠ 123 ∧ b ≠ 125) ∧
      kModifierMask.testBit i = true := by
  intro i n h
  have := modsOkFrom_spec modifierNames 0 (by decide +kernel) i n h
  rw [Nat.zero_add] at this
  exact this

/-- modifier names are pairwise distinct -/
theorem modifier_names_distinct : ∀ (i j : Nat) (n : Bytes), modifierNames[i]? = some (some n) →
    modifierNames[j]? = some (some n) → i = j := by
  intro i j n hi hj
  have h1 := (modifier_names_ok i n hi).1
  have h2 := (modifier_names_ok j n hj).1
  rw [h1, Nat.shiftLeft_eq, Nat.shiftLeft_eq, Nat.one_mul, Nat.one_mul] at h2
  exact (Nat.pow_right_inj (by decide : 1 < 2)).mp h2

/-- `kModifierMask` fits a 32-bit int -/
theorem mask_lt : kModifierMask < 2 ^ 32 := by decide +kernel

/-- all facts the proofs use, for the tables of the current working tree -/
theorem table_facts : TableFacts :=
  ⟨byVal_names_nodup, byName_perm_byVal, names_wellformed, one_byte_names_ascii, byVal_terminated,
   modifier_names_ok, mask_lt⟩

/-! ### the property -/

/-- KeyEvent round trip: for EVERY key code that has a name (other than `XK_VoidSymbol`) and EVERY
combination of named modifier bits, `Parse(repr())` gives back the same event. -/
theorem parse_repr_event (k m : Nat) (hk : Named k) (hv : k ≠ voidSymbol) (hm : NamedMask m) :
    parse (repr ⟨k, m⟩) = some ⟨k, m⟩ :=
  parse_repr_event_of table_facts k m hk hv hm

/-- non-vacuity: Shift+Control+Release on `apostrophe` (a key code with an alias) is in the domain -/
example : parse (repr ⟨0x27, 0x40000005⟩) = some ⟨0x27, 0x40000005⟩ :=
  parse_repr_event 0x27 0x40000005 (by decide +kernel) (by decide +kernel) (by decide +kernel)

/-- KeySequence round trip: any sequence of events of the domain, written in key-sequence notation
(plain printable characters, `{…}` escapes), parses back to the same sequence. -/
theorem parse_repr_seq (es : List KeyEvent) (h : ∀ e ∈ es, InDomain e) :
    seqParse (seqRepr es) = some es :=
  parse_repr_seq_of table_facts es h

/-- non-vacuity: `a`, Shift+`b`, `space`, `Return`, `braceleft` — covering the one-byte name, the
escaped combination, the unescaped printable with a long name, a named non-printable and the brace
that must be escaped -/
example : seqParse (seqRepr [⟨0x61, 0⟩, ⟨0x62, 1⟩, ⟨0x20, 0⟩, ⟨0xff0d, 0⟩, ⟨0x7b, 0⟩]) =
    some [⟨0x61, 0⟩, ⟨0x62, 1⟩, ⟨0x20, 0⟩, ⟨0xff0d, 0⟩, ⟨0x7b, 0⟩] :=
  parse_repr_seq _ (by decide +kernel)

/-- Rejection: a text of two or more bytes whose last '+'-separated token is not the name of a key
(`Parse` accepts no hexadecimal form — `RimeGetKeycodeByName` only scans the table), or one of
whose earlier tokens is not a modifier name, does not parse.  Tokens are compared as C strings
(`cstr`: up to the first NUL), exactly as `strcmp(token.c_str(), …)` sees them.  (The empty text
fails too; a one-byte text is always accepted by the size-1 shortcut.) -/
theorem parse_unknown_fails (text : Bytes) (h2 : 2 ≤ text.length)
    (h : ¬ IsKeyName (cstr (lastToken text)) ∨ ∃ t ∈ modifierTokens text, ¬ IsModifierName (cstr t)) :
    parse text = none :=
  parse_unknown_fails_of text h2 h

/-- the empty text does not parse -/
theorem parse_empty_fails : parse [] = none := rfl

/-- non-vacuity: "Shift+0x61" (hex is what `repr` prints for unnamed codes, but no key is named so) -/
example : parse [83, 104, 105, 102, 116, 43, 48, 120, 54, 49] = none :=
  parse_unknown_fails _ (by decide) (Or.inl (by decide +kernel))

/-- non-vacuity: "Shft+a" (unknown modifier) -/
example : parse [83, 104, 102, 116, 43, 97] = none :=
  parse_unknown_fails _ (by decide) (Or.inr ⟨[83, 104, 102, 116], by decide, by decide +kernel⟩)

/-- The domain restriction to named key codes is necessary: an unnamed code is printed in hex and
the hex form is not read back (`repr` of 0x1234 is "0x1234", which `Parse` rejects). -/
theorem unnamed_keycode_not_roundtrip : parse (repr ⟨0x1234, 0⟩) = none := by decide +kernel

/-- … and so is the exclusion of `XK_VoidSymbol`: it has a name, which `Parse` rejects because its
value doubles as the "unknown key" result. -/
theorem voidSymbol_not_roundtrip : parse (repr ⟨voidSymbol, 0⟩) = none := by decide +kernel

end C19
