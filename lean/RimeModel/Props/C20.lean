import RimeModel.C20.Model
import RimeModel.C20.Lemmas
import RimeModel.C20.Shapes
import RimeModel.Gen.CopySites
/-!
C20 — strings copied into caller buffers are bounded and terminated.
Property theorems only.  `Gen.copySites` is regenerated from /repo on every run
(/verif/gen/c20_sites.py); `Ok` (the contract) is defined in RimeModel/C20/Shapes.lean.
-/
namespace C20
open RimeModel.C20

/-- every safe shape meets the contract, for every source, buffer image and size ≥ 1 -/
theorem safeShape_ok (s : Site) (hs : s.safeShape = true)
    (src : Bytes) (hsrc : ∀ x ∈ src, x ≠ 0) (buf : Bytes) (n : Nat) (h1 : 1 ≤ n) (hn : n ≤ buf.length) :
    Ok src buf n (s.run src n buf) := by
  obtain ⟨fn, stmts⟩ := s
  simp only [Site.safeShape] at hs
  split at hs
  next a g =>
    simp only [decide_eq_true_eq] at hs
    simpa [Site.run, Stmt.run] using strncpy_setNul_ok a hs src hsrc buf n h1 hn
  next =>
    have h0 : ¬ (n = 0) := by omega
    simpa [Site.run, Stmt.run, h0] using snprintf_ok src hsrc buf n h1 hn
  next => simp at hs

/-- GENERATED-FACT obligation: every copy site found in the working tree has a safe shape -/
theorem all_sites_safe : ∀ s ∈ Gen.copySites, s.safeShape = true := by
  decide

/-- the property, for every site of the current source, every string, buffer image and size ≥ 1 -/
theorem site_ok (s : Site) (hs : s ∈ Gen.copySites)
    (src : Bytes) (hsrc : ∀ x ∈ src, x ≠ 0) (buf : Bytes) (n : Nat) (h1 : 1 ≤ n) (hn : n ≤ buf.length) :
    Ok src buf n (s.run src n buf) :=
  safeShape_ok s (all_sites_safe s hs) src hsrc buf n h1 hn

/-- non-vacuity: the hypotheses are met by a concrete truncating call (|src| = 4 > n = 3) -/
example : Ok [108, 117, 110, 97] [170, 170, 170, 170, 170] 3
    (Site.run ⟨"x", [.strncpy 0, .setNul 1 true]⟩ [108, 117, 110, 97] 3 [170, 170, 170, 170, 170]) :=
  safeShape_ok _ (by decide) _ (by decide) _ 3 (by decide) (by decide)

/-- the bare `strncpy(dst, src, n)` shape violates the contract: witness |src| = 4, n = 3 leaves
`l u n` followed by the old bytes — no NUL within n -/
theorem bare_strncpy_counterexample :
    ¬ Ok [108, 117, 110, 97] [170, 170, 170, 170, 170] 3
        (Site.run ⟨"bare", [.strncpy 0]⟩ [108, 117, 110, 97] 3 [170, 170, 170, 170, 170]) := by
  intro h
  obtain ⟨⟨i, hi, h0⟩, _⟩ := h
  have : i = 0 ∨ i = 1 ∨ i = 2 := by omega
  rcases this with rfl | rfl | rfl <;> simp [Site.run, Stmt.run, cStrncpy] at h0

end C20
