/-! action vocabularies of the key-binding processors (editor.cc, navigator.cc, selector.cc) -/
namespace RimeModel.Session

inductive EditorAct where
  | confirm | toggleSelection | commitComment | commitRawInput | commitScriptText | commitComposition
  | revertLastEdit | backToPreviousInput | backToPreviousSyllable | deleteCandidate | deleteChar | cancelComposition
  deriving Repr, DecidableEq, Inhabited

inductive CharHandler where | directCommit | addToInput | none
  deriving Repr, DecidableEq, Inhabited

inductive NavAct where
  | rewind | leftByChar | rightByChar | leftBySyllable | rightBySyllable | home | end_
  deriving Repr, DecidableEq, Inhabited

inductive SelAct where
  | previousCandidate | nextCandidate | previousPage | nextPage | home | end_
  deriving Repr, DecidableEq, Inhabited

/-- a key binding: keycode, modifier mask, action -/
abbrev Keymap (α : Type) := List (Int × Nat × α)

def Keymap.find {α : Type} (m : Keymap α) (key : Int) (mask : Nat) : Option α :=
  match List.find? (fun (e : Int × Nat × α) => e.1 == key && e.2.1 == mask) m with
  | some e => some e.2.2
  | none => none

end RimeModel.Session
