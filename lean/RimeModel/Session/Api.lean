import RimeModel.Session.Processors
/-! API layer (rime_api_impl.h) on one live session: operations, and the client-visible view
computed by RimeGetContext / RimeGetStatus / get_input / get_caret_pos. -/
namespace RimeModel.Session

inductive Op where
  | key (code : Int) (mask : Nat)
  | select (i : Nat) | selectOnPage (i : Nat)
  | highlight (i : Nat) | highlightOnPage (i : Nat)
  | delete (i : Nat) | deleteOnPage (i : Nat)
  | changePage (backward : Bool)
  | setInput (v : Bytes) | setCaret (p : Nat)
  | setOption (name : String) (v : Bool)
  | commitComposition | clearComposition
  | getCommit
  deriving Repr, DecidableEq, Inhabited

/-- what an op returns to the caller: a Bool, or (for get_commit) the delivered text -/
structure Ret where
  ok : Bool
  text : Bytes := []
  deriving Repr, DecidableEq, Inhabited

def onCurrentPage (env : Env) (c : Ctx) (i : Nat) (verb : Ctx → Nat → Ctx × Bool) : Ctx × Bool :=
  if !c.hasMenu then (c, false)
  else if i ≥ env.pageSize then (c, false)
  else match c.comp.segs.getLast? with
    | none => (c, false)
    | some g => verb c (g.selIdx / env.pageSize * env.pageSize + i)

def apiStep (env : Env) (c : Ctx) : Op → Ctx × Ret
  | .key code mask => let r := processKey env ⟨code, mask⟩ c; (r.1, ⟨r.2, []⟩)
  | .select i => let r := Ctx.select env c i; (r.1, ⟨r.2, []⟩)
  | .selectOnPage i => let r := onCurrentPage env c i (Ctx.select env); (r.1, ⟨r.2, []⟩)
  | .highlight i => let r := Ctx.highlight env c i; (r.1, ⟨r.2, []⟩)
  | .highlightOnPage i => let r := onCurrentPage env c i (Ctx.highlight env); (r.1, ⟨r.2, []⟩)
  | .delete i => let r := Ctx.deleteCandidate env c i; (r.1, ⟨r.2, []⟩)
  | .deleteOnPage i => let r := onCurrentPage env c i (Ctx.deleteCandidate env); (r.1, ⟨r.2, []⟩)
  | .changePage backward =>
    if !c.hasMenu then (c, ⟨false, []⟩)
    else match c.comp.segs.getLast? with
      | none => (c, ⟨false, []⟩)
      | some g =>
        let cur := g.selIdx
        let index := if backward then (if cur ≤ env.pageSize then 0 else cur - env.pageSize) else cur + env.pageSize
        let r := Ctx.highlight env (c.modLastSeg tagPaging) index
        (r.1, ⟨r.2, []⟩)
  | .setInput v => (Ctx.setInput env c v, ⟨true, []⟩)
  | .setCaret p => (Ctx.setCaretPos env c p, ⟨true, []⟩)
  | .setOption name v => (Ctx.setOption env c name v, ⟨true, []⟩)
  | .commitComposition => let c1 := (Ctx.commit env c).1; (c1, ⟨c1.commitBuf ≠ [], []⟩)
  | .clearComposition => (Ctx.clear env c, ⟨true, []⟩)
  | .getCommit =>
    if c.commitBuf ≠ [] then ({ c with commitBuf := [] }, ⟨true, c.commitBuf⟩) else (c, ⟨false, []⟩)

structure MenuView where
  pageSize : Nat
  pageNo : Nat
  isLast : Bool
  highlighted : Nat
  cands : List Cand
  deriving Repr, DecidableEq, Inhabited

structure View where
  input : Bytes
  caret : Nat
  composing : Bool
  preedit : Option Preedit
  preview : Bytes
  menu : Option MenuView
  deriving Repr, DecidableEq, Inhabited

def softCursor (c : Ctx) : Bytes := if c.getOption "soft_cursor" then [0xe2, 0x80, 0xb8] else []

/-- RimeGetContext + get_input + get_caret_pos + status.is_composing -/
def view (env : Env) (c : Ctx) : View :=
  let composing := c.isComposing
  let pre := if composing then some (c.comp.getPreedit c.input c.caret (softCursor c)) else none
  let preview := if composing then c.commitText else []
  let menu : Option MenuView :=
    if c.hasMenu then
      match c.comp.segs.getLast? with
      | none => none
      | some g =>
        match g.menu with
        | none => none
        | some l =>
          let pageNo := g.selIdx / env.pageSize
          let start := env.pageSize * pageNo
          if start ≥ l.length then none
          else some { pageSize := env.pageSize, pageNo := pageNo, isLast := decide (start + env.pageSize ≥ l.length),
                      highlighted := g.selIdx % env.pageSize, cands := (l.drop start).take env.pageSize }
    else none
  { input := c.input, caret := c.caret, composing := composing, preedit := pre, preview := preview, menu := menu }

def runOps (env : Env) (c : Ctx) (ops : List Op) : Ctx := ops.foldl (fun c op => (apiStep env c op).1) c

end RimeModel.Session
