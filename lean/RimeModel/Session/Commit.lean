import RimeModel.Session.Api
import RimeModel.Session.Compose
/-! Lemmas about commit text, selection to the end of input, and the delivery buffer (C03). -/
namespace RimeModel.Session
open Ctx

/-- `Composition::GetCommitText` contribution of one segment -/
def commitPiece (input : Bytes) (g : Seg) (acc : Bytes × Nat) : Bytes × Nat :=
  match g.selected with
  | some c => (acc.1 ++ c.text, c.stop)
  | none => (if g.tags.phony then acc.1 else acc.1 ++ substr input g.start (g.stop - g.start), g.stop)

theorem commitFold_cons (input : Bytes) (g : Seg) (rest : List Seg) (acc : Bytes × Nat) :
    commitFold input (g :: rest) acc = commitFold input rest (commitPiece input g acc) := by
  obtain ⟨t, e⟩ := acc
  unfold commitPiece
  rw [commitFold]
  split <;> simp_all

theorem commitFold_append (input : Bytes) : ∀ (a b : List Seg) (acc : Bytes × Nat),
    commitFold input (a ++ b) acc = commitFold input b (commitFold input a acc)
  | [], b, acc => by simp [commitFold]
  | g :: a, b, acc => by
    rw [List.cons_append, commitFold_cons, commitFold_cons, commitFold_append input a b]

theorem commitFold_snoc (input : Bytes) (a : List Seg) (g : Seg) (acc : Bytes × Nat) :
    commitFold input (a ++ [g]) acc = commitPiece input g (commitFold input a acc) := by
  rw [commitFold_append, commitFold_cons]
  simp [commitFold]

/-- the text shown ahead of the last segment: commit text of the segments before it -/
def shownPrefix (c : Ctx) : Bytes := (commitFold c.comp.input c.comp.segs.dropLast ([], 0)).1

/-- the abstract delivery log of a session: `sink` appends, `read` returns everything and empties -/
structure Delivery where
  buf : Bytes := []

def Delivery.sink (d : Delivery) (t : Bytes) : Delivery := { buf := d.buf ++ t }
/-- RimeGetCommit: copies the text when non-empty, then ResetCommitText -/
def Delivery.read (d : Delivery) : Delivery × Option Bytes := if d.buf ≠ [] then ({ buf := [] }, some d.buf) else (d, none)

theorem modLast_snoc (l : List Seg) (f : Seg → Seg) {g : Seg} (h : l.getLast? = some g) :
    modLast l f = l.dropLast ++ [f g] := by
  unfold modLast; rw [h]

theorem getLast?_snoc (l : List Seg) (g : Seg) : (l ++ [g]).getLast? = some g := by simp

theorem dropLast_snoc (l : List Seg) (g : Seg) : (l ++ [g]).dropLast = l := by simp

theorem candAt_setIdx (g : Seg) (i : Nat) (s : Status) :
    ({ g with selIdx := i, status := s } : Seg).selected = g.candAt i := rfl

theorem close_noop {g : Seg} {cd : Cand} (h : g.selected = some cd) (hs : ¬ cd.stop < g.stop) : g.close = g := by
  unfold Seg.close; rw [h]; simp [hs]

theorem getOption_modLastSeg (c : Ctx) (f : Seg → Seg) (n : String) : (c.modLastSeg f).getOption n = c.getOption n := rfl

theorem commitText_of_last {c : Ctx} {pre : List Seg} {g : Seg} {cd : Cand} (hsegs : c.comp.segs = pre ++ [g])
    (hsel : g.selected = some cd) (hlen : c.comp.input.length ≤ cd.stop) (hd : c.getOption "dumb" = false) :
    c.commitText = (commitFold c.comp.input pre ([], 0)).1 ++ cd.text := by
  unfold Ctx.commitText Comp.commitText
  rw [hd, hsegs, commitFold_snoc]
  unfold commitPiece
  rw [hsel]
  simp only [Bool.false_eq_true, if_false]
  split
  · omega
  · rfl

theorem commitText_of_last_empty {c : Ctx} {pre : List Seg} {g : Seg} {cd : Cand} {e : Nat}
    (hsegs : c.comp.segs = pre ++ [g] ++ [Seg.mk' e e])
    (hsel : g.selected = some cd) (hlen : c.comp.input.length ≤ cd.stop) (he : e = cd.stop) (hd : c.getOption "dumb" = false) :
    c.commitText = (commitFold c.comp.input pre ([], 0)).1 ++ cd.text := by
  unfold Ctx.commitText Comp.commitText
  rw [hd, hsegs, commitFold_snoc, commitFold_snoc]
  unfold commitPiece
  rw [hsel]
  simp only [Bool.false_eq_true, if_false]
  have : (Seg.mk' e e).selected = none := rfl
  rw [this]
  simp only [Seg.mk', substr, Nat.sub_self, List.take_zero, List.append_nil]
  split
  · omega
  · simp


theorem clear_commitBuf (env : Env) (c : Ctx) : (clear env c).commitBuf = c.commitBuf := rfl

theorem isComposing_of_segs {c : Ctx} {pre : List Seg} {g : Seg} (h : c.comp.segs = pre ++ [g]) : c.isComposing = true := by
  unfold Ctx.isComposing; rw [h]; simp

theorem onSelect_end (env : Env) (c1 : Ctx) (pre : List Seg) (g1 : Seg) (cd : Cand)
    (hsegs : c1.comp.segs = pre ++ [g1]) (hsel : g1.selected = some cd)
    (hstop : g1.stop = c1.input.length) (hcs : cd.stop = c1.input.length)
    (hlen : c1.comp.input.length ≤ c1.input.length) (hd : c1.getOption "dumb" = false) :
    (c1.getOption "_auto_commit" = true →
      (onSelect env c1).commitBuf = c1.commitBuf ++ env.format ((commitFold c1.comp.input pre ([], 0)).1 ++ cd.text)) ∧
    (c1.getOption "_auto_commit" = false →
      (onSelect env c1).commitText = (commitFold c1.comp.input pre ([], 0)).1 ++ cd.text ∧
      (onSelect env c1).commitBuf = c1.commitBuf) := by
  have hclose : g1.close = g1 := close_noop hsel (by omega)
  let g2 : Seg := { g1 with status := .confirmed }
  let c2 : Ctx := c1.modLastSeg (fun _ => g2)
  have hsegs2 : c2.comp.segs = pre ++ [g2] := by
    show modLast c1.comp.segs (fun _ => g2) = pre ++ [g2]
    rw [modLast_snoc _ _ (by rw [hsegs]; exact getLast?_snoc pre g1), hsegs, dropLast_snoc]
  have hsel2 : g2.selected = some cd := hsel
  have hon : onSelect env c1 = if c2.getOption "_auto_commit" = true then (commit env c2).1 else c2.modComp (fun k => k.forward.1) := by
    unfold onSelect
    rw [hsegs, getLast?_snoc]
    simp only [hclose]
    rw [if_pos hstop]
  have hopt : ∀ n, c2.getOption n = c1.getOption n := fun _ => rfl
  have hlen2 : c2.comp.input.length ≤ cd.stop := by show c1.comp.input.length ≤ cd.stop; omega
  constructor
  · intro ha
    rw [hon, hopt, ha]
    simp only [if_true]
    unfold commit
    rw [isComposing_of_segs hsegs2]
    simp only [Bool.not_true, Bool.false_eq_true, if_false]
    rw [clear_commitBuf]
    show c1.commitBuf ++ env.format c2.commitText = _
    rw [commitText_of_last hsegs2 hsel2 hlen2 (by rw [hopt]; exact hd)]
    rfl
  · intro ha
    rw [hon, hopt, ha]
    simp only [Bool.false_eq_true, if_false]
    refine ⟨?_, rfl⟩
    -- forward either adds an empty segment or leaves the composition alone
    by_cases hse : g2.start = g2.stop
    · have hf : (c2.modComp fun k => k.forward.1).comp.segs = pre ++ [g2] := by
        show (c2.comp.forward.1).segs = _
        unfold Comp.forward
        rw [hsegs2, getLast?_snoc]
        simp only [hse, if_true]
        exact hsegs2
      have := commitText_of_last (c := c2.modComp fun k => k.forward.1) hf hsel2
        (by show c2.comp.forward.1.input.length ≤ cd.stop
            unfold Comp.forward; rw [hsegs2, getLast?_snoc]; simp [hse]; exact hlen2) (by exact hd)
      rw [this]
      show (commitFold c2.comp.forward.1.input pre ([], 0)).1 ++ cd.text = _
      unfold Comp.forward; rw [hsegs2, getLast?_snoc]; simp [hse]; rfl
    · have hf : (c2.modComp fun k => k.forward.1).comp.segs = pre ++ [g2] ++ [Seg.mk' g2.stop g2.stop] := by
        show (c2.comp.forward.1).segs = _
        unfold Comp.forward
        rw [hsegs2, getLast?_snoc]
        simp [hse]
      have hin : (c2.modComp fun k => k.forward.1).comp.input = c1.comp.input := by
        show (c2.comp.forward.1).input = _
        unfold Comp.forward
        rw [hsegs2, getLast?_snoc]
        simp [hse]; rfl
      have := commitText_of_last_empty (c := c2.modComp fun k => k.forward.1) hf hsel2
        (by rw [hin]; omega) (by show g1.stop = cd.stop; omega) (by exact hd)
      rw [this, hin]

end RimeModel.Session

namespace RimeModel.Session
open Ctx

/-- what C03(c) needs of Compose: recomposing an empty input with no segments yields no segments -/
def ComposeEmptySpec (rc : Bytes → Nat → Comp → Comp) : Prop := ∀ k : Comp, k.segs = [] → (rc [] 0 k).segs = []

theorem compose_empty_spec (cfg : SegCfg) : ComposeEmptySpec (compose cfg) := by
  intro k hk
  unfold compose
  simp only [List.take_nil, List.length_nil, Nat.lt_irrefl, false_and, if_false]
  have hr : (k.reset []).segs = [] ∧ (k.reset []).input = [] := by
    unfold Comp.reset
    simp [hk, popWhileEndGt]
  generalize k.reset [] = k1 at hr
  obtain ⟨hs, hi⟩ := hr
  have hseg : (segLoop cfg 0 (k1.input.length + 2) k1) = k1 := by
    rw [hi]; simp only [List.length_nil, Nat.zero_add]
    unfold segLoop
    have : k1.hasFinishedSegmentation = true := by
      unfold Comp.hasFinishedSegmentation Comp.currentEnd; simp [hs, hi]
    simp [this]
  unfold translateSegments calculateSegmentation
  rw [hseg]
  unfold trimUnlessPlaceholder forwardIfSelected
  simp [hs]

theorem commit_not_composing (env : Env) (he : ComposeEmptySpec env.recompose) (c : Ctx) (hc : c.isComposing = true) :
    (commit env c).1.isComposing = false ∧ (commit env c).1.input = [] ∧ (commit env c).1.caret = 0 := by
  unfold commit
  simp only [hc, Bool.not_true, Bool.false_eq_true, if_false]
  unfold clear update
  refine ⟨?_, rfl, rfl⟩
  unfold Ctx.isComposing
  simp only
  rw [he _ rfl]
  simp

end RimeModel.Session
