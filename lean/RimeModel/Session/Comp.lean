import RimeModel.Session.Types
/-! Segment / Segmentation / Composition operations (segmentation.cc, composition.cc) -/
namespace RimeModel.Session

/-- replace the last segment -/
def setLast (l : List Seg) (g : Seg) : List Seg :=
  match l with
  | [] => []
  | _ => l.dropLast ++ [g]

/-- apply `f` to the last segment -/
def modLast (l : List Seg) (f : Seg → Seg) : List Seg :=
  match l.getLast? with
  | none => l
  | some g => l.dropLast ++ [f g]

/-- Segment::Close -/
def Seg.close (g : Seg) : Seg :=
  match g.selected with
  | some c => if c.stop < g.stop then { g with stop := c.stop, tags := { g.tags with partial_ := true } } else g
  | none => g

/-- Segment::Reopen(caret_pos) — returns the segment and the bool result -/
def Seg.reopen (g : Seg) (caret : Nat) : Seg × Bool :=
  if g.status.rank < Status.selected.rank then (g, false)
  else
    let orig := g.start + g.length
    if orig = caret then
      let g' := if g.stop < orig then { g with stop := orig, tags := { g.tags with partial_ := false } } else g
      ({ g' with status := .guess }, true)
    else ({ g with status := .void }, true)

/-- Segmentation::Forward -/
def Comp.forward (c : Comp) : Comp × Bool :=
  match c.segs.getLast? with
  | none => (c, false)
  | some b => if b.start = b.stop then (c, false) else ({ c with segs := c.segs ++ [Seg.mk' b.stop b.stop] }, true)

/-- Segmentation::Trim -/
def Comp.trim (c : Comp) : Comp × Bool :=
  match c.segs.getLast? with
  | none => (c, false)
  | some b => if b.start = b.stop then ({ c with segs := c.segs.dropLast }, true) else (c, false)

def commonPrefixLen : Bytes → Bytes → Nat
  | a :: as, b :: bs => if a = b then commonPrefixLen as bs + 1 else 0
  | _, _ => 0

/-- pop segments from the back while `back().end > pos`; returns remaining and number disposed -/
def popWhileEndGt (pos : Nat) : List Seg → List Seg × Nat
  | [] => ([], 0)
  | g :: rest =>
    -- work on the reversed list: head is the back
    if g.stop > pos then let (r, n) := popWhileEndGt pos rest; (r, n + 1) else (g :: rest, 0)

/-- Segmentation::Reset(const string& new_input) -/
def Comp.reset (c : Comp) (newInput : Bytes) : Comp :=
  let diff := commonPrefixLen c.input newInput
  let (revKept, disposed) := popWhileEndGt diff c.segs.reverse
  let c1 : Comp := { c with segs := revKept.reverse }
  let c2 := if disposed > 0 then c1.forward.1 else c1
  { c2 with input := newInput }

def Comp.currentStart (c : Comp) : Nat := match c.segs.getLast? with | none => 0 | some b => b.start
def Comp.currentEnd (c : Comp) : Nat := match c.segs.getLast? with | none => 0 | some b => b.stop
def Comp.currentSegLen (c : Comp) : Nat := match c.segs.getLast? with | none => 0 | some b => b.stop - b.start
def Comp.hasFinishedSegmentation (c : Comp) : Bool := decide (c.currentEnd ≥ c.input.length)

/-- Segmentation::GetConfirmedPosition -/
def Comp.confirmedPos (c : Comp) : Nat :=
  c.segs.foldl (fun k g => if g.status.rank ≥ Status.selected.rank then g.stop else k) 0

/-- Segmentation::AddSegment -/
def Comp.addSegment (c : Comp) (g : Seg) : Comp × Bool :=
  if g.start ≠ c.currentStart then (c, false)
  else match c.segs.getLast? with
    | none => ({ c with segs := [g] }, true)
    | some last =>
      if last.stop > g.stop then (c, true)
      else if last.stop < g.stop then ({ c with segs := setLast c.segs g }, true)
      else ({ c with segs := setLast c.segs { last with tags := last.tags.union g.tags } }, true)

/-- Composition::HasFinishedComposition -/
def Comp.hasFinishedComposition (c : Comp) : Bool :=
  match c.segs.getLast? with
  | none => false
  | some b =>
    let k := c.segs.length - 1
    let g := if k > 0 ∧ b.start = b.stop then c.segs.getD (k - 1) b else b
    decide (g.status.rank ≥ Status.selected.rank)

/-- Composition::GetCommitText — fold over the segments; returns (text, end) -/
def commitFold (input : Bytes) : List Seg → Bytes × Nat → Bytes × Nat
  | [], acc => acc
  | g :: rest, (txt, _) =>
    match g.selected with
    | some c => commitFold input rest (txt ++ c.text, c.stop)
    | none => commitFold input rest
        (if g.tags.phony then txt else txt ++ substr input g.start (g.stop - g.start), g.stop)

def Comp.commitText (c : Comp) : Bytes :=
  let (txt, e) := commitFold c.input c.segs ([], 0)
  if c.input.length > e then txt ++ c.input.drop e else txt

/-- Preedit{text, caret_pos, sel_start, sel_end}; `caretPos = none` models `string::npos` while building -/
structure Preedit where
  text : Bytes := []
  caretPos : Nat := 0
  selStart : Nat := 0
  selEnd : Nat := 0
  deriving Repr, DecidableEq, Inhabited

structure PreeditAcc where
  text : Bytes := []
  caretPos : Option Nat := none
  selStart : Nat := 0
  selEnd : Nat := 0
  stop : Nat := 0          -- running `end`
  deriving Repr, DecidableEq, Inhabited

def findTab (b : Bytes) : Option Nat :=
  let i := b.findIdx (· == 9)
  if i < b.length then some i else none

/-- one iteration of the loop of Composition::GetPreedit; `isLast` = (i == size() - 1) -/
def preeditStep (compInput fullInput : Bytes) (caretPos : Nat) (acc : PreeditAcc) (g : Seg) (isLast : Bool) : PreeditAcc :=
  let start := acc.stop
  let acc := if caretPos = start then { acc with caretPos := some acc.text.length } else acc
  let cand := g.selected
  if !isLast then
    match cand with
    | some c => { acc with stop := c.stop, text := acc.text ++ c.text }
    | none =>
      let t := if g.tags.phony then acc.text else acc.text ++ substr compInput start (g.stop - start)
      { acc with stop := g.stop, text := t }
  else
    let acc := { acc with selStart := acc.text.length }
    match cand with
    | some c =>
      if c.preedit ≠ [] then
        match findTab c.preedit with
        | some tab =>
          let acc := { acc with stop := c.stop, text := acc.text ++ c.preedit.take tab }
          if caretPos = c.stop ∧ c.stop = fullInput.length then
            let selEnd := acc.selStart + tab
            { acc with selEnd := selEnd, caretPos := some selEnd, text := acc.text ++ c.preedit.drop (tab + 1) }
          else { acc with selEnd := acc.text.length }
        | none =>
          let acc := { acc with stop := c.stop, text := acc.text ++ c.preedit }
          { acc with selEnd := acc.text.length }
      else
        let acc := { acc with stop := g.stop, text := acc.text ++ substr compInput start (g.stop - start) }
        { acc with selEnd := acc.text.length }
    | none =>
      let acc := { acc with stop := g.stop, text := acc.text ++ substr compInput start (g.stop - start) }
      { acc with selEnd := acc.text.length }

def preeditLoop (compInput fullInput : Bytes) (caretPos : Nat) : List Seg → PreeditAcc → PreeditAcc
  | [], acc => acc
  | [g], acc => preeditStep compInput fullInput caretPos acc g true
  | g :: rest, acc => preeditLoop compInput fullInput caretPos rest (preeditStep compInput fullInput caretPos acc g false)

/-- `if (preedit.caret_pos == npos) preedit.caret_pos = preedit.text.length()` -/
def PreeditAcc.cursor (a : PreeditAcc) : Nat := match a.caretPos with | some p => p | none => a.text.length

/-- `end < full_input.length() ? text + full_input.substr(end) : text` -/
def PreeditAcc.fullText (a : PreeditAcc) (fullInput : Bytes) : Bytes :=
  if a.stop < fullInput.length then a.text ++ fullInput.drop a.stop else a.text

/-- the part of Composition::GetPreedit after the loop: the rest of the composition's input, the default
cursor, the rest of the raw input, and the insertion of soft cursor + prompt at the cursor -/
def preeditFinish (acc : PreeditAcc) (compInput fullInput prompt : Bytes) : Preedit :=
  let acc := if acc.stop < compInput.length then
      { acc with text := acc.text ++ compInput.drop acc.stop, stop := compInput.length } else acc
  let cp := acc.cursor
  let text := acc.fullText fullInput
  if prompt ≠ [] then
    let ss := if cp < acc.selStart then acc.selStart + prompt.length else acc.selStart
    let se := if cp < acc.selEnd then acc.selEnd + prompt.length else acc.selEnd
    { text := text.take cp ++ prompt ++ text.drop cp, caretPos := cp, selStart := ss, selEnd := se }
  else { text := text, caretPos := cp, selStart := acc.selStart, selEnd := acc.selEnd }

def Comp.prompt (c : Comp) : Bytes := match c.segs.getLast? with | none => [] | some b => b.prompt

/-- Composition::GetPreedit(full_input, caret_pos, caret) — `softCursor` is the caret string -/
def Comp.getPreedit (c : Comp) (fullInput : Bytes) (caretPos : Nat) (softCursor : Bytes) : Preedit :=
  preeditFinish (preeditLoop c.input fullInput caretPos c.segs {}) c.input fullInput (softCursor ++ c.prompt)

end RimeModel.Session
