import RimeModel.Session.Context
/-! Concrete port of ConcreteEngine::Compose for schemas whose segmentors are
`abc_segmentor` followed by `fallback_segmentor` (engine.cc:170-245, abc_segmentor.cc,
fallback_segmentor.cc); translators + filters are the oracle `translate`. -/
namespace RimeModel.Session

structure SegCfg where
  alphabet : Bytes
  initials : Bytes
  finals : Bytes
  delimiters : Bytes
  /-- merged + filtered full candidate list for a segment's input slice -/
  translate : Bytes → Seg → List Cand

/-- the scanning loop of AbcSegmentor::Proceed: returns k -/
def abcScan (cfg : SegCfg) (input : Bytes) (j : Nat) : Nat → Bool → Nat → Nat
  | 0, _, k => k
  | fuel + 1, expectingInitial, k =>
    match input[k]? with
    | none => k
    | some ch =>
      let isLetter := cfg.alphabet.contains ch
      let isDelim := k ≠ j && cfg.delimiters.contains ch
      if !isLetter && !isDelim then k
      else
        let isInitial := cfg.initials.contains ch
        let isFinal := cfg.finals.contains ch
        if expectingInitial && !isInitial && !isDelim then k
        else abcScan cfg input j fuel (isFinal || isDelim) (k + 1)

/-- AbcSegmentor::Proceed (always returns true) -/
def abcProceed (cfg : SegCfg) (c : Comp) : Comp :=
  let j := c.currentStart
  let k := abcScan cfg c.input j (c.input.length + 1) true j
  if j < k then (c.addSegment { Seg.mk' j k with tags := { abc := true } }).1 else c

/-- `if (!empty() && back().start == back().end) pop_back();` -/
def dropEmptyLast (c : Comp) : Comp :=
  match c.segs.getLast? with
  | some b => if b.start = b.stop then { c with segs := c.segs.dropLast } else c
  | none => c

def rawSeg (k : Nat) : Seg := { Seg.mk' k (k + 1) with tags := { raw := true } }

/-- Forward(); AddSegment(raw [k, k+1)) -/
def addRaw (c : Comp) (k : Nat) : Comp := (c.forward.1.addSegment (rawSeg k)).1

/-- `last.end = k + 1; last.Clear(); last.tags.insert("raw")` -/
def extendRaw (last : Seg) (k : Nat) : Seg :=
  { last with stop := k + 1, status := .void, tags := { raw := true }, menu := none, selIdx := 0, prompt := [] }

/-- FallbackSegmentor::Proceed (always returns false) -/
def fallbackProceed (c : Comp) : Comp :=
  if c.currentSegLen > 0 then c
  else if c.currentStart = c.input.length then c
  else
    let c1 := dropEmptyLast c
    match c1.segs.getLast? with
    | some last =>
      if last.tags.raw then { c1 with segs := setLast c1.segs (extendRaw last c.currentStart) }
      else addRaw c1 c.currentStart
    | none => addRaw c1 c.currentStart

/-- the while loop of ConcreteEngine::CalculateSegmentation -/
def segLoop (cfg : SegCfg) (caret : Nat) : Nat → Comp → Comp
  | 0, c => c
  | fuel + 1, c =>
    if c.hasFinishedSegmentation then c
    else
      let startPos := c.currentStart
      let c1 := fallbackProceed (abcProceed cfg c)
      if startPos = c1.currentEnd then c1
      else if startPos ≥ caret then c1
      else if !c1.hasFinishedSegmentation then segLoop cfg caret fuel c1.forward.1
      else segLoop cfg caret fuel c1

def trimUnlessPlaceholder (c : Comp) : Comp :=
  match c.segs.getLast? with
  | some b => if !b.tags.placeholder then c.trim.1 else c
  | none => c

def forwardIfSelected (c : Comp) : Comp :=
  match c.segs.getLast? with
  | some b => if b.status.rank ≥ Status.selected.rank then c.forward.1 else c
  | none => c

def calculateSegmentation (cfg : SegCfg) (caret : Nat) (c : Comp) : Comp :=
  forwardIfSelected (trimUnlessPlaceholder (segLoop cfg caret (c.input.length + 2) c))

/-- ConcreteEngine::TranslateSegments -/
def translateSegments (cfg : SegCfg) (c : Comp) : Comp :=
  { c with segs := c.segs.map (fun g =>
      if g.status.rank ≥ Status.guess.rank then g
      else
        let inp := substr c.input g.start (g.stop - g.start)
        { g with status := .guess, menu := some (cfg.translate inp g), selIdx := 0 }) }

/-- ConcreteEngine::Compose -/
def compose (cfg : SegCfg) (input : Bytes) (caret : Nat) (c : Comp) : Comp :=
  let active := input.take caret
  let c1 := c.reset active
  let c2 := if caret < input.length ∧ caret = c1.confirmedPos then c1.reset input else c1
  translateSegments cfg (calculateSegmentation cfg caret c2)

end RimeModel.Session
