import RimeModel.Session.EditBuf
/-! The concrete Compose port satisfies `LettersSpec`: on letter-only input, from a composition of the
C05 shape, it yields a single unselected segment starting at 0 (or nothing for the empty input). -/
namespace RimeModel.Session

/-- the part of `Shape05` that concerns one segment -/
def Seg05 (g : Seg) : Prop :=
  g.start = 0 ∧ 0 < g.stop ∧ g.status.rank < Status.selected.rank ∧ g.selIdx = 0 ∧ g.tags.raw = false ∧ g.tags.placeholder = false

/-- shape after the `Reset`s: nothing, or one old C05 segment that still fits the new input -/
def Pre05 (c : Comp) : Prop :=
  c.segs = [] ∨ ∃ g, c.segs = [g] ∧ Seg05 g ∧ g.menu.isSome = true ∧ g.stop ≤ c.input.length

def AllLetters (cfg : SegCfg) (s : Bytes) : Prop := ∀ b ∈ s, cfg.alphabet.contains b = true ∧ cfg.initials.contains b = true

theorem abcScan_all (cfg : SegCfg) (input : Bytes) (hl : AllLetters cfg input) (j : Nat) :
    ∀ (fuel k : Nat) (e : Bool), k ≤ input.length → input.length - k < fuel → abcScan cfg input j fuel e k = input.length
  | 0, k, e, _, hf => by omega
  | fuel + 1, k, e, hk, hf => by
    unfold abcScan
    by_cases hke : k = input.length
    · have : input[k]? = none := by rw [hke]; simp
      rw [this]; exact hke
    · have hlt : k < input.length := by omega
      have hget : input[k]? = some input[k] := List.getElem?_eq_getElem hlt
      rw [hget]
      have hmem : input[k] ∈ input := List.getElem_mem hlt
      obtain ⟨ha, hi⟩ := hl _ hmem
      simp only [ha, hi, Bool.not_true, Bool.false_and, Bool.false_eq_true, if_false, Bool.and_false]
      exact abcScan_all cfg input hl j fuel (k + 1) _ (by omega) (by omega)

theorem reset_from_shape (c : Comp) (ni : Bytes) (oldInput : Bytes) (h : Shape05 oldInput c.segs) :
    Pre05 (c.reset ni) ∧ (c.reset ni).input = ni := by
  unfold Comp.reset
  rcases h with ⟨_, hs⟩ | ⟨_, g, hs, hg0, hg1, hst, hsel, hm, hr, hp⟩
  · simp [hs, popWhileEndGt, Pre05]
  · by_cases hgt : g.stop > commonPrefixLen c.input ni
    · -- disposed
      simp [hs, popWhileEndGt, hgt, Comp.forward, Pre05]
    · have hle : g.stop ≤ ni.length := by
        have : commonPrefixLen c.input ni ≤ ni.length := by
          clear hgt hs
          generalize c.input = a
          induction a generalizing ni with
          | nil => simp [commonPrefixLen]
          | cons x xs ih =>
            cases ni with
            | nil => simp [commonPrefixLen]
            | cons y ys =>
              unfold commonPrefixLen
              split
              · have := ih ys; simp; omega
              · simp
        omega
      simp only [hs, List.reverse_cons, List.reverse_nil, List.nil_append, popWhileEndGt, hgt, if_false,
        Nat.lt_irrefl, gt_iff_lt]
      refine ⟨Or.inr ⟨g, rfl, ⟨hg0, hg1, hst, hsel, hr, hp⟩, hm, ?_⟩, trivial⟩
      exact hle

end RimeModel.Session

namespace RimeModel.Session

theorem reset_from_pre (c : Comp) (ni : Bytes) (h : Pre05 c) : Pre05 (c.reset ni) ∧ (c.reset ni).input = ni := by
  rcases h with hs | ⟨g, hs, ⟨hg0, hg1, hst, hsel, hr, hp⟩, hm, _⟩
  · exact reset_from_shape c ni [] (Or.inl ⟨rfl, hs⟩)
  · exact reset_from_shape c ni [0] (Or.inr ⟨by simp, g, hs, hg0, hg1, hst, hsel, hm, hr, hp⟩)

theorem confirmedPos_pre {c : Comp} (h : Pre05 c) : c.confirmedPos = 0 := by
  unfold Comp.confirmedPos
  rcases h with hs | ⟨g, hs, ⟨_, _, hst, _⟩, _⟩
  · simp [hs]
  · have : ¬ g.status.rank ≥ Status.selected.rank := by omega
    simp [hs, this]

/-- the composition after the Reset step(s) of Compose, and the input it is computed for -/
def afterReset (input : Bytes) (caret : Nat) (c : Comp) : Comp :=
  let c1 := c.reset (input.take caret)
  if caret < input.length ∧ caret = c1.confirmedPos then c1.reset input else c1

theorem afterReset_pre (input : Bytes) (caret : Nat) (c : Comp) (oldInput : Bytes) (hc : caret ≤ input.length)
    (h : Shape05 oldInput c.segs) :
    Pre05 (afterReset input caret c) ∧
    ((afterReset input caret c).input = input.take caret ∨ (afterReset input caret c).input = input) ∧
    ((afterReset input caret c).input = [] ↔ input = []) ∧
    (caret = 0 ∨ (afterReset input caret c).input.length ≤ caret) := by
  unfold afterReset
  have h1 := reset_from_shape c (input.take caret) oldInput h
  dsimp only
  rw [confirmedPos_pre h1.1]
  by_cases hcond : caret < input.length ∧ caret = 0
  · have h2 := reset_from_pre _ input h1.1
    rw [if_pos hcond]
    exact ⟨h2.1, Or.inr h2.2, by rw [h2.2], Or.inl hcond.2⟩
  · rw [if_neg hcond]
    refine ⟨h1.1, Or.inl h1.2, ?_, ?_⟩
    · rw [h1.2]
      constructor
      · intro ht
        have : (input.take caret).length = 0 := by rw [ht]; rfl
        simp only [List.length_take] at this
        by_cases hz : caret = 0
        · have : ¬ caret < input.length := fun hh => hcond ⟨hh, hz⟩
          have : input.length = 0 := by omega
          exact List.eq_nil_of_length_eq_zero this
        · have : input.length = 0 := by omega
          exact List.eq_nil_of_length_eq_zero this
      · intro hi; rw [hi]; simp
    · right; rw [h1.2]; simp only [List.length_take]; omega

end RimeModel.Session

namespace RimeModel.Session

def newSeg (n : Nat) : Seg := { Seg.mk' 0 n with tags := { abc := true } }

theorem abcFallback_step (cfg : SegCfg) (c : Comp) (hp : Pre05 c) (hl : AllLetters cfg c.input) (hne : c.input ≠ [])
    (hnf : c.hasFinishedSegmentation = false) :
    fallbackProceed (abcProceed cfg c) = { c with segs := [newSeg c.input.length] } := by
  have hpos : 0 < c.input.length := List.length_pos_iff.mpr hne
  have hstart : c.currentStart = 0 := by
    unfold Comp.currentStart
    rcases hp with hs | ⟨g, hs, ⟨hg0, _⟩, _⟩
    · simp [hs]
    · simp [hs, hg0]
  have hscan : abcScan cfg c.input 0 (c.input.length + 1) true 0 = c.input.length :=
    abcScan_all cfg c.input hl 0 _ 0 true (Nat.zero_le _) (by omega)
  have habc : abcProceed cfg c = { c with segs := [newSeg c.input.length] } := by
    unfold abcProceed
    simp only [hstart, hscan, hpos, if_true]
    unfold Comp.addSegment
    rcases hp with hs | ⟨g, hs, ⟨hg0, _⟩, _, hle⟩
    · simp [hs, Comp.currentStart, Seg.mk', newSeg]
    · have hlt : g.stop < c.input.length := by
        unfold Comp.hasFinishedSegmentation Comp.currentEnd at hnf
        simp [hs] at hnf
        exact hnf
      have h1 : ¬ g.stop > c.input.length := by omega
      simp [hs, Comp.currentStart, Seg.mk', hg0, h1, hlt, setLast, newSeg]
  rw [habc]
  unfold fallbackProceed
  have : ({ c with segs := [newSeg c.input.length] } : Comp).currentSegLen > 0 := by
    simp [Comp.currentSegLen, newSeg, Seg.mk']; exact hpos
  simp [this]

theorem segLoop_letters (cfg : SegCfg) (caret : Nat) (c : Comp) (hp : Pre05 c) (hl : AllLetters cfg c.input) (hne : c.input ≠ []) :
    ∀ fuel, 2 ≤ fuel → (segLoop cfg caret fuel c = c ∧ c.hasFinishedSegmentation = true) ∨
      (segLoop cfg caret fuel c = { c with segs := [newSeg c.input.length] })
  | 0, h => by omega
  | 1, h => by omega
  | fuel + 2, _ => by
    by_cases hf : c.hasFinishedSegmentation = true
    · left
      unfold segLoop
      simp [hf]
    · right
      have hnf : c.hasFinishedSegmentation = false := by simpa using hf
      have hstep := abcFallback_step cfg c hp hl hne hnf
      have hstart : c.currentStart = 0 := by
        unfold Comp.currentStart
        rcases hp with hs | ⟨g, hs, ⟨hg0, _⟩, _⟩
        · simp [hs]
        · simp [hs, hg0]
      have hend : ({ c with segs := [newSeg c.input.length] } : Comp).currentEnd = c.input.length := by
        simp [Comp.currentEnd, newSeg, Seg.mk']
      have hfin : ({ c with segs := [newSeg c.input.length] } : Comp).hasFinishedSegmentation = true := by
        simp [Comp.hasFinishedSegmentation, hend]
      have hpos : 0 < c.input.length := List.length_pos_iff.mpr hne
      unfold segLoop
      simp only [hnf, Bool.false_eq_true, if_false, hstep, hstart, hend, hfin, Bool.not_true]
      have h0 : ¬ (0 = c.input.length) := by omega
      simp only [h0, if_false]
      by_cases hc : 0 ≥ caret
      · simp [hc]
      · simp only [hc, if_false]
        unfold segLoop
        simp [hfin]

end RimeModel.Session

namespace RimeModel.Session

/-- a single C05 segment survives trim / forward and is translated into a C05 segment with a menu -/
theorem finish_single (cfg : SegCfg) (c : Comp) (g : Seg) (hs : c.segs = [g]) (hg : Seg05 g)
    (hm : g.status.rank ≥ Status.guess.rank → g.menu.isSome = true) :
    ∃ g', (translateSegments cfg (forwardIfSelected (trimUnlessPlaceholder c))).segs = [g'] ∧ Seg05 g' ∧ g'.menu.isSome = true := by
  obtain ⟨hg0, hg1, hst, hsel, hr, hp⟩ := hg
  have hne : ¬ g.start = g.stop := by omega
  have htrim : trimUnlessPlaceholder c = c := by
    unfold trimUnlessPlaceholder Comp.trim
    simp [hs, hp, hne]
  have hfw : forwardIfSelected c = c := by
    unfold forwardIfSelected
    have : ¬ g.status.rank ≥ Status.selected.rank := by omega
    simp [hs, this]
  rw [htrim, hfw]
  unfold translateSegments
  simp only [hs, List.map_cons, List.map_nil]
  by_cases hgs : g.status.rank ≥ Status.guess.rank
  · exact ⟨g, by simp [hgs], ⟨hg0, hg1, hst, hsel, hr, hp⟩, hm hgs⟩
  · refine ⟨{ g with status := .guess, menu := some (cfg.translate (substr c.input g.start (g.stop - g.start)) g), selIdx := 0 },
      by simp only [hgs, if_false], ⟨hg0, hg1, ?_, rfl, hr, hp⟩, rfl⟩
    simp [Status.rank]

theorem compose_letters_core (cfg : SegCfg) (oldInput input : Bytes) (caret : Nat) (c : Comp)
    (hc : caret ≤ input.length) (hl : AllLetters cfg input) (h : Shape05 oldInput c.segs) :
    Shape05 input (compose cfg input caret c).segs := by
  have hcomp : compose cfg input caret c =
      translateSegments cfg (calculateSegmentation cfg caret (afterReset input caret c)) := rfl
  rw [hcomp]
  obtain ⟨hpre, hin, hnil, _⟩ := afterReset_pre input caret c oldInput hc h
  generalize afterReset input caret c = c2 at hpre hin hnil
  have hl2 : AllLetters cfg c2.input := by
    intro b hb
    rcases hin with hi | hi
    · rw [hi] at hb; exact hl b (List.mem_of_mem_take hb)
    · rw [hi] at hb; exact hl b hb
  unfold calculateSegmentation
  by_cases he : input = []
  · -- empty input: nothing to segment
    left
    have hci : c2.input = [] := hnil.mpr he
    have hsegs : c2.segs = [] := by
      rcases hpre with hs | ⟨g, _, ⟨_, hg1, _⟩, _, hle⟩
      · exact hs
      · rw [hci] at hle; simp at hle; omega
    have hloop : segLoop cfg caret (c2.input.length + 2) c2 = c2 := by
      unfold segLoop
      simp [Comp.hasFinishedSegmentation, Comp.currentEnd, hsegs, hci]
    rw [hloop]
    refine ⟨he, ?_⟩
    simp [translateSegments, forwardIfSelected, trimUnlessPlaceholder, hsegs]
  · right
    refine ⟨he, ?_⟩
    have hci : c2.input ≠ [] := fun hh => he (hnil.mp hh)
    rcases segLoop_letters cfg caret c2 hpre hl2 hci (c2.input.length + 2) (by omega) with ⟨hloop, hfin⟩ | hloop
    · -- already finished: the old segment covers the whole input
      rw [hloop]
      rcases hpre with hs | ⟨g, hs, hg, hm, _⟩
      · exfalso
        have := List.length_pos_iff.mpr hci
        simp [Comp.hasFinishedSegmentation, Comp.currentEnd, hs] at hfin
        exact hci hfin
      · obtain ⟨g', hg', hs05, hm'⟩ := finish_single cfg c2 g hs hg (fun _ => hm)
        obtain ⟨a1, a2, a3, a4, a5, a6⟩ := hs05
        exact ⟨g', hg', a1, a2, a3, a4, hm', a5, a6⟩
    · rw [hloop]
      have hpos := List.length_pos_iff.mpr hci
      have hnew : Seg05 (newSeg c2.input.length) := by
        refine ⟨rfl, ?_, ?_, rfl, rfl, rfl⟩
        · simpa [newSeg, Seg.mk'] using hpos
        · simp [newSeg, Seg.mk', Status.rank]
      obtain ⟨g', hg', hs05, hm'⟩ := finish_single cfg { c2 with segs := [newSeg c2.input.length] } _ rfl hnew
        (fun hh => by simp [newSeg, Seg.mk', Status.rank] at hh)
      obtain ⟨a1, a2, a3, a4, a5, a6⟩ := hs05
      exact ⟨g', hg', a1, a2, a3, a4, hm', a5, a6⟩

/-- **the concrete Compose meets `LettersSpec`** whenever its segmentor configuration has the schema's
alphabet and initials -/
theorem compose_letters (env : Env) (cfg : SegCfg) (henv : env.recompose = compose cfg)
    (ha : cfg.alphabet = env.alphabet) (hi : cfg.initials = env.initials) : LettersSpec env := by
  intro oldInput input caret c hc hl h
  rw [henv]
  refine compose_letters_core cfg oldInput input caret c hc ?_ h
  intro b hb
  obtain ⟨_, _, h3, h4⟩ := hl b hb
  exact ⟨by rw [ha]; exact h3, by rw [hi]; exact h4⟩

end RimeModel.Session
