import RimeModel.Session.Inv
import RimeModel.Session.Compose
/-! The concrete port of `ConcreteEngine::Compose` (abc + fallback segmentors, any translation
oracle) meets `ComposeSpec`: no segment it leaves has a dangling selected index. -/
namespace RimeModel.Session

theorem popWhileEndGt_ok (pos : Nat) : ∀ {l : List Seg}, SegsOK l → SegsOK (popWhileEndGt pos l).1
  | [], h => by simpa [popWhileEndGt] using h
  | g :: rest, h => by
    have hr : SegsOK rest := fun x hx => h x (by simp [hx])
    unfold popWhileEndGt
    split
    · exact popWhileEndGt_ok pos hr
    · exact h

theorem reset_ok {c : Comp} (h : SegsOK c.segs) (ni : Bytes) : SegsOK (c.reset ni).segs := by
  unfold Comp.reset
  have hp := (popWhileEndGt_ok (commonPrefixLen c.input ni) h.reverse).reverse
  dsimp only
  split
  · exact forward_ok (c := { c with segs := _ }) hp
  · exact hp

theorem addSegment_ok {c : Comp} (h : SegsOK c.segs) {g : Seg} (hg : SelOK g) : SegsOK (c.addSegment g).1.segs := by
  unfold Comp.addSegment
  split
  · exact h
  · split
    · exact SegsOK.singleton hg
    · rename_i last hlast
      split
      · exact h
      · split
        · exact segsOK_setLast h hg
        · exact segsOK_setLast h (fun l hl hne => h.getLast hlast l hl hne)

theorem selOK_of_menu_none {g : Seg} (h : g.menu = none) : SelOK g := by
  intro l hl; rw [h] at hl; simp at hl

theorem abcProceed_ok (cfg : SegCfg) {c : Comp} (h : SegsOK c.segs) : SegsOK (abcProceed cfg c).segs := by
  unfold abcProceed
  dsimp only
  split
  · exact addSegment_ok h (selOK_of_menu_none rfl)
  · exact h

theorem dropEmptyLast_ok {c : Comp} (h : SegsOK c.segs) : SegsOK (dropEmptyLast c).segs := by
  unfold dropEmptyLast
  split
  · split
    · exact h.dropLast
    · exact h
  · exact h

theorem addRaw_ok {c : Comp} (h : SegsOK c.segs) (k : Nat) : SegsOK (addRaw c k).segs :=
  addSegment_ok (forward_ok h) (selOK_of_menu_none rfl)

theorem fallbackProceed_ok {c : Comp} (h : SegsOK c.segs) : SegsOK (fallbackProceed c).segs := by
  unfold fallbackProceed
  have h1 := dropEmptyLast_ok h
  split
  · exact h
  · split
    · exact h
    · dsimp only
      split
      · split
        · exact segsOK_setLast h1 (selOK_of_menu_none rfl)
        · exact addRaw_ok h1 _
      · exact addRaw_ok h1 _

theorem segLoop_ok (cfg : SegCfg) (caret : Nat) : ∀ (fuel : Nat) {c : Comp}, SegsOK c.segs →
    SegsOK (segLoop cfg caret fuel c).segs
  | 0, _, h => h
  | fuel + 1, c, h => by
    have h1 := fallbackProceed_ok (abcProceed_ok cfg h)
    unfold segLoop
    split
    · exact h
    · dsimp only
      split
      · exact h1
      · split
        · exact h1
        · split
          · exact segLoop_ok cfg caret fuel (forward_ok h1)
          · exact segLoop_ok cfg caret fuel h1

theorem trimUnlessPlaceholder_ok {c : Comp} (h : SegsOK c.segs) : SegsOK (trimUnlessPlaceholder c).segs := by
  unfold trimUnlessPlaceholder
  split
  · split
    · exact trim_ok h
    · exact h
  · exact h

theorem forwardIfSelected_ok {c : Comp} (h : SegsOK c.segs) : SegsOK (forwardIfSelected c).segs := by
  unfold forwardIfSelected
  split
  · split
    · exact forward_ok h
    · exact h
  · exact h

theorem calculateSegmentation_ok (cfg : SegCfg) (caret : Nat) {c : Comp} (h : SegsOK c.segs) :
    SegsOK (calculateSegmentation cfg caret c).segs :=
  forwardIfSelected_ok (trimUnlessPlaceholder_ok (segLoop_ok cfg caret _ h))

theorem translateSegments_ok (cfg : SegCfg) {c : Comp} (h : SegsOK c.segs) :
    SegsOK (translateSegments cfg c).segs := by
  unfold translateSegments
  intro g hg
  simp only [List.mem_map] at hg
  obtain ⟨g0, hg0, rfl⟩ := hg
  split
  · exact h g0 hg0
  · intro l _ hne
    exact List.length_pos_iff.mpr hne

/-- the concrete Compose satisfies the hypothesis of the session theorems, for every translation
oracle and every alphabet configuration -/
theorem addSegment_input (c : Comp) (g : Seg) : (c.addSegment g).1.input = c.input := by
  unfold Comp.addSegment
  (repeat' split) <;> rfl

theorem abcProceed_input (cfg : SegCfg) (c : Comp) : (abcProceed cfg c).input = c.input := by
  unfold abcProceed
  dsimp only
  split
  · exact addSegment_input _ _
  · rfl

theorem dropEmptyLast_input (c : Comp) : (dropEmptyLast c).input = c.input := by
  unfold dropEmptyLast
  (repeat' split) <;> rfl

theorem addRaw_input (c : Comp) (k : Nat) : (addRaw c k).input = c.input := by
  unfold addRaw
  rw [addSegment_input, forward_input]

theorem fallbackProceed_input (c : Comp) : (fallbackProceed c).input = c.input := by
  unfold fallbackProceed
  dsimp only
  (repeat' split) <;> first | rfl | exact dropEmptyLast_input c | (rw [addRaw_input]; exact dropEmptyLast_input c)

theorem segLoop_input (cfg : SegCfg) (caret : Nat) : ∀ (fuel : Nat) (c : Comp), (segLoop cfg caret fuel c).input = c.input
  | 0, _ => rfl
  | fuel + 1, c => by
    have h1 : (fallbackProceed (abcProceed cfg c)).input = c.input := by
      rw [fallbackProceed_input, abcProceed_input]
    unfold segLoop
    dsimp only
    (repeat' split) <;> first
      | rfl
      | exact h1
      | (rw [segLoop_input cfg caret fuel, forward_input]; exact h1)
      | (rw [segLoop_input cfg caret fuel]; exact h1)

theorem calculateSegmentation_input (cfg : SegCfg) (caret : Nat) (c : Comp) :
    (calculateSegmentation cfg caret c).input = c.input := by
  unfold calculateSegmentation forwardIfSelected trimUnlessPlaceholder
  (repeat' split) <;> simp only [forward_input, trim_input, segLoop_input]

theorem reset_input (c : Comp) (ni : Bytes) : (c.reset ni).input = ni := by
  unfold Comp.reset
  rfl

/-- the concrete Compose satisfies the hypothesis of the session theorems, for every translation
oracle and every alphabet configuration -/
theorem compose_spec (cfg : SegCfg) : ComposeSpec (compose cfg) := by
  refine ⟨?_, ?_⟩
  · intro input caret c h
    unfold compose
    dsimp only
    refine translateSegments_ok cfg (calculateSegmentation_ok cfg caret ?_)
    split
    · exact reset_ok (reset_ok h _) _
    · exact reset_ok h _
  · intro input caret c
    unfold compose
    dsimp only
    show (calculateSegmentation cfg caret _).input.length ≤ input.length
    rw [calculateSegmentation_input]
    split
    · rw [reset_input]; exact Nat.le_refl _
    · rw [reset_input]; simp only [List.length_take]; omega

end RimeModel.Session
