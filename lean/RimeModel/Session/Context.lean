import RimeModel.Session.Comp
/-! Context mutators (context.cc) and the engine's reactions to the notifiers they fire
(engine.cc: OnContextUpdate → Compose, OnSelect, OnCommit, OnOptionUpdate).
Generic in the recomposition function: `Env.recompose input caret comp` stands for
`ConcreteEngine::Compose` (segmentors + translators + filters of the schema). -/
namespace RimeModel.Session

inductive AutoClear where | none | auto | manual | maxLength
  deriving Repr, DecidableEq, Inhabited

inductive Proc where
  | speller | selector | navigator | expressEditor | fluidEditor | other | punctuator | keyBinder | asciiComposer | recognizer
  deriving Repr, DecidableEq, Inhabited

structure Env where
  pageSize : Nat := 5
  selectKeys : Bytes := []
  pageDownCycle : Bool := false
  alphabet : Bytes := []
  initials : Bytes := []
  finals : Bytes := []
  delimiters : Bytes := []
  maxCodeLength : Nat := 0
  autoSelect : Bool := false
  useSpace : Bool := false
  autoClear : AutoClear := .none
  processors : List Proc := []
  /-- the `punctuator:` section (default: no punctuation defined) -/
  punct : PunctCfg := {}
  /-- shape formatter applied to committed text (identity when `full_shape` is off) -/
  format : Bytes → Bytes := id
  /-- `key_binder/bindings` in configuration order (default: none — the key binder is then a no-op) -/
  bindings : List KbBinding := []
  /-- `switches:` (read by the key binder's option actions: an option of a radio group is switched with its group) -/
  switches : List SwitchDef := []
  /-- AsciiComposer::bindings_ : `ascii_composer/switch_key` (keycode → style) as LoadConfig leaves it -/
  asciiKeys : List (Int × AcStyle) := []
  /-- `ascii_composer/good_old_caps_lock` -/
  goodOldCapsLock : Bool := false
  /-- `recognizer/patterns` as the std::map iterates them (sorted by name); empty: the recognizer is a no-op -/
  recPatterns : List RecPattern := []
  /-- `recognizer/use_space` -/
  recUseSpace : Bool := false
  /-- ConcreteEngine::Compose as a function of (input, caret, old composition) -/
  recompose : Bytes → Nat → Comp → Comp := fun _ _ c => c

namespace Ctx

def isComposing (c : Ctx) : Bool := c.input ≠ [] || c.comp.segs ≠ []

def hasMenu (c : Ctx) : Bool :=
  match c.comp.segs.getLast? with
  | none => false
  | some b => match b.menu with | none => false | some l => l ≠ []

def selectedCand (c : Ctx) : Option Cand :=
  match c.comp.segs.getLast? with | none => none | some b => b.selected

/-- Context::GetCommitText -/
def commitText (c : Ctx) : Bytes := if c.getOption "dumb" then [] else c.comp.commitText

/-- update_notifier_ → ConcreteEngine::OnContextUpdate → Compose -/
def update (env : Env) (c : Ctx) : Ctx := { c with comp := env.recompose c.input c.caret c.comp }

/-- Context::Clear -/
def clear (env : Env) (c : Ctx) : Ctx :=
  update env { c with input := [], caret := 0, comp := { c.comp with segs := [] } }

/-- Context::Commit (commit_notifier_ → OnCommit → sink → Session::OnCommit) -/
def commit (env : Env) (c : Ctx) : Ctx × Bool :=
  if !c.isComposing then (c, false)
  else
    let c1 := { c with commitBuf := c.commitBuf ++ env.format c.commitText }
    (clear env c1, true)

/-- Context::PushInput(char) -/
def pushInput (env : Env) (c : Ctx) (ch : UInt8) : Ctx :=
  if c.caret ≥ c.input.length then
    update env { c with input := c.input ++ [ch], caret := c.input.length + 1 }
  else
    update env { c with input := c.input.take c.caret ++ ch :: c.input.drop c.caret, caret := c.caret + 1 }

/-- Context::PopInput(len) -/
def popInput (env : Env) (c : Ctx) (len : Nat := 1) : Ctx × Bool :=
  if c.caret < len then (c, false)
  else
    let caret := c.caret - len
    (update env { c with caret := caret, input := c.input.take caret ++ c.input.drop (caret + len) }, true)

/-- Context::DeleteInput(len) -/
def deleteInput (env : Env) (c : Ctx) (len : Nat := 1) : Ctx × Bool :=
  if c.caret + len > c.input.length then (c, false)
  else (update env { c with input := c.input.take c.caret ++ c.input.drop (c.caret + len) }, true)

/-- Context::set_caret_pos -/
def setCaretPos (env : Env) (c : Ctx) (p : Nat) : Ctx :=
  update env { c with caret := if p > c.input.length then c.input.length else p }

/-- Context::set_input -/
def setInput (env : Env) (c : Ctx) (v : Bytes) : Ctx :=
  update env { c with input := v, caret := v.length }

def modComp (c : Ctx) (f : Comp → Comp) : Ctx := { c with comp := f c.comp }
def modLastSeg (c : Ctx) (f : Seg → Seg) : Ctx := { c with comp := { c.comp with segs := modLast c.comp.segs f } }

/-- ConcreteEngine::OnSelect -/
def onSelect (env : Env) (c : Ctx) : Ctx :=
  match c.comp.segs.getLast? with
  | none => c
  | some g0 =>
    let g := g0.close
    if g.stop = c.input.length then
      let c1 := c.modLastSeg (fun _ => { g with status := .confirmed })
      if c1.getOption "_auto_commit" then (commit env c1).1
      else c1.modComp (fun k => k.forward.1)
    else
      let reached := decide (g.stop ≥ c.caret)
      let c1 := (c.modLastSeg (fun _ => g)).modComp (fun k => k.forward.1)
      if reached then setCaretPos env c1 c1.input.length else update env c1

/-- Context::Select -/
def select (env : Env) (c : Ctx) (index : Nat) : Ctx × Bool :=
  match c.comp.segs.getLast? with
  | none => (c, false)
  | some g =>
    match g.candAt index with
    | some _ =>
      let c1 := onSelect env (c.modLastSeg (fun g => { g with selIdx := index, status := .selected }))
      ({ c1 with navSpans := [] }, true)     -- Navigator::OnSelect (select_notifier_)
    | none => (c, false)

/-- Context::Highlight -/
def highlight (env : Env) (c : Ctx) (index : Nat) : Ctx × Bool :=
  match c.comp.segs.getLast? with
  | none => (c, false)
  | some g =>
    if g.menu.isNone then (c, false)
    else
      let count := g.prepare (index + 1)
      let newIndex := if count > 0 then min (count - 1) index else 0
      if g.selIdx = newIndex then (c, false)
      else (update env (c.modLastSeg (fun g => { g with selIdx := newIndex })), true)

/-- Context::DeleteCandidate (no delete listener modelled: schemas without a Memory translator) -/
def deleteCandidate (_env : Env) (c : Ctx) (index : Nat) : Ctx × Bool :=
  match c.comp.segs.getLast? with
  | none => (c, false)
  | some g =>
    match g.candAt index with
    | some _ => (c.modLastSeg (fun g => { g with selIdx := index }), true)
    | none => (c, false)

/-- Context::ConfirmCurrentSelection -/
def confirmCurrentSelection (env : Env) (c : Ctx) : Ctx × Bool :=
  match c.comp.segs.getLast? with
  | none => (c, false)
  | some g =>
    let c1 := c.modLastSeg (fun g => { g with status := .selected })
    match g.selected with
    | some _ => ({ onSelect env c1 with navSpans := [] }, true)
    | none => if g.stop = g.start then (c1, false) else ({ onSelect env c1 with navSpans := [] }, true)

/-- Context::BeginEditing: walk from the back; stop at a segment above kSelected; tag the first kSelected -/
def beginEditingRev : List Seg → List Seg
  | [] => []
  | g :: rest =>
    if g.status.rank > Status.selected.rank then g :: rest
    else if g.status = .selected then { g with tags := { g.tags with selectedBeforeEditing := true } } :: rest
    else g :: beginEditingRev rest

def beginEditing (c : Ctx) : Ctx :=
  c.modComp (fun k => { k with segs := (beginEditingRev k.segs.reverse).reverse })

/-- Context::ReopenPreviousSegment -/
def reopenPreviousSegment (env : Env) (c : Ctx) : Ctx × Bool :=
  let (k, trimmed) := c.comp.trim
  if trimmed then
    let c1 := { c with comp := k }
    let c2 := match k.segs.getLast? with
      | some b => if b.status.rank ≥ Status.selected.rank then c1.modLastSeg (fun g => (g.reopen c.caret).1) else c1
      | none => c1
    (update env c2, true)
  else (c, false)

/-- Context::ClearPreviousSegment -/
def clearPreviousSegment (env : Env) (c : Ctx) : Ctx × Bool :=
  match c.comp.segs.getLast? with
  | none => (c, false)
  | some b =>
    if b.start ≥ c.input.length then (c, false)
    else (setInput env c (c.input.take b.start), true)

/-- Context::ReopenPreviousSelection, on the reversed segment list (head = back).
Returns the new reversed list when a selection was reopened. -/
def reopenSelRev (caret : Nat) : List Seg → Option (List Seg)
  | [] => none
  | g :: rest =>
    if g.status.rank > Status.selected.rank then none
    else if g.status = .selected then
      if g.tags.selectedBeforeEditing then none
      else some ((g.reopen caret).1 :: rest)
    else reopenSelRev caret rest

def reopenPreviousSelection (env : Env) (c : Ctx) : Ctx × Bool :=
  match reopenSelRev c.caret c.comp.segs.reverse with
  | none => (c, false)
  | some r => (update env (c.modComp (fun k => { k with segs := r.reverse })), true)

/-- Context::ClearNonConfirmedComposition -/
def dropNonConfirmedRev : List Seg → List Seg × Bool
  | [] => ([], false)
  | g :: rest => if g.status.rank < Status.selected.rank then ((dropNonConfirmedRev rest).1, true) else (g :: rest, false)

def clearNonConfirmedComposition (c : Ctx) : Ctx × Bool :=
  let (r, reverted) := dropNonConfirmedRev c.comp.segs.reverse
  if reverted then ((c.modComp (fun k => { k with segs := r.reverse })).modComp (fun k => k.forward.1), true)
  else (c, false)

def refreshNonConfirmedComposition (env : Env) (c : Ctx) : Ctx × Bool :=
  let (c1, r) := clearNonConfirmedComposition c
  if r then (update env c1, true) else (c, false)

/-- Context::set_option + ConcreteEngine::OnOptionUpdate -/
def setOption (env : Env) (c : Ctx) (name : String) (v : Bool) : Ctx :=
  let c1 := c.setOptionRaw name v
  if c1.isComposing then (refreshNonConfirmedComposition env c1).1 else c1

end Ctx
end RimeModel.Session
