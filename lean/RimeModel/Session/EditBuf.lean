import RimeModel.Session.Api
import RimeModel.Session.Compose
/-! C05: the editing-key alphabet, the plain text buffer it is compared with, the configuration
class `Cfg05`, and the state shape `J` that holds after any sequence of editing keys. -/
namespace RimeModel.Session

inductive EditKey where
  | letter (b : UInt8)
  | backSpace | delete | kpLeft | kpRight | right | home | end_ | escape
  deriving Repr, DecidableEq, Inhabited

def EditKey.toKey : EditKey → Key
  | .letter b => ⟨(b.toNat : Int), 0⟩
  | .backSpace => ⟨Gen.xkBackSpace, 0⟩
  | .delete => ⟨Gen.xkDelete, 0⟩
  | .kpLeft => ⟨Gen.xkKPLeft, 0⟩
  | .kpRight => ⟨Gen.xkKPRight, 0⟩
  | .right => ⟨Gen.xkRight, 0⟩
  | .home => ⟨Gen.xkHome, 0⟩
  | .end_ => ⟨Gen.xkEnd, 0⟩
  | .escape => ⟨Gen.xkEscape, 0⟩

def EditKey.isLetter : EditKey → Bool
  | .letter _ => true
  | _ => false

/-- the specification: a plain text buffer with a caret -/
structure Buf where
  text : Bytes := []
  caret : Nat := 0
  deriving Repr, DecidableEq, Inhabited

def Buf.step (b : Buf) : EditKey → Buf
  | .letter ch => { text := b.text.take b.caret ++ ch :: b.text.drop b.caret, caret := b.caret + 1 }
  | .backSpace => if b.caret = 0 then b else
      { text := b.text.take (b.caret - 1) ++ b.text.drop b.caret, caret := b.caret - 1 }
  | .delete => if b.caret + 1 > b.text.length then b else
      { text := b.text.take b.caret ++ b.text.drop (b.caret + 1), caret := b.caret }
  | .kpLeft => if b.caret = 0 then { b with caret := b.text.length } else { b with caret := b.caret - 1 }
  | .kpRight => if b.caret ≥ b.text.length then { b with caret := 0 } else { b with caret := b.caret + 1 }
  | .right => if b.caret ≥ b.text.length then { b with caret := 0 } else { b with caret := b.caret + 1 }
  | .home => { b with caret := 0 }
  | .end_ => { b with caret := b.text.length }
  | .escape => { text := [], caret := 0 }

/-- the law for the handled flag: exactly when the buffer was non-empty or the key is a spelling letter -/
def Buf.handled (b : Buf) (k : EditKey) : Bool := b.text ≠ [] || k.isLetter

/-- a spelling letter of the schema: printable, not space, in the alphabet and an initial -/
def IsLetter (env : Env) (b : UInt8) : Prop :=
  0x20 < b.toNat ∧ b.toNat < 0x7f ∧ env.alphabet.contains b = true ∧ env.initials.contains b = true

/-- the configuration class of C05 (DESIGN §3 C05): standard chain, no auto-select / auto-clear /
max code length / use_space; both stock schemas and the synthetic ones are in it -/
structure Cfg05 (env : Env) : Prop where
  procs : env.processors = [.speller, .selector, .navigator, .expressEditor] ∨
          env.processors = [.speller, .selector, .navigator, .fluidEditor]
  noAutoSelect : env.autoSelect = false
  noMaxLen : env.maxCodeLength = 0
  noAutoClear : env.autoClear = .none

/-- shape of the composition after editing keys only: nothing, or a single unselected segment from 0 -/
def Shape05 (input : Bytes) (segs : List Seg) : Prop :=
  (input = [] ∧ segs = []) ∨
  (input ≠ [] ∧ ∃ g, segs = [g] ∧ g.start = 0 ∧ 0 < g.stop ∧ g.status.rank < Status.selected.rank ∧ g.selIdx = 0 ∧
    g.menu.isSome = true ∧ g.tags.raw = false ∧ g.tags.placeholder = false)

/-- what C05 assumes of Compose on letter-only input (discharged for the concrete port in
`compose_letters`): from a `Shape05` composition of the *previous* input it produces a `Shape05`
composition of the new input -/
def LettersSpec (env : Env) : Prop :=
  ∀ (oldInput input : Bytes) (caret : Nat) (c : Comp), caret ≤ input.length → (∀ b ∈ input, IsLetter env b) →
    Shape05 oldInput c.segs → Shape05 input (env.recompose input caret c).segs

structure J (env : Env) (c : Ctx) : Prop where
  caret_le : c.caret ≤ c.input.length
  letters : ∀ b ∈ c.input, IsLetter env b
  shape : Shape05 c.input c.comp.segs
  noVertical : c.getOption "_vertical" = false
  noLinear : c.getOption "_linear" = false
  noHorizontal : c.getOption "_horizontal" = false

def keyStep (env : Env) (a : Ctx × List Bool) (k : EditKey) : Ctx × List Bool :=
  ((processKey env k.toKey a.1).1, a.2 ++ [(processKey env k.toKey a.1).2])

def bufStep (a : Buf × List Bool) (k : EditKey) : Buf × List Bool := (a.1.step k, a.2 ++ [a.1.handled k])

/-- run a key sequence through the chain, collecting the handled flags -/
def runEditKeys (env : Env) (c : Ctx) (ks : List EditKey) : Ctx × List Bool := ks.foldl (keyStep env) (c, [])

/-- run the same sequence on the text buffer -/
def runBuf (b : Buf) (ks : List EditKey) : Buf × List Bool := ks.foldl bufStep (b, [])

end RimeModel.Session
