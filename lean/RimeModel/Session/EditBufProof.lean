import RimeModel.Session.EditBuf
import RimeModel.Session.KeymapFacts
/-! C05 proof: under `Cfg05` and `LettersSpec`, the processor chain refines the text buffer on the
editing-key alphabet. -/
namespace RimeModel.Session
open Ctx

variable {env : Env}

/-- re-establish `J` after an update of a state whose old composition had the shape for some old input -/
theorem J_update (hls : LettersSpec env) {c : Ctx} {oldInput : Bytes}
    (h1 : c.caret ≤ c.input.length) (h2 : ∀ b ∈ c.input, IsLetter env b) (h3 : Shape05 oldInput c.comp.segs)
    (hv : c.getOption "_vertical" = false) (hl : c.getOption "_linear" = false) (hh : c.getOption "_horizontal" = false) :
    J env (update env c) :=
  ⟨h1, h2, hls oldInput c.input c.caret c.comp h1 h2 h3, hv, hl, hh⟩

theorem pushInput_J (hls : LettersSpec env) {c : Ctx} (h : J env c) (b : UInt8) (hb : IsLetter env b) :
    J env (pushInput env c b) ∧ (pushInput env c b).input = c.input.take c.caret ++ b :: c.input.drop c.caret ∧
    (pushInput env c b).caret = c.caret + 1 ∧ (pushInput env c b).commitBuf = c.commitBuf := by
  have hc := h.caret_le
  unfold pushInput
  split
  · rename_i hge
    have heq : c.caret = c.input.length := by omega
    refine ⟨J_update hls (oldInput := c.input) (by simp) ?_ h.shape h.noVertical h.noLinear h.noHorizontal, ?_, ?_, rfl⟩
    · intro x hx
      simp only [List.mem_append, List.mem_singleton] at hx
      rcases hx with hx | rfl
      · exact h.letters x hx
      · exact hb
    · show c.input ++ [b] = _
      rw [heq]; simp
    · show c.input.length + 1 = c.caret + 1
      omega
  · refine ⟨J_update hls (oldInput := c.input) ?_ ?_ h.shape h.noVertical h.noLinear h.noHorizontal, rfl, rfl, rfl⟩
    · simp only [List.length_append, List.length_take, List.length_cons, List.length_drop]; omega
    · intro x hx
      simp only [List.mem_append, List.mem_cons] at hx
      rcases hx with hx | rfl | hx
      · exact h.letters x (List.mem_of_mem_take hx)
      · exact hb
      · exact h.letters x (List.mem_of_mem_drop hx)

theorem popInput_J (hls : LettersSpec env) {c : Ctx} (h : J env c) (hpos : 0 < c.caret) :
    J env (popInput env c 1).1 ∧ (popInput env c 1).2 = true ∧
    (popInput env c 1).1.input = c.input.take (c.caret - 1) ++ c.input.drop c.caret ∧
    (popInput env c 1).1.caret = c.caret - 1 ∧ (popInput env c 1).1.commitBuf = c.commitBuf := by
  have hc := h.caret_le
  unfold popInput
  have : ¬ c.caret < 1 := by omega
  simp only [this, if_false]
  have hdrop : c.caret - 1 + 1 = c.caret := by omega
  refine ⟨J_update hls (oldInput := c.input) ?_ ?_ h.shape h.noVertical h.noLinear h.noHorizontal, trivial, ?_, rfl, rfl⟩
  · simp only [List.length_append, List.length_take, List.length_drop]; omega
  · intro x hx
    simp only [List.mem_append] at hx
    rcases hx with hx | hx
    · exact h.letters x (List.mem_of_mem_take hx)
    · exact h.letters x (List.mem_of_mem_drop hx)
  · show c.input.take (c.caret - 1) ++ c.input.drop (c.caret - 1 + 1) = _
    rw [hdrop]

theorem deleteInput_J (hls : LettersSpec env) {c : Ctx} (h : J env c) (hlt : c.caret + 1 ≤ c.input.length) :
    J env (deleteInput env c 1).1 ∧
    (deleteInput env c 1).1.input = c.input.take c.caret ++ c.input.drop (c.caret + 1) ∧
    (deleteInput env c 1).1.caret = c.caret ∧ (deleteInput env c 1).1.commitBuf = c.commitBuf := by
  unfold deleteInput
  have : ¬ c.caret + 1 > c.input.length := by omega
  simp only [this, if_false]
  refine ⟨J_update hls (oldInput := c.input) ?_ ?_ h.shape h.noVertical h.noLinear h.noHorizontal, rfl, rfl, rfl⟩
  · simp only [List.length_append, List.length_take, List.length_drop]; omega
  · intro x hx
    simp only [List.mem_append] at hx
    rcases hx with hx | hx
    · exact h.letters x (List.mem_of_mem_take hx)
    · exact h.letters x (List.mem_of_mem_drop hx)

theorem setCaretPos_J (hls : LettersSpec env) {c : Ctx} (h : J env c) (p : Nat) (hp : p ≤ c.input.length) :
    J env (setCaretPos env c p) ∧ (setCaretPos env c p).input = c.input ∧ (setCaretPos env c p).caret = p ∧
    (setCaretPos env c p).commitBuf = c.commitBuf := by
  unfold setCaretPos
  have : ¬ p > c.input.length := by omega
  simp only [this, if_false]
  exact ⟨J_update hls (oldInput := c.input) hp h.letters h.shape h.noVertical h.noLinear h.noHorizontal, rfl, rfl, rfl⟩

theorem setInput_nil_J (hls : LettersSpec env) {c : Ctx} (h : J env c) :
    J env (setInput env c []) ∧ (setInput env c []).input = [] ∧ (setInput env c []).caret = 0 ∧
    (setInput env c []).commitBuf = c.commitBuf := by
  unfold setInput
  exact ⟨J_update hls (oldInput := c.input) (by simp) (by intro b hb; simp at hb) h.shape h.noVertical h.noLinear h.noHorizontal,
    rfl, rfl, rfl⟩

theorem clear_J (hls : LettersSpec env) {c : Ctx} (h : J env c) :
    J env (clear env c) ∧ (clear env c).input = [] ∧ (clear env c).caret = 0 ∧ (clear env c).commitBuf = c.commitBuf := by
  unfold clear
  refine ⟨J_update hls (oldInput := []) (by simp) (by intro b hb; simp at hb) (Or.inl ⟨rfl, rfl⟩)
    h.noVertical h.noLinear h.noHorizontal, rfl, rfl, rfl⟩

end RimeModel.Session

namespace RimeModel.Session
open Ctx
variable {env : Env}

@[simp] theorem Key.has_zero (n : Int) (bit : Nat) : (Key.mk n 0).has bit = false := by
  simp [Key.has]
@[simp] theorem Key.release_zero (n : Int) : (Key.mk n 0).release = false := by simp [Key.release]
@[simp] theorem Key.ctrl_zero (n : Int) : (Key.mk n 0).ctrl = false := by simp [Key.ctrl]
@[simp] theorem Key.alt_zero (n : Int) : (Key.mk n 0).alt = false := by simp [Key.alt]
@[simp] theorem Key.shift_zero (n : Int) : (Key.mk n 0).shift = false := by simp [Key.shift]
@[simp] theorem Key.super_zero (n : Int) : (Key.mk n 0).super = false := by simp [Key.super]

theorem J.composing {c : Ctx} (h : J env c) : c.isComposing = decide (c.input ≠ []) := by
  unfold Ctx.isComposing
  rcases h.shape with ⟨hi, hs⟩ | ⟨hi, g, hs, _⟩
  · simp [hi, hs]
  · simp [hi, hs]

theorem beginEditing_J {c : Ctx} (h : J env c) : c.beginEditing = c := by
  have hs : (beginEditingRev c.comp.segs.reverse).reverse = c.comp.segs := by
    rcases h.shape with ⟨_, hs⟩ | ⟨_, g, hs, _, _, hst, _⟩
    · simp [hs, beginEditingRev]
    · have h1 : ¬ g.status.rank > Status.selected.rank := by omega
      have h2 : g.status ≠ .selected := by
        intro he; rw [he] at hst; simp [Status.rank] at hst
      simp [hs, beginEditingRev, h1, h2]
  obtain ⟨input, caret, ⟨ci, segs⟩, opts, buf, ni, ns⟩ := c
  simp only [Ctx.beginEditing, Ctx.modComp] at hs ⊢
  rw [hs]

/-- speller ignores non-printable keys -/
theorem speller_noop_of_ge (n : Int) (hn : n ≥ 0x7f) (c : Ctx) : spellerProcess env ⟨n, 0⟩ c = (c, .noop) := by
  unfold spellerProcess
  simp only [Key.release_zero, Key.ctrl_zero, Key.alt_zero, Key.super_zero, Bool.or_self, Bool.false_eq_true, if_false]
  have : (decide (n < 0x20) || decide (n ≥ 0x7f)) = true := by simp [hn]
  simp only [this, if_true]

/-- speller accepts a letter: push + begin editing (under Cfg05) -/
theorem speller_letter (hcfg : Cfg05 env) (hls : LettersSpec env) {c : Ctx} (h : J env c) (b : UInt8) (hb : IsLetter env b) :
    spellerProcess env ⟨(b.toNat : Int), 0⟩ c = (pushInput env c b, .accepted) := by
  obtain ⟨hb1, hb2, hb3, hb4⟩ := hb
  have hpush := pushInput_J hls h b ⟨hb1, hb2, hb3, hb4⟩
  unfold spellerProcess
  simp only [Key.release_zero, Key.ctrl_zero, Key.alt_zero, Key.super_zero, Bool.or_self, Bool.false_eq_true, if_false]
  have h1 : (decide ((b.toNat : Int) < 0x20) || decide ((b.toNat : Int) ≥ 0x7f)) = false := by
    simp only [Bool.or_eq_false_iff, decide_eq_false_iff_not]; omega
  have hbyte : (Key.mk (b.toNat : Int) 0).byte = b := by
    simp [Key.byte]
  have h2 : ((b.toNat : Int) = 0x20) = False := by simp; omega
  simp only [h1, Bool.false_eq_true, if_false, hbyte, hb3, hb4, h2, decide_false, Bool.false_and, Bool.not_true,
    Bool.false_or, Bool.and_false]
  -- spellerPre is the identity, autoSelectUniqueCandidate is off
  have hpre : spellerPre env true c = c := by
    unfold spellerPre autoSelectAtMaxCodeLength
    simp [hcfg.noMaxLen, hcfg.noAutoClear]
  have huniq : ∀ c', autoSelectUniqueCandidate env c' = (c', false) := by
    intro c'; unfold autoSelectUniqueCandidate; simp [hcfg.noAutoSelect]
  have hpost : ∀ c', spellerPost env (c', false) = c' := by
    intro c'; unfold spellerPost; simp [hcfg.noAutoClear]
  have hprevm : ∀ pv c', autoSelectPreviousMatch env pv c' = (c', false) := by
    intro pv c'; unfold autoSelectPreviousMatch; simp [hcfg.noAutoSelect]
  simp only [hpre, beginEditing_J hpush.1]
  unfold spellerTail
  simp only [hprevm, huniq, hpost, Bool.false_and, Bool.false_eq_true, if_false]

end RimeModel.Session

namespace RimeModel.Session
open Ctx
variable {env : Env}

theorem kbpProcess_mask0 {α : Type} (km : Keymap α) (act : α → Ctx → Ctx × Bool) (sac ish : Bool) (n : Int) (c : Ctx) :
    kbpProcess km act sac ish ⟨n, 0⟩ c =
      if (kbpAccept km act n 0 c).2 then ((kbpAccept km act n 0 c).1, .accepted) else ((kbpAccept km act n 0 c).1, .noop) := by
  unfold kbpProcess
  simp only [Key.ctrl_zero, Key.alt_zero, Key.shift_zero, Bool.or_self, Bool.false_eq_true, if_false]

theorem kbpAccept_none {α : Type} {km : Keymap α} {act : α → Ctx → Ctx × Bool} {n : Int} {c : Ctx}
    (h : km.find n 0 = none) : kbpAccept km act n 0 c = (c, false) := by
  unfold kbpAccept; rw [h]

theorem kbpAccept_some {α : Type} {km : Keymap α} {act : α → Ctx → Ctx × Bool} {n : Int} {c : Ctx} {a : α}
    (h : km.find n 0 = some a) : kbpAccept km act n 0 c = act a c := by
  unfold kbpAccept; rw [h]

theorem selectorKeymap_J {c : Ctx} (h : J env c) : selectorKeymap c = Gen.selectorKeymap0 := by
  unfold selectorKeymap isVertical isLinear
  simp [h.noVertical, h.noLinear, h.noHorizontal]

/-- a code in the function-key range is neither a printable select key nor a digit -/
def FnCode (n : Int) : Prop := n ≥ 0xff00 ∧ ¬ (n ≥ 0xffb0 ∧ n ≤ 0xffb9)

theorem selector_tail_noop (n : Int) (hn : FnCode n) (c : Ctx) (hacc : ∀ a, Gen.selectorKeymap0.find n 0 = some a → (selectorAct env a c) = (c, false))
    (h : J env c) : selectorProcess env ⟨n, 0⟩ c = (c, .noop) := by
  unfold selectorProcess
  simp only [Key.release_zero, Key.alt_zero, Key.super_zero, Bool.or_self, Bool.false_eq_true, if_false]
  rcases h.shape with ⟨_, hs⟩ | ⟨_, g, hs, _, _, _, _, hm, hr, _⟩
  · simp [hs]
  · have hk : kbpProcess (selectorKeymap c) (selectorAct env) false false ⟨n, 0⟩ c = (c, .noop) := by
      rw [kbpProcess_mask0, selectorKeymap_J h]
      cases hf : Gen.selectorKeymap0.find n 0 with
      | none => rw [kbpAccept_none hf]; simp
      | some a => rw [kbpAccept_some hf, hacc a hf]; simp
    have hnone : g.menu.isNone = false := by
      cases hmm : g.menu with
      | none => rw [hmm] at hm; simp at hm
      | some l => rfl
    obtain ⟨h1, h2⟩ := hn
    have hp : ¬ (n < 0x7f) := by omega
    have hd1 : ¬ (n ≤ 0x39) := by omega
    simp only [hs, List.getLast?_singleton, hnone, hr, Bool.or_self, Bool.false_eq_true, if_false, hk]
    simp [hp, hd1, h2]

end RimeModel.Session

namespace RimeModel.Session
open Ctx
variable {env : Env}

theorem selectorAct_home_J {c : Ctx} (h : J env c) : selectorAct env .home c = (c, false) := by
  unfold selectorAct
  rcases h.shape with ⟨_, hs⟩ | ⟨_, g, hs, _, _, _, hsel, _⟩
  · simp [hs]
  · simp [hs, hsel]

theorem selectorAct_end_J {c : Ctx} (h : J env c) : selectorAct env .end_ c = (c, false) := by
  unfold selectorAct
  rcases h.shape with ⟨_, hs⟩ | ⟨_, g, hs, _, _, _, hsel, _⟩
  · simp [hs]
  · simp [hs, hsel]

theorem J_nav {c : Ctx} (h : J env c) (a : Bytes) (b : List Nat) : J env { c with navInput := a, navSpans := b } :=
  ⟨h.caret_le, h.letters, h.shape, h.noVertical, h.noLinear, h.noHorizontal⟩

/-- facts about a state that differs from `c` only in the navigator's private fields -/
structure SameCore (c c1 : Ctx) : Prop where
  input : c1.input = c.input
  caret : c1.caret = c.caret
  comp : c1.comp = c.comp
  buf : c1.commitBuf = c.commitBuf

theorem navBeginMove_J {c : Ctx} (h : J env c) : J env (navBeginMove c) ∧ SameCore c (navBeginMove c) := by
  unfold navBeginMove
  rw [beginEditing_J h]
  dsimp only
  (repeat' split) <;> first
    | exact ⟨J_nav h _ _, ⟨rfl, rfl, rfl, rfl⟩⟩
    | exact ⟨h, ⟨rfl, rfl, rfl, rfl⟩⟩

/-- the effect of one caret move, in the vocabulary of the text buffer -/
structure MoveTo (env : Env) (c : Ctx) (r : Ctx) (p : Nat) : Prop where
  j : J env r
  input : r.input = c.input
  caret : r.caret = p
  buf : r.commitBuf = c.commitBuf

theorem moveTo_set (hls : LettersSpec env) {c c1 : Ctx} (h1 : J env c1) (hs : SameCore c c1) (p : Nat) (hp : p ≤ c.input.length) :
    MoveTo env c (setCaretPos env c1 p) p := by
  have := setCaretPos_J hls h1 p (by rw [hs.input]; exact hp)
  exact ⟨this.1, by rw [this.2.1, hs.input], this.2.2.1, by rw [this.2.2.2, hs.buf]⟩

theorem moveTo_stay {c c1 : Ctx} (h1 : J env c1) (hs : SameCore c c1) : MoveTo env c c1 c.caret :=
  ⟨h1, hs.input, hs.caret, hs.buf⟩

theorem navGoToEnd_J (hls : LettersSpec env) {c c1 : Ctx} (h1 : J env c1) (hs : SameCore c c1) :
    MoveTo env c (navGoToEnd env c1).1 c.input.length := by
  unfold navGoToEnd
  split
  · rw [hs.input]; exact moveTo_set hls h1 hs _ (Nat.le_refl _)
  · rename_i heq
    have : c.caret = c.input.length := by
      have := Decidable.of_not_not heq; rw [hs.caret, hs.input] at this; exact this
    rw [← this]; exact moveTo_stay h1 hs

theorem navGoHome_J (hls : LettersSpec env) {c c1 : Ctx} (h1 : J env c1) (hs : SameCore c c1) :
    MoveTo env c (navGoHome env c1).1 0 := by
  unfold navGoHome
  dsimp only
  have hconf : (if c1.comp.segs = [] then c1.caret else homeScanRev c1.caret c1.comp.segs.reverse) = (if c1.comp.segs = [] then c1.caret else 0) := by
    rcases h1.shape with ⟨_, hs'⟩ | ⟨_, g, hs', hg0, _, hst, _⟩
    · simp [hs']
    · have : ¬ g.status.rank ≥ Status.selected.rank := by omega
      simp [hs', homeScanRev, this, hg0]
  rw [hconf]
  by_cases hz : c1.caret = 0
  · have hres : (if (decide (c1.comp.segs ≠ []) && decide ((if c1.comp.segs = [] then c1.caret else 0) < c1.caret)) = true
        then (setCaretPos env c1 (if c1.comp.segs = [] then c1.caret else 0), true)
        else if c1.caret ≠ 0 then (setCaretPos env c1 0, true) else (c1, false)) = (c1, false) := by
      simp [hz]
    rw [hres]
    have := moveTo_stay h1 hs
    rw [← hs.caret, hz] at this
    exact this
  · by_cases hsg : c1.comp.segs = []
    · have hres : (if (decide (c1.comp.segs ≠ []) && decide ((if c1.comp.segs = [] then c1.caret else 0) < c1.caret)) = true
          then (setCaretPos env c1 (if c1.comp.segs = [] then c1.caret else 0), true)
          else if c1.caret ≠ 0 then (setCaretPos env c1 0, true) else (c1, false)) = (setCaretPos env c1 0, true) := by
        simp [hz, hsg]
      rw [hres]
      exact moveTo_set hls h1 hs 0 (Nat.zero_le _)
    · have hres : (if (decide (c1.comp.segs ≠ []) && decide ((if c1.comp.segs = [] then c1.caret else 0) < c1.caret)) = true
          then (setCaretPos env c1 (if c1.comp.segs = [] then c1.caret else 0), true)
          else if c1.caret ≠ 0 then (setCaretPos env c1 0, true) else (c1, false)) = (setCaretPos env c1 0, true) := by
        have : 0 < c1.caret := Nat.pos_of_ne_zero hz
        simp [hsg, this]
      rw [hres]
      exact moveTo_set hls h1 hs 0 (Nat.zero_le _)

end RimeModel.Session

namespace RimeModel.Session
open Ctx
variable {env : Env}

theorem orElse_fst_of_true {r : Ctx × Bool} {f : Ctx → Ctx × Bool} (h : r.2 = true) : (orElse r f).1 = r.1 := by
  unfold orElse; simp [h]

theorem orElse_fst_of_false {r : Ctx × Bool} {f : Ctx → Ctx × Bool} (h : r.2 = false) : (orElse r f).1 = (f r.1).1 := by
  unfold orElse; simp [h]

/-- leftByChar: caret−1, or wrap to the end from 0 -/
theorem nav_leftByChar (hls : LettersSpec env) {c : Ctx} (h : J env c) :
    MoveTo env c (navigatorAct env .leftByChar c).1 (if c.caret = 0 then c.input.length else c.caret - 1) ∧
    (navigatorAct env .leftByChar c).2 = true := by
  obtain ⟨h1, hs⟩ := navBeginMove_J h
  refine ⟨?_, rfl⟩
  show MoveTo env c (orElse (navMoveLeft env (navBeginMove c)) (navGoToEnd env)).1 _
  by_cases hz : c.caret = 0
  · have hml : navMoveLeft env (navBeginMove c) = (navBeginMove c, false) := by
      unfold navMoveLeft; simp [hs.caret, hz]
    rw [orElse_fst_of_false (by rw [hml]), hml]
    simp only [hz, if_true]
    exact navGoToEnd_J hls h1 hs
  · have hml : navMoveLeft env (navBeginMove c) = (setCaretPos env (navBeginMove c) (c.caret - 1), true) := by
      unfold navMoveLeft; simp [hs.caret, hz]
    rw [orElse_fst_of_true (by rw [hml]), hml]
    simp only [hz, if_false]
    exact moveTo_set hls h1 hs _ (by have := h.caret_le; omega)

/-- rightByChar: caret+1, or wrap to 0 from the end -/
theorem nav_rightByChar (hls : LettersSpec env) {c : Ctx} (h : J env c) :
    MoveTo env c (navigatorAct env .rightByChar c).1 (if c.caret ≥ c.input.length then 0 else c.caret + 1) ∧
    (navigatorAct env .rightByChar c).2 = true := by
  obtain ⟨h1, hs⟩ := navBeginMove_J h
  refine ⟨?_, rfl⟩
  show MoveTo env c (orElse (navMoveRight env (navBeginMove c)) (navGoHome env)).1 _
  by_cases hz : c.caret ≥ c.input.length
  · have hml : navMoveRight env (navBeginMove c) = (navBeginMove c, false) := by
      unfold navMoveRight; simp [hs.caret, hs.input, hz]
    rw [orElse_fst_of_false (by rw [hml]), hml]
    simp only [hz, if_true]
    exact navGoHome_J hls h1 hs
  · have hml : navMoveRight env (navBeginMove c) = (setCaretPos env (navBeginMove c) (c.caret + 1), true) := by
      unfold navMoveRight; simp [hs.caret, hs.input, hz]
    rw [orElse_fst_of_true (by rw [hml]), hml]
    simp only [hz, if_false]
    exact moveTo_set hls h1 hs _ (by omega)

theorem nav_home (hls : LettersSpec env) {c : Ctx} (h : J env c) :
    MoveTo env c (navigatorAct env .home c).1 0 ∧ (navigatorAct env .home c).2 = true := by
  obtain ⟨h1, hs⟩ := navBeginMove_J h
  exact ⟨navGoHome_J hls h1 hs, rfl⟩

theorem nav_end (hls : LettersSpec env) {c : Ctx} (h : J env c) :
    MoveTo env c (navigatorAct env .end_ c).1 c.input.length ∧ (navigatorAct env .end_ c).2 = true := by
  obtain ⟨h1, hs⟩ := navBeginMove_J h
  exact ⟨navGoToEnd_J hls h1 hs, rfl⟩

/-- navigator on a mask-0 key, composing state -/
theorem navigatorProcess_mask0 {c : Ctx} (h : J env c) (n : Int) (hne : c.input ≠ []) :
    navigatorProcess env ⟨n, 0⟩ c =
      if (kbpAccept Gen.navigatorKeymap0 (navigatorAct env) n 0 c).2
      then ((kbpAccept Gen.navigatorKeymap0 (navigatorAct env) n 0 c).1, .accepted)
      else ((kbpAccept Gen.navigatorKeymap0 (navigatorAct env) n 0 c).1, .noop) := by
  unfold navigatorProcess
  have hv : isVertical c = false := h.noVertical
  simp only [Key.release_zero, Bool.false_eq_true, if_false, h.composing, hne, ne_eq, not_false_eq_true, decide_true,
    Bool.not_true, hv]
  exact kbpProcess_mask0 _ _ _ _ _ _

theorem navigatorProcess_idle {c : Ctx} (h : J env c) (k : Key) (he : c.input = []) :
    navigatorProcess env k c = (c, .noop) := by
  unfold navigatorProcess
  split
  · rfl
  · simp [h.composing, he]

end RimeModel.Session

namespace RimeModel.Session
open Ctx
variable {env : Env}

theorem reopenPreviousSelection_J {c : Ctx} (h : J env c) : reopenPreviousSelection env c = (c, false) := by
  unfold reopenPreviousSelection
  have : reopenSelRev c.caret c.comp.segs.reverse = none := by
    rcases h.shape with ⟨_, hs⟩ | ⟨_, g, hs, _, _, hst, _⟩
    · simp [hs, reopenSelRev]
    · have h1 : ¬ g.status.rank > Status.selected.rank := by omega
      have h2 : g.status ≠ .selected := by
        intro he; rw [he] at hst; simp [Status.rank] at hst
      simp [hs, reopenSelRev, h1, h2]
  rw [this]

theorem reopenPreviousSegment_J {c : Ctx} (h : J env c) : reopenPreviousSegment env c = (c, false) := by
  unfold reopenPreviousSegment
  have : c.comp.trim = (c.comp, false) := by
    unfold Comp.trim
    rcases h.shape with ⟨_, hs⟩ | ⟨_, g, hs, hg0, hg1, _⟩
    · simp [hs]
    · have : ¬ g.start = g.stop := by omega
      simp [hs, this]
  rw [this]
  simp

/-- what an editing action does, in the vocabulary of the text buffer -/
structure EditTo (env : Env) (c r : Ctx) (text : Bytes) (caret : Nat) : Prop where
  j : J env r
  input : r.input = text
  caret : r.caret = caret
  buf : r.commitBuf = c.commitBuf

theorem editTo_same {c : Ctx} (h : J env c) : EditTo env c c c.input c.caret := ⟨h, rfl, rfl, rfl⟩

theorem popThenReopen_J (hls : LettersSpec env) {c : Ctx} (h : J env c) :
    EditTo env c (popThenReopen env c).1
      (if c.caret = 0 then c.input else c.input.take (c.caret - 1) ++ c.input.drop c.caret)
      (if c.caret = 0 then c.caret else c.caret - 1) := by
  unfold popThenReopen
  by_cases hz : c.caret = 0
  · have : popInput env c = (c, false) := by unfold popInput; simp [hz]
    simp only [this, Bool.false_eq_true, if_false, hz, if_true]
    have := editTo_same h
    rw [hz] at this
    exact this
  · have hp := popInput_J hls h (Nat.pos_of_ne_zero hz)
    simp only [hp.2.1, if_true, hz, if_false]
    rw [reopenPreviousSegment_J hp.1]
    exact ⟨hp.1, hp.2.2.1, hp.2.2.2.1, hp.2.2.2.2⟩

theorem popInput_edit (hls : LettersSpec env) {c : Ctx} (h : J env c) :
    EditTo env c (popInput env c).1
      (if c.caret = 0 then c.input else c.input.take (c.caret - 1) ++ c.input.drop c.caret)
      (if c.caret = 0 then c.caret else c.caret - 1) := by
  by_cases hz : c.caret = 0
  · have : popInput env c = (c, false) := by unfold popInput; simp [hz]
    simp only [this, hz, if_true]
    have := editTo_same h
    rw [hz] at this
    exact this
  · have hp := popInput_J hls h (Nat.pos_of_ne_zero hz)
    simp only [hz, if_false]
    exact ⟨hp.1, hp.2.2.1, hp.2.2.2.1, hp.2.2.2.2⟩

theorem editor_revertLastEdit (hls : LettersSpec env) {c : Ctx} (h : J env c) :
    EditTo env c (editorAct env .revertLastEdit c).1
      (if c.caret = 0 then c.input else c.input.take (c.caret - 1) ++ c.input.drop c.caret)
      (if c.caret = 0 then c.caret else c.caret - 1) ∧ (editorAct env .revertLastEdit c).2 = true := by
  refine ⟨?_, rfl⟩
  show EditTo env c (orElse (reopenPreviousSelection env c) (popThenReopen env)).1 _ _
  rw [reopenPreviousSelection_J h, orElse_fst_of_false rfl]
  exact popThenReopen_J hls h

theorem editor_backToPreviousInput (hls : LettersSpec env) {c : Ctx} (h : J env c) :
    EditTo env c (editorAct env .backToPreviousInput c).1
      (if c.caret = 0 then c.input else c.input.take (c.caret - 1) ++ c.input.drop c.caret)
      (if c.caret = 0 then c.caret else c.caret - 1) ∧ (editorAct env .backToPreviousInput c).2 = true := by
  refine ⟨?_, rfl⟩
  show EditTo env c (orElse (orElse (reopenPreviousSegment env c) (reopenPreviousSelection env)) (popInput env)).1 _ _
  rw [reopenPreviousSegment_J h]
  have h1 : orElse ((c, false) : Ctx × Bool) (reopenPreviousSelection env) = (c, false) := by
    unfold orElse; simp [reopenPreviousSelection_J h]
  rw [h1, orElse_fst_of_false rfl]
  exact popInput_edit hls h

theorem editor_deleteChar (hls : LettersSpec env) {c : Ctx} (h : J env c) :
    EditTo env c (editorAct env .deleteChar c).1
      (if c.caret + 1 > c.input.length then c.input else c.input.take c.caret ++ c.input.drop (c.caret + 1)) c.caret ∧
    (editorAct env .deleteChar c).2 = true := by
  refine ⟨?_, rfl⟩
  show EditTo env c (deleteInput env c).1 _ _
  by_cases hz : c.caret + 1 > c.input.length
  · have : deleteInput env c = (c, false) := by unfold deleteInput; simp [hz]
    simp only [this, hz, if_true]
    exact editTo_same h
  · have hd := deleteInput_J hls h (by omega)
    simp only [hz, if_false]
    exact ⟨hd.1, hd.2.1, hd.2.2.1, hd.2.2.2⟩

theorem editor_cancel (hls : LettersSpec env) {c : Ctx} (h : J env c) (hne : c.input ≠ []) :
    EditTo env c (editorAct env .cancelComposition c).1 [] 0 ∧ (editorAct env .cancelComposition c).2 = true := by
  have hcp : clearPreviousSegment env c = (setInput env c [], true) := by
    unfold clearPreviousSegment
    rcases h.shape with ⟨hi, _⟩ | ⟨_, g, hs, hg0, _⟩
    · exact absurd hi hne
    · have : ¬ (0 ≥ c.input.length) := by
        have := List.length_pos_iff.mpr hne; omega
      simp [hs, hg0, this]
  have hsi := setInput_nil_J hls h
  unfold editorAct
  simp only [hcp, if_true]
  exact ⟨⟨hsi.1, hsi.2.1, hsi.2.2.1, hsi.2.2.2⟩, trivial⟩

end RimeModel.Session

namespace RimeModel.Session
open Ctx
variable {env : Env}

theorem editorProcess_fn {c : Ctx} (h : J env c) (fluid : Bool) (n : Int) (hn : n ≥ 0x7f) :
    editorProcess env fluid ⟨n, 0⟩ c =
      if c.input ≠ [] then
        (if (kbpAccept (if fluid then Gen.fluidEditorKeymap else Gen.expressEditorKeymap) (editorAct env) n 0 c).2
         then ((kbpAccept (if fluid then Gen.fluidEditorKeymap else Gen.expressEditorKeymap) (editorAct env) n 0 c).1, .accepted)
         else ((kbpAccept (if fluid then Gen.fluidEditorKeymap else Gen.expressEditorKeymap) (editorAct env) n 0 c).1, .noop))
      else (c, .noop) := by
  unfold editorProcess
  have hlt : ¬ (n < 0x7f) := by omega
  simp only [Key.release_zero, Bool.false_eq_true, if_false, h.composing, kbpProcess_mask0, Key.ctrl_zero, Key.alt_zero,
    Key.super_zero]
  generalize kbpAccept (if fluid = true then Gen.fluidEditorKeymap else Gen.expressEditorKeymap) (editorAct env) n 0 c = a
  obtain ⟨a1, a2⟩ := a
  by_cases hne : c.input = []
  · simp [hne, hlt]
  · cases a2 <;> simp [hne, hlt]

/-- the chain on a function key for a J-state: speller and selector pass, then navigator, then editor -/
theorem chain_fn (hcfg : Cfg05 env) {c : Ctx} (h : J env c) (n : Int) (hfn : FnCode n)
    (hsel : ∀ a, Gen.selectorKeymap0.find n 0 = some a → selectorAct env a c = (c, false)) (fluid : Bool)
    (hp : env.processors = [.speller, .selector, .navigator, if fluid then .fluidEditor else .expressEditor]) :
    processKey env ⟨n, 0⟩ c =
      (let rn := navigatorProcess env ⟨n, 0⟩ c
       match rn.2 with
       | .accepted => (rn.1, true)
       | .rejected => (rn.1, false)
       | .noop =>
         let re := editorProcess env fluid ⟨n, 0⟩ rn.1
         match re.2 with
         | .accepted => (re.1, true)
         | .rejected => (re.1, false)
         | .noop => (re.1, false)) := by
  unfold processKey
  rw [hp]
  have hs1 := speller_noop_of_ge (env := env) n (by obtain ⟨h1, _⟩ := hfn; omega) c
  have hs2 := selector_tail_noop n hfn c hsel h
  generalize hrn : navigatorProcess env ⟨n, 0⟩ c = rn
  obtain ⟨rn1, rn2⟩ := rn
  cases fluid <;> cases rn2 <;> simp [chain, procRun, hs1, hs2, hrn] <;>
    (generalize editorProcess env _ ⟨n, 0⟩ rn1 = re; obtain ⟨re1, re2⟩ := re; cases re2 <;> simp)

end RimeModel.Session

namespace RimeModel.Session
open Ctx
variable {env : Env}

/-- idle session: a function key passes through the whole chain unhandled and changes nothing -/
theorem step_idle (hcfg : Cfg05 env) {c : Ctx} (h : J env c) (n : Int) (hfn : FnCode n)
    (hsel : ∀ a, Gen.selectorKeymap0.find n 0 = some a → selectorAct env a c = (c, false)) (fluid : Bool)
    (hp : env.processors = [.speller, .selector, .navigator, if fluid then .fluidEditor else .expressEditor])
    (he : c.input = []) : processKey env ⟨n, 0⟩ c = (c, false) := by
  rw [chain_fn hcfg h n hfn hsel fluid hp, navigatorProcess_idle h _ he]
  simp only
  rw [editorProcess_fn h fluid n (by obtain ⟨h1, _⟩ := hfn; omega)]
  simp [he]

/-- composing session, key bound by the navigator -/
theorem step_nav (hcfg : Cfg05 env) {c : Ctx} (h : J env c) (n : Int) (hfn : FnCode n)
    (hsel : ∀ a, Gen.selectorKeymap0.find n 0 = some a → selectorAct env a c = (c, false)) (fluid : Bool)
    (hp : env.processors = [.speller, .selector, .navigator, if fluid then .fluidEditor else .expressEditor])
    (hne : c.input ≠ []) (a : NavAct) (hfind : Gen.navigatorKeymap0.find n 0 = some a)
    (hact : (navigatorAct env a c).2 = true) : processKey env ⟨n, 0⟩ c = ((navigatorAct env a c).1, true) := by
  rw [chain_fn hcfg h n hfn hsel fluid hp, navigatorProcess_mask0 h n hne, kbpAccept_some hfind]
  simp [hact]

/-- composing session, key not bound by the navigator but bound by the editor -/
theorem step_edit (hcfg : Cfg05 env) {c : Ctx} (h : J env c) (n : Int) (hfn : FnCode n)
    (hsel : ∀ a, Gen.selectorKeymap0.find n 0 = some a → selectorAct env a c = (c, false)) (fluid : Bool)
    (hp : env.processors = [.speller, .selector, .navigator, if fluid then .fluidEditor else .expressEditor])
    (hne : c.input ≠ []) (hnav : Gen.navigatorKeymap0.find n 0 = none) (a : EditorAct)
    (hfind : (if fluid then Gen.fluidEditorKeymap else Gen.expressEditorKeymap).find n 0 = some a)
    (hact : (editorAct env a c).2 = true) : processKey env ⟨n, 0⟩ c = ((editorAct env a c).1, true) := by
  rw [chain_fn hcfg h n hfn hsel fluid hp, navigatorProcess_mask0 h n hne, kbpAccept_none hnav]
  simp only [Bool.false_eq_true, if_false]
  rw [editorProcess_fn h fluid n (by obtain ⟨h1, _⟩ := hfn; omega), kbpAccept_some hfind]
  simp [hne, hact]

end RimeModel.Session

namespace RimeModel.Session
open Ctx
variable {env : Env}

/-- the observation compared with the text buffer -/
def Ctx.buf (c : Ctx) : Buf := { text := c.input, caret := c.caret }

structure StepOK (env : Env) (c : Ctx) (k : EditKey) (r : Ctx × Bool) : Prop where
  j : J env r.1
  obs : r.1.buf = c.buf.step k
  handled : r.2 = c.buf.handled k
  buf : r.1.commitBuf = c.commitBuf

theorem fn_backSpace : FnCode Gen.xkBackSpace := by unfold FnCode Gen.xkBackSpace; omega
theorem fn_delete : FnCode Gen.xkDelete := by unfold FnCode Gen.xkDelete; omega
theorem fn_kpLeft : FnCode Gen.xkKPLeft := by unfold FnCode Gen.xkKPLeft; omega
theorem fn_kpRight : FnCode Gen.xkKPRight := by unfold FnCode Gen.xkKPRight; omega
theorem fn_right : FnCode Gen.xkRight := by unfold FnCode Gen.xkRight; omega
theorem fn_home : FnCode Gen.xkHome := by unfold FnCode Gen.xkHome; omega
theorem fn_end : FnCode Gen.xkEnd := by unfold FnCode Gen.xkEnd; omega
theorem fn_escape : FnCode Gen.xkEscape := by unfold FnCode Gen.xkEscape; omega

theorem hsel_of_none {n : Int} {c : Ctx} (h : Gen.selectorKeymap0.find n 0 = none) :
    ∀ a, Gen.selectorKeymap0.find n 0 = some a → selectorAct env a c = (c, false) := by
  intro a ha; rw [h] at ha; simp at ha

theorem J.caret_zero_of_empty {c : Ctx} (h : J env c) (he : c.input = []) : c.caret = 0 := by
  have := h.caret_le; rw [he] at this; simpa using this

/-- idle state: every non-letter key leaves the buffer as the spec says (nothing to edit) -/
theorem idle_stepOK {c : Ctx} (h : J env c) (he : c.input = []) (k : EditKey) (hk : k.isLetter = false) :
    StepOK env c k (c, false) := by
  have hc := h.caret_zero_of_empty he
  refine ⟨h, ?_, ?_, rfl⟩
  · cases k <;> simp [Ctx.buf, Buf.step, he, hc, EditKey.isLetter] at hk ⊢
  · cases k <;> simp [Ctx.buf, Buf.handled, he, EditKey.isLetter] at hk ⊢

theorem stepOK_of_move {c : Ctx} {k : EditKey} {r : Ctx} {p : Nat} (hm : MoveTo env c r p) (hne : c.input ≠ [])
    (hk : k.isLetter = false) (hstep : c.buf.step k = { text := c.input, caret := p }) : StepOK env c k (r, true) :=
  ⟨hm.j, by rw [hstep]; simp [Ctx.buf, hm.input, hm.caret], by simp [Ctx.buf, Buf.handled, hne], hm.buf⟩

theorem stepOK_of_edit {c : Ctx} {k : EditKey} {r : Ctx} {t : Bytes} {p : Nat} (hm : EditTo env c r t p) (hne : c.input ≠ [])
    (hstep : c.buf.step k = { text := t, caret := p }) : StepOK env c k (r, true) :=
  ⟨hm.j, by rw [hstep]; simp [Ctx.buf, hm.input, hm.caret], by simp [Ctx.buf, Buf.handled, hne], hm.buf⟩

/-- **one key refines one buffer step** -/
theorem step_refines (hcfg : Cfg05 env) (hls : LettersSpec env) {c : Ctx} (h : J env c) (k : EditKey)
    (hk : ∀ b, k = .letter b → IsLetter env b) : StepOK env c k (processKey env k.toKey c) := by
  -- the editor flavour
  obtain ⟨fluid, hp⟩ : ∃ fluid : Bool, env.processors =
      [.speller, .selector, .navigator, if fluid then .fluidEditor else .expressEditor] := by
    rcases hcfg.procs with hp | hp
    · exact ⟨false, by simpa using hp⟩
    · exact ⟨true, by simpa using hp⟩
  cases k with
  | letter b =>
    have hb := hk b rfl
    have hpush := pushInput_J hls h b hb
    have : processKey env (EditKey.letter b).toKey c = (pushInput env c b, true) := by
      unfold processKey
      rw [hp]
      simp [chain, procRun, EditKey.toKey, speller_letter hcfg hls h b hb]
    rw [this]
    exact ⟨hpush.1, by simp [Ctx.buf, Buf.step, hpush.2.1, hpush.2.2.1], by simp [Buf.handled, EditKey.isLetter], hpush.2.2.2⟩
  | backSpace =>
    by_cases he : c.input = []
    · rw [show EditKey.backSpace.toKey = ⟨Gen.xkBackSpace, 0⟩ from rfl,
        step_idle hcfg h _ fn_backSpace (hsel_of_none sel0_backSpace) fluid hp he]
      exact idle_stepOK h he _ rfl
    · cases fluid with
      | false =>
        have ha := editor_revertLastEdit hls h
        rw [show EditKey.backSpace.toKey = ⟨Gen.xkBackSpace, 0⟩ from rfl,
          step_edit hcfg h _ fn_backSpace (hsel_of_none sel0_backSpace) false hp he nav0_backSpace .revertLastEdit
            (by simpa using express_backSpace) ha.2]
        exact stepOK_of_edit ha.1 he (by simp only [Ctx.buf, Buf.step]; split <;> simp_all)
      | true =>
        have ha := editor_backToPreviousInput hls h
        rw [show EditKey.backSpace.toKey = ⟨Gen.xkBackSpace, 0⟩ from rfl,
          step_edit hcfg h _ fn_backSpace (hsel_of_none sel0_backSpace) true hp he nav0_backSpace .backToPreviousInput
            (by simpa using fluid_backSpace) ha.2]
        exact stepOK_of_edit ha.1 he (by simp only [Ctx.buf, Buf.step]; split <;> simp_all)
  | delete =>
    by_cases he : c.input = []
    · rw [show EditKey.delete.toKey = ⟨Gen.xkDelete, 0⟩ from rfl,
        step_idle hcfg h _ fn_delete (hsel_of_none sel0_delete) fluid hp he]
      exact idle_stepOK h he _ rfl
    · have ha := editor_deleteChar hls h
      have hfind : (if fluid then Gen.fluidEditorKeymap else Gen.expressEditorKeymap).find Gen.xkDelete 0 = some .deleteChar := by
        cases fluid
        · simpa using express_delete
        · simpa using fluid_delete
      rw [show EditKey.delete.toKey = ⟨Gen.xkDelete, 0⟩ from rfl,
        step_edit hcfg h _ fn_delete (hsel_of_none sel0_delete) fluid hp he nav0_delete .deleteChar hfind ha.2]
      exact stepOK_of_edit ha.1 he (by simp only [Ctx.buf, Buf.step]; split <;> simp_all <;> omega)
  | kpLeft =>
    by_cases he : c.input = []
    · rw [show EditKey.kpLeft.toKey = ⟨Gen.xkKPLeft, 0⟩ from rfl,
        step_idle hcfg h _ fn_kpLeft (hsel_of_none sel0_kpLeft) fluid hp he]
      exact idle_stepOK h he _ rfl
    · have ha := nav_leftByChar hls h
      rw [show EditKey.kpLeft.toKey = ⟨Gen.xkKPLeft, 0⟩ from rfl,
        step_nav hcfg h _ fn_kpLeft (hsel_of_none sel0_kpLeft) fluid hp he .leftByChar nav0_kpLeft ha.2]
      exact stepOK_of_move ha.1 he rfl (by simp only [Ctx.buf, Buf.step]; split <;> simp_all)
  | kpRight =>
    by_cases he : c.input = []
    · rw [show EditKey.kpRight.toKey = ⟨Gen.xkKPRight, 0⟩ from rfl,
        step_idle hcfg h _ fn_kpRight (hsel_of_none sel0_kpRight) fluid hp he]
      exact idle_stepOK h he _ rfl
    · have ha := nav_rightByChar hls h
      rw [show EditKey.kpRight.toKey = ⟨Gen.xkKPRight, 0⟩ from rfl,
        step_nav hcfg h _ fn_kpRight (hsel_of_none sel0_kpRight) fluid hp he .rightByChar nav0_kpRight ha.2]
      exact stepOK_of_move ha.1 he rfl (by simp only [Ctx.buf, Buf.step]; split <;> simp_all)
  | right =>
    by_cases he : c.input = []
    · rw [show EditKey.right.toKey = ⟨Gen.xkRight, 0⟩ from rfl,
        step_idle hcfg h _ fn_right (hsel_of_none sel0_right) fluid hp he]
      exact idle_stepOK h he _ rfl
    · have ha := nav_rightByChar hls h
      rw [show EditKey.right.toKey = ⟨Gen.xkRight, 0⟩ from rfl,
        step_nav hcfg h _ fn_right (hsel_of_none sel0_right) fluid hp he .rightByChar nav0_right ha.2]
      exact stepOK_of_move ha.1 he rfl (by simp only [Ctx.buf, Buf.step]; split <;> simp_all)
  | home =>
    have hsel : ∀ a, Gen.selectorKeymap0.find Gen.xkHome 0 = some a → selectorAct env a c = (c, false) := by
      intro a ha; rw [sel0_home] at ha; simp only [Option.some.injEq] at ha; subst ha; exact selectorAct_home_J h
    by_cases he : c.input = []
    · rw [show EditKey.home.toKey = ⟨Gen.xkHome, 0⟩ from rfl, step_idle hcfg h _ fn_home hsel fluid hp he]
      exact idle_stepOK h he _ rfl
    · have ha := nav_home hls h
      rw [show EditKey.home.toKey = ⟨Gen.xkHome, 0⟩ from rfl,
        step_nav hcfg h _ fn_home hsel fluid hp he .home nav0_home ha.2]
      exact stepOK_of_move ha.1 he rfl (by simp [Ctx.buf, Buf.step])
  | end_ =>
    have hsel : ∀ a, Gen.selectorKeymap0.find Gen.xkEnd 0 = some a → selectorAct env a c = (c, false) := by
      intro a ha; rw [sel0_end_] at ha; simp only [Option.some.injEq] at ha; subst ha; exact selectorAct_end_J h
    by_cases he : c.input = []
    · rw [show EditKey.end_.toKey = ⟨Gen.xkEnd, 0⟩ from rfl, step_idle hcfg h _ fn_end hsel fluid hp he]
      exact idle_stepOK h he _ rfl
    · have ha := nav_end hls h
      rw [show EditKey.end_.toKey = ⟨Gen.xkEnd, 0⟩ from rfl,
        step_nav hcfg h _ fn_end hsel fluid hp he .end_ nav0_end_ ha.2]
      exact stepOK_of_move ha.1 he rfl (by simp [Ctx.buf, Buf.step])
  | escape =>
    by_cases he : c.input = []
    · rw [show EditKey.escape.toKey = ⟨Gen.xkEscape, 0⟩ from rfl,
        step_idle hcfg h _ fn_escape (hsel_of_none sel0_escape) fluid hp he]
      exact idle_stepOK h he _ rfl
    · have ha := editor_cancel hls h he
      have hfind : (if fluid then Gen.fluidEditorKeymap else Gen.expressEditorKeymap).find Gen.xkEscape 0 = some .cancelComposition := by
        cases fluid
        · simpa using express_escape
        · simpa using fluid_escape
      rw [show EditKey.escape.toKey = ⟨Gen.xkEscape, 0⟩ from rfl,
        step_edit hcfg h _ fn_escape (hsel_of_none sel0_escape) fluid hp he nav0_escape .cancelComposition hfind ha.2]
      exact stepOK_of_edit ha.1 he (by simp [Ctx.buf, Buf.step])

end RimeModel.Session

namespace RimeModel.Session
open Ctx
variable {env : Env}

/-- generalized induction: from any J-state, the chain and the buffer stay in step -/
theorem runEditKeys_refines (hcfg : Cfg05 env) (hls : LettersSpec env) :
    ∀ (ks : List EditKey) (c : Ctx) (acc : List Bool), J env c → (∀ k ∈ ks, ∀ b, k = .letter b → IsLetter env b) →
      J env (ks.foldl (keyStep env) (c, acc)).1 ∧
      (ks.foldl (keyStep env) (c, acc)).1.buf = (ks.foldl bufStep (c.buf, acc)).1 ∧
      (ks.foldl (keyStep env) (c, acc)).2 = (ks.foldl bufStep (c.buf, acc)).2 ∧
      (ks.foldl (keyStep env) (c, acc)).1.commitBuf = c.commitBuf
  | [], c, acc, h, _ => ⟨h, rfl, rfl, rfl⟩
  | k :: ks, c, acc, h, hk => by
    have hs := step_refines hcfg hls h k (hk k (by simp))
    have ih := runEditKeys_refines hcfg hls ks (processKey env k.toKey c).1 (acc ++ [(processKey env k.toKey c).2]) hs.j
      (fun k' hk' => hk k' (by simp [hk']))
    simp only [List.foldl_cons]
    have e1 : keyStep env (c, acc) k = ((processKey env k.toKey c).1, acc ++ [(processKey env k.toKey c).2]) := rfl
    have e2 : bufStep (c.buf, acc) k = ((processKey env k.toKey c).1.buf, acc ++ [(processKey env k.toKey c).2]) := by
      unfold bufStep; rw [hs.obs, hs.handled]
    rw [e1, e2]
    exact ⟨ih.1, ih.2.1, ih.2.2.1, by rw [ih.2.2.2, hs.buf]⟩

end RimeModel.Session
