import RimeModel.Session.Api
import RimeModel.Session.Compose
/-!
The *geometric* invariant of the session model: the segments of a composition tile a prefix of the
composition's input — the first starts at 0, each starts where the previous one ends, `start ≤ end`
for every segment, and (at API boundaries) every `end` is within the composition's input.

This file: definitions, list-level lemmas (snoc view: every mutator of the model changes the segment
list at its back), segment-level lemmas (`Seg.close`, `Seg.reopen`), `Comp.forward` / `Comp.trim` /
`Comp.addSegment`, and the "reversed list" form used by the mutators written over `segs.reverse`.
-/
namespace RimeModel.Session

/-- every candidate of the segment's menu ends at or after the segment's start.  This is what
`Segment::Close` needs: it sets `end := cand->end()` and must keep `start ≤ end`. -/
def CandGeo (g : Seg) : Prop := ∀ l, g.menu = some l → ∀ cd ∈ l, g.start ≤ cd.stop

/-- one segment: `start ≤ end` and its candidates end after its start -/
def SegGeo (g : Seg) : Prop := g.start ≤ g.stop ∧ CandGeo g

/-- adjacent contiguity: each segment starts where the previous one ends -/
def Chain : List Seg → Prop
  | [] => True
  | [_] => True
  | a :: b :: rest => b.start = a.stop ∧ Chain (b :: rest)

/-- the segments tile `[0, end of the last one)` -/
def GeoOK (l : List Seg) : Prop :=
  Chain l ∧ (∀ g, l.head? = some g → g.start = 0) ∧ ∀ g ∈ l, SegGeo g

/-- every segment ends within the composition's own copy of the input -/
def Bounded (c : Comp) : Prop := ∀ g ∈ c.segs, g.stop ≤ c.input.length

/-- `GetCurrentEndPosition` of a bare list -/
def endOf (l : List Seg) : Nat := match l.getLast? with | none => 0 | some b => b.stop

/-! ### list-level lemmas -/

theorem snoc_cases (l : List Seg) : l = [] ∨ ∃ l' b, l = l' ++ [b] := by
  rcases List.eq_nil_or_concat l with h | ⟨l', b, h⟩
  · exact Or.inl h
  · exact Or.inr ⟨l', b, by rw [h, List.concat_eq_append]⟩

theorem snoc_induction {P : List Seg → Prop} (h0 : P []) (h1 : ∀ l b, P l → P (l ++ [b])) : ∀ l, P l := by
  have : ∀ n (l : List Seg), l.length = n → P l := by
    intro n
    induction n with
    | zero => intro l hl; rw [List.length_eq_zero_iff.mp hl]; exact h0
    | succ n ih =>
      intro l hl
      rcases snoc_cases l with rfl | ⟨l', b, rfl⟩
      · exact h0
      · exact h1 l' b (ih l' (by simp at hl; omega))
  exact fun l => this l.length l rfl

theorem endOf_nil : endOf [] = 0 := rfl

theorem endOf_snoc (l : List Seg) (g : Seg) : endOf (l ++ [g]) = g.stop := by
  unfold endOf; rw [List.getLast?_concat]

theorem chain_cons_iff (a : Seg) (l : List Seg) :
    Chain (a :: l) ↔ (∀ b, l.head? = some b → b.start = a.stop) ∧ Chain l := by
  cases l <;> simp [Chain]

theorem chain_snoc (l : List Seg) (g : Seg) :
    Chain (l ++ [g]) ↔ Chain l ∧ g.start = (match l.getLast? with | none => g.start | some b => b.stop) := by
  induction l with
  | nil => simp [Chain]
  | cons a t ih =>
    rw [List.cons_append, chain_cons_iff, chain_cons_iff, ih]
    cases t with
    | nil => simp [Chain, and_comm]
    | cons b t' =>
      simp only [List.cons_append, List.head?_cons, Option.some.injEq, forall_eq', List.getLast?_cons_cons]
      constructor
      · rintro ⟨h1, h2, h3⟩; exact ⟨⟨h1, h2⟩, h3⟩
      · rintro ⟨⟨h1, h2⟩, h3⟩; exact ⟨h1, h2, h3⟩

theorem geoOK_nil : GeoOK [] := ⟨trivial, by simp, by simp⟩

theorem geoOK_snoc (l : List Seg) (g : Seg) :
    GeoOK (l ++ [g]) ↔ GeoOK l ∧ SegGeo g ∧ g.start = endOf l := by
  unfold GeoOK endOf
  rw [chain_snoc]
  cases l with
  | nil => simp [Chain, and_comm]
  | cons a t =>
    simp only [List.cons_append, List.head?_cons, Option.some.injEq, forall_eq', List.mem_cons,
      List.mem_append, List.mem_nil_iff, or_false]
    constructor
    · rintro ⟨⟨h1, h2⟩, h3, h4⟩
      rcases hl : (a :: t).getLast? with _ | b
      · simp at hl
      · rw [hl] at h2
        exact ⟨⟨h1, h3, fun x hx => h4 x (by rcases hx with h | h; exact Or.inl h; exact Or.inr (Or.inl h))⟩,
          h4 g (Or.inr (Or.inr rfl)), h2⟩
    · rintro ⟨⟨h1, h3, h4⟩, h5, h6⟩
      rcases hl : (a :: t).getLast? with _ | b
      · simp at hl
      · rw [hl] at h6
        refine ⟨⟨h1, h6⟩, h3, ?_⟩
        intro x hx
        rcases hx with h | h | h
        · exact h4 x (Or.inl h)
        · exact h4 x (Or.inr h)
        · rw [h]; exact h5

theorem GeoOK.init {l : List Seg} {g : Seg} (h : GeoOK (l ++ [g])) : GeoOK l := ((geoOK_snoc l g).mp h).1

theorem GeoOK.last {l : List Seg} {g : Seg} (h : GeoOK (l ++ [g])) : SegGeo g := ((geoOK_snoc l g).mp h).2.1

theorem GeoOK.last_start {l : List Seg} {g : Seg} (h : GeoOK (l ++ [g])) : g.start = endOf l :=
  ((geoOK_snoc l g).mp h).2.2

theorem GeoOK.seg {l : List Seg} (h : GeoOK l) {g : Seg} (hg : g ∈ l) : SegGeo g := h.2.2 g hg

/-- ends are non-decreasing along the list: every segment ends at or before the last one's end -/
theorem GeoOK.stop_le_endOf : ∀ {l : List Seg}, GeoOK l → ∀ g ∈ l, g.stop ≤ endOf l := by
  intro l
  induction l using snoc_induction with
  | h0 => intro _ g hg; simp at hg
  | h1 l b ih =>
    intro h g hg
    rw [endOf_snoc]
    rcases List.mem_append.mp hg with hg | hg
    · have := ih h.init g hg
      have := h.last_start
      have := h.last.1
      omega
    · simp at hg; rw [hg]; exact Nat.le_refl _

theorem GeoOK.dropLast {l : List Seg} (h : GeoOK l) : GeoOK l.dropLast := by
  rcases snoc_cases l with rfl | ⟨l', b, rfl⟩
  · exact geoOK_nil
  · rw [List.dropLast_concat]; exact h.init

/-- `getLast? = some b` as a snoc decomposition -/
theorem eq_snoc_of_getLast? {l : List Seg} {b : Seg} (h : l.getLast? = some b) : l = l.dropLast ++ [b] := by
  rcases snoc_cases l with rfl | ⟨l', b', rfl⟩
  · simp at h
  · rw [List.getLast?_concat] at h
    rw [List.dropLast_concat]
    simp only [Option.some.injEq] at h
    rw [h]

theorem GeoOK.getLast {l : List Seg} {b : Seg} (h : GeoOK l) (hb : l.getLast? = some b) : SegGeo b :=
  h.seg (List.mem_of_getLast? hb)

/-- replacing the last segment by one with the same start -/
theorem geoOK_replace_last {l : List Seg} {b g : Seg} (h : GeoOK (l ++ [b])) (hg : SegGeo g)
    (hs : g.start = b.start) : GeoOK (l ++ [g]) :=
  (geoOK_snoc l g).mpr ⟨h.init, hg, by rw [hs]; exact h.last_start⟩

theorem setLast_concat (l : List Seg) (b g : Seg) : setLast (l ++ [b]) g = l ++ [g] := by
  unfold setLast
  split
  · rename_i h; simp at h
  · rw [List.dropLast_concat]

theorem modLast_concat (l : List Seg) (b : Seg) (f : Seg → Seg) : modLast (l ++ [b]) f = l ++ [f b] := by
  unfold modLast
  rw [List.getLast?_concat, List.dropLast_concat]

theorem modLast_nil (f : Seg → Seg) : modLast [] f = [] := rfl

theorem geoOK_modLast {l : List Seg} {f : Seg → Seg} (h : GeoOK l)
    (hf : ∀ g, l.getLast? = some g → SegGeo g → SegGeo (f g) ∧ (f g).start = g.start) : GeoOK (modLast l f) := by
  rcases snoc_cases l with rfl | ⟨l', b, rfl⟩
  · exact geoOK_nil
  · rw [modLast_concat]
    have := hf b List.getLast?_concat h.last
    exact geoOK_replace_last h this.1 this.2

theorem geoOK_setLast {l : List Seg} {b g : Seg} (h : GeoOK l) (hb : l.getLast? = some b) (hg : SegGeo g)
    (hs : g.start = b.start) : GeoOK (setLast l g) := by
  rw [eq_snoc_of_getLast? hb] at h ⊢
  rw [setLast_concat]
  exact geoOK_replace_last h hg hs

theorem mem_setLast {l : List Seg} {g x : Seg} (hx : x ∈ setLast l g) : x ∈ l ∨ x = g := by
  unfold setLast at hx
  split at hx
  · simp at hx
  · rcases List.mem_append.mp hx with h | h
    · exact Or.inl (List.dropLast_subset _ h)
    · simp at h; exact Or.inr h

theorem mem_modLast {l : List Seg} {f : Seg → Seg} {x : Seg} (hx : x ∈ modLast l f) :
    x ∈ l ∨ ∃ g, l.getLast? = some g ∧ x = f g := by
  unfold modLast at hx
  split at hx
  · exact Or.inl hx
  · rename_i g hg
    rcases List.mem_append.mp hx with h | h
    · exact Or.inl (List.dropLast_subset _ h)
    · simp at h; exact Or.inr ⟨g, hg, h⟩

/-! ### bounds: with `GeoOK`, "every end ≤ n" is "the last end ≤ n" -/

theorem currentEnd_eq (c : Comp) : c.currentEnd = endOf c.segs := rfl

theorem bounded_iff_end {c : Comp} (h : GeoOK c.segs) : Bounded c ↔ endOf c.segs ≤ c.input.length := by
  constructor
  · intro hb
    unfold endOf
    split
    · exact Nat.zero_le _
    · rename_i b hb'; exact hb b (List.mem_of_getLast? hb')
  · intro he g hg
    exact Nat.le_trans (h.stop_le_endOf g hg) he

theorem endOf_of_getLast? {l : List Seg} {b : Seg} (h : l.getLast? = some b) : endOf l = b.stop := by
  unfold endOf; rw [h]

theorem endOf_dropLast_le {l : List Seg} (h : GeoOK l) : endOf l.dropLast ≤ endOf l := by
  rcases snoc_cases l with rfl | ⟨l', b, rfl⟩
  · exact Nat.le_refl _
  · rw [List.dropLast_concat, endOf_snoc, ← h.last_start]; exact h.last.1

/-! ### segment-level lemmas -/

theorem candGeo_of_menu_none {g : Seg} (h : g.menu = none) : CandGeo g := by
  intro l hl; rw [h] at hl; simp at hl

theorem segGeo_mk' {s e : Nat} (h : s ≤ e) : SegGeo (Seg.mk' s e) := ⟨h, candGeo_of_menu_none rfl⟩

/-- a segment that differs only in status / tags / selected index / prompt / length -/
theorem SegGeo.same {g g' : Seg} (h : SegGeo g) (h1 : g'.start = g.start) (h2 : g'.stop = g.stop)
    (h3 : g'.menu = g.menu) : SegGeo g' := by
  refine ⟨by rw [h1, h2]; exact h.1, ?_⟩
  intro l hl cd hcd
  rw [h1]
  exact h.2 l (by rw [← h3]; exact hl) cd hcd

/-- `Segment::Close` keeps the start, never moves the end to the right, and keeps `start ≤ end`
because the selected candidate ends after the segment's start -/
theorem segGeo_close {g : Seg} (h : SegGeo g) :
    SegGeo g.close ∧ g.close.start = g.start ∧ g.close.stop ≤ g.stop := by
  unfold Seg.close
  split
  · rename_i cd hcd
    split
    · rename_i hlt
      refine ⟨⟨?_, h.2⟩, rfl, Nat.le_of_lt hlt⟩
      unfold Seg.selected Seg.candAt at hcd
      split at hcd
      · simp at hcd
      · rename_i l hl
        exact h.2 l hl cd (List.mem_of_getElem? hcd)
    · exact ⟨h, rfl, Nat.le_refl _⟩
  · exact ⟨h, rfl, Nat.le_refl _⟩

/-- `Segment::Reopen` keeps the start and `start ≤ end` (it may move the end to the right, up to
`start + length`, only when that is the caret) -/
theorem segGeo_reopen {g : Seg} (h : SegGeo g) (caret : Nat) :
    SegGeo (g.reopen caret).1 ∧ (g.reopen caret).1.start = g.start := by
  unfold Seg.reopen
  split
  · exact ⟨h, rfl⟩
  · dsimp only
    split
    · split
      · refine ⟨⟨?_, h.2⟩, rfl⟩
        show g.start ≤ g.start + g.length
        omega
      · exact ⟨h, rfl⟩
    · exact ⟨h, rfl⟩

/-! ### `Segmentation::Forward`, `Trim`, `AddSegment` -/

theorem forward_geo {c : Comp} (h : GeoOK c.segs) :
    GeoOK c.forward.1.segs ∧ endOf c.forward.1.segs = endOf c.segs := by
  unfold Comp.forward
  split
  · exact ⟨h, rfl⟩
  · rename_i b hb
    split
    · exact ⟨h, rfl⟩
    · refine ⟨(geoOK_snoc _ _).mpr ⟨h, segGeo_mk' (Nat.le_refl _), ?_⟩, ?_⟩
      · rw [endOf_of_getLast? hb]; rfl
      · rw [endOf_snoc, endOf_of_getLast? hb]; rfl

theorem trim_geo {c : Comp} (h : GeoOK c.segs) :
    GeoOK c.trim.1.segs ∧ endOf c.trim.1.segs ≤ endOf c.segs := by
  unfold Comp.trim
  split
  · exact ⟨h, Nat.le_refl _⟩
  · split
    · exact ⟨h.dropLast, endOf_dropLast_le h⟩
    · exact ⟨h, Nat.le_refl _⟩

theorem currentStart_snoc (i : Bytes) (l : List Seg) (b : Seg) {a : Bool} :
    ({ input := i, segs := l ++ [b], ascii := a } : Comp).currentStart = b.start := by
  unfold Comp.currentStart; simp only [List.getLast?_concat]

theorem currentStart_of_getLast? {c : Comp} {b : Seg} (h : c.segs.getLast? = some b) : c.currentStart = b.start := by
  unfold Comp.currentStart; rw [h]

theorem currentStart_le_end {c : Comp} (h : GeoOK c.segs) : c.currentStart ≤ endOf c.segs := by
  rcases hl : c.segs.getLast? with _ | b
  · unfold Comp.currentStart; rw [hl]; exact Nat.zero_le _
  · rw [currentStart_of_getLast? hl, endOf_of_getLast? hl]; exact (h.getLast hl).1

/-- `AddSegment` of a well-shaped segment: the list stays contiguous (the new segment is accepted only
when it starts at the current start, and then replaces the last segment or merges its tags into it) and
the end becomes at most the larger of the two ends -/
theorem addSegment_geo {c : Comp} (h : GeoOK c.segs) {g : Seg} (hg : SegGeo g) :
    GeoOK (c.addSegment g).1.segs ∧
      (endOf (c.addSegment g).1.segs = endOf c.segs ∨ endOf (c.addSegment g).1.segs = g.stop) := by
  unfold Comp.addSegment
  split
  · exact ⟨h, Or.inl rfl⟩
  · rename_i hst
    have hst : g.start = c.currentStart := Classical.byContradiction hst
    split
    · rename_i hnone
      refine ⟨?_, Or.inr (endOf_snoc [] g)⟩
      have : c.currentStart = 0 := by unfold Comp.currentStart; rw [hnone]
      exact (geoOK_snoc [] g).mpr ⟨geoOK_nil, hg, by rw [hst, this]; rfl⟩
    · rename_i last hlast
      have hs : g.start = last.start := by rw [hst, currentStart_of_getLast? hlast]
      split
      · exact ⟨h, Or.inl rfl⟩
      · split
        · refine ⟨geoOK_setLast h hlast hg hs, Or.inr ?_⟩
          rw [eq_snoc_of_getLast? hlast, setLast_concat, endOf_snoc]
        · refine ⟨geoOK_setLast h hlast ((h.getLast hlast).same rfl rfl rfl) rfl, Or.inl ?_⟩
          rw [eq_snoc_of_getLast? hlast, setLast_concat, endOf_snoc, endOf_snoc]

/-! ### the reversed form (head = back), for the mutators written over `segs.reverse` -/

def rend : List Seg → Nat
  | [] => 0
  | b :: _ => b.stop

def RGeo : List Seg → Prop
  | [] => True
  | a :: r => a.start = rend r ∧ SegGeo a ∧ RGeo r

theorem rend_reverse (l : List Seg) : rend l.reverse = endOf l := by
  rcases snoc_cases l with rfl | ⟨l', b, rfl⟩
  · rfl
  · rw [List.reverse_append, endOf_snoc]; rfl

theorem geoOK_iff_rgeo : ∀ l : List Seg, GeoOK l ↔ RGeo l.reverse := by
  intro l
  induction l using snoc_induction with
  | h0 => simp [RGeo, geoOK_nil]
  | h1 l b ih =>
    rw [geoOK_snoc, List.reverse_append]
    show _ ↔ RGeo (b :: l.reverse)
    unfold RGeo
    rw [rend_reverse, ih]
    constructor
    · rintro ⟨h1, h2, h3⟩; exact ⟨h3, h2, h1⟩
    · rintro ⟨h1, h2, h3⟩; exact ⟨h3, h2, h1⟩

theorem rgeo_iff_geoOK (r : List Seg) : RGeo r ↔ GeoOK r.reverse := by
  rw [geoOK_iff_rgeo, List.reverse_reverse]

theorem RGeo.tail {a : Seg} {r : List Seg} (h : RGeo (a :: r)) : RGeo r := h.2.2

theorem RGeo.stop_le_rend {r : List Seg} (h : RGeo r) : ∀ g ∈ r, g.stop ≤ rend r := by
  intro g hg
  have := ((rgeo_iff_geoOK r).mp h).stop_le_endOf g (List.mem_reverse.mpr hg)
  rwa [← rend_reverse, List.reverse_reverse] at this

/-! ### index form and the tiling of the input -/

theorem Chain.getElem?_succ : ∀ {l : List Seg}, Chain l → ∀ (i : Nat) (a b : Seg),
    l[i]? = some a → l[i + 1]? = some b → b.start = a.stop
  | [], _, i, a, b, ha, _ => by simp at ha
  | x :: t, h, i, a, b, ha, hb => by
    rw [chain_cons_iff] at h
    cases i with
    | zero =>
      simp only [List.getElem?_cons_zero, Option.some.injEq] at ha
      simp only [Nat.zero_add, List.getElem?_cons_succ] at hb
      subst ha
      exact h.1 b (by rw [List.head?_eq_getElem?]; exact hb)
    | succ i =>
      simp only [List.getElem?_cons_succ] at ha hb
      exact Chain.getElem?_succ h.2 i a b ha hb

/-- the input slice `substr(start, end - start)` the C++ takes for a segment -/
def Seg.slice (input : Bytes) (g : Seg) : Bytes := substr input g.start (g.stop - g.start)

/-- contiguous segments tile the input: their slices, concatenated, are the input up to the last end -/
theorem slices_flatten (input : Bytes) : ∀ {l : List Seg}, GeoOK l →
    (l.map (Seg.slice input)).flatten = input.take (endOf l) := by
  intro l
  induction l using snoc_induction with
  | h0 => intro _; simp [endOf]
  | h1 l b ih =>
    intro h
    rw [List.map_append, List.flatten_append, ih h.init, endOf_snoc]
    simp only [List.map_cons, List.map_nil, List.flatten_cons, List.flatten_nil, List.append_nil]
    unfold Seg.slice substr
    rw [h.last_start]
    have hle : endOf l ≤ b.stop := by rw [← h.last_start]; exact h.last.1
    have : b.stop = endOf l + (b.stop - endOf l) := by omega
    conv => rhs; rw [this, List.take_add]

end RimeModel.Session
