import RimeModel.Session.Api
import RimeModel.Session.Compose
/-!
The *geometric* invariant of the session model: the segments of a composition tile a prefix of the
composition's input — the first starts at 0, each starts where the previous one ends, `start ≤ end`
for every segment, and (at API boundaries) every `end` is within the composition's input.

This file: definitions, list-level lemmas (snoc view: every mutator of the model changes the segment
list at its back), segment-level lemmas (`Seg.close`, `Seg.reopen`), `Comp.forward` / `Comp.trim` /
`Comp.addSegment`, and the "reversed list" form used by the mutators written over `segs.reverse`.
-/
namespace RimeModel.Session

/-- every candidate of the segment's menu ends at or after the segment's start.  This is what
`Segment::Close` needs: it sets `end := cand->end()` and must keep `start ≤ end`. -/
def CandGeo (g : Seg) : Prop := ∀ l, g.menu = some l → ∀ cd ∈ l, g.start ≤ cd.stop

/-- one segment: `start ≤ end` and its candidates end after its start -/
def SegGeo (g : Seg) : Prop := g.start ≤ g.stop ∧ CandGeo g

/-- adjacent contiguity: each segment starts where the previous one ends -/
def Chain : List Seg → Prop
  | [] => True
  | [_] => True
  | a :: b :: rest => b.start = a.stop ∧ Chain (b :: rest)

/-- the segments tile `[0, end of the last one)` -/
def GeoOK (l : List Seg) : Prop :=
  Chain l ∧ (∀ g, l.head? = some g → g.start = 0) ∧ ∀ g ∈ l, SegGeo g

/-- every segment ends within the composition's own copy of the input -/
def Bounded (c : Comp) : Prop := ∀ g ∈ c.segs, g.stop ≤ c.input.length

/-- `GetCurrentEndPosition` of a bare list -/
def endOf (l : List Seg) : Nat := match l.getLast? with | none => 0 | some b => b.stop

/-! ### list-level lemmas -/

theorem snoc_cases (l : List Seg) : l = [] ∨ ∃ l' b, l = l' ++ [b] := by
  rcases List.eq_nil_or_concat l with h | ⟨l', b, h⟩
  · exact Or.inl h
  · exact Or.inr ⟨l', b, by rw [h, List.concat_eq_append]⟩

theorem endOf_nil : endOf [] = 0 := rfl

theorem endOf_snoc (l : List Seg) (g : Seg) : endOf (l ++ [g]) = g.stop := by
  unfold endOf; rw [List.getLast?_concat]

theorem chain_cons_iff (a : Seg) (l : List Seg) :
    Chain (a :: l) ↔ (∀ b, l.head? = some b → b.start = a.stop) ∧ Chain l := by
  cases l <;> simp [Chain]

theorem chain_snoc (l : List Seg) (g : Seg) :
    Chain (l ++ [g]) ↔ Chain l ∧ g.start = (match l.getLast? with | none => g.start | some b => b.stop) := by
  induction l with
  | nil => simp [Chain]
  | cons a t ih =>
    rw [List.cons_append, chain_cons_iff, chain_cons_iff, ih]
    cases t with
    | nil => simp
    | cons b t' =>
      simp only [List.cons_append, List.head?_cons, Option.some.injEq, forall_eq', List.getLast?_cons_cons]
      constructor
      · rintro ⟨h1, h2, h3⟩; exact ⟨⟨h1, h2⟩, h3⟩
      · rintro ⟨⟨h1, h2⟩, h3⟩; exact ⟨h1, h2, h3⟩

theorem geoOK_nil : GeoOK [] := ⟨trivial, by simp, by simp⟩

theorem geoOK_snoc (l : List Seg) (g : Seg) :
    GeoOK (l ++ [g]) ↔ GeoOK l ∧ SegGeo g ∧ g.start = endOf l := by
  unfold GeoOK endOf
  rw [chain_snoc]
  cases l with
  | nil => simp
  | cons a t =>
    simp only [List.cons_append, List.head?_cons, Option.some.injEq, forall_eq', List.mem_cons,
      List.mem_append, List.mem_nil_iff, or_false]
    constructor
    · rintro ⟨⟨h1, h2⟩, h3, h4⟩
      rcases hl : (a :: t).getLast? with _ | b
      · simp at hl
      · rw [hl] at h2
        exact ⟨⟨h1, h3, fun x hx => h4 x (by rcases hx with h | h; exact Or.inl h; exact Or.inr (Or.inl h))⟩,
          h4 g (Or.inr (Or.inr rfl)), h2⟩
    · rintro ⟨⟨h1, h3, h4⟩, h5, h6⟩
      rcases hl : (a :: t).getLast? with _ | b
      · simp at hl
      · rw [hl] at h6
        refine ⟨⟨h1, by rw [hl]; exact h6⟩, h3, ?_⟩
        intro x hx
        rcases hx with h | h | h
        · exact h4 x (Or.inl h)
        · exact h4 x (Or.inr h)
        · rw [h]; exact h5

theorem GeoOK.init {l : List Seg} {g : Seg} (h : GeoOK (l ++ [g])) : GeoOK l := ((geoOK_snoc l g).mp h).1

theorem GeoOK.last {l : List Seg} {g : Seg} (h : GeoOK (l ++ [g])) : SegGeo g := ((geoOK_snoc l g).mp h).2.1

theorem GeoOK.last_start {l : List Seg} {g : Seg} (h : GeoOK (l ++ [g])) : g.start = endOf l :=
  ((geoOK_snoc l g).mp h).2.2

theorem GeoOK.seg {l : List Seg} (h : GeoOK l) {g : Seg} (hg : g ∈ l) : SegGeo g := h.2.2 g hg

/-- ends are non-decreasing along the list: every segment ends at or before the last one's end -/
theorem GeoOK.stop_le_endOf : ∀ {l : List Seg}, GeoOK l → ∀ g ∈ l, g.stop ≤ endOf l := by
  intro l
  induction l using List.reverseRecOn with
  | nil => intro _ g hg; simp at hg
  | append_singleton l b ih =>
    intro h g hg
    rw [endOf_snoc]
    rcases List.mem_append.mp hg with hg | hg
    · have := ih h.init g hg
      have := h.last_start
      have := h.last.1
      omega
    · simp at hg; rw [hg]; exact Nat.le_refl _

theorem GeoOK.dropLast {l : List Seg} (h : GeoOK l) : GeoOK l.dropLast := by
  rcases snoc_cases l with rfl | ⟨l', b, rfl⟩
  · exact geoOK_nil
  · rw [List.dropLast_concat]; exact h.init

/-- `getLast? = some b` as a snoc decomposition -/
theorem eq_snoc_of_getLast? {l : List Seg} {b : Seg} (h : l.getLast? = some b) : l = l.dropLast ++ [b] := by
  rcases snoc_cases l with rfl | ⟨l', b', rfl⟩
  · simp at h
  · rw [List.getLast?_concat] at h
    rw [List.dropLast_concat]
    simp only [Option.some.injEq] at h
    rw [h]

theorem GeoOK.getLast {l : List Seg} {b : Seg} (h : GeoOK l) (hb : l.getLast? = some b) : SegGeo b :=
  h.seg (List.mem_of_getLast? hb)

/-- replacing the last segment by one with the same start -/
theorem geoOK_replace_last {l : List Seg} {b g : Seg} (h : GeoOK (l ++ [b])) (hg : SegGeo g)
    (hs : g.start = b.start) : GeoOK (l ++ [g]) :=
  (geoOK_snoc l g).mpr ⟨h.init, hg, by rw [hs]; exact h.last_start⟩

theorem setLast_snoc (l : List Seg) (b g : Seg) : setLast (l ++ [b]) g = l ++ [g] := by
  unfold setLast
  split
  · rename_i h; simp at h
  · rw [List.dropLast_concat]

theorem modLast_snoc (l : List Seg) (b : Seg) (f : Seg → Seg) : modLast (l ++ [b]) f = l ++ [f b] := by
  unfold modLast
  rw [List.getLast?_concat, List.dropLast_concat]

theorem modLast_nil (f : Seg → Seg) : modLast [] f = [] := rfl

theorem geoOK_modLast {l : List Seg} {f : Seg → Seg} (h : GeoOK l)
    (hf : ∀ g, l.getLast? = some g → SegGeo g → SegGeo (f g) ∧ (f g).start = g.start) : GeoOK (modLast l f) := by
  rcases snoc_cases l with rfl | ⟨l', b, rfl⟩
  · exact geoOK_nil
  · rw [modLast_snoc]
    have := hf b List.getLast?_concat h.last
    exact geoOK_replace_last h this.1 this.2

theorem geoOK_setLast {l : List Seg} {b g : Seg} (h : GeoOK l) (hb : l.getLast? = some b) (hg : SegGeo g)
    (hs : g.start = b.start) : GeoOK (setLast l g) := by
  rw [eq_snoc_of_getLast? hb] at h ⊢
  rw [setLast_snoc]
  exact geoOK_replace_last h hg hs

theorem mem_setLast {l : List Seg} {g x : Seg} (hx : x ∈ setLast l g) : x ∈ l ∨ x = g := by
  unfold setLast at hx
  split at hx
  · simp at hx
  · rcases List.mem_append.mp hx with h | h
    · exact Or.inl (List.dropLast_subset _ h)
    · simp at h; exact Or.inr h

theorem mem_modLast {l : List Seg} {f : Seg → Seg} {x : Seg} (hx : x ∈ modLast l f) :
    x ∈ l ∨ ∃ g, l.getLast? = some g ∧ x = f g := by
  unfold modLast at hx
  split at hx
  · exact Or.inl hx
  · rename_i g hg
    rcases List.mem_append.mp hx with h | h
    · exact Or.inl (List.dropLast_subset _ h)
    · simp at h; exact Or.inr ⟨g, hg, h⟩

end RimeModel.Session
