import RimeModel.Session.GeoCtx
import RimeModel.Session.ComposeOK
/-!
The concrete port of `ConcreteEngine::Compose` (Reset, CalculateSegmentation with the abc and fallback
segmentors, TranslateSegments) preserves the geometric invariant — `compose_geo_spec` — under the
hypothesis `TranslateGeo` on the translation oracle.  (The termination of the segmentation loop is in
`Session/GeoLoop.lean`.)
-/
namespace RimeModel.Session

/-- HYPOTHESIS on the translation oracle (the translators + filters of the schema, which are outside the
model): every candidate produced for a well-shaped segment (`start ≤ end`) ends at or after the segment's
start.  Real translators produce candidates with `start = segment.start < end ≤ segment.end`; only
`segment.start ≤ end` is needed here (it is what keeps `start ≤ end` when `Segment::Close` moves the
segment's end to the selected candidate's end). -/
def TranslateGeo (cfg : SegCfg) : Prop :=
  ∀ inp g, g.start ≤ g.stop → ∀ cd ∈ cfg.translate inp g, g.start ≤ cd.stop

/-- what the segmentation loop maintains: contiguous segments that end within the input -/
def LoopInv (c : Comp) : Prop := GeoOK c.segs ∧ endOf c.segs ≤ c.input.length

theorem LoopInv.bounded {c : Comp} (h : LoopInv c) : Bounded c := (bounded_iff_end h.1).mpr h.2

/-! ### `Segmentation::Reset` -/

theorem commonPrefixLen_le_right : ∀ (a b : Bytes), commonPrefixLen a b ≤ b.length
  | [], _ => by simp [commonPrefixLen]
  | _ :: _, [] => by simp [commonPrefixLen]
  | x :: as, y :: bs => by
    unfold commonPrefixLen
    have := commonPrefixLen_le_right as bs
    split
    · simp only [List.length_cons]; omega
    · exact Nat.zero_le _

theorem popWhileEndGt_geo (pos : Nat) : ∀ {r : List Seg}, RGeo r →
    RGeo (popWhileEndGt pos r).1 ∧ rend (popWhileEndGt pos r).1 ≤ pos
  | [], h => ⟨h, Nat.zero_le _⟩
  | g :: rest, h => by
    unfold popWhileEndGt
    split
    · exact popWhileEndGt_geo pos h.tail
    · rename_i hle
      exact ⟨h, by show g.stop ≤ pos; omega⟩

/-- `Reset(new_input)` keeps a contiguous prefix of the segments, all of which end within the common
prefix of the old and the new input — hence within the new input -/
theorem reset_geo {c : Comp} (h : GeoOK c.segs) (ni : Bytes) : LoopInv (c.reset ni) := by
  unfold Comp.reset
  have hp := popWhileEndGt_geo (commonPrefixLen c.input ni) ((geoOK_iff_rgeo _).mp h)
  have hle := commonPrefixLen_le_right c.input ni
  have hg : GeoOK (popWhileEndGt (commonPrefixLen c.input ni) c.segs.reverse).1.reverse :=
    (rgeo_iff_geoOK _).mp hp.1
  have he : endOf (popWhileEndGt (commonPrefixLen c.input ni) c.segs.reverse).1.reverse ≤ ni.length := by
    rw [endOf_reverse]; omega
  dsimp only
  split
  · have hf := forward_geo (c := { c with segs := (popWhileEndGt (commonPrefixLen c.input ni) c.segs.reverse).1.reverse }) hg
    exact ⟨hf.1, by show endOf _ ≤ ni.length; rw [hf.2]; exact he⟩
  · exact ⟨hg, he⟩

/-! ### `AbcSegmentor::Proceed` -/

theorem abcScan_bounds (cfg : SegCfg) (input : Bytes) (j : Nat) : ∀ (fuel : Nat) (e : Bool) (k : Nat),
    k ≤ input.length → k ≤ abcScan cfg input j fuel e k ∧ abcScan cfg input j fuel e k ≤ input.length
  | 0, _, k, hk => ⟨Nat.le_refl _, hk⟩
  | fuel + 1, e, k, hk => by
    unfold abcScan
    split
    · exact ⟨Nat.le_refl _, hk⟩
    · rename_i ch hch
      have hlt : k < input.length := (List.getElem?_eq_some_iff.mp hch).1
      dsimp only
      split
      · exact ⟨Nat.le_refl _, hk⟩
      · split
        · exact ⟨Nat.le_refl _, hk⟩
        · have := abcScan_bounds cfg input j fuel (cfg.finals.contains ch || (k ≠ j && cfg.delimiters.contains ch)) (k + 1) hlt
          exact ⟨by omega, this.2⟩

theorem addSegment_currentStart (c : Comp) (g : Seg) : (c.addSegment g).1.currentStart = c.currentStart := by
  unfold Comp.addSegment
  split
  · rfl
  · rename_i hst
    have hst : g.start = c.currentStart := Classical.byContradiction hst
    split
    · rw [← hst]; rfl
    · rename_i last hlast
      have hl := eq_snoc_of_getLast? hlast
      split
      · rfl
      · split
        · show Comp.currentStart { c with segs := setLast c.segs g } = _
          rw [hl, setLast_concat, currentStart_snoc, hst]
        · show Comp.currentStart { c with segs := setLast c.segs _ } = _
          rw [hl, setLast_concat, currentStart_snoc]
          exact (currentStart_of_getLast? hlast).symm

theorem addSegment_loopInv {c : Comp} (h : LoopInv c) {g : Seg} (hg : SegGeo g) (hb : g.stop ≤ c.input.length) :
    LoopInv (c.addSegment g).1 := by
  have ha := addSegment_geo h.1 hg
  refine ⟨ha.1, ?_⟩
  rw [addSegment_input]
  rcases ha.2 with he | he <;> rw [he]
  · exact h.2
  · exact hb

theorem abcProceed_geo (cfg : SegCfg) {c : Comp} (h : LoopInv c) :
    LoopInv (abcProceed cfg c) ∧ (abcProceed cfg c).currentStart = c.currentStart := by
  unfold abcProceed
  dsimp only
  have hj : c.currentStart ≤ c.input.length := Nat.le_trans (currentStart_le_end h.1) h.2
  have hk := abcScan_bounds cfg c.input c.currentStart (c.input.length + 1) true c.currentStart hj
  split
  · refine ⟨addSegment_loopInv h ⟨?_, candGeo_of_menu_none rfl⟩ hk.2, addSegment_currentStart _ _⟩
    exact hk.1
  · exact ⟨h, rfl⟩

/-! ### `FallbackSegmentor::Proceed` -/

theorem forward_currentStart (c : Comp) : c.forward.1.currentStart = endOf c.segs := by
  unfold Comp.forward
  split
  · rename_i hnone
    show c.currentStart = _
    unfold Comp.currentStart endOf
    rw [hnone]
  · rename_i b hb
    split
    · rename_i heq
      show c.currentStart = _
      rw [currentStart_of_getLast? hb, endOf_of_getLast? hb]; exact heq
    · show Comp.currentStart { c with segs := c.segs ++ [Seg.mk' b.stop b.stop] } = _
      rw [currentStart_snoc, endOf_of_getLast? hb]; rfl

theorem setLast_of_getLast? {l : List Seg} {b : Seg} (h : l.getLast? = some b) (g : Seg) :
    setLast l g = l.dropLast ++ [g] := by
  rw [eq_snoc_of_getLast? h, setLast_concat, List.dropLast_concat]

/-- `AddSegment` of a segment that starts at the current start and ends after the current end: it becomes
the last segment -/
theorem addSegment_longer {c : Comp} (h : GeoOK c.segs) {g : Seg} (hg : SegGeo g) (hs : g.start = c.currentStart)
    (hlt : endOf c.segs < g.stop) : ∃ l', (c.addSegment g).1.segs = l' ++ [g] ∧ GeoOK (l' ++ [g]) := by
  have ha := (addSegment_geo h hg).1
  suffices hsh : ∃ l', (c.addSegment g).1.segs = l' ++ [g] by
    obtain ⟨l', hl'⟩ := hsh
    exact ⟨l', hl', by rw [← hl']; exact ha⟩
  unfold Comp.addSegment
  split
  · rename_i hne; exact absurd hs hne
  · split
    · exact ⟨[], rfl⟩
    · rename_i last hlast
      rw [endOf_of_getLast? hlast] at hlt
      (repeat' split) <;> first
        | omega
        | exact ⟨c.segs.dropLast, setLast_of_getLast? hlast g⟩

theorem addRaw_geo {c : Comp} (h : GeoOK c.segs) :
    GeoOK (addRaw c (endOf c.segs)).segs ∧ endOf (addRaw c (endOf c.segs)).segs = endOf c.segs + 1 := by
  unfold addRaw
  have hf := forward_geo h
  have hcs := forward_currentStart c
  have hsg : SegGeo (rawSeg (endOf c.segs)) :=
    ⟨by show endOf c.segs ≤ endOf c.segs + 1; omega, candGeo_of_menu_none rfl⟩
  obtain ⟨l', hl', hg'⟩ := addSegment_longer hf.1 hsg (by rw [hcs]; rfl)
    (by rw [hf.2]; show endOf c.segs < endOf c.segs + 1; omega)
  rw [hl']
  exact ⟨hg', by rw [endOf_snoc]; rfl⟩

theorem dropEmptyLast_geo {c : Comp} (h : GeoOK c.segs) (h0 : c.currentSegLen = 0) :
    GeoOK (dropEmptyLast c).segs ∧ endOf (dropEmptyLast c).segs = c.currentStart := by
  unfold dropEmptyLast
  split
  · rename_i b hb
    have hsb := h.getLast hb
    have hbb : b.start = b.stop := by
      unfold Comp.currentSegLen at h0
      rw [hb] at h0
      have := hsb.1
      simp only at h0
      omega
    rw [if_pos hbb]
    refine ⟨h.dropLast, ?_⟩
    show endOf c.segs.dropLast = _
    rw [currentStart_of_getLast? hb]
    have h' := h
    rw [eq_snoc_of_getLast? hb] at h'
    exact h'.last_start.symm
  · rename_i hnone
    refine ⟨h, ?_⟩
    unfold Comp.currentStart endOf
    rw [hnone]

/-- `FallbackSegmentor::Proceed`: either leaves the segmentation alone, or makes the last segment a raw
segment ending one byte after the current start (by extending the previous raw segment or by adding
`[k, k+1)`), which is within the input because the current start is not the input's end -/
theorem fallbackProceed_geo {c : Comp} (h : LoopInv c) :
    LoopInv (fallbackProceed c) ∧ c.currentStart ≤ endOf (fallbackProceed c).segs := by
  unfold fallbackProceed
  split
  · exact ⟨h, currentStart_le_end h.1⟩
  · rename_i h0
    have h0 : c.currentSegLen = 0 := by omega
    split
    · exact ⟨h, currentStart_le_end h.1⟩
    · rename_i hne
      have hd := dropEmptyLast_geo h.1 h0
      have hk : c.currentStart + 1 ≤ c.input.length := by
        have := currentStart_le_end h.1
        have := h.2
        omega
      have hraw : LoopInv (addRaw (dropEmptyLast c) c.currentStart) ∧
          c.currentStart ≤ endOf (addRaw (dropEmptyLast c) c.currentStart).segs := by
        have := addRaw_geo hd.1
        rw [hd.2] at this
        exact ⟨⟨this.1, by rw [this.2, addRaw_input, dropEmptyLast_input]; exact hk⟩, by rw [this.2]; omega⟩
      dsimp only
      split
      · rename_i last hlast
        split
        · have hls : last.stop = c.currentStart := by rw [← hd.2, endOf_of_getLast? hlast]
          have hsg : SegGeo (extendRaw last c.currentStart) := by
            refine ⟨?_, candGeo_of_menu_none rfl⟩
            show last.start ≤ c.currentStart + 1
            have := (hd.1.getLast hlast).1
            omega
          have hgeo := geoOK_setLast hd.1 hlast hsg rfl
          have he : endOf (setLast (dropEmptyLast c).segs (extendRaw last c.currentStart)) = c.currentStart + 1 := by
            rw [setLast_of_getLast? hlast, endOf_snoc]; rfl
          refine ⟨⟨hgeo, ?_⟩, ?_⟩
          · show endOf (setLast (dropEmptyLast c).segs (extendRaw last c.currentStart)) ≤ (dropEmptyLast c).input.length
            rw [he, dropEmptyLast_input]; exact hk
          · show _ ≤ endOf (setLast (dropEmptyLast c).segs (extendRaw last c.currentStart))
            rw [he]; omega
        · exact hraw
      · exact hraw

/-! ### the loop, `CalculateSegmentation`, `TranslateSegments`, `Compose` -/

/-- one round of the segmentors (abc, then fallback) -/
def segStep (cfg : SegCfg) (c : Comp) : Comp := fallbackProceed (abcProceed cfg c)

/-- one round keeps the loop invariant and the input, and never leaves the end left of the round's start -/
theorem segStep_geo (cfg : SegCfg) {c : Comp} (h : LoopInv c) :
    LoopInv (segStep cfg c) ∧ (segStep cfg c).input = c.input ∧ c.currentStart ≤ endOf (segStep cfg c).segs := by
  have ha := abcProceed_geo cfg h
  have hf := fallbackProceed_geo ha.1
  refine ⟨hf.1, ?_, ?_⟩
  · show (fallbackProceed (abcProceed cfg c)).input = _
    rw [fallbackProceed_input, abcProceed_input]
  · rw [← ha.2]; exact hf.2

theorem forward_loopInv {c : Comp} (h : LoopInv c) : LoopInv c.forward.1 := by
  have hf := forward_geo h.1
  exact ⟨hf.1, by rw [hf.2, forward_input]; exact h.2⟩

theorem trim_loopInv {c : Comp} (h : LoopInv c) : LoopInv c.trim.1 := by
  have ht := trim_geo h.1
  exact ⟨ht.1, by rw [trim_input]; exact Nat.le_trans ht.2 h.2⟩

theorem segLoop_geo (cfg : SegCfg) (caret : Nat) : ∀ (fuel : Nat) {c : Comp}, LoopInv c →
    LoopInv (segLoop cfg caret fuel c)
  | 0, _, h => h
  | fuel + 1, c, h => by
    have h1 : LoopInv (fallbackProceed (abcProceed cfg c)) := (segStep_geo cfg h).1
    unfold segLoop
    split
    · exact h
    · dsimp only
      split
      · exact h1
      · split
        · exact h1
        · split
          · exact segLoop_geo cfg caret fuel (forward_loopInv h1)
          · exact segLoop_geo cfg caret fuel h1

theorem trimUnlessPlaceholder_geo {c : Comp} (h : LoopInv c) : LoopInv (trimUnlessPlaceholder c) := by
  unfold trimUnlessPlaceholder
  split
  · split
    · exact trim_loopInv h
    · exact h
  · exact h

theorem forwardIfSelected_geo {c : Comp} (h : LoopInv c) : LoopInv (forwardIfSelected c) := by
  unfold forwardIfSelected
  split
  · split
    · exact forward_loopInv h
    · exact h
  · exact h

theorem calculateSegmentation_geo (cfg : SegCfg) (caret : Nat) {c : Comp} (h : LoopInv c) :
    LoopInv (calculateSegmentation cfg caret c) :=
  forwardIfSelected_geo (trimUnlessPlaceholder_geo (segLoop_geo cfg caret _ h))

theorem endOf_map {f : Seg → Seg} (he : ∀ g, (f g).stop = g.stop) (l : List Seg) : endOf (l.map f) = endOf l := by
  rcases snoc_cases l with rfl | ⟨l', b, rfl⟩
  · rfl
  · rw [List.map_append, List.map_singleton, endOf_snoc, endOf_snoc, he]

theorem geoOK_map {f : Seg → Seg} (hs : ∀ g, (f g).start = g.start) (he : ∀ g, (f g).stop = g.stop)
    (hg : ∀ g, SegGeo g → SegGeo (f g)) : ∀ {l : List Seg}, GeoOK l → GeoOK (l.map f) := by
  intro l
  induction l using snoc_induction with
  | h0 => intro h; exact h
  | h1 l b ih =>
    intro h
    rw [List.map_append, List.map_singleton, geoOK_snoc, endOf_map he, hs]
    exact ⟨ih h.init, hg b h.last, h.last_start⟩

/-- `TranslateSegments` changes only status, menu and selected index; under `TranslateGeo` the new menu's
candidates end after the segment's start -/
theorem translateSegments_geo (cfg : SegCfg) (htr : TranslateGeo cfg) {c : Comp} (h : LoopInv c) :
    LoopInv (translateSegments cfg c) := by
  unfold translateSegments
  have hs : ∀ g : Seg, (if g.status.rank ≥ Status.guess.rank then g else
      { g with status := .guess, menu := some (cfg.translate (substr c.input g.start (g.stop - g.start)) g),
               selIdx := 0 }).start = g.start := by
    intro g; split <;> rfl
  have he : ∀ g : Seg, (if g.status.rank ≥ Status.guess.rank then g else
      { g with status := .guess, menu := some (cfg.translate (substr c.input g.start (g.stop - g.start)) g),
               selIdx := 0 }).stop = g.stop := by
    intro g; split <;> rfl
  refine ⟨geoOK_map hs he ?_ h.1, ?_⟩
  · intro g hg
    split
    · exact hg
    · refine ⟨hg.1, ?_⟩
      intro l hl cd hcd
      simp only [Option.some.injEq] at hl
      subst hl
      exact htr _ g hg.1 cd hcd
  · show endOf (c.segs.map _) ≤ c.input.length
    rw [endOf_map he]; exact h.2

/-- the composition `Compose` hands to `CalculateSegmentation`: after `Reset(active_input)` and the
optional `Reset(input)` -/
def resetStage (input : Bytes) (caret : Nat) (c : Comp) : Comp :=
  let c1 := c.reset (input.take caret)
  if caret < input.length ∧ caret = c1.confirmedPos then c1.reset input else c1

theorem compose_eq (cfg : SegCfg) (input : Bytes) (caret : Nat) (c : Comp) :
    compose cfg input caret c =
      translateSegments cfg (calculateSegmentation cfg caret (resetStage input caret c)) := rfl

theorem resetStage_geo {c : Comp} (h : GeoOK c.segs) (input : Bytes) (caret : Nat) :
    LoopInv (resetStage input caret c) := by
  unfold resetStage
  dsimp only
  split
  · exact reset_geo (reset_geo h _).1 _
  · exact reset_geo h _

theorem compose_loopInv (cfg : SegCfg) (htr : TranslateGeo cfg) {c : Comp} (h : GeoOK c.segs)
    (input : Bytes) (caret : Nat) : LoopInv (compose cfg input caret c) := by
  rw [compose_eq]
  exact translateSegments_geo cfg htr (calculateSegmentation_geo cfg caret (resetStage_geo h input caret))

/-- the concrete Compose satisfies the hypothesis of the geometric session theorems, for every alphabet
configuration and every translation oracle whose candidates end after their segment's start -/
theorem compose_geo_spec (cfg : SegCfg) (htr : TranslateGeo cfg) : ComposeGeoSpec (compose cfg) :=
  ⟨fun input caret _ h => (compose_loopInv cfg htr h input caret).1,
   fun input caret _ h => (compose_loopInv cfg htr h input caret).bounded⟩

end RimeModel.Session
