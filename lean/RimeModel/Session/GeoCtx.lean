import RimeModel.Session.Geo
import RimeModel.Session.Inv
/-!
The geometric invariant at the level of `Ctx`, and its preservation by every Context primitive
(context.cc + the engine's notifier reactions), generic in the recomposition function.
Mirrors `Session/Inv.lean`.
-/
namespace RimeModel.Session

/-- what the geometric theorems assume of `ConcreteEngine::Compose`: from a contiguous segment list (whose
last end may lie anywhere — `Segment::Reopen` can move it to the caret just before Compose runs) it
produces a contiguous list that lies within the new composition input.  Discharged for the concrete port
in `Session/GeoCompose.lean` (`compose_geo_spec`), under `TranslateGeo`. -/
structure ComposeGeoSpec (rc : Bytes → Nat → Comp → Comp) : Prop where
  geo : ∀ input caret c, GeoOK c.segs → GeoOK (rc input caret c).segs
  bounded : ∀ input caret c, GeoOK c.segs → Bounded (rc input caret c)

/-- what holds of a state just before the engine recomposes it (no upper bound on the ends) -/
structure GeoPre (c : Ctx) : Prop where
  geo : GeoOK c.comp.segs

/-- what holds at API boundaries -/
structure GeoInv (c : Ctx) : Prop extends GeoPre c where
  bounded : Bounded c.comp

/-- the function changes neither start, end nor menu of a segment -/
def SameGeo (f : Seg → Seg) : Prop := ∀ g, (f g).start = g.start ∧ (f g).stop = g.stop ∧ (f g).menu = g.menu

open Ctx
variable {env : Env}

theorem GeoInv.of_comp {c c' : Ctx} (h : GeoInv c) (hc : c'.comp = c.comp) : GeoInv c' :=
  ⟨⟨by rw [hc]; exact h.geo⟩, by rw [hc]; exact h.bounded⟩

theorem GeoPre.of_comp {c c' : Ctx} (h : GeoPre c) (hc : c'.comp = c.comp) : GeoPre c' :=
  ⟨by rw [hc]; exact h.geo⟩

theorem GeoInv.end_le {c : Ctx} (h : GeoInv c) : endOf c.comp.segs ≤ c.comp.input.length :=
  (bounded_iff_end h.geo).mp h.bounded

theorem GeoInv.mk' {c : Ctx} (h : GeoOK c.comp.segs) (he : endOf c.comp.segs ≤ c.comp.input.length) : GeoInv c :=
  ⟨⟨h⟩, (bounded_iff_end h).mpr he⟩

theorem update_geo (hrc : ComposeGeoSpec env.recompose) {c : Ctx} (h : GeoPre c) : GeoInv (update env c) :=
  ⟨⟨hrc.geo _ _ _ h.geo⟩, hrc.bounded _ _ _ h.geo⟩

theorem clear_geo (hrc : ComposeGeoSpec env.recompose) (c : Ctx) : GeoInv (clear env c) := by
  unfold clear
  exact update_geo hrc ⟨geoOK_nil⟩

theorem commit_geo (hrc : ComposeGeoSpec env.recompose) {c : Ctx} (h : GeoInv c) : GeoInv (commit env c).1 := by
  unfold commit
  split
  · exact h
  · exact clear_geo hrc _

theorem pushInput_geo (hrc : ComposeGeoSpec env.recompose) {c : Ctx} (h : GeoInv c) (ch : UInt8) :
    GeoInv (pushInput env c ch) := by
  unfold pushInput
  split <;> exact update_geo hrc ⟨h.geo⟩

theorem popInput_geo (hrc : ComposeGeoSpec env.recompose) {c : Ctx} (h : GeoInv c) (len : Nat) :
    GeoInv (popInput env c len).1 := by
  unfold popInput
  split
  · exact h
  · exact update_geo hrc ⟨h.geo⟩

theorem deleteInput_geo (hrc : ComposeGeoSpec env.recompose) {c : Ctx} (h : GeoInv c) (len : Nat) :
    GeoInv (deleteInput env c len).1 := by
  unfold deleteInput
  split
  · exact h
  · exact update_geo hrc ⟨h.geo⟩

theorem setCaretPos_geo (hrc : ComposeGeoSpec env.recompose) {c : Ctx} (h : GeoPre c) (p : Nat) :
    GeoInv (setCaretPos env c p) := by
  unfold setCaretPos
  exact update_geo hrc ⟨h.geo⟩

theorem setInput_geo (hrc : ComposeGeoSpec env.recompose) {c : Ctx} (h : GeoPre c) (v : Bytes) :
    GeoInv (setInput env c v) := by
  unfold setInput
  exact update_geo hrc ⟨h.geo⟩

/-! ### changes of the last segment -/

theorem endOf_modLast_le {l : List Seg} {f : Seg → Seg}
    (hf : ∀ g, l.getLast? = some g → (f g).stop ≤ g.stop) : endOf (modLast l f) ≤ endOf l := by
  rcases snoc_cases l with rfl | ⟨l', b, rfl⟩
  · exact Nat.le_refl _
  · rw [modLast_concat, endOf_snoc, endOf_snoc]; exact hf b List.getLast?_concat

theorem modLastSeg_pre {c : Ctx} (h : GeoPre c) {f : Seg → Seg}
    (hf : ∀ g, c.comp.segs.getLast? = some g → SegGeo g → SegGeo (f g) ∧ (f g).start = g.start) :
    GeoPre (c.modLastSeg f) :=
  ⟨geoOK_modLast h.geo hf⟩

theorem modLastSeg_geo {c : Ctx} (h : GeoInv c) {f : Seg → Seg}
    (hf : ∀ g, c.comp.segs.getLast? = some g → SegGeo g →
      SegGeo (f g) ∧ (f g).start = g.start ∧ (f g).stop ≤ g.stop) :
    GeoInv (c.modLastSeg f) := by
  have hg : GeoOK (modLast c.comp.segs f) :=
    geoOK_modLast h.geo (fun g hg hs => ⟨(hf g hg hs).1, (hf g hg hs).2.1⟩)
  refine GeoInv.mk' hg (Nat.le_trans (endOf_modLast_le ?_) h.end_le)
  intro g hgl
  exact (hf g hgl (h.geo.getLast hgl)).2.2

theorem modLastSeg_same {c : Ctx} (h : GeoInv c) {f : Seg → Seg} (hf : SameGeo f) : GeoInv (c.modLastSeg f) :=
  modLastSeg_geo h (fun g _ hs =>
    ⟨hs.same (hf g).1 (hf g).2.1 (hf g).2.2, (hf g).1, by rw [(hf g).2.1]; exact Nat.le_refl _⟩)

theorem modLastSeg_pre_same {c : Ctx} (h : GeoPre c) {f : Seg → Seg} (hf : SameGeo f) : GeoPre (c.modLastSeg f) :=
  modLastSeg_pre h (fun g _ hs => ⟨hs.same (hf g).1 (hf g).2.1 (hf g).2.2, (hf g).1⟩)

theorem modComp_forward_geo {c : Ctx} (h : GeoInv c) : GeoInv (c.modComp (fun k => k.forward.1)) := by
  have hf := forward_geo h.geo
  refine GeoInv.mk' hf.1 ?_
  show endOf c.comp.forward.1.segs ≤ c.comp.forward.1.input.length
  rw [hf.2, forward_input]
  exact h.end_le

theorem onSelect_geo (hrc : ComposeGeoSpec env.recompose) {c : Ctx} (h : GeoInv c) : GeoInv (onSelect env c) := by
  unfold onSelect
  split
  · exact h
  · rename_i g0 hg0
    have hclose := segGeo_close (h.geo.getLast hg0)
    dsimp only
    split
    · have h1 : GeoInv (c.modLastSeg fun _ => { g0.close with status := .confirmed }) := by
        refine modLastSeg_geo h (fun g hg _ => ?_)
        have : g = g0 := by rw [hg0] at hg; exact (Option.some.inj hg).symm
        subst this
        exact ⟨hclose.1.same rfl rfl rfl, hclose.2.1, hclose.2.2⟩
      split
      · exact commit_geo hrc h1
      · exact modComp_forward_geo h1
    · have h1 : GeoInv ((c.modLastSeg fun _ => g0.close).modComp fun k => k.forward.1) := by
        refine modComp_forward_geo (modLastSeg_geo h (fun g hg _ => ?_))
        have : g = g0 := by rw [hg0] at hg; exact (Option.some.inj hg).symm
        subst this
        exact hclose
      split
      · exact setCaretPos_geo hrc h1.toGeoPre _
      · exact update_geo hrc h1.toGeoPre

theorem navSpans_geo {c : Ctx} (h : GeoInv c) (v : List Nat) : GeoInv { c with navSpans := v } := h.of_comp rfl

theorem select_geo (hrc : ComposeGeoSpec env.recompose) {c : Ctx} (h : GeoInv c) (i : Nat) :
    GeoInv (select env c i).1 := by
  unfold select
  split
  · exact h
  · split
    · refine navSpans_geo (onSelect_geo hrc (modLastSeg_same h ?_)) _
      exact fun _ => ⟨rfl, rfl, rfl⟩
    · exact h

theorem highlight_geo (hrc : ComposeGeoSpec env.recompose) {c : Ctx} (h : GeoInv c) (i : Nat) :
    GeoInv (highlight env c i).1 := by
  unfold highlight
  split
  · exact h
  · dsimp only
    (repeat' split) <;> first
      | exact h
      | (refine update_geo hrc (GeoInv.toGeoPre (modLastSeg_same h ?_)); exact fun _ => ⟨rfl, rfl, rfl⟩)

theorem deleteCandidate_geo {c : Ctx} (h : GeoInv c) (i : Nat) : GeoInv (deleteCandidate env c i).1 := by
  unfold deleteCandidate
  split
  · exact h
  · split
    · refine modLastSeg_same h ?_
      exact fun _ => ⟨rfl, rfl, rfl⟩
    · exact h

theorem confirmCurrentSelection_geo (hrc : ComposeGeoSpec env.recompose) {c : Ctx} (h : GeoInv c) :
    GeoInv (confirmCurrentSelection env c).1 := by
  unfold confirmCurrentSelection
  split
  · exact h
  · have h1 : GeoInv (c.modLastSeg fun g => { g with status := .selected }) :=
      modLastSeg_same h (fun _ => ⟨rfl, rfl, rfl⟩)
    dsimp only
    split
    · exact navSpans_geo (onSelect_geo hrc h1) _
    · split
      · exact h1
      · exact navSpans_geo (onSelect_geo hrc h1) _

/-! ### mutators written over the reversed list -/

theorem endOf_reverse (r : List Seg) : endOf r.reverse = rend r := by
  rw [← rend_reverse, List.reverse_reverse]

theorem beginEditingRev_geo : ∀ {l : List Seg}, RGeo l →
    RGeo (beginEditingRev l) ∧ rend (beginEditingRev l) = rend l
  | [], h => ⟨h, rfl⟩
  | g :: rest, h => by
    unfold beginEditingRev
    split
    · exact ⟨h, rfl⟩
    · split
      · exact ⟨⟨h.1, h.2.1.same rfl rfl rfl, h.2.2⟩, rfl⟩
      · have ih := beginEditingRev_geo h.tail
        exact ⟨⟨by rw [ih.2]; exact h.1, h.2.1, ih.1⟩, rfl⟩

theorem beginEditing_geo {c : Ctx} (h : GeoInv c) : GeoInv c.beginEditing := by
  have hr := beginEditingRev_geo ((geoOK_iff_rgeo _).mp h.geo)
  refine GeoInv.mk' ?_ ?_
  · show GeoOK (beginEditingRev c.comp.segs.reverse).reverse
    exact (rgeo_iff_geoOK _).mp hr.1
  · show endOf (beginEditingRev c.comp.segs.reverse).reverse ≤ c.comp.input.length
    rw [endOf_reverse, hr.2, rend_reverse]
    exact h.end_le

theorem reopenPreviousSegment_geo (hrc : ComposeGeoSpec env.recompose) {c : Ctx} (h : GeoInv c) :
    GeoInv (reopenPreviousSegment env c).1 := by
  unfold reopenPreviousSegment
  have ht : GeoOK c.comp.trim.1.segs := (trim_geo h.geo).1
  generalize c.comp.trim = kt at ht
  obtain ⟨k, trimmed⟩ := kt
  dsimp only at ht ⊢
  split
  · have h1 : GeoPre { c with comp := k } := ⟨ht⟩
    refine update_geo hrc ?_
    split
    · split
      · exact modLastSeg_pre h1 (fun g _ hs => segGeo_reopen hs _)
      · exact h1
    · exact h1
  · exact h

theorem clearPreviousSegment_geo (hrc : ComposeGeoSpec env.recompose) {c : Ctx} (h : GeoInv c) :
    GeoInv (clearPreviousSegment env c).1 := by
  unfold clearPreviousSegment
  split
  · exact h
  · split
    · exact h
    · exact setInput_geo hrc h.toGeoPre _

theorem reopenSelRev_geo (caret : Nat) : ∀ {l r : List Seg}, RGeo l → reopenSelRev caret l = some r → RGeo r
  | [], _, _, h => by simp [reopenSelRev] at h
  | g :: rest, r, hl, h => by
    unfold reopenSelRev at h
    split at h
    · simp at h
    · split at h
      · split at h
        · simp at h
        · simp only [Option.some.injEq] at h
          subst h
          have hg := segGeo_reopen hl.2.1 caret
          exact ⟨by rw [hg.2]; exact hl.1, hg.1, hl.2.2⟩
      · exact reopenSelRev_geo caret hl.tail h

theorem reopenPreviousSelection_geo (hrc : ComposeGeoSpec env.recompose) {c : Ctx} (h : GeoInv c) :
    GeoInv (reopenPreviousSelection env c).1 := by
  unfold reopenPreviousSelection
  split
  · exact h
  · rename_i r hr
    refine update_geo hrc ⟨?_⟩
    show GeoOK r.reverse
    exact (rgeo_iff_geoOK _).mp (reopenSelRev_geo _ ((geoOK_iff_rgeo _).mp h.geo) hr)

theorem dropNonConfirmedRev_geo : ∀ {l : List Seg}, RGeo l →
    RGeo (dropNonConfirmedRev l).1 ∧ rend (dropNonConfirmedRev l).1 ≤ rend l
  | [], h => ⟨h, Nat.le_refl _⟩
  | g :: rest, h => by
    unfold dropNonConfirmedRev
    split
    · have ih := dropNonConfirmedRev_geo h.tail
      refine ⟨ih.1, Nat.le_trans ih.2 ?_⟩
      show rend rest ≤ g.stop
      rw [← h.1]; exact h.2.1.1
    · exact ⟨h, Nat.le_refl _⟩

theorem clearNonConfirmedComposition_geo {c : Ctx} (h : GeoInv c) : GeoInv (clearNonConfirmedComposition c).1 := by
  unfold clearNonConfirmedComposition
  have hd := dropNonConfirmedRev_geo ((geoOK_iff_rgeo _).mp h.geo)
  generalize dropNonConfirmedRev c.comp.segs.reverse = p at hd
  obtain ⟨r, reverted⟩ := p
  dsimp only at hd ⊢
  split
  · refine modComp_forward_geo (GeoInv.mk' ?_ ?_)
    · show GeoOK r.reverse
      exact (rgeo_iff_geoOK _).mp hd.1
    · show endOf r.reverse ≤ c.comp.input.length
      rw [endOf_reverse]
      have := h.end_le
      rw [← rend_reverse] at this
      omega
  · exact h

theorem refreshNonConfirmedComposition_geo (hrc : ComposeGeoSpec env.recompose) {c : Ctx} (h : GeoInv c) :
    GeoInv (refreshNonConfirmedComposition env c).1 := by
  unfold refreshNonConfirmedComposition
  have h1 := clearNonConfirmedComposition_geo h
  generalize clearNonConfirmedComposition c = p at h1
  obtain ⟨c1, r⟩ := p
  dsimp only at h1 ⊢
  split
  · exact update_geo hrc h1.toGeoPre
  · exact h

theorem setOptionRaw_geo {c : Ctx} (h : GeoInv c) (n : String) (v : Bool) : GeoInv (c.setOptionRaw n v) := by
  refine ⟨⟨by rw [Ctx.setOptionRaw_segs]; exact h.geo⟩, ?_⟩
  unfold Bounded
  rw [Ctx.setOptionRaw_segs, Ctx.setOptionRaw_cinput]
  exact h.bounded

theorem setOption_geo (hrc : ComposeGeoSpec env.recompose) {c : Ctx} (h : GeoInv c) (n : String) (v : Bool) :
    GeoInv (setOption env c n v) := by
  unfold setOption
  dsimp only
  split
  · exact refreshNonConfirmedComposition_geo hrc (setOptionRaw_geo h n v)
  · exact setOptionRaw_geo h n v

end RimeModel.Session
