import RimeModel.Session.Geo
import RimeModel.Session.Inv
/-!
The geometric invariant at the level of `Ctx`, and its preservation by every Context primitive
(context.cc + the engine's notifier reactions), generic in the recomposition function.
Mirrors `Session/Inv.lean`.
-/
namespace RimeModel.Session

/-- what the geometric theorems assume of `ConcreteEngine::Compose`: from a contiguous segment list (whose
last end may lie anywhere — `Segment::Reopen` can move it to the caret just before Compose runs) it
produces a contiguous list that lies within the new composition input.  Discharged for the concrete port
in `Session/GeoCompose.lean` (`compose_geo_spec`), under `TranslateGeo`. -/
structure ComposeGeoSpec (rc : Bytes → Nat → Comp → Comp) : Prop where
  geo : ∀ input caret c, GeoOK c.segs → GeoOK (rc input caret c).segs
  bounded : ∀ input caret c, GeoOK c.segs → Bounded (rc input caret c)

/-- what holds of a state just before the engine recomposes it (no upper bound on the ends) -/
structure GeoPre (c : Ctx) : Prop where
  geo : GeoOK c.comp.segs

/-- what holds at API boundaries -/
structure GeoInv (c : Ctx) : Prop extends GeoPre c where
  bounded : Bounded c.comp

/-- the function changes neither start, end nor menu of a segment -/
def SameGeo (f : Seg → Seg) : Prop := ∀ g, (f g).start = g.start ∧ (f g).stop = g.stop ∧ (f g).menu = g.menu

open Ctx
variable {env : Env}

theorem GeoInv.of_comp {c c' : Ctx} (h : GeoInv c) (hc : c'.comp = c.comp) : GeoInv c' :=
  ⟨⟨by rw [hc]; exact h.geo⟩, by rw [hc]; exact h.bounded⟩

theorem GeoPre.of_comp {c c' : Ctx} (h : GeoPre c) (hc : c'.comp = c.comp) : GeoPre c' :=
  ⟨by rw [hc]; exact h.geo⟩

theorem GeoInv.end_le {c : Ctx} (h : GeoInv c) : endOf c.comp.segs ≤ c.comp.input.length :=
  (bounded_iff_end h.geo).mp h.bounded

theorem GeoInv.mk' {c : Ctx} (h : GeoOK c.comp.segs) (he : endOf c.comp.segs ≤ c.comp.input.length) : GeoInv c :=
  ⟨⟨h⟩, (bounded_iff_end h).mpr he⟩

theorem update_geo (hrc : ComposeGeoSpec env.recompose) {c : Ctx} (h : GeoPre c) : GeoInv (update env c) :=
  ⟨⟨hrc.geo _ _ _ h.geo⟩, hrc.bounded _ _ _ h.geo⟩

theorem clear_geo (hrc : ComposeGeoSpec env.recompose) (c : Ctx) : GeoInv (clear env c) := by
  unfold clear
  exact update_geo hrc ⟨geoOK_nil⟩

theorem commit_geo (hrc : ComposeGeoSpec env.recompose) {c : Ctx} (h : GeoInv c) : GeoInv (commit env c).1 := by
  unfold commit
  split
  · exact h
  · exact clear_geo hrc _

theorem pushInput_geo (hrc : ComposeGeoSpec env.recompose) {c : Ctx} (h : GeoInv c) (ch : UInt8) :
    GeoInv (pushInput env c ch) := by
  unfold pushInput
  split <;> exact update_geo hrc ⟨h.geo⟩

theorem popInput_geo (hrc : ComposeGeoSpec env.recompose) {c : Ctx} (h : GeoInv c) (len : Nat) :
    GeoInv (popInput env c len).1 := by
  unfold popInput
  split
  · exact h
  · exact update_geo hrc ⟨h.geo⟩

theorem deleteInput_geo (hrc : ComposeGeoSpec env.recompose) {c : Ctx} (h : GeoInv c) (len : Nat) :
    GeoInv (deleteInput env c len).1 := by
  unfold deleteInput
  split
  · exact h
  · exact update_geo hrc ⟨h.geo⟩

theorem setCaretPos_geo (hrc : ComposeGeoSpec env.recompose) {c : Ctx} (h : GeoPre c) (p : Nat) :
    GeoInv (setCaretPos env c p) := by
  unfold setCaretPos
  exact update_geo hrc ⟨h.geo⟩

theorem setInput_geo (hrc : ComposeGeoSpec env.recompose) {c : Ctx} (h : GeoPre c) (v : Bytes) :
    GeoInv (setInput env c v) := by
  unfold setInput
  exact update_geo hrc ⟨h.geo⟩

/-! ### changes of the last segment -/

theorem endOf_modLast_le {l : List Seg} {f : Seg → Seg}
    (hf : ∀ g, l.getLast? = some g → (f g).stop ≤ g.stop) : endOf (modLast l f) ≤ endOf l := by
  rcases snoc_cases l with rfl | ⟨l', b, rfl⟩
  · exact Nat.le_refl _
  · rw [modLast_snoc, endOf_snoc, endOf_snoc]; exact hf b List.getLast?_concat

theorem modLastSeg_pre {c : Ctx} (h : GeoPre c) {f : Seg → Seg}
    (hf : ∀ g, c.comp.segs.getLast? = some g → SegGeo g → SegGeo (f g) ∧ (f g).start = g.start) :
    GeoPre (c.modLastSeg f) :=
  ⟨geoOK_modLast h.geo hf⟩

theorem modLastSeg_geo {c : Ctx} (h : GeoInv c) {f : Seg → Seg}
    (hf : ∀ g, c.comp.segs.getLast? = some g → SegGeo g →
      SegGeo (f g) ∧ (f g).start = g.start ∧ (f g).stop ≤ g.stop) :
    GeoInv (c.modLastSeg f) := by
  have hg : GeoOK (modLast c.comp.segs f) :=
    geoOK_modLast h.geo (fun g hg hs => ⟨(hf g hg hs).1, (hf g hg hs).2.1⟩)
  refine GeoInv.mk' hg (Nat.le_trans (endOf_modLast_le ?_) h.end_le)
  intro g hgl
  exact (hf g hgl (h.geo.getLast hgl)).2.2

theorem modLastSeg_same {c : Ctx} (h : GeoInv c) {f : Seg → Seg} (hf : SameGeo f) : GeoInv (c.modLastSeg f) :=
  modLastSeg_geo h (fun g _ hs =>
    ⟨hs.same (hf g).1 (hf g).2.1 (hf g).2.2, (hf g).1, by rw [(hf g).2.1]; exact Nat.le_refl _⟩)

theorem modLastSeg_pre_same {c : Ctx} (h : GeoPre c) {f : Seg → Seg} (hf : SameGeo f) : GeoPre (c.modLastSeg f) :=
  modLastSeg_pre h (fun g _ hs => ⟨hs.same (hf g).1 (hf g).2.1 (hf g).2.2, (hf g).1⟩)

theorem modComp_forward_geo {c : Ctx} (h : GeoInv c) : GeoInv (c.modComp (fun k => k.forward.1)) := by
  have hf := forward_geo h.geo
  refine GeoInv.mk' hf.1 ?_
  show endOf c.comp.forward.1.segs ≤ c.comp.forward.1.input.length
  rw [hf.2, forward_input]
  exact h.end_le

theorem onSelect_geo (hrc : ComposeGeoSpec env.recompose) {c : Ctx} (h : GeoInv c) : GeoInv (onSelect env c) := by
  unfold onSelect
  split
  · exact h
  · rename_i g0 hg0
    have hclose := segGeo_close (h.geo.getLast hg0)
    dsimp only
    split
    · have h1 : GeoInv (c.modLastSeg fun _ => { g0.close with status := .confirmed }) := by
        refine modLastSeg_geo h (fun g hg _ => ?_)
        have : g = g0 := by rw [hg0] at hg; exact (Option.some.inj hg).symm
        subst this
        exact ⟨hclose.1.same rfl rfl rfl, hclose.2.1, hclose.2.2⟩
      split
      · exact commit_geo hrc h1
      · exact modComp_forward_geo h1
    · have h1 : GeoInv ((c.modLastSeg fun _ => g0.close).modComp fun k => k.forward.1) := by
        refine modComp_forward_geo (modLastSeg_geo h (fun g hg _ => ?_))
        have : g = g0 := by rw [hg0] at hg; exact (Option.some.inj hg).symm
        subst this
        exact hclose
      split
      · exact setCaretPos_geo hrc h1.toGeoPre _
      · exact update_geo hrc h1.toGeoPre

theorem navSpans_geo {c : Ctx} (h : GeoInv c) (v : List Nat) : GeoInv { c with navSpans := v } := h.of_comp rfl

theorem select_geo (hrc : ComposeGeoSpec env.recompose) {c : Ctx} (h : GeoInv c) (i : Nat) :
    GeoInv (select env c i).1 := by
  unfold select
  split
  · exact h
  · split
    · refine navSpans_geo (onSelect_geo hrc (modLastSeg_same h ?_)) _
      exact fun _ => ⟨rfl, rfl, rfl⟩
    · exact h

theorem highlight_geo (hrc : ComposeGeoSpec env.recompose) {c : Ctx} (h : GeoInv c) (i : Nat) :
    GeoInv (highlight env c i).1 := by
  unfold highlight
  split
  · exact h
  · rename_i g hg
    split
    · exact h
    · generalize (if g.prepare (i + 1) > 0 then min (g.prepare (i + 1) - 1) i else 0) = newIndex
      dsimp only
      split
      · exact h
      · refine update_geo hrc (GeoInv.toGeoPre (modLastSeg_same h ?_))
        exact fun _ => ⟨rfl, rfl, rfl⟩

theorem deleteCandidate_geo {c : Ctx} (h : GeoInv c) (i : Nat) : GeoInv (deleteCandidate env c i).1 := by
  unfold deleteCandidate
  split
  · exact h
  · split
    · refine modLastSeg_same h ?_
      exact fun _ => ⟨rfl, rfl, rfl⟩
    · exact h

theorem confirmCurrentSelection_geo (hrc : ComposeGeoSpec env.recompose) {c : Ctx} (h : GeoInv c) :
    GeoInv (confirmCurrentSelection env c).1 := by
  unfold confirmCurrentSelection
  split
  · exact h
  · have h1 : GeoInv (c.modLastSeg fun g => { g with status := .selected }) :=
      modLastSeg_same h (fun _ => ⟨rfl, rfl, rfl⟩)
    dsimp only
    split
    · exact navSpans_geo (onSelect_geo hrc h1) _
    · split
      · exact h1
      · exact navSpans_geo (onSelect_geo hrc h1) _

end RimeModel.Session
