import RimeModel.Session.GeoCompose
/-!
Termination of the `while (!segments->HasFinishedSegmentation())` loop of
`ConcreteEngine::CalculateSegmentation`.  The model's `segLoop` recurses on a fuel argument; here the
loop gets a fuel-free big-step semantics `LoopRun`, and `segLoop` is shown to compute its (unique) result
whenever the fuel is at least `input.length - currentStart` — so the fuel `input.length + 2` passed by
`calculateSegmentation` never cuts a run short.  Measure: a round that continues moves the current start
strictly to the right, and an unfinished segmentation has its current start left of the input's end.
-/
namespace RimeModel.Session

/-- `if (!segments->HasFinishedSegmentation()) segments->Forward();` at the end of a round -/
def segNext (c1 : Comp) : Comp := if !c1.hasFinishedSegmentation then c1.forward.1 else c1

/-- big-step semantics of the loop, without fuel: `LoopRun cfg caret c r` — started on `c`, the loop exits
after finitely many rounds leaving `r`.  One constructor per way through the loop body. -/
inductive LoopRun (cfg : SegCfg) (caret : Nat) : Comp → Comp → Prop
  /-- the loop condition fails -/
  | finished {c : Comp} : c.hasFinishedSegmentation = true → LoopRun cfg caret c c
  /-- `if (start_pos == segments->GetCurrentEndPosition()) break;` -/
  | noAdvance {c : Comp} : c.hasFinishedSegmentation = false →
      c.currentStart = (segStep cfg c).currentEnd → LoopRun cfg caret c (segStep cfg c)
  /-- `if (start_pos >= context_->caret_pos()) break;` -/
  | pastCaret {c : Comp} : c.hasFinishedSegmentation = false →
      c.currentStart ≠ (segStep cfg c).currentEnd → caret ≤ c.currentStart → LoopRun cfg caret c (segStep cfg c)
  /-- another round -/
  | round {c r : Comp} : c.hasFinishedSegmentation = false →
      c.currentStart ≠ (segStep cfg c).currentEnd → c.currentStart < caret →
      LoopRun cfg caret (segNext (segStep cfg c)) r → LoopRun cfg caret c r

/-- `segLoop` in terms of `segStep` / `segNext` -/
theorem segLoop_succ (cfg : SegCfg) (caret fuel : Nat) (c : Comp) :
    segLoop cfg caret (fuel + 1) c =
      if c.hasFinishedSegmentation then c
      else if c.currentStart = (segStep cfg c).currentEnd then segStep cfg c
      else if c.currentStart ≥ caret then segStep cfg c
      else segLoop cfg caret fuel (segNext (segStep cfg c)) := by
  rw [segLoop]
  unfold segNext segStep
  dsimp only
  split
  · rfl
  · split
    · rfl
    · split
      · rfl
      · cases (fallbackProceed (abcProceed cfg c)).hasFinishedSegmentation <;> rfl

theorem segLoop_finished (cfg : SegCfg) (caret : Nat) {c : Comp} (h : c.hasFinishedSegmentation = true) :
    ∀ n, segLoop cfg caret n c = c
  | 0 => rfl
  | n + 1 => by rw [segLoop_succ, if_pos h]

theorem not_finished_iff {c : Comp} : c.hasFinishedSegmentation = false ↔ endOf c.segs < c.input.length := by
  unfold Comp.hasFinishedSegmentation
  rw [currentEnd_eq]
  simp only [decide_eq_false_iff_not, ge_iff_le, Nat.not_le]

theorem finished_iff {c : Comp} : c.hasFinishedSegmentation = true ↔ c.input.length ≤ endOf c.segs := by
  unfold Comp.hasFinishedSegmentation
  rw [currentEnd_eq]
  simp only [decide_eq_true_eq, ge_iff_le]

theorem segNext_geo {c : Comp} (h : LoopInv c) : LoopInv (segNext c) := by
  unfold segNext
  split
  · exact forward_loopInv h
  · exact h

theorem segNext_input (c : Comp) : (segNext c).input = c.input := by
  unfold segNext
  split
  · exact forward_input c
  · rfl

/-- the measure: if the loop goes on after a round that advanced, the next round starts strictly to the
right of this one -/
theorem segNext_progress (cfg : SegCfg) {c : Comp} (h : LoopInv c)
    (hadv : c.currentStart ≠ (segStep cfg c).currentEnd)
    (hnf : (segNext (segStep cfg c)).hasFinishedSegmentation = false) :
    c.currentStart < (segNext (segStep cfg c)).currentStart := by
  have hs := segStep_geo cfg h
  rw [currentEnd_eq] at hadv
  unfold segNext at hnf ⊢
  split
  · rw [forward_currentStart]
    have := hs.2.2
    omega
  · rename_i hfin
    rw [if_neg hfin] at hnf
    rw [hnf] at hfin
    simp at hfin

theorem loopRun_of_finished (cfg : SegCfg) (caret : Nat) {c : Comp} (h : c.hasFinishedSegmentation = true)
    (fuel : Nat) : LoopRun cfg caret c (segLoop cfg caret fuel c) ∧
      ∀ k, segLoop cfg caret (fuel + k) c = segLoop cfg caret fuel c := by
  refine ⟨?_, fun k => ?_⟩
  · rw [segLoop_finished cfg caret h]; exact LoopRun.finished h
  · rw [segLoop_finished cfg caret h, segLoop_finished cfg caret h]

/-- **termination, loop-invariant form**: with at least `input.length - currentStart` fuel, `segLoop` returns
the result of a complete run of the loop, and more fuel does not change it -/
theorem segLoop_terminates_inv (cfg : SegCfg) (caret : Nat) : ∀ (fuel : Nat) (c : Comp), LoopInv c →
    c.input.length - c.currentStart ≤ fuel →
    LoopRun cfg caret c (segLoop cfg caret fuel c) ∧
      ∀ k, segLoop cfg caret (fuel + k) c = segLoop cfg caret fuel c
  | 0, c, h, hm => by
    have hfin : c.hasFinishedSegmentation = true := by
      rw [finished_iff]
      have := currentStart_le_end h.1
      omega
    exact loopRun_of_finished cfg caret hfin 0
  | fuel + 1, c, h, hm => by
    by_cases hfin : c.hasFinishedSegmentation = true
    · exact loopRun_of_finished cfg caret hfin _
    · have hfin' : c.hasFinishedSegmentation = false := by
        cases hc : c.hasFinishedSegmentation
        · rfl
        · exact absurd hc hfin
      have hrw : ∀ k, fuel + 1 + k = (fuel + k) + 1 := fun k => by omega
      by_cases hadv : c.currentStart = (segStep cfg c).currentEnd
      · refine ⟨?_, fun k => ?_⟩
        · rw [segLoop_succ, if_neg hfin, if_pos hadv]; exact LoopRun.noAdvance hfin' hadv
        · rw [hrw, segLoop_succ, segLoop_succ, if_neg hfin, if_pos hadv, if_neg hfin, if_pos hadv]
      · by_cases hcar : c.currentStart ≥ caret
        · refine ⟨?_, fun k => ?_⟩
          · rw [segLoop_succ, if_neg hfin, if_neg hadv, if_pos hcar]; exact LoopRun.pastCaret hfin' hadv hcar
          · rw [hrw, segLoop_succ, segLoop_succ, if_neg hfin, if_neg hadv, if_pos hcar, if_neg hfin,
              if_neg hadv, if_pos hcar]
        · have hn : LoopInv (segNext (segStep cfg c)) := segNext_geo (segStep_geo cfg h).1
          have hni : (segNext (segStep cfg c)).input = c.input := by
            rw [segNext_input]; exact (segStep_geo cfg h).2.1
          have ih : LoopRun cfg caret (segNext (segStep cfg c)) (segLoop cfg caret fuel (segNext (segStep cfg c))) ∧
              ∀ k, segLoop cfg caret (fuel + k) (segNext (segStep cfg c)) =
                segLoop cfg caret fuel (segNext (segStep cfg c)) := by
            by_cases hnf : (segNext (segStep cfg c)).hasFinishedSegmentation = true
            · exact loopRun_of_finished cfg caret hnf fuel
            · have hnf' : (segNext (segStep cfg c)).hasFinishedSegmentation = false := by
                cases hc : (segNext (segStep cfg c)).hasFinishedSegmentation
                · rfl
                · exact absurd hc hnf
              have hp := segNext_progress cfg h hadv hnf'
              refine segLoop_terminates_inv cfg caret fuel _ hn ?_
              rw [hni]; omega
          refine ⟨?_, fun k => ?_⟩
          · rw [segLoop_succ, if_neg hfin, if_neg hadv, if_neg hcar]
            exact LoopRun.round hfin' hadv (by omega) ih.1
          · rw [hrw, segLoop_succ, segLoop_succ, if_neg hfin, if_neg hadv, if_neg hcar, if_neg hfin,
              if_neg hadv, if_neg hcar]
            exact ih.2 k

/-- **termination for every contiguous composition** (no bound on the ends needed: an unfinished
segmentation of a contiguous list lies within the input anyway) -/
theorem segLoop_terminates (cfg : SegCfg) (caret : Nat) {c : Comp} (h : GeoOK c.segs) {fuel : Nat}
    (hf : c.input.length - c.currentStart ≤ fuel) :
    LoopRun cfg caret c (segLoop cfg caret fuel c) ∧
      ∀ k, segLoop cfg caret (fuel + k) c = segLoop cfg caret fuel c := by
  by_cases hfin : c.hasFinishedSegmentation = true
  · exact loopRun_of_finished cfg caret hfin _
  · have hfin' : c.hasFinishedSegmentation = false := by
      cases hc : c.hasFinishedSegmentation
      · rfl
      · exact absurd hc hfin
    exact segLoop_terminates_inv cfg caret fuel c ⟨h, Nat.le_of_lt (not_finished_iff.mp hfin')⟩ hf

/-- what a complete run leaves: the loop's own exit condition holds of the result -/
theorem LoopRun.exit {cfg : SegCfg} {caret : Nat} {c r : Comp} (h : LoopRun cfg caret c r) :
    r.hasFinishedSegmentation = true ∨
      ∃ c0, r = segStep cfg c0 ∧ c0.hasFinishedSegmentation = false ∧
        (c0.currentStart = r.currentEnd ∨ caret ≤ c0.currentStart) := by
  induction h with
  | finished h => exact Or.inl h
  | noAdvance h1 h2 => exact Or.inr ⟨_, rfl, h1, Or.inl h2⟩
  | pastCaret h1 _ h3 => exact Or.inr ⟨_, rfl, h1, Or.inr h3⟩
  | round _ _ _ _ ih => exact ih

/-- the big-step semantics is deterministic: a run has one result -/
theorem LoopRun.unique {cfg : SegCfg} {caret : Nat} {c r r' : Comp} (h : LoopRun cfg caret c r)
    (h' : LoopRun cfg caret c r') : r = r' := by
  induction h with
  | finished h =>
    cases h' with
    | finished _ => rfl
    | noAdvance g _ => rw [h] at g; cases g
    | pastCaret g _ _ => rw [h] at g; cases g
    | round g _ _ _ => rw [h] at g; cases g
  | noAdvance h1 h2 =>
    cases h' with
    | finished g => rw [h1] at g; cases g
    | noAdvance _ _ => rfl
    | pastCaret _ g _ => exact absurd h2 g
    | round _ g _ _ => exact absurd h2 g
  | pastCaret h1 h2 h3 =>
    cases h' with
    | finished g => rw [h1] at g; cases g
    | noAdvance _ g => exact absurd g h2
    | pastCaret _ _ _ => rfl
    | round _ _ g _ => omega
  | round h1 h2 h3 _ ih =>
    cases h' with
    | finished g => rw [h1] at g; cases g
    | noAdvance _ g => exact absurd g h2
    | pastCaret _ _ g => omega
    | round _ _ _ g => exact ih g

end RimeModel.Session
