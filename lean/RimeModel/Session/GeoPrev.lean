import RimeModel.Session.GeoCtx
/-!
`Speller::AutoSelectPreviousMatch` and the geometric invariant.

* `FindEarlierMatch` (`femSelect`, `femContinue`, `femGo`, `findEarlierMatch`) preserves `GeoInv`
  unconditionally: it only uses `set_input`, `ConfirmCurrentSelection` and `Commit`.
* The "reuse previous match" branch (`reusePreviousMatch`) pops the last segment and pushes back the copy of
  the last segment taken before the key was added.  It preserves `GeoInv` when the copy is *aligned*: it starts
  where the segments before the popped one end (`reusePreviousMatch_geo`).  Nothing in the C++ checks this,
  and it is false in general — see `Session/GeoPrevCx.lean` for machine-checked counterexamples.
-/
namespace RimeModel.Session
open Ctx
variable {env : Env}

/-! ### FindEarlierMatch -/

theorem femSelect_geo (hrc : ComposeGeoSpec env.recompose) (input : Bytes) (e : Nat) {c : Ctx} (h : GeoInv c) :
    GeoInv (femSelect env input e c).1 := by
  unfold femSelect
  split
  · exact setInput_geo hrc (commit_geo hrc h).toGeoPre _
  · exact setInput_geo hrc (confirmCurrentSelection_geo hrc h).toGeoPre _

theorem femContinue_geo (k : Nat → Nat → Ctx → Ctx × Bool) (hk : ∀ s e c, GeoInv c → GeoInv (k s e c).1)
    {r : Ctx × Nat} (h : GeoInv r.1) : GeoInv (femContinue k r) := by
  unfold femContinue
  split
  · exact hk _ _ _ h
  · exact h

theorem femGo_geo (hrc : ComposeGeoSpec env.recompose) (k : Nat → Nat → Ctx → Ctx × Bool)
    (hk : ∀ s e c, GeoInv c → GeoInv (k s e c).1) (input : Bytes) :
    ∀ (es : List Nat) {c : Ctx}, GeoPre c → GeoInv (femGo env k input es c).1
  | [], c, h => by
    unfold femGo
    exact setInput_geo hrc h _
  | e :: es, c, h => by
    unfold femGo
    have h1 : GeoInv (Ctx.setInput env c (input.take e)) := setInput_geo hrc h _
    dsimp only
    split
    · exact setInput_geo hrc h1.toGeoPre _
    · split
      · exact femGo_geo hrc k hk input es h1.toGeoPre
      · split
        · exact femContinue_geo k hk (femSelect_geo hrc input e h1)
        · exact femGo_geo hrc k hk input es h1.toGeoPre

/-- Speller::FindEarlierMatch preserves the geometric invariant, for every schema -/
theorem findEarlierMatch_geo (hrc : ComposeGeoSpec env.recompose) :
    ∀ (fuel s e : Nat) (c : Ctx), GeoInv c → GeoInv (findEarlierMatch env fuel s e c).1
  | 0, _, _, _, h => by unfold findEarlierMatch; exact h
  | fuel + 1, s, e, c, h => by
    unfold findEarlierMatch
    split
    · exact h
    · exact femGo_geo hrc _ (findEarlierMatch_geo hrc fuel) _ _ h.toGeoPre

/-! ### the "reuse previous match" branch, for an aligned copy -/

theorem geoInv_nil_segs {c : Ctx} (h : c.comp.segs = []) : GeoInv c :=
  ⟨⟨by rw [h]; exact geoOK_nil⟩, by intro g hg; rw [h] at hg; simp at hg⟩

theorem segs_nil_of_getLast?_none {l : List Seg} (h : l.getLast? = none) : l = [] := by
  rcases snoc_cases l with rfl | ⟨l', b, rfl⟩
  · rfl
  · rw [List.getLast?_concat] at h; cases h

/-- `ConcreteEngine::OnSelect` from a state that is only contiguous (the last end may lie beyond the composition's
input): when the closed segment does not end at the end of the raw input, OnSelect recomposes. -/
theorem onSelect_pre (hrc : ComposeGeoSpec env.recompose) {c : Ctx} (h : GeoPre c)
    (hne : ∀ g, c.comp.segs.getLast? = some g → g.close.stop ≠ c.input.length) : GeoInv (onSelect env c) := by
  unfold onSelect
  split
  · rename_i hnone
    exact geoInv_nil_segs (segs_nil_of_getLast?_none hnone)
  · rename_i g0 hg0
    have hclose := segGeo_close (h.geo.getLast hg0)
    dsimp only
    split
    · rename_i heq
      exact absurd heq (hne g0 hg0)
    · have h1 : GeoPre ((c.modLastSeg fun _ => g0.close).modComp fun k => k.forward.1) := by
        have hm : GeoPre (c.modLastSeg fun _ => g0.close) := by
          refine modLastSeg_pre h (fun g hg _ => ?_)
          have : g = g0 := by rw [hg0] at hg; exact (Option.some.inj hg).symm
          subst this
          exact ⟨hclose.1, hclose.2.1⟩
        exact ⟨(forward_geo hm.geo).1⟩
      split
      · exact setCaretPos_geo hrc h1 _
      · exact update_geo hrc h1

theorem close_stop_le (g : Seg) : g.close.stop ≤ g.stop := by
  unfold Seg.close
  split
  · split
    · rename_i hlt; exact Nat.le_of_lt hlt
    · exact Nat.le_refl _
  · exact Nat.le_refl _

theorem getLast?_modLast {l : List Seg} {g : Seg} (h : l.getLast? = some g) (f : Seg → Seg) :
    (modLast l f).getLast? = some (f g) := by
  rw [eq_snoc_of_getLast? h, modLast_concat, List.getLast?_concat]

/-- `Context::ConfirmCurrentSelection` from a state that is only contiguous, when the last segment has a selected
candidate and ends before the end of the raw input: the selection is followed by a recomposition -/
theorem confirmCurrentSelection_pre (hrc : ComposeGeoSpec env.recompose) {c : Ctx} (h : GeoPre c)
    (hl : ∀ g, c.comp.segs.getLast? = some g → g.stop < c.input.length ∧ g.selected ≠ none) :
    GeoInv (confirmCurrentSelection env c).1 := by
  unfold confirmCurrentSelection
  split
  · rename_i hnone
    exact geoInv_nil_segs (segs_nil_of_getLast?_none hnone)
  · rename_i g hg
    have h1 : GeoPre (c.modLastSeg fun g => { g with status := .selected }) :=
      modLastSeg_pre_same h (fun _ => ⟨rfl, rfl, rfl⟩)
    have hne : ∀ g', (c.modLastSeg fun g => { g with status := .selected }).comp.segs.getLast? = some g' →
        g'.close.stop ≠ (c.modLastSeg fun g => { g with status := .selected }).input.length := by
      intro g' hg'
      have hm : (c.modLastSeg fun g => { g with status := .selected }).comp.segs.getLast? =
          some { g with status := .selected } := getLast?_modLast hg _
      rw [hm] at hg'
      have hcl := close_stop_le g'
      have hst : g'.stop = g.stop := by rw [← Option.some.inj hg']
      have := (hl g hg).1
      show g'.close.stop ≠ c.input.length
      omega
    dsimp only
    split
    · exact navSpans_geo (onSelect_pre hrc h1 hne) _
    · rename_i hsel
      exact absurd hsel (hl g hg).2

theorem replaceLastSeg_pre {c : Ctx} (h : GeoPre c) {p : Seg} (hp : SegGeo p)
    (hal : p.start = endOf c.comp.segs.dropLast) : GeoPre (c.replaceLastSeg p) :=
  ⟨(geoOK_snoc _ _).mpr ⟨h.geo.dropLast, hp, hal⟩⟩

/-- The reuse branch of AutoSelectPreviousMatch keeps the geometric invariant when the saved segment is
*aligned* with the new composition (`hal`) and ends before the end of the new raw input (`hlt`; true because
the saved segment lay within the raw input before the key was added).  The intermediate state may have its last
end beyond the composition's input; `ConfirmCurrentSelection` recomposes. -/
theorem reusePreviousMatch_geo (hrc : ComposeGeoSpec env.recompose) {c : Ctx} (h : GeoPre c) {p : Seg}
    (hp : SegGeo p) (hal : p.start = endOf c.comp.segs.dropLast) (hlt : p.stop < c.input.length)
    (hsel : p.selected ≠ none) : GeoInv (reusePreviousMatch env p c) := by
  unfold reusePreviousMatch
  have h2 : GeoInv (confirmCurrentSelection env (c.replaceLastSeg p)).1 := by
    refine confirmCurrentSelection_pre hrc (replaceLastSeg_pre h hp hal) ?_
    intro g hg
    have : (c.replaceLastSeg p).comp.segs.getLast? = some p := List.getLast?_concat
    rw [this] at hg
    have hgp : g = p := (Option.some.inj hg).symm
    subst hgp
    exact ⟨hlt, hsel⟩
  dsimp only
  split
  · exact setInput_geo hrc (commit_geo hrc (setInput_geo hrc h2.toGeoPre _)).toGeoPre _
  · exact h2

theorem selected_of_prevSelectable {p : Seg} {input : Bytes} (h : prevSelectable env p input = true) :
    p.selected ≠ none := by
  unfold prevSelectable at h
  split at h
  · rename_i cd hcd; rw [hcd]; exact fun h => by cases h
  · cases h

/-- when the reuse branch of AutoSelectPreviousMatch is taken with a saved segment `p` in state `c`
(the state after the key was added): the saved copy starts where the segments before the last one end -/
def ReuseAligned (env : Env) (prev : Option Seg) (c : Ctx) : Prop :=
  env.autoSelect = true → env.maxCodeLength = 0 →
  ∀ p, prev = some p → p.menu.isNone = false → c.hasMenu = false → prevSelectable env p c.input = true →
    p.start = endOf c.comp.segs.dropLast

/-- Speller::AutoSelectPreviousMatch keeps the geometric invariant whenever its reuse branch, if taken, is aligned -/
theorem autoSelectPreviousMatch_geo (hrc : ComposeGeoSpec env.recompose) {prev : Option Seg} {c : Ctx} (h : GeoInv c)
    (hp : ∀ p, prev = some p → SegGeo p ∧ p.stop < c.input.length) (hal : ReuseAligned env prev c) :
    GeoInv (autoSelectPreviousMatch env prev c).1 := by
  unfold autoSelectPreviousMatch
  split
  · exact h
  · rename_i hauto
    split
    · exact h
    · rename_i hmax
      split
      · exact h
      · rename_i hmenu
        split
        · exact h
        · rename_i p
          split
          · exact h
          · rename_i hnone
            split
            · rename_i hps
              have hm : c.hasMenu = false := by simpa using hmenu
              have hn : p.menu.isNone = false := by
                cases hpm : p.menu.isNone
                · rfl
                · exact absurd hpm hnone
              have ha : env.autoSelect = true := by simpa using hauto
              have hx : env.maxCodeLength = 0 := by omega
              exact reusePreviousMatch_geo hrc h.toGeoPre (hp p rfl).1 (hal ha hx p rfl hn hm hps) (hp p rfl).2
                (selected_of_prevSelectable hps)
            · exact findEarlierMatch_geo hrc _ _ _ _ h

/-- a sufficient, locally checkable condition (and a repair for the C++: compare the two starts before reusing the
saved segment): the saved segment starts where the segment it replaces starts -/
theorem reuseAligned_of_same_start {prev : Option Seg} {c : Ctx} (h : GeoOK c.comp.segs)
    (hs : ∀ p, prev = some p → c.comp.segs ≠ [] ∧ p.start = c.comp.currentStart) : ReuseAligned env prev c := by
  intro _ _ p hp _ _ _
  have hne := (hs p hp).1
  have hst := (hs p hp).2
  rcases snoc_cases c.comp.segs with hnil | ⟨l, b, hl⟩
  · exact absurd hnil hne
  · have hcs : c.comp.currentStart = b.start := by
      unfold Comp.currentStart; rw [hl, List.getLast?_concat]
    rw [hl] at h
    rw [hst, hcs, hl, List.dropLast_concat]
    exact h.last_start

end RimeModel.Session
