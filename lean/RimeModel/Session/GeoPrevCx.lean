import RimeModel.Session.GeoPrev
import RimeModel.Session.GeoCompose
import RimeModel.Session.PunctComposeGeo
/-!
Machine-checked COUNTEREXAMPLES: with `speller/auto_select: true` and no `max_code_length`, the "reuse previous
match" branch of `Speller::AutoSelectPreviousMatch` breaks the geometric invariant in the model.

The saved copy of the last segment is pushed back in place of the *new* last segment.  When the key that was
added did not extend the saved segment but opened a new segment after it (the saved segment is not an `abc`
segment: a punctuation segment with alternatives, or a raw segment that a translator gave candidates to), the
saved segment is still in the composition, and the copy lands *behind itself*: `[0,1) [0,1) [1,2)`.

So `NoPrevMatch` in the geometric theorems cannot simply be dropped: some hypothesis restricting which segments
carry a menu is needed (see the report).  Both histories below start from a fresh session.
-/
namespace RimeModel.Session

def chainB : List Seg → Bool
  | [] => true
  | [_] => true
  | a :: b :: rest => b.start == a.stop && chainB (b :: rest)

theorem chainB_of_chain : ∀ {l : List Seg}, Chain l → chainB l = true
  | [], _ => rfl
  | [_], _ => rfl
  | a :: b :: rest, h => by
    unfold chainB
    have h' : b.start = a.stop ∧ Chain (b :: rest) := h
    rw [Bool.and_eq_true]
    exact ⟨by rw [h'.1]; exact beq_self_eq_true _, chainB_of_chain h'.2⟩

/-! ### 1. punctuation: `/` (a list of alternatives: the segment stays open with a menu), then a letter without candidates -/

/-- `/` ↦ [、, /]; no dictionary entry at all (so the letter `a` has no candidates) -/
def cxPunctMap : List (UInt8 × PunctDef) := [(47, .alt [[0xe3, 0x80, 0x81], [47]])]

def cxPunctCfg : PSegCfg :=
  { alphabet := [97, 98, 99], initials := [97, 98, 99], finals := [], delimiters := [39],
    translate := fun _ _ => [], punct := cxPunctMap }

def cxPunctEnv : Env :=
  { alphabet := [97, 98, 99], initials := [97, 98, 99], delimiters := [39], autoSelect := true, maxCodeLength := 0,
    processors := [.speller, .punctuator, .selector, .navigator, .fluidEditor],
    punct := { half := cxPunctMap, full := cxPunctMap }, recompose := composeP cxPunctCfg }

/-- the keys `/` `a` -/
def cxPunctOps : List Op := [.key 47 0, .key 97 0]

/-- after `/`: one punctuation segment `[0,1)` with a menu of two candidates -/
theorem cxPunct_before :
    (runOps cxPunctEnv {} [.key 47 0]).comp.segs.map (fun g => (g.start, g.stop, g.tags.punct, g.status)) =
      [(0, 1, true, .guess)] ∧ (runOps cxPunctEnv {} [.key 47 0]).hasMenu = true := by
  decide

/-- after `/` `a`: the punctuation segment twice, then the letter — `[0,1) [0,1) [1,2)` -/
theorem cxPunct_after :
    (runOps cxPunctEnv {} cxPunctOps).comp.segs.map (fun g => (g.start, g.stop, g.tags.punct, g.status)) =
      [(0, 1, true, .guess), (0, 1, true, .selected), (1, 2, false, .guess)] := by
  decide

/-- the reuse branch is what did it: AutoSelectPreviousMatch returns true on the state after the key was added -/
theorem cxPunct_reuse_taken :
    let c1 := runOps cxPunctEnv {} [.key 47 0]
    let c2 := (Ctx.pushInput cxPunctEnv c1 97).beginEditing
    c2.comp.segs.map (fun g => (g.start, g.stop)) = [(0, 1), (1, 2)] ∧ c2.hasMenu = false ∧
    (spellerPrev cxPunctEnv c1).map (fun p => (p.start, p.stop, prevSelectable cxPunctEnv p c2.input)) = some (0, 1, true) ∧
    (autoSelectPreviousMatch cxPunctEnv (spellerPrev cxPunctEnv c1) c2).2 = true := by
  decide

/-- the preedit shows the punctuation twice: `、、a` -/
theorem cxPunct_preedit :
    ((view cxPunctEnv (runOps cxPunctEnv {} cxPunctOps)).preedit.map (·.text)) =
      some [0xe3, 0x80, 0x81, 0xe3, 0x80, 0x81, 97] := by
  decide

theorem cxPunct_hyps : TranslateGeo cxPunctCfg.toSegCfg ∧ FilterSub cxPunctCfg.filter :=
  ⟨fun _ _ _ cd h => by simp [cxPunctCfg] at h, fun _ _ h => h⟩

/-- **the geometric invariant fails** in a state reachable with the punctuation components, `auto_select: true` and no
`max_code_length` (every other hypothesis of `geometry_reachable_punct` holds) -/
theorem prev_match_breaks_geometry_punct :
    ∃ (env : Env) (cfg : PSegCfg) (ops : List Op), env.recompose = composeP cfg ∧ TranslateGeo cfg.toSegCfg ∧
      FilterSub cfg.filter ∧ ¬ GeoInv (runOps env {} ops) := by
  refine ⟨cxPunctEnv, cxPunctCfg, cxPunctOps, rfl, cxPunct_hyps.1, cxPunct_hyps.2, ?_⟩
  intro h
  have hc := chainB_of_chain h.geo.1
  revert hc
  decide

/-! ### 2. abc + fallback segmentors only: a translator that gives a candidate to a *raw* segment

`TranslateGeo` alone does not exclude it: the oracle below answers `1` (a raw segment: `1` is not a letter) with one
candidate spanning the segment, and has nothing for the letter `a`. -/

def cxRawCfg : SegCfg :=
  { alphabet := [97, 98, 99], initials := [97, 98, 99], finals := [], delimiters := [39],
    translate := fun inp g => if inp = [49] then [{ text := [0xe4, 0xb8, 0x80], start := g.start, stop := g.stop }] else [] }

def cxRawEnv : Env :=
  { alphabet := [97, 98, 99], initials := [97, 98, 99], delimiters := [39], autoSelect := true, maxCodeLength := 0,
    processors := [.speller, .selector, .navigator, .fluidEditor], recompose := compose cxRawCfg }

/-- set_input("1"), then the key `a` -/
def cxRawOps : List Op := [.setInput [49], .key 97 0]

theorem cxRaw_after :
    (runOps cxRawEnv {} cxRawOps).comp.segs.map (fun g => (g.start, g.stop, g.tags.raw, g.status)) =
      [(0, 1, true, .guess), (0, 1, true, .selected), (1, 2, false, .guess)] := by
  decide

theorem cxRaw_hyps : TranslateGeo cxRawCfg := by
  intro inp g hle cd hcd
  simp only [cxRawCfg] at hcd
  split at hcd
  · simp only [List.mem_singleton] at hcd
    rw [hcd]; exact hle
  · simp at hcd

/-- **the geometric invariant fails** for the Compose with the abc and fallback segmentors and an oracle satisfying
`TranslateGeo`, with `auto_select: true` and no `max_code_length` -/
theorem prev_match_breaks_geometry_raw :
    ∃ (env : Env) (cfg : SegCfg) (ops : List Op), env.recompose = compose cfg ∧ TranslateGeo cfg ∧
      ¬ GeoInv (runOps env {} ops) := by
  refine ⟨cxRawEnv, cxRawCfg, cxRawOps, rfl, cxRaw_hyps, ?_⟩
  intro h
  have hc := chainB_of_chain h.geo.1
  revert hc
  decide

end RimeModel.Session
