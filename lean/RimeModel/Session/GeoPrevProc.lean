import RimeModel.Session.GeoProc
import RimeModel.Session.InvProc
/-!
One key through the speller, for EVERY schema (auto_select without a code-length bound included): the geometric
invariant is kept provided the "reuse previous match" branch of AutoSelectPreviousMatch, if it is taken for this key,
is aligned (`SpellerAligned`).  Everything else the speller does — FindEarlierMatch included — keeps the invariant
unconditionally.  `Session/GeoPrevCx.lean` shows that the alignment can fail.
-/
namespace RimeModel.Session
open Ctx
variable {env : Env}

theorem pushInput_input_length (c : Ctx) (ch : UInt8) :
    (pushInput env c ch).input.length = c.input.length + 1 := by
  unfold pushInput
  split
  · simp [update]
  · simp only [update, List.length_append, List.length_take, List.length_cons, List.length_drop]
    omega

theorem beginEditing_input (c : Ctx) : c.beginEditing.input = c.input := rfl

/-- the saved segment is well shaped and ends before the end of the raw input once the key has been added -/
theorem spellerPrev_bound {c1 : Ctx} (hi : Inv c1) (hg : GeoInv c1) (ch : UInt8) :
    ∀ p, spellerPrev env c1 = some p →
      SegGeo p ∧ p.stop < ((pushInput env c1 ch).beginEditing).input.length := by
  intro p hp
  unfold spellerPrev at hp
  split at hp
  · have hmem : p ∈ c1.comp.segs := List.mem_of_getLast? hp
    have hb := hg.bounded p hmem
    have hc := hi.cinput_le
    rw [beginEditing_input, pushInput_input_length]
    exact ⟨hg.geo.seg hmem, by omega⟩
  · cases hp

theorem spellerTail_geo (hrc : ComposeGeoSpec env.recompose) (isInitial : Bool) {prev : Option Seg} {c : Ctx}
    (h : GeoInv c) (hp : ∀ p, prev = some p → SegGeo p ∧ p.stop < c.input.length) (hal : ReuseAligned env prev c) :
    GeoInv (spellerTail env isInitial prev c).1 := by
  unfold spellerTail
  have h1 := autoSelectPreviousMatch_geo hrc h hp hal
  dsimp only
  split
  · exact popInput_geo hrc h1 _
  · exact spellerPost_geo hrc (autoSelectUniqueCandidate_geo hrc h1)

/-- the reuse branch, if taken for key `k` in state `c`, pushes the saved segment back where it started -/
def SpellerAligned (env : Env) (k : Key) (c : Ctx) : Prop :=
  ReuseAligned env (spellerPrev env (spellerPre env (env.initials.contains k.byte) c))
    (pushInput env (spellerPre env (env.initials.contains k.byte) c) k.byte).beginEditing

/-- Speller::ProcessKeyEvent keeps the geometric invariant, for every schema, whenever the reuse branch is aligned -/
theorem spellerProcess_geo_of_aligned (hrc : ComposeGeoSpec env.recompose) (hrs : ComposeSpec env.recompose) (k : Key)
    {c : Ctx} (hi : Inv c) (h : GeoInv c) (hal : SpellerAligned env k c) : GeoInv (spellerProcess env k c).1 := by
  unfold spellerProcess
  split
  · exact h
  · split
    · exact h
    · dsimp only
      split
      · exact h
      · split
        · exact h
        · split
          · exact h
          · have hpre := spellerPre_geo hrc (env.initials.contains k.byte) h
            have hprei := spellerPre_inv hrs (env.initials.contains k.byte) hi
            exact spellerTail_geo hrc _ (beginEditing_geo (pushInput_geo hrc hpre _))
              (spellerPrev_bound hprei hpre _) hal

/-- schemas of `NoPrevMatch` are trivially aligned: the branch is never taken -/
theorem spellerAligned_of_noPrevMatch (hnp : NoPrevMatch env) (k : Key) (c : Ctx) : SpellerAligned env k c := by
  unfold SpellerAligned ReuseAligned
  intro ha hx
  rcases hnp with h | h
  · rw [h] at ha; cases ha
  · omega

end RimeModel.Session
