import RimeModel.Session.GeoCtx
import RimeModel.Session.GeoPrev
/-! The geometric invariant is preserved by every processor, by the whole chain and by every API op.
Mirrors `Session/InvProc.lean`. -/
namespace RimeModel.Session
open Ctx
variable {env : Env}

theorem kbpAccept_geo {α : Type} (km : Keymap α) (act : α → Ctx → Ctx × Bool)
    (hact : ∀ a c, GeoInv c → GeoInv (act a c).1) (code : Int) (mask : Nat) {c : Ctx} (h : GeoInv c) :
    GeoInv (kbpAccept km act code mask c).1 := by
  unfold kbpAccept
  split
  · exact hact _ _ h
  · exact h

theorem kbpProcess_geo {α : Type} (km : Keymap α) (act : α → Ctx → Ctx × Bool)
    (hact : ∀ a c, GeoInv c → GeoInv (act a c).1) (sac ish : Bool) (k : Key) {c : Ctx} (h : GeoInv c) :
    GeoInv (kbpProcess km act sac ish k c).1 := by
  unfold kbpProcess
  have hA : ∀ code mask (c : Ctx), GeoInv c → GeoInv (kbpAccept km act code mask c).1 :=
    fun code mask c hc => kbpAccept_geo km act hact code mask hc
  have h1 := hA k.code k.mask c h
  cases sac <;> cases ish <;> dsimp only <;> simp only [Bool.false_eq_true, if_false, if_true] <;>
    (repeat' split) <;>
    first
      | exact h1
      | exact hA _ _ _ h1
      | exact hA _ _ _ (hA _ _ _ h1)

theorem orElse_geo {r : Ctx × Bool} {f : Ctx → Ctx × Bool} (hr : GeoInv r.1) (hf : ∀ c, GeoInv c → GeoInv (f c).1) :
    GeoInv (orElse r f).1 := by
  unfold orElse
  split
  · exact hr
  · exact hf _ hr

/-! speller -/

theorem spellerAutoClear_geo (hrc : ComposeGeoSpec env.recompose) {c : Ctx} (h : GeoInv c) :
    GeoInv (spellerAutoClear env c).1 := by
  unfold spellerAutoClear
  split
  · exact clear_geo hrc _
  · exact h

theorem autoSelectAtMaxCodeLength_geo (hrc : ComposeGeoSpec env.recompose) {c : Ctx} (h : GeoInv c) :
    GeoInv (autoSelectAtMaxCodeLength env c).1 := by
  unfold autoSelectAtMaxCodeLength
  (repeat' split) <;> first | exact h | exact confirmCurrentSelection_geo hrc h

theorem autoSelectUniqueCandidate_geo (hrc : ComposeGeoSpec env.recompose) {c : Ctx} (h : GeoInv c) :
    GeoInv (autoSelectUniqueCandidate env c).1 := by
  unfold autoSelectUniqueCandidate
  dsimp only
  (repeat' split) <;> first | exact h | exact confirmCurrentSelection_geo hrc h

theorem spellerPre_geo (hrc : ComposeGeoSpec env.recompose) (b : Bool) {c : Ctx} (h : GeoInv c) :
    GeoInv (spellerPre env b c) := by
  unfold spellerPre
  have ha := autoSelectAtMaxCodeLength_geo hrc h
  cases b <;> dsimp only <;> simp only [Bool.false_eq_true, if_false, if_true] <;> (repeat' split) <;>
    first
      | exact h
      | exact ha
      | exact spellerAutoClear_geo hrc h
      | exact spellerAutoClear_geo hrc ha

theorem spellerPost_geo (hrc : ComposeGeoSpec env.recompose) {r : Ctx × Bool} (h : GeoInv r.1) :
    GeoInv (spellerPost env r) := by
  unfold spellerPost
  split
  · exact h
  · split
    · exact spellerAutoClear_geo hrc h
    · exact h

/-- Schemas on which Speller::AutoSelectPreviousMatch returns at once (`auto_select` off, or a
`max_code_length` set).  The geometric theorems are proved for these.  For the remaining class (auto_select
without a code-length bound) the statement is FALSE in general: AutoSelectPreviousMatch pops the last segment
and pushes back the copy it took before the key was added, without comparing positions, and when the key opened
a new segment behind the saved one (a punctuation segment with alternatives, a raw segment with candidates) the
copy lands behind itself — `Session/GeoPrevCx.lean`, confirmed on librime.  What is proved for every schema:
FindEarlierMatch keeps the invariant (`findEarlierMatch_geo`), and so does the whole speller key when the reuse
branch is aligned (`Session/GeoPrev.lean`, `Session/GeoPrevProc.lean`). -/
def NoPrevMatch (env : Env) : Prop := env.autoSelect = false ∨ env.maxCodeLength > 0

theorem autoSelectPreviousMatch_off (hnp : NoPrevMatch env) (prev : Option Seg) (c : Ctx) :
    autoSelectPreviousMatch env prev c = (c, false) := by
  unfold autoSelectPreviousMatch
  rcases hnp with h | h
  · simp [h]
  · by_cases ha : env.autoSelect = true
    · simp [ha, h]
    · simp [ha]

theorem spellerProcess_geo (hrc : ComposeGeoSpec env.recompose) (hnp : NoPrevMatch env) (k : Key) {c : Ctx} (h : GeoInv c) :
    GeoInv (spellerProcess env k c).1 := by
  unfold spellerProcess
  split
  · exact h
  · split
    · exact h
    · dsimp only
      split
      · exact h
      · split
        · exact h
        · split
          · exact h
          · unfold spellerTail
            rw [autoSelectPreviousMatch_off hnp]
            simp only [Bool.false_and, Bool.false_eq_true, if_false]
            exact spellerPost_geo hrc (autoSelectUniqueCandidate_geo hrc
              (beginEditing_geo (pushInput_geo hrc (spellerPre_geo hrc _ h) _)))

/-! selector -/

theorem selectorAct_geo (a : SelAct) {c : Ctx} (h : GeoInv c) : GeoInv (selectorAct env a c).1 := by
  unfold selectorAct
  split
  · exact h
  · cases a <;> dsimp only <;> (repeat' split) <;> first
      | exact h
      | (refine modLastSeg_same h ?_; exact fun _ => ⟨rfl, rfl, rfl⟩)

theorem selectCandidateAt_geo (hrc : ComposeGeoSpec env.recompose) (i : Nat) {c : Ctx} (h : GeoInv c) :
    GeoInv (selectCandidateAt env c i) := by
  unfold selectCandidateAt
  split
  · exact h
  · split
    · exact h
    · exact select_geo hrc h _

theorem selectorProcess_geo (hrc : ComposeGeoSpec env.recompose) (k : Key) {c : Ctx} (h : GeoInv c) :
    GeoInv (selectorProcess env k c).1 := by
  unfold selectorProcess
  have hk := kbpProcess_geo (selectorKeymap c) (selectorAct env) (fun a c hc => selectorAct_geo a hc) false false k h
  split
  · exact h
  · split
    · exact h
    · split
      · exact h
      · dsimp only
        split
        · exact hk
        · split
          · exact hk
          · exact selectCandidateAt_geo hrc _ hk

/-! navigator -/

theorem navBeginMove_geo {c : Ctx} (h : GeoInv c) : GeoInv (navBeginMove c) := by
  unfold navBeginMove
  have hb := beginEditing_geo h
  dsimp only
  (repeat' split) <;> first | exact hb | exact hb.of_comp rfl

theorem navGoToEnd_geo (hrc : ComposeGeoSpec env.recompose) {c : Ctx} (h : GeoInv c) : GeoInv (navGoToEnd env c).1 := by
  unfold navGoToEnd; split
  · exact setCaretPos_geo hrc h.toGeoPre _
  · exact h

theorem navMoveLeft_geo (hrc : ComposeGeoSpec env.recompose) {c : Ctx} (h : GeoInv c) : GeoInv (navMoveLeft env c).1 := by
  unfold navMoveLeft; split
  · exact h
  · exact setCaretPos_geo hrc h.toGeoPre _

theorem navMoveRight_geo (hrc : ComposeGeoSpec env.recompose) {c : Ctx} (h : GeoInv c) : GeoInv (navMoveRight env c).1 := by
  unfold navMoveRight; split
  · exact h
  · exact setCaretPos_geo hrc h.toGeoPre _

theorem navGoHome_geo (hrc : ComposeGeoSpec env.recompose) {c : Ctx} (h : GeoInv c) : GeoInv (navGoHome env c).1 := by
  unfold navGoHome; dsimp only
  (repeat' split) <;> first | exact h | exact setCaretPos_geo hrc h.toGeoPre _

theorem navJumpLeft_geo (hrc : ComposeGeoSpec env.recompose) {c : Ctx} (h : GeoInv c) (s : Nat) :
    GeoInv (navJumpLeft env c s).1 := by
  unfold navJumpLeft; dsimp only
  (repeat' split) <;> first | exact h | exact setCaretPos_geo hrc h.toGeoPre _

theorem navJumpRight_geo (hrc : ComposeGeoSpec env.recompose) {c : Ctx} (h : GeoInv c) (s : Nat) :
    GeoInv (navJumpRight env c s).1 := by
  unfold navJumpRight; dsimp only
  (repeat' split) <;> first | exact h | exact setCaretPos_geo hrc h.toGeoPre _

theorem navigatorAct_geo (hrc : ComposeGeoSpec env.recompose) (a : NavAct) {c : Ctx} (h : GeoInv c) :
    GeoInv (navigatorAct env a c).1 := by
  unfold navigatorAct
  have hb := navBeginMove_geo h
  cases a <;> dsimp only
  · -- rewind
    refine orElse_geo ?_ (fun c hc => navGoToEnd_geo hrc hc)
    split
    · exact navJumpLeft_geo hrc hb _
    · exact navMoveLeft_geo hrc hb
  · exact orElse_geo (navMoveLeft_geo hrc hb) (fun c hc => navGoToEnd_geo hrc hc)
  · exact orElse_geo (navMoveRight_geo hrc hb) (fun c hc => navGoHome_geo hrc hc)
  · exact orElse_geo (navJumpLeft_geo hrc hb _) (fun c hc => navGoToEnd_geo hrc hc)
  · exact orElse_geo (navJumpRight_geo hrc hb _) (fun c hc => navGoToEnd_geo hrc hc)
  · exact navGoHome_geo hrc hb
  · exact navGoToEnd_geo hrc hb

theorem navigatorProcess_geo (hrc : ComposeGeoSpec env.recompose) (k : Key) {c : Ctx} (h : GeoInv c) :
    GeoInv (navigatorProcess env k c).1 := by
  unfold navigatorProcess
  split
  · exact h
  · split
    · exact h
    · exact kbpProcess_geo _ _ (fun a c hc => navigatorAct_geo hrc a hc) _ _ k h

/-! editor -/

theorem popThenReopen_geo (hrc : ComposeGeoSpec env.recompose) {c : Ctx} (h : GeoInv c) :
    GeoInv (popThenReopen env c).1 := by
  unfold popThenReopen
  dsimp only
  split
  · exact reopenPreviousSegment_geo hrc (popInput_geo hrc h _)
  · exact popInput_geo hrc h _

theorem commitBuf_geo {c : Ctx} (h : GeoInv c) (b : Bytes) : GeoInv { c with commitBuf := b } := h.of_comp rfl

theorem editorAct_geo (hrc : ComposeGeoSpec env.recompose) (a : EditorAct) {c : Ctx} (h : GeoInv c) :
    GeoInv (editorAct env a c).1 := by
  unfold editorAct
  cases a <;> dsimp only
  · exact orElse_geo (confirmCurrentSelection_geo hrc h) (fun c hc => commit_geo hrc hc)
  · exact orElse_geo (reopenPreviousSegment_geo hrc h) (fun c hc => confirmCurrentSelection_geo hrc hc)
  · split
    · split
      · exact clear_geo hrc _
      · exact h
    · exact h
  · exact commit_geo hrc (clearNonConfirmedComposition_geo h)
  · exact clear_geo hrc _
  · split
    · exact commit_geo hrc (confirmCurrentSelection_geo hrc h)
    · exact confirmCurrentSelection_geo hrc h
  · exact orElse_geo (reopenPreviousSelection_geo hrc h) (fun c hc => popThenReopen_geo hrc hc)
  · exact orElse_geo (orElse_geo (reopenPreviousSegment_geo hrc h) (fun c hc => reopenPreviousSelection_geo hrc hc))
      (fun c hc => popInput_geo hrc hc _)
  · exact orElse_geo (reopenPreviousSelection_geo hrc h) (fun c hc => popThenReopen_geo hrc hc)
  · split
    · exact deleteCandidate_geo h _
    · exact h
  · exact deleteInput_geo hrc h _
  · split
    · exact clearPreviousSegment_geo hrc h
    · exact clear_geo hrc _

theorem editorProcess_geo (hrc : ComposeGeoSpec env.recompose) (fluid : Bool) (k : Key) {c : Ctx} (h : GeoInv c) :
    GeoInv (editorProcess env fluid k c).1 := by
  unfold editorProcess
  have hk : ∀ km, GeoInv (kbpProcess km (editorAct env) true true k c).1 :=
    fun km => kbpProcess_geo km (editorAct env) (fun a c hc => editorAct_geo hrc a hc) true true k h
  dsimp only
  (repeat' split) <;>
    first
      | exact h
      | exact hk _
      | exact commit_geo hrc (hk _)
      | exact commit_geo hrc h
      | exact beginEditing_geo (pushInput_geo hrc (hk _) _)
      | exact beginEditing_geo (pushInput_geo hrc h _)

/-! punctuator -/

theorem punctOdd_geo {c : Ctx} (h : GeoInv c) (v : List (Bool × UInt8)) : GeoInv { c with punctOdd := v } := h.of_comp rfl

theorem alternatePunct_geo (key : UInt8) (d : PunctDef) {c : Ctx} (h : GeoInv c) : GeoInv (alternatePunct c key d).1 := by
  unfold alternatePunct
  (repeat' split) <;>
    first
      | exact h
      | exact modLastSeg_same h (fun _ => ⟨rfl, rfl, rfl⟩)

theorem pairPunct_geo (hrc : ComposeGeoSpec env.recompose) (k : Bool × UInt8) {c : Ctx} (h : GeoInv c) :
    GeoInv (pairPunct env k c) := by
  unfold pairPunct
  (repeat' split) <;>
    first
      | exact h
      | (refine confirmCurrentSelection_geo hrc (GeoInv.of_comp (c := c.modLastSeg _) ?_ rfl)
         exact modLastSeg_same h (fun _ => ⟨rfl, rfl, rfl⟩))

theorem punctFinish_geo (hrc : ComposeGeoSpec env.recompose) (k : Bool × UInt8) (d : PunctDef) {c : Ctx} (h : GeoInv c) :
    GeoInv (punctFinish env k d c) := by
  unfold punctFinish
  cases d <;> dsimp only
  · exact confirmCurrentSelection_geo hrc h
  · exact h
  · exact commit_geo hrc h
  · exact pairPunct_geo hrc k h

theorem punctProcess_geo (hrc : ComposeGeoSpec env.recompose) (k : Key) {c : Ctx} (h : GeoInv c) :
    GeoInv (punctProcess env k c).1 := by
  unfold punctProcess
  split
  · exact h
  · split
    · exact h
    · split
      · exact h
      · split
        · exact h
        · dsimp only
          split
          · exact h
          · (repeat' split) <;>
              first
                | exact alternatePunct_geo _ _ h
                | exact pushInput_geo hrc (alternatePunct_geo _ _ h) _
                | exact punctFinish_geo hrc _ _ (pushInput_geo hrc (alternatePunct_geo _ _ h) _)

/-! ascii composer -/

theorem acUnpress_geo {c : Ctx} (h : GeoInv c) : GeoInv (acUnpress c) := h.of_comp rfl

theorem acSwitch_geo (hrc : ComposeGeoSpec env.recompose) (m : Bool) (st : AcStyle) {c : Ctx} (h : GeoInv c) :
    GeoInv (acSwitch env m st c) := by
  unfold acSwitch
  refine setOption_geo hrc ?_ _ _
  have h0 : GeoInv { c with acInline := false } := h.of_comp rfl
  split
  · cases st <;> dsimp only
    · split
      · exact h.of_comp rfl
      · exact h0
    · exact confirmCurrentSelection_geo hrc h0
    · exact commit_geo hrc (clearNonConfirmedComposition_geo h0)
    · exact clear_geo hrc _
  · exact h

theorem acToggleWithKey_geo (hrc : ComposeGeoSpec env.recompose) (code : Int) {c : Ctx} (h : GeoInv c) :
    GeoInv (acToggleWithKey env code c) := by
  unfold acToggleWithKey
  split
  · exact h
  · exact (acSwitch_geo hrc _ _ h).of_comp rfl

theorem acCapsLock_geo (hrc : ComposeGeoSpec env.recompose) (st : AcStyle) (k : Key) {c : Ctx} (h : GeoInv c) :
    GeoInv (acCapsLock env st k c).1 := by
  unfold acCapsLock
  dsimp only
  (repeat' split) <;>
    first
      | exact h
      | exact acUnpress_geo h
      | exact commitBuf_geo h _
      | exact acSwitch_geo hrc _ _ (GeoInv.of_comp (acUnpress_geo h) rfl)

theorem acModifierKey_geo (hrc : ComposeGeoSpec env.recompose) (b : Bool) (k : Key) {c : Ctx} (h : GeoInv c) :
    GeoInv (acModifierKey env b k c).1 := by
  unfold acModifierKey
  dsimp only
  (repeat' split) <;>
    first
      | exact h
      | exact h.of_comp rfl
      | exact acUnpress_geo h
      | exact acUnpress_geo (acToggleWithKey_geo hrc _ h)

theorem acOtherKey_geo (hrc : ComposeGeoSpec env.recompose) (k : Key) {c : Ctx} (h : GeoInv c) : GeoInv (acOtherKey env k c).1 := by
  unfold acOtherKey
  dsimp only
  (repeat' split) <;> first | exact acUnpress_geo h | exact pushInput_geo hrc (acUnpress_geo h) _

theorem asciiProcess_geo (hrc : ComposeGeoSpec env.recompose) (k : Key) {c : Ctx} (h : GeoInv c) : GeoInv (asciiProcess env k c).1 := by
  unfold asciiProcess
  have hr : GeoInv (acCapsStep env k c).1 := by
    unfold acCapsStep
    split
    · exact acCapsLock_geo hrc _ k h
    · exact h
  generalize acCapsStep env k c = r at hr
  dsimp only
  (repeat' split) <;>
    first
      | exact acUnpress_geo h
      | exact hr
      | exact acToggleWithKey_geo hrc _ (acUnpress_geo hr)
      | exact acModifierKey_geo hrc _ k hr
      | exact acOtherKey_geo hrc k hr

theorem acSettle_geo {c : Ctx} (h : GeoInv c) : GeoInv (acSettle c) := by
  unfold acSettle
  split
  · exact (setOptionRaw_geo h "ascii_mode" false).of_comp rfl
  · exact h

theorem recognizerProcess_geo (hrc : ComposeGeoSpec env.recompose) (k : Key) {c : Ctx} (h : GeoInv c) :
    GeoInv (recognizerProcess env k c).1 := by
  unfold recognizerProcess
  (repeat' split) <;> first | exact h | exact pushInput_geo hrc h _

/-! shape post-processor, key binder -/

theorem shapePost_geo (k : Key) {c : Ctx} (h : GeoInv c) : GeoInv (shapePost k c).1 := by
  unfold shapePost
  (repeat' split) <;> first | exact h | exact commitBuf_geo h _

theorem kbLastKey_geo {c : Ctx} (h : GeoInv c) (v : Int) : GeoInv { c with kbLastKey := v } := h.of_comp rfl

theorem foldl_geo {α : Type} (f : Ctx → α → Ctx) (hf : ∀ c a, GeoInv c → GeoInv (f c a)) :
    ∀ (l : List α) {c : Ctx}, GeoInv c → GeoInv (l.foldl f c)
  | [], _, h => h
  | a :: l, _, h => foldl_geo f hf l (hf _ a h)

theorem radioSelect_geo (hrc : ComposeGeoSpec env.recompose) (group : List String) (idx : Nat) {c : Ctx} (h : GeoInv c) :
    GeoInv (radioSelect env group idx c) := by
  unfold radioSelect
  refine foldl_geo _ ?_ _ h
  intro c o hc
  dsimp only
  split
  · exact setOption_geo hrc hc _ _
  · exact hc

theorem kbToggle_geo (hrc : ComposeGeoSpec env.recompose) (opt : String) {c : Ctx} (h : GeoInv c) : GeoInv (kbToggle env opt c) := by
  unfold kbToggle
  split
  · split
    · dsimp only
      (repeat' split) <;> first | exact h | exact radioSelect_geo hrc _ _ h
    · exact setOption_geo hrc h _ _
  · exact setOption_geo hrc h _ _

theorem kbSet_geo (hrc : ComposeGeoSpec env.recompose) (opt : String) {c : Ctx} (h : GeoInv c) : GeoInv (kbSet env opt c) := by
  unfold kbSet
  (repeat' split) <;> first | exact h | exact radioSelect_geo hrc _ _ h | exact setOption_geo hrc h _ _

theorem kbUnset_geo (hrc : ComposeGeoSpec env.recompose) (opt : String) {c : Ctx} (h : GeoInv c) : GeoInv (kbUnset env opt c) := by
  unfold kbUnset
  dsimp only
  (repeat' split) <;> first | exact h | exact radioSelect_geo hrc _ _ h | exact setOption_geo hrc h _ _

theorem kbReinterpret_geo (hrc : ComposeGeoSpec env.recompose) (k : Key) {c : Ctx} (h : GeoInv c) :
    GeoInv (kbReinterpret env k c).1 := by
  unfold kbReinterpret
  dsimp only
  (repeat' split) <;> first | exact h | exact kbLastKey_geo h _ | exact kbLastKey_geo (pushInput_geo hrc h _) _

theorem kbPerform_geo (hrc : ComposeGeoSpec env.recompose) (reent : Key → Ctx → Ctx × Bool)
    (hre : ∀ k c, GeoInv c → GeoInv (reent k c).1) (a : KbAction) {c : Ctx} (h : GeoInv c) : GeoInv (kbPerform reent env a c) := by
  unfold kbPerform
  cases a <;> dsimp only
  · exact foldl_geo _ (fun c kk hc => hre _ _ hc) _ h
  · exact kbToggle_geo hrc _ h
  · exact kbSet_geo hrc _ h
  · exact kbUnset_geo hrc _ h

theorem kbProcess_geo (hrc : ComposeGeoSpec env.recompose) (reent : Key → Ctx → Ctx × Bool)
    (hre : ∀ k c, GeoInv c → GeoInv (reent k c).1) (k : Key) {c : Ctx} (h : GeoInv c) : GeoInv (kbProcess reent env k c).1 := by
  unfold kbProcess
  have h1 := kbReinterpret_geo hrc k h
  dsimp only
  (repeat' split) <;> first | exact h | exact h1 | exact kbPerform_geo hrc reent hre _ h1

theorem procRunInner_geo (hrc : ComposeGeoSpec env.recompose) (hnp : NoPrevMatch env) (p : Proc) (k : Key) {c : Ctx} (h : GeoInv c) :
    GeoInv (procRunInner env p k c).1 := by
  unfold procRunInner
  cases p <;> dsimp only
  · exact spellerProcess_geo hrc hnp k h
  · exact selectorProcess_geo hrc k h
  · exact navigatorProcess_geo hrc k h
  · exact editorProcess_geo hrc false k h
  · exact editorProcess_geo hrc true k h
  · exact h
  · exact punctProcess_geo hrc k h
  · exact h
  · exact asciiProcess_geo hrc k h
  · exact recognizerProcess_geo hrc k h

theorem chainInner_geo (hrc : ComposeGeoSpec env.recompose) (hnp : NoPrevMatch env) (k : Key) :
    ∀ (ps : List Proc) {c : Ctx}, GeoInv c → GeoInv (chainInner env k ps c).1
  | [], _, h => h
  | p :: ps, c, h => by
    unfold chainInner
    have h1 := procRunInner_geo hrc hnp p k h
    dsimp only
    split
    · exact h1
    · exact h1
    · exact chainInner_geo hrc hnp k ps h1

theorem processKeyNested_geo (hrc : ComposeGeoSpec env.recompose) (hnp : NoPrevMatch env) (k : Key) {c : Ctx} (h : GeoInv c) :
    GeoInv (processKeyNested env k c).1 := by
  unfold processKeyNested
  have h1 := chainInner_geo hrc hnp k env.processors h
  dsimp only
  refine acSettle_geo ?_
  split
  · exact h1
  · exact shapePost_geo _ h1

/-! chain and API -/

theorem procRun_geo (hrc : ComposeGeoSpec env.recompose) (hnp : NoPrevMatch env) (p : Proc) (k : Key) {c : Ctx} (h : GeoInv c) :
    GeoInv (procRun env p k c).1 := by
  unfold procRun
  cases p <;> dsimp only
  · exact spellerProcess_geo hrc hnp k h
  · exact selectorProcess_geo hrc k h
  · exact navigatorProcess_geo hrc k h
  · exact editorProcess_geo hrc false k h
  · exact editorProcess_geo hrc true k h
  · exact h
  · exact punctProcess_geo hrc k h
  · exact kbProcess_geo hrc _ (fun k c hc => processKeyNested_geo hrc hnp k hc) k h
  · exact asciiProcess_geo hrc k h
  · exact recognizerProcess_geo hrc k h

theorem chain_geo (hrc : ComposeGeoSpec env.recompose) (hnp : NoPrevMatch env) (k : Key) : ∀ (ps : List Proc) {c : Ctx}, GeoInv c →
    GeoInv (chain env k ps c).1
  | [], _, h => h
  | p :: ps, c, h => by
    unfold chain
    have h1 := procRun_geo hrc hnp p k h
    dsimp only
    split
    · exact h1
    · exact h1
    · exact chain_geo hrc hnp k ps h1

theorem onCurrentPage_geo {verb : Ctx → Nat → Ctx × Bool} (hv : ∀ c i, GeoInv c → GeoInv (verb c i).1)
    (i : Nat) {c : Ctx} (h : GeoInv c) : GeoInv (onCurrentPage env c i verb).1 := by
  unfold onCurrentPage
  split
  · exact h
  · split
    · exact h
    · split
      · exact h
      · exact hv _ _ h

/-- every API operation preserves the geometric invariant -/
theorem apiStep_geo (hrc : ComposeGeoSpec env.recompose) (hnp : NoPrevMatch env) (op : Op) {c : Ctx} (h : GeoInv c) :
    GeoInv (apiStep env c op).1 := by
  unfold apiStep
  cases op <;> dsimp only
  · exact chain_geo hrc hnp _ _ h
  · exact select_geo hrc h _
  · exact onCurrentPage_geo (fun c i hc => select_geo hrc hc i) _ h
  · exact highlight_geo hrc h _
  · exact onCurrentPage_geo (fun c i hc => highlight_geo hrc hc i) _ h
  · exact deleteCandidate_geo h _
  · exact onCurrentPage_geo (fun c i hc => deleteCandidate_geo hc i) _ h
  · split
    · exact h
    · split
      · exact h
      · refine highlight_geo hrc (modLastSeg_same h ?_) _
        exact fun _ => ⟨rfl, rfl, rfl⟩
  · exact setInput_geo hrc h.toGeoPre _
  · exact setCaretPos_geo hrc h.toGeoPre _
  · exact setOption_geo hrc h _ _
  · exact commit_geo hrc h
  · exact clear_geo hrc _
  · split
    · exact commitBuf_geo h _
    · exact h

/-- a state with no segments satisfies the geometric invariant -/
theorem geoInv_of_no_segs {c : Ctx} (h : c.comp.segs = []) : GeoInv c :=
  ⟨⟨by rw [h]; exact geoOK_nil⟩, by intro g hg; rw [h] at hg; simp at hg⟩

theorem init_geo : GeoInv ({} : Ctx) := geoInv_of_no_segs rfl

/-- the geometric invariant holds in every reachable state -/
theorem runOps_geo (hrc : ComposeGeoSpec env.recompose) (hnp : NoPrevMatch env) (ops : List Op) {c : Ctx} (h : GeoInv c) :
    GeoInv (runOps env c ops) := by
  unfold runOps
  induction ops generalizing c with
  | nil => exact h
  | cons op ops ih => exact ih (apiStep_geo hrc hnp op h)

end RimeModel.Session
