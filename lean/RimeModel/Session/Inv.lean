import RimeModel.Session.Api
/-! Invariants of the session model and their preservation by every context primitive. -/
namespace RimeModel.Session

/-- a segment's selected index addresses an existing candidate whenever its menu is non-empty -/
def SelOK (g : Seg) : Prop := ∀ l, g.menu = some l → l ≠ [] → g.selIdx < l.length

def SegsOK (l : List Seg) : Prop := ∀ g ∈ l, SelOK g

/-- what the theorems assume of `ConcreteEngine::Compose`: it never leaves a segment whose selected
index dangles (it keeps old segments' menu/index pairs or installs a fresh menu with index 0) -/
structure ComposeSpec (rc : Bytes → Nat → Comp → Comp) : Prop where
  segs : ∀ input caret c, SegsOK c.segs → SegsOK (rc input caret c).segs
  /-- the composition is computed for (a prefix of) the raw input it is given -/
  input_le : ∀ input caret c, (rc input caret c).input.length ≤ input.length

/-- what must hold of a state just before the engine recomposes it -/
structure PreInv (c : Ctx) : Prop where
  caret_le : c.caret ≤ c.input.length
  segs_ok : SegsOK c.comp.segs

structure Inv (c : Ctx) : Prop extends PreInv c where
  /-- the composition's own copy of the input is no longer than the raw input -/
  cinput_le : c.comp.input.length ≤ c.input.length

theorem selOK_mk' (s e : Nat) : SelOK (Seg.mk' s e) := by
  intro l h; simp [Seg.mk'] at h

theorem SegsOK.append {a b : List Seg} (ha : SegsOK a) (hb : SegsOK b) : SegsOK (a ++ b) := by
  intro g hg; rcases List.mem_append.mp hg with h | h
  · exact ha g h
  · exact hb g h

theorem SegsOK.dropLast {a : List Seg} (ha : SegsOK a) : SegsOK a.dropLast :=
  fun g hg => ha g (List.dropLast_subset a hg)

theorem SegsOK.reverse {a : List Seg} (ha : SegsOK a) : SegsOK a.reverse :=
  fun g hg => ha g (List.mem_reverse.mp hg)

theorem SegsOK.of_reverse {a : List Seg} (ha : SegsOK a.reverse) : SegsOK a :=
  fun g hg => ha g (List.mem_reverse.mpr hg)

theorem SegsOK.getLast {a : List Seg} {g : Seg} (ha : SegsOK a) (h : a.getLast? = some g) : SelOK g :=
  ha g (List.mem_of_getLast? h)

theorem SegsOK.nil : SegsOK [] := fun _ h => by simp at h

theorem SegsOK.singleton {g : Seg} (h : SelOK g) : SegsOK [g] := by
  intro x hx; simp at hx; subst hx; exact h

theorem segsOK_modLast {l : List Seg} {f : Seg → Seg} (hl : SegsOK l) (hf : ∀ g, SelOK g → SelOK (f g)) :
    SegsOK (modLast l f) := by
  unfold modLast
  split
  · exact hl
  · rename_i g hg
    exact SegsOK.append hl.dropLast (SegsOK.singleton (hf g (hl.getLast hg)))

theorem segsOK_modLast' {l : List Seg} {f : Seg → Seg} {g : Seg} (hl : SegsOK l) (hg : l.getLast? = some g)
    (hf : SelOK (f g)) : SegsOK (modLast l f) := by
  unfold modLast
  rw [hg]
  exact SegsOK.append hl.dropLast (SegsOK.singleton hf)

theorem segsOK_setLast {l : List Seg} {g : Seg} (hl : SegsOK l) (hg : SelOK g) : SegsOK (setLast l g) := by
  unfold setLast
  split
  · exact SegsOK.nil
  · exact SegsOK.append hl.dropLast (SegsOK.singleton hg)

theorem forward_ok {c : Comp} (h : SegsOK c.segs) : SegsOK c.forward.1.segs := by
  unfold Comp.forward
  split
  · exact h
  · split
    · exact h
    · exact SegsOK.append h (SegsOK.singleton (selOK_mk' _ _))

theorem forward_input (c : Comp) : c.forward.1.input = c.input := by
  unfold Comp.forward
  split
  · rfl
  · split <;> rfl

theorem trim_input (c : Comp) : c.trim.1.input = c.input := by
  unfold Comp.trim
  split
  · rfl
  · split <;> rfl

theorem trim_ok {c : Comp} (h : SegsOK c.segs) : SegsOK c.trim.1.segs := by
  unfold Comp.trim
  split
  · exact h
  · split
    · exact h.dropLast
    · exact h

end RimeModel.Session

namespace RimeModel.Session
open Ctx

variable {env : Env}

theorem Inv.of_same {c c' : Ctx} (h : Inv c) (h1 : c'.input = c.input) (h2 : c'.caret = c.caret)
    (h3 : SegsOK c'.comp.segs) (h4 : c'.comp.input = c.comp.input := by rfl) : Inv c' :=
  ⟨⟨by rw [h1, h2]; exact h.caret_le, h3⟩, by rw [h4, h1]; exact h.cinput_le⟩

theorem update_inv (hrc : ComposeSpec env.recompose) {c : Ctx} (h : PreInv c) : Inv (update env c) :=
  ⟨⟨h.caret_le, hrc.segs _ _ _ h.segs_ok⟩, hrc.input_le _ _ _⟩

theorem clear_inv (hrc : ComposeSpec env.recompose) (c : Ctx) : Inv (clear env c) := by
  unfold clear
  exact update_inv hrc ⟨by simp, by simpa using SegsOK.nil⟩

theorem commit_inv (hrc : ComposeSpec env.recompose) {c : Ctx} (h : Inv c) : Inv (commit env c).1 := by
  unfold commit
  split
  · exact h
  · exact clear_inv hrc _

theorem pushInput_inv (hrc : ComposeSpec env.recompose) {c : Ctx} (h : Inv c) (ch : UInt8) :
    Inv (pushInput env c ch) := by
  unfold pushInput
  split
  · exact update_inv hrc ⟨by simp, h.segs_ok⟩
  · refine update_inv hrc ⟨?_, h.segs_ok⟩
    simp only [List.length_append, List.length_take, List.length_cons, List.length_drop]
    omega

theorem popInput_inv (hrc : ComposeSpec env.recompose) {c : Ctx} (h : Inv c) (len : Nat) :
    Inv (popInput env c len).1 := by
  unfold popInput
  split
  · exact h
  · refine update_inv hrc ⟨?_, h.segs_ok⟩
    have := h.caret_le
    simp only [List.length_append, List.length_take, List.length_drop]
    omega

theorem deleteInput_inv (hrc : ComposeSpec env.recompose) {c : Ctx} (h : Inv c) (len : Nat) :
    Inv (deleteInput env c len).1 := by
  unfold deleteInput
  split
  · exact h
  · refine update_inv hrc ⟨?_, h.segs_ok⟩
    have := h.caret_le
    simp only [List.length_append, List.length_take, List.length_drop]
    omega

theorem setCaretPos_inv (hrc : ComposeSpec env.recompose) {c : Ctx} (h : Inv c) (p : Nat) :
    Inv (setCaretPos env c p) := by
  unfold setCaretPos
  refine update_inv hrc ⟨?_, h.segs_ok⟩
  simp only
  split <;> omega

theorem setInput_inv (hrc : ComposeSpec env.recompose) {c : Ctx} (h : Inv c) (v : Bytes) :
    Inv (setInput env c v) := by
  unfold setInput
  exact update_inv hrc ⟨by simp, h.segs_ok⟩

theorem modLastSeg_inv {c : Ctx} (h : Inv c) {f : Seg → Seg} (hf : ∀ g, SelOK g → SelOK (f g)) :
    Inv (c.modLastSeg f) :=
  h.of_same rfl rfl (segsOK_modLast h.segs_ok hf)

theorem modLastSeg_inv' {c : Ctx} (h : Inv c) {f : Seg → Seg} {g : Seg} (hg : c.comp.segs.getLast? = some g)
    (hf : SelOK (f g)) : Inv (c.modLastSeg f) :=
  h.of_same rfl rfl (segsOK_modLast' h.segs_ok hg hf)

theorem modComp_forward_inv {c : Ctx} (h : Inv c) : Inv (c.modComp (fun k => k.forward.1)) :=
  h.of_same rfl rfl (forward_ok h.segs_ok) (forward_input c.comp)

theorem selOK_close {g : Seg} (h : SelOK g) : SelOK g.close := by
  unfold Seg.close
  split
  · split
    · exact h
    · exact h
  · exact h

theorem selOK_status {g : Seg} (h : SelOK g) (s : Status) : SelOK { g with status := s } := h

theorem selOK_reopen {g : Seg} (h : SelOK g) (caret : Nat) : SelOK (g.reopen caret).1 := by
  unfold Seg.reopen
  split
  · exact h
  · dsimp only
    split
    · split <;> exact h
    · exact h

theorem onSelect_inv (hrc : ComposeSpec env.recompose) {c : Ctx} (h : Inv c) : Inv (onSelect env c) := by
  unfold onSelect
  split
  · exact h
  · rename_i g0 hg0
    have hclose : SelOK g0.close := selOK_close (h.segs_ok.getLast hg0)
    dsimp only
    split
    · have h1 : Inv (c.modLastSeg fun _ => { g0.close with status := .confirmed }) :=
        modLastSeg_inv h (fun _ _ => selOK_status hclose _)
      split
      · exact commit_inv hrc h1
      · exact modComp_forward_inv h1
    · have h1 : Inv ((c.modLastSeg fun _ => g0.close).modComp fun k => k.forward.1) :=
        modComp_forward_inv (modLastSeg_inv h (fun _ _ => hclose))
      split
      · exact setCaretPos_inv hrc h1 _
      · exact update_inv hrc h1.toPreInv

theorem selOK_setIdx {g : Seg} {i : Nat} (s : Status) (hi : ∀ l, g.menu = some l → l ≠ [] → i < l.length) :
    SelOK { g with selIdx := i, status := s } := hi

theorem candAt_some_lt {g : Seg} {i : Nat} {cd : Cand} (h : g.candAt i = some cd) :
    ∀ l, g.menu = some l → l ≠ [] → i < l.length := by
  intro l hl _
  unfold Seg.candAt at h
  rw [hl] at h
  simp only at h
  exact (List.getElem?_eq_some_iff.mp h).1

theorem navSpans_inv {c : Ctx} (h : Inv c) (v : List Nat) : Inv { c with navSpans := v } :=
  h.of_same rfl rfl h.segs_ok

theorem select_inv (hrc : ComposeSpec env.recompose) {c : Ctx} (h : Inv c) (i : Nat) : Inv (select env c i).1 := by
  unfold select
  split
  · exact h
  · rename_i g hg
    split
    · rename_i cd hcd
      exact navSpans_inv (onSelect_inv hrc (modLastSeg_inv' h hg (candAt_some_lt hcd))) _
    · exact h

end RimeModel.Session

namespace RimeModel.Session
open Ctx
variable {env : Env}

theorem prepare_le {g : Seg} {l : List Cand} (hl : g.menu = some l) (n : Nat) : g.prepare n = min n l.length := by
  unfold Seg.prepare; rw [hl]

theorem highlight_inv (hrc : ComposeSpec env.recompose) {c : Ctx} (h : Inv c) (i : Nat) :
    Inv (highlight env c i).1 := by
  unfold highlight
  split
  · exact h
  · rename_i g hg
    split
    · exact h
    · generalize hni : (if g.prepare (i + 1) > 0 then min (g.prepare (i + 1) - 1) i else 0) = newIndex
      dsimp only
      rw [hni]
      split
      · exact h
      · refine update_inv hrc (modLastSeg_inv' h hg ?_).toPreInv
        intro l hl hne
        have hl' : g.menu = some l := hl
        rw [prepare_le hl'] at hni
        have : 0 < l.length := List.length_pos_iff.mpr hne
        show newIndex < l.length
        rw [← hni]
        split <;> omega

theorem deleteCandidate_inv {c : Ctx} (h : Inv c) (i : Nat) : Inv (deleteCandidate env c i).1 := by
  unfold deleteCandidate
  split
  · exact h
  · rename_i g hg
    split
    · rename_i cd hcd
      exact modLastSeg_inv' h hg (candAt_some_lt hcd)
    · exact h

theorem confirmCurrentSelection_inv (hrc : ComposeSpec env.recompose) {c : Ctx} (h : Inv c) :
    Inv (confirmCurrentSelection env c).1 := by
  unfold confirmCurrentSelection
  split
  · exact h
  · rename_i g hg
    have h1 : Inv (c.modLastSeg fun g => { g with status := .selected }) :=
      modLastSeg_inv h (fun g hg => selOK_status hg _)
    dsimp only
    split
    · exact navSpans_inv (onSelect_inv hrc h1) _
    · split
      · exact h1
      · exact navSpans_inv (onSelect_inv hrc h1) _

theorem beginEditingRev_ok : ∀ {l : List Seg}, SegsOK l → SegsOK (beginEditingRev l)
  | [], h => h
  | g :: rest, h => by
    have hg : SelOK g := h g (by simp)
    have hr : SegsOK rest := fun x hx => h x (by simp [hx])
    unfold beginEditingRev
    split
    · exact h
    · split
      · intro x hx
        simp only [List.mem_cons] at hx
        rcases hx with rfl | hx
        · exact hg
        · exact hr x hx
      · intro x hx
        simp only [List.mem_cons] at hx
        rcases hx with rfl | hx
        · exact hg
        · exact beginEditingRev_ok hr x hx

theorem beginEditing_inv {c : Ctx} (h : Inv c) : Inv c.beginEditing :=
  h.of_same rfl rfl (SegsOK.of_reverse (by
    simpa [Ctx.modComp, Ctx.beginEditing] using beginEditingRev_ok h.segs_ok.reverse))

theorem reopenPreviousSegment_inv (hrc : ComposeSpec env.recompose) {c : Ctx} (h : Inv c) :
    Inv (reopenPreviousSegment env c).1 := by
  unfold reopenPreviousSegment
  have ht : SegsOK c.comp.trim.1.segs := trim_ok h.segs_ok
  have hti : c.comp.trim.1.input = c.comp.input := trim_input c.comp
  generalize hk : c.comp.trim = kt at ht hti
  obtain ⟨k, trimmed⟩ := kt
  dsimp only at ht hti ⊢
  split
  · have h1 : Inv { c with comp := k } := h.of_same rfl rfl ht hti
    refine update_inv hrc ?_
    split
    · split
      · exact (modLastSeg_inv h1 (fun g hg => selOK_reopen hg _)).toPreInv
      · exact h1.toPreInv
    · exact h1.toPreInv
  · exact h

theorem clearPreviousSegment_inv (hrc : ComposeSpec env.recompose) {c : Ctx} (h : Inv c) :
    Inv (clearPreviousSegment env c).1 := by
  unfold clearPreviousSegment
  split
  · exact h
  · split
    · exact h
    · exact setInput_inv hrc h _

theorem reopenSelRev_ok (caret : Nat) : ∀ {l r : List Seg}, SegsOK l → reopenSelRev caret l = some r → SegsOK r
  | [], _, _, h => by simp [reopenSelRev] at h
  | g :: rest, r, hl, h => by
    have hg : SelOK g := hl g (by simp)
    have hr : SegsOK rest := fun x hx => hl x (by simp [hx])
    unfold reopenSelRev at h
    split at h
    · simp at h
    · split at h
      · split at h
        · simp at h
        · simp only [Option.some.injEq] at h
          subst h
          intro x hx
          simp only [List.mem_cons] at hx
          rcases hx with rfl | hx
          · exact selOK_reopen hg _
          · exact hr x hx
      · exact reopenSelRev_ok caret hr h

theorem reopenPreviousSelection_inv (hrc : ComposeSpec env.recompose) {c : Ctx} (h : Inv c) :
    Inv (reopenPreviousSelection env c).1 := by
  unfold reopenPreviousSelection
  split
  · exact h
  · rename_i r hr
    refine update_inv hrc (Inv.toPreInv (h.of_same (c' := c.modComp (fun k => { k with segs := r.reverse })) rfl rfl ?_ rfl))
    simpa [Ctx.modComp] using (reopenSelRev_ok _ h.segs_ok.reverse hr).reverse

theorem dropNonConfirmedRev_ok : ∀ {l : List Seg}, SegsOK l → SegsOK (dropNonConfirmedRev l).1
  | [], h => by simpa [dropNonConfirmedRev] using h
  | g :: rest, h => by
    have hr : SegsOK rest := fun x hx => h x (by simp [hx])
    unfold dropNonConfirmedRev
    split
    · exact dropNonConfirmedRev_ok hr
    · exact h

theorem clearNonConfirmedComposition_inv {c : Ctx} (h : Inv c) : Inv (clearNonConfirmedComposition c).1 := by
  unfold clearNonConfirmedComposition
  have hd := dropNonConfirmedRev_ok h.segs_ok.reverse
  generalize dropNonConfirmedRev c.comp.segs.reverse = p at hd
  obtain ⟨r, reverted⟩ := p
  dsimp only at hd ⊢
  split
  · refine modComp_forward_inv (h.of_same rfl rfl ?_)
    simpa [Ctx.modComp] using hd.reverse
  · exact h

theorem refreshNonConfirmedComposition_inv (hrc : ComposeSpec env.recompose) {c : Ctx} (h : Inv c) :
    Inv (refreshNonConfirmedComposition env c).1 := by
  unfold refreshNonConfirmedComposition
  have h1 := clearNonConfirmedComposition_inv h
  generalize clearNonConfirmedComposition c = p at h1
  obtain ⟨c1, r⟩ := p
  dsimp only at h1 ⊢
  split
  · exact update_inv hrc h1.toPreInv
  · exact h

theorem setOptionRaw_inv {c : Ctx} (h : Inv c) (n : String) (v : Bool) : Inv (c.setOptionRaw n v) :=
  h.of_same rfl rfl (by rw [Ctx.setOptionRaw_segs]; exact h.segs_ok) (Ctx.setOptionRaw_cinput c n v)

theorem setOption_inv (hrc : ComposeSpec env.recompose) {c : Ctx} (h : Inv c) (n : String) (v : Bool) :
    Inv (setOption env c n v) := by
  unfold setOption
  dsimp only
  split
  · exact refreshNonConfirmedComposition_inv hrc (setOptionRaw_inv h n v)
  · exact setOptionRaw_inv h n v

end RimeModel.Session
