import RimeModel.Session.Inv
/-! The invariant is preserved by every processor, by the whole chain and by every API op. -/
namespace RimeModel.Session
open Ctx
variable {env : Env}

theorem kbpAccept_inv {α : Type} (km : Keymap α) (act : α → Ctx → Ctx × Bool)
    (hact : ∀ a c, Inv c → Inv (act a c).1) (code : Int) (mask : Nat) {c : Ctx} (h : Inv c) :
    Inv (kbpAccept km act code mask c).1 := by
  unfold kbpAccept
  split
  · exact hact _ _ h
  · exact h

theorem kbpProcess_inv {α : Type} (km : Keymap α) (act : α → Ctx → Ctx × Bool)
    (hact : ∀ a c, Inv c → Inv (act a c).1) (sac ish : Bool) (k : Key) {c : Ctx} (h : Inv c) :
    Inv (kbpProcess km act sac ish k c).1 := by
  unfold kbpProcess
  have hA : ∀ code mask (c : Ctx), Inv c → Inv (kbpAccept km act code mask c).1 :=
    fun code mask c hc => kbpAccept_inv km act hact code mask hc
  have h1 := hA k.code k.mask c h
  cases sac <;> cases ish <;> dsimp only <;> simp only [Bool.false_eq_true, if_false, if_true] <;>
    (repeat' split) <;>
    first
      | exact h1
      | exact hA _ _ _ h1
      | exact hA _ _ _ (hA _ _ _ h1)

theorem orElse_inv {r : Ctx × Bool} {f : Ctx → Ctx × Bool} (hr : Inv r.1) (hf : ∀ c, Inv c → Inv (f c).1) :
    Inv (orElse r f).1 := by
  unfold orElse
  split
  · exact hr
  · exact hf _ hr

/-! speller -/

theorem spellerAutoClear_inv (hrc : ComposeSpec env.recompose) {c : Ctx} (h : Inv c) :
    Inv (spellerAutoClear env c).1 := by
  unfold spellerAutoClear
  split
  · exact clear_inv hrc _
  · exact h

theorem autoSelectAtMaxCodeLength_inv (hrc : ComposeSpec env.recompose) {c : Ctx} (h : Inv c) :
    Inv (autoSelectAtMaxCodeLength env c).1 := by
  unfold autoSelectAtMaxCodeLength
  split
  · exact h
  · split
    · exact h
    · split
      · split
        · exact confirmCurrentSelection_inv hrc h
        · exact h
      · exact h

theorem autoSelectUniqueCandidate_inv (hrc : ComposeSpec env.recompose) {c : Ctx} (h : Inv c) :
    Inv (autoSelectUniqueCandidate env c).1 := by
  unfold autoSelectUniqueCandidate
  split
  · exact h
  · split
    · exact h
    · split
      · exact h
      · split
        · exact h
        · split
          · exact h
          · dsimp only
            split
            · exact confirmCurrentSelection_inv hrc h
            · exact h

theorem spellerPre_inv (hrc : ComposeSpec env.recompose) (b : Bool) {c : Ctx} (h : Inv c) :
    Inv (spellerPre env b c) := by
  unfold spellerPre
  have ha := autoSelectAtMaxCodeLength_inv hrc h
  cases b <;> dsimp only <;> simp only [Bool.false_eq_true, if_false, if_true] <;> (repeat' split) <;>
    first
      | exact h
      | exact ha
      | exact spellerAutoClear_inv hrc h
      | exact spellerAutoClear_inv hrc ha

theorem spellerPost_inv (hrc : ComposeSpec env.recompose) {r : Ctx × Bool} (h : Inv r.1) :
    Inv (spellerPost env r) := by
  unfold spellerPost
  split
  · exact h
  · split
    · exact spellerAutoClear_inv hrc h
    · exact h

theorem femSelect_inv (hrc : ComposeSpec env.recompose) (input : Bytes) (e : Nat) {c : Ctx} (h : Inv c) :
    Inv (femSelect env input e c).1 := by
  unfold femSelect
  split
  · exact setInput_inv hrc (commit_inv hrc h) _
  · exact setInput_inv hrc (confirmCurrentSelection_inv hrc h) _

theorem femContinue_inv (k : Nat → Nat → Ctx → Ctx × Bool) (hk : ∀ s e c, Inv c → Inv (k s e c).1)
    {r : Ctx × Nat} (h : Inv r.1) : Inv (femContinue k r) := by
  unfold femContinue
  split
  · exact hk _ _ _ h
  · exact h

theorem femGo_inv (hrc : ComposeSpec env.recompose) (k : Nat → Nat → Ctx → Ctx × Bool)
    (hk : ∀ s e c, Inv c → Inv (k s e c).1) (input : Bytes) :
    ∀ (es : List Nat) {c : Ctx}, Inv c → Inv (femGo env k input es c).1
  | [], c, h => by
    unfold femGo
    exact setInput_inv hrc h _
  | e :: es, c, h => by
    unfold femGo
    have h1 : Inv (Ctx.setInput env c (input.take e)) := setInput_inv hrc h _
    dsimp only
    split
    · exact setInput_inv hrc h1 _
    · split
      · exact femGo_inv hrc k hk input es h1
      · split
        · exact femContinue_inv k hk (femSelect_inv hrc input e h1)
        · exact femGo_inv hrc k hk input es h1

theorem findEarlierMatch_inv (hrc : ComposeSpec env.recompose) :
    ∀ (fuel s e : Nat) (c : Ctx), Inv c → Inv (findEarlierMatch env fuel s e c).1
  | 0, _, _, _, h => by unfold findEarlierMatch; exact h
  | fuel + 1, s, e, c, h => by
    unfold findEarlierMatch
    split
    · exact h
    · exact femGo_inv hrc _ (findEarlierMatch_inv hrc fuel) _ _ h

theorem replaceLastSeg_inv {c : Ctx} (h : Inv c) {p : Seg} (hp : SelOK p) : Inv (c.replaceLastSeg p) :=
  ⟨⟨h.caret_le, SegsOK.append h.segs_ok.dropLast (SegsOK.singleton hp)⟩, h.cinput_le⟩

theorem reusePreviousMatch_inv (hrc : ComposeSpec env.recompose) {c : Ctx} (h : Inv c) {p : Seg} (hp : SelOK p) :
    Inv (reusePreviousMatch env p c) := by
  unfold reusePreviousMatch
  have h2 := confirmCurrentSelection_inv hrc (replaceLastSeg_inv h hp)
  dsimp only
  split
  · exact setInput_inv hrc (commit_inv hrc (setInput_inv hrc h2 _)) _
  · exact h2

theorem autoSelectPreviousMatch_inv (hrc : ComposeSpec env.recompose) {prev : Option Seg}
    (hp : ∀ p, prev = some p → SelOK p) {c : Ctx} (h : Inv c) :
    Inv (autoSelectPreviousMatch env prev c).1 := by
  unfold autoSelectPreviousMatch
  split
  · exact h
  · split
    · exact h
    · split
      · exact h
      · split
        · exact h
        · rename_i p
          split
          · exact h
          · split
            · exact reusePreviousMatch_inv hrc h (hp p rfl)
            · exact findEarlierMatch_inv hrc _ _ _ _ h

theorem spellerPrev_ok {c : Ctx} (h : Inv c) : ∀ p, spellerPrev env c = some p → SelOK p := by
  intro p hp
  unfold spellerPrev at hp
  split at hp
  · exact h.segs_ok.getLast hp
  · cases hp

theorem spellerTail_inv (hrc : ComposeSpec env.recompose) (isInitial : Bool) {prev : Option Seg}
    (hp : ∀ p, prev = some p → SelOK p) {c : Ctx} (h : Inv c) :
    Inv (spellerTail env isInitial prev c).1 := by
  unfold spellerTail
  have h1 := autoSelectPreviousMatch_inv hrc hp h
  dsimp only
  split
  · exact popInput_inv hrc h1 _
  · exact spellerPost_inv hrc (autoSelectUniqueCandidate_inv hrc h1)

theorem spellerProcess_inv (hrc : ComposeSpec env.recompose) (k : Key) {c : Ctx} (h : Inv c) :
    Inv (spellerProcess env k c).1 := by
  unfold spellerProcess
  split
  · exact h
  · split
    · exact h
    · dsimp only
      split
      · exact h
      · split
        · exact h
        · split
          · exact h
          · have hpre := spellerPre_inv hrc (env.initials.contains k.byte) h
            exact spellerTail_inv hrc _ (spellerPrev_ok hpre) (beginEditing_inv (pushInput_inv hrc hpre _))

/-! selector -/

theorem selOK_tagPaging {g : Seg} (h : SelOK g) : SelOK (tagPaging g) := h

theorem selOK_idx_le {g : Seg} (h : SelOK g) {i : Nat} (hi : i ≤ g.selIdx) : SelOK { g with selIdx := i } := by
  intro l hl hne
  have := h l hl hne
  show i < l.length
  omega

theorem selOK_idx_zero (g : Seg) : SelOK { g with selIdx := 0 } := by
  intro l _ hne
  exact List.length_pos_iff.mpr hne

theorem selectorAct_inv (a : SelAct) {c : Ctx} (h : Inv c) : Inv (selectorAct env a c).1 := by
  unfold selectorAct
  split
  · exact h
  · rename_i g hg
    have hgo : SelOK g := h.segs_ok.getLast hg
    cases a with
    | previousPage =>
      dsimp only
      refine modLastSeg_inv' h hg (selOK_tagPaging (selOK_idx_le hgo ?_))
      split <;> omega
    | nextPage =>
      dsimp only
      split
      · exact h
      · split
        · split
          · exact modLastSeg_inv' h hg (selOK_tagPaging (selOK_idx_zero g))
          · exact h
        · rename_i hnone hcount
          refine modLastSeg_inv' h hg (selOK_tagPaging ?_)
          intro l hl hne
          have hl' : g.menu = some l := hl
          rw [prepare_le hl'] at hcount ⊢
          show (if g.selIdx + env.pageSize ≥ min _ l.length then min _ l.length - 1 else g.selIdx + env.pageSize) < l.length
          split <;> omega
    | previousCandidate =>
      dsimp only
      split
      · exact h
      · split
        · exact h
        · exact modLastSeg_inv' h hg (selOK_tagPaging (selOK_idx_le hgo (by omega)))
    | nextCandidate =>
      dsimp only
      split
      · exact h
      · split
        · exact h
        · split
          · exact h
          · rename_i _ _ hprep
            refine modLastSeg_inv' h hg (selOK_tagPaging ?_)
            intro l hl hne
            have hl' : g.menu = some l := hl
            rw [prepare_le hl'] at hprep
            show g.selIdx + 1 < l.length
            omega
    | home =>
      dsimp only
      split
      · exact modLastSeg_inv' h hg (selOK_idx_zero g)
      · exact h
    | end_ =>
      dsimp only
      split
      · exact h
      · split
        · exact modLastSeg_inv' h hg (selOK_idx_zero g)
        · exact h

theorem selectCandidateAt_inv (hrc : ComposeSpec env.recompose) (i : Nat) {c : Ctx} (h : Inv c) :
    Inv (selectCandidateAt env c i) := by
  unfold selectCandidateAt
  split
  · exact h
  · split
    · exact h
    · exact select_inv hrc h _

theorem selectorProcess_inv (hrc : ComposeSpec env.recompose) (k : Key) {c : Ctx} (h : Inv c) :
    Inv (selectorProcess env k c).1 := by
  unfold selectorProcess
  have hk := kbpProcess_inv (selectorKeymap c) (selectorAct env) (fun a c hc => selectorAct_inv a hc) false false k h
  split
  · exact h
  · split
    · exact h
    · split
      · exact h
      · dsimp only
        split
        · exact hk
        · split
          · exact hk
          · exact selectCandidateAt_inv hrc _ hk

/-! navigator -/

theorem navBeginMove_inv {c : Ctx} (h : Inv c) : Inv (navBeginMove c) := by
  unfold navBeginMove
  have hb := beginEditing_inv h
  dsimp only
  (repeat' split) <;> first | exact hb | exact hb.of_same rfl rfl hb.segs_ok

theorem navGoToEnd_inv (hrc : ComposeSpec env.recompose) {c : Ctx} (h : Inv c) : Inv (navGoToEnd env c).1 := by
  unfold navGoToEnd; split
  · exact setCaretPos_inv hrc h _
  · exact h

theorem navMoveLeft_inv (hrc : ComposeSpec env.recompose) {c : Ctx} (h : Inv c) : Inv (navMoveLeft env c).1 := by
  unfold navMoveLeft; split
  · exact h
  · exact setCaretPos_inv hrc h _

theorem navMoveRight_inv (hrc : ComposeSpec env.recompose) {c : Ctx} (h : Inv c) : Inv (navMoveRight env c).1 := by
  unfold navMoveRight; split
  · exact h
  · exact setCaretPos_inv hrc h _

theorem navGoHome_inv (hrc : ComposeSpec env.recompose) {c : Ctx} (h : Inv c) : Inv (navGoHome env c).1 := by
  unfold navGoHome; dsimp only
  (repeat' split) <;> first | exact h | exact setCaretPos_inv hrc h _

theorem navJumpLeft_inv (hrc : ComposeSpec env.recompose) {c : Ctx} (h : Inv c) (s : Nat) :
    Inv (navJumpLeft env c s).1 := by
  unfold navJumpLeft; dsimp only
  (repeat' split) <;> first | exact h | exact setCaretPos_inv hrc h _

theorem navJumpRight_inv (hrc : ComposeSpec env.recompose) {c : Ctx} (h : Inv c) (s : Nat) :
    Inv (navJumpRight env c s).1 := by
  unfold navJumpRight; dsimp only
  (repeat' split) <;> first | exact h | exact setCaretPos_inv hrc h _

theorem navigatorAct_inv (hrc : ComposeSpec env.recompose) (a : NavAct) {c : Ctx} (h : Inv c) :
    Inv (navigatorAct env a c).1 := by
  unfold navigatorAct
  have hb := navBeginMove_inv h
  cases a <;> dsimp only
  · -- rewind
    refine orElse_inv ?_ (fun c hc => navGoToEnd_inv hrc hc)
    split
    · exact navJumpLeft_inv hrc hb _
    · exact navMoveLeft_inv hrc hb
  · exact orElse_inv (navMoveLeft_inv hrc hb) (fun c hc => navGoToEnd_inv hrc hc)
  · exact orElse_inv (navMoveRight_inv hrc hb) (fun c hc => navGoHome_inv hrc hc)
  · exact orElse_inv (navJumpLeft_inv hrc hb _) (fun c hc => navGoToEnd_inv hrc hc)
  · exact orElse_inv (navJumpRight_inv hrc hb _) (fun c hc => navGoToEnd_inv hrc hc)
  · exact navGoHome_inv hrc hb
  · exact navGoToEnd_inv hrc hb

theorem navigatorProcess_inv (hrc : ComposeSpec env.recompose) (k : Key) {c : Ctx} (h : Inv c) :
    Inv (navigatorProcess env k c).1 := by
  unfold navigatorProcess
  split
  · exact h
  · split
    · exact h
    · exact kbpProcess_inv _ _ (fun a c hc => navigatorAct_inv hrc a hc) _ _ k h

/-! editor -/

theorem popThenReopen_inv (hrc : ComposeSpec env.recompose) {c : Ctx} (h : Inv c) : Inv (popThenReopen env c).1 := by
  unfold popThenReopen
  dsimp only
  split
  · exact reopenPreviousSegment_inv hrc (popInput_inv hrc h _)
  · exact popInput_inv hrc h _

theorem commitBuf_inv {c : Ctx} (h : Inv c) (b : Bytes) : Inv { c with commitBuf := b } :=
  h.of_same rfl rfl h.segs_ok

theorem editorAct_inv (hrc : ComposeSpec env.recompose) (a : EditorAct) {c : Ctx} (h : Inv c) :
    Inv (editorAct env a c).1 := by
  unfold editorAct
  cases a <;> dsimp only
  · exact orElse_inv (confirmCurrentSelection_inv hrc h) (fun c hc => commit_inv hrc hc)
  · exact orElse_inv (reopenPreviousSegment_inv hrc h) (fun c hc => confirmCurrentSelection_inv hrc hc)
  · split
    · split
      · exact clear_inv hrc _
      · exact h
    · exact h
  · exact commit_inv hrc (clearNonConfirmedComposition_inv h)
  · exact clear_inv hrc _
  · split
    · exact commit_inv hrc (confirmCurrentSelection_inv hrc h)
    · exact confirmCurrentSelection_inv hrc h
  · exact orElse_inv (reopenPreviousSelection_inv hrc h) (fun c hc => popThenReopen_inv hrc hc)
  · exact orElse_inv (orElse_inv (reopenPreviousSegment_inv hrc h) (fun c hc => reopenPreviousSelection_inv hrc hc))
      (fun c hc => popInput_inv hrc hc _)
  · exact orElse_inv (reopenPreviousSelection_inv hrc h) (fun c hc => popThenReopen_inv hrc hc)
  · split
    · exact deleteCandidate_inv h _
    · exact h
  · exact deleteInput_inv hrc h _
  · split
    · exact clearPreviousSegment_inv hrc h
    · exact clear_inv hrc _

theorem editorProcess_inv (hrc : ComposeSpec env.recompose) (fluid : Bool) (k : Key) {c : Ctx} (h : Inv c) :
    Inv (editorProcess env fluid k c).1 := by
  unfold editorProcess
  have hk : ∀ km, Inv (kbpProcess km (editorAct env) true true k c).1 :=
    fun km => kbpProcess_inv km (editorAct env) (fun a c hc => editorAct_inv hrc a hc) true true k h
  dsimp only
  (repeat' split) <;>
    first
      | exact h
      | exact hk _
      | exact commit_inv hrc (hk _)
      | exact commit_inv hrc h
      | exact beginEditing_inv (pushInput_inv hrc (hk _) _)
      | exact beginEditing_inv (pushInput_inv hrc h _)

/-! punctuator -/

theorem punctOdd_inv {c : Ctx} (h : Inv c) (v : List (Bool × UInt8)) : Inv { c with punctOdd := v } :=
  h.of_same rfl rfl h.segs_ok

theorem alternatePunct_inv (key : UInt8) (d : PunctDef) {c : Ctx} (h : Inv c) : Inv (alternatePunct c key d).1 := by
  unfold alternatePunct
  split
  · split
    · exact h
    · rename_i g hg
      split
      · split
        · exact h
        · rename_i l hl
          split
          · exact h
          · rename_i hne
            refine modLastSeg_inv' h hg ?_
            intro l' hl' _
            have hl'' : g.menu = some l' := hl'
            rw [hl] at hl''
            cases hl''
            exact Nat.mod_lt _ (List.length_pos_iff.mpr hne)
      · exact h
  · exact h

theorem pairPunct_inv (hrc : ComposeSpec env.recompose) (k : Bool × UInt8) {c : Ctx} (h : Inv c) :
    Inv (pairPunct env k c) := by
  unfold pairPunct
  split
  · exact h
  · rename_i g hg
    split
    · split
      · exact h
      · rename_i hprep
        refine confirmCurrentSelection_inv hrc (punctOdd_inv (modLastSeg_inv' h hg ?_) _)
        intro l hl _
        have hl' : g.menu = some l := hl
        rw [prepare_le hl'] at hprep
        have h2 : (g.selIdx + if c.punctOdd.contains k = true then 1 else 0) % 2 < 2 := Nat.mod_lt _ (by omega)
        show (g.selIdx + if c.punctOdd.contains k = true then 1 else 0) % 2 < l.length
        omega
    · exact h

theorem punctFinish_inv (hrc : ComposeSpec env.recompose) (k : Bool × UInt8) (d : PunctDef) {c : Ctx} (h : Inv c) :
    Inv (punctFinish env k d c) := by
  unfold punctFinish
  cases d <;> dsimp only
  · exact confirmCurrentSelection_inv hrc h
  · exact h
  · exact commit_inv hrc h
  · exact pairPunct_inv hrc k h

theorem punctProcess_inv (hrc : ComposeSpec env.recompose) (k : Key) {c : Ctx} (h : Inv c) :
    Inv (punctProcess env k c).1 := by
  unfold punctProcess
  split
  · exact h
  · split
    · exact h
    · split
      · exact h
      · split
        · exact h
        · dsimp only
          split
          · exact h
          · (repeat' split) <;>
              first
                | exact alternatePunct_inv _ _ h
                | exact pushInput_inv hrc (alternatePunct_inv _ _ h) _
                | exact punctFinish_inv hrc _ _ (pushInput_inv hrc (alternatePunct_inv _ _ h) _)

/-! ascii composer -/

/-- a state that differs only in fields the invariant does not mention -/
theorem Inv.frame {c c' : Ctx} (h : Inv c) (h1 : c'.input = c.input) (h2 : c'.caret = c.caret) (h3 : c'.comp = c.comp) : Inv c' :=
  h.of_same h1 h2 (by rw [h3]; exact h.segs_ok) (by rw [h3])

theorem acUnpress_inv {c : Ctx} (h : Inv c) : Inv (acUnpress c) := h.frame rfl rfl rfl

theorem acSwitch_inv (hrc : ComposeSpec env.recompose) (m : Bool) (st : AcStyle) {c : Ctx} (h : Inv c) :
    Inv (acSwitch env m st c) := by
  unfold acSwitch
  refine setOption_inv hrc ?_ _ _
  have h0 : Inv { c with acInline := false } := h.frame rfl rfl rfl
  split
  · cases st <;> dsimp only
    · split
      · exact h.frame rfl rfl rfl
      · exact h0
    · exact confirmCurrentSelection_inv hrc h0
    · exact commit_inv hrc (clearNonConfirmedComposition_inv h0)
    · exact clear_inv hrc _
  · exact h

theorem acToggleWithKey_inv (hrc : ComposeSpec env.recompose) (code : Int) {c : Ctx} (h : Inv c) :
    Inv (acToggleWithKey env code c) := by
  unfold acToggleWithKey
  split
  · exact h
  · exact (acSwitch_inv hrc _ _ h).frame rfl rfl rfl

theorem acCapsLock_inv (hrc : ComposeSpec env.recompose) (st : AcStyle) (k : Key) {c : Ctx} (h : Inv c) :
    Inv (acCapsLock env st k c).1 := by
  unfold acCapsLock
  dsimp only
  (repeat' split) <;>
    first
      | exact h
      | exact acUnpress_inv h
      | exact commitBuf_inv h _
      | exact acSwitch_inv hrc _ _ ((acUnpress_inv h).frame rfl rfl rfl)

theorem acModifierKey_inv (hrc : ComposeSpec env.recompose) (b : Bool) (k : Key) {c : Ctx} (h : Inv c) :
    Inv (acModifierKey env b k c).1 := by
  unfold acModifierKey
  dsimp only
  (repeat' split) <;>
    first
      | exact h
      | exact h.frame rfl rfl rfl
      | exact acUnpress_inv h
      | exact acUnpress_inv (acToggleWithKey_inv hrc _ h)

theorem acOtherKey_inv (hrc : ComposeSpec env.recompose) (k : Key) {c : Ctx} (h : Inv c) : Inv (acOtherKey env k c).1 := by
  unfold acOtherKey
  dsimp only
  (repeat' split) <;> first | exact acUnpress_inv h | exact pushInput_inv hrc (acUnpress_inv h) _

theorem asciiProcess_inv (hrc : ComposeSpec env.recompose) (k : Key) {c : Ctx} (h : Inv c) : Inv (asciiProcess env k c).1 := by
  unfold asciiProcess
  have hr : Inv (acCapsStep env k c).1 := by
    unfold acCapsStep
    split
    · exact acCapsLock_inv hrc _ k h
    · exact h
  generalize acCapsStep env k c = r at hr
  dsimp only
  (repeat' split) <;>
    first
      | exact acUnpress_inv h
      | exact hr
      | exact acToggleWithKey_inv hrc _ (acUnpress_inv hr)
      | exact acModifierKey_inv hrc _ k hr
      | exact acOtherKey_inv hrc k hr

theorem acSettle_inv {c : Ctx} (h : Inv c) : Inv (acSettle c) := by
  unfold acSettle
  split
  · exact (setOptionRaw_inv h "ascii_mode" false).frame rfl rfl rfl
  · exact h

theorem recognizerProcess_inv (hrc : ComposeSpec env.recompose) (k : Key) {c : Ctx} (h : Inv c) :
    Inv (recognizerProcess env k c).1 := by
  unfold recognizerProcess
  (repeat' split) <;> first | exact h | exact pushInput_inv hrc h _

/-! shape post-processor, key binder -/

theorem shapePost_inv (k : Key) {c : Ctx} (h : Inv c) : Inv (shapePost k c).1 := by
  unfold shapePost
  (repeat' split) <;> first | exact h | exact commitBuf_inv h _

theorem kbLastKey_inv {c : Ctx} (h : Inv c) (v : Int) : Inv { c with kbLastKey := v } :=
  h.of_same rfl rfl h.segs_ok

theorem foldl_inv {α : Type} (f : Ctx → α → Ctx) (hf : ∀ c a, Inv c → Inv (f c a)) :
    ∀ (l : List α) {c : Ctx}, Inv c → Inv (l.foldl f c)
  | [], _, h => h
  | a :: l, _, h => foldl_inv f hf l (hf _ a h)

theorem radioSelect_inv (hrc : ComposeSpec env.recompose) (group : List String) (idx : Nat) {c : Ctx} (h : Inv c) :
    Inv (radioSelect env group idx c) := by
  unfold radioSelect
  refine foldl_inv _ ?_ _ h
  intro c o hc
  dsimp only
  split
  · exact setOption_inv hrc hc _ _
  · exact hc

theorem kbToggle_inv (hrc : ComposeSpec env.recompose) (opt : String) {c : Ctx} (h : Inv c) : Inv (kbToggle env opt c) := by
  unfold kbToggle
  split
  · split
    · dsimp only
      (repeat' split) <;> first | exact h | exact radioSelect_inv hrc _ _ h
    · exact setOption_inv hrc h _ _
  · exact setOption_inv hrc h _ _

theorem kbSet_inv (hrc : ComposeSpec env.recompose) (opt : String) {c : Ctx} (h : Inv c) : Inv (kbSet env opt c) := by
  unfold kbSet
  (repeat' split) <;> first | exact h | exact radioSelect_inv hrc _ _ h | exact setOption_inv hrc h _ _

theorem kbUnset_inv (hrc : ComposeSpec env.recompose) (opt : String) {c : Ctx} (h : Inv c) : Inv (kbUnset env opt c) := by
  unfold kbUnset
  dsimp only
  (repeat' split) <;> first | exact h | exact radioSelect_inv hrc _ _ h | exact setOption_inv hrc h _ _

theorem kbReinterpret_inv (hrc : ComposeSpec env.recompose) (k : Key) {c : Ctx} (h : Inv c) : Inv (kbReinterpret env k c).1 := by
  unfold kbReinterpret
  dsimp only
  (repeat' split) <;> first | exact h | exact kbLastKey_inv h _ | exact kbLastKey_inv (pushInput_inv hrc h _) _

/-- the key binder's redirection keeps the invariant whatever function plays the engine's ProcessKey, provided that
function keeps it -/
theorem kbPerform_inv (hrc : ComposeSpec env.recompose) (reent : Key → Ctx → Ctx × Bool)
    (hre : ∀ k c, Inv c → Inv (reent k c).1) (a : KbAction) {c : Ctx} (h : Inv c) : Inv (kbPerform reent env a c) := by
  unfold kbPerform
  cases a <;> dsimp only
  · exact foldl_inv _ (fun c kk hc => hre _ _ hc) _ h
  · exact kbToggle_inv hrc _ h
  · exact kbSet_inv hrc _ h
  · exact kbUnset_inv hrc _ h

theorem kbProcess_inv (hrc : ComposeSpec env.recompose) (reent : Key → Ctx → Ctx × Bool)
    (hre : ∀ k c, Inv c → Inv (reent k c).1) (k : Key) {c : Ctx} (h : Inv c) : Inv (kbProcess reent env k c).1 := by
  unfold kbProcess
  have h1 := kbReinterpret_inv hrc k h
  dsimp only
  (repeat' split) <;> first | exact h | exact h1 | exact kbPerform_inv hrc reent hre _ h1

theorem procRunInner_inv (hrc : ComposeSpec env.recompose) (p : Proc) (k : Key) {c : Ctx} (h : Inv c) :
    Inv (procRunInner env p k c).1 := by
  unfold procRunInner
  cases p <;> dsimp only
  · exact spellerProcess_inv hrc k h
  · exact selectorProcess_inv hrc k h
  · exact navigatorProcess_inv hrc k h
  · exact editorProcess_inv hrc false k h
  · exact editorProcess_inv hrc true k h
  · exact h
  · exact punctProcess_inv hrc k h
  · exact h
  · exact asciiProcess_inv hrc k h
  · exact recognizerProcess_inv hrc k h

theorem chainInner_inv (hrc : ComposeSpec env.recompose) (k : Key) : ∀ (ps : List Proc) {c : Ctx}, Inv c →
    Inv (chainInner env k ps c).1
  | [], _, h => h
  | p :: ps, c, h => by
    unfold chainInner
    have h1 := procRunInner_inv hrc p k h
    dsimp only
    split
    · exact h1
    · exact h1
    · exact chainInner_inv hrc k ps h1

/-- the nested `engine_->ProcessKey(target)` keeps the invariant -/
theorem processKeyNested_inv (hrc : ComposeSpec env.recompose) (k : Key) {c : Ctx} (h : Inv c) :
    Inv (processKeyNested env k c).1 := by
  unfold processKeyNested
  have h1 := chainInner_inv hrc k env.processors h
  dsimp only
  refine acSettle_inv ?_
  split
  · exact h1
  · exact shapePost_inv _ h1

/-! chain and API -/

theorem procRun_inv (hrc : ComposeSpec env.recompose) (p : Proc) (k : Key) {c : Ctx} (h : Inv c) :
    Inv (procRun env p k c).1 := by
  unfold procRun
  cases p <;> dsimp only
  · exact spellerProcess_inv hrc k h
  · exact selectorProcess_inv hrc k h
  · exact navigatorProcess_inv hrc k h
  · exact editorProcess_inv hrc false k h
  · exact editorProcess_inv hrc true k h
  · exact h
  · exact punctProcess_inv hrc k h
  · exact kbProcess_inv hrc _ (fun k c hc => processKeyNested_inv hrc k hc) k h
  · exact asciiProcess_inv hrc k h
  · exact recognizerProcess_inv hrc k h

theorem chain_inv (hrc : ComposeSpec env.recompose) (k : Key) : ∀ (ps : List Proc) {c : Ctx}, Inv c →
    Inv (chain env k ps c).1
  | [], _, h => h
  | p :: ps, c, h => by
    unfold chain
    have h1 := procRun_inv hrc p k h
    dsimp only
    split
    · exact h1
    · exact h1
    · exact chain_inv hrc k ps h1

theorem onCurrentPage_inv {verb : Ctx → Nat → Ctx × Bool} (hv : ∀ c i, Inv c → Inv (verb c i).1)
    (i : Nat) {c : Ctx} (h : Inv c) : Inv (onCurrentPage env c i verb).1 := by
  unfold onCurrentPage
  split
  · exact h
  · split
    · exact h
    · split
      · exact h
      · exact hv _ _ h

/-- every API operation preserves the invariant -/
theorem apiStep_inv (hrc : ComposeSpec env.recompose) (op : Op) {c : Ctx} (h : Inv c) :
    Inv (apiStep env c op).1 := by
  unfold apiStep
  cases op <;> dsimp only
  · exact chain_inv hrc _ _ h
  · exact select_inv hrc h _
  · exact onCurrentPage_inv (fun c i hc => select_inv hrc hc i) _ h
  · exact highlight_inv hrc h _
  · exact onCurrentPage_inv (fun c i hc => highlight_inv hrc hc i) _ h
  · exact deleteCandidate_inv h _
  · exact onCurrentPage_inv (fun c i hc => deleteCandidate_inv hc i) _ h
  · split
    · exact h
    · split
      · exact h
      · exact highlight_inv hrc (modLastSeg_inv h (fun g hg => selOK_tagPaging hg)) _
  · exact setInput_inv hrc h _
  · exact setCaretPos_inv hrc h _
  · exact setOption_inv hrc h _ _
  · exact commit_inv hrc h
  · exact clear_inv hrc _
  · split
    · exact commitBuf_inv h _
    · exact h

theorem init_inv : Inv ({} : Ctx) := ⟨⟨by simp, SegsOK.nil⟩, by simp⟩

/-- the invariant holds in every reachable state -/
theorem runOps_inv (hrc : ComposeSpec env.recompose) (ops : List Op) {c : Ctx} (h : Inv c) :
    Inv (runOps env c ops) := by
  unfold runOps
  induction ops generalizing c with
  | nil => exact h
  | cons op ops ih => exact ih (apiStep_inv hrc op h)

end RimeModel.Session
