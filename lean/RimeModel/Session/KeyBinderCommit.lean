import RimeModel.Session.Commit
import RimeModel.Session.InvProc
/-! What the key binder's own steps do to the session's commit buffer (C03): option actions and
ReinterpretPagingKey deliver nothing. -/
namespace RimeModel.Session
open Ctx
variable {env : Env}

theorem clearNonConfirmedComposition_commitBuf (c : Ctx) : (clearNonConfirmedComposition c).1.commitBuf = c.commitBuf := by
  unfold clearNonConfirmedComposition
  generalize dropNonConfirmedRev c.comp.segs.reverse = p
  obtain ⟨r, reverted⟩ := p
  dsimp only
  split <;> rfl

theorem refreshNonConfirmedComposition_commitBuf (c : Ctx) :
    (refreshNonConfirmedComposition env c).1.commitBuf = c.commitBuf := by
  unfold refreshNonConfirmedComposition
  have h := clearNonConfirmedComposition_commitBuf c
  generalize clearNonConfirmedComposition c = p at h
  obtain ⟨c1, r⟩ := p
  dsimp only at h ⊢
  split
  · exact h
  · rfl

/-- Context::set_option + OnOptionUpdate never touches the commit buffer -/
theorem setOption_commitBuf (c : Ctx) (n : String) (v : Bool) : (setOption env c n v).commitBuf = c.commitBuf := by
  unfold setOption
  dsimp only
  split
  · exact refreshNonConfirmedComposition_commitBuf _
  · rfl

theorem foldl_commitBuf {α : Type} (f : Ctx → α → Ctx) (hf : ∀ c a, (f c a).commitBuf = c.commitBuf) :
    ∀ (l : List α) (c : Ctx), (l.foldl f c).commitBuf = c.commitBuf
  | [], _ => rfl
  | a :: l, c => by rw [List.foldl_cons, foldl_commitBuf f hf l, hf]

theorem radioSelect_commitBuf (group : List String) (idx : Nat) (c : Ctx) :
    (radioSelect env group idx c).commitBuf = c.commitBuf := by
  unfold radioSelect
  refine foldl_commitBuf _ ?_ _ _
  intro c o
  dsimp only
  split
  · exact setOption_commitBuf _ _ _
  · rfl

theorem kbToggle_commitBuf (opt : String) (c : Ctx) : (kbToggle env opt c).commitBuf = c.commitBuf := by
  unfold kbToggle
  split
  · split
    · dsimp only
      (repeat' split) <;> first | rfl | exact radioSelect_commitBuf _ _ _
    · exact setOption_commitBuf _ _ _
  · exact setOption_commitBuf _ _ _

theorem kbSet_commitBuf (opt : String) (c : Ctx) : (kbSet env opt c).commitBuf = c.commitBuf := by
  unfold kbSet
  (repeat' split) <;> first | rfl | exact radioSelect_commitBuf _ _ _ | exact setOption_commitBuf _ _ _

theorem kbUnset_commitBuf (opt : String) (c : Ctx) : (kbUnset env opt c).commitBuf = c.commitBuf := by
  unfold kbUnset
  dsimp only
  (repeat' split) <;> first | rfl | exact radioSelect_commitBuf _ _ _ | exact setOption_commitBuf _ _ _

/-- Context::PushInput delivers nothing -/
theorem pushInput_commitBuf (c : Ctx) (ch : UInt8) : (pushInput env c ch).commitBuf = c.commitBuf := by
  unfold pushInput
  split <;> rfl

theorem kbReinterpret_commitBuf (k : Key) (c : Ctx) : (kbReinterpret env k c).1.commitBuf = c.commitBuf := by
  unfold kbReinterpret
  dsimp only
  (repeat' split) <;> first | rfl | exact pushInput_commitBuf _ _

/-- is the action one of the three option actions? -/
def KbAction.isOption : KbAction → Bool
  | .send _ => false
  | _ => true

theorem kbPerform_option_commitBuf (reent : Key → Ctx → Ctx × Bool) (a : KbAction) (ha : a.isOption = true) (c : Ctx) :
    (kbPerform reent env a c).commitBuf = c.commitBuf := by
  unfold kbPerform
  cases a <;> dsimp only
  · cases ha
  · exact kbToggle_commitBuf _ _
  · exact kbSet_commitBuf _ _
  · exact kbUnset_commitBuf _ _

/-- the ascii composer's deferred listener (inline mode ends) delivers nothing -/
theorem acSettle_commitBuf (c : Ctx) : (acSettle c).commitBuf = c.commitBuf := by
  unfold acSettle
  split <;> rfl

end RimeModel.Session
