import RimeModel.Session.EditBuf

/-! generated-keymap facts the refinement proof depends on: re-checked by the kernel against the keymaps
regenerated from editor.cc / navigator.cc / selector.cc on every run -/
namespace RimeModel.Session

theorem sel0_backSpace : Gen.selectorKeymap0.find Gen.xkBackSpace 0 = none := by decide
theorem nav0_backSpace : Gen.navigatorKeymap0.find Gen.xkBackSpace 0 = none := by decide
theorem express_backSpace : Gen.expressEditorKeymap.find Gen.xkBackSpace 0 = some .revertLastEdit := by decide
theorem fluid_backSpace : Gen.fluidEditorKeymap.find Gen.xkBackSpace 0 = some .backToPreviousInput := by decide
theorem sel0_delete : Gen.selectorKeymap0.find Gen.xkDelete 0 = none := by decide
theorem nav0_delete : Gen.navigatorKeymap0.find Gen.xkDelete 0 = none := by decide
theorem express_delete : Gen.expressEditorKeymap.find Gen.xkDelete 0 = some .deleteChar := by decide
theorem fluid_delete : Gen.fluidEditorKeymap.find Gen.xkDelete 0 = some .deleteChar := by decide
theorem sel0_kpLeft : Gen.selectorKeymap0.find Gen.xkKPLeft 0 = none := by decide
theorem nav0_kpLeft : Gen.navigatorKeymap0.find Gen.xkKPLeft 0 = some .leftByChar := by decide
theorem express_kpLeft : Gen.expressEditorKeymap.find Gen.xkKPLeft 0 = none := by decide
theorem fluid_kpLeft : Gen.fluidEditorKeymap.find Gen.xkKPLeft 0 = none := by decide
theorem sel0_kpRight : Gen.selectorKeymap0.find Gen.xkKPRight 0 = none := by decide
theorem nav0_kpRight : Gen.navigatorKeymap0.find Gen.xkKPRight 0 = some .rightByChar := by decide
theorem express_kpRight : Gen.expressEditorKeymap.find Gen.xkKPRight 0 = none := by decide
theorem fluid_kpRight : Gen.fluidEditorKeymap.find Gen.xkKPRight 0 = none := by decide
theorem sel0_right : Gen.selectorKeymap0.find Gen.xkRight 0 = none := by decide
theorem nav0_right : Gen.navigatorKeymap0.find Gen.xkRight 0 = some .rightByChar := by decide
theorem express_right : Gen.expressEditorKeymap.find Gen.xkRight 0 = none := by decide
theorem fluid_right : Gen.fluidEditorKeymap.find Gen.xkRight 0 = none := by decide
theorem sel0_home : Gen.selectorKeymap0.find Gen.xkHome 0 = some .home := by decide
theorem nav0_home : Gen.navigatorKeymap0.find Gen.xkHome 0 = some .home := by decide
theorem express_home : Gen.expressEditorKeymap.find Gen.xkHome 0 = none := by decide
theorem fluid_home : Gen.fluidEditorKeymap.find Gen.xkHome 0 = none := by decide
theorem sel0_end_ : Gen.selectorKeymap0.find Gen.xkEnd 0 = some .end_ := by decide
theorem nav0_end_ : Gen.navigatorKeymap0.find Gen.xkEnd 0 = some .end_ := by decide
theorem express_end_ : Gen.expressEditorKeymap.find Gen.xkEnd 0 = none := by decide
theorem fluid_end_ : Gen.fluidEditorKeymap.find Gen.xkEnd 0 = none := by decide
theorem sel0_escape : Gen.selectorKeymap0.find Gen.xkEscape 0 = none := by decide
theorem nav0_escape : Gen.navigatorKeymap0.find Gen.xkEscape 0 = none := by decide
theorem express_escape : Gen.expressEditorKeymap.find Gen.xkEscape 0 = some .cancelComposition := by decide
theorem fluid_escape : Gen.fluidEditorKeymap.find Gen.xkEscape 0 = some .cancelComposition := by decide
theorem express_handler : Gen.expressEditorCharHandler = .directCommit := by decide
theorem fluid_handler : Gen.fluidEditorCharHandler = .addToInput := by decide

end RimeModel.Session
