import RimeModel.Session.Context
import RimeModel.Session.Recog
import RimeModel.Gen.Keymaps
/-! The processors of the modelled chain: Speller, Selector, Navigator, Editor (express / fluid)
and KeyBindingProcessor's fallback logic (speller.cc, selector.cc, navigator.cc, editor.cc,
key_binding_processor_impl.h).  Default keymaps are GENERATED (RimeModel.Gen.Keymaps). -/
namespace RimeModel.Session

inductive PResult where | rejected | accepted | noop
  deriving Repr, DecidableEq, Inhabited

structure Key where
  code : Int
  mask : Nat      -- modifier as an unsigned 32-bit value
  deriving Repr, DecidableEq, Inhabited

def kShift : Nat := 1
def kControl : Nat := 4
def kAlt : Nat := 8
def kSuper : Nat := 67108864      -- 1 <<< 26
def kRelease : Nat := 1073741824  -- 1 <<< 30

def Key.has (k : Key) (bit : Nat) : Bool := k.mask &&& bit != 0
def Key.release (k : Key) := k.has kRelease
def Key.ctrl (k : Key) := k.has kControl
def Key.alt (k : Key) := k.has kAlt
def Key.shift (k : Key) := k.has kShift
def Key.super (k : Key) := k.has kSuper
def clearBit (m bit : Nat) : Nat := m - (m &&& bit)

/-- printable keycode as a byte -/
def Key.byte (k : Key) : UInt8 := UInt8.ofNat k.code.toNat

/-- KeyBindingProcessor::ProcessKeyEvent, generic in the action interpreter `act` (returns the new
state and the handler's bool). `shiftAsControl` / `ignoreShift` = fallback options. -/
def kbpAccept {α : Type} (km : Keymap α) (act : α → Ctx → Ctx × Bool) (code : Int) (mask : Nat) (c : Ctx) : Ctx × Bool :=
  match km.find code mask with
  | some a => act a c
  | none => (c, false)

def kbpProcess {α : Type} (km : Keymap α) (act : α → Ctx → Ctx × Bool) (shiftAsControl ignoreShift : Bool)
    (k : Key) (c : Ctx) : Ctx × PResult :=
  let r1 := kbpAccept km act k.code k.mask c
  if r1.2 then (r1.1, .accepted)
  else if k.ctrl || k.alt then (r1.1, .noop)
  else if k.shift then
    let r2 := if shiftAsControl then kbpAccept km act k.code (clearBit k.mask kShift ||| kControl) r1.1 else (r1.1, false)
    if r2.2 then (r2.1, .accepted)
    else
      let r3 := if ignoreShift then kbpAccept km act k.code (clearBit k.mask kShift) r2.1 else (r2.1, false)
      if r3.2 then (r3.1, .accepted) else (r3.1, .noop)
  else (r1.1, .noop)

/-! ### Speller -/

def expectingAnInitial (env : Env) (c : Ctx) : Bool :=
  if c.caret = 0 || c.caret = c.comp.currentStart then true
  else match c.input[c.caret - 1]? with
    | some prev => env.finals.contains prev || !env.alphabet.contains prev
    | none => true   -- unreachable when caret ≤ |input| (C01)

def reachedMaxCodeLength (cand : Option Cand) (maxLen : Nat) : Bool :=
  match cand with
  | none => false
  | some cd => decide ((cd.stop : Int) - cd.start ≥ maxLen)

def findFirstOf (input delims : Bytes) (from_ : Nat) : Bool :=
  (input.drop from_).any (fun b => delims.contains b)

def isAutoSelectable (cand : Cand) (input delims : Bytes) : Bool :=
  cand.stop = input.length && cand.autoSelectable && !findFirstOf input delims cand.start

def spellerAutoClear (env : Env) (c : Ctx) : Ctx × Bool :=
  if !c.hasMenu && env.autoClear ≠ .none &&
     (env.autoClear ≠ .maxLength || env.maxCodeLength = 0 || c.input.length ≥ env.maxCodeLength) then
    (Ctx.clear env c, true)
  else (c, false)

def autoSelectAtMaxCodeLength (env : Env) (c : Ctx) : Ctx × Bool :=
  if env.maxCodeLength = 0 then (c, false)
  else if !c.hasMenu then (c, false)
  else match c.selectedCand with
    | some cd =>
      if reachedMaxCodeLength (some cd) env.maxCodeLength && isAutoSelectable cd c.input env.delimiters then
        ((Ctx.confirmCurrentSelection env c).1, true)
      else (c, false)
    | none => (c, false)

def autoSelectUniqueCandidate (env : Env) (c : Ctx) : Ctx × Bool :=
  if !env.autoSelect then (c, false)
  else if !c.hasMenu then (c, false)
  else match c.comp.segs.getLast? with
    | none => (c, false)
    | some g =>
      if g.prepare 2 ≠ 1 then (c, false)
      else match g.selected with
        | none => (c, false)        -- C++ dereferences cand here; unique candidate ⇒ selIdx = 0 valid (C01)
        | some cd =>
          let pat := env.maxCodeLength = 0 || reachedMaxCodeLength (some cd) env.maxCodeLength
          if pat && isAutoSelectable cd c.input env.delimiters then ((Ctx.confirmCurrentSelection env c).1, true)
          else (c, false)

/-- the part of Speller::ProcessKeyEvent before the input is modified -/
def spellerPre (env : Env) (isInitial : Bool) (c : Ctx) : Ctx :=
  let r := if isInitial then autoSelectAtMaxCodeLength env c else (c, false)
  if r.2 then r.1
  else if env.autoClear = .maxLength || env.autoClear = .manual then (spellerAutoClear env r.1).1 else r.1

/-- the part after AutoSelectUniqueCandidate -/
def spellerPost (env : Env) (r : Ctx × Bool) : Ctx :=
  if r.2 then r.1 else if env.autoClear = .auto then (spellerAutoClear env r.1).1 else r.1

/-- the candidate positions `--end > start` of FindEarlierMatch's loop: end-1, end-2, …, start+1 -/
def femEnds (start : Nat) : Nat → List Nat
  | 0 => []
  | e + 1 => if e > start then e :: femEnds start e else []

/-- the selection branch of FindEarlierMatch's loop (`converted = input.take e` is the current input):
returns the new state and the value `end` has afterwards -/
def femSelect (env : Env) (input : Bytes) (e : Nat) (c1 : Ctx) : Ctx × Nat :=
  if c1.getOption "_auto_commit" then (Ctx.setInput env (Ctx.commit env c1).1 (input.drop e), 0)
  else (Ctx.setInput env (Ctx.confirmCurrentSelection env c1).1 input, e)

/-- `if (!ctx->HasMenu()) { … if (next_start == end) FindEarlierMatch(ctx, next_start, next_end); }` -/
def femContinue (k : Nat → Nat → Ctx → Ctx × Bool) (r : Ctx × Nat) : Ctx :=
  if !r.1.hasMenu && r.1.comp.currentStart = r.2 then (k r.1.comp.currentStart r.1.comp.currentEnd r.1).1 else r.1

/-- the `while (--end > start)` loop of Speller::FindEarlierMatch; `k` is the recursive call
(`FindEarlierMatch(ctx, next_start, next_end)`), `input` the input on entry -/
def femGo (env : Env) (k : Nat → Nat → Ctx → Ctx × Bool) (input : Bytes) : List Nat → Ctx → Ctx × Bool
  | [], c => (Ctx.setInput env c input, false)
  | e :: es, c =>
    let c1 := Ctx.setInput env c (input.take e)
    if !c1.hasMenu then (Ctx.setInput env c1 input, false)
    else match c1.selectedCand with
      | none => femGo env k input es c1      -- C++ dereferences the candidate; a menu with candidates has one at index 0 (C01)
      | some cd =>
        if isAutoSelectable cd (input.take e) env.delimiters then (femContinue k (femSelect env input e c1), true)
        else femGo env k input es c1

/-- Speller::FindEarlierMatch.  The C++ recursion has no counter; every recursive call works on a
strictly shorter input (auto-commit) or a strictly later start, so `fuel = |input| + 1` is never exhausted. -/
def findEarlierMatch (env : Env) : Nat → Nat → Nat → Ctx → Ctx × Bool
  | 0, _, _, c => (c, false)
  | fuel + 1, start, end_, c =>
    if end_ ≤ start + 1 then (c, false)
    else femGo env (findEarlierMatch env fuel) c.input (femEnds start end_) c

/-- `ctx->composition().pop_back(); ctx->composition().push_back(std::move(*previous_segment));` -/
def Ctx.replaceLastSeg (c : Ctx) (p : Seg) : Ctx :=
  { c with comp := { c.comp with segs := c.comp.segs.dropLast ++ [p] } }

/-- `is_auto_selectable(previous_segment->GetSelectedCandidate(), converted, delimiters_)` -/
def prevSelectable (env : Env) (p : Seg) (input : Bytes) : Bool :=
  match p.selected with
  | some cd => isAutoSelectable cd (input.take p.stop) env.delimiters
  | none => false     -- C++ dereferences; `prev` had a menu with candidates and a valid index (C01)

/-- the "reuse previous match" branch of AutoSelectPreviousMatch -/
def reusePreviousMatch (env : Env) (p : Seg) (c : Ctx) : Ctx :=
  let c2 := (Ctx.confirmCurrentSelection env (c.replaceLastSeg p)).1
  if c2.getOption "_auto_commit" then
    Ctx.setInput env (Ctx.commit env (Ctx.setInput env c2 (c.input.take p.stop))).1 (c.input.drop p.stop)
  else c2

/-- Speller::AutoSelectPreviousMatch; `prev` = the copy of the last segment taken before the key was
added to the input (`none` = default-constructed Segment: no menu).  `auto_select_pattern` is not
modelled (empty). -/
def autoSelectPreviousMatch (env : Env) (prev : Option Seg) (c : Ctx) : Ctx × Bool :=
  if !env.autoSelect then (c, false)
  else if env.maxCodeLength > 0 then (c, false)
  else if c.hasMenu then (c, false)
  else match prev with
    | none => (c, false)
    | some p =>
      if p.menu.isNone then (c, false)
      else if prevSelectable env p c.input then (reusePreviousMatch env p c, true)
      else findEarlierMatch env (c.input.length + 1) p.start p.stop c

/-- `previous_segment` of Speller::ProcessKeyEvent -/
def spellerPrev (env : Env) (c : Ctx) : Option Seg :=
  if env.autoSelect && c.hasMenu then c.comp.segs.getLast? else none

/-- the part of Speller::ProcessKeyEvent after the key was added to the input -/
def spellerTail (env : Env) (isInitial : Bool) (prev : Option Seg) (c2 : Ctx) : Ctx × PResult :=
  let r := autoSelectPreviousMatch env prev c2
  if r.2 && !isInitial && r.1.comp.currentSegLen = 1 then ((Ctx.popInput env r.1 1).1, .noop)
  else (spellerPost env (autoSelectUniqueCandidate env r.1), .accepted)

/-- Speller::ProcessKeyEvent -/
def spellerProcess (env : Env) (k : Key) (c : Ctx) : Ctx × PResult :=
  if k.release || k.ctrl || k.alt || k.super then (c, .noop)
  else if k.code < 0x20 || k.code ≥ 0x7f then (c, .noop)
  else
    let ch := k.byte
    if k.code = 0x20 && (!env.useSpace || k.shift) then (c, .noop)
    else if !env.alphabet.contains ch && !env.delimiters.contains ch then (c, .noop)
    else
      let isInitial := env.initials.contains ch
      if !isInitial && expectingAnInitial env c then (c, .noop)
      else
        let c1 := spellerPre env isInitial c
        spellerTail env isInitial (spellerPrev env c1) (Ctx.pushInput env c1 ch).beginEditing

/-! ### Selector -/

def isLinear (c : Ctx) : Bool := c.getOption "_linear" || c.getOption "_horizontal"
def isVertical (c : Ctx) : Bool := c.getOption "_vertical"
def caretAtEnd (c : Ctx) : Bool := decide (c.caret ≥ c.input.length)

def tagPaging (g : Seg) : Seg := { g with tags := { g.tags with paging := true } }

def selectorAct (env : Env) (a : SelAct) (c : Ctx) : Ctx × Bool :=
  match c.comp.segs.getLast? with
  | none => (c, false)
  | some g =>
    match a with
    | .previousPage =>
      let idx := if g.selIdx < env.pageSize then 0 else g.selIdx - env.pageSize
      (c.modLastSeg (fun g => tagPaging { g with selIdx := idx }), true)
    | .nextPage =>
      if g.menu.isNone then (c, false)
      else
        let index := g.selIdx + env.pageSize
        let pageStart := (index / env.pageSize) * env.pageSize
        let count := g.prepare (pageStart + env.pageSize)
        if count ≤ pageStart then
          if env.pageDownCycle then (c.modLastSeg (fun g => tagPaging { g with selIdx := 0 }), true)
          else (c, true)
        else
          let index := if index ≥ count then count - 1 else index
          (c.modLastSeg (fun g => tagPaging { g with selIdx := index }), true)
    | .previousCandidate =>
      if isLinear c && !caretAtEnd c then (c, false)
      else if g.selIdx = 0 then (c, !isLinear c)
      else (c.modLastSeg (fun g => tagPaging { g with selIdx := g.selIdx - 1 }), true)
    | .nextCandidate =>
      if isLinear c && !caretAtEnd c then (c, false)
      else if g.menu.isNone then (c, false)
      else
        let index := g.selIdx + 1
        if g.prepare (index + 1) ≤ index then (c, true)
        else (c.modLastSeg (fun g => tagPaging { g with selIdx := index }), true)
    | .home =>
      if g.selIdx > 0 then (c.modLastSeg (fun g => { g with selIdx := 0 }), true) else (c, false)
    | .end_ =>
      if c.caret < c.input.length then (c, false)
      else if g.selIdx > 0 then (c.modLastSeg (fun g => { g with selIdx := 0 }), true) else (c, false)

def selectorKeymap (c : Ctx) : Keymap SelAct :=
  match isVertical c, isLinear c with
  | false, false => Gen.selectorKeymap0
  | true, false => Gen.selectorKeymap1
  | false, true => Gen.selectorKeymap2
  | true, true => Gen.selectorKeymap3

def indexOfByte (s : Bytes) (b : UInt8) : Option Nat :=
  let i := s.findIdx (· == b)
  if i < s.length then some i else none

/-- Selector::SelectCandidateAt -/
def selectCandidateAt (env : Env) (c : Ctx) (i : Nat) : Ctx :=
  match c.comp.segs.getLast? with
  | none => c
  | some g =>
    if i ≥ env.pageSize then c
    else (Ctx.select env c ((g.selIdx / env.pageSize) * env.pageSize + i)).1

/-- Selector::ProcessKeyEvent -/
def selectorProcess (env : Env) (k : Key) (c : Ctx) : Ctx × PResult :=
  if k.release || k.alt || k.super then (c, .noop)
  else match c.comp.segs.getLast? with
    | none => (c, .noop)
    | some g =>
      if g.menu.isNone || g.tags.raw then (c, .noop)
      else
        let r := kbpProcess (selectorKeymap c) (selectorAct env) false false k c
        if r.2 ≠ .noop then r
        else
          let index : Option Nat :=
            if env.selectKeys ≠ [] && !k.ctrl && k.code ≥ 0x20 && k.code < 0x7f then indexOfByte env.selectKeys k.byte
            else if k.code ≥ 0x30 && k.code ≤ 0x39 then some (((k.code - 0x30).toNat + 9) % 10)
            else if k.code ≥ 0xffb0 && k.code ≤ 0xffb9 then some (((k.code - 0xffb0).toNat + 9) % 10)
            else none
          match index with
          | none => (r.1, .noop)
          | some i => (selectCandidateAt env r.1 i, .accepted)

/-! ### Navigator -/

def spansAddVertex (vs : List Nat) (v : Nat) : List Nat :=
  if vs.contains v then vs else (vs.filter (· < v)) ++ v :: vs.filter (· > v)

def spansPreviousStop (vs : List Nat) (p : Nat) : Nat :=
  match (vs.filter (· < p)).getLast? with | some x => x | none => p

def spansNextStop (vs : List Nat) (p : Nat) : Nat :=
  match vs.find? (· > p) with | some x => x | none => p

def navBeginMove (c : Ctx) : Ctx :=
  let c := c.beginEditing
  let spansEnd := match c.navSpans.getLast? with | some x => x | none => 0
  if c.navInput ≠ c.input || c.caret > spansEnd then
    let vs := c.comp.segs.foldl (fun vs g => spansAddVertex (spansAddVertex vs g.start) g.stop) []
    { c with navInput := c.input, navSpans := vs }
  else c

def navGoToEnd (env : Env) (c : Ctx) : Ctx × Bool :=
  if c.caret ≠ c.input.length then (Ctx.setCaretPos env c c.input.length, true) else (c, false)

def navMoveLeft (env : Env) (c : Ctx) : Ctx × Bool :=
  if c.caret = 0 then (c, false) else (Ctx.setCaretPos env c (c.caret - 1), true)

def navMoveRight (env : Env) (c : Ctx) : Ctx × Bool :=
  if c.caret ≥ c.input.length then (c, false) else (Ctx.setCaretPos env c (c.caret + 1), true)

/-- the scan of GoHome over the reversed composition: earliest start of the trailing unselected run -/
def homeScanRev (pos : Nat) : List Seg → Nat
  | [] => pos
  | g :: rest => if g.status.rank ≥ Status.selected.rank then pos else homeScanRev g.start rest

def navGoHome (env : Env) (c : Ctx) : Ctx × Bool :=
  let confirmed := if c.comp.segs = [] then c.caret else homeScanRev c.caret c.comp.segs.reverse
  if c.comp.segs ≠ [] && confirmed < c.caret then (Ctx.setCaretPos env c confirmed, true)
  else if c.caret ≠ 0 then (Ctx.setCaretPos env c 0, true)
  else (c, false)

def navJumpLeft (env : Env) (c : Ctx) (startPos : Nat := 0) : Ctx × Bool :=
  let stop0 := spansPreviousStop c.navSpans c.caret
  let stop := if stop0 < startPos then c.input.length else stop0
  if stop ≠ c.caret then (Ctx.setCaretPos env c stop, true) else (c, false)

def navJumpRight (env : Env) (c : Ctx) (startPos : Nat := 0) : Ctx × Bool :=
  let caret := if c.caret = c.input.length then startPos else c.caret
  let stop := spansNextStop c.navSpans caret
  if stop ≠ caret then (Ctx.setCaretPos env c stop, true) else (c, false)

def orElse (r : Ctx × Bool) (f : Ctx → Ctx × Bool) : Ctx × Bool := if r.2 then r else f r.1

/-- navigator actions (all return true) -/
def navigatorAct (env : Env) (a : NavAct) (c0 : Ctx) : Ctx × Bool :=
  let c := navBeginMove c0
  match a with
  | .leftBySyllable => ((orElse (navJumpLeft env c c.comp.confirmedPos) (navGoToEnd env)).1, true)
  | .leftByChar => ((orElse (navMoveLeft env c) (navGoToEnd env)).1, true)
  | .rewind =>
    let jump := decide (c.navSpans.length - 1 > 1) && c.navSpans.contains c.caret
    ((orElse (if jump then navJumpLeft env c else navMoveLeft env c) (navGoToEnd env)).1, true)
  | .rightBySyllable => ((orElse (navJumpRight env c c.comp.confirmedPos) (navGoToEnd env)).1, true)
  | .rightByChar => ((orElse (navMoveRight env c) (navGoHome env)).1, true)
  | .home => ((navGoHome env c).1, true)
  | .end_ => ((navGoToEnd env c).1, true)

/-- Navigator::ProcessKeyEvent -/
def navigatorProcess (env : Env) (k : Key) (c : Ctx) : Ctx × PResult :=
  if k.release then (c, .noop)
  else if !c.isComposing then (c, .noop)
  else kbpProcess (if isVertical c then Gen.navigatorKeymap1 else Gen.navigatorKeymap0) (navigatorAct env) true true k c

/-! ### Editor -/

/-- Composition::GetScriptText(keep_selection = true) -/
def scriptFold (input : Bytes) : List Seg → Bytes × Nat → Bytes × Nat
  | [], acc => acc
  | g :: rest, (txt, e0) =>
    let cand := g.selected
    let start := e0
    let e := match cand with | some cd => cd.stop | none => g.stop
    let piece := match cand with
      | some cd =>
        if cd.text ≠ [] && g.status.rank ≥ Status.selected.rank then cd.text
        else if cd.preedit ≠ [] then
          match findTab cd.preedit with
          | some t => cd.preedit.take t ++ cd.preedit.drop (t + 1)
          | none => cd.preedit
        else substr input start (e - start)
      | none => substr input start (e - start)
    scriptFold input rest (txt ++ piece, e)

def Comp.scriptText (c : Comp) : Bytes :=
  let (txt, e) := scriptFold c.input c.segs ([], 0)
  if c.input.length > e then txt ++ c.input.drop e else txt

/-- `ctx->PopInput() && ctx->ReopenPreviousSegment()` -/
def popThenReopen (env : Env) (c : Ctx) : Ctx × Bool :=
  let r := Ctx.popInput env c
  if r.2 then Ctx.reopenPreviousSegment env r.1 else (r.1, false)

def editorAct (env : Env) (a : EditorAct) (c : Ctx) : Ctx × Bool :=
  match a with
  | .confirm => ((orElse (Ctx.confirmCurrentSelection env c) (Ctx.commit env)).1, true)
  | .toggleSelection => ((orElse (Ctx.reopenPreviousSegment env c) (Ctx.confirmCurrentSelection env)).1, true)
  | .commitComment =>
    match c.selectedCand with
    | some cd => if cd.comment ≠ [] then (Ctx.clear env { c with commitBuf := c.commitBuf ++ cd.comment }, true) else (c, true)
    | none => (c, true)
  | .commitScriptText => (Ctx.clear env { c with commitBuf := c.commitBuf ++ c.comp.scriptText }, true)
  | .commitRawInput => ((Ctx.commit env (Ctx.clearNonConfirmedComposition c).1).1, true)
  | .commitComposition =>
    let r := Ctx.confirmCurrentSelection env c
    if !r.2 || !r.1.hasMenu then ((Ctx.commit env r.1).1, true) else (r.1, true)
  | .revertLastEdit =>
    ((orElse (Ctx.reopenPreviousSelection env c) (popThenReopen env)).1, true)
  | .backToPreviousInput =>
    ((orElse (orElse (Ctx.reopenPreviousSegment env c) (Ctx.reopenPreviousSelection env)) (Ctx.popInput env)).1, true)
  | .backToPreviousSyllable =>
    -- pop_input_by_syllable needs Phrase spans; oracle candidates are not Phrases ⇒ false
    ((orElse (Ctx.reopenPreviousSelection env c) (popThenReopen env)).1, true)
  | .deleteCandidate =>
    match c.comp.segs.getLast? with
    | some g => ((Ctx.deleteCandidate env c g.selIdx).1, true)
    | none => (c, true)
  | .deleteChar => ((Ctx.deleteInput env c).1, true)
  | .cancelComposition =>
    let r := Ctx.clearPreviousSegment env c
    if r.2 then (r.1, true) else (Ctx.clear env r.1, true)

/-- Editor::ProcessKeyEvent; `fluid` selects the flavour (keymap + char handler are generated) -/
def editorProcess (env : Env) (fluid : Bool) (k : Key) (c : Ctx) : Ctx × PResult :=
  if k.release then (c, .rejected)
  else
    let km := if fluid then Gen.fluidEditorKeymap else Gen.expressEditorKeymap
    let handler := if fluid then Gen.fluidEditorCharHandler else Gen.expressEditorCharHandler
    let r := if c.isComposing then kbpProcess km (editorAct env) true true k c else (c, .noop)
    if r.2 ≠ .noop then r
    else if handler ≠ .none && !k.ctrl && !k.alt && !k.super && k.code > 0x20 && k.code < 0x7f then
      match handler with
      | .directCommit => ((Ctx.commit env r.1).1, .rejected)
      | .addToInput => ((Ctx.pushInput env r.1 k.byte).beginEditing, .accepted)
      | .none => (r.1, .noop)
    else (r.1, .noop)

/-! ### Punctuator (punctuator.cc; digit separators configured off) -/

/-- `punctuation_is_translated(ctx, "punct")`: the last segment carries the tag and has a selected candidate.
(The C++ also asks for the candidate's type "punct": a `punct`-tagged segment holds only candidates of the punct
translator as long as no punctuation key is a letter of the speller's alphabet — the driver refuses other schemas.) -/
def punctTranslated (c : Ctx) : Bool :=
  match c.comp.segs.getLast? with
  | none => false
  | some g => g.tags.punct && g.selected.isSome

/-- Punctuator::AlternatePunct.  `Prepare(selected_index + 2)` then `(selected_index += 1) %= candidate_count()`:
the number of candidates prepared so far is either ≥ index + 2 (no wrap) or the whole list — in both cases the new
index is `(index + 1) % |list|`. -/
def alternatePunct (c : Ctx) (key : UInt8) (d : PunctDef) : Ctx × Bool :=
  match d with
  | .alt _ =>
    match c.comp.segs.getLast? with
    | none => (c, false)
    | some g =>
      if g.status.rank > Status.void.rank && g.tags.punct && substr c.input g.start (g.stop - g.start) = [key] then
        match g.menu with
        | none => (c, false)
        | some l =>
          if l = [] then (c, false)
          else (c.modLastSeg (fun g => { g with selIdx := (g.selIdx + 1) % l.length, status := .guess }), true)
      else (c, false)
  | _ => (c, false)

def toggleOdd (l : List (Bool × UInt8)) (k : Bool × UInt8) : List (Bool × UInt8) :=
  if l.contains k then l.filter (· != k) else k :: l

/-- Punctuator::PairPunct; `k` = (shape, key) identifies the definition (`oddness_` is keyed by the config item) -/
def pairPunct (env : Env) (k : Bool × UInt8) (c : Ctx) : Ctx :=
  match c.comp.segs.getLast? with
  | none => c
  | some g =>
    if g.status.rank > Status.void.rank && g.tags.punct then
      if g.prepare 2 < 2 then c
      else
        let odd := if c.punctOdd.contains k then 1 else 0
        let c1 := c.modLastSeg (fun g => { g with selIdx := (g.selIdx + odd) % 2 })
        (Ctx.confirmCurrentSelection env { c1 with punctOdd := toggleOdd c.punctOdd k }).1
    else c

/-- `ConfirmUniquePunct(def) || AutoCommitPunct(def) || PairPunct(def)` -/
def punctFinish (env : Env) (k : Bool × UInt8) (d : PunctDef) (c : Ctx) : Ctx :=
  match d with
  | .unique _ => (Ctx.confirmCurrentSelection env c).1
  | .alt _ => c
  | .commit _ => (Ctx.commit env c).1
  | .pair _ _ => pairPunct env k c

/-- Punctuator::ProcessKeyEvent -/
def punctProcess (env : Env) (k : Key) (c : Ctx) : Ctx × PResult :=
  if k.release || k.ctrl || k.alt || k.super then (c, .noop)
  else if k.code < 0x20 || k.code ≥ 0x7f then (c, .noop)
  else if c.getOption "ascii_punct" then (c, .noop)
  else if !env.punct.useSpace && k.code = 0x20 && c.isComposing then (c, .noop)
  else
    let shape := c.getOption "full_shape"
    match punctFind (env.punct.mapping shape) k.byte with
    | none => (c, .noop)
    | some d =>
      let r := alternatePunct c k.byte d
      if r.2 then (r.1, .accepted)
      else
        let c1 := Ctx.pushInput env r.1 k.byte
        if punctTranslated c1 then (punctFinish env (shape, k.byte) d c1, .accepted) else (c1, .accepted)

/-! ### AsciiComposer (ascii_composer.cc)

Time: `toggle_expired_` and the two readings of `std::chrono::steady_clock` are `Ctx.acExpire` and `Ctx.clock` (ms); the
clock is a parameter, moved by the environment between calls.

Inline mode: while `connection_` is connected (`Ctx.acInline`), AsciiComposer::OnContextUpdate runs on every context
update and, once the context is no longer composing, turns `ascii_mode` off and disconnects.  `Ctx.update` is shared by
every mutator and is left as it is: the listener's effect is applied by `acSettle` at the end of each ProcessKey (nested
or not) and of each API call.  Between the update that ends the composition and that point nothing reads `ascii_mode`
or composes again (the two readers, the ascii composer and the key binder, sit at the head of the chain). -/

def kLock : Nat := 2
def Key.caps (k : Key) := k.has kLock

def xkShiftL : Int := 0xffe1
def xkShiftR : Int := 0xffe2
def xkControlL : Int := 0xffe3
def xkControlR : Int := 0xffe4
def xkCapsLock : Int := 0xffe5
def xkEisuToggle : Int := 0xff30

/-- `bindings_.find(key_code)` -/
def acStyleOf (env : Env) (code : Int) : Option AcStyle :=
  match env.asciiKeys.find? (·.1 == code) with
  | some e => some e.2
  | none => none

/-- `caps_lock_switch_style_` (LoadConfig: inline "can't do that" → clear); `none` = kAsciiModeSwitchNoop -/
def acCapsStyle (env : Env) : Option AcStyle :=
  match acStyleOf env xkCapsLock with
  | some .inline => some .clear
  | s => s

/-- `shift_key_pressed_ = ctrl_key_pressed_ = false` -/
def acUnpress (c : Ctx) : Ctx := { c with acShift := false, acCtrl := false }

/-- AsciiComposer::SwitchAsciiMode -/
def acSwitch (env : Env) (asciiMode : Bool) (style : AcStyle) (c : Ctx) : Ctx :=
  let c1 :=
    if c.isComposing then
      let c0 := { c with acInline := false }
      match style with
      | .inline => if asciiMode then { c0 with acInline := true } else c0
      | .commitText => (Ctx.confirmCurrentSelection env c0).1
      | .commitCode => (Ctx.commit env (Ctx.clearNonConfirmedComposition c0).1).1
      | .clear => Ctx.clear env c0
    else c
  Ctx.setOption env c1 "ascii_mode" asciiMode

/-- AsciiComposer::ToggleAsciiModeWithKey -/
def acToggleWithKey (env : Env) (code : Int) (c : Ctx) : Ctx :=
  match acStyleOf env code with
  | none => c
  | some st => { acSwitch env (!c.getOption "ascii_mode") st c with acToggleWithCaps := decide (code = xkCapsLock) }

/-- `isascii(ch) && isalpha(ch)` (C locale) -/
def isAsciiAlpha (code : Int) : Bool := (code ≥ 65 && code ≤ 90) || (code ≥ 97 && code ≤ 122)

/-- `islower ? toupper : tolower` on a letter -/
def swapCase (code : Int) : UInt8 := if code ≥ 97 then UInt8.ofNat (code.toNat - 32) else UInt8.ofNat (code.toNat + 32)

/-- AsciiComposer::ProcessCapsLock (`style` = caps_lock_switch_style_, not noop) -/
def acCapsLock (env : Env) (style : AcStyle) (k : Key) (c : Ctx) : Ctx × PResult :=
  if k.code = xkCapsLock then
    if !k.release then
      let c1 := acUnpress c
      if env.goodOldCapsLock && !c1.acToggleWithCaps && c1.getOption "ascii_mode" then (c1, .rejected)
      else (acSwitch env (!k.caps) style { c1 with acToggleWithCaps := !k.caps }, .accepted)
    else (c, .rejected)
  else if k.caps then
    if !env.goodOldCapsLock && !k.release && !k.ctrl && isAsciiAlpha k.code then
      -- engine_->CommitText: through the formatters, into the sink
      ({ c with commitBuf := c.commitBuf ++ env.format [swapCase k.code] }, .accepted)
    else (c, .rejected)
  else (c, .noop)

/-- the part of AsciiComposer::ProcessKeyEvent for the Shift / Control keys themselves -/
def acModifierKey (env : Env) (isShift : Bool) (k : Key) (c : Ctx) : Ctx × PResult :=
  if k.release then
    if c.acShift || c.acCtrl then
      let hit := ((isShift && c.acShift) || (!isShift && c.acCtrl)) && decide (c.clock < c.acExpire)
      (acUnpress (if hit then acToggleWithKey env k.code c else c), .noop)
    else (c, .noop)
  else if !(c.acShift || c.acCtrl) then
    -- first key down: will not toggle unless the key is released within 500 ms
    -- (both flags are clear here: `if (is_shift) shift_key_pressed_ = true; else ctrl_key_pressed_ = true;`)
    ({ c with acShift := isShift, acCtrl := !isShift, acExpire := c.clock + 500 }, .noop)
  else (c, .noop)

/-- the part for all other keys -/
def acOtherKey (env : Env) (k : Key) (c0 : Ctx) : Ctx × PResult :=
  let c := acUnpress c0
  if k.ctrl || (k.shift && k.code = 0x20) then (c, .noop)       -- possible key binding: Control+x, Shift+space
  else if c.getOption "ascii_mode" then
    if !c.isComposing then (c, .rejected)                        -- direct commit
    else if !k.release && k.code ≥ 0x20 && k.code < 0x80 then (Ctx.pushInput env c k.byte, .accepted)
    else (c, .noop)
  else (c, .noop)

/-- `if (caps_lock_switch_style_ != kAsciiModeSwitchNoop) { result = ProcessCapsLock(key_event); … }` -/
def acCapsStep (env : Env) (k : Key) (c : Ctx) : Ctx × PResult :=
  match acCapsStyle env with
  | some st => acCapsLock env st k c
  | none => (c, .noop)

/-- AsciiComposer::ProcessKeyEvent -/
def asciiProcess (env : Env) (k : Key) (c : Ctx) : Ctx × PResult :=
  if (k.shift && k.ctrl) || k.alt || k.super then (acUnpress c, .noop)
  else
    let r := acCapsStep env k c
    if r.2 ≠ .noop then r
    else if k.code = xkEisuToggle then
      if !k.release then (acToggleWithKey env k.code (acUnpress r.1), .accepted) else (r.1, .rejected)
    else if k.code = xkShiftL || k.code = xkShiftR then acModifierKey env true k r.1
    else if k.code = xkControlL || k.code = xkControlR then acModifierKey env false k r.1
    else acOtherKey env k r.1

/-- AsciiComposer::OnContextUpdate, applied at the end of a ProcessKey / API call (see the section comment) -/
def acSettle (c : Ctx) : Ctx :=
  if c.acInline && !c.isComposing then { c.setOptionRaw "ascii_mode" false with acInline := false } else c

/-! ### ShapeProcessor (gear/shape.cc), the engine's post-processor — needed here because the key binder hands keys
back to `ConcreteEngine::ProcessKey`, post-processors included -/

def isPrintable (b : UInt8) : Bool := decide (b ≥ 0x20) && decide (b ≤ 0x7e)

/-- ShapeFormatter::Format with `full_shape` on (`char` is signed: bytes ≥ 0x80 are `< 0x20`) -/
def shapeFormat (t : Bytes) : Bytes :=
  if t.all (fun b => !isPrintable b) then t
  else t.flatMap (fun b =>
    if b = 0x20 then [0xe3, 0x80, 0x80]
    else if isPrintable b then [0xef, 0xbc + (b - 0x20) / 0x40, 0x80 + (b - 0x20) % 0x40]
    else [b])

/-- ShapeProcessor::ProcessKeyEvent, run by ConcreteEngine::ProcessKey after the processors when none of them
accepted the key (also after a `kRejected`) -/
def shapePost (k : Key) (c : Ctx) : Ctx × Bool :=
  if !c.getOption "full_shape" then (c, false)
  else if k.ctrl || k.alt || k.super || k.release then (c, false)
  else if k.code < 0x20 || k.code > 0x7e then (c, false)
  else ({ c with commitBuf := c.commitBuf ++ shapeFormat [k.byte] }, true)

/-! ### KeyBinder (key_binder.cc) and the `Switches` lookups its option actions use (switches.cc) -/

/-- a found `Switches::SwitchOption`: switch_index, type, option_name, reset_value, option_index -/
structure SwOpt where
  sw : Nat
  radio : Bool
  name : String
  reset : Int
  idx : Nat
  deriving Repr, DecidableEq, Inhabited

/-- the options `Switches::FindOption` visits, in its order: the switches in order; a radio group's options in order -/
def swEnum (sws : List SwitchDef) : List SwOpt :=
  (sws.zipIdx).flatMap (fun e =>
    match e.1 with
    | .toggle n r => [{ sw := e.2, radio := false, name := n, reset := r, idx := 0 }]
    | .radio os r => os.zipIdx.map (fun o => { sw := e.2, radio := true, name := o.1, reset := r, idx := o.2 }))

/-- Switches::OptionByName -/
def swByName (sws : List SwitchDef) (name : String) : Option SwOpt := (swEnum sws).find? (·.name == name)

/-- Switches::ByIndex: the switch at that index; of a radio group its first option -/
def swByIndex (sws : List SwitchDef) (i : Nat) : Option SwOpt :=
  match sws[i]? with
  | some (.toggle n r) => some { sw := i, radio := false, name := n, reset := r, idx := 0 }
  | some (.radio (o :: _) r) => some { sw := i, radio := true, name := o, reset := r, idx := 0 }
  | _ => none

/-- the option names of the radio group a found option belongs to (`the_switch->Get("options")`) -/
def swGroup (sws : List SwitchDef) (o : SwOpt) : List String :=
  match sws[o.sw]? with
  | some (.radio os _) => os
  | _ => []

/-- ConcreteEngine::InitializeOptions: every switch with a `reset:` value puts its option(s) in that state when the
schema is applied (the context has just been cleared: nothing to recompose) -/
def swInitOptions (sws : List SwitchDef) (c : Ctx) : Ctx :=
  (swEnum sws).foldl (fun c o =>
    if o.reset ≥ 0 then c.setOptionRaw o.name (if o.radio then decide ((o.idx : Int) = o.reset) else o.reset != 0) else c) c

/-- `radio_select_option`: every option of the group whose value differs from (its index == idx) is set, in order -/
def radioSelect (env : Env) (group : List String) (idx : Nat) (c : Ctx) : Ctx :=
  group.zipIdx.foldl (fun c o =>
    let v := decide (o.2 = idx)
    if c.getOption o.1 != v then Ctx.setOption env c o.1 v else c) c

/-- `toggle_option`'s lookup: `@<digits>` addresses a switch by index, anything else by name.  (`std::stoul` also
accepts a sign, leading blanks and trailing garbage; the driver refuses such targets.) -/
def kbLookupToggle (sws : List SwitchDef) (opt : String) : Option SwOpt :=
  if opt.front = '@' && opt ≠ "" then
    match (opt.drop 1).toNat? with
    | some n => swByIndex sws n
    | none => none
  else swByName sws opt

/-- `toggle_option` (key_binder.cc) -/
def kbToggle (env : Env) (opt : String) (c : Ctx) : Ctx :=
  match kbLookupToggle env.switches opt with
  | some o =>
    if o.radio then
      let group := swGroup env.switches o
      -- the currently selected option of the group: the first one that is on
      match (group.zipIdx).find? (fun e => c.getOption e.1) with
      | none => radioSelect env group o.idx c         -- invalid state, none selected: select the given option
      | some sel =>
        let next := (sel.2 + 1) % group.length        -- Switches::Cycle
        if next ≠ sel.2 then radioSelect env group next c else c
    else Ctx.setOption env c o.name (!c.getOption o.name)
  | none => Ctx.setOption env c opt (!c.getOption opt)

/-- `set_option` (key_binder.cc) -/
def kbSet (env : Env) (opt : String) (c : Ctx) : Ctx :=
  match swByName env.switches opt with
  | some o => if o.radio then radioSelect env (swGroup env.switches o) o.idx c else Ctx.setOption env c opt true
  | none => Ctx.setOption env c opt true

/-- `unset_option` (key_binder.cc); Switches::Reset: the group's default option is `reset` (0 when not given) -/
def kbUnset (env : Env) (opt : String) (c : Ctx) : Ctx :=
  match swByName env.switches opt with
  | some o =>
    if o.radio then
      if c.getOption opt then
        let group := swGroup env.switches o
        let dflt := if o.reset ≥ 0 then o.reset.toNat else 0
        if dflt ≥ group.length || dflt = o.idx then c else radioSelect env group dflt c
      else c
    else Ctx.setOption env c opt false
  | none => Ctx.setOption env c opt false

/-- KeyBindings::Bind: `insert before existing binding of the same condition` (std::lower_bound on `whence`) -/
def kbInsert (vec : List KbBinding) (b : KbBinding) : List KbBinding :=
  vec.takeWhile (fun x => x.whence.rank < b.whence.rank) ++ b :: vec.dropWhile (fun x => x.whence.rank < b.whence.rank)

/-- `(*key_bindings_)[key_event]`: the bindings of one key (keycode and modifier both equal) as LoadBindings leaves them -/
def kbBindingsFor (bs : List KbBinding) (k : Key) : List KbBinding :=
  (bs.filter (fun b => b.code == k.code && b.mask == k.mask)).foldl kbInsert []

/-- KeyBindingConditions: is the condition in the set built from the context?  No component of the library sets the
tag `prediction` (plugins do): `predicting` never holds. -/
def kbCond (c : Ctx) (w : KbWhen) : Bool :=
  match w with
  | .always => true
  | .composing => c.isComposing
  | .hasMenu => c.hasMenu && !c.getOption "ascii_mode"
  | .paging => match c.comp.segs.getLast? with | some g => g.tags.paging | none => false
  | .predicting => false

/-- `int ch = (key_event.modifier() == 0) ? key_event.keycode() : 0;` -/
def kbCh (k : Key) : Int := if k.mask = 0 then k.code else 0

/-- KeyBinder::ReinterpretPagingKey: a period that paged down, followed by a letter, becomes part of the input after
all (`ctx->PushInput(last_key_)`, then the letter goes on through the chain); returns the new state and `ret` -/
def kbReinterpret (env : Env) (k : Key) (c : Ctx) : Ctx × Bool :=
  if k.release then (c, false)
  else
    let ch := kbCh k
    if ch = 46 && (c.kbLastKey = 46 || c.kbLastKey = 44) then ({ c with kbLastKey := 0 }, false)
    else
      let push := c.kbLastKey = 46 && ch ≥ 97 && ch ≤ 122 && c.input ≠ [] && c.input.getLast? != some 46
      let c1 := if push then Ctx.pushInput env c 46 else c
      ({ c1 with kbLastKey := ch }, push)

/-- KeyBinder::PerformKeyBinding; `reent` = `engine_->ProcessKey` as it behaves while `redirecting_` is set -/
def kbPerform (reent : Key → Ctx → Ctx × Bool) (env : Env) (a : KbAction) (c : Ctx) : Ctx :=
  match a with
  | .send keys => keys.foldl (fun c kk => (reent ⟨kk.1, kk.2⟩ c).1) c
  | .toggle o => kbToggle env o c
  | .setOption o => kbSet env o c
  | .unsetOption o => kbUnset env o c

/-- the binding KeyBinder::ProcessKeyEvent performs for this key in this state, if any: the first of the key's bindings
whose condition holds -/
def kbFind (env : Env) (k : Key) (c : Ctx) : Option KbBinding :=
  (kbBindingsFor env.bindings k).find? (fun b => kbCond c b.whence)

/-- KeyBinder::ProcessKeyEvent outside a redirection (`redirecting_` clear) -/
def kbProcess (reent : Key → Ctx → Ctx × Bool) (env : Env) (k : Key) (c : Ctx) : Ctx × PResult :=
  if env.bindings = [] then (c, .noop)
  else
    let r := kbReinterpret env k c
    if r.2 then (r.1, .noop)
    else match kbFind env k r.1 with
      | none => (r.1, .noop)
      | some b => (kbPerform reent env b.action r.1, .accepted)

/-! ### Recognizer (recognizer.cc)

`Recognizer::ProcessKeyEvent`: a no-op without patterns, for keys with Control / Alt / Super and for releases (Shift and
Caps Lock do not matter).  Accepted characters: `ch > 0x20 && ch < 0x80` — which includes 0x7f — and the space when
`use_space` is on.  The patterns are matched against the raw input plus the incoming character (appended at the END of the
input, wherever the caret is) with the CURRENT composition's segments; on a match the character is pushed (at the caret)
and the key is accepted. -/

def recognizerProcess (env : Env) (k : Key) (c : Ctx) : Ctx × PResult :=
  if env.recPatterns.isEmpty || k.ctrl || k.alt || k.super || k.release then (c, .noop)
  else if (env.recUseSpace && k.code = 0x20) || (k.code > 0x20 && k.code < 0x80) then
    match getMatch env.recPatterns (c.input ++ [k.byte]) c.comp with
    | some _ => (Ctx.pushInput env c k.byte, .accepted)
    | none => (c, .noop)
  else (c, .noop)

/-- the processors as they act inside a redirection: `redirecting_` is a private member of KeyBinder, set exactly
around the loop of PerformKeyBinding, and KeyBinder::ProcessKeyEvent returns kNoop when it is set before looking at
anything else (not even `last_key_` moves) — so the nested chain is the chain with the key binder a no-op, and the
re-entrancy is exactly one level deep: no fuel is needed. -/
def procRunInner (env : Env) (p : Proc) (k : Key) (c : Ctx) : Ctx × PResult :=
  match p with
  | .speller => spellerProcess env k c
  | .selector => selectorProcess env k c
  | .navigator => navigatorProcess env k c
  | .expressEditor => editorProcess env false k c
  | .fluidEditor => editorProcess env true k c
  | .other => (c, .noop)
  | .punctuator => punctProcess env k c
  | .keyBinder => (c, .noop)
  | .asciiComposer => asciiProcess env k c
  | .recognizer => recognizerProcess env k c

def chainInner (env : Env) (k : Key) : List Proc → Ctx → Ctx × Bool
  | [], c => (c, false)
  | p :: ps, c =>
    let r := procRunInner env p k c
    match r.2 with
    | .accepted => (r.1, true)
    | .rejected => (r.1, false)
    | .noop => chainInner env k ps r.1

/-- ConcreteEngine::ProcessKey as PerformKeyBinding calls it: the processors, then (unless one accepted) the post-processor -/
def processKeyNested (env : Env) (k : Key) (c : Ctx) : Ctx × Bool :=
  let r := chainInner env k env.processors c
  let r := if r.2 then r else shapePost k r.1
  (acSettle r.1, r.2)

/-! ### the chain (ConcreteEngine::ProcessKey) -/

def procRun (env : Env) (p : Proc) (k : Key) (c : Ctx) : Ctx × PResult :=
  match p with
  | .speller => spellerProcess env k c
  | .selector => selectorProcess env k c
  | .navigator => navigatorProcess env k c
  | .expressEditor => editorProcess env false k c
  | .fluidEditor => editorProcess env true k c
  | .other => (c, .noop)
  | .punctuator => punctProcess env k c
  | .keyBinder => kbProcess (processKeyNested env) env k c
  | .asciiComposer => asciiProcess env k c
  | .recognizer => recognizerProcess env k c

/-- returns the new state and whether the key was handled -/
def chain (env : Env) (k : Key) : List Proc → Ctx → Ctx × Bool
  | [], c => (c, false)
  | p :: ps, c =>
    let r := procRun env p k c
    match r.2 with
    | .accepted => (r.1, true)
    | .rejected => (r.1, false)
    | .noop => chain env k ps r.1

def processKey (env : Env) (k : Key) (c : Ctx) : Ctx × Bool := chain env k env.processors c

end RimeModel.Session
