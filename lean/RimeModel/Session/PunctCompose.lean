import RimeModel.Session.Compose
/-!
`ConcreteEngine::Compose` for schemas whose segmentors are `abc_segmentor`, `punct_segmentor`,
`fallback_segmentor` and whose translators are `punct_translator` followed by the dictionary translator
(engine.cc:170-245, punctuator.cc:236-428).  The abc / fallback segmentors, `Comp.reset`, `Comp.trim`, … are the
definitions of `Session/Compose.lean`, untouched; only the loop body and the translation step differ.
`punctuator/digit_separators` is empty (no `punct_number` tag is ever set).
-/
namespace RimeModel.Session

/-! ### PunctTranslator -/

/-- `utf8::unchecked::next` on a C string: the code point and the rest (bytes past the end read as 0) -/
def utf8Next (t : Bytes) : Nat × Bytes :=
  let b (i : Nat) : Nat := (t.getD i 0).toNat
  let b0 := b 0
  if b0 < 0x80 then (b0, t.drop 1)
  else if b0 >>> 5 = 6 then (((b0 <<< 6) &&& 0x7ff) + (b 1 &&& 0x3f), t.drop 2)
  else if b0 >>> 4 = 0xe then (((b0 <<< 12) &&& 0xffff) + ((b 1 <<< 6) &&& 0xfff) + (b 2 &&& 0x3f), t.drop 3)
  else if b0 >>> 3 = 0x1e then
    (((b0 <<< 18) &&& 0x1fffff) + ((b 1 <<< 12) &&& 0x3ffff) + ((b 2 <<< 6) &&& 0xfff) + (b 3 &&& 0x3f), t.drop 4)
  else (b0, t.drop 1)

def inR (ch lo hi : Nat) : Bool := decide (lo ≤ ch) && decide (ch ≤ hi)

/-- the classification of CreatePunctCandidate for a single code point -/
def isHalfShape (ch : Nat) : Bool :=
  (decide (ch ≥ 0x20) && decide (ch < 0x7F)) || inR ch 0xFF61 0xFF9F || inR ch 0xFFA0 0xFFDC ||
  (ch == 0x00A2 || ch == 0x00A3 || ch == 0x00A5 || ch == 0x00A6 || ch == 0x00AC || ch == 0x00AF || ch == 0x2985 || ch == 0x2986) ||
  inR ch 0xFFE8 0xFFEE

def isFullShape (ch : Nat) : Bool :=
  ch == 0x3000 || inR ch 0xFF01 0xFF5E ||
  (inR ch 0x30A1 0x30FC || ch == 0x3001 || ch == 0x3002 || ch == 0x300C || ch == 0x300D || ch == 0x309B || ch == 0x309C) ||
  inR ch 0x3131 0x3164 ||
  (ch == 0xFF5F || ch == 0xFF60 || inR ch 0xFFE0 0xFFE6) ||
  (inR ch 0x2190 0x2193 || ch == 0x2502 || ch == 0x25A0 || ch == 0x25CB)

def halfShapeLabel : Bytes := [0xe3, 0x80, 0x94, 0xe5, 0x8d, 0x8a, 0xe8, 0xa7, 0x92, 0xe3, 0x80, 0x95]   -- 〔半角〕
def fullShapeLabel : Bytes := [0xe3, 0x80, 0x94, 0xe5, 0x85, 0xa8, 0xe8, 0xa7, 0x92, 0xe3, 0x80, 0x95]   -- 〔全角〕

/-- the comment CreatePunctCandidate gives a punctuation text (`*p == '\0'` ⇔ nothing left, or a NUL next) -/
def punctComment (t : Bytes) : Bytes :=
  let r := utf8Next t
  if r.2.getD 0 0 = 0 then
    if isHalfShape r.1 then halfShapeLabel else if isFullShape r.1 then fullShapeLabel else []
  else []

/-- CreatePunctCandidate: a SimpleCandidate of type "punct" over the whole segment -/
def punctCand (t : Bytes) (g : Seg) : Cand :=
  { text := t, comment := punctComment t, preedit := if g.stop - g.start = 1 then t else [],
    start := g.start, stop := g.stop, autoSelectable := true }

/-- the candidates of a definition: TranslateUniquePunct / TranslateAlternatingPunct / TranslateAutoCommitPunct /
TranslatePairedPunct (an empty list makes no translation) -/
def punctDefCands (d : PunctDef) (g : Seg) : List Cand :=
  match d with
  | .unique t => [punctCand t g]
  | .alt ts => ts.map (fun t => punctCand t g)
  | .commit t => [punctCand t g]
  | .pair a b => [punctCand a g, punctCand b g]

/-- PunctTranslator::Query: only for a `punct` segment whose whole input slice is a key of the mapping -/
def punctTranslate (m : List (UInt8 × PunctDef)) (inp : Bytes) (g : Seg) : List Cand :=
  if !g.tags.punct then []
  else match inp with
    | [b] => match punctFind m b with
      | some d => punctDefCands d g
      | none => []
    | _ => []

/-! ### PunctSegmentor -/

def punctSeg (k : Nat) : Seg := { Seg.mk' k (k + 1) with tags := { punct := true } }

/-- PunctSegmentor::Proceed: the new segmentation and the returned bool (`false` stops the round).
`char ch = input[k]` is signed: bytes ≥ 0x80 are `< 0x20`. -/
def punctProceed (m : List (UInt8 × PunctDef)) (c : Comp) : Comp × Bool :=
  let k := c.currentStart
  if k = c.input.length then (c, false)
  else match c.input[k]? with
    | none => (c, true)          -- k > |input|: excluded by the geometric invariant (the C++ would read out of bounds)
    | some ch =>
      if ch < 0x20 || ch ≥ 0x7f then (c, true)
      else match punctFind m ch with
        | none => (c, true)
        | some _ => ((c.addSegment (punctSeg k)).1, false)

/-! ### the engine -/

structure PSegCfg extends SegCfg where
  /-- the punctuation mapping of the current shape (`PunctConfig::LoadConfig` syncs with `full_shape` before every use) -/
  punct : List (UInt8 × PunctDef) := []
  /-- the schema's filters applied to the merged candidate list (uniquifier) -/
  filter : List Cand → List Cand := id

/-- one round of `for (auto& segmentor : segmentors_) if (!segmentor->Proceed(segments)) break;`
abc_segmentor always returns true, fallback_segmentor is last -/
def segStepP (cfg : PSegCfg) (c : Comp) : Comp :=
  let r := punctProceed cfg.punct (abcProceed cfg.toSegCfg c)
  if r.2 then fallbackProceed r.1 else r.1

/-- the while loop of ConcreteEngine::CalculateSegmentation, generic in the round -/
def segLoopG (step : Comp → Comp) (caret : Nat) : Nat → Comp → Comp
  | 0, c => c
  | fuel + 1, c =>
    if c.hasFinishedSegmentation then c
    else
      let startPos := c.currentStart
      let c1 := step c
      if startPos = c1.currentEnd then c1
      else if startPos ≥ caret then c1
      else if !c1.hasFinishedSegmentation then segLoopG step caret fuel c1.forward.1
      else segLoopG step caret fuel c1

def calculateSegmentationP (cfg : PSegCfg) (caret : Nat) (c : Comp) : Comp :=
  forwardIfSelected (trimUnlessPlaceholder (segLoopG (segStepP cfg) caret (c.input.length + 2) c))

/-- the menu of a segment: MergedTranslation of punct_translator (first in the list) and the dictionary translator.
All candidates of the punct translator span the whole segment, so none of the other translator's comes before them. -/
def translateP (cfg : PSegCfg) (inp : Bytes) (g : Seg) : List Cand :=
  cfg.filter (punctTranslate cfg.punct inp g ++ cfg.translate inp g)

/-- ConcreteEngine::TranslateSegments -/
def translateSegmentsP (cfg : PSegCfg) (c : Comp) : Comp :=
  { c with segs := c.segs.map (fun g =>
      if g.status.rank ≥ Status.guess.rank then g
      else
        let inp := substr c.input g.start (g.stop - g.start)
        { g with status := .guess, menu := some (translateP cfg inp g), selIdx := 0 }) }

/-- ConcreteEngine::Compose with the punctuation components -/
def composeP (cfg : PSegCfg) (input : Bytes) (caret : Nat) (c : Comp) : Comp :=
  let active := input.take caret
  let c1 := c.reset active
  let c2 := if caret < input.length ∧ caret = c1.confirmedPos then c1.reset input else c1
  translateSegmentsP cfg (calculateSegmentationP cfg caret c2)

end RimeModel.Session
