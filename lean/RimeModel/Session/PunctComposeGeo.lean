import RimeModel.Session.PunctComposeOK
import RimeModel.Session.GeoCompose
/-! `composeP` (abc + punct + fallback segmentors, punct translator + oracle + filter) preserves the geometric
invariant: `composeP_geo_spec`, under `TranslateGeo` on the oracle and `FilterSub` on the filter (a filter only
removes or reorders candidates).  Mirrors `Session/GeoCompose.lean`, whose lemmas about `Reset`, the abc and
fallback segmentors, `Forward` and `Trim` are reused unchanged. -/
namespace RimeModel.Session

/-- HYPOTHESIS on the schema's filters: every candidate they let through was produced by a translator -/
def FilterSub (f : List Cand → List Cand) : Prop := ∀ l, ∀ cd ∈ f l, cd ∈ l

theorem segGeo_punctSeg (k : Nat) : SegGeo (punctSeg k) :=
  ⟨by show k ≤ k + 1; omega, candGeo_of_menu_none rfl⟩

/-- PunctSegmentor::Proceed adds `[k, k+1)` only when `input[k]` exists -/
theorem punctProceed_geo (m : List (UInt8 × PunctDef)) {c : Comp} (h : LoopInv c) : LoopInv (punctProceed m c).1 := by
  unfold punctProceed
  dsimp only
  split
  · exact h
  · split
    · exact h
    · rename_i ch hch
      have hk : c.currentStart < c.input.length := (List.getElem?_eq_some_iff.mp hch).1
      split
      · exact h
      · split
        · exact h
        · exact addSegment_loopInv h (segGeo_punctSeg _) (by show c.currentStart + 1 ≤ _; omega)

theorem segStepP_geo (cfg : PSegCfg) {c : Comp} (h : LoopInv c) : LoopInv (segStepP cfg c) := by
  unfold segStepP
  have h1 := punctProceed_geo cfg.punct (abcProceed_geo cfg.toSegCfg h).1
  dsimp only
  split
  · exact (fallbackProceed_geo h1).1
  · exact h1

theorem segLoopG_geo {step : Comp → Comp} (hstep : ∀ c, LoopInv c → LoopInv (step c)) (caret : Nat) :
    ∀ (fuel : Nat) {c : Comp}, LoopInv c → LoopInv (segLoopG step caret fuel c)
  | 0, _, h => h
  | fuel + 1, c, h => by
    have h1 := hstep c h
    unfold segLoopG
    split
    · exact h
    · dsimp only
      split
      · exact h1
      · split
        · exact h1
        · split
          · exact segLoopG_geo hstep caret fuel (forward_loopInv h1)
          · exact segLoopG_geo hstep caret fuel h1

theorem calculateSegmentationP_geo (cfg : PSegCfg) (caret : Nat) {c : Comp} (h : LoopInv c) :
    LoopInv (calculateSegmentationP cfg caret c) :=
  forwardIfSelected_geo (trimUnlessPlaceholder_geo (segLoopG_geo (fun _ hc => segStepP_geo cfg hc) caret _ h))

/-- every candidate of the punct translator spans its segment -/
theorem punctTranslate_stop (m : List (UInt8 × PunctDef)) (inp : Bytes) (g : Seg) :
    ∀ cd ∈ punctTranslate m inp g, cd.stop = g.stop := by
  intro cd hcd
  unfold punctTranslate at hcd
  split at hcd
  · simp at hcd
  · split at hcd
    · split at hcd
      · rename_i d _
        unfold punctDefCands at hcd
        cases d <;> simp only [List.mem_cons, List.mem_map, List.mem_nil_iff, or_false] at hcd
        · rw [hcd]; rfl
        · obtain ⟨t, _, rfl⟩ := hcd; rfl
        · rw [hcd]; rfl
        · rcases hcd with rfl | rfl <;> rfl
      · simp at hcd
    · simp at hcd

/-- the merged, filtered candidate list of `composeP` meets the geometric requirement whenever the oracle does -/
theorem translateP_geo (cfg : PSegCfg) (htr : TranslateGeo cfg.toSegCfg) (hf : FilterSub cfg.filter) :
    ∀ inp g, g.start ≤ g.stop → ∀ cd ∈ translateP cfg inp g, g.start ≤ cd.stop := by
  intro inp g hg cd hcd
  unfold translateP at hcd
  rcases List.mem_append.mp (hf _ cd hcd) with h | h
  · rw [punctTranslate_stop _ _ _ cd h]; exact hg
  · exact htr inp g hg cd h

theorem translateSegmentsP_geo (cfg : PSegCfg) (htr : TranslateGeo cfg.toSegCfg) (hf : FilterSub cfg.filter) {c : Comp}
    (h : LoopInv c) : LoopInv (translateSegmentsP cfg c) := by
  unfold translateSegmentsP
  have hs : ∀ g : Seg, (if g.status.rank ≥ Status.guess.rank then g else
      { g with status := .guess, menu := some (translateP cfg (substr c.input g.start (g.stop - g.start)) g),
               selIdx := 0 }).start = g.start := by
    intro g; split <;> rfl
  have he : ∀ g : Seg, (if g.status.rank ≥ Status.guess.rank then g else
      { g with status := .guess, menu := some (translateP cfg (substr c.input g.start (g.stop - g.start)) g),
               selIdx := 0 }).stop = g.stop := by
    intro g; split <;> rfl
  refine ⟨geoOK_map hs he ?_ h.1, ?_⟩
  · intro g hg
    split
    · exact hg
    · refine ⟨hg.1, ?_⟩
      intro l hl cd hcd
      simp only [Option.some.injEq] at hl
      subst hl
      exact translateP_geo cfg htr hf _ g hg.1 cd hcd
  · show endOf (c.segs.map _) ≤ c.input.length
    rw [endOf_map he]; exact h.2

theorem composeP_eq (cfg : PSegCfg) (input : Bytes) (caret : Nat) (c : Comp) :
    composeP cfg input caret c =
      translateSegmentsP cfg (calculateSegmentationP cfg caret (resetStage input caret c)) := rfl

theorem composeP_loopInv (cfg : PSegCfg) (htr : TranslateGeo cfg.toSegCfg) (hf : FilterSub cfg.filter) {c : Comp}
    (h : GeoOK c.segs) (input : Bytes) (caret : Nat) : LoopInv (composeP cfg input caret c) := by
  rw [composeP_eq]
  exact translateSegmentsP_geo cfg htr hf (calculateSegmentationP_geo cfg caret (resetStage_geo h input caret))

/-- the Compose with punctuation components satisfies the hypothesis of the geometric session theorems, for every
punctuation mapping and alphabet configuration, every oracle whose candidates end after their segment's start and
every filter that only removes or reorders candidates -/
theorem composeP_geo_spec (cfg : PSegCfg) (htr : TranslateGeo cfg.toSegCfg) (hf : FilterSub cfg.filter) :
    ComposeGeoSpec (composeP cfg) :=
  ⟨fun input caret _ h => (composeP_loopInv cfg htr hf h input caret).1,
   fun input caret _ h => (composeP_loopInv cfg htr hf h input caret).bounded⟩

end RimeModel.Session
